(* C17, the process level: several runner invocations / registry runs in one process (C17_ModelP.v).
   Main result: on every valid session the process-level model yields exactly the observation of the registry-level model on
   the session with command lines, switch calls and the throw / fail difference erased -- so every run, whatever ran before it
   and whatever switches that left behind, is judged (and proved) like a run on its own. *)
From Coq Require Import NArith Arith Bool List Lia.
From CppUVerif Require Import gen.Gen_Common C17_Model C17_Proofs C17_Links C17_Chain C17_Run C17_ModelP.
Import ListNotations.

(* ================================================================= a phase, a test: throwing vs. leaving the phase *)
Lemma yexec_lower ss : forall st,
  xexec st (map lower_stmt ss) = (fst (yexec st ss), is_done (snd (yexec st ss))).
Proof.
  induction ss as [|y ss IH]; intro st; cbn [map yexec xexec fst snd]; [reflexivity|].
  destruct y as [[s|a]|b]; cbn [lower_stmt xexec].
  - destruct (exec_stmt (s_mem st) (s_tbl st) s) as [[m1 tb1] [|]]; [apply IH|reflexivity].
  - apply IH.
  - cbn [exec_stmt]. destruct st; reflexivity.
Qed.

Lemma yexec_no_throw ss : forall st, existsb is_throw ss = false -> is_thrown (snd (yexec st ss)) = false.
Proof.
  induction ss as [|y ss IH]; intros st H; cbn [yexec snd]; [reflexivity|].
  cbn [existsb] in H. apply orb_false_iff in H. destruct H as [Hy H].
  destruct y as [[s|a]|b]; [| |discriminate Hy].
  - destruct (exec_stmt (s_mem st) (s_tbl st) s) as [[m1 tb1] [|]]; [apply IH; exact H|reflexivity].
  - apply IH. exact H.
Qed.

Lemma quiet_phase rt ss st : rt && existsb is_throw ss = false -> rt && is_thrown (snd (yexec st ss)) = false.
Proof. destruct rt; cbn [andb]; [apply yexec_no_throw|reflexivity]. Qed.

Lemma has_throw_split rt t : rt && has_throw t = false ->
  rt && existsb is_throw (y_setup t) = false /\ rt && existsb is_throw (y_body t) = false /\ rt && existsb is_throw (y_teardown t) = false.
Proof.
  unfold has_throw, y_all. rewrite !existsb_app. destruct rt; cbn [andb]; [|repeat split].
  intro H. apply orb_false_iff in H. destruct H as [H1 H]. apply orb_false_iff in H. destruct H as [H2 H3]. repeat split; assumption.
Qed.

(* where exceptions are not rethrown -- or nothing throws -- Utest::run is the old Utest::run on the test with every throw read as
   a statement that leaves its phase, and no exception leaves it *)
Lemma yexec_test_lower rt st t : rt && has_throw t = false ->
  yexec_test rt st t = (fst (xexec_test st (lower t)), snd (xexec_test st (lower t)), false).
Proof.
  intro H. destruct (has_throw_split rt t H) as [H1 [H2 H3]].
  unfold yexec_test, xexec_test, lower. cbn [x_setup x_body x_teardown].
  rewrite (yexec_lower (y_setup t) st).
  pose proof (quiet_phase rt (y_setup t) st H1) as Q1.
  destruct (yexec st (y_setup t)) as [st2 o1]. cbn [fst snd] in *. rewrite Q1.
  assert (E2 : (if is_done o1 then xexec st2 (map lower_stmt (y_body t)) else (st2, true)) =
               (fst (if is_done o1 then yexec st2 (y_body t) else (st2, Done)), is_done (snd (if is_done o1 then yexec st2 (y_body t) else (st2, Done))))).
  { destruct (is_done o1); [apply yexec_lower|reflexivity]. }
  rewrite E2.
  assert (Q2 : rt && is_thrown (snd (if is_done o1 then yexec st2 (y_body t) else (st2, Done))) = false).
  { destruct (is_done o1); [apply quiet_phase; exact H2|cbn; apply andb_false_r]. }
  destruct (if is_done o1 then yexec st2 (y_body t) else (st2, Done)) as [st3 o2]. cbn [fst snd] in *. rewrite Q2.
  rewrite (yexec_lower (y_teardown t) st3).
  pose proof (quiet_phase rt (y_teardown t) st3 H3) as Q3.
  destruct (yexec st3 (y_teardown t)) as [st4 o3]. cbn [fst snd] in *. rewrite Q3. reflexivity.
Qed.

Lemma run_ytest_lower rt st t : rt && has_throw t = false ->
  run_ytest rt st t = (fst (run_xtest st (lower t)), snd (run_xtest st (lower t)), false).
Proof.
  intro H. unfold run_ytest, run_xtest.
  destruct (walk false (s_chain {| s_mem := s_mem st; s_tbl := s_tbl st; s_reg := s_reg st; s_T := [] |})
                 {| s_mem := s_mem st; s_tbl := s_tbl st; s_reg := s_reg st; s_T := [] |} []) as [st1 pre].
  rewrite (yexec_test_lower rt st1 t H).
  destruct (xexec_test st1 (lower t)) as [st4 failed]. cbn [fst snd].
  destruct (walk true (rev (s_chain {| s_mem := s_mem st; s_tbl := s_tbl st; s_reg := s_reg st; s_T := [] |})) st4 []) as [st5 post].
  reflexivity.
Qed.

Lemma throws_tail rt t ts : rt && existsb has_throw (t :: ts) = false -> rt && has_throw t = false /\ rt && existsb has_throw ts = false.
Proof. cbn [existsb]. destruct rt; cbn [andb]; [|split; reflexivity]. intro H. apply orb_false_iff in H. exact H. Qed.

(* runAllTests in the current process *)
Lemma run_ytests_lower rt ts : forall st, rt && existsb has_throw ts = false ->
  run_ytests rt false st ts = (fst (run_tests st (map lower ts)), snd (run_tests st (map lower ts)), false).
Proof.
  induction ts as [|t ts IH]; intros st H; cbn [run_ytests map run_tests fst snd]; [reflexivity|].
  destruct (throws_tail rt t ts H) as [Ht Hts]. rewrite (run_ytest_lower rt st t Ht).
  destruct (run_xtest st (lower t)) as [st1 it]. cbn [fst snd]. rewrite (IH st1 Hts).
  destruct (run_tests st1 (map lower ts)) as [st2 its]. reflexivity.
Qed.

(* ================================================================= tests that leave the registry alone *)
(* no acting plugin exists *)
Definition calm (r : reg) : Prop := forall p, In p (all r) -> is_actor p = false.

Lemma calm_chain r : calm r -> forall p, In p (r_chain r) -> is_actor p = false.
Proof. intros H p Hp. apply H. apply in_or_app. left. exact Hp. Qed.

Lemma is_actor_with_on p b : is_actor (with_on p b) = is_actor p.
Proof. reflexivity. Qed.

Lemma in_set_on i b c q : In q (set_on i b c) -> exists p, In p c /\ is_actor q = is_actor p.
Proof.
  unfold set_on. intro H. apply in_map_iff in H. destruct H as [p [E Hp]]. exists p. split; [exact Hp|].
  destruct (Nat.eqb (p_id p) i); subst q; reflexivity.
Qed.

Lemma calm_install r p : calm r -> is_actor p = false -> calm (reg_install r p).
Proof.
  intros H Hp q Hq. unfold all in Hq. cbn [reg_install r_chain r_out] in Hq. cbn [app] in Hq.
  destruct Hq as [<-|Hq]; [exact Hp|apply H; exact Hq].
Qed.

Lemma calm_act r a : calm r -> calm (reg_act without r a).
Proof.
  intros H. destruct a as [n k|n|i|i| |i]; cbn [reg_act].
  - apply calm_install; [exact H|reflexivity].
  - intros q Hq. unfold all in Hq. cbn [reg_set r_chain r_out] in Hq. apply H. unfold all.
    apply in_app_or in Hq. destruct Hq as [Hq|Hq].
    + unfold without in Hq. apply filter_In in Hq. apply in_or_app. left. exact (proj1 Hq).
    + apply in_app_or in Hq. destruct Hq as [Hq|Hq]; [apply filter_In in Hq; apply in_or_app; left; exact (proj1 Hq)|apply in_or_app; right; exact Hq].
  - intros q Hq. unfold all in Hq. cbn [reg_set r_chain r_out] in Hq. apply in_app_or in Hq.
    destruct Hq as [Hq|Hq]; destruct (in_set_on _ _ _ _ Hq) as [p [Hp E]]; rewrite E; apply H; apply in_or_app; [left|right]; exact Hp.
  - intros q Hq. unfold all in Hq. cbn [reg_set r_chain r_out] in Hq. apply in_app_or in Hq.
    destruct Hq as [Hq|Hq]; destruct (in_set_on _ _ _ _ Hq) as [p [Hp E]]; rewrite E; apply H; apply in_or_app; [left|right]; exact Hp.
  - intros q Hq. unfold all in Hq. cbn [reg_set r_chain r_out app] in Hq. apply H. exact Hq.
  - destruct (find_id i (r_out r)) as [p|] eqn:Ef; intros q Hq; unfold all in Hq; cbn [reg_set r_chain r_out] in Hq; apply H; unfold all.
    + cbn [app] in Hq. destruct Hq as [<-|Hq].
      * apply in_or_app. right. unfold find_id in Ef. apply find_some in Ef. exact (proj1 Ef).
      * apply in_app_or in Hq. destruct Hq as [Hq|Hq]; apply in_or_app; [left; exact Hq|right].
        unfold take_id in Hq. apply filter_In in Hq. exact (proj1 Hq).
    + exact Hq.
Qed.

Lemma xacts_quiet ss : existsb is_yact ss = false -> xacts (map lower_stmt ss) = [].
Proof.
  induction ss as [|y ss IH]; intro H; cbn [map xacts]; [reflexivity|].
  cbn [existsb] in H. apply orb_false_iff in H. destruct H as [Hy H].
  destruct y as [[s|a]|b]; cbn [lower_stmt xacts]; [apply IH; exact H|discriminate Hy|apply IH; exact H].
Qed.

Lemma quiet_stmt_acts t : has_acts t = false -> stmt_acts (lower t) = [].
Proof.
  unfold has_acts, y_all, stmt_acts, lower. cbn [x_setup x_body x_teardown]. rewrite !existsb_app.
  intro H. apply orb_false_iff in H. destruct H as [H1 H]. apply orb_false_iff in H. destruct H as [H2 H3].
  rewrite !xacts_quiet by assumption. reflexivity.
Qed.

Lemma quiet_test_acts c t : (forall p, In p c -> is_actor p = false) -> stmt_acts t = [] -> test_acts c t = [].
Proof.
  intros Hna Hst. unfold test_acts. rewrite (armed_no_actor _ _ Hna), (ref_test_acts_nil t Hst).
  rewrite (armed_no_actor true (rev c)) by (intros p Hp; apply Hna; apply in_rev; exact Hp). reflexivity.
Qed.

Lemma acts_tail t ts : existsb has_acts (t :: ts) = false -> has_acts t = false /\ existsb has_acts ts = false.
Proof. cbn [existsb]. intro H. apply orb_false_iff in H. exact H. Qed.

(* a valid run of such tests on a registry without acting plugins ends with the registry it started with *)
Lemma valid_tests_quiet ts : forall r r', calm r -> existsb has_acts ts = false ->
  valid_tests r (map lower ts) = Some r' -> r' = r.
Proof.
  induction ts as [|t ts IH]; intros r r' Hc Hq Hv; cbn [map valid_tests] in Hv; [inversion Hv; reflexivity|].
  destruct (acts_tail t ts Hq) as [Ht Hts].
  rewrite (quiet_test_acts (r_chain r) (lower t) (calm_chain r Hc) (quiet_stmt_acts t Ht)) in Hv.
  cbn [tb_acts fold_left fst] in Hv.
  destruct (xtest_ok (r_chain r) (lower t) && acts_ok r []); [|discriminate Hv]. apply (IH r r' Hc Hts Hv).
Qed.

Lemma state_eta st st1 : s_tbl st1 = s_tbl st -> s_reg st1 = s_reg st -> parent_view st st1 = st1.
Proof. intros H1 H2. unfold parent_view. rewrite <- H1, <- H2. destruct st1; reflexivity. Qed.

(* runAllTests with every test in a forked child: for such tests the parent loses nothing it would have had *)
Lemma run_ytests_sep rt ts : forall st r', rt && existsb has_throw ts = false -> good st -> calm (s_reg st) ->
  existsb has_acts ts = false -> valid_tests (s_reg st) (map lower ts) = Some r' ->
  run_ytests rt true st ts = (fst (run_tests st (map lower ts)), snd (run_tests st (map lower ts)), false).
Proof.
  induction ts as [|t ts IH]; intros st r' H Hg Hc Hq Hv; cbn [run_ytests map run_tests fst snd]; [reflexivity|].
  destruct (throws_tail rt t ts H) as [Ht Hts]. destruct (acts_tail t ts Hq) as [Qt Qts].
  unfold run_ytest_sep. rewrite (run_ytest_lower rt st t Ht).
  cbn [map valid_tests] in Hv.
  pose proof (quiet_test_acts (r_chain (s_reg st)) (lower t) (calm_chain _ Hc) (quiet_stmt_acts t Qt)) as Ea.
  rewrite Ea in Hv. cbn [tb_acts fold_left fst] in Hv.
  destruct (xtest_ok (r_chain (s_reg st)) (lower t)) eqn:Hok; [|discriminate Hv]. cbn [acts_ok andb] in Hv.
  destruct Hg as [Hw [Htb Hl]].
  destruct (run_xtest_ok st (lower t) Hw Htb Hok) as [R1 [R2 _]]. unfold s_chain in R1. rewrite Ea in R1. cbn [tb_acts fold_left fst] in R1.
  destruct (run_xtest st (lower t)) as [st1 it]. cbn [fst snd] in *.
  rewrite (state_eta st st1) by (first [exact R1|rewrite R2, Htb; reflexivity]).
  assert (Hg1 : good st1) by (split; [rewrite R1; exact Hw|split; [exact R2|rewrite R1; exact Hl]]).
  assert (Hc1 : calm (s_reg st1)) by (rewrite R1; exact Hc).
  rewrite <- R1 in Hv. rewrite (IH st1 r' Hts Hg1 Hc1 Qts Hv).
  destruct (run_tests st1 (map lower ts)) as [st2 its]. reflexivity.
Qed.

Lemma run_ytests_sim rt sep ts st r' : rt && existsb has_throw ts = false -> good st ->
  valid_tests (s_reg st) (map lower ts) = Some r' ->
  (sep = true -> existsb has_acts ts = false /\ calm (s_reg st)) ->
  run_ytests rt sep st ts = (fst (run_tests st (map lower ts)), snd (run_tests st (map lower ts)), false).
Proof.
  intros H Hg Hv Hs. destruct sep; [|apply run_ytests_lower; exact H].
  destruct (Hs eq_refl) as [Hq Hc]. apply (run_ytests_sep rt ts st r' H Hg Hc Hq Hv).
Qed.

(* the repetitions of -r *)
Lemma map_yreps rep ts : map lower (yreps rep ts) = reps rep (map lower ts).
Proof.
  unfold yreps, reps. induction rep as [|n IH]; cbn [repeat concat map]; [reflexivity|]. rewrite map_app, IH. reflexivity.
Qed.
Lemma existsb_yreps (f : ytest -> bool) rep ts : existsb f ts = false -> existsb f (yreps rep ts) = false.
Proof.
  intro H. unfold yreps. induction rep as [|n IH]; cbn [repeat concat existsb]; [reflexivity|]. rewrite existsb_app, H, IH. reflexivity.
Qed.

(* ================================================================= sessions *)
Lemma plain_items_app l r : plain_items (map PI l ++ r) = match plain_items r with Some r' => Some (l ++ r') | None => None end.
Proof.
  induction l as [|i l IH]; cbn [map app plain_items]; [destruct (plain_items r); reflexivity|].
  rewrite IH. destruct (plain_items r); reflexivity.
Qed.
Lemma plain_items_map l : plain_items (map PI l) = Some l.
Proof. rewrite <- (app_nil_r (map PI l)), plain_items_app. cbn. rewrite app_nil_r. reflexivity. Qed.

Lemma run_from_app a : forall st b, run_from st (a ++ b) = run_from st a ++ run_from (exec_ops st a) b.
Proof.
  induction a as [|o a IH]; intros st b; cbn [app run_from exec_ops]; [reflexivity|]. rewrite IH, app_assoc. reflexivity.
Qed.
Lemma exec_ops_app a : forall st b, exec_ops st (a ++ b) = exec_ops (exec_ops st a) b.
Proof. induction a as [|o a IH]; intros st b; cbn [app exec_ops]; [reflexivity|]. apply IH. Qed.

(* what holds between the operations of a valid process-level session.  coff = "exceptions are certainly not rethrown in a
   registry run now" (the bookkeeping of throws_ok) *)
Definition Pinv (coff : bool) (P : pstate) (s : list pop) : Prop :=
  p_dead P = false /\ good (p_st P) /\ valid_from (s_reg (p_st P)) (lower_session s) = true /\
  forallb shape_ok s = true /\ throws_ok coff s = true /\ (coff = true -> g_rethrow (p_g P) = false) /\
  (p_sep P = true \/ existsb uses_sep s = true -> forallb quiet_op s = true /\ calm (s_reg (p_st P))).

Definition next_coff (coff : bool) (o : pop) : bool :=
  match o with PRunner cl _ => coff && cl_e cl | PRethrow b => negb b | _ => coff end.

Lemma calm_step st o : reg_op o = true -> quiet_op (PReg o) = true -> calm (s_reg st) -> calm (s_reg (fst (step st o))).
Proof.
  intros Hr Hq Hc. destruct o; try discriminate Hr; try discriminate Hq; cbn [step fst do_act s_reg]; rewrite reg_act_without; apply calm_act; exact Hc.
Qed.

Lemma rt_off coff rt x : (coff = true -> rt = false) -> coff || negb x = true -> rt && x = false.
Proof. intros H1 H2. destruct coff; [rewrite (H1 eq_refl); reflexivity|]. cbn [orb] in H2. destruct x; [discriminate H2|apply andb_false_r]. Qed.

Lemma pstep_sim coff P o s : Pinv coff P (o :: s) ->
  Pinv (next_coff coff o) (fst (pstep P o)) s /\
  snd (pstep P o) = map PI (run_from (p_st P) (lower_op o)) /\
  p_st (fst (pstep P o)) = exec_ops (p_st P) (lower_op o) /\
  g_stale (p_g (fst (pstep P o))) = g_stale (p_g P).
Proof.
  intros [Hd [Hg [Hv [Hsh [Hth [Hco Hq]]]]]].
  cbn [forallb] in Hsh. apply andb_true_iff in Hsh. destruct Hsh as [Hsh1 Hsh].
  unfold lower_session in Hv. cbn [flat_map] in Hv. fold (lower_session s) in Hv.
  assert (HQ : p_sep P || uses_sep o = true \/ existsb uses_sep s = true -> forallb quiet_op s = true /\ quiet_op o = true /\ calm (s_reg (p_st P))).
  { intro H. assert (H' : p_sep P = true \/ existsb uses_sep (o :: s) = true).
    { cbn [existsb]. destruct H as [H|H]; [apply orb_true_iff in H; destruct H as [H|H]; [left; exact H|right; rewrite H; reflexivity]|right; rewrite H; apply orb_true_r]. }
    destruct (Hq H') as [Q1 Q2]. cbn [forallb] in Q1. apply andb_true_iff in Q1. destruct Q1 as [Q0 Q1]. repeat split; assumption. }
  unfold pstep, pstep_with. rewrite Hd.
  destruct o as [o'|t|ts|cl ts|b|b]; cbn [lower_op app] in Hv; cbn [lower_op run_from exec_ops next_coff uses_sep] in *.
  - (* registry operation *)
    cbn [shape_ok] in Hsh1. cbn [throws_ok] in Hth.
    destruct (step_ok (p_st P) o' (lower_session s) Hg Hv) as [G [V _]].
    destruct (step (p_st P) o') as [st1 its] eqn:Es. cbn [fst snd mkP p_st p_g p_sep p_dead] in *. rewrite app_nil_r.
    split; [|repeat split].
    split; [reflexivity|]. split; [exact G|]. split; [exact V|]. split; [exact Hsh|]. split; [exact Hth|]. split; [exact Hco|].
    intro H. rewrite orb_false_r in HQ. destruct (HQ H) as [Q1 [Q0 Qc]]. split; [exact Q1|].
    pose proof (calm_step (p_st P) o' Hsh1 Q0 Qc) as C. rewrite Es in C. exact C.
  - (* one test through the registry *)
    cbn [throws_ok] in Hth. apply andb_true_iff in Hth. destruct Hth as [Ht Hth].
    destruct (step_ok (p_st P) (OTest (lower t)) (lower_session s) Hg Hv) as [G [V _]].
    cbn [valid_from] in Hv. destruct (valid_tests (s_reg (p_st P)) [lower t]) as [r'|] eqn:Hvt; [|discriminate Hv].
    assert (Hrt : g_rethrow (p_g P) && existsb has_throw [t] = false).
    { cbn [existsb]. rewrite orb_false_r. apply (rt_off coff); assumption. }
    assert (Hs : p_sep P = true -> existsb has_acts [t] = false /\ calm (s_reg (p_st P))).
    { intro H. rewrite orb_false_r in HQ. destruct (HQ (or_introl H)) as [_ [Q0 Qc]]. split; [|exact Qc].
      cbn [quiet_op] in Q0. cbn [existsb]. rewrite orb_false_r. apply negb_true_iff. exact Q0. }
    rewrite (run_ytests_sim _ _ [t] (p_st P) r' Hrt Hg Hvt Hs).
    destruct (run_tests_ok [lower t] (p_st P) r' Hg Hvt) as [R1 _].
    cbn [map run_tests step fst snd] in *. destruct (run_xtest (p_st P) (lower t)) as [st1 it]. cbn [fst snd mkP p_st p_g p_sep p_dead] in *.
    rewrite app_nil_r. split; [|repeat split].
    split; [reflexivity|]. split; [exact G|]. split; [exact V|]. split; [exact Hsh|]. split; [exact Hth|]. split; [exact Hco|].
    intro H. rewrite orb_false_r in HQ. destruct (HQ H) as [Q1 [Q0 Qc]]. split; [exact Q1|].
    cbn [quiet_op] in Q0. apply negb_true_iff in Q0.
    assert (E : r' = s_reg (p_st P)).
    { apply (valid_tests_quiet [t] (s_reg (p_st P)) r' Qc); [cbn [existsb]; rewrite Q0; reflexivity|exact Hvt]. }
    cbn [mkP p_st]. rewrite R1, E. exact Qc.
  - (* runAllTests *)
    cbn [throws_ok] in Hth. apply andb_true_iff in Hth. destruct Hth as [Ht Hth].
    destruct (step_ok (p_st P) (ORun (map lower ts)) (lower_session s) Hg Hv) as [G [V _]].
    cbn [valid_from] in Hv. destruct (valid_tests (s_reg (p_st P)) (map lower ts)) as [r'|] eqn:Hvt; [|discriminate Hv].
    assert (Hrt : g_rethrow (p_g P) && existsb has_throw ts = false) by (apply (rt_off coff); assumption).
    assert (Hs : p_sep P = true -> existsb has_acts ts = false /\ calm (s_reg (p_st P))).
    { intro H. rewrite orb_false_r in HQ. destruct (HQ (or_introl H)) as [_ [Q0 Qc]]. split; [|exact Qc].
      cbn [quiet_op] in Q0. apply negb_true_iff. exact Q0. }
    rewrite (run_ytests_sim _ _ ts (p_st P) r' Hrt Hg Hvt Hs).
    destruct (run_tests_ok (map lower ts) (p_st P) r' Hg Hvt) as [R1 _].
    cbn [step fst snd] in *. destruct (run_tests (p_st P) (map lower ts)) as [st1 its]. cbn [fst snd mkP p_st p_g p_sep p_dead] in *.
    rewrite app_nil_r. split; [|repeat split].
    split; [reflexivity|]. split; [exact G|]. split; [exact V|]. split; [exact Hsh|]. split; [exact Hth|]. split; [exact Hco|].
    intro H. rewrite orb_false_r in HQ. destruct (HQ H) as [Q1 [Q0 Qc]]. split; [exact Q1|].
    cbn [quiet_op] in Q0. apply negb_true_iff in Q0.
    cbn [mkP p_st]. rewrite R1, (valid_tests_quiet ts (s_reg (p_st P)) r' Qc Q0 Hvt). exact Qc.
  - (* the command line runner *)
    cbn [throws_ok] in Hth. apply andb_true_iff in Hth. destruct Hth as [Ht Hth].
    destruct (step_ok (p_st P) (ORunner (cl_rep cl) (map lower ts)) (lower_session s) Hg Hv) as [G [V _]].
    cbn [valid_from] in Hv. apply andb_true_iff in Hv. destruct Hv as [_ Hv].
    set (st0 := install (p_st P) (runner_plugin (s_next (p_st P)))) in *.
    assert (G0 : good st0) by (apply good_install; [exact Hg|reflexivity|right; exact I]).
    change (reg_install (s_reg (p_st P)) (runner_plugin (r_next (s_reg (p_st P))))) with (s_reg st0) in Hv.
    destruct (valid_tests (s_reg st0) (reps (cl_rep cl) (map lower ts))) as [r'|] eqn:Hvt; [|discriminate Hv].
    rewrite <- map_yreps in Hvt.
    assert (Hrt : g_rethrow (runner_globals cl (p_g P)) && existsb has_throw (yreps (cl_rep cl) ts) = false).
    { cbn [runner_globals g_rethrow]. destruct (cl_e cl); [reflexivity|]. cbn [orb negb andb] in *. apply negb_true_iff in Ht.
      apply existsb_yreps. exact Ht. }
    assert (C0 : calm (s_reg (p_st P)) -> calm (s_reg st0)).
    { intro C. unfold st0. cbn [install s_reg]. apply calm_install; [exact C|reflexivity]. }
    assert (Hs : p_sep P || cl_p cl = true -> existsb has_acts (yreps (cl_rep cl) ts) = false /\ calm (s_reg st0)).
    { intro H. destruct (HQ (or_introl H)) as [_ [Q0 Qc]]. split; [|exact (C0 Qc)].
      cbn [quiet_op] in Q0. apply negb_true_iff in Q0. apply existsb_yreps. exact Q0. }
    rewrite (run_ytests_sim _ _ (yreps (cl_rep cl) ts) st0 r' Hrt G0 Hvt Hs).
    destruct (run_tests_ok _ st0 r' G0 Hvt) as [R1 _].
    cbn [step fst snd] in *. fold st0 in G, V |- *. rewrite map_yreps in *.
    destruct (run_tests st0 (reps (cl_rep cl) (map lower ts))) as [st1 its]. cbn [fst snd mkP p_st p_g p_sep p_dead] in *.
    rewrite app_nil_r. split; [|repeat split].
    split; [reflexivity|]. split; [exact G|]. split; [exact V|]. split; [exact Hsh|]. split; [exact Hth|].
    split; [cbn [mkP p_g runner_globals g_rethrow]; intro H; apply andb_true_iff in H; rewrite (proj2 H); reflexivity|].
    intro H. destruct (HQ H) as [Q1 [Q0 Qc]]. split; [exact Q1|].
    cbn [quiet_op] in Q0. apply negb_true_iff in Q0.
    cbn [mkP p_st do_act s_reg]. rewrite reg_act_without. apply calm_act. rewrite R1.
    rewrite <- map_yreps in Hvt.
    rewrite (valid_tests_quiet (yreps (cl_rep cl) ts) (s_reg st0) r' (C0 Qc) (existsb_yreps _ _ _ Q0) Hvt). exact (C0 Qc).
  - (* UtestShell::setRethrowExceptions *)
    cbn [throws_ok] in Hth. cbn [fst snd mkP p_st p_g p_sep p_dead map g_rethrow g_stale]. split; [|repeat split].
    split; [reflexivity|]. split; [exact Hg|]. split; [exact Hv|]. split; [exact Hsh|]. split; [exact Hth|].
    split; [intro H; apply negb_true_iff in H; exact H|].
    intro H. rewrite orb_false_r in HQ. destruct (HQ H) as [Q1 [_ Qc]]. split; assumption.
  - (* crash on fail *)
    cbn [throws_ok] in Hth. cbn [fst snd mkP p_st p_g p_sep p_dead map g_rethrow g_stale]. split; [|repeat split].
    split; [reflexivity|]. split; [exact Hg|]. split; [exact Hv|]. split; [exact Hsh|]. split; [exact Hth|]. split; [exact Hco|].
    intro H. rewrite orb_false_r in HQ. destruct (HQ H) as [Q1 [_ Qc]]. split; assumption.
Qed.

(* on a valid session the process-level model yields the registry-level model's observation of the erased session; no
   exception leaves a run; the current-test / current-result statics are put back *)
Lemma prun_is_run s : forall coff P, Pinv coff P s ->
  plain_items (prun_from P s) = Some (run_from (p_st P) (lower_session s)) /\
  p_st (pexec P s) = exec_ops (p_st P) (lower_session s) /\
  p_dead (pexec P s) = false /\ g_stale (p_g (pexec P s)) = g_stale (p_g P).
Proof.
  induction s as [|o s IH]; intros coff P H.
  - cbn. destruct H as [Hd _]. repeat split. exact Hd.
  - destruct (pstep_sim coff P o s H) as [I [E1 [E2 E3]]].
    destruct (IH _ _ I) as [J1 [J2 [J3 J4]]].
    unfold prun_from, pexec in *. cbn [prun_from_with pexec_with]. fold (pstep P o).
    unfold lower_session. cbn [flat_map]. fold (lower_session s).
    rewrite E1, plain_items_app, J1, run_from_app, exec_ops_app, J2, J3, J4, E3, E2. repeat split.
Qed.

Lemma pinv_init s : pvalid s = true -> Pinv true init_pstate s.
Proof.
  unfold pvalid. intro H. apply andb_true_iff in H. destruct H as [H H4]. apply andb_true_iff in H. destruct H as [H H3].
  apply andb_true_iff in H. destruct H as [H1 H2].
  split; [reflexivity|]. split; [exact good_init|]. split; [exact H1|]. split; [exact H2|]. split; [exact H3|]. split; [reflexivity|].
  intros [Hs|Hs]; [discriminate Hs|]. unfold sep_ok in H4. rewrite Hs in H4. cbn [negb orb] in H4. split; [exact H4|].
  intros p [].
Qed.

Lemma prun_erases s : pvalid s = true -> plain_items (prun s) = Some (run (lower_session s)).
Proof. intro H. exact (proj1 (prun_is_run s true init_pstate (pinv_init s H))). Qed.

Lemma prun_meets_spec s : pvalid s = true -> pspec s (prun s) = true.
Proof.
  intro H. unfold pspec. rewrite (prun_erases s H). apply run_meets_spec.
  unfold pvalid in H. apply andb_true_iff in H. destruct H as [H _]. apply andb_true_iff in H. destruct H as [H _].
  apply andb_true_iff in H. exact (proj1 H).
Qed.

Lemma pvalid_prefix s1 : forall coff P s2, Pinv coff P (s1 ++ s2) -> exists coff', Pinv coff' (pexec P s1) s2.
Proof.
  induction s1 as [|o s1 IH]; intros coff P s2 H; cbn [app] in *; [exists coff; exact H|].
  destruct (pstep_sim coff P o (s1 ++ s2) H) as [I _]. unfold pexec. cbn [pexec_with]. apply (IH _ _ _ I).
Qed.

Lemma valid_from_prefix a : forall b r, valid_from r (a ++ b) = true -> valid_from r a = true.
Proof.
  induction a as [|o a IH]; intros b r Hv; [reflexivity|]. cbn [app] in Hv.
  destruct o; cbn [valid_from] in *; try (apply (IH b); exact Hv).
  - apply andb_true_iff in Hv. destruct Hv as [Hv1 Hv2]. rewrite Hv1. apply (IH b). exact Hv2.
  - destruct (valid_tests r [t]); [apply (IH b); exact Hv|discriminate Hv].
  - destruct (valid_tests r ts); [apply (IH b); exact Hv|discriminate Hv].
  - apply andb_true_iff in Hv. destruct Hv as [Hv1 Hv2]. rewrite Hv1. cbn [andb].
    destruct (valid_tests (reg_install r (runner_plugin (r_next r))) (reps rep ts)); [|discriminate Hv2].
    apply andb_true_iff in Hv2. destruct Hv2 as [Hv2 Hv3]. rewrite (IH b _ Hv3), andb_true_r.
    unfold runner_tail_ok in *. apply orb_true_iff in Hv2. apply orb_true_iff. destruct Hv2 as [Hv2|Hv2]; [left; exact Hv2|right].
    destruct a as [|o' a']; [reflexivity|]. cbn [app] in Hv2. exact Hv2.
Qed.
Lemma throws_ok_prefix s1 : forall s2 c, throws_ok c (s1 ++ s2) = true -> throws_ok c s1 = true.
Proof.
  induction s1 as [|o s1 IH]; intros s2 c E; [reflexivity|]. cbn [app] in E.
  destruct o as [o'|t|ts|cl ts|b|b]; cbn [throws_ok] in *; try (apply (IH s2); exact E);
  apply andb_true_iff in E; destruct E as [E1 E2]; rewrite E1; apply (IH s2); exact E2.
Qed.

(* after every prefix of a valid session: no exception has left a run, the statics are back, the table is empty, and -- this
   is what the runs that follow rely on -- nothing else of the earlier command lines is needed *)
Lemma between_runs s1 s2 : pvalid (s1 ++ s2) = true ->
  p_dead (pexec init_pstate s1) = false /\ g_stale (p_g (pexec init_pstate s1)) = false /\
  s_tbl (p_st (pexec init_pstate s1)) = [] /\ good (p_st (pexec init_pstate s1)).
Proof.
  intro H. destruct (pvalid_prefix s1 true init_pstate s2 (pinv_init _ H)) as [coff' [Hd [Hg _]]].
  assert (Hp : Pinv true init_pstate s1).
  { destruct (pinv_init _ H) as [A [B [C [D [E [F G]]]]]]. unfold lower_session in C. rewrite flat_map_app in C.
    fold (lower_session s1) in C. fold (lower_session s2) in C.
    split; [exact A|]. split; [exact B|]. split; [exact (valid_from_prefix _ _ _ C)|].
    rewrite forallb_app in D. apply andb_true_iff in D. split; [exact (proj1 D)|].
    split; [exact (throws_ok_prefix _ _ _ E)|]. split; [exact F|].
    intro Q. assert (Q' : p_sep init_pstate = true \/ existsb uses_sep (s1 ++ s2) = true).
    { destruct Q as [Q|Q]; [left; exact Q|right]. rewrite existsb_app, Q. reflexivity. }
    destruct (G Q') as [G1 G2]. rewrite forallb_app in G1. apply andb_true_iff in G1. split; [exact (proj1 G1)|exact G2]. }
  destruct (prun_is_run s1 true init_pstate Hp) as [_ [_ [J3 J4]]].
  split; [exact J3|]. split; [exact J4|]. split; [exact (proj1 (proj2 Hg))|exact Hg].
Qed.

(* ================================================================= a run depends on its own command line only *)
(* a runner invocation reads none of the process-wide switches it finds: whatever earlier runs or API calls left in them, the
   observation, the registry, the pointers, the rethrow switch afterwards are the same *)
Lemma runner_own_cmdline g g' sep st cl ts :
  let A := pstep (mkP g sep st false) (PRunner cl ts) in
  let B := pstep (mkP g' sep st false) (PRunner cl ts) in
  snd A = snd B /\ p_st (fst A) = p_st (fst B) /\ p_dead (fst A) = p_dead (fst B) /\ p_sep (fst A) = p_sep (fst B) /\
  g_rethrow (p_g (fst A)) = g_rethrow (p_g (fst B)).
Proof.
  unfold pstep, pstep_with. cbn [p_dead mkP p_g p_st p_sep runner_globals g_rethrow].
  destruct (run_ytests (negb (cl_e cl)) (sep || cl_p cl) (install st (runner_plugin (s_next st))) (yreps (cl_rep cl) ts)) as [[st1 its] [|]];
    cbn [fst snd p_st p_dead p_sep p_g g_rethrow escaped_globals]; repeat split.
Qed.

(* -v / -vv and -c (colour) have no part in it at all; -f only sets a switch nothing here reads *)
Lemma runner_output_options cl v c f P ts :
  snd (pstep P (PRunner {| cl_e := cl_e cl; cl_f := f; cl_p := cl_p cl; cl_v := v; cl_c := c; cl_rep := cl_rep cl |} ts)) =
  snd (pstep P (PRunner cl ts)).
Proof.
  unfold pstep, pstep_with. destruct (p_dead P); [reflexivity|]. cbn [cl_e cl_p cl_rep runner_globals g_rethrow].
  destruct (run_ytests (negb (cl_e cl)) (p_sep P || cl_p cl) (install (p_st P) (runner_plugin (s_next (p_st P)))) (yreps (cl_rep cl) ts)) as [[st1 its] [|]];
    reflexivity.
Qed.

(* so every run of a session behaves as it would in a fresh process on the same registry *)
Lemma runner_as_if_alone P cl ts : p_dead P = false ->
  snd (pstep P (PRunner cl ts)) = snd (pstep (mkP init_globals (p_sep P) (p_st P) false) (PRunner cl ts)).
Proof.
  intro Hd. destruct P as [g sep st d]. cbn [p_dead] in Hd. subst d. cbn [p_sep p_st].
  exact (proj1 (runner_own_cmdline g init_globals sep st cl ts)).
Qed.

(* ================================================================= examples, and what is not so *)
Definition cl0 : cmdline := {| cl_e := false; cl_f := false; cl_p := false; cl_v := 0; cl_c := false; cl_rep := 1 |}.
Definition cle : cmdline := {| cl_e := true; cl_f := false; cl_p := false; cl_v := 0; cl_c := false; cl_rep := 1 |}.
Definition clep : cmdline := {| cl_e := true; cl_f := true; cl_p := true; cl_v := 2; cl_c := true; cl_rep := 2 |}.
Definition yquiet : ytest := {| y_setup := []; y_body := []; y_teardown := [] |}.
Definition ythrower : ytest := {| y_setup := [YX (XS (SSet 0 5%N))]; y_body := [YThrow true]; y_teardown := [] |}.
Definition yinstaller : ytest := {| y_setup := []; y_body := [YX (XA (AInstall 2%N KPlain))]; y_teardown := [] |}.

(* the red team's sequence: a run without -e in which nothing throws, then a run with -e in which a test redirects a pointer
   and throws *)
Definition ex_two_runs : list pop := [PReg (OInstall 1%N KPlain); PRunner cl0 [yquiet]; PRunner cle [ythrower]].
Example ex_two_runs_valid : pvalid ex_two_runs = true.
Proof. vm_compute. reflexivity. Qed.
Example ex_two_runs_obs : prun ex_two_runs =
  [PI (ITest false [0] [0] init_mem); PI (IChain [0]); PI (ITest true [0] [0] init_mem); PI (IChain [0])].
Proof. vm_compute. reflexivity. Qed.
(* with a runner that only ever switches rethrowing ON the second run's exception leaves the runner: no post action, the
   pointer keeps the redirected value *)
Example ex_two_runs_only_on : prun_only_on ex_two_runs = [PI (ITest false [0] [0] init_mem); PI (IChain [0]); PEscaped].
Proof. vm_compute. reflexivity. Qed.
Lemma only_on_refuted : ~ (forall s, pvalid s = true -> pspec s (prun_only_on s) = true).
Proof. intro H. specialize (H ex_two_runs ex_two_runs_valid). vm_compute in H. discriminate H. Qed.

(* the direct API between registry runs, a run with -f -p -vv -c -r2 -e at the end *)
Definition ex_api : list pop :=
  [PReg (OInstall 1%N KSetPtr); PRethrow true; PTest yquiet; PRethrow false; PTest ythrower; PCrashOnFail true;
   PRunner cl0 [yquiet]; PRethrow false; PRun [ythrower; yquiet]; PRunner clep [ythrower]].
Example ex_api_valid : pvalid ex_api = true.
Proof. vm_compute. reflexivity. Qed.
Example ex_api_obs : plain_items (prun ex_api) =
  Some [ITest false [0] [0] init_mem; ITest true [0] [0] init_mem; ITest false [0] [0] init_mem; IChain [0];
        ITest true [0] [0] init_mem; ITest false [0] [0] init_mem; IChain [0];
        ITest true [0] [0] init_mem; ITest true [0] [0] init_mem; IChain [0]].
Proof. vm_compute. reflexivity. Qed.
Example ex_api_switches : p_g (pexec init_pstate ex_api) = {| g_rethrow := false; g_crash := true; g_stale := false |} /\
  p_sep (pexec init_pstate ex_api) = true.
Proof. vm_compute. split; reflexivity. Qed.

(* why `pvalid` asks for -e (or the switch off) where a test throws: with rethrowing on, the exception leaves the run, the
   test's post actions never happen and its pointer is not restored -- by design of that switch *)
Definition pvalid_any_throw (s : list pop) : bool := valid (lower_session s) && forallb shape_ok s && sep_ok s.
Definition ex_rethrown : list pop := [PReg (OInstall 1%N KSetPtr); PRethrow true; PTest ythrower].
Example ex_rethrown_obs : prun ex_rethrown = [PEscaped] /\
  rd (s_mem (p_st (pexec init_pstate ex_rethrown))) 0 = 5%N /\ g_stale (p_g (pexec init_pstate ex_rethrown)) = true.
Proof. vm_compute. repeat split. Qed.
Lemma rethrown_refuted : ~ (forall s, pvalid_any_throw s = true -> pspec s (prun s) = true).
Proof. intro H. specialize (H ex_rethrown eq_refl). vm_compute in H. discriminate H. Qed.

(* why `pvalid` keeps registry actions out of sessions that use -p: what a forked test does to the registry is lost with the
   child, the next test does not see the plugin *)
Definition pvalid_any_sep (s : list pop) : bool := valid (lower_session s) && forallb shape_ok s && throws_ok true s.
Definition clp : cmdline := {| cl_e := false; cl_f := false; cl_p := true; cl_v := 0; cl_c := false; cl_rep := 1 |}.
Definition ex_sep_acts : list pop := [PReg (OInstall 1%N KPlain); PRunner clp [yinstaller; yquiet]].
Lemma sep_actions_refuted : ~ (forall s, pvalid_any_sep s = true -> pspec s (prun s) = true).
Proof. intro H. specialize (H ex_sep_acts eq_refl). vm_compute in H. discriminate H. Qed.
