(* Types and interpreter for the branch table that tools/gen/C09.py regenerates from MockNamedValue::equals on every run. *)
From Coq Require Import ZArith Bool List.
From CppUVerif Require Import lib.CInt.
Import ListNotations.
Local Open Scope Z_scope.

Inductive side := Self | Other.
Record operand := { o_cast : option ity; o_side : side; o_field : ity }.
Record branch := { b_self : ity; b_other : ity; b_guard : option operand; b_l : operand; b_r : operand }.

(* An operand reads the union member o_field of one side.  Reading a member other than the one the value was stored in is
   not given a meaning (None): a branch that does so is not accepted by the theorems. *)
Definition opnd (o : operand) (t1 : ity) (z1 : Z) (t2 : ity) (z2 : Z) : option (ity * Z) :=
  let '(t, z) := match o_side o with Self => (t1, z1) | Other => (t2, z2) end in
  if ity_eqb (o_field o) t then
    Some match o_cast o with None => (t, z) | Some c => (c, cast c z) end
  else None.

Definition interp (b : branch) (z1 z2 : Z) : option bool :=
  let t1 := b_self b in let t2 := b_other b in
  match opnd (b_l b) t1 z1 t2 z2, opnd (b_r b) t1 z1 t2 z2 with
  | Some (ta, a), Some (tb, c) =>
      match b_guard b with
      | None => Some (c_eq ta a tb c)
      | Some g => match opnd g t1 z1 t2 z2 with
                  | Some (_, gv) => Some ((0 <=? gv) && c_eq ta a tb c)
                  | None => None end
      end
  | _, _ => None
  end.

(* the if/else-if chain takes the first branch whose two type tests succeed *)
Definition lookup (tbl : list branch) (t1 t2 : ity) : option branch :=
  find (fun b => ity_eqb (b_self b) t1 && ity_eqb (b_other b) t2) tbl.

Definition all_ity := [TInt; TUInt; TLong; TULong; TLLong; TULLong].
