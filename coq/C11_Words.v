(* C11 -- facts about wait-status words: finite sweeps (vm_compute over genuinely finite domains) lifted to quantified statements *)
From Coq Require Import NArith ZArith List Bool Arith Lia.
From CppUVerif Require Import gen.Gen_C11 C11_Model.
Import ListNotations.
Local Open Scope N_scope.

Fixpoint nrange_from (fuel : nat) (start : N) : list N :=
  match fuel with O => [] | S f => start :: nrange_from f (N.succ start) end.
Definition nrange (n : N) : list N := nrange_from (N.to_nat n) 0.
Lemma in_nrange_from : forall fuel start k, start <= k -> k < start + N.of_nat fuel -> In k (nrange_from fuel start).
Proof.
  induction fuel as [|f IH]; intros start k H1 H2; [simpl in H2; lia|].
  simpl. destruct (N.eq_dec start k) as [->|Hne]; [left; reflexivity|].
  right. apply IH; lia.
Qed.
Lemma in_nrange n k : k < n -> In k (nrange n).
Proof. intro H. unfold nrange. apply in_nrange_from; lia. Qed.

(* ---- partition of all 65536 words ---- *)
Definition b2n (b : bool) : nat := if b then 1%nat else 0%nat.
Definition word_partition_ok (w : N) : bool :=
  let e := wifexited w in let s := wifsignaled w in let t := wifstopped w in
  (* at most one class; none exactly for the low byte 0xff *)
  (b2n e + b2n s + b2n t <=? 1)%nat &&
  Bool.eqb ((b2n e + b2n s + b2n t =? 0)%nat) (N.land w 255 =? 255) &&
  (* the fields are the ones the layout names *)
  (wexitstatus w =? w / 256) && (wtermsig w =? w mod 128) &&
  Bool.eqb e (w mod 128 =? 0) && Bool.eqb s ((1 <=? w mod 128) && (w mod 128 <=? 126)) && Bool.eqb t (w mod 256 =? 127).
Lemma word_partition_all : forallb word_partition_ok (nrange 65536) = true.
Proof. vm_compute. reflexivity. Qed.
Lemma word_partition w : w < 65536 -> word_partition_ok w = true.
Proof. intro H. apply (proj1 (forallb_forall _ _) word_partition_all). apply in_nrange. exact H. Qed.

(* the macros only read the low 16 bits *)
Lemma land_low16 w m : m < 65536 -> N.land w m = N.land (w mod 65536) m.
Proof.
  intro H. change 65536 with (2 ^ 16). rewrite <- N.land_ones.
  rewrite <- N.land_assoc. f_equal.
  apply N.bits_inj. intro i. rewrite N.land_spec.
  destruct (N.ltb_spec i 16).
  - rewrite N.ones_spec_low by assumption. reflexivity.
  - rewrite N.ones_spec_high by assumption.
    assert (N.testbit m i = false); [|rewrite H1; reflexivity].
    destruct (N.eq_dec m 0) as [->|Hm]; [apply N.bits_0|].
    apply N.bits_above_log2. apply N.log2_lt_pow2; [lia|].
    apply N.lt_le_trans with (2 ^ 16); [exact H|]. apply N.pow_le_mono_r; lia.
Qed.
Lemma macros_low16 w :
  wifexited w = wifexited (w mod 65536) /\ wifsignaled w = wifsignaled (w mod 65536) /\ wifstopped w = wifstopped (w mod 65536) /\
  wexitstatus w = wexitstatus (w mod 65536) /\ wtermsig w = wtermsig (w mod 65536).
Proof.
  unfold wifexited, wifsignaled, wifstopped, wexitstatus, wtermsig.
  rewrite (land_low16 w 127), (land_low16 w 255), (land_low16 w 65280) by lia. repeat split; reflexivity.
Qed.
Lemma decode_low16 w : decode w = decode (w mod 65536).
Proof.
  unfold decode. destruct (macros_low16 w) as [-> [-> [-> [-> ->]]]]. reflexivity.
Qed.
Lemma set_failure_low16 w : set_failure_by_status w = set_failure_by_status (w mod 65536).
Proof.
  unfold set_failure_by_status. destruct (macros_low16 w) as [-> [-> [-> [-> ->]]]]. reflexivity.
Qed.

(* ---- decode inverts the kernel's packing ---- *)
Definition ev_facts (e : ev) : bool :=
  let w := encode e in
  match e with
  | EvExit k => wifexited w && negb (wifsignaled w) && negb (wifstopped w) && (wexitstatus w =? k)
  | EvKill s _ => negb (wifexited w) && wifsignaled w && negb (wifstopped w) && (wtermsig w =? s)
  | EvStop s => negb (wifexited w) && negb (wifsignaled w) && wifstopped w && (wexitstatus w =? s)
  | EvCont => negb (wifexited w) && negb (wifsignaled w) && negb (wifstopped w)
  end && (w <? 65536).
Definition all_events : list ev :=
  map EvExit (nrange 256) ++ map (fun s => EvKill s false) (nrange 127) ++ map (fun s => EvKill s true) (nrange 127)
  ++ map EvStop (nrange 256) ++ [EvCont].
Lemma ev_facts_all : forallb (fun e => implb (ev_ok e) (ev_facts e)) all_events = true.
Proof. vm_compute. reflexivity. Qed.
Lemma ev_ok_in e : ev_ok e = true -> In e all_events.
Proof.
  unfold all_events. destruct e as [k|s c|s|]; intro H; simpl in H.
  - apply in_or_app. left. apply in_map. apply in_nrange. apply N.ltb_lt in H. exact H.
  - apply andb_prop in H. destruct H as [_ H]. apply N.leb_le in H.
    apply in_or_app. right. destruct c.
    + apply in_or_app. right. apply in_or_app. left. apply in_map_iff. exists s. split; [reflexivity|]. apply in_nrange. lia.
    + apply in_or_app. left. apply in_map_iff. exists s. split; [reflexivity|]. apply in_nrange. lia.
  - apply in_or_app. right. apply in_or_app. right. apply in_or_app. right. apply in_or_app. left.
    apply in_map. apply in_nrange. apply N.ltb_lt in H. exact H.
  - repeat (apply in_or_app; right). left. reflexivity.
Qed.
Lemma ev_facts_ok e : ev_ok e = true -> ev_facts e = true.
Proof.
  intro H. pose proof (proj1 (forallb_forall _ _) ev_facts_all e (ev_ok_in e H)) as F.
  cbv beta in F. rewrite H in F. exact F.
Qed.

Ltac split_facts F :=
  repeat rewrite andb_true_iff in F;
  repeat match goal with H : _ /\ _ |- _ => destruct H end;
  repeat match goal with
         | H : negb _ = true |- _ => apply negb_true_iff in H
         | H : (_ =? _) = true |- _ => apply N.eqb_eq in H
         end.
Ltac use_facts := repeat match goal with H : ?x = _ |- context [?x] => rewrite H end.

Lemma decode_encode e : ev_ok e = true -> decode (encode e) = class_of_ev e.
Proof.
  intro H. pose proof (ev_facts_ok e H) as F. unfold ev_facts in F. unfold decode.
  destruct e; unfold class_of_ev; split_facts F; use_facts; reflexivity.
Qed.

(* SetTestFailureByStatusCode on the word of each event *)
Lemma set_failure_encode e : ev_ok e = true ->
  set_failure_by_status (encode e) =
  match e with
  | EvExit k => if k =? 0 then [] else [FExit]
  | EvKill s _ => [FKilled s]
  | EvStop _ => [FStopped]
  | EvCont => []
  end.
Proof.
  intro H. pose proof (ev_facts_ok e H) as F. unfold ev_facts in F. unfold set_failure_by_status.
  destruct e; split_facts F; use_facts; try reflexivity.
  destruct (k =? 0); reflexivity.
Qed.

Lemma ends_encode e : ev_ok e = true ->
  (wifexited (encode e) || wifsignaled (encode e)) = match e with EvExit _ | EvKill _ _ => true | _ => false end /\
  wifstopped (encode e) = match e with EvStop _ => true | _ => false end.
Proof.
  intro H. pose proof (ev_facts_ok e H) as F. unfold ev_facts in F.
  destruct e; split_facts F; use_facts; split; reflexivity.
Qed.
