(* C18 -- the installed cache: every valid scenario meets the model-free statement (grun_meets_gspec) *)
From Coq Require Import NArith Arith Bool List Lia Permutation.
From CppUVerif Require Import gen.Gen_C18 C18_Model C18_Lists C18_Inv C18_Sim C18_Hist C18_ModelG C18_GInv C18_GSim.
Import ListNotations.
Local Open Scope N_scope.

(* ---------------------------------------------------------------- serial numbers: strictly decreasing from the innermost object *)
Fixpoint sers_ok (m : N) (l : list N) : Prop :=
  match l with
  | [] => True
  | x :: r => 0 < x /\ x <= m /\ sers_ok (x - 1) r
  end.
Lemma sers_ok_le : forall l m x, sers_ok m l -> In x l -> 0 < x /\ x <= m.
Proof.
  induction l as [|y r IH]; intros m x H Hi; [destruct Hi|]. simpl in H. destruct H as [H1 [H2 H3]].
  destruct Hi as [<-|Hi]; [auto|]. destruct (IH _ _ H3 Hi). lia.
Qed.
Lemma sers_ok_weaken : forall l m m', sers_ok m l -> m <= m' -> sers_ok m' l.
Proof. intros [|y r] m m' H Hm; [exact I|]. simpl in *. destruct H as [H1 [H2 H3]]. repeat split; auto; lia. Qed.

(* ---------------------------------------------------------------- buffers in use, located *)
Lemma in_lvk : forall live ser id k, In (id, k) (lvk live ser) <-> exists e, In e live /\ le_own e = ser /\ le_id e = id /\ cls (le_req e) = k.
Proof.
  intros live ser id k. unfold lvk. rewrite in_map_iff. split.
  - intros [e [E H]]. apply filter_In in H. destruct H as [H1 H2]. unfold owned_by in H2. apply N.eqb_eq in H2.
    inversion E; subst. exists e. auto.
  - intros [e [H1 [H2 [H3 H4]]]]. exists e. split; [subst; reflexivity|]. apply filter_In. split; [exact H1|].
    unfold owned_by. apply N.eqb_eq. exact H2.
Qed.
Lemma lvk_cons : forall e live ser, lvk (e :: live) ser = if le_own e =? ser then (le_id e, cls (le_req e)) :: lvk live ser else lvk live ser.
Proof. intros. unfold lvk. simpl. unfold owned_by at 1. destruct (le_own e =? ser); reflexivity. Qed.
Lemma lvk_app : forall a b ser, lvk (a ++ b) ser = lvk a ser ++ lvk b ser.
Proof. intros. unfold lvk. rewrite filter_app, map_app. reflexivity. Qed.
Lemma lvk_none : forall live ser, (forall e, In e live -> le_own e <> ser) -> lvk live ser = [].
Proof.
  induction live as [|e r IH]; intros ser H; [reflexivity|]. rewrite lvk_cons.
  destruct (le_own e =? ser) eqn:E; [apply N.eqb_eq in E; elim (H e (or_introl eq_refl) E)|]. apply IH. intros x Hx. apply H. right. exact Hx.
Qed.
Lemma lvk_length : forall live ser, length (lvk live ser) = length (filter (owned_by ser) live).
Proof. intros. unfold lvk. apply map_length. Qed.
Lemma map_fst_lvk : forall live ser, map fst (lvk live ser) = lids (filter (owned_by ser) live).
Proof. intros. unfold lvk, lids. rewrite map_map. reflexivity. Qed.

Lemma OK_live_facts : forall stk up live bk base c id k, OK stk up live bk base -> In c stk -> In (id, k) (lvk live (g_ser c)) ->
  base <= id /\ id < N.of_nat (length (fst bk)) /\ ~ In id (snd bk) /\
  match k with Some s => szof (fst bk) id = Some s /\ In s class_sizes | None => exists a, cached_bound < a /\ szof (fst bk) id = Some a end.
Proof.
  induction stk as [|c0 rest IH]; intros up live bk base c id k H Hc Hi; [destruct Hc|].
  destruct Hc as [<-|Hc].
  - eapply OK_top_facts; [exact H|]. apply in_app_iff. right. exact Hi.
  - simpl in H. destruct H as [_ [_ [_ H4]]]. eapply IH; eauto.
Qed.
Lemma OK_direct : forall stk up live bk base e, OK stk up live bk base -> In e live -> le_own e = 0 ->
  le_id e < base /\ ~ In (le_id e) (snd bk).
Proof.
  induction stk as [|c0 rest IH]; intros up live bk base e H He Ho.
  - simpl in H. destruct H as [_ [_ [_ [_ H5]]]]. apply H5; assumption.
  - simpl in H. destruct H as [_ [_ [_ H4]]]. eapply IH; eauto.
Qed.
Lemma up_not_live : forall stk up live bk base x c, OK stk up live bk base -> In x (map fst up) -> In c stk ->
  ~ In x (map fst (lvk live (g_ser c))).
Proof.
  induction stk as [|c0 rest IH]; intros up live bk base x c H Hx Hc; [destruct Hc|].
  destruct Hc as [<-|Hc].
  - pose proof (OK_nodup_up _ _ _ _ _ H) as N. simpl in N. rewrite map_app in N. intros Hl. eapply NoDup_app_disj; eauto.
  - pose proof H as H'. simpl in H'. destruct H' as [_ [_ [H3 H4]]]. eapply IH; [exact H4| |exact Hc].
    apply in_map_iff in Hx. destruct Hx as [[y k] [E Hy]]. simpl in E. subst y.
    apply in_map_iff. exists (x, k). split; [reflexivity|]. apply out_in_ids.
    eapply Permutation_in; [apply Permutation_sym; exact H3|]. apply in_app_iff. left. exact Hy.
Qed.

(* ---------------------------------------------------------------- the relation between the world of the model and the oracle's books *)
Definition warned_lv (ls : list lvl) : list bool := map l_warned ls.
(* below this id everything the recorder handed out is back, or is a buffer requested with nothing installed *)
Definition lim (w : world) (s : gs) : N :=
  match w_stk w with [] => N.of_nat (length (fst (q_bk s))) | _ :: _ => q_base s end.
Definition direct_live (s : gs) (id : N) : Prop := exists e, In e (q_live s) /\ le_own e = 0 /\ le_id e = id.
Record GR (w : world) (s : gs) : Prop := {
  gr_nx : w_nx w = N.of_nat (length (fst (q_bk s)));
  gr_ser : q_nser s = w_ser w + 1;
  gr_sers : map g_ser (w_stk w) = map l_ser (q_lv s);
  gr_warn : warned_of (w_stk w) = warned_lv (q_lv s);
  gr_sorted : sers_ok (w_ser w) (map g_ser (w_stk w));
  gr_ptrs : q_ptrs s = map (fun id => (id, 0)) (w_res w);
  gr_base : w_stk w <> [] -> q_base s <= N.of_nat (length (fst (q_bk s)));
  gr_freed : forall id, In id (snd (q_bk s)) -> id < N.of_nat (length (fst (q_bk s)));
  gr_live_off : forall e, In e (q_live s) -> le_off e = 0 /\ (le_own e = 0 \/ In (le_own e) (map g_ser (w_stk w)));
  gr_live_nd : NoDup (lids (q_live s));
  gr_direct : forall e, In e (q_live s) -> le_own e = 0 ->
              szof (fst (q_bk s)) (le_id e) = Some (le_req e) /\ ~ In (le_id e) (snd (q_bk s)) /\ (w_stk w <> [] -> le_id e < q_base s);
  gr_seen : forall id c, In (id, c) (q_seen s) ->
            match c with Some sz => szof (fst (q_bk s)) id = Some sz /\ In sz class_sizes
                       | None => exists a, cached_bound < a /\ szof (fst (q_bk s)) id = Some a end;
  gr_ok : w_stk w <> [] -> OK (w_stk w) [] (q_live s) (q_bk s) (q_base s);
  gr_fnd : NoDup (snd (q_bk s));
  gr_below : forall id, id < lim w s -> In id (snd (q_bk s)) \/ direct_live s id
}.

Lemma apply_evs_nodup : forall l c p bk bk', apply_evs c p bk l = Some bk' -> NoDup (snd bk) -> NoDup (snd bk').
Proof.
  induction l as [|e r IH]; intros c p bk bk' H N; simpl in H; [inversion H; subst; exact N|].
  destruct (apply_ev c p bk e) as [bk1|] eqn:E; [|discriminate]. apply (IH _ _ _ _ H).
  destruct e as [id sz|id sz]; simpl in E.
  - destruct (id =? N.of_nat (length (fst bk))); [|discriminate]. inversion E; subst. exact N.
  - destruct (szof (fst bk) id) as [a|]; [|discriminate]. destruct (memN id (snd bk)) eqn:M; [discriminate|]. simpl in E.
    destruct (negb (size_ok a sz c)); [discriminate|]. simpl in E. destruct (memN id p); [discriminate|].
    inversion E; subst. cbn [snd]. constructor; [apply memN_false; exact M | exact N].
Qed.
Lemma direct_live_iff : forall s s' id, (forall e, le_own e = 0 -> (In e (q_live s') <-> In e (q_live s))) -> direct_live s id -> direct_live s' id.
Proof. intros s s' id H [e [H1 [H2 H3]]]. exists e. split; [apply H; assumption | auto]. Qed.

Lemma gfind_live_spec : forall l id off req own, NoDup (lids l) -> In (id, off, req, own) l -> gfind_live l id off = Some (req, own).
Proof.
  induction l as [|e r IH]; intros id off req own Hn Hi; [destruct Hi|]. simpl in Hn. inversion Hn as [|? ? N1 N2]; subst.
  simpl. destruct Hi as [->|Hi].
  - unfold le_id, le_off, le_req, le_own. simpl. rewrite !N.eqb_refl. reflexivity.
  - destruct ((le_id e =? id) && (le_off e =? off)) eqn:E.
    + apply andb_true_iff in E. destruct E as [E _]. apply N.eqb_eq in E. elim N1. rewrite E.
      unfold lids. apply in_map_iff. exists (id, off, req, own). auto.
    + apply IH; auto.
Qed.
Lemma gfind_live_In : forall l id off req own, gfind_live l id off = Some (req, own) -> In (id, off, req, own) l.
Proof.
  induction l as [|e r IH]; intros id off req own H; [discriminate|]. simpl in H.
  destruct ((le_id e =? id) && (le_off e =? off)) eqn:E.
  - apply andb_true_iff in E. destruct E as [E1 E2]. apply N.eqb_eq in E1. apply N.eqb_eq in E2. inversion H; subst. left.
    destruct e as [[[a b] c] d]. reflexivity.
  - right. apply IH. exact H.
Qed.
Lemma gdrop_live_spec : forall l id off req own, NoDup (lids l) -> In (id, off, req, own) l ->
  Permutation l ((id, off, req, own) :: gdrop_live l id off) /\ (forall e, In e (gdrop_live l id off) -> In e l /\ le_id e <> id).
Proof.
  induction l as [|e r IH]; intros id off req own Hn Hi; [destruct Hi|]. simpl in Hn. inversion Hn as [|? ? N1 N2]; subst.
  simpl. destruct Hi as [->|Hi].
  - unfold le_id at 1, le_off at 1. simpl. rewrite !N.eqb_refl. simpl. split; [apply Permutation_refl|].
    intros e He. split; [right; exact He|]. intros E. apply N1. unfold le_id at 1. simpl. rewrite <- E. unfold lids. apply in_map. exact He.
  - destruct ((le_id e =? id) && (le_off e =? off)) eqn:E.
    + apply andb_true_iff in E. destruct E as [E _]. apply N.eqb_eq in E. elim N1. rewrite E.
      unfold lids. apply in_map_iff. exists (id, off, req, own). auto.
    + destruct (IH id off req own N2 Hi) as [P Q]. split.
      * eapply perm_trans; [apply perm_skip; exact P|]. apply perm_swap.
      * intros x [<-|Hx].
        -- split; [left; reflexivity|]. intros E'. apply N1. rewrite E'. unfold lids. apply in_map_iff. exists (id, off, req, own). auto.
        -- destruct (Q x Hx). split; [right; assumption | assumption].
Qed.

Lemma overlaps_none' : forall live id off n, ~ In id (lids live) -> existsb (overlaps id off n) (map le3 live) = false.
Proof.
  induction live as [|e r IH]; intros id off n H; [reflexivity|]. simpl. simpl in H.
  rewrite IH by tauto. destruct e as [[[id' off'] n'] o]. unfold le3, le_id in *. simpl in *.
  destruct (id =? id') eqn:E; [apply N.eqb_eq in E; subst; tauto|]. reflexivity.
Qed.

Lemma rsize_ge : forall stk n, n <= rsize stk n.
Proof.
  intros [|c r] n; simpl; [lia|]. destruct (cls n) as [s|] eqn:E; [|lia]. apply cls_some_cached in E. tauto.
Qed.

Lemma in_sers : forall (stk : list gc) ser, In ser (map g_ser stk) -> exists c, In c stk /\ g_ser c = ser.
Proof. intros stk ser H. apply in_map_iff in H. destruct H as [c [E H]]. eauto. Qed.

(* ---------------------------------------------------------------- when the oracle accepts (the computational part) *)
Lemma optN_eqb_refl : forall a, optN_eqb a a = true.
Proof. intros [a|]; simpl; [apply N.eqb_refl | reflexivity]. Qed.

Lemma gcheck_alloc_intro : forall s n evs p o bk' a,
  apply_evs 0 (lids (q_live s)) (q_bk s) evs = Some bk' -> szof (fst bk') p = Some a -> ~ In p (snd bk') -> n <= a ->
  ~ In p (lids (q_live s)) ->
  (q_lv s <> [] -> forall c, seen_cls (q_seen s) p = Some c -> c = cls n) ->
  exists s', gcheck_alloc s n (mk_gitem evs (Some p) false o) = Some s' /\ q_bk s' = bk' /\
    q_live s' = (p, 0, n, top_ser s) :: q_live s /\ q_lv s' = q_lv s /\ q_ptrs s' = q_ptrs s ++ [(p, 0)] /\
    q_nser s' = q_nser s /\ q_base s' = q_base s /\
    (q_seen s' = q_seen s \/ (q_lv s <> [] /\ q_seen s' = (p, cls n) :: q_seen s)).
Proof.
  intros s n evs p o bk' a A Z F L D S. unfold gcheck_alloc, mk_gitem. cbn [gi_it i_evs i_ret i_warn].
  rewrite A, Z. apply memN_false in F. rewrite F. replace (0 + n <=? a) with true by (symmetry; apply N.leb_le; lia).
  cbn [negb]. rewrite (overlaps_none' _ _ _ _ D). unfold counters_ok. cbn [gi_dbl]. cbn [N.eqb negb orb].
  destruct (q_lv s) as [|l ls] eqn:E.
  - eexists. split; [reflexivity|]. cbn. repeat split; auto.
  - destruct (seen_cls (q_seen s) p) as [c|] eqn:Sc.
    + rewrite (S ltac:(discriminate) c eq_refl), optN_eqb_refl. eexists. split; [reflexivity|]. cbn. repeat split; auto.
    + eexists. split; [reflexivity|]. cbn. repeat split; auto. right. split; [discriminate | reflexivity].
Qed.

Lemma sers_tail_lt : forall m x r y, sers_ok m (x :: r) -> In y r -> 0 < y /\ y < x.
Proof. intros m x r y [H1 [H2 H3]] Hy. destruct (sers_ok_le _ _ _ H3 Hy). lia. Qed.

Lemma szof_ext_seen : forall sizes x (seen : list (N * option N)),
  (forall id c, In (id, c) seen -> match c with Some sz => szof sizes id = Some sz /\ In sz class_sizes
                                           | None => exists a, cached_bound < a /\ szof sizes id = Some a end) ->
  forall id c, In (id, c) seen -> match c with Some sz => szof (sizes ++ x) id = Some sz /\ In sz class_sizes
                                           | None => exists a, cached_bound < a /\ szof (sizes ++ x) id = Some a end.
Proof.
  intros sizes x seen H id c Hi. specialize (H id c Hi). destruct c as [sz|].
  - destruct H. split; [apply szof_app_old; assumption | assumption].
  - destruct H as [a [H1 H2]]. exists a. split; [assumption | apply szof_app_old; assumption].
Qed.

(* ---------------------------------------------------------------- a request *)
Lemma sim_alloc : forall w s n w' x, GR w s -> gstep w (GAlloc n) = (w', x) ->
  exists s' p, gcheck_alloc s n x = Some s' /\ GR w' s' /\ w_res w' = w_res w ++ [p] /\
    q_live s' = (p, 0, n, top_ser s) :: q_live s /\ length (w_stk w') = length (w_stk w) /\
    (w_stk w = [] -> p = N.of_nat (length (fst (q_bk s)))).
Proof.
  intros w s n w' x G E. cbn [gstep] in E. rewrite (gr_nx _ _ G) in E.
  destruct (w_stk w) as [|c rest] eqn:Estk.
  - (* nothing installed: the recorder itself *)
    simpl in E. inversion E; subst w' x. clear E.
    assert (Elv : q_lv s = []) by (pose proof (gr_sers _ _ G) as H; rewrite Estk in H; destruct (q_lv s); [reflexivity | discriminate H]).
    set (p := N.of_nat (length (fst (q_bk s)))).
    destruct (gcheck_alloc_intro s n [EA p n] p (top_held []) (fst (q_bk s) ++ [n], snd (q_bk s)) n) as [s' [C1 [C2 [C3 [C4 [C5 [C6 [C7 C8]]]]]]]].
    + destruct (q_bk s) as [sizes freed]. simpl. subst p. cbn [fst]. rewrite N.eqb_refl. reflexivity.
    + apply szof_new.
    + cbn [snd]. intros Hin. apply (gr_freed _ _ G) in Hin. subst p. lia.
    + lia.
    + intros Hin. unfold lids in Hin. apply in_map_iff in Hin. destruct Hin as [e [E1 E2]].
      destruct (gr_live_off _ _ G e E2) as [_ [Ho|Ho]]; [|rewrite Estk in Ho; destruct Ho].
      destruct (gr_direct _ _ G e E2 Ho) as [Z _]. apply szof_lt in Z. subst p. lia.
    + intros Hne. elim Hne. exact Elv.
    + exists s', p. split; [exact C1|]. split; [|split; [reflexivity|split; [exact C3|split; [reflexivity | auto]]]].
      assert (Ets : top_ser s = 0) by (unfold top_ser; rewrite Elv; reflexivity).
      destruct C8 as [C8|[C8 _]]; [|elim C8; exact Elv].
      constructor; unfold lim; cbn [w_stk w_nx w_ser w_res]; rewrite ?C2, ?C3, ?C4, ?C5, ?C6, ?C7, ?C8; cbn [fst snd].
      * rewrite app_length. simpl. lia.
      * apply (gr_ser _ _ G).
      * rewrite Elv. reflexivity.
      * rewrite Elv. reflexivity.
      * exact I.
      * rewrite (gr_ptrs _ _ G), map_app. reflexivity.
      * intros Hne. elim Hne. reflexivity.
      * intros id Hin. apply (gr_freed _ _ G) in Hin. rewrite app_length. simpl. lia.
      * intros e [<-|He]; [split; [reflexivity | left; rewrite Ets; reflexivity]|].
        destruct (gr_live_off _ _ G e He) as [H1 H2]. rewrite Estk in H2. auto.
      * cbn [lids map]. constructor; [|apply (gr_live_nd _ _ G)].
        intros Hin. unfold lids in Hin. apply in_map_iff in Hin. destruct Hin as [e [E1 E2]].
        destruct (gr_live_off _ _ G e E2) as [_ [Ho|Ho]]; [|rewrite Estk in Ho; destruct Ho].
        destruct (gr_direct _ _ G e E2 Ho) as [Z _]. apply szof_lt in Z. change (le_id (p, 0, n, top_ser s)) with p in E1. rewrite E1 in Z. subst p. lia.
      * intros e [<-|He] Ho.
        -- unfold le_id, le_req. simpl. split; [apply szof_new|]. split; [|intros Hne; elim Hne; reflexivity].
           intros Hin. apply (gr_freed _ _ G) in Hin. subst p. lia.
        -- destruct (gr_direct _ _ G e He Ho) as [Z1 [Z2 _]]. split; [apply szof_app_old; exact Z1|]. split; [exact Z2|].
           intros Hne. elim Hne. reflexivity.
      * apply szof_ext_seen. apply (gr_seen _ _ G).
      * intros Hne. elim Hne. reflexivity.
      * apply (gr_fnd _ _ G).
      * intros id Hid. rewrite app_length in Hid. simpl in Hid. unfold direct_live. rewrite C3.
        destruct (N.eq_dec id p) as [->|Hn].
        -- right. exists (p, 0, n, top_ser s). split; [left; reflexivity|]. split; [exact Ets | reflexivity].
        -- destruct (gr_below _ _ G id) as [K|[e [K1 [K2 K3]]]]; [unfold lim; rewrite Estk; subst p; lia | left; exact K|].
           right. exists e. split; [right; exact K1 | auto].
  - (* through the installed caches *)
    destruct (u_alloc (length (c :: rest)) (c :: rest) (N.of_nat (length (fst (q_bk s)))) n) as [[[stk' nx'] p] evs] eqn:U.
    inversion E; subst w' x. clear E.
    assert (Hne : c :: rest <> []) by discriminate. rewrite <- Estk in Hne.
    pose proof (gr_ok _ _ G Hne) as HOK. rewrite Estk in HOK.
    pose proof (gr_base _ _ G Hne) as HB.
    destruct (u_alloc_ok _ _ _ _ _ _ _ _ _ _ _ eq_refl HOK HB U) as [x0 [A1 [A2 [A3 [A4 [A5 [A6 A7]]]]]]].
    destruct (q_lv s) as [|l ls] eqn:Elv; [pose proof (gr_sers _ _ G) as H; rewrite Estk, Elv in H; discriminate H|].
    assert (Ets : top_ser s = g_ser c).
    { unfold top_ser. rewrite Elv. pose proof (gr_sers _ _ G) as H. rewrite Estk, Elv in H. simpl in H. congruence. }
    destruct (OK_up_facts _ _ _ _ _ p (cls n) A3 (or_introl eq_refl)) as [P1 [P2 P3]]. cbn [fst snd] in *.
    assert (Pnl : ~ In p (lids (q_live s))).
    { intros Hin. unfold lids in Hin. apply in_map_iff in Hin. destruct Hin as [e [E1 E2]].
      destruct (gr_live_off _ _ G e E2) as [_ [Ho|Ho]].
      - destruct (gr_direct _ _ G e E2 Ho) as [_ [_ Z]]. specialize (Z Hne). lia.
      - rewrite Estk, <- A5 in Ho. apply in_sers in Ho. destruct Ho as [c' [Hc1 Hc2]].
        apply (up_not_live _ _ _ _ _ p c' A3); [left; reflexivity | exact Hc1|].
        apply in_map_iff. exists (p, cls (le_req e)). split; [reflexivity|]. apply in_lvk. exists e. auto. }
    destruct (gcheck_alloc_intro s n evs p (top_held stk') (fst (q_bk s) ++ x0, snd (q_bk s)) (rsize (c :: rest) n))
      as [s' [C1 [C2 [C3 [C4 [C5 [C6 [C7 C8]]]]]]]]; auto.
    + apply rsize_ge.
    + intros _ k Hk. apply seen_cls_In in Hk. pose proof (gr_seen _ _ G _ _ Hk) as Z.
      simpl in A4. destruct k as [sz|].
      * destruct Z as [Z1 Z2]. apply szof_app_old with (x := x0) in Z1. rewrite A4 in Z1.
        destruct (cls n) as [s1|] eqn:Cn; [congruence|]. inversion Z1; subst sz.
        apply cls_none_above in Cn. apply class_le_bound in Z2. lia.
      * destruct Z as [a [Z1 Z2]]. apply szof_app_old with (x := x0) in Z2. rewrite A4 in Z2.
        destruct (cls n) as [s1|] eqn:Cn; [|reflexivity]. inversion Z2; subst a.
        apply cls_in_classes in Cn. apply class_le_bound in Cn. lia.
    + exists s', p. split; [rewrite Elv in *; exact C1|]. split; [|split; [reflexivity|split; [exact C3|split; [|intros Hn; discriminate Hn]]]].
      2:{ cbn [w_stk]. rewrite A7. reflexivity. }
      assert (Hne' : stk' <> []) by (destruct stk'; [discriminate A7 | discriminate]).
      constructor; unfold lim; cbn [w_stk w_nx w_ser w_res]; rewrite ?C2, ?C3, ?C4, ?C5, ?C6, ?C7; cbn [fst snd].
      * exact A2.
      * apply (gr_ser _ _ G).
      * rewrite A5, <- Estk. apply (gr_sers _ _ G).
      * rewrite A6, <- Estk. apply (gr_warn _ _ G).
      * rewrite A5, <- Estk. apply (gr_sorted _ _ G).
      * rewrite (gr_ptrs _ _ G), map_app. reflexivity.
      * intros _. rewrite app_length. lia.
      * intros id Hin. apply (gr_freed _ _ G) in Hin. rewrite app_length. lia.
      * intros e [<-|He].
        -- split; [reflexivity|]. right. unfold le_own. simpl. rewrite Ets, A5. left. reflexivity.
        -- destruct (gr_live_off _ _ G e He) as [H1 H2]. split; [exact H1|]. rewrite A5, <- Estk. exact H2.
      * cbn [lids map]. constructor; [exact Pnl | apply (gr_live_nd _ _ G)].
      * intros e [<-|He] Ho.
        -- exfalso. unfold le_own in Ho. simpl in Ho. rewrite Ets in Ho.
           pose proof (gr_sorted _ _ G) as Z. rewrite Estk in Z. simpl in Z. lia.
        -- destruct (gr_direct _ _ G e He Ho) as [Z1 [Z2 Z3]]. split; [apply szof_app_old; exact Z1|]. split; [exact Z2|]. intros _. apply Z3. exact Hne.
      * destruct C8 as [C8|[_ C8]]; rewrite C8.
        -- apply szof_ext_seen. apply (gr_seen _ _ G).
        -- intros id k [Ei|Hi]; [|apply (szof_ext_seen _ _ _ (gr_seen _ _ G)); exact Hi].
           inversion Ei; subst id k. simpl in A4. destruct (cls n) as [s1|] eqn:Cn.
           ++ split; [exact A4 | eapply cls_in_classes; eauto].
           ++ exists n. split; [apply cls_none_above; exact Cn | exact A4].
      * intros _. destruct stk' as [|c1 r1]; [elim Hne'; reflexivity|].
        simpl in A5. injection A5 as A5a A5b.
        cbn [OK] in A3. destruct A3 as [B1 [B2 [B3 B4]]]. cbn [OK]. split; [exact B1|]. split; [exact B2|]. split.
        -- cbn [app] in *. rewrite lvk_cons. unfold le_own, le_id, le_req. cbn [fst snd]. rewrite Ets, A5a, N.eqb_refl. rewrite A5a in B3. exact B3.
        -- eapply OK_live_ext; [| |exact B4].
           ++ intros c' Hc'. rewrite lvk_cons. unfold le_own. cbn [snd]. rewrite Ets.
              replace (g_ser c =? g_ser c') with false; [apply Permutation_refl|]. symmetry. apply N.eqb_neq.
              pose proof (gr_sorted _ _ G) as Z. rewrite Estk in Z. cbn [map] in Z.
              assert (Hin : In (g_ser c') (map g_ser rest)) by (rewrite <- A5b; apply in_map; exact Hc').
              destruct (sers_tail_lt _ _ _ _ Z Hin). lia.
           ++ intros e [<-|He] Ho; [|exact He]. exfalso. unfold le_own in Ho. simpl in Ho. rewrite Ets in Ho.
              pose proof (gr_sorted _ _ G) as Z. rewrite Estk in Z. simpl in Z. lia.
      * apply (gr_fnd _ _ G).
      * intros id Hid. unfold direct_live. rewrite C3. destruct stk' as [|c1 r1]; [elim Hne'; reflexivity|].
        destruct (gr_below _ _ G id) as [K|[e [K1 [K2 K3]]]]; [unfold lim; rewrite Estk; exact Hid | left; exact K|].
        right. exists e. split; [right; exact K1 | auto].
Qed.

(* ---------------------------------------------------------------- a release *)
Lemma perm_filter : forall (A : Type) (f : A -> bool) l l', Permutation l l' -> Permutation (filter f l) (filter f l').
Proof.
  intros A f l l' P. induction P; simpl.
  - constructor.
  - destruct (f x); [constructor|]; assumption.
  - destruct (f x), (f y); try apply Permutation_refl. apply perm_swap.
  - eapply perm_trans; eauto.
Qed.
Lemma lvk_perm : forall l l' ser, Permutation l l' -> Permutation (lvk l ser) (lvk l' ser).
Proof. intros. unfold lvk. apply Permutation_map. apply perm_filter. assumption. Qed.

Lemma OK_freed_bound : forall stk up live bk base id, OK stk up live bk base -> In id (snd bk) -> id < N.of_nat (length (fst bk)).
Proof.
  induction stk as [|c rest IH]; intros up live bk base id H Hi.
  - simpl in H. destruct H as [_ [_ [_ [H4 _]]]]. apply H4. exact Hi.
  - simpl in H. destruct H as [_ [_ [_ H4]]]. eapply IH; eauto.
Qed.
Lemma live_unfreed_post : forall stk live bk base, OK stk [] live bk base ->
  (forall e, In e live -> le_own e = 0 \/ In (le_own e) (map g_ser stk)) ->
  forall e, In e live -> ~ In (le_id e) (snd bk).
Proof.
  intros stk live bk base H Ho e He. destruct (Ho e He) as [O|O].
  - eapply OK_direct; eauto.
  - apply in_sers in O. destruct O as [c [Hc1 Hc2]].
    destruct (OK_live_facts _ _ _ _ _ c (le_id e) (cls (le_req e)) H Hc1) as [_ [_ [F _]]]; [|exact F].
    apply in_lvk. exists e. auto.
Qed.

Definition prel (p : ptr) (po : option (N * N)) : Prop :=
  match p with PId id => po = Some (id, 0) | PFor _ => po = None end.

Lemma gcheck_release_known_intro : forall s id off n evs o bk',
  gknown s (Some (id, off)) n = true ->
  apply_evs n (lids (gdrop_live (q_live s) id off)) (q_bk s) evs = Some bk' ->
  gcheck_release s (Some (id, off)) n (mk_gitem evs None false o) =
  Some (mk_q bk' (gdrop_live (q_live s) id off) (q_seen s) (q_lv s) (q_ptrs s) (q_nser s) (q_base s)).
Proof.
  intros s id off n evs o bk' K A. unfold gcheck_release, mk_gitem. cbn [gi_it i_evs i_ret i_warn]. unfold counters_ok. cbn [gi_dbl N.eqb negb].
  rewrite K, A. reflexivity.
Qed.
Lemma gcheck_release_unknown_intro : forall s po n evs o bk',
  gknown s po n = false -> apply_evs n (lids (q_live s)) (q_bk s) evs = Some bk' ->
  gcheck_release s po n (mk_gitem evs None (negb (top_warned s)) o) =
  Some (mk_q bk' (q_live s) (q_seen s) (set_top_warned (q_lv s)) (q_ptrs s) (q_nser s) (q_base s)).
Proof.
  intros s po n evs o bk' K A. unfold gcheck_release, mk_gitem. cbn [gi_it i_evs i_ret i_warn]. unfold counters_ok. cbn [gi_dbl N.eqb negb].
  rewrite K, A. rewrite Bool.eqb_reflx. reflexivity.
Qed.

Lemma NoDup_lids_perm : forall l l', Permutation l l' -> NoDup (lids l) -> NoDup (lids l').
Proof. intros l l' P H. eapply Permutation_NoDup; [apply Permutation_map; exact P | exact H]. Qed.

Lemma sim_release_cache : forall w s c rest p po n stk' evs wn,
  GR w s -> w_stk w = c :: rest -> prel p po ->
  u_free (length (c :: rest)) (c :: rest) p n = (stk', evs, wn) ->
  exists s', gcheck_release s po n (mk_gitem evs None wn (top_held stk')) = Some s' /\
    GR {| w_stk := stk'; w_nx := w_nx w; w_ser := w_ser w; w_res := w_res w |} s' /\
    (forall e, le_own e = 0 -> (In e (q_live s') <-> In e (q_live s))) /\ length stk' = length (c :: rest).
Proof.
  intros w s c rest p po n stk' evs wn G Estk Hp U.
  assert (Hne : w_stk w <> []) by (rewrite Estk; discriminate).
  pose proof (gr_ok _ _ G Hne) as HOK. rewrite Estk in HOK.
  pose proof (gr_sers _ _ G) as GS. pose proof (gr_warn _ _ G) as GW. rewrite Estk in GS, GW.
  destruct (q_lv s) as [|l ls] eqn:Elv; [discriminate GS|].
  assert (Ets : top_ser s = g_ser c).
  { unfold top_ser. rewrite Elv. pose proof (gr_sers _ _ G) as H. rewrite Estk, Elv in H. simpl in H. congruence. }
  assert (Etw : top_warned s = s_warned (g_st c)).
  { unfold top_warned. rewrite Elv. pose proof (gr_warn _ _ G) as H. rewrite Estk, Elv in H. unfold warned_of, warned_lv in H. simpl in H. congruence. }
  assert (Hsers : forall c', In c' rest -> g_ser c' <> g_ser c).
  { intros c' Hc'. pose proof (gr_sorted _ _ G) as Z. rewrite Estk in Z. cbn [map] in Z.
    destruct (sers_tail_lt _ _ _ _ Z (in_map g_ser _ _ Hc')). lia. }
  destruct (gknown s po n) eqn:K.
  - (* known: the buffer is in use on the innermost object's account, the size is of its class *)
    unfold gknown in K. destruct po as [[id off]|]; [|discriminate].
    destruct (gfind_live (q_live s) id off) as [[req own]|] eqn:F; [|discriminate]. rewrite Elv in K.
    apply andb_true_iff in K. destruct K as [K1 K2]. apply N.eqb_eq in K1. apply optN_eqb_eq in K2. rewrite Ets in K1. subst own.
    apply gfind_live_In in F. destruct (gr_live_off _ _ G _ F) as [Hoff _]. unfold le_off in Hoff. simpl in Hoff. subst off.
    destruct p as [id'|k']; simpl in Hp; [|discriminate]. inversion Hp; subst id'. clear Hp.
    destruct (gdrop_live_spec _ _ _ _ _ (gr_live_nd _ _ G) F) as [P Q].
    set (live' := gdrop_live (q_live s) id 0) in *.
    assert (O1 : OK (c :: rest) [(id, cls req)] live' (q_bk s) (q_base s)).
    { simpl in HOK. destruct HOK as [B1 [B2 [B3 B4]]]. cbn [OK]. split; [exact B1|]. split; [exact B2|]. split.
      - eapply perm_trans; [exact B3|]. simpl. eapply perm_trans; [apply (lvk_perm _ _ _ P)|].
        rewrite lvk_cons. unfold le_own, le_id, le_req. cbn [fst snd]. rewrite N.eqb_refl. apply Permutation_refl.
      - eapply OK_live_ext; [| |exact B4].
        + intros c' Hc'. eapply perm_trans; [apply (lvk_perm _ _ _ P)|]. rewrite lvk_cons. unfold le_own. cbn [snd].
          replace (g_ser c =? g_ser c') with false; [apply Permutation_refl|]. symmetry. apply N.eqb_neq. intros E. apply (Hsers c' Hc'). auto.
        + intros e He _. apply Q. exact He. }
    destruct (u_free_known _ _ id (cls req) [] live' (q_bk s) (q_base s) n n stk' evs wn eq_refl O1) as [W [fr [A [O2 [S1 [S2 S3]]]]]];
      [intros _; exact K2 | reflexivity | intros Hn; discriminate Hn | exact U |].
    subst wn.
    assert (Hown : forall e, In e live' -> le_own e = 0 \/ In (le_own e) (map g_ser stk')).
    { intros e He. rewrite S1, <- Estk. apply (gr_live_off _ _ G). apply Q. exact He. }
    assert (A' : apply_evs n (lids live') (q_bk s) evs = Some (fst (q_bk s), fr)).
    { apply apply_evs_prot; [exact A|]. intros x sz Hx Hin. destruct (apply_evs_freed_grows _ _ _ _ _ A) as [_ G2].
      specialize (G2 x sz Hx). cbn [snd] in G2. unfold lids in Hin. apply in_map_iff in Hin. destruct Hin as [e [E1 E2]].
      apply (live_unfreed_post _ _ _ _ O2 Hown e E2). cbn [snd]. rewrite E1. exact G2. }
    eexists. split; [apply gcheck_release_known_intro; [|exact A']|].
    { unfold gknown. rewrite (gfind_live_spec _ _ _ _ _ (gr_live_nd _ _ G) F), Elv, Ets, N.eqb_refl, K2, optN_eqb_refl. reflexivity. }
    fold live'. split; [|split; [|exact S3]].
    + assert (Hne' : stk' <> []) by (destruct stk'; [discriminate S3 | discriminate]).
      constructor; cbn [w_stk w_nx w_ser w_res q_bk q_live q_seen q_lv q_ptrs q_nser q_base mk_q fst snd].
      * apply (gr_nx _ _ G).
      * apply (gr_ser _ _ G).
      * rewrite S1, ?Elv. exact GS.
      * rewrite S2, ?Elv. exact GW.
      * rewrite S1, <- Estk. apply (gr_sorted _ _ G).
      * apply (gr_ptrs _ _ G).
      * intros _. apply (gr_base _ _ G Hne).
      * intros x Hx. apply (OK_freed_bound _ _ _ _ _ x O2 Hx).
      * intros e He. destruct (gr_live_off _ _ G e (proj1 (Q e He))) as [H1 H2]. split; [exact H1|]. rewrite S1, <- Estk. exact H2.
      * pose proof (NoDup_lids_perm _ _ P (gr_live_nd _ _ G)) as N. simpl in N. inversion N; assumption.
      * intros e He Ho. destruct (gr_direct _ _ G e (proj1 (Q e He)) Ho) as [Z1 [Z2 Z3]]. split; [exact Z1|]. split; [|intros _; apply Z3; exact Hne].
        apply (live_unfreed_post _ _ _ _ O2 Hown e He).
      * apply (gr_seen _ _ G).
      * intros _. exact O2.
      * apply (apply_evs_nodup _ _ _ _ _ A' (gr_fnd _ _ G)).
      * intros x Hx. destruct stk' as [|c1 r1]; [elim Hne'; reflexivity|].
        destruct (gr_below _ _ G x) as [K|[e [J1 [J2 J3]]]]; [unfold lim; rewrite Estk; exact Hx| |].
        -- left. destruct (apply_evs_freed_grows _ _ _ _ _ A) as [G1 _]. apply G1. exact K.
        -- right. exists e. split; [|auto]. cbn [q_live mk_q].
           assert (Hin : In e ((id, 0, req, g_ser c) :: live')) by (eapply Permutation_in; [exact P | exact J1]).
           destruct Hin as [E|Hin]; [|exact Hin]. subst e. unfold le_own in J2. simpl in J2.
           pose proof (gr_sorted _ _ G) as Z. rewrite Estk in Z. simpl in Z. lia.
    + intros e Ho. split; [intros He; apply Q; exact He|]. intros He.
      assert (Hin : In e ((id, 0, req, g_ser c) :: live')) by (eapply Permutation_in; [exact P | exact He]).
      destruct Hin as [E|Hin]; [|exact Hin]. subst e. unfold le_own in Ho. simpl in Ho.
      pose proof (gr_sorted _ _ G) as Z. rewrite Estk in Z. simpl in Z. lia.
  - (* not known: nothing changes, the innermost object warns if it has not yet *)
    assert (Un : forall b, In b (searched (g_st c) n) -> mem_is b p = false).
    { intros b Hb. destruct p as [id|k']; [|reflexivity]. simpl in Hp. subst po. simpl.
      destruct (b_mem b =? id) eqn:Eb; [|reflexivity]. exfalso. apply N.eqb_eq in Eb.
      assert (Ho : In (id, cls n) (out_loc (g_st c))).
      { simpl in HOK. destruct HOK as [B1 _]. unfold searched in Hb. destruct (is_cached n) eqn:C.
        - destruct (class_lookup _ n B1 C) as [l1 [nd [l2 [C1 [C2 [_ [_ C5]]]]]]]. rewrite C2 in Hb. rewrite C5.
          apply in_out_loc. left. exists nd. split; [rewrite C1; apply in_or_app; right; left; reflexivity|]. split; [reflexivity|].
          apply in_mems. exists b. auto.
        - rewrite (cls_not_cached _ C). apply in_out_loc. right. split; [reflexivity|]. apply in_mems. exists b. auto. }
      simpl in HOK. destruct HOK as [_ [_ [B3 _]]]. simpl in B3.
      apply (Permutation_in _ B3) in Ho. apply in_lvk in Ho. destruct Ho as [e [E1 [E2 [E3 E4]]]].
      destruct (gr_live_off _ _ G e E1) as [E5 _].
      assert (Ee : e = (id, 0, le_req e, g_ser c)).
      { destruct e as [[[a b0] c0] d]. unfold le_id, le_off, le_req, le_own in *. simpl in *. subst. reflexivity. }
      rewrite Ee in E1. unfold gknown in K. rewrite (gfind_live_spec _ _ _ _ _ (gr_live_nd _ _ G) E1), Elv, Ets, N.eqb_refl, E4, optN_eqb_refl in K.
      discriminate K. }
    change (length (c :: rest)) with (S (length rest)) in U. rewrite (u_free_unknown _ _ _ _ _ Un) in U. inversion U; subst stk' evs wn. clear U.
    rewrite <- Etw. eexists. split; [apply gcheck_release_unknown_intro; [exact K | reflexivity]|].
    split; [|split; [tauto | reflexivity]].
    constructor; unfold lim; cbn [w_stk w_nx w_ser w_res q_bk q_live q_seen q_lv q_ptrs q_nser q_base mk_q fst snd].
    * apply (gr_nx _ _ G).
    * apply (gr_ser _ _ G).
    * rewrite ?Elv. cbn [set_top_warned map l_ser set_st g_ser]. exact GS.
    * rewrite ?Elv. unfold warned_of, warned_lv in *. simpl in *. congruence.
    * cbn [map set_st g_ser]. pose proof (gr_sorted _ _ G) as H. rewrite Estk in H. exact H.
    * apply (gr_ptrs _ _ G).
    * intros _. apply (gr_base _ _ G Hne).
    * apply (gr_freed _ _ G).
    * intros e He. cbn [map set_st g_ser]. pose proof (gr_live_off _ _ G e He) as H. rewrite Estk in H. exact H.
    * apply (gr_live_nd _ _ G).
    * intros e He Ho. destruct (gr_direct _ _ G e He Ho) as [Z1 [Z2 Z3]]. split; [exact Z1|]. split; [exact Z2|]. intros _. apply Z3. exact Hne.
    * apply (gr_seen _ _ G).
    * intros _. apply OK_set_warned; [reflexivity | reflexivity | exact HOK].
    * apply (gr_fnd _ _ G).
    * intros x Hx. apply (gr_below _ _ G x). unfold lim. rewrite Estk. exact Hx.
Qed.

Lemma sim_release_direct : forall w s id n,
  GR w s -> w_stk w = [] -> In (id, 0, n, 0) (q_live s) ->
  exists s', gcheck_release s (Some (id, 0)) n (mk_gitem [EF id n] None false 0) = Some s' /\
    GR {| w_stk := []; w_nx := w_nx w; w_ser := w_ser w; w_res := w_res w |} s' /\ q_live s' = gdrop_live (q_live s) id 0.
Proof.
  intros w s id n G Estk F.
  pose proof (gr_sers _ _ G) as GS. rewrite Estk in GS.
  destruct (q_lv s) as [|l ls] eqn:Elv; [|discriminate GS].
  destruct (gdrop_live_spec _ _ _ _ _ (gr_live_nd _ _ G) F) as [P Q].
  set (live' := gdrop_live (q_live s) id 0) in *.
  destruct (gr_direct _ _ G _ F eq_refl) as [D1 [D2 _]]. unfold le_id, le_req in D1, D2. simpl in D1, D2.
  assert (Nd : NoDup (lids ((id, 0, n, 0) :: live'))) by (apply (NoDup_lids_perm _ _ P (gr_live_nd _ _ G))).
  simpl in Nd. inversion Nd as [|? ? N1 N2]; subst.
  assert (A : apply_evs n (lids live') (q_bk s) [EF id n] = Some (fst (q_bk s), id :: snd (q_bk s))).
  { simpl. rewrite D1. apply memN_false in D2. rewrite D2. rewrite size_ok_same. apply memN_false in N1. unfold le_id in N1. simpl in N1.
    fold (lids live') in N1. rewrite N1. reflexivity. }
  eexists. split; [apply gcheck_release_known_intro; [|exact A]|].
  { unfold gknown. rewrite (gfind_live_spec _ _ _ _ _ (gr_live_nd _ _ G) F), Elv. unfold top_ser. rewrite Elv. reflexivity. }
  split; [|reflexivity]. fold live'.
  constructor; unfold lim; cbn [w_stk w_nx w_ser w_res q_bk q_live q_seen q_lv q_ptrs q_nser q_base mk_q fst snd].
  - apply (gr_nx _ _ G).
  - apply (gr_ser _ _ G).
  - rewrite Elv. reflexivity.
  - rewrite Elv. reflexivity.
  - exact I.
  - apply (gr_ptrs _ _ G).
  - intros Hn. elim Hn. reflexivity.
  - intros x [<-|Hx]; [apply szof_lt in D1; exact D1 | apply (gr_freed _ _ G); exact Hx].
  - intros e He. destruct (gr_live_off _ _ G e (proj1 (Q e He))) as [H1 H2]. rewrite Estk in H2. auto.
  - exact N2.
  - intros e He Ho. destruct (gr_direct _ _ G e (proj1 (Q e He)) Ho) as [Z1 [Z2 _]]. split; [exact Z1|]. split; [|intros Hn; elim Hn; reflexivity].
    intros [E|E]; [|tauto]. apply (proj2 (Q e He)). symmetry. exact E.
  - apply (gr_seen _ _ G).
  - intros Hn. elim Hn. reflexivity.
  - constructor; [exact D2 | apply (gr_fnd _ _ G)].
  - intros x Hx. destruct (gr_below _ _ G x) as [K|[e [J1 [J2 J3]]]]; [unfold lim; rewrite Estk; exact Hx | left; right; exact K|].
    assert (Hin : In e ((id, 0, n, 0) :: live')) by (eapply Permutation_in; [exact P | exact J1]).
    destruct Hin as [E|Hin]; [left; left; subst e; exact J3|]. right. exists e. auto.
Qed.

(* ---------------------------------------------------------------- clearCache *)
Lemma held_keep : forall st, held (with_cache st (map keep_used (s_cache st))) = N.of_nat (length (out_loc st)) * 2.
Proof.
  intros st. unfold held, out_loc. cbn [with_cache s_cache s_non]. rewrite !app_length. f_equal. f_equal. f_equal.
  - induction (s_cache st) as [|nd l IH]; [reflexivity|]. simpl. rewrite !app_length, IH. unfold used_loc. rewrite map_length. reflexivity.
  - unfold non_loc. rewrite map_length. reflexivity.
Qed.
Lemma held_wiped : forall st, held (wiped st) = 0.
Proof.
  intros st. unfold held, wiped. cbn [s_cache s_non]. rewrite app_nil_r.
  replace (flat_map (fun nd => n_free nd ++ n_used nd) (map wipe (s_cache st))) with (@nil block); [reflexivity|].
  induction (s_cache st) as [|nd l IH]; [reflexivity|]. simpl. exact IH.
Qed.

Lemma out_loc_wiped : forall st, out_loc (wiped st) = [].
Proof. intros. unfold out_loc, wiped. cbn [s_cache s_non]. rewrite wipe_out. reflexivity. Qed.
Lemma ids_loc_wiped : forall st, ids_loc (wiped st) = [].
Proof. intros. unfold ids_loc, wiped. cbn [s_cache s_non]. rewrite wipe_loc. reflexivity. Qed.
Lemma lift_prot : forall stk live bk base caller evs fr,
  apply_evs caller [] bk evs = Some (fst bk, fr) -> OK stk [] live (fst bk, fr) base ->
  (forall e, In e live -> le_own e = 0 \/ In (le_own e) (map g_ser stk)) ->
  forall prot, (forall x, In x prot -> In x (lids live)) -> apply_evs caller prot bk evs = Some (fst bk, fr).
Proof.
  intros stk live bk base caller evs fr A O Ho prot Hp. apply apply_evs_prot; [exact A|].
  intros x sz Hx Hin. destruct (apply_evs_freed_grows _ _ _ _ _ A) as [_ G2]. specialize (G2 x sz Hx). cbn [snd] in G2.
  apply Hp in Hin. unfold lids in Hin. apply in_map_iff in Hin. destruct Hin as [e [E1 E2]].
  apply (live_unfreed_post _ _ _ _ O Ho e E2). cbn [snd]. rewrite E1. exact G2.
Qed.

Lemma sim_cc : forall w s c rest w' x, GR w s -> w_stk w = c :: rest -> gstep w GClearCache = (w', x) ->
  exists s', gcheck_cc s x = Some s' /\ GR w' s' /\ q_live s' = q_live s /\ w_res w' = w_res w /\ length (w_stk w') = length (w_stk w).
Proof.
  intros w s c rest w' x G Estk E. cbn [gstep] in E. rewrite Estk in E.
  destruct (u_clear clear_cache (c :: rest)) as [[stk' evs] wn] eqn:U. inversion E; subst w' x. clear E.
  assert (Hne : w_stk w <> []) by (rewrite Estk; discriminate).
  pose proof (gr_ok _ _ G Hne) as HOK. rewrite Estk in HOK.
  pose proof (gr_sers _ _ G) as GS. pose proof (gr_warn _ _ G) as GW. rewrite Estk in GS, GW.
  destruct (u_clear_cc_ok _ _ _ _ _ _ _ _ _ HOK U) as [W [fr [r' [S0 [A [O [S1 [S2 S3]]]]]]]]. subst wn.
  assert (Hown : forall e, In e (q_live s) -> le_own e = 0 \/ In (le_own e) (map g_ser stk')).
  { intros e He. subst stk'. cbn [map set_st g_ser]. rewrite S1. pose proof (gr_live_off _ _ G e He) as H. rewrite Estk in H. apply H. }
  pose proof (lift_prot _ _ _ _ _ _ _ A O Hown (lids (q_live s)) (fun x H => H)) as A'.
  destruct (q_lv s) as [|l ls] eqn:Elv; [discriminate GS|].
  assert (Ets : top_ser s = g_ser c) by (unfold top_ser; rewrite Elv; simpl in GS; congruence).
  assert (Hout : top_held stk' = count_owned (top_ser s) (q_live s) * 2).
  { subst stk'. cbn [top_held set_st g_st]. rewrite held_keep. f_equal. unfold count_owned. f_equal.
    simpl in HOK. destruct HOK as [_ [_ [B3 _]]]. simpl in B3. rewrite (Permutation_length B3), lvk_length, Ets. reflexivity. }
  eexists. split.
  - unfold gcheck_cc, mk_gitem. cbn [gi_it i_evs i_ret i_warn gi_out gi_dbl]. rewrite Elv, A'. unfold counters_ok. cbn [gi_dbl N.eqb andb].
    rewrite Hout, N.eqb_refl. reflexivity.
  - split; [|split; [reflexivity|split; [reflexivity|]]].
    2:{ cbn [w_stk]. rewrite Estk. subst stk'. simpl. rewrite S3. reflexivity. }
    assert (Hne' : stk' <> []) by (subst stk'; discriminate).
    constructor; unfold lim; cbn [w_stk w_nx w_ser w_res q_bk q_live q_seen q_lv q_ptrs q_nser q_base mk_q fst snd].
    + apply (gr_nx _ _ G).
    + apply (gr_ser _ _ G).
    + subst stk'. cbn [map set_st g_ser]. rewrite S1. exact GS.
    + subst stk'. unfold warned_of, warned_lv in *. cbn [map set_st g_st with_cache s_warned] in *. rewrite S2. exact GW.
    + subst stk'. cbn [map set_st g_ser]. rewrite S1. pose proof (gr_sorted _ _ G) as H. rewrite Estk in H. exact H.
    + apply (gr_ptrs _ _ G).
    + intros _. apply (gr_base _ _ G Hne).
    + intros y Hy. apply (OK_freed_bound _ _ _ _ _ y O Hy).
    + intros e He. destruct (gr_live_off _ _ G e He) as [H1 H2]. split; [exact H1|]. destruct (Hown e He); auto.
    + apply (gr_live_nd _ _ G).
    + intros e He Ho. destruct (gr_direct _ _ G e He Ho) as [Z1 [Z2 Z3]]. split; [exact Z1|]. split; [|intros _; apply Z3; exact Hne].
      apply (live_unfreed_post _ _ _ _ O Hown e He).
    + apply (gr_seen _ _ G).
    + intros _. exact O.
    + apply (apply_evs_nodup _ _ _ _ _ A' (gr_fnd _ _ G)).
    + intros y Hy. subst stk'. destruct (gr_below _ _ G y) as [K|K]; [unfold lim; rewrite Estk; exact Hy| |right; exact K].
      left. destruct (apply_evs_freed_grows _ _ _ _ _ A) as [G1 _]. apply G1. exact K.
Qed.

(* ---------------------------------------------------------------- clearAll / destruction of the innermost object *)
Definition knone (x : kent) : bool := match snd x with None => true | Some _ => false end.
Definition loc (e : lentry) : kent := (le_id e, cls (le_req e)).
Lemma filter_none_out : forall st, filter knone (out_loc st) = non_loc (s_non st).
Proof.
  intros st. unfold out_loc. rewrite filter_app.
  replace (filter knone (flat_map used_loc (s_cache st))) with (@nil kent).
  - simpl. unfold non_loc. induction (s_non st) as [|b l IH]; [reflexivity|]. simpl. rewrite IH. reflexivity.
  - induction (s_cache st) as [|nd l IH]; [reflexivity|]. simpl. rewrite filter_app, <- IH, app_nil_r.
    unfold used_loc. induction (n_used nd) as [|b u IHu]; [reflexivity|]. simpl. exact IHu.
Qed.
Lemma filter_none_lvk : forall live ser, filter knone (lvk live ser) = map loc (filter above_bound (filter (owned_by ser) live)).
Proof.
  intros live ser. unfold lvk. fold loc. induction (filter (owned_by ser) live) as [|e l IH]; [reflexivity|].
  simpl. unfold knone at 1, loc at 1, above_bound at 1. cbn [snd]. destruct (cls (le_req e)); simpl; rewrite IH; reflexivity.
Qed.
Lemma filter_partition_perm : forall (A : Type) (f : A -> bool) l, Permutation l (filter f l ++ filter (fun x => negb (f x)) l).
Proof.
  intros A f. induction l as [|x l IH]; [constructor|]. simpl. destruct (f x); simpl.
  - constructor. exact IH.
  - eapply perm_trans; [apply perm_skip; exact IH|]. apply Permutation_middle.
Qed.
Lemma NoDup_map_filter_prefix : forall (A B : Type) (h : A -> B) (f : A -> bool) a b, NoDup (map h (a ++ b)) -> NoDup (map h (filter f a ++ b)).
Proof.
  intros A B h f. induction a as [|x a IH]; intros b H; [exact H|]. simpl in H. inversion H as [|? ? N1 N2]; subst.
  simpl. destruct (f x); [|apply IH; exact N2]. simpl. constructor; [|apply IH; exact N2].
  intros Hin. apply N1. rewrite map_app, in_app_iff in *. destruct Hin as [Hin|Hin]; [left|right; exact Hin].
  apply in_map_iff in Hin. destruct Hin as [y [E Hy]]. apply filter_In in Hy. apply in_map_iff. exists y. tauto.
Qed.
Lemma lvk_others : forall live a b, a <> b -> lvk (filter (fun e => negb (owned_by a e)) live) b = lvk live b.
Proof.
  intros live a b Hab. unfold lvk. f_equal. induction live as [|e l IH]; [reflexivity|]. simpl.
  destruct (owned_by a e) eqn:E1; simpl; destruct (owned_by b e) eqn:E2; simpl; rewrite ?E2; try (rewrite IH; reflexivity).
  exfalso. unfold owned_by in E1, E2. apply N.eqb_eq in E1. apply N.eqb_eq in E2. congruence.
Qed.
Lemma lids_reown : forall ser l, lids (map (reown ser) l) = lids l.
Proof. intros. unfold lids. rewrite map_map. apply map_ext. intros [[[a b] c] d]. reflexivity. Qed.
Lemma lvk_reown_same : forall ser l, lvk (map (reown ser) l) ser = map loc l.
Proof.
  intros ser l. unfold lvk. induction l as [|e l IH]; [reflexivity|]. simpl. unfold owned_by at 1, reown at 1, le_own at 1. cbn [snd].
  rewrite N.eqb_refl. simpl. rewrite IH. destruct e as [[[a b] c] d]. reflexivity.
Qed.
Lemma lvk_reown_other : forall ser ser' l, ser <> ser' -> lvk (map (reown ser) l) ser' = [].
Proof.
  intros ser ser' l H. apply lvk_none. intros e He. apply in_map_iff in He. destruct He as [e0 [E _]]. subst e. unfold reown, le_own. cbn [snd]. exact H.
Qed.

Lemma range_all_freed : forall base (sizes : list N) freed, base <= N.of_nat (length sizes) ->
  (forall id, base <= id -> id < N.of_nat (length sizes) -> In id freed) ->
  forallb (fun id => memN id freed) (range_from base (length sizes - N.to_nat base)) = true.
Proof.
  intros base sizes freed Hb H. apply forallb_forall. intros id Hin. apply range_from_In in Hin. apply memN_In. apply H; [lia|].
  rewrite Nat2N.inj_sub, N2Nat.id in Hin. lia.
Qed.

Lemma sim_wipe : forall (pop : bool) w s c rest stk' evs wn, GR w s -> w_stk w = c :: rest ->
  u_clear clear_all (c :: rest) = (stk', evs, wn) ->
  exists s', gcheck_wipe pop s (mk_gitem evs None wn (top_held stk')) = Some s' /\
    GR {| w_stk := if pop then tl stk' else stk'; w_nx := w_nx w; w_ser := w_ser w; w_res := w_res w |} s' /\
    (forall e, le_own e = 0 -> (In e (q_live s') <-> In e (q_live s))) /\
    length (if pop then tl stk' else stk') = (if pop then length rest else S (length rest)).
Proof.
  intros pop w s c rest stk' evs wn G Estk U.
  assert (Hne : w_stk w <> []) by (rewrite Estk; discriminate).
  pose proof (gr_ok _ _ G Hne) as HOK. rewrite Estk in HOK.
  pose proof (gr_sers _ _ G) as GS. pose proof (gr_warn _ _ G) as GW. pose proof (gr_sorted _ _ G) as GO. rewrite Estk in GS, GW, GO.
  destruct (q_lv s) as [|l ls] eqn:Elv; [discriminate GS|].
  assert (Els : l_ser l = g_ser c) by (simpl in GS; congruence).
  assert (Hser0 : 0 < g_ser c) by (simpl in GO; tauto).
  set (mine := filter (owned_by (l_ser l)) (q_live s)).
  set (others := filter (fun e => negb (owned_by (l_ser l) e)) (q_live s)).
  assert (Hoth : forall e, In e others -> In e (q_live s) /\ le_own e <> g_ser c).
  { intros e He. apply filter_In in He. destruct He as [H1 H2]. split; [exact H1|]. unfold owned_by in H2. rewrite Els in H2.
    destruct (le_own e =? g_ser c) eqn:E; [discriminate|]. apply N.eqb_neq. exact E. }
  assert (Hdir : forall e, le_own e = 0 -> (In e others <-> In e (q_live s))).
  { intros e Ho. split; [intros He; apply Hoth; exact He|]. intros He. apply filter_In. split; [exact He|]. unfold owned_by. rewrite Els, Ho.
    replace (0 =? g_ser c) with false by (symmetry; apply N.eqb_neq; lia). reflexivity. }
  destruct rest as [|c' r].
  - (* the outermost object: everything goes back to the recorder *)
    destruct (u_wipe_bottom _ _ _ _ _ _ _ _ HOK U) as [W [S0 [fr [A O]]]]. subst wn stk'.
    assert (Hls : ls = []) by (destruct ls; [reflexivity | discriminate GS]). subst ls.
    assert (Oo : OK [] [] others (fst (q_bk s), fr) (q_base s)).
    { eapply OK_live_ext; [| |exact O]; [intros c0 []|]. intros e He _. apply Hoth. exact He. }
    assert (Hown : forall e, In e others -> le_own e = 0 \/ In (le_own e) (map g_ser (@nil gc))).
    { intros e He. destruct (Hoth e He) as [H1 H2]. destruct (gr_live_off _ _ G e H1) as [_ [H3|H3]]; [left; exact H3|].
      rewrite Estk in H3. simpl in H3. destruct H3 as [H3|[]]. congruence. }
    pose proof (lift_prot _ _ _ _ _ _ _ A Oo Hown (lids others) (fun x H => H)) as A'.
    pose proof (gr_base _ _ G Hne) as HB.
    assert (Hall : forallb (fun id => memN id fr) (range_from (q_base s) (length (fst (q_bk s)) - N.to_nat (q_base s))) = true).
    { apply range_all_freed; [exact HB|]. intros id H1 H2. simpl in O. destruct O as [_ [O2 _]]. cbn [fst snd] in O2.
      destruct (O2 id H1 H2) as [K|[]]. exact K. }
    eexists. split.
    + unfold gcheck_wipe, mk_gitem. cbn [gi_it i_evs i_ret i_warn gi_out gi_dbl]. rewrite Elv. fold mine others. rewrite A'.
      unfold counters_ok. cbn [gi_dbl gi_out top_held set_st g_st]. rewrite held_wiped. cbn [N.eqb andb negb fst snd]. rewrite Hall. reflexivity.
    + split; [|split; [exact Hdir | destruct pop; reflexivity]].
      constructor; unfold lim; cbn [w_stk w_nx w_ser w_res q_bk q_live q_seen q_lv q_ptrs q_nser q_base mk_q fst snd].
      * apply (gr_nx _ _ G).
      * apply (gr_ser _ _ G).
      * destruct pop; [reflexivity | exact GS].
      * destruct pop; [reflexivity|]. unfold warned_of, warned_lv in *. cbn [map set_st g_st wiped s_warned] in *. exact GW.
      * destruct pop; [exact I | exact GO].
      * apply (gr_ptrs _ _ G).
      * intros _. exact HB.
      * intros y Hy. apply (OK_freed_bound _ _ _ _ _ y O Hy).
      * intros e He. destruct (Hoth e He) as [H1 H2]. destruct (gr_live_off _ _ G e H1) as [H3 H4]. split; [exact H3|].
        destruct (Hown e He) as [H5|[]]. left. exact H5.
      * unfold others, lids. pose proof (gr_live_nd _ _ G) as N. unfold lids in N. clear - N.
        induction (q_live s) as [|e r IH]; [constructor|]. simpl in *. inversion N as [|? ? N1 N2]; subst.
        destruct (negb (owned_by (l_ser l) e)); [|apply IH; exact N2]. simpl. constructor; [|apply IH; exact N2].
        intros Hin. apply N1. apply in_map_iff in Hin. destruct Hin as [y [E Hy]]. apply filter_In in Hy. apply in_map_iff. exists y. tauto.
      * intros e He Ho. destruct (Hoth e He) as [H1 _]. destruct (gr_direct _ _ G e H1 Ho) as [Z1 [Z2 Z3]]. split; [exact Z1|]. split.
        -- apply (OK_direct _ _ _ _ _ e Oo He Ho).
        -- intros _. apply Z3. exact Hne.
      * apply (gr_seen _ _ G).
      * intros Hn. destruct pop; [elim Hn; reflexivity|].
        cbn [OK set_st g_st g_ser]. simpl in HOK. destruct HOK as [B1 _].
        split; [unfold wiped; cbn [s_cache]; rewrite map_size_wipe; exact B1|]. split; [apply (sizes_ok_wipe _ _ (g_st c))|]. split.
        -- rewrite out_loc_wiped. simpl. rewrite lvk_none; [constructor|].
           intros e He. apply Hoth. exact He.
        -- rewrite ids_loc_wiped. exact Oo.
      * apply (apply_evs_nodup _ _ _ _ _ A' (gr_fnd _ _ G)).
      * intros y Hy. destruct (N.lt_ge_cases y (q_base s)) as [Hlt|Hge].
        -- destruct (gr_below _ _ G y) as [K|[e [J1 [J2 J3]]]]; [unfold lim; rewrite Estk; exact Hlt| |].
           ++ left. destruct (apply_evs_freed_grows _ _ _ _ _ A) as [G1 _]. apply G1. exact K.
           ++ right. exists e. split; [apply Hdir; assumption | auto].
        -- left. destruct pop; cbn [tl] in Hy; [|lia]. simpl in O. destruct O as [_ [O2 _]]. cbn [fst snd] in O2.
           destruct (O2 y Hge Hy) as [K|[]]. exact K.
  - (* an object nested in another: its blocks go back to the cache of the outer object *)
    destruct (u_wipe_nested _ _ _ _ _ _ _ _ _ _ HOK U) as [Ev [W [st' [S0 [Ws O]]]]]. subst evs stk'.
    destruct ls as [|l2 below2]; [discriminate GS|].
    assert (Els2 : l_ser l2 = g_ser c') by (simpl in GS; congruence).
    assert (Ew2 : l_warned l2 = s_warned (g_st c')) by (unfold warned_of, warned_lv in GW; simpl in GW; congruence).
    assert (Hsc : g_ser c' <> g_ser c) by (destruct (sers_tail_lt _ _ _ (g_ser c') GO (or_introl eq_refl)); lia).
    assert (Hsr : forall c3, In c3 r -> g_ser c3 <> g_ser c /\ g_ser c3 <> g_ser c').
    { intros c3 H3. destruct (sers_tail_lt _ _ _ (g_ser c3) GO (or_intror (in_map g_ser _ _ H3))). simpl in GO. destruct GO as [_ [_ GO2]].
      destruct (sers_tail_lt _ _ _ (g_ser c3) GO2 (in_map g_ser _ _ H3)). lia. }
    set (stuck := filter above_bound mine).
    assert (Pz : Permutation (non_loc (s_non (g_st c))) (map loc stuck)).
    { simpl in HOK. destruct HOK as [_ [_ [B3 _]]]. simpl in B3. apply (perm_filter _ knone) in B3.
      rewrite filter_none_out, filter_none_lvk, <- Els in B3. exact B3. }
    assert (Ez : negb (is_nil (s_non (g_st c))) = match stuck with [] => false | _ :: _ => true end).
    { apply Permutation_length in Pz. unfold non_loc in Pz. rewrite !map_length in Pz.
      destruct (s_non (g_st c)), stuck; simpl in *; try reflexivity; discriminate. }
    set (z := match stuck with [] => false | _ :: _ => true end) in *.
    set (live' := map (reown (l_ser l2)) stuck ++ others).
    set (c'' := set_st c' st').
    assert (O' : OK (c'' :: r) [] live' (q_bk s) (q_base s)).
    { simpl in O. destruct O as [B1 [B2 [B3 B4]]]. cbn [OK]. split; [exact B1|]. split; [exact B2|]. split.
      - eapply perm_trans; [exact B3|]. simpl. subst c''. cbn [set_st g_ser]. unfold live'. rewrite lvk_app, Els2, lvk_reown_same.
        apply Permutation_app; [exact Pz|]. unfold others. rewrite Els, lvk_others by congruence. apply Permutation_refl.
      - eapply OK_live_ext; [| |exact B4].
        + intros c3 H3. destruct (Hsr c3 H3) as [K1 K2]. unfold live'. rewrite lvk_app, Els2, lvk_reown_other by congruence.
          simpl. unfold others. rewrite Els, lvk_others by congruence. apply Permutation_refl.
        + intros e He Ho. unfold live' in He. apply in_app_iff in He. destruct He as [He|He]; [|apply Hoth; exact He].
          exfalso. apply in_map_iff in He. destruct He as [e0 [E _]]. subst e. unfold reown, le_own in Ho. cbn [snd] in Ho.
          destruct (sers_tail_lt _ _ _ (g_ser c') GO (or_introl eq_refl)). lia. }
    eexists. split.
    + unfold gcheck_wipe, mk_gitem. cbn [gi_it i_evs i_ret i_warn gi_out gi_dbl]. rewrite Elv. fold mine others. cbn [apply_evs].
      unfold counters_ok. cbn [gi_dbl gi_out top_held set_st g_st]. rewrite held_wiped. cbn [N.eqb andb negb fst snd].
      fold stuck. fold z. rewrite W, Ez, Ew2, Bool.eqb_reflx. reflexivity.
    + fold live'. split; [|split].
      * assert (Hlive' : forall e, In e live' -> le_off e = 0 /\ (le_own e = g_ser c' \/ (In e (q_live s) /\ le_own e <> g_ser c))).
        { intros e He. unfold live' in He. apply in_app_iff in He. destruct He as [He|He].
          - apply in_map_iff in He. destruct He as [e0 [E He0]]. subst e. unfold stuck, mine in He0. apply filter_In in He0. destruct He0 as [He0 _].
            apply filter_In in He0. destruct He0 as [He0 _]. destruct (gr_live_off _ _ G e0 He0) as [K _].
            split; [destruct e0 as [[[a b] c0] d]; exact K | left; unfold reown, le_own; cbn [snd]; exact Els2].
          - destruct (Hoth e He) as [K1 K2]. destruct (gr_live_off _ _ G e K1) as [K3 _]. auto. }
        assert (Hnd' : NoDup (lids live')).
        { unfold live'. unfold lids. rewrite map_app. fold (lids (map (reown (l_ser l2)) stuck)). rewrite lids_reown. unfold lids. rewrite <- map_app.
          unfold stuck. apply NoDup_map_filter_prefix. unfold mine, others.
          eapply Permutation_NoDup; [apply Permutation_map; apply (filter_partition_perm _ (owned_by (l_ser l)))|]. apply (gr_live_nd _ _ G). }
        constructor; unfold lim; cbn [w_stk w_nx w_ser w_res q_bk q_live q_seen q_lv q_ptrs q_nser q_base mk_q fst snd].
        -- apply (gr_nx _ _ G).
        -- apply (gr_ser _ _ G).
        -- simpl in GS. injection GS as G1 G2 G3. destruct pop; unfold c''; cbn [tl map set_st g_ser l_ser]; congruence.
        -- unfold warned_of, warned_lv in *. simpl in GW. injection GW as G1 G2 G3.
           destruct pop; unfold c''; cbn [tl map set_st g_st wiped s_warned l_warned]; rewrite Ws, Ez; fold z; congruence.
        -- destruct pop; unfold c''; cbn [tl map set_st g_ser]; [|exact GO]. simpl in GO. destruct GO as [Ga [Gb GO2]].
           eapply sers_ok_weaken; [exact GO2|]. lia.
        -- apply (gr_ptrs _ _ G).
        -- intros _. apply (gr_base _ _ G Hne).
        -- apply (gr_freed _ _ G).
        -- intros e He. destruct (Hlive' e He) as [K1 K2]. split; [exact K1|].
           assert (le_own e = 0 \/ In (le_own e) (map g_ser (c' :: r))) as [H|H].
           { destruct K2 as [K2|[K2 K3]]; [right; left; auto|]. destruct (gr_live_off _ _ G e K2) as [_ [K4|K4]]; [left; exact K4|].
             right. rewrite Estk in K4. simpl in K4. destruct K4 as [K4|K4]; [congruence | exact K4]. }
           ++ left. exact H.
           ++ right. destruct pop; unfold c''; cbn [tl map set_st g_ser]; [exact H | right; exact H].
        -- exact Hnd'.
        -- intros e He Ho. destruct (Hlive' e He) as [_ [K2|[K2 K3]]].
           ++ exfalso. destruct (sers_tail_lt _ _ _ (g_ser c') GO (or_introl eq_refl)). lia.
           ++ destruct (gr_direct _ _ G e K2 Ho) as [Z1 [Z2 Z3]]. split; [exact Z1|]. split; [exact Z2|]. intros _. apply Z3. exact Hne.
        -- apply (gr_seen _ _ G).
        -- intros _. destruct pop; cbn [tl]; [exact O'|].
           cbn [OK set_st g_st g_ser]. simpl in HOK. destruct HOK as [B1 _].
           split; [unfold wiped; cbn [s_cache]; rewrite map_size_wipe; exact B1|]. split; [apply (sizes_ok_wipe _ _ (g_st c))|]. split.
           ++ rewrite out_loc_wiped. simpl. unfold live'. rewrite lvk_app, lvk_reown_other by congruence.
              simpl. rewrite lvk_none; [constructor|]. intros e He. apply Hoth. exact He.
           ++ rewrite ids_loc_wiped. exact O'.
        -- apply (gr_fnd _ _ G).
        -- intros y Hy. assert (Hy' : y < q_base s) by (destruct pop; exact Hy).
           destruct (gr_below _ _ G y) as [K|[e [J1 [J2 J3]]]]; [unfold lim; rewrite Estk; exact Hy' | left; exact K|].
           right. exists e. split; [|auto]. unfold live'. apply in_app_iff. right. apply Hdir; assumption.
      * intros e Ho. split.
        -- intros He. unfold live' in He. apply in_app_iff in He. destruct He as [He|He]; [|apply Hoth; exact He].
           exfalso. apply in_map_iff in He. destruct He as [e0 [E _]]. subst e. unfold reown, le_own in Ho. cbn [snd] in Ho.
           destruct (sers_tail_lt _ _ _ (g_ser c') GO (or_introl eq_refl)). lia.
        -- intros He. unfold live'. apply in_app_iff. right. apply Hdir; assumption.
      * destruct pop; reflexivity.
Qed.

(* ---------------------------------------------------------------- construction of an object *)
Lemma fresh_sizes : map n_size (s_cache fresh_cache) = class_sizes.
Proof. unfold fresh_cache. cbn [s_cache]. rewrite map_map. cbn [n_size]. apply map_id. Qed.
Lemma fresh_out : out_loc fresh_cache = [].
Proof. unfold out_loc, fresh_cache. cbn [s_cache s_non]. induction class_sizes as [|x l IH]; [reflexivity|]. simpl. exact IH. Qed.
Lemma fresh_ids : ids_loc fresh_cache = [].
Proof. unfold ids_loc, fresh_cache. cbn [s_cache s_non]. induction class_sizes as [|x l IH]; [reflexivity|]. simpl. exact IH. Qed.
Lemma fresh_sizes_ok : forall sizes bt, sizes_ok sizes bt fresh_cache.
Proof.
  intros sizes bt. split; [|split].
  - unfold fresh_cache. cbn [s_cache]. intros nd b Hn Hb. apply in_map_iff in Hn. destruct Hn as [x [E _]]. subst nd. destruct Hb.
  - intros b [].
  - intros _ b Hb. apply in_all_blocks_of in Hb. unfold fresh_cache in Hb. cbn [s_cache s_non] in Hb. destruct Hb as [[nd [Hn Hb]]|[]].
    apply in_map_iff in Hn. destruct Hn as [x [E _]]. subst nd. destruct Hb.
Qed.

Lemma sim_push : forall w s w' x, GR w s -> gstep w GPush = (w', x) ->
  exists s', gcheck_push s x = Some s' /\ GR w' s' /\ q_live s' = q_live s /\ w_res w' = w_res w /\ length (w_stk w') = S (length (w_stk w)).
Proof.
  intros w s w' x G E. cbn [gstep] in E. inversion E; subst w' x. clear E.
  eexists. split.
  - unfold gcheck_push, mk_gitem. cbn [gi_it i_evs i_ret i_warn gi_out gi_dbl apply_evs]. unfold counters_ok. cbn [gi_dbl gi_out N.eqb andb]. reflexivity.
  - split; [|split; [reflexivity|split; [reflexivity|reflexivity]]].
    pose proof (gr_sers _ _ G) as GS.
    assert (Hlv : q_lv s = [] <-> w_stk w = []).
    { split; intros H; rewrite H in GS; [destruct (w_stk w) | destruct (q_lv s)]; try reflexivity; discriminate GS. }
    assert (Hnew : forall e, In e (q_live s) -> le_own e <> w_ser w + 1).
    { intros e He. destruct (gr_live_off _ _ G e He) as [_ [H|H]]; [lia|]. destruct (sers_ok_le _ _ _ (gr_sorted _ _ G) H). lia. }
    constructor; unfold lim; cbn [w_stk w_nx w_ser w_res q_bk q_live q_seen q_lv q_ptrs q_nser q_base mk_q fst snd].
    + apply (gr_nx _ _ G).
    + rewrite (gr_ser _ _ G). reflexivity.
    + cbn [map g_ser l_ser]. rewrite (gr_ser _ _ G), GS. reflexivity.
    + unfold warned_of, warned_lv. cbn [map g_st l_warned]. f_equal. apply (gr_warn _ _ G).
    + cbn [map g_ser sers_ok]. split; [lia|]. split; [lia|]. replace (w_ser w + 1 - 1) with (w_ser w) by lia. apply (gr_sorted _ _ G).
    + apply (gr_ptrs _ _ G).
    + intros _. destruct (q_lv s) as [|l ls] eqn:Elv; [lia|]. apply (gr_base _ _ G). intros H. apply Hlv in H. discriminate H.
    + apply (gr_freed _ _ G).
    + intros e He. destruct (gr_live_off _ _ G e He) as [H1 H2]. split; [exact H1|]. destruct H2 as [H2|H2]; [left; exact H2 | right; right; exact H2].
    + apply (gr_live_nd _ _ G).
    + intros e He Ho. destruct (gr_direct _ _ G e He Ho) as [Z1 [Z2 Z3]]. split; [exact Z1|]. split; [exact Z2|]. intros _.
      destruct (q_lv s) as [|l ls] eqn:Elv; [apply szof_lt in Z1; exact Z1|]. apply Z3. intros H. apply Hlv in H. discriminate H.
    + apply (gr_seen _ _ G).
    + intros _. cbn [OK g_st g_ser]. split; [apply fresh_sizes|]. split; [apply fresh_sizes_ok|]. split.
      * rewrite fresh_out. simpl. rewrite lvk_none; [constructor | exact Hnew].
      * rewrite fresh_ids. destruct (q_lv s) as [|l ls] eqn:Elv.
        -- assert (Hs : w_stk w = []) by (apply Hlv; reflexivity). rewrite Hs. simpl. split; [intros id k []|]. split; [intros id H1 H2; lia|].
           split; [constructor|]. split; [apply (gr_freed _ _ G)|]. intros e He Ho. destruct (gr_direct _ _ G e He Ho) as [Z1 [Z2 _]].
           split; [apply szof_lt in Z1; exact Z1 | exact Z2].
        -- apply (gr_ok _ _ G). intros H. apply Hlv in H. discriminate H.
    + apply (gr_fnd _ _ G).
    + intros y Hy. apply (gr_below _ _ G y). unfold lim. destruct (q_lv s) as [|l ls] eqn:Elv.
      * assert (Hs : w_stk w = []) by (apply Hlv; reflexivity). rewrite Hs. exact Hy.
      * destruct (w_stk w) eqn:Es; [discriminate GS | exact Hy].
Qed.

(* ---------------------------------------------------------------- whole scenarios *)
Definition DV (direct : list (option N)) (w : world) (s : gs) : Prop :=
  length direct = length (w_res w) /\
  (forall k n0, nth_error direct k = Some (Some n0) -> exists id, nth_error (w_res w) k = Some id /\ In (id, 0, n0, 0) (q_live s)) /\
  (forall k k' n0 n0' id, nth_error direct k = Some (Some n0) -> nth_error direct k' = Some (Some n0') ->
     nth_error (w_res w) k = Some id -> nth_error (w_res w) k' = Some id -> k = k').

Lemma DV_same : forall direct w s w' s', DV direct w s -> w_res w' = w_res w ->
  (forall e, le_own e = 0 -> (In e (q_live s') <-> In e (q_live s))) -> DV direct w' s'.
Proof.
  intros direct w s w' s' [D1 [D2 D3]] Er Hl. unfold DV. rewrite Er. split; [exact D1|]. split; [|exact D3].
  intros k n0 H. destruct (D2 k n0 H) as [id [A B]]. exists id. split; [exact A|]. apply Hl; [reflexivity | exact B].
Qed.

(* the oracle's books at the end of a scenario (None = it rejected the observation) *)
Fixpoint gfinal_pops (s : gs) (o : gobs) : option gs :=
  match o with
  | [] => match q_lv s with [] => Some s | _ :: _ => None end
  | g :: o' =>
      match q_lv s with
      | [] => None
      | _ :: _ => match gcheck_wipe true s g with Some s1 => gfinal_pops s1 o' | None => None end
      end
  end.
Fixpoint gfinal_ops (s : gs) (ops : list gop) (o : gobs) : option gs :=
  match ops with
  | [] => gfinal_pops s o
  | op1 :: r => match o with
                | g :: o' => match gcheck_op s op1 g with Some s1 => gfinal_ops s1 r o' | None => None end
                | [] => None
                end
  end.
Definition gfinal (sc : gscenario) : option gs := gfinal_ops gs0 sc (grun sc).

Lemma gfinal_pops_check : forall o s sf, gfinal_pops s o = Some sf -> gcheck_pops s o = true /\ q_lv sf = [].
Proof.
  induction o as [|g o IH]; intros s sf H; simpl in *.
  - destruct (q_lv s) eqn:E; [inversion H; subst; auto | discriminate].
  - destruct (q_lv s); [discriminate|]. destruct (gcheck_wipe true s g); [|discriminate]. apply IH. exact H.
Qed.
Lemma gfinal_ops_check : forall ops s o sf, gfinal_ops s ops o = Some sf -> gcheck_ops s ops o = true /\ q_lv sf = [].
Proof.
  induction ops as [|op1 r IH]; intros s o sf H; simpl in *.
  - apply gfinal_pops_check. exact H.
  - destruct o as [|g o']; [discriminate|]. destruct (gcheck_op s op1 g); [|discriminate]. apply IH. exact H.
Qed.

Lemma pops_ok : forall k w s, GR w s -> length (w_stk w) = k ->
  exists sf wf, gfinal_pops s (pops k w) = Some sf /\ GR wf sf /\ w_stk wf = [].
Proof.
  induction k as [|k IH]; intros w s G Hk.
  - simpl. pose proof (gr_sers _ _ G) as GS. destruct (w_stk w) eqn:Es; [|discriminate Hk]. destruct (q_lv s); [|discriminate GS].
    exists s, w. auto.
  - destruct (w_stk w) as [|c rest] eqn:Estk; [discriminate Hk|]. cbn [pops gstep]. rewrite Estk.
    destruct (u_clear clear_all (c :: rest)) as [[stk' evs] wn] eqn:U.
    destruct (sim_wipe true w s c rest stk' evs wn G Estk U) as [s' [C [G' [_ L]]]].
    cbn [gfinal_pops]. pose proof (gr_sers _ _ G) as GS. rewrite Estk in GS.
    assert (Hq : exists l ls, q_lv s = l :: ls) by (destruct (q_lv s) as [|l ls]; [discriminate GS | eauto]).
    destruct Hq as [l [ls Elv]]. rewrite Elv, C. apply IH; [exact G'|]. cbn [w_stk]. rewrite L. simpl in Hk. lia.
Qed.

Lemma nth_error_set_nth_opt : forall l k k', nth_error (set_nth_opt k l) k' = if Nat.eqb k k' then (match nth_error l k with Some _ => Some None | None => None end) else nth_error l k'.
Proof.
  induction l as [|x l IH]; intros k k'.
  - destruct k, k'; simpl; try reflexivity; destruct (Nat.eqb k k'); reflexivity.
  - destruct k, k'; simpl; try reflexivity. apply IH.
Qed.
Lemma set_nth_opt_length : forall l k, length (set_nth_opt k l) = length l.
Proof. induction l as [|x l IH]; intros [|k]; simpl; try reflexivity. rewrite IH. reflexivity. Qed.

Lemma grun_ops_ok : forall ops w s direct, GR w s -> DV direct w s ->
  gvalid_ops (length (w_stk w)) direct ops = true ->
  exists sf wf, gfinal_ops s ops (grun_ops w ops) = Some sf /\ GR wf sf /\ w_stk wf = [].
Proof.
  induction ops as [|o ops IH]; intros w s direct G D V.
  - simpl. apply pops_ok; [exact G | reflexivity].
  - cbn [grun_ops]. destruct (gstep w o) as [w1 x] eqn:E. cbn [gfinal_ops].
    destruct o as [n|k n|k n| | | |]; cbn [gcheck_op].
    + (* request *)
      destruct (sim_alloc _ _ _ _ _ G E) as [s' [p [C [G' [R1 [L1 [Len Hp]]]]]]]. rewrite C.
      cbn [gvalid_ops] in V. eapply IH; [exact G'| |rewrite Len; exact V].
      destruct D as [D1 [D2 D3]]. unfold DV. rewrite R1, L1, !app_length, D1. split; [reflexivity|]. split.
      * intros k n0 H. destruct (Nat.lt_ge_cases k (length direct)) as [Hk|Hk].
        -- rewrite nth_error_app1 in H by exact Hk. destruct (D2 k n0 H) as [id [A B]]. exists id.
           split; [rewrite nth_error_app1; [exact A | rewrite <- D1; exact Hk] | right; exact B].
        -- rewrite nth_error_app2 in H by exact Hk. destruct (k - length direct)%nat as [|j] eqn:Ej; [|destruct j; discriminate H].
           simpl in H. destruct (length (w_stk w)) eqn:Ed; [|discriminate H]. inversion H; subst n0.
           assert (Es : w_stk w = []) by (destruct (w_stk w); [reflexivity | discriminate Ed]).
           exists p. split; [rewrite nth_error_app2 by lia; rewrite <- D1, Ej; reflexivity|]. left.
           unfold top_ser. pose proof (gr_sers _ _ G) as GS. rewrite Es in GS. destruct (q_lv s); [reflexivity | discriminate GS].
      * intros k k' n0 n0' id H H' A A'.
        assert (Hnew : forall j m, nth_error (direct ++ [match length (w_stk w) with O => Some n | S _ => None end]) j = Some (Some m) ->
                       (j < length direct)%nat \/ (j = length direct /\ w_stk w = [])).
        { intros j m Hj. destruct (Nat.lt_ge_cases j (length direct)) as [Hk|Hk]; [left; exact Hk|right].
          rewrite nth_error_app2 in Hj by exact Hk. destruct (j - length direct)%nat as [|j'] eqn:Ej; [|destruct j'; discriminate Hj].
          simpl in Hj. split; [lia|]. destruct (w_stk w); [reflexivity | discriminate Hj]. }
        assert (Hold : forall j m idj, (j < length direct)%nat -> nth_error (direct ++ [match length (w_stk w) with O => Some n | S _ => None end]) j = Some (Some m) ->
                       nth_error (w_res w ++ [p]) j = Some idj -> nth_error direct j = Some (Some m) /\ nth_error (w_res w) j = Some idj /\ idj < N.of_nat (length (fst (q_bk s)))).
        { intros j m idj Hj H1 H2. rewrite nth_error_app1 in H1 by exact Hj. rewrite nth_error_app1 in H2 by (rewrite <- D1; exact Hj).
          split; [exact H1|]. split; [exact H2|]. destruct (D2 j m H1) as [id2 [B1 B2]]. rewrite H2 in B1. inversion B1; subst id2.
          destruct (gr_direct _ _ G _ B2 eq_refl) as [Z _]. apply szof_lt in Z. exact Z. }
        destruct (Hnew k n0 H) as [Hk|[Hk Hs]], (Hnew k' n0' H') as [Hk'|[Hk' Hs']].
        -- destruct (Hold k n0 id Hk H A) as [B1 [B2 _]]. destruct (Hold k' n0' id Hk' H' A') as [B1' [B2' _]]. eapply D3; eauto.
        -- exfalso. destruct (Hold k n0 id Hk H A) as [_ [_ B3]]. rewrite Hk', nth_error_app2 in A' by lia. rewrite <- D1, Nat.sub_diag in A'.
           simpl in A'. inversion A'; subst id. rewrite (Hp Hs') in B3. lia.
        -- exfalso. destruct (Hold k' n0' id Hk' H' A') as [_ [_ B3]]. rewrite Hk, nth_error_app2 in A by lia. rewrite <- D1, Nat.sub_diag in A.
           simpl in A. inversion A; subst id. rewrite (Hp Hs) in B3. lia.
        -- lia.
    + (* release of the k-th pointer *)
      cbn [gstep] in E. cbn [gvalid_ops] in V. destruct (w_stk w) as [|c rest] eqn:Estk.
      * cbn [length] in V. destruct (nth_error direct k) as [[n0|]|] eqn:Ek; try discriminate V.
        apply andb_true_iff in V. destruct V as [V1 V2]. apply N.eqb_eq in V1. subst n0.
        destruct D as [D1 [D2 D3]]. destruct (D2 k n Ek) as [id [A B]].
        unfold gptr in E. rewrite A in E. simpl in E. inversion E; subst w1 x. clear E.
        destruct (sim_release_direct w s id n G Estk B) as [s' [C [G' L]]].
        assert (Ep : nth_error (q_ptrs s) k = Some (id, 0)) by (rewrite (gr_ptrs _ _ G), nth_error_map, A; reflexivity).
        rewrite Ep. change (top_held []) with 0. rewrite C. eapply IH; [exact G'| |exact V2].
        destruct (gdrop_live_spec _ _ _ _ _ (gr_live_nd _ _ G) B) as [P Q].
        unfold DV. cbn [w_res]. rewrite set_nth_opt_length. split; [exact D1|]. split.
        -- intros k' n0 H. rewrite nth_error_set_nth_opt in H. destruct (Nat.eqb k k') eqn:Ekk; [rewrite Ek in H; discriminate H|].
           apply Nat.eqb_neq in Ekk. destruct (D2 k' n0 H) as [id' [A' B']]. exists id'. split; [exact A'|]. rewrite L.
           assert (Hin : In (id', 0, n0, 0) ((id, 0, n, 0) :: gdrop_live (q_live s) id 0)) by (eapply Permutation_in; [exact P | exact B']).
           destruct Hin as [Hin|Hin]; [|exact Hin]. inversion Hin; subst id' n0. elim Ekk. eapply D3; eauto.
        -- intros k1 k2 n1 n2 id' H1 H2 A1 A2. rewrite nth_error_set_nth_opt in H1, H2.
           destruct (Nat.eqb k k1); [rewrite Ek in H1; discriminate H1|]. destruct (Nat.eqb k k2); [rewrite Ek in H2; discriminate H2|].
           eapply D3; eauto.
      * destruct (u_free (length (c :: rest)) (c :: rest) (gptr (w_res w) k) n) as [[stk' evs] wn] eqn:U.
        inversion E; subst w1 x. clear E.
        assert (Hp : prel (gptr (w_res w) k) (nth_error (q_ptrs s) k)).
        { unfold gptr, prel. rewrite (gr_ptrs _ _ G), nth_error_map. destruct (nth_error (w_res w) k); reflexivity. }
        destruct (sim_release_cache w s c rest _ _ n stk' evs wn G Estk Hp U) as [s' [C [G' [Hl Len]]]]. rewrite C.
        cbn [length] in V. apply andb_true_iff in V. destruct V as [_ V].
        eapply IH; [exact G'| |cbn [w_stk]; rewrite Len; exact V].
        eapply DV_same; [exact D | reflexivity | exact Hl].
    + (* release of a foreign buffer *)
      cbn [gstep] in E. cbn [gvalid_ops] in V. destruct (w_stk w) as [|c rest] eqn:Estk; [discriminate V|].
      destruct (u_free (length (c :: rest)) (c :: rest) (PFor k) n) as [[stk' evs] wn] eqn:U.
      inversion E; subst w1 x. clear E.
      destruct (sim_release_cache w s c rest (PFor k) None n stk' evs wn G Estk eq_refl U) as [s' [C [G' [Hl Len]]]]. rewrite C.
      eapply IH; [exact G'| |cbn [w_stk]; rewrite Len; exact V].
      eapply DV_same; [exact D | reflexivity | exact Hl].
    + (* clearCache *)
      cbn [gvalid_ops] in V. destruct (w_stk w) as [|c rest] eqn:Estk; [discriminate V|].
      destruct (sim_cc w s c rest w1 x G Estk E) as [s' [C [G' [L [R Len]]]]]. rewrite C.
      eapply IH; [exact G'| |rewrite Len, Estk; exact V].
      eapply DV_same; [exact D | exact R |]. intros e _. rewrite L. tauto.
    + (* clearAll *)
      cbn [gstep] in E. cbn [gvalid_ops] in V. destruct (w_stk w) as [|c rest] eqn:Estk; [discriminate V|].
      destruct (u_clear clear_all (c :: rest)) as [[stk' evs] wn] eqn:U. inversion E; subst w1 x. clear E.
      destruct (sim_wipe false w s c rest stk' evs wn G Estk U) as [s' [C [G' [Hl Len]]]]. rewrite C.
      eapply IH; [exact G'| |cbn [w_stk] in *; rewrite Len; exact V].
      eapply DV_same; [exact D | reflexivity | exact Hl].
    + (* construction *)
      destruct (sim_push w s w1 x G E) as [s' [C [G' [L [R Len]]]]]. rewrite C.
      cbn [gvalid_ops] in V. eapply IH; [exact G'| |rewrite Len; exact V].
      eapply DV_same; [exact D | exact R |]. intros e _. rewrite L. tauto.
    + (* destruction *)
      cbn [gstep] in E. cbn [gvalid_ops] in V. destruct (w_stk w) as [|c rest] eqn:Estk; [discriminate V|].
      destruct (u_clear clear_all (c :: rest)) as [[stk' evs] wn] eqn:U. inversion E; subst w1 x. clear E.
      destruct (sim_wipe true w s c rest stk' evs wn G Estk U) as [s' [C [G' [Hl Len]]]]. rewrite C.
      eapply IH; [exact G'| |cbn [w_stk] in *; rewrite Len; exact V].
      eapply DV_same; [exact D | reflexivity | exact Hl].
Qed.

Lemma GR_init : GR world0 gs0.
Proof.
  constructor; unfold world0, gs0; cbn [w_stk w_nx w_ser w_res q_bk q_live q_seen q_lv q_ptrs q_nser q_base mk_q fst snd map length].
  - reflexivity.
  - reflexivity.
  - reflexivity.
  - reflexivity.
  - exact I.
  - reflexivity.
  - intros H. elim H. reflexivity.
  - intros id [].
  - intros e [].
  - constructor.
  - intros e [].
  - intros id c [].
  - intros H. elim H. reflexivity.
  - constructor.
  - unfold lim. simpl. intros id H. lia.
Qed.

Lemma gfinal_valid : forall sc, gvalid sc = true -> exists sf wf, gfinal sc = Some sf /\ GR wf sf /\ w_stk wf = [].
Proof.
  intros sc V. unfold gfinal, grun. apply (grun_ops_ok sc world0 gs0 []); [exact GR_init | | exact V].
  split; [reflexivity|]. split; intros k; intros; destruct k; discriminate.
Qed.

Theorem grun_meets_gspec : forall sc, gvalid sc = true -> gspec sc (grun sc) = true.
Proof.
  intros sc V. destruct (gfinal_valid sc V) as [sf [wf [F _]]]. unfold gspec. apply (gfinal_ops_check _ _ _ _ F).
Qed.

Theorem xrun_meets_xspec : forall s, xvalid s = true -> xspec s (xrun s) = true.
Proof.
  intros [c|g] V; simpl in *; [apply C18_Proofs.run_meets_spec; exact V | apply grun_meets_gspec; exact V].
Qed.

(* ---------------------------------------------------------------- the recorder's own books of a whole run *)
Definition gtrace (o : gobs) : list ev := flat_map (fun g => i_evs (gi_it g)) o.

Ltac gdes H := repeat match type of H with
  | context [match ?x with _ => _ end] => destruct x eqn:?; try discriminate H
  end.

Lemma gcheck_op_chks : forall s o g s', gcheck_op s o g = Some s' -> chks (q_bk s) (i_evs (gi_it g)) = Some (q_bk s').
Proof.
  intros s o g s' H. destruct o as [n|k n|k n| | | |]; cbn [gcheck_op] in H.
  - unfold gcheck_alloc in H. gdes H; inversion H; subst; cbn [q_bk mk_q]; eapply apply_evs_chks; eauto.
  - unfold gcheck_release in H. gdes H; inversion H; subst; cbn [q_bk mk_q]; eapply apply_evs_chks; eauto.
  - unfold gcheck_release in H. gdes H; inversion H; subst; cbn [q_bk mk_q]; eapply apply_evs_chks; eauto.
  - unfold gcheck_cc in H. gdes H; inversion H; subst; cbn [q_bk mk_q]; eapply apply_evs_chks; eauto.
  - unfold gcheck_wipe in H. gdes H; inversion H; subst; cbn [q_bk mk_q]; eapply apply_evs_chks; eauto.
  - unfold gcheck_push in H. gdes H; inversion H; subst; cbn [q_bk mk_q]; eapply apply_evs_chks; eauto.
  - unfold gcheck_wipe in H. gdes H; inversion H; subst; cbn [q_bk mk_q]; eapply apply_evs_chks; eauto.
Qed.
Lemma gfinal_pops_chks : forall o s sf, gfinal_pops s o = Some sf -> chks (q_bk s) (gtrace o) = Some (q_bk sf).
Proof.
  induction o as [|g o IH]; intros s sf H; simpl in H.
  - destruct (q_lv s); [inversion H; subst; reflexivity | discriminate].
  - destruct (q_lv s) eqn:E; [discriminate|]. destruct (gcheck_wipe true s g) as [s1|] eqn:W; [|discriminate].
    unfold gtrace. cbn [flat_map]. rewrite chks_app. rewrite (gcheck_op_chks s GPop g s1 W). apply IH. exact H.
Qed.
Lemma gfinal_ops_chks : forall ops s o sf, gfinal_ops s ops o = Some sf -> chks (q_bk s) (gtrace o) = Some (q_bk sf).
Proof.
  induction ops as [|op1 r IH]; intros s o sf H; simpl in H.
  - apply gfinal_pops_chks. exact H.
  - destruct o as [|g o']; [discriminate|]. destruct (gcheck_op s op1 g) as [s1|] eqn:W; [|discriminate].
    unfold gtrace. cbn [flat_map]. rewrite chks_app. rewrite (gcheck_op_chks _ _ _ _ W). apply IH. exact H.
Qed.

(* at the end of every valid scenario nothing is installed any more, the calls the recorder saw were all legal in its own
   books, no block went back twice, and every block it ever handed out is back -- except the buffers that were requested
   with nothing installed and are still in use *)
Theorem installed_all_returned : forall sc, gvalid sc = true ->
  exists sf, gfinal sc = Some sf /\ q_lv sf = [] /\
    chks ([], []) (gtrace (grun sc)) = Some (q_bk sf) /\ NoDup (snd (q_bk sf)) /\
    forall id, id < N.of_nat (length (fst (q_bk sf))) -> In id (snd (q_bk sf)) \/ direct_live sf id.
Proof.
  intros sc V. destruct (gfinal_valid sc V) as [sf [wf [F [G E]]]]. exists sf. split; [exact F|].
  split; [apply (gfinal_ops_check _ _ _ _ F)|]. split; [apply (gfinal_ops_chks _ _ _ _ F)|]. split; [apply (gr_fnd _ _ G)|].
  intros id Hid. apply (gr_below _ _ G). unfold lim. rewrite E. exact Hid.
Qed.
(* ---------------------------------------------------------------- the destructor leaves nothing with the object *)
Theorem destroyed_holds_nothing : forall w w' x o, (o = GPop \/ o = GClearAll) -> gstep w o = (w', x) -> gi_out x = 0 /\ gi_dbl x = 0.
Proof.
  intros w w' x o Ho E. assert (H : forall stk' evs wn, u_clear clear_all (w_stk w) = (stk', evs, wn) -> top_held stk' = 0).
  { intros stk' evs wn U. unfold u_clear in U. destruct (w_stk w) as [|c rest]; [inversion U; reflexivity|].
    rewrite clear_all_eq in U. cbn [o_evs mk_out o_warn] in U.
    destruct (replay_with (u_free (length rest)) rest _) as [[r' e] w0]. inversion U; subst. cbn [top_held set_st g_st]. apply (held_wiped (g_st c)). }
  destruct Ho as [-> | ->]; cbn [gstep] in E; destruct (u_clear clear_all (w_stk w)) as [[stk' evs] wn] eqn:U;
    inversion E; subst; cbn [gi_out gi_dbl mk_gitem]; split; [eapply H; eauto | reflexivity | eapply H; eauto | reflexivity].
Qed.

(* ---------------------------------------------------------------- one installed object over the recorder IS the cache of C18_Model *)
Lemma replay_rec_efs : forall l, (forall e, In e l -> exists id sz, e = EF id sz) -> replay_with (u_free 0) [] l = ([], l, false).
Proof.
  induction l as [|e l IH]; intros H; [reflexivity|]. destruct (H e (or_introl eq_refl)) as [id [sz ->]].
  cbn [replay_with]. rewrite u_free_nil. cbv beta iota. rewrite IH; [reflexivity|]. intros e' He'. apply H. right. exact He'.
Qed.
Lemma destroy_list_efs : forall sz l e, In e (destroy_list sz l) -> exists id s, e = EF id s.
Proof.
  intros sz l e H. unfold destroy_list in H. apply in_flat_map in H. destruct H as [b [_ H]]. simpl in H. destruct H as [<-|[<-|[]]]; eauto.
Qed.
Theorem single_release_is_dealloc : forall c p n,
  u_free 1 [c] p n = ([set_st c (fst (dealloc (g_st c) p n))], o_evs (snd (dealloc (g_st c) p n)), o_warn (snd (dealloc (g_st c) p n))).
Proof.
  intros c p n. cbn [u_free]. destruct (dealloc (g_st c) p n) as [st' x] eqn:D. cbn [fst snd].
  rewrite replay_rec_efs; [rewrite orb_false_r; reflexivity|].
  intros e He. unfold dealloc, unknown_release in D. destruct (is_cached n).
  - destruct (unlink _ p) as [[b u]|]; inversion D; subst; destruct He.
  - destruct (unlink _ p) as [[b u]|]; inversion D; subst; [|destruct He]. simpl in He. destruct He as [<-|[<-|[]]]; eauto.
Qed.
Theorem single_clear_is_clear : forall c,
  u_clear clear_cache [c] = ([set_st c (fst (clear_cache (g_st c)))], o_evs (snd (clear_cache (g_st c))), false) /\
  u_clear clear_all [c] = ([set_st c (fst (clear_all (g_st c)))], o_evs (snd (clear_all (g_st c))), false).
Proof.
  intros c. unfold u_clear. rewrite clear_cache_eq, clear_all_eq. cbn [fst snd o_evs mk_out o_warn length]. split.
  - rewrite replay_rec_efs; [reflexivity|]. intros e He. apply in_flat_map in He. destruct He as [nd [_ He]]. eapply destroy_list_efs; eauto.
  - rewrite replay_rec_efs; [reflexivity|]. intros e He. apply in_app_iff in He. destruct He as [He|He].
    + apply in_flat_map in He. destruct He as [nd [_ He]]. eapply destroy_list_efs; eauto.
    + eapply destroy_list_efs; eauto.
Qed.
(* a request: the same lists, the same allocator calls, the same pointer as alloc of C18_Model when the recorder's next id is the cache's *)
Theorem single_request_is_alloc : forall c n,
  let st := g_st c in
  exists st' nx', u_alloc 1 [c] (s_next st) n = ([set_st c st'], nx', match o_ret (snd (alloc st n)) with Some p => p | None => 0 end,
                                                 o_evs (snd (alloc st n))) /\
              nx' = s_next (fst (alloc st n)) /\
              s_cache st' = s_cache (fst (alloc st n)) /\ s_non st' = s_non (fst (alloc st n)) /\ s_warned st' = s_warned (fst (alloc st n)).
Proof.
  intros c n. cbv zeta. unfold alloc. destruct (is_cached n) eqn:C.
  - destruct (n_free (nth (index_for (s_cache (g_st c)) n) (s_cache (g_st c)) dnode)) as [|b fr] eqn:F.
    + assert (Nd : need (g_st c) n = Some (n_size (nth (index_for (s_cache (g_st c)) n) (s_cache (g_st c)) dnode)))
        by (unfold need; rewrite C; cbv zeta; rewrite F; reflexivity).
      cbn [u_alloc]. rewrite Nd. cbn [u_alloc]. unfold alloc_with, create_block. rewrite C. cbv zeta. rewrite F.
      cbn [fst snd o_ret o_evs mk_out s_next s_cache s_non s_warned b_mem]. eexists. eexists. split; [reflexivity|].
      cbn [with_cache s_cache s_non s_warned]. split; [lia | auto].
    + assert (Nd : need (g_st c) n = None) by (unfold need; rewrite C; cbv zeta; rewrite F; reflexivity).
      cbn [u_alloc]. rewrite Nd. unfold alloc_hit. cbv zeta. rewrite F.
      cbn [fst snd o_ret o_evs mk_out s_next s_cache s_non s_warned b_mem]. eexists. eexists. split; [reflexivity|].
      cbn [with_cache s_cache s_non s_warned s_next]. auto.
  - assert (Nd : need (g_st c) n = Some n) by (unfold need; rewrite C; reflexivity).
    cbn [u_alloc]. rewrite Nd. cbn [u_alloc]. unfold alloc_with, create_block. rewrite C.
    cbn [fst snd o_ret o_evs mk_out s_next s_cache s_non s_warned b_mem]. eexists. eexists. split; [reflexivity|].
    cbn [s_cache s_non s_warned]. split; [lia | auto].
Qed.

(* ---------------------------------------------------------------- the destructor of the red-team change is refuted *)
Fixpoint grun_with (step : world -> gop -> world * gitem) (w : world) (ops : list gop) : gobs :=
  match ops with
  | [] => (fix pops k w := match k with O => [] | S k' => match step w GPop with (w1, x) => x :: pops k' w1 end end) (length (w_stk w)) w
  | o :: r => match step w o with (w1, x) => x :: grun_with step w1 r end
  end.
Lemma grun_with_gstep : forall ops w, grun_with gstep w ops = grun_ops w ops.
Proof.
  induction ops as [|o r IH]; intros w; simpl.
  - generalize (length (w_stk w)). intros k. revert w. induction k as [|k IHk]; intros w; [reflexivity|]. simpl.
    destruct (u_clear clear_all (w_stk w)) as [[a b] d]. rewrite IHk. reflexivity.
  - destruct (gstep w o). rewrite IH. reflexivity.
Qed.
Definition leak_scn : gscenario := [GPush; GAlloc 20; GAlloc 300].
Theorem destroy_by_clear_cache_refuted : gvalid leak_scn = true /\ gspec leak_scn (grun_with gstep_cc_variant world0 leak_scn) = false.
Proof. vm_compute. split; reflexivity. Qed.

(* satisfiability: a scenario with two objects nested, buffers of both kinds in use at both destructions, one after the other *)
Definition gdemo : gscenario :=
  [GAlloc 10; GPush; GAlloc 20; GAlloc 300; GPush; GAlloc 33; GAlloc 400; GRel 1 20; GFor 0 5; GPop; GRel 4 400; GClearCache;
   GAlloc 16; GPop; GRel 0 10; GPush; GRel 2 300; GAlloc 64; GClearAll; GAlloc 1].
Lemma gdemo_ok : gvalid gdemo = true /\ gspec gdemo (grun gdemo) = true.
Proof. vm_compute. split; reflexivity. Qed.
