From Coq Require Import ExtrOcamlBasic ZArith.
From CppUVerif Require Import C16_Events C16_Model.
Extraction "c16_model.ml" C16_Model.run C16_Model.run_old C16_Model.spec C16_Model.valid C16_Model.xml_accepts BinInt.Z.of_N.
