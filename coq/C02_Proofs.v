(* C02 -- lemmas.  Part A: the pointer array (swap, relink, shuffle, reverse).  Part B: filters.  Part C: runAllTests.
   Part D: one repetition of a run meets the oracle (the sessions and run_meets_spec are in C02_Sessions.v). *)
From Coq Require Import NArith Arith Bool List Lia Permutation FinFun.
From CppUVerif Require Import lib.Str C13_Model C13_Proofs C02_Model.
Import ListNotations.

Lemma registry_of_rev ts : registry_of ts = rev ts.
Proof.
  unfold registry_of. rewrite <- (app_nil_r (rev ts)). generalize (@nil test).
  induction ts as [|t ts IH]; intro acc; cbn; [reflexivity|]. rewrite IH. unfold add_test. rewrite <- app_assoc. reflexivity.
Qed.

(* ================================================================== Part A *)
Section Array.
Context {A : Type}.
Implicit Types a b : list A.

Lemma upd_length a : forall i v, length (upd a i v) = length a.
Proof. induction a as [|x a IH]; intros [|i] v; cbn; try reflexivity. rewrite IH. reflexivity. Qed.

Lemma nth_error_upd a : forall i v k, (i < length a)%nat ->
  nth_error (upd a i v) k = if Nat.eqb k i then Some v else nth_error a k.
Proof.
  induction a as [|x a IH]; intros i v k H; cbn in H; [lia|].
  destruct i as [|i]; destruct k as [|k]; cbn; try reflexivity.
  apply IH. lia.
Qed.

Lemma nth_error_ext a : forall b, length a = length b ->
  (forall k, (k < length a)%nat -> nth_error a k = nth_error b k) -> a = b.
Proof.
  induction a as [|x a IH]; intros [|y b] L H; cbn in L; try discriminate L; [reflexivity|].
  assert (H0 := H 0%nat ltac:(cbn; lia)). cbn in H0. inversion H0; subst. f_equal.
  apply IH; [lia|]. intros k Hk. apply (H (S k)). cbn. lia.
Qed.

Definition transp (i1 i2 k : nat) : nat := if Nat.eqb k i2 then i1 else if Nat.eqb k i1 then i2 else k.

Lemma transp_inj i1 i2 : Injective (transp i1 i2).
Proof.
  intros x y. unfold transp.
  destruct (Nat.eqb_spec x i2), (Nat.eqb_spec y i2), (Nat.eqb_spec x i1), (Nat.eqb_spec y i1); lia.
Qed.
Lemma transp_lt i1 i2 n k : (i1 < n)%nat -> (i2 < n)%nat -> (k < n)%nat -> (transp i1 i2 k < n)%nat.
Proof. unfold transp. intros. destruct (Nat.eqb k i2), (Nat.eqb k i1); lia. Qed.

Lemma swap_spec a i1 i2 : (i1 < length a)%nat -> (i2 < length a)%nat ->
  exists a', swap a i1 i2 = Some a' /\ length a' = length a /\ forall k, nth_error a' k = nth_error a (transp i1 i2 k).
Proof.
  intros H1 H2. unfold swap.
  destruct (nth_error a i2) as [e2|] eqn:E2; [|apply nth_error_None in E2; lia].
  destruct (nth_error a i1) as [e1|] eqn:E1; [|apply nth_error_None in E1; lia].
  eexists. split; [reflexivity|]. split; [rewrite !upd_length; reflexivity|].
  intro k. rewrite nth_error_upd by (rewrite upd_length; assumption). rewrite nth_error_upd by assumption.
  unfold transp. destruct (Nat.eqb_spec k i2); [subst; symmetry; assumption|].
  destruct (Nat.eqb_spec k i1); [subst; symmetry; assumption|reflexivity].
Qed.

Lemma swap_none a i1 i2 : swap a i1 i2 = None -> (length a <= i1 \/ length a <= i2)%nat.
Proof.
  unfold swap. destruct (nth_error a i2) eqn:E2; [|intros _; right; apply nth_error_None; assumption].
  destruct (nth_error a i1) eqn:E1; [discriminate|]. intros _. left. apply nth_error_None. assumption.
Qed.

Lemma swap_perm a i1 i2 a' : swap a i1 i2 = Some a' -> Permutation a' a /\ length a' = length a.
Proof.
  intro H. assert (B : (i1 < length a /\ i2 < length a)%nat).
  { unfold swap in H. destruct (nth_error a i2) eqn:E2; [|discriminate]. destruct (nth_error a i1) eqn:E1; [|discriminate].
    split; apply nth_error_Some; congruence. }
  destruct B as [B1 B2]. destruct (swap_spec a i1 i2 B1 B2) as [a2 [E [L N]]]. rewrite H in E. inversion E; subst a2.
  split; [|assumption]. apply Permutation_sym. apply Permutation_nth_error. split; [symmetry; assumption|].
  exists (transp i1 i2). split; [apply transp_inj | exact N].
Qed.

(* ---------------- the array built from the list holds the list *)
Lemma count_tests_length a : count_tests a = length a.
Proof. induction a as [|x a IH]; cbn; [reflexivity|]. rewrite IH. lia. Qed.
Lemma array_fill_all a : array_fill (length a) a = a.
Proof. induction a as [|x a IH]; cbn; [reflexivity|]. rewrite IH. reflexivity. Qed.
Lemma pointer_array_id a : pointer_array a = a.
Proof. unfold pointer_array. rewrite count_tests_length. apply array_fill_all. Qed.

(* ---------------- relinkTestsInOrder gives back the array's order *)
Lemma skipn_cons_nth a : forall k t, nth_error a k = Some t -> skipn k a = t :: skipn (S k) a.
Proof.
  induction a as [|x a IH]; intros [|k] t H; cbn in *; try discriminate.
  - inversion H; reflexivity.
  - apply IH. assumption.
Qed.

Lemma relink_loop_ok a : forall n i, (i + n = length a)%nat ->
  relink_loop n i (length a) a (skipn (length a - i) a) = Some a.
Proof.
  induction n as [|n IH]; intros i H; cbn.
  - replace (length a - i)%nat with 0%nat by lia. reflexivity.
  - destruct (nth_error a (length a - i - 1)) as [t|] eqn:E; [|apply nth_error_None in E; lia].
    specialize (IH (S i) ltac:(lia)).
    replace (length a - S i)%nat with (length a - i - 1)%nat in IH by lia.
    rewrite (skipn_cons_nth a _ t E) in IH.
    replace (S (length a - i - 1)) with (length a - i)%nat in IH by lia. exact IH.
Qed.
Lemma relink_ok a : relink a = Some a.
Proof.
  unfold relink. pose proof (relink_loop_ok a (length a) 0 ltac:(lia)) as H.
  rewrite Nat.sub_0_r in H. rewrite skipn_all in H. exact H.
Qed.

(* ---------------- shuffle: in bounds and a permutation, for every stream *)
Lemma shuffle_loop_ok : forall i rs a drawn, (i < length a)%nat ->
  exists a' d, shuffle_loop i rs a drawn = Some (a', d) /\ Permutation a' a /\ length a' = length a
               /\ length d = (length drawn + i)%nat.
Proof.
  induction i as [|i IH]; intros rs a drawn H; cbn [shuffle_loop].
  - exists a, (rev drawn). repeat split; [reflexivity | rewrite rev_length; lia].
  - destruct (next_rand rs) as [r rs'].
    set (j := N.to_nat (r mod N.of_nat (S i + 1))).
    assert (Hj : (j < length a)%nat).
    { subst j. assert (r mod N.of_nat (S i + 1) < N.of_nat (S i + 1))%N by (apply N.mod_lt; lia). lia. }
    destruct (swap_spec a (S i) j H Hj) as [a1 [E [L _]]]. rewrite E.
    destruct (swap_perm a (S i) j a1 E) as [P1 _].
    destruct (IH rs' a1 (r :: drawn) ltac:(lia)) as [a' [d [E' [P' [L' D']]]]].
    exists a', d. split; [exact E'|]. split; [eapply Permutation_trans; eassumption|]. split; [lia|]. cbn in D'. lia.
Qed.

Lemma shuffle_ok seed rs a : exists l seeds drawn, shuffle seed rs a = Some (l, seeds, drawn) /\ Permutation l a
  /\ length drawn = (length a - 1)%nat.
Proof.
  unfold shuffle. destruct (length a) as [|k] eqn:L.
  - exists a, [], []. repeat split. apply Permutation_refl.
  - destruct (shuffle_loop_ok k rs a [] ltac:(lia)) as [a' [d [E [P [L' D]]]]]. rewrite E. rewrite relink_ok.
    exists a', [(seed mod UINT_MOD)%N], d. repeat split; [assumption|]. cbn in D. lia.
Qed.

(* ---------------- reverse = rev *)
Lemma nth_error_rev a : forall k, (k < length a)%nat -> nth_error (rev a) k = nth_error a (length a - 1 - k).
Proof.
  induction a as [|x a IH]; intros k H; cbn in H; [lia|]. cbn [rev length].
  destruct (Nat.eq_dec k (length a)) as [->|N].
  - rewrite nth_error_app2 by (rewrite rev_length; lia). rewrite rev_length.
    replace (length a - length a)%nat with 0%nat by lia. replace (S (length a) - 1 - length a)%nat with 0%nat by lia. reflexivity.
  - rewrite nth_error_app1 by (rewrite rev_length; lia). rewrite IH by lia.
    replace (S (length a) - 1 - k)%nat with (S (length a - 1 - k)) by lia. reflexivity.
Qed.

Definition rev_upto (a : list A) (i : nat) (b : list A) : Prop :=
  length b = length a /\
  forall k, (k < length a)%nat ->
    nth_error b k = if (Nat.ltb k i || Nat.leb (length a - i) k) then nth_error a (length a - 1 - k) else nth_error a k.

Lemma reverse_loop_ok a : forall n i b, (2 * (i + n) <= length a)%nat -> rev_upto a i b ->
  exists b', reverse_loop n i (length a) b = Some b' /\ rev_upto a (i + n) b'.
Proof.
  induction n as [|n IH]; intros i b H [L R]; cbn [reverse_loop].
  - exists b. split; [reflexivity|]. rewrite Nat.add_0_r. split; assumption.
  - destruct (swap_spec b i (length a - i - 1) ltac:(lia) ltac:(lia)) as [b1 [E [L1 N1]]]. rewrite E.
    destruct (IH (S i) b1 ltac:(lia)) as [b' [E' R']].
    + split; [lia|]. intros k Hk. rewrite N1. unfold transp.
      destruct (Nat.eqb_spec k (length a - i - 1)).
      * subst k. rewrite R by lia.
        replace (Nat.ltb i i || Nat.leb (length a - i) i) with false
          by (symmetry; apply orb_false_iff; split; [apply Nat.ltb_ge; lia | apply Nat.leb_gt; lia]).
        replace (Nat.ltb (length a - i - 1) (S i) || Nat.leb (length a - S i) (length a - i - 1)) with true
          by (symmetry; apply orb_true_iff; right; apply Nat.leb_le; lia).
        f_equal. lia.
      * destruct (Nat.eqb_spec k i).
        -- subst k. rewrite R by lia.
           replace (Nat.ltb (length a - i - 1) i || Nat.leb (length a - i) (length a - i - 1)) with false
             by (symmetry; apply orb_false_iff; split; [apply Nat.ltb_ge; lia | apply Nat.leb_gt; lia]).
           replace (Nat.ltb i (S i) || Nat.leb (length a - S i) i) with true
             by (symmetry; apply orb_true_iff; left; apply Nat.ltb_lt; lia).
           f_equal. lia.
        -- rewrite R by lia.
           replace (Nat.ltb k (S i) || Nat.leb (length a - S i) k) with (Nat.ltb k i || Nat.leb (length a - i) k); [reflexivity|].
           destruct (Nat.ltb_spec k i), (Nat.ltb_spec k (S i)), (Nat.leb_spec (length a - i) k), (Nat.leb_spec (length a - S i) k);
             cbn; try reflexivity; lia.
    + exists b'. split; [exact E'|]. replace (i + S n)%nat with (S i + n)%nat by lia. exact R'.
Qed.

Lemma div2_bounds n : (2 * Nat.div2 n <= n <= 2 * Nat.div2 n + 1)%nat.
Proof. pose proof (Nat.div2_odd n) as H. destruct (Nat.odd n); cbn in H; lia. Qed.

Lemma reverse_ok a : reverse a = Some (rev a).
Proof.
  unfold reverse. destruct (length a) as [|c] eqn:L.
  - destruct a; [reflexivity | discriminate L].
  - rewrite <- L. pose proof (div2_bounds (length a)) as D.
    destruct (reverse_loop_ok a (Nat.div2 (length a)) 0 a ltac:(lia)) as [b' [E [Lb R]]].
    + split; [reflexivity|]. intros k Hk.
      replace (Nat.ltb k 0 || Nat.leb (length a - 0) k) with false; [reflexivity|].
      symmetry. apply orb_false_iff. split; [apply Nat.ltb_ge; lia | apply Nat.leb_gt; lia].
    + rewrite E. rewrite relink_ok. f_equal. apply nth_error_ext; [rewrite rev_length; assumption|].
      intros k Hk. rewrite Lb in Hk. rewrite R by assumption. rewrite nth_error_rev by assumption. cbn [Nat.add].
      destruct (Nat.ltb_spec k (Nat.div2 (length a))); cbn [orb]; [reflexivity|].
      destruct (Nat.leb_spec (length a - Nat.div2 (length a)) k); [reflexivity|].
      f_equal. lia.
Qed.
End Array.

(* ================================================================== Part B: filters *)
Local Open Scope N_scope.

Lemma nonul_NN x : nonul x = true -> NN x.
Proof.
  unfold nonul, NN. rewrite forallb_forall, Forall_forall. intros H c Hc. specialize (H c Hc).
  apply andb_true_iff in H. destruct H as [H _]. apply negb_true_iff in H. apply N.eqb_neq in H. exact H.
Qed.

Lemma sstr_contains_ok a b : nonul a = true -> nonul b = true -> sstr_contains a b = contains a b.
Proof.
  intros Ha Hb. unfold sstr_contains, cs. rewrite (contains_ok a b [] [] (nonul_NN _ Ha) (nonul_NN _ Hb)). reflexivity.
Qed.
Lemma sstr_equal_ok a b : nonul a = true -> nonul b = true -> sstr_equal a b = bytes_eqb a b.
Proof.
  intros Ha Hb. unfold sstr_equal, cs. rewrite (equal_ok a b [] [] (nonul_NN _ Ha) (nonul_NN _ Hb)). reflexivity.
Qed.

Lemma filter_match_accepts f x : filter_ok f = true -> nonul x = true -> filter_match f x = accepts f x.
Proof.
  intros Hf Hx. unfold filter_match, accepts, filter_ok in *. cbv zeta.
  destruct (f_strict f).
  - rewrite (sstr_equal_ok x (f_pat f) Hx Hf). destruct (f_invert f), (bytes_eqb x (f_pat f)); reflexivity.
  - rewrite (sstr_contains_ok x (f_pat f) Hx Hf). destruct (f_invert f), (contains x (f_pat f)); reflexivity.
Qed.

Lemma match_loop_existsb fs x : forallb filter_ok fs = true -> nonul x = true ->
  match_loop x fs = existsb (fun f => accepts f x) fs.
Proof.
  intros Hf Hx. induction fs as [|f fs IH]; cbn; [reflexivity|]. cbn in Hf. apply andb_true_iff in Hf. destruct Hf as [H1 H2].
  rewrite filter_match_accepts by assumption. rewrite IH by assumption. destruct (accepts f x); reflexivity.
Qed.
Lemma shell_match_accepted fs x : forallb filter_ok fs = true -> nonul x = true -> shell_match x fs = accepted fs x.
Proof.
  intros Hf Hx. unfold shell_match, accepted. destruct fs as [|f fs]; [reflexivity|]. apply match_loop_existsb; assumption.
Qed.

Definition filters_ok (s : scenario) : Prop := forallb filter_ok (s_gf s) = true /\ forallb filter_ok (s_nf s) = true.

Lemma should_run_selected s t : filters_ok s -> test_ok t = true -> should_run (s_gf s) (s_nf s) t = selected s t.
Proof.
  intros [Hg Hn] Ht. unfold test_ok in Ht. apply andb_true_iff in Ht. destruct Ht as [H1 H2].
  unfold should_run, selected. rewrite !shell_match_accepted by assumption. reflexivity.
Qed.

(* the declarative reading of a filter *)
Definition Base (f : tfilter) (x : list N) : Prop :=
  if f_strict f then x = f_pat f else exists pre post, x = pre ++ f_pat f ++ post.
Definition Accepts (f : tfilter) (x : list N) : Prop := if f_invert f then ~ Base f x else Base f x.
Definition Accepted (fs : list tfilter) (x : list N) : Prop := fs = [] \/ exists f, In f fs /\ Accepts f x.

Lemma accepts_Accepts f x : accepts f x = true <-> Accepts f x.
Proof.
  unfold accepts, Accepts, Base. destruct (f_invert f), (f_strict f).
  - destruct (bytes_eqb x (f_pat f)) eqn:E; cbn.
    + apply bytes_eqb_eq in E. split; intro H; [discriminate H | contradiction].
    + apply bytes_eqb_neq in E. split; intro; [assumption | reflexivity].
  - destruct (contains x (f_pat f)) eqn:E; cbn.
    + split; intro H; [discriminate H|]. exfalso. apply H. apply contains_spec. assumption.
    + split; intro H; [|reflexivity]. intro C. apply contains_spec in C. congruence.
  - destruct (bytes_eqb x (f_pat f)) eqn:E; cbn.
    + apply bytes_eqb_eq in E. split; intro; [assumption | reflexivity].
    + apply bytes_eqb_neq in E. split; intro H; [discriminate H | contradiction].
  - destruct (contains x (f_pat f)) eqn:E; cbn.
    + split; intro; [apply contains_spec; assumption | reflexivity].
    + split; intro H; [discriminate H|]. apply contains_spec in H. congruence.
Qed.
Lemma accepted_Accepted fs x : accepted fs x = true <-> Accepted fs x.
Proof.
  unfold accepted, Accepted. destruct fs as [|f fs].
  - split; [left; reflexivity | reflexivity].
  - rewrite existsb_exists. split.
    + intros [g [Hi Ha]]. right. exists g. split; [assumption | apply accepts_Accepts; assumption].
    + intros [H|[g [Hi Ha]]]; [discriminate H|]. exists g. split; [assumption | apply accepts_Accepts; assumption].
Qed.

Lemma selection_iff gf nf t :
  forallb filter_ok gf = true -> forallb filter_ok nf = true -> test_ok t = true ->
  (should_run gf nf t = true <-> Accepted gf (t_group t) /\ Accepted nf (t_name t)).
Proof.
  intros Hg Hn Ht. unfold test_ok in Ht. apply andb_true_iff in Ht. destruct Ht as [H1 H2].
  unfold should_run. rewrite !shell_match_accepted by assumption. rewrite andb_true_iff, !accepted_Accepted. reflexivity.
Qed.

(* ================================================================== Part C: runAllTests *)
Lemma count_if_cons {A} (p : A -> bool) x l : count_if p (x :: l) = b2n (p x) + count_if p l.
Proof. unfold count_if. cbn. destruct (p x); cbn [b2n length]; lia. Qed.
Lemma count_if_nil {A} (p : A -> bool) : count_if p [] = 0.
Proof. reflexivity. Qed.
Lemma count_if_app {A} (p : A -> bool) a b : count_if p (a ++ b) = count_if p a + count_if p b.
Proof. unfold count_if. rewrite filter_app, app_length. lia. Qed.
Lemma count_if_ext {A} (p q : A -> bool) l : (forall x, In x l -> p x = q x) -> count_if p l = count_if q l.
Proof.
  induction l as [|x l IH]; intro H; [reflexivity|]. rewrite !count_if_cons. rewrite (H x (or_introl eq_refl)).
  rewrite IH; [reflexivity|]. intros y Hy. apply H. right. assumption.
Qed.
Lemma count_if_perm {A} (p : A -> bool) l l' : Permutation l l' -> count_if p l = count_if p l'.
Proof.
  induction 1; rewrite ?count_if_cons; lia.
Qed.
Lemma count_if_map {A B} (f : A -> B) (p : B -> bool) l : count_if p (map f l) = count_if (fun x => p (f x)) l.
Proof. induction l as [|x l IH]; [reflexivity|]. cbn [map]. rewrite !count_if_cons, IH. reflexivity. Qed.
Lemma count_if_le {A} (p : A -> bool) l : count_if p l <= N.of_nat (length l).
Proof. induction l as [|x l IH]; [cbn; lia|]. rewrite count_if_cons. cbn [length]. destruct (p x); cbn [b2n]; lia. Qed.

Section RunLoop.
Variables (gf nf : list tfilter) (ri : bool).
Let sr := should_run gf nf.
Definition m_ign (t : test) : bool := t_ignored t && negb ri.
Definition m_exec (t : test) : bool := should_run gf nf t && negb (m_ign t).
Definition m_cign (t : test) : bool := should_run gf nf t && m_ign t.

Definition test_events (t : test) : list event :=
  if should_run gf nf t then ETestStarted (t_id t) :: (if m_ign t then [] else [EBody (t_id t)]) ++ [ETestEnded] else [].
Fixpoint events_of (l : list test) (gs : bool) : list event :=
  match l with
  | [] => []
  | t :: rest => (if gs then [EGroupStarted (t_id t)] else []) ++ test_events t
                 ++ (if end_of_group t rest then [EGroupEnded] else []) ++ events_of rest (end_of_group t rest)
  end.
Definition step_counters (k : counters) (t : test) : counters :=
  let k1 := count_test k in
  if should_run gf nf t then (if m_ign t then count_ignored k1 else count_run k1) else count_filtered k1.

Lemma run_loop_split : forall l gs k, run_loop gf nf ri l gs k = (events_of l gs, fold_left step_counters l k).
Proof.
  induction l as [|t rest IH]; intros gs k; [reflexivity|]. cbn [run_loop events_of fold_left].
  unfold test_events, step_counters, run_one_test, m_ign.
  destruct (should_run gf nf t); [destruct (t_ignored t && negb ri)|]; cbv iota zeta beta; rewrite IH; reflexivity.
Qed.

Lemma fold_counters : forall l k,
  let k' := fold_left step_counters l k in
  c_tests k' = c_tests k + N.of_nat (length l) /\ c_run k' = c_run k + count_if m_exec l
  /\ c_ign k' = c_ign k + count_if m_cign l /\ c_filt k' = c_filt k + count_if (fun t => negb (should_run gf nf t)) l.
Proof.
  induction l as [|t l IH]; intro k; cbn zeta.
  - cbn [fold_left length]. rewrite !count_if_nil. cbn. lia.
  - cbn [fold_left]. specialize (IH (step_counters k t)). cbn zeta in IH. destruct IH as [I1 [I2 [I3 I4]]].
    rewrite I1, I2, I3, I4. rewrite !count_if_cons. cbn [length]. rewrite Nat2N.inj_succ. unfold step_counters, m_exec, m_cign.
    destruct (should_run gf nf t); [destruct (m_ign t)|];
      cbn [c_tests c_run c_ign c_filt count_test count_run count_ignored count_filtered b2n andb negb]; lia.
Qed.

Lemma occ_app e a b : occurrences e (a ++ b) = occurrences e a + occurrences e b.
Proof. apply count_if_app. Qed.

Lemma occ_started i : forall l gs,
  occurrences (ETestStarted i) (events_of l gs) = count_if (fun t => Nat.eqb i (t_id t) && should_run gf nf t) l.
Proof.
  induction l as [|t l IH]; intro gs; [reflexivity|]. cbn [events_of]. rewrite !occ_app, IH, count_if_cons.
  assert (E1 : occurrences (ETestStarted i) (if gs then [EGroupStarted (t_id t)] else []) = 0) by (destruct gs; reflexivity).
  assert (E3 : occurrences (ETestStarted i) (if end_of_group t l then [EGroupEnded] else []) = 0)
    by (destruct (end_of_group t l); reflexivity).
  rewrite E1, E3. unfold test_events. destruct (should_run gf nf t); [|rewrite andb_false_r; reflexivity].
  rewrite andb_true_r. unfold occurrences. rewrite count_if_cons, count_if_app. cbn [ev_eqb].
  assert (E2 : count_if (ev_eqb (ETestStarted i)) (if m_ign t then [] else [EBody (t_id t)]) = 0) by (destruct (m_ign t); reflexivity).
  rewrite E2. change (count_if (ev_eqb (ETestStarted i)) [ETestEnded]) with 0. lia.
Qed.

Lemma occ_body i : forall l gs,
  occurrences (EBody i) (events_of l gs) = count_if (fun t => Nat.eqb i (t_id t) && m_exec t) l.
Proof.
  induction l as [|t l IH]; intro gs; [reflexivity|]. cbn [events_of]. rewrite !occ_app, IH, count_if_cons.
  assert (E1 : occurrences (EBody i) (if gs then [EGroupStarted (t_id t)] else []) = 0) by (destruct gs; reflexivity).
  assert (E3 : occurrences (EBody i) (if end_of_group t l then [EGroupEnded] else []) = 0)
    by (destruct (end_of_group t l); reflexivity).
  rewrite E1, E3. unfold test_events, m_exec. destruct (should_run gf nf t); [|rewrite andb_false_r; reflexivity].
  cbn [andb]. unfold occurrences. rewrite count_if_cons, count_if_app. cbn [ev_eqb].
  change (count_if (ev_eqb (EBody i)) [ETestEnded]) with 0.
  destruct (m_ign t); cbn [negb]; [rewrite andb_false_r; reflexivity|]. rewrite andb_true_r.
  rewrite count_if_cons, count_if_nil. cbn [ev_eqb b2n]. lia.
Qed.

Lemma end_of_group_false t l : test_ok t = true -> Forall (fun t => test_ok t = true) l -> end_of_group t l = false ->
  match l with t2 :: _ => t_group t2 = t_group t | [] => False end.
Proof.
  intros Ht F E. destruct l as [|t2 l]; [discriminate E|]. cbn in E. apply negb_false_iff in E.
  inversion F as [|? ? H2 _]; subst. unfold test_ok in *. apply andb_true_iff in Ht. apply andb_true_iff in H2.
  rewrite sstr_equal_ok in E by tauto. apply bytes_eqb_eq in E. symmetry. exact E.
Qed.

Definition test_fits (n : nat) (grp : nat -> list N) (t : test) : Prop :=
  (t_id t < n)%nat /\ test_ok t = true /\ grp (t_id t) = t_group t.

Lemma balanced_events n grp : forall l gs g rest,
  Forall (test_fits n grp) l -> (l = [] -> gs = true) ->
  (gs = false -> match l with t :: _ => t_group t = grp g | [] => True end) ->
  balanced_from n grp (if gs then WOut else WGroup g) (events_of l gs ++ rest) = balanced_from n grp WOut rest.
Proof.
  induction l as [|t l IH]; intros gs g rest F G Hg.
  - rewrite (G eq_refl). reflexivity.
  - inversion F as [|? ? [Ht [Hok Hgrp]] F']; subst. apply Nat.ltb_lt in Ht.
    assert (Fok : Forall (fun t => test_ok t = true) l).
    { apply Forall_forall. intros x Hx. rewrite Forall_forall in F'. apply (F' x Hx). }
    assert (T : forall g' w, grp g' = t_group t ->
              balanced_from n grp (WGroup g') (test_events t ++ w) = balanced_from n grp (WGroup g') w).
    { intros g' w Hg'. unfold test_events. destruct (should_run gf nf t); [|reflexivity].
      destruct (m_ign t); cbn [app balanced_from]; rewrite Ht, Hgrp, Hg', bytes_eqb_refl; cbn [andb]; [reflexivity|].
      rewrite Nat.eqb_refl. reflexivity. }
    assert (K : forall g', grp g' = t_group t ->
              balanced_from n grp (WGroup g') ((if end_of_group t l then [EGroupEnded] else []) ++ events_of l (end_of_group t l) ++ rest)
              = balanced_from n grp WOut rest).
    { intros g' Hg'. destruct (end_of_group t l) eqn:E; cbn [app balanced_from].
      - apply (IH true g' rest F'); [reflexivity | discriminate].
      - apply (IH false g' rest F').
        + intros ->. discriminate E.
        + intros _. pose proof (end_of_group_false t l Hok Fok E) as N. destruct l as [|t2 l2]; [exact I|]. rewrite N, Hg'. reflexivity. }
    cbn [events_of]. rewrite <- !app_assoc. destruct gs; cbn [app balanced_from].
    + rewrite Ht. cbn [andb]. rewrite (T (t_id t)) by exact Hgrp. apply K. exact Hgrp.
    + assert (Hg' : grp g = t_group t) by (symmetry; apply (Hg eq_refl)). rewrite (T g) by exact Hg'. apply K. exact Hg'.
Qed.
End RunLoop.

(* ================================================================== Part D: the runner *)
Lemma natlist_eqb_eq a : forall b, natlist_eqb a b = true <-> a = b.
Proof.
  induction a as [|x a IH]; destruct b as [|y b]; cbn; split; intro H; try reflexivity; try discriminate H.
  - apply andb_true_iff in H. destruct H as [H1 H2]. apply Nat.eqb_eq in H1. apply IH in H2. subst. reflexivity.
  - inversion H; subst. rewrite Nat.eqb_refl. cbn. apply IH. reflexivity.
Qed.
Lemma nlist_eqb_refl a : nlist_eqb a a = true.
Proof. induction a as [|x a IH]; cbn; [reflexivity|]. rewrite N.eqb_refl. exact IH. Qed.

Lemma count_seq i : forall n a, count_if (Nat.eqb i) (seq a n) = b2n (Nat.leb a i && Nat.ltb i (a + n)).
Proof.
  induction n as [|n IH]; intro a; cbn [seq].
  - rewrite count_if_nil. destruct (Nat.leb_spec a i), (Nat.ltb_spec i (a + 0)); cbn; try reflexivity; lia.
  - rewrite count_if_cons, IH.
    destruct (Nat.eqb_spec i a), (Nat.leb_spec a i), (Nat.leb_spec (S a) i), (Nat.ltb_spec i (a + S n)), (Nat.ltb_spec i (S a + n));
      cbn; try reflexivity; lia.
Qed.

Lemma is_perm_ids_sound n ord : is_perm_ids n ord = true -> Permutation ord (seq 0 n).
Proof.
  unfold is_perm_ids. rewrite andb_true_iff, forallb_forall. intros [L F]. apply Nat.eqb_eq in L.
  apply Permutation_sym. apply NoDup_Permutation_bis; [apply seq_NoDup | rewrite seq_length; lia |].
  intros i Hi. specialize (F i Hi). apply N.eqb_eq in F.
  unfold count_if in F. destruct (filter (Nat.eqb i) ord) as [|x r] eqn:E; [discriminate F|].
  assert (Hx : In x (filter (Nat.eqb i) ord)) by (rewrite E; left; reflexivity).
  apply filter_In in Hx. destruct Hx as [Hx He]. apply Nat.eqb_eq in He. subst. exact Hx.
Qed.

Lemma count_unique (p : test -> bool) : forall ts t, NoDup (map t_id ts) -> In t ts ->
  count_if (fun t' => Nat.eqb (t_id t) (t_id t') && p t') ts = b2n (p t).
Proof.
  induction ts as [|x ts IH]; intros t ND Hin; [destruct Hin|]. cbn [map] in ND. inversion ND as [|? ? Hn ND']; subst.
  rewrite count_if_cons. destruct Hin as [->|Hin].
  - rewrite Nat.eqb_refl. cbn [andb].
    assert (Z : count_if (fun t' => Nat.eqb (t_id t) (t_id t') && p t') ts = 0).
    { rewrite (count_if_ext _ (fun _ => false)).
      - clear. induction ts as [|y ts IH]; [reflexivity|]. rewrite count_if_cons, IH. reflexivity.
      - intros y Hy. destruct (Nat.eqb_spec (t_id t) (t_id y)); [|reflexivity]. exfalso. apply Hn. rewrite e. apply in_map. exact Hy. }
    rewrite Z. lia.
  - rewrite (IH t ND' Hin). destruct (Nat.eqb_spec (t_id t) (t_id x)); [|cbn; lia].
    exfalso. apply Hn. rewrite <- e. apply in_map. exact Hin.
Qed.

Lemma count_partition {A} (p q r : A -> bool) l : (forall x, In x l -> b2n (p x) + b2n (q x) + b2n (r x) = 1) ->
  N.of_nat (length l) = count_if p l + count_if q l + count_if r l.
Proof.
  induction l as [|x l IH]; intro H; [reflexivity|]. rewrite !count_if_cons. cbn [length]. rewrite Nat2N.inj_succ.
  rewrite IH by (intros y Hy; apply H; right; exact Hy). specialize (H x (or_introl eq_refl)). lia.
Qed.

Lemma count_body_occ id w : count_body id w = occurrences (EBody id) w.
Proof.
  unfold count_body, occurrences, count_if. f_equal. f_equal. apply filter_ext. intros [| | |i| | |]; try reflexivity.
  cbn. apply Nat.eqb_sym.
Qed.

Lemma occ_word e evs : e <> ETestsStarted -> e <> ETestsEnded ->
  occurrences e (ETestsStarted :: evs ++ [ETestsEnded]) = occurrences e evs.
Proof.
  intros H1 H2. unfold occurrences. rewrite count_if_cons, count_if_app, count_if_cons, count_if_nil.
  destruct e; try congruence; cbn; lia.
Qed.

Ltac split_andb H :=
  repeat match type of H with
  | (_ && _) = true => let H1 := fresh H in apply andb_true_iff in H; destruct H as [H H1]
  end.

Section Runner.
Variable s : scenario.
Hypothesis V : valid1 s = true.
Let ts := s_tests s.
Let n := length (s_tests s).

Lemma valid_parts : natlist_eqb (map t_id ts) (seq 0 n) = true /\ forallb test_ok ts = true
  /\ forallb filter_ok (s_gf s) = true /\ forallb filter_ok (s_nf s) = true.
Proof.
  pose proof V as W. unfold valid1 in W.
  apply andb_true_iff in W. destruct W as [W _]. apply andb_true_iff in W. destruct W as [W _].
  apply andb_true_iff in W. destruct W as [W D]. apply andb_true_iff in W. destruct W as [W C].
  apply andb_true_iff in W. destruct W as [A B]. repeat split; assumption.
Qed.
Lemma valid_ids : map t_id ts = seq 0 n.
Proof. apply natlist_eqb_eq. apply valid_parts. Qed.
Lemma valid_tests : forall t, In t ts -> test_ok t = true.
Proof. apply forallb_forall. apply valid_parts. Qed.
Lemma valid_filters : filters_ok s.
Proof. split; apply valid_parts. Qed.
Lemma valid_nodup : NoDup (map t_id ts).
Proof. rewrite valid_ids. apply seq_NoDup. Qed.

Lemma exec_eq t : In t ts -> m_exec (s_gf s) (s_nf s) (s_ri s) t = executes s t.
Proof.
  intro H. unfold m_exec, executes, m_ign. rewrite (should_run_selected s t valid_filters (valid_tests t H)).
  destruct (selected s t), (t_ignored t), (s_ri s); reflexivity.
Qed.
Lemma cign_eq t : In t ts -> m_cign (s_gf s) (s_nf s) (s_ri s) t = counted_ignored s t.
Proof.
  intro H. unfold m_cign, counted_ignored, m_ign. rewrite (should_run_selected s t valid_filters (valid_tests t H)).
  destruct (selected s t), (t_ignored t), (s_ri s); reflexivity.
Qed.

Lemma ids_nth (l : list test) : forall m t, map t_id l = seq 0 m -> In t l -> nth_error l (t_id t) = Some t.
Proof.
  intros m t E Hin. destruct (In_nth_error l t Hin) as [k Hk].
  assert (Hm : nth_error (map t_id l) k = Some (t_id t)) by (apply map_nth_error; exact Hk).
  rewrite E in Hm. assert (Hlt : (k < length (seq 0 m))%nat) by (apply nth_error_Some; congruence).
  rewrite seq_length in Hlt. apply (nth_error_nth _ _ 0%nat) in Hm. rewrite seq_nth in Hm by exact Hlt. cbn in Hm. subst k. exact Hk.
Qed.
Lemma valid_fits t : In t ts -> test_fits n (group_of ts) t.
Proof.
  intro Ht. unfold test_fits. split; [|split].
  - assert (I : In (t_id t) (map t_id ts)) by (apply in_map; exact Ht). rewrite valid_ids in I. apply in_seq in I. lia.
  - apply valid_tests. exact Ht.
  - unfold group_of. rewrite (ids_nth ts n t valid_ids Ht). reflexivity.
Qed.

Definition expected_order : list nat := if s_rev s then seq 0 n else rev (seq 0 n).

Lemma rep_ok_of_perm reg seeds drawn :
  Permutation reg ts -> (s_shuffle s = false -> map t_id reg = expected_order) ->
  let '(w, k) := run_all_tests (s_gf s) (s_nf s) (s_ri s) reg in
  rep_ok s (mkRep (map t_id reg) seeds drawn w k) = true.
Proof.
  intros P O. unfold run_all_tests. rewrite run_loop_split.
  pose proof (fold_counters (s_gf s) (s_nf s) (s_ri s) reg cnt0) as C. cbn zeta in C. destruct C as [C1 [C2 [C3 C4]]].
  set (k := fold_left (step_counters (s_gf s) (s_nf s) (s_ri s)) reg cnt0) in *.
  set (evs := events_of (s_gf s) (s_nf s) (s_ri s) reg true).
  assert (Ln : length reg = n) by (apply Permutation_length; exact P).
  assert (Hin : forall t, In t reg <-> In t ts) by (intro t; split; apply Permutation_in; [|apply Permutation_sym]; exact P).
  assert (Q1 : c_tests k = N.of_nat n) by (rewrite C1, Ln; cbn; lia).
  assert (Q2 : c_run k = count_if (executes s) ts).
  { rewrite C2. cbn [c_run cnt0]. rewrite (count_if_perm _ _ _ P). rewrite (count_if_ext _ (executes s)); [lia|]. intros; apply exec_eq; assumption. }
  assert (Q3 : c_ign k = count_if (counted_ignored s) ts).
  { rewrite C3. cbn [c_ign cnt0]. rewrite (count_if_perm _ _ _ P). rewrite (count_if_ext _ (counted_ignored s)); [lia|]. intros; apply cign_eq; assumption. }
  assert (Q4 : c_filt k = count_if (fun t => negb (selected s t)) ts).
  { rewrite C4. cbn [c_filt cnt0]. rewrite (count_if_perm _ _ _ P).
    rewrite (count_if_ext _ (fun t => negb (selected s t))); [lia|].
    intros t Ht. rewrite (should_run_selected s t valid_filters (valid_tests t Ht)). reflexivity. }
  unfold rep_ok. cbn [r_order r_word r_cnt]. fold ts. fold n.
  repeat match goal with |- (_ && _) = true => apply andb_true_iff; split end.
  - (* permutation *)
    unfold is_perm_ids. rewrite map_length, Ln, Nat.eqb_refl. cbn [andb]. apply forallb_forall. intros i Hi. apply N.eqb_eq.
    rewrite (count_if_perm _ _ _ (Permutation_map t_id P)). rewrite valid_ids. rewrite count_seq.
    apply in_seq in Hi. replace (Nat.leb 0 i && Nat.ltb i (0 + n)) with true; [reflexivity|].
    symmetry. apply andb_true_iff. unfold n, ts in *. split; [apply Nat.leb_le; lia | apply Nat.ltb_lt; lia].
  - (* reverse / plain order *)
    destruct (s_shuffle s); [reflexivity|]. cbn [orb]. apply natlist_eqb_eq. apply O. reflexivity.
  - (* shape *)
    unfold word_shape. rewrite rev_unit. rewrite rev_involutive.
    pose proof (balanced_events (s_gf s) (s_nf s) (s_ri s) n (group_of ts) reg true 0%nat []) as B. rewrite app_nil_r in B.
    cbn [balanced_from] in B. apply B; [|reflexivity|discriminate]. apply Forall_forall. intros t Ht. apply Hin in Ht.
    apply valid_fits. exact Ht.
  - (* exactly once *)
    apply forallb_forall. intros t Ht. apply andb_true_iff. split; apply N.eqb_eq.
    + rewrite occ_word by discriminate. unfold evs. rewrite occ_started. rewrite (count_if_perm _ _ _ P).
      rewrite (count_unique _ ts t valid_nodup Ht). rewrite (should_run_selected s t valid_filters (valid_tests t Ht)). reflexivity.
    + rewrite occ_word by discriminate. unfold evs. rewrite occ_body. rewrite (count_if_perm _ _ _ P).
      rewrite (count_unique _ ts t valid_nodup Ht). rewrite exec_eq by assumption. reflexivity.
  - apply N.eqb_eq. exact Q1.
  - apply N.eqb_eq. rewrite Q1, Q2, Q3, Q4. unfold n. fold ts. apply count_partition.
    intros t _. unfold executes, counted_ignored. destruct (selected s t), (t_ignored t), (s_ri s); reflexivity.
  - apply N.eqb_eq. exact Q2.
  - apply N.eqb_eq. exact Q3.
  - apply N.eqb_eq. exact Q4.
Qed.

Lemma rep_ok_once r : rep_ok s r = true -> forall t, In t ts -> occurrences (EBody (t_id t)) (r_word r) = b2n (executes s t).
Proof.
  unfold rep_ok. intros R t Ht.
  do 5 (apply andb_true_iff in R; destruct R as [R _]). apply andb_true_iff in R. destruct R as [_ R].
  rewrite forallb_forall in R. specialize (R t Ht). apply andb_true_iff in R. destruct R as [_ B]. apply N.eqb_eq in B. exact B.
Qed.

End Runner.

(* ================================================================== Part E: the statements exported by Properties_C02.v *)
Local Open Scope N_scope.

(* counters: for any list order, any filters *)
Lemma counts_identity gf nf ri l :
  let k := snd (run_all_tests gf nf ri l) in
  c_tests k = N.of_nat (length l) /\ c_tests k = c_run k + c_ign k + c_filt k
  /\ c_run k = count_if (m_exec gf nf ri) l /\ c_ign k = count_if (m_cign gf nf ri) l
  /\ c_filt k = count_if (fun t => negb (should_run gf nf t)) l.
Proof.
  unfold run_all_tests. rewrite run_loop_split. cbn [snd].
  pose proof (fold_counters gf nf ri l cnt0) as C. cbn zeta in C. destruct C as [C1 [C2 [C3 C4]]].
  cbn [cnt0 c_tests c_run c_ign c_filt] in *. rewrite C1, C2, C3, C4. rewrite !N.add_0_l. repeat split.
  apply count_partition. intros t _. unfold m_exec, m_cign. destruct (should_run gf nf t), (m_ign ri t); reflexivity.
Qed.

(* exactly once: for any order in which every test occurs once *)
Lemma exactly_once gf nf ri l : NoDup (map t_id l) ->
  let w := fst (run_all_tests gf nf ri l) in
  (forall t, In t l -> occurrences (ETestStarted (t_id t)) w = b2n (should_run gf nf t)
                       /\ occurrences (EBody (t_id t)) w = b2n (m_exec gf nf ri t))
  /\ (forall i, ~ In i (map t_id l) -> occurrences (ETestStarted i) w = 0 /\ occurrences (EBody i) w = 0).
Proof.
  intro ND. unfold run_all_tests. rewrite run_loop_split. cbn [fst]. split.
  - intros t Ht. rewrite !occ_word by discriminate. rewrite occ_started, occ_body.
    rewrite (count_unique _ l t ND Ht), (count_unique _ l t ND Ht). split; reflexivity.
  - intros i Hi. rewrite !occ_word by discriminate. rewrite occ_started, occ_body.
    assert (Z : forall p, count_if (fun t => Nat.eqb i (t_id t) && p t) l = 0).
    { intro p. rewrite (count_if_ext _ (fun _ => false)).
      - clear. induction l as [|y l IH]; [reflexivity|]. rewrite count_if_cons, IH. reflexivity.
      - intros y Hy. destruct (Nat.eqb_spec i (t_id y)); [|reflexivity]. exfalso. apply Hi. subst i. apply in_map. exact Hy. }
    rewrite !Z. split; reflexivity.
Qed.

(* the tests are started in list order *)
Definition started_ids (w : list event) : list nat :=
  flat_map (fun e => match e with ETestStarted i => [i] | _ => [] end) w.
Lemma started_app a b : started_ids (a ++ b) = started_ids a ++ started_ids b.
Proof. unfold started_ids. apply flat_map_app. Qed.
Lemma run_in_list_order gf nf ri l :
  started_ids (fst (run_all_tests gf nf ri l)) = map t_id (filter (should_run gf nf) l).
Proof.
  unfold run_all_tests. rewrite run_loop_split. cbn [fst]. change (ETestsStarted :: ?x) with ([ETestsStarted] ++ x).
  rewrite !started_app. cbn [started_ids flat_map app]. rewrite app_nil_r.
  generalize true. induction l as [|t l IH]; intro gs; [reflexivity|]. cbn [events_of filter]. rewrite !started_app, IH.
  replace (started_ids (if gs then [EGroupStarted (t_id t)] else [])) with (@nil nat) by (destruct gs; reflexivity).
  replace (started_ids (if end_of_group t l then [EGroupEnded] else [])) with (@nil nat) by (destruct (end_of_group t l); reflexivity).
  unfold test_events. destruct (should_run gf nf t); [|reflexivity]. destruct (m_ign ri t); reflexivity.
Qed.

(* the oracle's selection is the declarative one (no side condition) *)
Lemma selected_declarative s t : selected s t = true <-> Accepted (s_gf s) (t_group t) /\ Accepted (s_nf s) (t_name t).
Proof. unfold selected. rewrite andb_true_iff, !accepted_Accepted. reflexivity. Qed.

(* shuffle: a permutation for every rand stream, every seed, every list; never indexes outside the array *)
Lemma shuffle_perm {A} seed rs (a : list A) :
  exists l seeds drawn, shuffle seed rs a = Some (l, seeds, drawn)
    /\ Permutation l a /\ length l = length a /\ (NoDup a -> NoDup l) /\ length drawn = (length a - 1)%nat.
Proof.
  destruct (shuffle_ok seed rs a) as [l [seeds [drawn [E [P D]]]]]. exists l, seeds, drawn.
  repeat split; try assumption.
  - apply Permutation_length. exact P.
  - intro ND. eapply Permutation_NoDup; [apply Permutation_sym; exact P | exact ND].
Qed.

(* group notifications: balanced for any order of tests, every started test inside a segment opened for its own group *)
Lemma groups_balanced gf nf ri l n grp : (forall t, In t l -> test_fits n grp t) ->
  word_shape n grp (fst (run_all_tests gf nf ri l)) = true.
Proof.
  intro H. unfold run_all_tests. rewrite run_loop_split. cbn [fst]. unfold word_shape. rewrite rev_unit, rev_involutive.
  pose proof (balanced_events gf nf ri n grp l true 0%nat []) as B. rewrite app_nil_r in B. cbn [balanced_from] in B.
  apply B; [|reflexivity|discriminate]. apply Forall_forall. exact H.
Qed.

(* what the automaton accepts, as a grammar: (GS g (TS i B? TE)* GE)* with B naming the started test and grp i = grp g *)
Section Grammar.
Variable grp : nat -> list N.
Inductive TestSeg (g : nat) : list event -> Prop :=
| seg_skipped i : grp i = grp g -> TestSeg g [ETestStarted i; ETestEnded]
| seg_ran i : grp i = grp g -> TestSeg g [ETestStarted i; EBody i; ETestEnded].
Inductive GroupBody (g : nat) : list event -> Prop :=
| gb_nil : GroupBody g []
| gb_cons seg rest : TestSeg g seg -> GroupBody g rest -> GroupBody g (seg ++ rest).
Inductive Groups : list event -> Prop :=
| gr_nil : Groups []
| gr_cons g body rest : GroupBody g body -> Groups rest -> Groups (EGroupStarted g :: body ++ EGroupEnded :: rest).

Lemma balanced_sound_aux n : forall m w, (length w <= m)%nat ->
  (balanced_from n grp WOut w = true -> Groups w) /\
  (forall g, balanced_from n grp (WGroup g) w = true ->
     exists body rest, w = body ++ EGroupEnded :: rest /\ GroupBody g body /\ Groups rest).
Proof.
  induction m as [|m IH]; intros w L.
  - destruct w; [|cbn in L; lia]. split; [intros _; constructor | intros g H; discriminate H].
  - split.
    + destruct w as [|e w]; [intros _; constructor|]. destruct e; cbn [balanced_from]; try (intro H; discriminate H).
      intro H. apply andb_true_iff in H. destruct H as [_ H]. cbn in L.
      destruct (IH w ltac:(lia)) as [_ I]. destruct (I _ H) as [body [rest [-> [GB GR]]]]. constructor; assumption.
    + intro g. destruct w as [|e w]; [intro H; discriminate H|]. cbn in L. destruct e; cbn [balanced_from]; try (intro H; discriminate H).
      * (* TestStarted *) intro H. apply andb_true_iff in H. destruct H as [H0 H]. apply andb_true_iff in H0. destruct H0 as [_ Hg].
        apply bytes_eqb_eq in Hg.
        destruct w as [|e2 w]; [discriminate H|]. cbn in L. destruct e2; cbn [balanced_from] in H; try discriminate H.
        -- (* Body *) apply andb_true_iff in H. destruct H as [Hid H]. apply Nat.eqb_eq in Hid. subst id0.
           destruct w as [|e3 w]; [discriminate H|]. cbn in L. destruct e3; cbn [balanced_from] in H; try discriminate H.
           destruct (IH w ltac:(lia)) as [_ I]. destruct (I _ H) as [body [rest [-> [GB GR]]]].
           exists ([ETestStarted id; EBody id; ETestEnded] ++ body), rest. split; [reflexivity|]. split; [|exact GR].
           apply gb_cons; [constructor; exact Hg | exact GB].
        -- (* TestEnded *) destruct (IH w ltac:(lia)) as [_ I]. destruct (I _ H) as [body [rest [-> [GB GR]]]].
           exists ([ETestStarted id; ETestEnded] ++ body), rest. split; [reflexivity|]. split; [|exact GR].
           apply gb_cons; [constructor; exact Hg | exact GB].
      * (* GroupEnded *) intro H. destruct (IH w ltac:(lia)) as [I _]. exists [], w. split; [reflexivity|]. split; [constructor | apply I; exact H].
Qed.
Lemma balanced_sound n w : balanced_from n grp WOut w = true -> Groups w.
Proof. intro H. destruct (balanced_sound_aux n (length w) w (le_n _)) as [I _]. apply I. exact H. Qed.

Lemma word_shape_sound n w : word_shape n grp w = true -> exists mid, w = ETestsStarted :: mid ++ [ETestsEnded] /\ Groups mid.
Proof.
  unfold word_shape. destruct w as [|e r]; [discriminate|]. destruct e; try discriminate.
  destruct (rev r) as [|e2 m] eqn:E; [discriminate|]. destruct e2; try discriminate. intro H.
  exists (rev m). split; [|eapply balanced_sound; exact H].
  f_equal. rewrite <- (rev_involutive r), E. cbn [rev]. reflexivity.
Qed.
End Grammar.

Lemma groups_balanced_grammar gf nf ri l n grp : (forall t, In t l -> test_fits n grp t) ->
  exists mid, fst (run_all_tests gf nf ri l) = ETestsStarted :: mid ++ [ETestsEnded] /\ Groups grp mid.
Proof. intro H. apply (word_shape_sound grp n). apply groups_balanced. exact H. Qed.

(* ---------------- examples: the hypotheses are satisfiable by non-trivial scenarios *)
Definition ex_tests : list test :=
  [mkTest 0 [97;98] [97] false; mkTest 1 [97;98] [98] true; mkTest 2 [99] [97;98] false; mkTest 3 [99] [99] false; mkTest 4 [97;98] [97;97] false].
Definition ex_scn : scenario :=
  mkScn ex_tests [mkFilter [97] false false] [mkFilter [99] true true] false true true 7 [3; 0; 5; 1] 2%nat 1 false [].
Example ex_valid : valid ex_scn = true.
Proof. vm_compute. reflexivity. Qed.
Example ex_orders : map (map r_order) (o_runs (run ex_scn)) = [[[4; 1; 2; 0; 3]; [3; 1; 2; 4; 0]]]%nat.
Proof. vm_compute. reflexivity. Qed.
Example ex_counters : map (map r_cnt) (o_runs (run ex_scn)) = [[mkCnt 5 2 1 2; mkCnt 5 2 1 2]] /\ o_totals (run ex_scn) = [2; 0; 0; 0; 2].
Proof. vm_compute. split; reflexivity. Qed.
Example ex_spec : spec ex_scn (run ex_scn) = true.
Proof. vm_compute. reflexivity. Qed.
Example ex_selection : should_run (s_gf ex_scn) (s_nf ex_scn) (mkTest 0 [97;98] [97] false) = true
                       /\ should_run (s_gf ex_scn) (s_nf ex_scn) (mkTest 3 [99] [99] false) = false.
Proof. vm_compute. split; reflexivity. Qed.
Example ex_shuffle : shuffle 7 [3; 0; 5; 1] [10; 11; 12; 13; 14]%nat = Some ([14; 11; 12; 10; 13]%nat, [7], [3; 0; 5; 1]).
Proof. vm_compute. reflexivity. Qed.
Example ex_reverse : reverse [1; 2; 3; 4; 5]%nat = Some [5; 4; 3; 2; 1]%nat /\ relink [1; 2; 3]%nat = Some [1; 2; 3]%nat.
Proof. vm_compute. split; reflexivity. Qed.
Example ex_nodup : NoDup (map t_id ex_tests) /\ forall t, In t ex_tests -> test_fits 5 (group_of ex_tests) t.
Proof.
  split; [vm_compute; repeat constructor; cbn; intuition discriminate|]. intros t H. cbn in H.
  unfold test_fits. intuition (subst; cbn; try reflexivity; lia).
Qed.
