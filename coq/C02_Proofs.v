(* C02 -- lemmas *)
From Coq Require Import NArith Arith Bool List Lia Permutation.
From CppUVerif Require Import lib.Str C13_Model C13_Proofs C02_Model.
Import ListNotations.

Lemma registry_of_rev ts : registry_of ts = rev ts.
Proof.
  unfold registry_of. rewrite <- (app_nil_r (rev ts)). generalize (@nil test).
  induction ts as [|t ts IH]; intro acc; cbn; [reflexivity|]. rewrite IH. unfold add_test. rewrite <- app_assoc. reflexivity.
Qed.
