(* C20 -- failures that are not produced by the check macros: the failure object names the test whatever constructor built it, the
   stages of a test report what the property demands, the run of the registry over such tests parses back to balanced, faithful
   messages. *)
From Coq Require Import NArith Bool List Lia Arith.
From Coq Require String Ascii.
Import String.StringSyntax.
From CppUVerif Require Import lib.Str C16_Events C20_Model C20_ModelX C20_Escape C20_Parse C20_Console C20_Proofs.
Import ListNotations.
Local Open Scope N_scope.

(* ================= the failure object ================= *)
Lemma copy_ctor_id f : copy_ctor f = f.
Proof. destruct f; reflexivity. Qed.
Lemma copies_id n f : copies n f = f.
Proof. induction n as [|n IH]; [reflexivity|]. cbn [copies]. rewrite IH. apply copy_ctor_id. Qed.

(* where a failure of kind k is reported and with what text: the short constructor takes the place from the shell, the
   three-argument one has the fixed text *)
Definition eff_file (k : fkind) (t : test) (file : bytes) : bytes := match k with K2 | KD2 => t_file t | _ => file end.
Definition eff_line (k : fkind) (t : test) (line : N) : N := match k with K2 | KD2 => t_line t | _ => line end.
Definition eff_msg (k : fkind) (msg : bytes) : bytes := match k with K3 => L_no_message | _ => msg end.
Definition is_short (k : fkind) : bool := match k with K2 | KD2 => true | _ => false end.

Lemma make_fields sn k n t file line msg :
  let f := make sn k n t file line msg in
  f_testName f = formatted_name t /\ f_nameOnly f = (if is_short k then sn t else t_name t) /\ f_tfile f = t_file t /\ f_tline f = t_line t
  /\ f_file f = eff_file k t file /\ f_line f = eff_line k t line /\ f_msg f = eff_msg k msg.
Proof. unfold make. rewrite copies_id. destruct k; cbn; repeat split; reflexivity. Qed.

(* whatever constructor built it and however often it was copied, the object of the code names the test by its bare name *)
Lemma make_names_test k n t file line msg :
  let f := make t_name k n t file line msg in
  f_nameOnly f = t_name t /\ f_tfile f = t_file t /\ f_tline f = t_line t.
Proof.
  destruct (make_fields t_name k n t file line msg) as [_ [H1 [H2 [H3 _]]]]. cbn zeta.
  rewrite H1, H2, H3. destruct (is_short k); repeat split; reflexivity.
Qed.

(* printFailure reads the object: the callback in the vocabulary of the writer *)
Lemma print_failure_pmsg ps f : failure_pmsg ps (shell_of_failure f) (f_file f) (f_line f) (f_msg f) = print_failure ps f.
Proof. reflexivity. Qed.
Lemma step_failure ps uf dur st f : tc_step ps uf dur st (ev_of_failure f) = (st, [IMsg (print_failure ps f)]).
Proof. reflexivity. Qed.
Lemma print_failure_of_test ps t f : f_nameOnly f = t_name t -> f_tfile f = t_file t -> f_tline f = t_line t ->
  print_failure ps f = failure_pmsg ps t (f_file f) (f_line f) (f_msg f).
Proof. intros H1 H2 H3. unfold print_failure, failure_pmsg. rewrite H1, H2, H3. reflexivity. Qed.
(* a failure made for test t by any constructor is printed as the check macros' failures of t are *)
Lemma print_made_failure ps k n t file line msg :
  print_failure ps (make t_name k n t file line msg) = failure_pmsg ps t (eff_file k t file) (eff_line k t line) (eff_msg k msg).
Proof.
  destruct (make_names_test k n t file line msg) as [H1 [H2 H3]].
  destruct (make_fields t_name k n t file line msg) as [_ [_ [_ [_ [H4 [H5 H6]]]]]]. cbn zeta in *.
  rewrite (print_failure_of_test ps t _ H1 H2 H3), H4, H5, H6. reflexivity.
Qed.

Definition fmsg (f : failure) : message := erase (print_failure Esc f).
Lemma fmsg_failure_msg f : fmsg f = failure_msg (shell_of_failure f) (f_file f, f_line f, f_msg f).
Proof. unfold fmsg. rewrite <- print_failure_pmsg. apply erase_failure. Qed.
Lemma fmsg_name f : get_attr L_name (fmsg f) = Some (f_nameOnly f).
Proof. rewrite fmsg_failure_msg. reflexivity. Qed.
Lemma fmsg_kind f : m_name (fmsg f) = L_testFailed.
Proof. reflexivity. Qed.

(* ================= one test: what the model reports is what the property demands ================= *)
Definition meets (xt : xtest) (f : failure) (w : want) : Prop :=
  f_nameOnly f = x_name xt /\ f_tfile f = x_file xt /\ f_tline f = x_line xt
  /\ f_file f = fst (fst w) /\ f_line f = snd (fst w) /\ req_ok (snd w) (f_msg f) = true.

Lemma nonempty_app {A} (a b : list A) : nonempty (a ++ b) = nonempty a || nonempty b.
Proof. destruct a; reflexivity. Qed.
Lemma Forall2_nonempty {A B} (R : A -> B -> Prop) l l' : Forall2 R l l' -> nonempty l = nonempty l'.
Proof. destruct 1; reflexivity. Qed.
Lemma contains_tail a t : contains (a ++ t) t = true.
Proof. apply contains_spec. exists a, []. rewrite app_nil_r. reflexivity. Qed.

Lemma made_meets xt k n file line msg :
  meets xt (make t_name k n (shell xt) file line msg) (want_of_fail (xloc xt) k file line msg).
Proof.
  destruct (make_names_test k n (shell xt) file line msg) as [H1 [H2 H3]].
  destruct (make_fields t_name k n (shell xt) file line msg) as [_ [_ [_ [_ [H4 [H5 H6]]]]]]. cbn zeta in *.
  unfold meets. rewrite H1, H2, H3, H4, H5, H6.
  destruct k; cbn; repeat split; apply bytes_eqb_refl.
Qed.
Lemma lib_meets xt k text l : is_short k = true -> forallb (contains text) l = true ->
  meets xt (make t_name k 0 (shell xt) [] 0 text) (lib_want (xloc xt) l).
Proof.
  intros Hk Hl.
  destruct (make_names_test k 0 (shell xt) [] 0 text) as [H1 [H2 H3]].
  destruct (make_fields t_name k 0 (shell xt) [] 0 text) as [_ [_ [_ [_ [H4 [H5 H6]]]]]]. cbn zeta in *.
  unfold meets. rewrite H1, H2, H3, H4, H5, H6.
  destruct k; try discriminate Hk; cbn; repeat split; exact Hl.
Qed.

Section OneTest.
Variable cfg : xcfg.
Notation stageR := (stage_run t_name).
Notation pluginR := (plugin_run t_name).

Lemma stage_meets xt ss : forall q fs q' c, stageR (shell xt) ss q = (fs, q', c) ->
  exists ws p l, stage_want (xloc xt) (q_failed q) ss = (ws, p, l, c) /\ Forall2 (meets xt) fs ws
    /\ q_failed q' = q_failed q || nonempty fs /\ q_any q' = q_any q || nonempty fs
    /\ q_pending q' = q_pending q ++ p /\ q_leaked q' = q_leaked q || l.
Proof.
  induction ss as [|s r IH]; intros q fs q' c H.
  - cbn in H. injection H as <- <- <-. exists [], [], false. cbn. rewrite !orb_false_r, app_nil_r. repeat split. constructor.
  - destruct s as [k n stop file line msg|std what|fname|fname|size]; cbn [stage_run stage_want] in *.
    + destruct stop.
      * injection H as <- <- <-. exists [want_of_fail (xloc xt) k file line msg], [], false. cbn. rewrite !orb_true_r, !orb_false_r, app_nil_r.
        repeat split. constructor; [apply made_meets | constructor].
      * destruct (stageR (shell xt) r (q_fail true q)) as [[fs1 q1] c1] eqn:E. injection H as <- <- <-.
        destruct (IH _ _ _ _ E) as [ws [p [l [Hw [Hm [Hf [Ha [Hp Hl]]]]]]]].
        cbn [q_fail q_failed q_any q_pending q_leaked] in *. rewrite orb_true_r in Hw. rewrite Hw.
        exists (want_of_fail (xloc xt) k file line msg :: ws), p, l. cbn [nonempty]. rewrite !orb_true_r in *.
        repeat split; try assumption. constructor; [apply made_meets | exact Hm].
    + injection H as <- <- <-. exists [lib_want (xloc xt) (if std then [what] else [])], [], false. cbn [nonempty q_fail q_failed q_any q_pending q_leaked].
      rewrite !orb_true_r, !orb_false_r, app_nil_r. repeat split. constructor; [|constructor].
      apply lib_meets; [reflexivity|]. destruct std; [|reflexivity]. cbn [forallb]. rewrite andb_true_r.
      apply contains_spec. exists L_exc_std, []. rewrite app_nil_r. reflexivity.
    + destruct (IH _ _ _ _ H) as [ws [p [l [Hw [Hm [Hf [Ha [Hp Hl]]]]]]]]. cbn [q_failed q_any q_pending q_leaked] in *.
      rewrite Hw. exists ws, (fname :: p), l. repeat split; try assumption. rewrite Hp, <- app_assoc. reflexivity.
    + destruct (q_failed q) eqn:Eq.
      * destruct (IH _ _ _ _ H) as [ws [p [l [Hw [Hm [Hf [Ha [Hp Hl]]]]]]]]. rewrite Eq in Hw. exists ws, p, l. rewrite <- Eq. repeat split; try assumption.
        rewrite Eq. exact Hw.
      * injection H as <- <- <-. exists [lib_want (xloc xt) [fname]], [], false. cbn [nonempty q_fail q_failed q_any q_pending q_leaked].
        rewrite !orb_true_r, !orb_false_r, app_nil_r. repeat split. constructor; [|constructor].
        apply lib_meets; [reflexivity|]. cbn [forallb]. rewrite andb_true_r.
        apply contains_spec. exists L_mock_unexpected, []. rewrite app_nil_r. reflexivity.
    + destruct (IH _ _ _ _ H) as [ws [p [l [Hw [Hm [Hf [Ha [Hp Hl]]]]]]]]. cbn [q_failed q_any q_pending q_leaked] in *.
      rewrite Hw. exists ws, p, true. repeat split; try assumption. rewrite Hl, !orb_true_r. destruct l; reflexivity.
Qed.

Lemma plugin_meets xt ss : forall q fs q', pluginR (shell xt) ss q = (fs, q') ->
  Forall2 (meets xt) fs (plugin_want (xloc xt) ss)
  /\ q_failed q' = q_failed q /\ q_any q' = q_any q || nonempty fs /\ q_pending q' = q_pending q /\ q_leaked q' = q_leaked q.
Proof.
  induction ss as [|s r IH]; intros q fs q' H.
  - cbn in H. injection H as <- <-. cbn. rewrite orb_false_r. repeat split. constructor.
  - destruct s as [k n stop file line msg|std what|fname|fname|size]; cbn [plugin_run plugin_want] in *; try (apply IH; exact H).
    destruct (pluginR (shell xt) r (q_fail false q)) as [fs1 q1] eqn:E. injection H as <- <-.
    destruct (IH _ _ _ E) as [Hm [Hf [Ha [Hp Hl]]]]. cbn [q_fail q_failed q_any q_pending q_leaked nonempty] in *.
    rewrite orb_false_r in Hf. rewrite !orb_true_r in *. repeat split; try assumption. constructor; [apply made_meets | exact Hm].
Qed.
End OneTest.

(* the texts the model writes where the library composes one carry what is demanded of them *)
Lemma expected_has_go pending : forall pre, forallb (contains (pre ++ flat_map (fun n => [10; 9; 9] ++ n) pending)) pending = true.
Proof.
  induction pending as [|n r IH]; intro pre; [reflexivity|].
  cbn [flat_map forallb]. apply andb_true_iff. split.
  - apply contains_spec. exists (pre ++ [10; 9; 9]), (flat_map (fun n => [10; 9; 9] ++ n) r). rewrite <- !app_assoc. reflexivity.
  - specialize (IH (pre ++ [10; 9; 9] ++ n)).
    replace (pre ++ ([10; 9; 9] ++ n) ++ flat_map (fun n0 => [10; 9; 9] ++ n0) r)
      with ((pre ++ [10; 9; 9] ++ n) ++ flat_map (fun n0 => [10; 9; 9] ++ n0) r) by (rewrite <- !app_assoc; reflexivity).
    exact IH.
Qed.
Lemma text_expected_has pending : forallb (contains (text_expected pending)) pending = true.
Proof. apply expected_has_go. Qed.

Require Import Btauto.

Section OneTestRun.
Variable cfg : xcfg.

Lemma sep_meets xt : (0 <? x_sep xt) = true ->
  Forall2 (meets xt) (sep_failures t_name xt) (fst (test_want cfg xt)) /\ snd (test_want cfg xt) = 0.
Proof.
  intro Hs. unfold sep_failures, test_want. rewrite Hs. destruct (x_sep xt =? 1); cbn [fst snd]; split; try reflexivity; [constructor|].
  constructor; [|constructor]. apply lib_meets; reflexivity.
Qed.

Lemma trun_meets xt : (0 <? x_sep xt) = false ->
  Forall2 (meets xt) (trun_failures (test_trun t_name cfg xt)) (fst (test_want cfg xt))
  /\ (if r_setup_done (test_trun t_name cfg xt) then 1 else 0) = snd (test_want cfg xt).
Proof.
  intro Hs. unfold test_trun, test_want. rewrite Hs.
  destruct (plugin_run t_name (shell xt) (x_pre xt) q_start) as [f_pre q1] eqn:E1.
  destruct (plugin_meets xt _ _ _ _ E1) as [M1 [F1 [A1 [P1 L1]]]]. cbn [q_start q_failed q_any q_pending q_leaked orb] in F1, A1, P1, L1.
  destruct (stage_run t_name (shell xt) (x_setup xt) q1) as [[f_su q2] c_su] eqn:E2.
  destruct (stage_meets xt _ _ _ _ _ E2) as [su [p1 [l1 [W2 [M2 [F2 [A2 [P2 L2]]]]]]]].
  rewrite F1 in W2, F2. rewrite A1 in A2. rewrite P1 in P2. rewrite L1 in L2. cbn [orb app] in F2, A2, P2, L2. rewrite W2.
  (* the body, unless setup was left early *)
  assert (HB : exists f_bo q3 c_bo bo p2 l2 c2,
             (if c_su then stage_run t_name (shell xt) (x_body xt) q2 else ([], q2, false)) = (f_bo, q3, c_bo)
             /\ (if c_su then stage_want (xloc xt) (nonempty su) (x_body xt) else ([], [], false, false)) = (bo, p2, l2, c2)
             /\ Forall2 (meets xt) f_bo bo /\ (c_su && c_bo = c_su && c2)
             /\ q_failed q3 = q_failed q2 || nonempty f_bo /\ q_any q3 = q_any q2 || nonempty f_bo
             /\ q_pending q3 = q_pending q2 ++ p2 /\ q_leaked q3 = q_leaked q2 || l2).
  { destruct c_su.
    - destruct (stage_run t_name (shell xt) (x_body xt) q2) as [[f_bo q3] c_bo] eqn:E3.
      destruct (stage_meets xt _ _ _ _ _ E3) as [bo [p2 [l2 [W3 [M3 [F3 [A3 [P3 L3]]]]]]]].
      rewrite F2, (Forall2_nonempty _ _ _ M2) in W3.
      exists f_bo, q3, c_bo, bo, p2, l2, c_bo. repeat split; assumption.
    - exists [], q2, false, [], [], false, false. rewrite !orb_false_r, app_nil_r. repeat split. constructor. }
  destruct HB as [f_bo [q3 [c_bo [bo [p2 [l2 [c2 [EB [WB [M3 [C3 [F3 [A3 [P3 L3]]]]]]]]]]]]]].
  rewrite EB, WB.
  destruct (stage_run t_name (shell xt) (x_teardown xt) q3) as [[f_td q4] c_td] eqn:E4.
  destruct (stage_meets xt _ _ _ _ _ E4) as [td [p3 [l3 [W4 [M4 [F4 [A4 [P4 L4]]]]]]]].
  rewrite F3, F2 in W4.
  replace (nonempty f_su || nonempty f_bo) with (nonempty (su ++ bo)) in W4
    by (rewrite nonempty_app, (Forall2_nonempty _ _ _ M2), (Forall2_nonempty _ _ _ M3); reflexivity).
  rewrite W4.
  destruct (plugin_run t_name (shell xt) (x_post xt) q4) as [f_po q5] eqn:E5.
  destruct (plugin_meets xt _ _ _ _ E5) as [M5 [F5 [A5 [P5 L5]]]].
  cbn [r_pre r_setup r_setup_done r_body r_body_done r_teardown r_teardown_done r_post r_mock r_leak trun_failures fst snd].
  split; [|reflexivity].
  (* the state after the post-action of the own plugin, in terms of what was reported *)
  assert (HF : q_failed q5 = nonempty (su ++ bo ++ td)).
  { rewrite F5, F4, F3, F2, !nonempty_app, (Forall2_nonempty _ _ _ M2), (Forall2_nonempty _ _ _ M3), (Forall2_nonempty _ _ _ M4). btauto. }
  assert (HP : q_pending q5 = p1 ++ p2 ++ p3).
  { rewrite P5, P4, P3, P2, <- !app_assoc. reflexivity. }
  assert (HL : q_leaked q5 = l1 || l2 || l3).
  { rewrite L5, L4, L3, L2. reflexivity. }
  assert (HA : q_any q5 = nonempty (plugin_want (xloc xt) (x_pre xt) ++ su ++ bo ++ td ++ plugin_want (xloc xt) (x_post xt))).
  { rewrite A5, A4, A3, A2, !nonempty_app, (Forall2_nonempty _ _ _ M1), (Forall2_nonempty _ _ _ M2), (Forall2_nonempty _ _ _ M3),
      (Forall2_nonempty _ _ _ M4), (Forall2_nonempty _ _ _ M5). btauto. }
  rewrite HF, HP, HL, HA.
  set (pre := plugin_want (xloc xt) (x_pre xt)) in *. set (po := plugin_want (xloc xt) (x_post xt)) in *.
  (* the mock plugin *)
  set (cmk := g_mock cfg && negb (nonempty (su ++ bo ++ td)) && nonempty (p1 ++ p2 ++ p3)).
  assert (M6 : Forall2 (meets xt) (if cmk then [make t_name KD2 0 (shell xt) [] 0 (text_expected (p1 ++ p2 ++ p3))] else [])
                                  (if cmk then [lib_want (xloc xt) (p1 ++ p2 ++ p3)] else [])).
  { destruct cmk; constructor; [|constructor]. apply lib_meets; [reflexivity | apply text_expected_has]. }
  set (f_mk := if cmk then [make t_name KD2 0 (shell xt) [] 0 (text_expected (p1 ++ p2 ++ p3))] else []) in *.
  set (mk := if cmk then [lib_want (xloc xt) (p1 ++ p2 ++ p3)] else []) in *.
  (* the leak plugin *)
  replace (nonempty (pre ++ su ++ bo ++ td ++ po) || nonempty f_mk) with (nonempty ((pre ++ su ++ bo ++ td ++ po ++ mk)))
    by (rewrite !nonempty_app, (Forall2_nonempty _ _ _ M6); btauto).
  set (clk := g_leak cfg && (l1 || l2 || l3) && negb (nonempty (pre ++ su ++ bo ++ td ++ po ++ mk))).
  assert (M7 : Forall2 (meets xt) (if clk then [make t_name K2 0 (shell xt) [] 0 L_leak] else []) (if clk then [lib_want (xloc xt) []] else [])).
  { destruct clk; constructor; [|constructor]. apply lib_meets; reflexivity. }
  replace ((pre ++ su ++ bo ++ td ++ po ++ mk) ++ (if clk then [lib_want (xloc xt) []] else []))
    with (pre ++ su ++ bo ++ td ++ po ++ mk ++ (if clk then [lib_want (xloc xt) []] else [])) by (rewrite <- !app_assoc; reflexivity).
  repeat (apply Forall2_app; [assumption|]). exact M7.
Qed.
End OneTestRun.

(* ================= the callbacks of a run: what the writer prints for them ================= *)
Definition item_okP (P : bytes -> bool) (i : item) : bool := match i with IMsg m => pmsg_ok m | IText s => P s end.
Definition ev_okP (P : bytes -> bool) (e : ev) : bool := match e with EPrint s => P s | _ => true end.
Lemma print_failure_ok f : pmsg_ok (print_failure Esc f) = true.
Proof. rewrite <- print_failure_pmsg. apply failure_ok_pmsg. Qed.

Section Writer.
Variable dur : N.
Notation stepX := (tc_step Esc true dur).
Notation itemsX := (tc_items Esc true dur).

(* every message the writer prints is well-formed, whatever its state; texts are copied *)
Lemma items_okP P es : forall st, forallb (ev_okP P) es = true -> forallb (item_okP P) (itemsX st es) = true.
Proof.
  induction es as [|e r IH]; intros st H; [reflexivity|].
  cbn [forallb] in H. apply andb_true_iff in H. destruct H as [He Hr].
  rewrite items_cons_w, forallb_app, (IH _ Hr), andb_true_r.
  destruct e as [t|t|s|t f l m|c|]; cbn [tc_step snd].
  - reflexivity.
  - destruct (t_ignored t); reflexivity.
  - cbn [forallb item_okP]. cbn [ev_okP] in He. rewrite He. reflexivity.
  - cbn [forallb item_okP]. rewrite failure_ok_pmsg. reflexivity.
  - destruct (c_test st) as [t|]; [|reflexivity]. cbn [snd forallb item_okP]. rewrite andb_true_r. exact (finished_ok dur t).
  - destruct (negb (c_open st)); reflexivity.
Qed.

Lemma items_F fs : forall st r, itemsX st (F fs ++ r) = map (fun f => IMsg (print_failure Esc f)) fs ++ itemsX st r.
Proof.
  induction fs as [|f fs IH]; intros st r; [reflexivity|].
  cbn [F map app]. rewrite items_cons_w, step_failure. cbn [fst snd app]. fold (F fs). rewrite IH. reflexivity.
Qed.
Lemma msgs_failures fs : msgs_of_items (map (fun f => IMsg (print_failure Esc f)) fs) = map fmsg fs.
Proof. induction fs as [|f fs IH]; [reflexivity|]. cbn [map msgs_of_items]. rewrite IH. reflexivity. Qed.

Section Loop.
Variable cfg : xcfg.
Variable ri : bool.
Variable fs : list bytes.

(* ---- one test *)
Definition xtest_failures (xt : xtest) : list failure :=
  if 0 <? x_sep xt then sep_failures t_name xt else trun_failures (test_trun t_name cfg xt).
Definition finished_msg (xt : xtest) : message :=
  {| m_name := L_testFinished; m_attrs := [(L_name, x_name xt); (L_duration, dec (if x_ignored xt then 0 else dur))] |}.
(* the messages of a selected test, as the registry armed it *)
Definition xtest_msgs (xt : xtest) : list message :=
  mk_named L_testStarted (x_name xt)
  :: (if x_ignored xt then [mk_named L_testIgnored (x_name xt)] else map fmsg (xtest_failures xt)) ++ [finished_msg xt].

Lemma strip_vt l : strip_prints (vt cfg l) = [].
Proof. unfold vt. destruct (g_verb cfg =? 2); [apply strip_prints_texts | reflexivity]. Qed.
Lemma strip_F l : strip_prints (F l) = F l.
Proof. induction l as [|f l IH]; [reflexivity|]. cbn [F map strip_prints ev_of_failure]. fold (F l). rewrite IH. reflexivity. Qed.
Lemma F_app a b : F (a ++ b) = F a ++ F b.
Proof. apply map_app. Qed.
Lemma strip_trun r : strip_prints (trun_events cfg r) = F (trun_failures r).
Proof.
  unfold trun_events, trun_failures. rewrite !strip_prints_app, !strip_vt, !strip_F, !F_app.
  destruct (r_setup_done r), (r_body_done r), (r_teardown_done r); rewrite ?strip_vt; cbn [strip_prints app]; rewrite ?app_nil_r; reflexivity.
Qed.
Lemma strip_test_events xt : strip_prints (xtest_events t_name cfg xt)
  = if x_ignored xt then [ETestStart (shell xt); ETestEnd 0] else ETestStart (shell xt) :: F (xtest_failures xt) ++ [ETestEnd 0].
Proof.
  unfold xtest_events, xtest_failures. destruct (x_ignored xt); [reflexivity|].
  destruct (0 <? x_sep xt); cbn [strip_prints]; rewrite strip_prints_app; [rewrite strip_F | rewrite strip_trun]; reflexivity.
Qed.

Lemma test_msgs_of_events xt st rest :
  msgs_of_items (itemsX st (xtest_events t_name cfg xt ++ rest))
  = xtest_msgs xt ++ msgs_of_items (itemsX (with_test st (shell xt)) rest).
Proof.
  rewrite msgs_strip, strip_prints_app, strip_test_events, (msgs_strip Esc true dur rest).
  unfold xtest_msgs, finished_msg. destruct (x_ignored xt) eqn:Ei.
  - cbn [app]. rewrite items_cons_w. cbn [tc_step fst snd shell t_ignored t_name]. rewrite Ei. fold (with_test st (shell xt)).
    rewrite items_cons_w. cbn [tc_step with_test c_test fst snd shell t_ignored t_name]. rewrite Ei.
    cbn [app msgs_of_items]. rewrite !erase_named. unfold erase. cbn [pm_name pm_attrs map fst snd flat_map seg_dec app]. rewrite !app_nil_r. reflexivity.
  - cbn [app]. rewrite items_cons_w. cbn [tc_step fst snd shell t_ignored t_name]. rewrite Ei. fold (with_test st (shell xt)).
    rewrite <- app_assoc, items_F. cbn [app]. rewrite items_cons_w. cbn [tc_step with_test c_test fst snd shell t_ignored t_name]. rewrite Ei.
    cbn [app msgs_of_items]. rewrite msgs_of_items_app, msgs_failures. cbn [msgs_of_items]. rewrite erase_named.
    unfold erase at 1. cbn [pm_name pm_attrs map fst snd flat_map seg_dec app]. rewrite !app_nil_r, <- app_assoc. reflexivity.
Qed.

(* ---- one pass of the registry *)
Fixpoint xloop_msgs (first : bool) (xts : list xtest) : list message :=
  match xts with
  | [] => []
  | xt :: rest =>
      let xt' := xarm ri xt in
      (if first then [mk_named L_testSuiteStarted (x_group xt')] else []) ++ (if xselected fs xt' then xtest_msgs xt' else []) ++
      (if xend_of_group xt' rest then mk_named L_testSuiteFinished (x_group xt') :: xloop_msgs true rest else xloop_msgs false rest)
  end.

Lemma xarm_group xt : x_group (xarm ri xt) = x_group xt. Proof. destruct ri; reflexivity. Qed.
Lemma xarm_name xt : x_name (xarm ri xt) = x_name xt. Proof. destruct ri; reflexivity. Qed.
Lemma xarm_idem xt : xarm ri (xarm ri xt) = xarm ri xt. Proof. destruct ri; reflexivity. Qed.
Lemma xselected_arm xt : xselected fs (xarm ri xt) = xselected fs xt.
Proof. unfold xselected. rewrite xarm_name. reflexivity. Qed.
Lemma xend_arm xt rest : xend_of_group (xarm ri xt) rest = xend_of_group xt rest.
Proof. destruct rest; [reflexivity|]. cbn [xend_of_group]. rewrite xarm_group. reflexivity. Qed.
Lemma xend_arm_map xt rest : xend_of_group xt (map (xarm ri) rest) = xend_of_group xt rest.
Proof. destruct rest; [reflexivity|]. cbn [map xend_of_group]. rewrite xarm_group. reflexivity. Qed.

Lemma loop_msgs_of_events xts : forall first st rest,
  (first = false -> match xts with xt :: _ => c_open st = true /\ c_group st = x_group xt | [] => True end) ->
  exists st', msgs_of_items (itemsX st (xreg_loop t_name cfg ri fs first xts ++ rest))
              = xloop_msgs first xts ++ msgs_of_items (itemsX st' rest).
Proof.
  induction xts as [|xt r IH]; intros first st rest Hinv.
  - exists st. reflexivity.
  - cbn [xreg_loop xloop_msgs]. set (xt' := xarm ri xt).
    (* the state once the group is open *)
    assert (H1 : exists st1, c_open st1 = true /\ c_group st1 = x_group xt' /\
               forall tail, msgs_of_items (itemsX st ((if first then [EGroupStart (shell xt')] else []) ++ tail))
                            = (if first then [mk_named L_testSuiteStarted (x_group xt')] else []) ++ msgs_of_items (itemsX st1 tail)).
    { destruct first.
      - eexists. split; [|split]; [| |intro tail; cbn [app]; rewrite items_cons_w; cbn [tc_step fst snd app msgs_of_items shell t_group]; rewrite erase_named; reflexivity];
          reflexivity.
      - exists st. destruct (Hinv eq_refl) as [Ho Hg]. unfold xt'. rewrite xarm_group. repeat split; assumption. }
    destruct H1 as [st1 [Ho1 [Hg1 E1]]].
    rewrite <- !app_assoc, E1.
    (* the test *)
    assert (H2 : exists st2, c_open st2 = true /\ c_group st2 = x_group xt' /\
               forall tail, msgs_of_items (itemsX st1 ((if xselected fs xt' then xtest_events t_name cfg xt' else []) ++ tail))
                            = (if xselected fs xt' then xtest_msgs xt' else []) ++ msgs_of_items (itemsX st2 tail)).
    { destruct (xselected fs xt').
      - exists (with_test st1 (shell xt')). repeat split; [exact Ho1 | exact Hg1 |]. intro tail. apply test_msgs_of_events.
      - exists st1. repeat split; assumption. }
    destruct H2 as [st2 [Ho2 [Hg2 E2]]].
    rewrite E2.
    destruct (xend_of_group xt' r) eqn:Ee.
    + cbn [app]. rewrite items_cons_w. cbn [tc_step]. rewrite Ho2. cbn [negb fst snd app msgs_of_items]. rewrite erase_named.
      destruct (IH true {| c_test := c_test st2; c_group := c_group st2; c_open := false |} rest) as [st' E']; [discriminate|].
      exists st'. rewrite E', Hg2, <- !app_assoc. reflexivity.
    + destruct (IH false st2 rest) as [st' E'].
      { intros _. destruct r as [|n r']; [discriminate Ee|]. cbn [xend_of_group] in Ee. apply negb_false_iff, bytes_eqb_eq in Ee.
        split; [exact Ho2 | rewrite Hg2; exact Ee]. }
      exists st'. rewrite E', <- !app_assoc. reflexivity.
Qed.

(* ---- all passes *)
Fixpoint xpasses_msgs (passes : nat) (xts : list xtest) : list message :=
  match passes with
  | O => []
  | S k => xloop_msgs true xts ++ xpasses_msgs k (map (xarm ri) xts)
  end.
Lemma passes_msgs_of_events n : forall xts st rest,
  exists st', msgs_of_items (itemsX st (xpasses_events t_name cfg ri fs n xts ++ rest))
              = xpasses_msgs n xts ++ msgs_of_items (itemsX st' rest).
Proof.
  induction n as [|n IH]; intros xts st rest.
  - exists st. reflexivity.
  - cbn [xpasses_events xpasses_msgs]. rewrite <- !app_assoc.
    destruct (loop_msgs_of_events xts true st (xpasses_events t_name cfg ri fs n (map (xarm ri) xts) ++ rest)) as [st1 E1]; [discriminate|].
    destruct (IH (map (xarm ri) xts) st1 rest) as [st2 E2]. exists st2. rewrite E1, E2, <- app_assoc. reflexivity.
Qed.

(* the events are such that everything printed is well-formed: the only texts are the progress texts of very verbose mode *)
Definition vvP : bytes -> bool := fun s => (g_verb cfg =? 2) && no_hash s.
Lemma prints_ok P l : forallb (ev_okP P) (map EPrint l) = forallb P l.
Proof. induction l as [|x l IH]; [reflexivity|]. cbn [map forallb ev_okP]. rewrite IH. reflexivity. Qed.
Lemma vt_ok l : forallb no_hash l = true -> forallb (ev_okP vvP) (vt cfg l) = true.
Proof.
  unfold vt, vvP. intro H. destruct (g_verb cfg =? 2); [|reflexivity].
  rewrite prints_ok. cbn [andb]. exact H.
Qed.
Lemma F_ok P l : forallb (ev_okP P) (F l) = true.
Proof. induction l as [|f l IH]; [reflexivity|]. exact IH. Qed.
Lemma trun_events_ok r : forallb (ev_okP vvP) (trun_events cfg r) = true.
Proof.
  unfold trun_events. rewrite !forallb_app, !F_ok.
  rewrite (vt_ok vv_a eq_refl), (vt_ok vv_b eq_refl), (vt_ok vv_e eq_refl), (vt_ok vv_g eq_refl), (vt_ok vv_h eq_refl).
  destruct (r_setup_done r), (r_body_done r), (r_teardown_done r);
    rewrite ?(vt_ok vv_c eq_refl), ?(vt_ok vv_d eq_refl), ?(vt_ok vv_f eq_refl); reflexivity.
Qed.
Lemma test_events_ok xt : forallb (ev_okP vvP) (xtest_events t_name cfg xt) = true.
Proof.
  unfold xtest_events. destruct (x_ignored xt); [reflexivity|].
  destruct (0 <? x_sep xt); cbn [forallb ev_okP andb]; rewrite forallb_app; [rewrite F_ok | rewrite trun_events_ok]; reflexivity.
Qed.
Lemma loop_events_ok xts : forall first, forallb (ev_okP vvP) (xreg_loop t_name cfg ri fs first xts) = true.
Proof.
  induction xts as [|xt r IH]; intro first; [reflexivity|].
  cbn [xreg_loop]. rewrite !forallb_app.
  replace (forallb (ev_okP vvP) (if first then [EGroupStart (shell (xarm ri xt))] else [])) with true by (destruct first; reflexivity).
  replace (forallb (ev_okP vvP) (if xselected fs (xarm ri xt) then xtest_events t_name cfg (xarm ri xt) else [])) with true
    by (destruct (xselected fs (xarm ri xt)); [rewrite test_events_ok|]; reflexivity).
  destruct (xend_of_group (xarm ri xt) r); cbn [forallb ev_okP andb]; apply IH.
Qed.
Lemma passes_events_ok n : forall xts, forallb (ev_okP vvP) (xpasses_events t_name cfg ri fs n xts) = true.
Proof.
  induction n as [|n IH]; intro xts; [reflexivity|]. cbn [xpasses_events]. rewrite forallb_app, loop_events_ok, IH. reflexivity.
Qed.
End Loop.
End Writer.

(* ================= the stream of a run parses back ================= *)
Definition xmessages_of (s : xscenario) : list message :=
  xpasses_msgs (xs_dur s) (xs_cfg s) (xs_ri s) (xs_filters s) (xs_passes s) (xs_tests s).
Definition xrun_items (s : xscenario) : list item := tc_items Esc true (xs_dur s) tc_init (xrun_events_with t_name s).

Lemma xrun_stream s : o_stream (xrun s) = flat_map item_print (xrun_items s).
Proof. unfold xrun, xrun_with. cbn [o_stream]. rewrite sink_stream_concat. apply pieces_concat. Qed.
Lemma xrun_msgs s : msgs_of_items (xrun_items s) = xmessages_of s.
Proof.
  unfold xrun_items, xrun_events_with, xmessages_of.
  destruct (passes_msgs_of_events (xs_dur s) (xs_cfg s) (xs_ri s) (xs_filters s) (xs_passes s) (xs_tests s) tc_init []) as [st' E].
  rewrite app_nil_r in E. rewrite E. cbn [tc_items msgs_of_items]. apply app_nil_r.
Qed.
Lemma item_okP_weaken (P Q : bytes -> bool) l : (forall s, P s = true -> Q s = true) ->
  forallb (item_okP P) l = true -> forallb (item_okP Q) l = true.
Proof.
  intro HPQ. induction l as [|i l IH]; [reflexivity|]. cbn [forallb]. intro H. apply andb_true_iff in H. destruct H as [Hi Hl].
  rewrite (IH Hl), andb_true_r. destruct i; [exact Hi | apply HPQ; exact Hi].
Qed.
Lemma xrun_items_ok s : forallb (item_okP (vvP (xs_cfg s))) (xrun_items s) = true.
Proof. unfold xrun_items, xrun_events_with. apply items_okP, passes_events_ok. Qed.

Lemma xrun_parse_text s trailer : no_hash trailer = true ->
  parse_for (xs_verb s) (o_stream (xrun s) ++ trailer) = Some (xmessages_of s).
Proof.
  intro Ht. rewrite xrun_stream. unfold parse_for. pose proof (xrun_items_ok s) as Hok. unfold vvP in Hok. cbn [xs_cfg g_verb] in Hok.
  destruct (xs_verb s =? 2).
  - rewrite parse_items_any; [rewrite xrun_msgs; reflexivity | | exact Ht].
    change item_ok_any with (item_okP no_hash). eapply item_okP_weaken; [|exact Hok]. intros x Hx. exact Hx.
  - rewrite parse_items; [rewrite xrun_msgs; reflexivity | | exact Ht].
    change item_ok with (item_okP (fun _ => false)). eapply item_okP_weaken; [|exact Hok]. intros x Hx. discriminate Hx.
Qed.

(* ================= the messages against the property ================= *)
Section SpecX.
Variable dur : N.
Variable cfg : xcfg.
Variable ri : bool.
Variable fs : list bytes.
Notation tmsgs := (xtest_msgs dur cfg).
Notation lmsgs := (xloop_msgs dur cfg ri fs).
Notation pmsgs := (xpasses_msgs dur cfg ri fs).

(* what the model reports of a test (as armed) is what is demanded of it *)
Lemma failures_meet xt :
  Forall2 (meets xt) (xtest_failures cfg xt) (fst (test_want cfg xt)) /\ (if x_ignored xt then 0 else snd (test_want cfg xt)) = xtest_exec t_name cfg xt.
Proof.
  unfold xtest_failures, xtest_exec. destruct (0 <? x_sep xt) eqn:Es.
  - destruct (sep_meets cfg xt Es) as [H1 H2]. rewrite H2. split; [exact H1 | destruct (x_ignored xt); reflexivity].
  - destruct (trun_meets cfg xt Es) as [H1 H2]. rewrite <- H2. split; [exact H1 | reflexivity].
Qed.
Lemma meets_names xt l ws : Forall2 (meets xt) l ws -> Forall (fun f => f_nameOnly f = x_name xt) l.
Proof. induction 1 as [|f w l ws [H _] _ IH]; constructor; assumption. Qed.

(* ---- balance *)
Lemma bal_fmsg s nm f r : f_nameOnly f = nm -> balanced_go (Some s) (Some nm) (fmsg f :: r) = balanced_go (Some s) (Some nm) r.
Proof. intro H. rewrite fmsg_failure_msg. unfold failure_msg. cbn. rewrite H, bytes_eqb_refl. reflexivity. Qed.
Lemma bal_fmsgs s nm l : Forall (fun f => f_nameOnly f = nm) l -> forall r,
  balanced_go (Some s) (Some nm) (map fmsg l ++ r) = balanced_go (Some s) (Some nm) r.
Proof. induction 1 as [|f l Hf _ IH]; intro r; [reflexivity|]. cbn [map app]. rewrite (bal_fmsg s nm f _ Hf). apply IH. Qed.
Lemma bal_xtest s xt r : balanced_go (Some s) None (tmsgs xt ++ r) = balanced_go (Some s) None r.
Proof.
  unfold xtest_msgs. cbn [app].
  change (balanced_go (Some s) None (mk_named L_testStarted (x_name xt) :: ?x)) with (balanced_go (Some s) (Some (x_name xt)) x).
  rewrite <- app_assoc. destruct (x_ignored xt).
  - cbn. rewrite !bytes_eqb_refl. reflexivity.
  - rewrite (bal_fmsgs s (x_name xt) _ (meets_names xt _ _ (proj1 (failures_meet xt)))). cbn. rewrite bytes_eqb_refl. reflexivity.
Qed.
Lemma bal_loop xts : forall first r, (xts = [] -> first = true) ->
  balanced_go (match xts with xt :: _ => if first then None else Some (x_group xt) | [] => None end) None (lmsgs first xts ++ r)
  = balanced_go None None r.
Proof.
  induction xts as [|xt rest IH]; intros first r Hne; [reflexivity|].
  cbn [xloop_msgs]. rewrite !(xarm_group ri). rewrite <- !app_assoc.
  assert (H1 : balanced_go (if first then None else Some (x_group xt)) None
                 ((if first then [mk_named L_testSuiteStarted (x_group xt)] else []) ++
                  (if xselected fs (xarm ri xt) then tmsgs (xarm ri xt) else []) ++
                  (if xend_of_group (xarm ri xt) rest then mk_named L_testSuiteFinished (x_group xt) :: lmsgs true rest else lmsgs false rest) ++ r)
               = balanced_go (Some (x_group xt)) None
                  ((if xend_of_group (xarm ri xt) rest then mk_named L_testSuiteFinished (x_group xt) :: lmsgs true rest else lmsgs false rest) ++ r)).
  { destruct first; cbn [app];
      [change (balanced_go None None (mk_named L_testSuiteStarted (x_group xt) :: ?x)) with (balanced_go (Some (x_group xt)) None x)|];
      (destruct (xselected fs (xarm ri xt)); [apply bal_xtest | reflexivity]). }
  rewrite H1. rewrite (xend_arm ri).
  destruct (xend_of_group xt rest) eqn:Ee.
  - cbn [app]. cbn [balanced_go get_attr mk_named m_attrs find fst snd]. cbn. rewrite bytes_eqb_refl. cbn [andb].
    specialize (IH true r (fun _ => eq_refl)). destruct rest; exact IH.
  - destruct rest as [|n rest']; [discriminate Ee|]. cbn [xend_of_group] in Ee. apply negb_false_iff, bytes_eqb_eq in Ee.
    specialize (IH false r). cbn match in IH. rewrite <- Ee in IH. apply IH. discriminate.
Qed.
Lemma xloop_msgs_arm xts : forall first, lmsgs first (map (xarm ri) xts) = lmsgs first xts.
Proof.
  induction xts as [|xt rest IH]; intro first; [reflexivity|].
  cbn [map xloop_msgs]. rewrite !(xarm_idem ri), (xend_arm_map ri), !IH. reflexivity.
Qed.
Lemma xpasses_msgs_arm n : forall xts, pmsgs n (map (xarm ri) xts) = pmsgs n xts.
Proof.
  induction n as [|n IH]; intro xts; [reflexivity|]. cbn [xpasses_msgs]. rewrite xloop_msgs_arm, !IH. reflexivity.
Qed.
Lemma bal_passes n : forall xts r, balanced_go None None (pmsgs n xts ++ r) = balanced_go None None r.
Proof.
  induction n as [|n IH]; intros xts r; [reflexivity|].
  cbn [xpasses_msgs]. rewrite <- app_assoc.
  pose proof (bal_loop xts true (pmsgs n (map (xarm ri) xts) ++ r) (fun _ => eq_refl)) as H.
  destruct xts; cbn match in H; rewrite H; apply IH.
Qed.
Lemma xbalanced n xts : balanced (pmsgs n xts) = true.
Proof. unfold balanced. rewrite <- (app_nil_r (pmsgs n xts)), bal_passes. reflexivity. Qed.

(* ---- faithfulness *)
Lemma xfailure_ok_fmsg xt f w : meets xt f w -> xfailure_ok xt w (fmsg f) = true.
Proof.
  intros [H1 [H2 [H3 [H4 [H5 H6]]]]]. destruct w as [[file line] r]. cbn [fst snd] in *.
  unfold xfailure_ok. rewrite fmsg_failure_msg. unfold failure_msg.
  change (is_msg L_testFailed _) with true.
  unfold attr_is, get_attr. cbn [m_attrs find fst snd shell_of_failure t_name t_file t_line].
  change (bytes_eqb L_name L_name) with true. change (bytes_eqb L_name L_details) with false.
  change (bytes_eqb L_message L_details) with false. change (bytes_eqb L_details L_details) with true.
  change (bytes_eqb L_name L_message) with false. change (bytes_eqb L_message L_message) with true.
  cbn [fst snd]. rewrite H1, bytes_eqb_refl, H6. cbn [andb].
  unfold failure_text. cbn [shell_of_failure t_name t_file t_line]. rewrite H2, H3, H4, H5.
  rewrite ends_with_app. cbn [andb].
  destruct (negb (bytes_eqb (x_file xt) file) || (line <? x_line xt)); [|reflexivity].
  unfold loc_text.
  replace ((L_TEST_failed ++ x_file xt ++ [58] ++ dec (x_line xt) ++ L_close_colon) ++ file ++ [58] ++ dec line)
    with (L_TEST_failed ++ (x_file xt ++ [58] ++ dec (x_line xt)) ++ (L_close_colon ++ file ++ [58] ++ dec line))
    by (repeat (rewrite <- app_assoc || rewrite <- app_comm_cons); reflexivity).
  apply contains_mid.
Qed.
Lemma xtake_failures_msgs xt l ws : Forall2 (meets xt) l ws -> forall r, xtake_failures xt ws (map fmsg l ++ r) = Some r.
Proof.
  induction 1 as [|f w l ws Hm _ IH]; intro r; [reflexivity|].
  cbn [map app xtake_failures]. rewrite (xfailure_ok_fmsg xt f w Hm). apply IH.
Qed.

(* arming keeps everything the property reads of a test except the ignored marker *)
Lemma test_want_arm xt : test_want cfg (xarm ri xt) = test_want cfg xt.
Proof. destruct ri; reflexivity. Qed.
Lemma meets_arm xt f w : meets (xarm ri xt) f w <-> meets xt f w.
Proof. destruct ri; reflexivity. Qed.
Lemma xarm_ignored xt : x_ignored (xarm ri xt) = negb (xruns ri xt).
Proof. unfold xruns. destruct ri; cbn [xarm x_ignored]; rewrite ?orb_true_r, ?orb_false_r, ?negb_involutive; reflexivity. Qed.

Lemma xis_flag_fmsg xt f : xis_flag xt (fmsg f) = false.
Proof. reflexivity. Qed.
Lemma xfinished_check xt' xt (r : list message) : x_name xt' = x_name xt ->
  (if is_msg L_testFinished (finished_msg dur xt') && attr_is L_name (finished_msg dur xt') (x_name xt) then Some r else None) = Some r.
Proof.
  intro Hn. change (is_msg L_testFinished _) with true.
  unfold attr_is, get_attr, finished_msg. cbn [m_attrs find fst snd]. change (bytes_eqb L_name L_name) with true. cbn [snd]. rewrite Hn, bytes_eqb_refl. reflexivity.
Qed.

Lemma xtake_test_msgs xt r :
  xtake_test cfg ri xt (xtest_exec t_name cfg (xarm ri xt)) (tmsgs (xarm ri xt) ++ r) = Some r.
Proof.
  destruct (failures_meet (xarm ri xt)) as [Hm Hx]. rewrite test_want_arm in Hm, Hx. rewrite <- Hx.
  assert (Hm' : Forall2 (meets xt) (xtest_failures cfg (xarm ri xt)) (fst (test_want cfg xt))).
  { clear Hx. induction Hm as [|a b l l' Hab _ IHm]; constructor; [apply meets_arm; exact Hab | exact IHm]. }
  unfold xtest_msgs, xtake_test. cbn [app]. rewrite (xarm_name ri), <- app_assoc.
  change (is_msg L_testStarted (mk_named L_testStarted (x_name xt))) with true. rewrite attr_is_named. cbn [andb].
  rewrite xarm_ignored. destruct (test_want cfg xt) as [ws ex]. cbn [fst snd] in *.
  destruct (xruns ri xt); cbn [negb app].
  - destruct (xtest_failures cfg (xarm ri xt)) as [|f l] eqn:Ef.
    + inversion Hm'; subst. cbn [map app].
      replace (xis_flag xt (finished_msg dur (xarm ri xt))) with false by reflexivity.
      cbn [Bool.eqb negb andb]. rewrite N.eqb_refl. cbn [xtake_failures]. apply xfinished_check, xarm_name.
    + cbn [map app]. rewrite xis_flag_fmsg. cbn [Bool.eqb negb andb]. rewrite N.eqb_refl.
      change (fmsg f :: map fmsg l ++ ?x) with (map fmsg (f :: l) ++ x).
      rewrite (xtake_failures_msgs xt _ _ Hm'). apply xfinished_check, xarm_name.
  - unfold xis_flag. change (is_msg L_testIgnored (mk_named L_testIgnored (x_name xt))) with true. rewrite attr_is_named.
    cbn [andb Bool.eqb negb N.eqb xtake_failures]. apply xfinished_check, xarm_name.
Qed.

Lemma suite_check k g (r : list message) : (is_msg k (mk_named k g) && attr_is L_name (mk_named k g) g) = true.
Proof. rewrite attr_is_named, andb_true_r. unfold is_msg, mk_named. cbn [m_name]. apply bytes_eqb_refl. Qed.

Lemma xtake_pass_msgs xts : forall first cs r,
  xtake_pass cfg ri fs first xts (xpass_exec t_name cfg ri fs xts ++ cs) (lmsgs first xts ++ r) = Some (cs, r).
Proof.
  induction xts as [|xt rest IH]; intros first cs r; [reflexivity|].
  cbn [xtake_pass xpass_exec map app xloop_msgs]. rewrite (xarm_group ri), (xselected_arm ri), (xend_arm ri), <- !app_assoc.
  assert (H1 : (if first
                then match (if first then [mk_named L_testSuiteStarted (x_group xt)] else []) ++
                           (if xselected fs xt then tmsgs (xarm ri xt) else []) ++
                           (if xend_of_group xt rest then mk_named L_testSuiteFinished (x_group xt) :: lmsgs true rest else lmsgs false rest) ++ r with
                     | m :: r0 => if is_msg L_testSuiteStarted m && attr_is L_name m (x_group xt) then Some r0 else None
                     | [] => None
                     end
                else Some ((if first then [mk_named L_testSuiteStarted (x_group xt)] else []) ++
                           (if xselected fs xt then tmsgs (xarm ri xt) else []) ++
                           (if xend_of_group xt rest then mk_named L_testSuiteFinished (x_group xt) :: lmsgs true rest else lmsgs false rest) ++ r))
               = Some ((if xselected fs xt then tmsgs (xarm ri xt) else []) ++
                       (if xend_of_group xt rest then mk_named L_testSuiteFinished (x_group xt) :: lmsgs true rest else lmsgs false rest) ++ r)).
  { destruct first; [|reflexivity]. cbn [app]. rewrite (suite_check L_testSuiteStarted (x_group xt) r). reflexivity. }
  rewrite H1. clear H1.
  destruct (xselected fs xt).
  - rewrite xtake_test_msgs. destruct (xend_of_group xt rest).
    + cbn [app]. rewrite (suite_check L_testSuiteFinished (x_group xt) r). apply IH.
    + apply IH.
  - cbn [N.eqb app]. destruct (xend_of_group xt rest).
    + cbn [app]. rewrite (suite_check L_testSuiteFinished (x_group xt) r). apply IH.
    + apply IH.
Qed.
Lemma xpass_exec_arm xts : xpass_exec t_name cfg ri fs (map (xarm ri) xts) = xpass_exec t_name cfg ri fs xts.
Proof. unfold xpass_exec. rewrite map_map. apply map_ext. intro xt. rewrite !(xarm_idem ri). reflexivity. Qed.
Lemma xpasses_exec_arm n : forall xts, xpasses_exec t_name cfg ri fs n (map (xarm ri) xts) = xpasses_exec t_name cfg ri fs n xts.
Proof. induction n as [|n IH]; intro xts; [reflexivity|]. cbn [xpasses_exec]. rewrite xpass_exec_arm, !IH. reflexivity. Qed.
Lemma xtake_passes_msgs n : forall xts, xtake_passes cfg ri fs n xts (xpasses_exec t_name cfg ri fs n xts) (pmsgs n xts) = true.
Proof.
  induction n as [|n IH]; intro xts; [reflexivity|].
  cbn [xtake_passes xpasses_exec xpasses_msgs]. rewrite xtake_pass_msgs, xpasses_exec_arm, xpasses_msgs_arm. apply IH.
Qed.
End SpecX.

(* ================= the run against the oracle ================= *)
Lemma xspec_messages s : xspec_msgs s (xrun_exec s) (xmessages_of s) = true.
Proof. unfold xspec_msgs, xmessages_of, xrun_exec. rewrite xbalanced, xtake_passes_msgs. reflexivity. Qed.
Lemma xrun_meets_spec_text s trailer : no_hash trailer = true -> xspec s (add_text (xrun s) trailer) = true.
Proof.
  intro Ht. unfold xspec, add_text. cbn [o_stream o_exec]. rewrite (xrun_parse_text s trailer Ht).
  unfold xrun, xrun_with. cbn [o_exec]. apply xspec_messages.
Qed.
Lemma xrun_meets_spec s : xspec s (xrun s) = true.
Proof. rewrite <- (add_text_nil (xrun s)). apply xrun_meets_spec_text. reflexivity. Qed.

(* every message of a test's bracket carries the bare name of the test: started, the ignored flag, every testFailed whatever made
   the failure, finished *)
Lemma test_bracket_names dur cfg xt : Forall (fun m => attr_is L_name m (x_name xt) = true) (xtest_msgs dur cfg xt).
Proof.
  unfold xtest_msgs. constructor; [apply attr_is_named|]. apply Forall_app. split.
  - destruct (x_ignored xt); [constructor; [apply attr_is_named | constructor]|].
    pose proof (meets_names xt _ _ (proj1 (failures_meet cfg xt))) as H.
    induction H as [|f l Hf _ IH]; [constructor|]. cbn [map]. constructor; [|exact IH].
    unfold attr_is. rewrite fmsg_name, Hf. apply bytes_eqb_refl.
  - constructor; [|constructor]. unfold attr_is, get_attr, finished_msg. cbn [m_attrs find fst snd].
    change (bytes_eqb L_name L_name) with true. cbn [snd]. apply bytes_eqb_refl.
Qed.

(* ================= chunking below printBuffer, as for the scenarios of C20_Model ================= *)
Lemma xrun_of_chunks s ops : written ops = concat (xrun_pieces s) -> {| o_stream := written ops; o_exec := o_exec (xrun s) |} = xrun s.
Proof. intro E. rewrite E. unfold xrun, xrun_with, xrun_pieces. cbn [o_exec]. rewrite sink_stream_concat. reflexivity. Qed.
Lemma xspec_any_chunking s ops : written ops = concat (xrun_pieces s) ->
  xspec s {| o_stream := written ops; o_exec := o_exec (xrun s) |} = true.
Proof. intro E. rewrite (xrun_of_chunks s ops E). apply xrun_meets_spec. Qed.

(* ================= the two-argument constructor storing the formatted name (red-team change C20-1 of round 5) ================= *)
Definition mk_xtest (g n f : bytes) (l : N) (body : list xstmt) : xtest :=
  {| x_group := g; x_name := n; x_file := f; x_line := l; x_ignored := false; x_sep := 0;
     x_pre := []; x_setup := []; x_body := body; x_teardown := []; x_post := [] |}.
Definition mk_xrun (mock leak : bool) (ts : list xtest) : xscenario :=
  {| xs_dur := 0; xs_ri := false; xs_passes := 1; xs_filters := []; xs_tests := ts; xs_verb := 0; xs_sink := 1; xs_mock := mock; xs_leak := leak |}.
(* one test whose body throws *)
Definition throwing_run : xscenario := mk_xrun false false [mk_xtest (B "G"%string) (B "t"%string) (B "a.cpp"%string) 10 [XThrow true (B "boom"%string)]].
Lemma xrun_formatted_refuted : ~ (forall s, xvalid s = true -> xspec s (xrun_formatted s) = true).
Proof. intro H. specialize (H throwing_run eq_refl). vm_compute in H. discriminate H. Qed.
(* its stream parses; it is the balance that fails: the testFailed message names TEST(G, t), the open test is t *)
Definition name_TEST_G_t : bytes := B "TEST(G, t)"%string.
Lemma xrun_formatted_unbalanced :
  match tc_parse (o_stream (xrun_formatted throwing_run)) with
  | Some ms => balanced ms = false /\ existsb (fun m => is_msg L_testFailed m && attr_is L_name m name_TEST_G_t) ms = true
  | None => False
  end.
Proof. vm_compute. split; reflexivity. Qed.
(* ... while a run whose failures all come from the long constructors (what the check macros use) is the same run under that change:
   the project's tests, which fail tests through macros, cannot tell *)
Definition macro_only_run : xscenario :=
  mk_xrun false false [mk_xtest (B "G"%string) (B "t"%string) (B "a.cpp"%string) 10
                         [XFail KD3 0 false (B "a.cpp"%string) 12 (B "check"%string); XFail K4 1 false (B "h.cpp"%string) 3 (B "four"%string);
                          XFail K3 2 true (B "a.cpp"%string) 4 (B "unused"%string); XFail K2 0 false [] 0 (B "unreached"%string)]].
Lemma xrun_formatted_same_on_macros : xrun_formatted macro_only_run = xrun macro_only_run /\ xspec macro_only_run (xrun macro_only_run) = true.
Proof. vm_compute. split; reflexivity. Qed.

(* ================= examples ================= *)
(* plugins on; a pre-action failure, an exception in setup (body skipped), a derived short failure copied twice in teardown, a post-action
   failure; an unmet expectation reported; one not reported because the body failed; a leak reported; a leak not reported; the three
   endings of a separate process; an ignored test *)
Definition ex_x1 : xtest :=
  {| x_group := B "G'1"%string; x_name := B "t[1]"%string; x_file := B "it's.cpp"%string; x_line := 10; x_ignored := false; x_sep := 0;
     x_pre := [XFail K2 0 false [] 0 (B "pre|"%string)]; x_setup := [XThrow true (B "what's up"%string); XFail K4 0 false [] 1 (B "unreachable"%string)];
     x_body := [XFail K4 0 false (B "b.cpp"%string) 11 (B "skipped"%string)]; x_teardown := [XFail KD2 2 false [] 0 (B "td"%string)];
     x_post := [XFail K3 1 false (B "p].cpp"%string) 3 []] |}.
Definition ex_x2 : xtest := mk_xtest (B "G'1"%string) (B "m"%string) (B "a.cpp"%string) 20 [XExpect (B "foo"%string); XLeak 16].
Definition ex_x3 : xtest := mk_xtest (B "G'1"%string) (B "n"%string) (B "a.cpp"%string) 30 [XExpect (B "foo"%string); XThrow false []].
Definition ex_x4 : xtest := mk_xtest (B "H"%string) (B "leaks"%string) (B "a.cpp"%string) 40 [XLeak 16].
Definition ex_x5 : xtest := mk_xtest (B "H"%string) (B "u"%string) (B "a.cpp"%string) 50 [XFail KD3 0 false (B "a.cpp"%string) 51 (B "x"%string); XUnexpected (B "bar"%string); XUnexpected (B "baz"%string)].
Definition ex_sep (n : bytes) (code : N) : xtest :=
  {| x_group := B "S"%string; x_name := n; x_file := B "s.cpp"%string; x_line := 5; x_ignored := false; x_sep := code;
     x_pre := []; x_setup := []; x_body := [XFail K4 0 false (B "s.cpp"%string) 6 (B "in the child"%string)]; x_teardown := []; x_post := [] |}.
Definition ex_x9 : xtest :=
  {| x_group := B "S"%string; x_name := B "ign"%string; x_file := B "s.cpp"%string; x_line := 9; x_ignored := true; x_sep := 0;
     x_pre := []; x_setup := []; x_body := [XThrow true (B "never"%string)]; x_teardown := []; x_post := [] |}.
Definition example_x : xscenario :=
  {| xs_dur := 7; xs_ri := false; xs_passes := 1; xs_filters := []; xs_verb := 0; xs_sink := 1; xs_mock := true; xs_leak := true;
     xs_tests := [ex_x1; ex_x2; ex_x3; ex_x4; ex_x5; ex_sep (B "p0"%string) 1; ex_sep (B "p1"%string) 2; ex_sep (B "p11"%string) 3; ex_x9] |}.
Definition example_x_vv : xscenario :=
  {| xs_dur := 7; xs_ri := true; xs_passes := 2; xs_filters := []; xs_verb := 2; xs_sink := 2; xs_mock := true; xs_leak := true; xs_tests := xs_tests example_x |}.
Lemma example_x_valid :
  xvalid example_x = true /\ xspec example_x (xrun example_x) = true /\ o_exec (xrun example_x) = [0; 1; 1; 1; 1; 0; 0; 0; 0]
  /\ length (filter (is_msg L_testFailed) (xmessages_of example_x)) = 10%nat /\ xrun_marks example_x = [1; 4; 5; 6; 8; 9]
  /\ xspec example_x (xrun_formatted example_x) = false
  /\ xvalid example_x_vv = true /\ xspec example_x_vv (xrun example_x_vv) = true /\ tc_parse (o_stream (xrun example_x_vv)) = None
  /\ length (filter (is_msg L_testFailed) (xmessages_of example_x_vv)) = 22%nat.
Proof. vm_compute. repeat split; reflexivity. Qed.

(* the scenarios of C20_Model.v keep their meaning: the examples of C20_Proofs.v, embedded, give the same observation and are judged
   the same *)
Lemma embed_examples :
  xrun (embed example_run) = run example_run /\ xrun (embed example_vv) = run example_vv /\ xrun (embed example_ri) = run example_ri
  /\ xrun (embed example_no_ri) = run example_no_ri /\ xrun (embed long_name_witness) = run long_name_witness
  /\ xspec (embed example_ri) late_options_obs = false /\ xspec (embed example_ri) (run example_no_ri) = false
  /\ xspec (embed old_path_witness) (run_old_path old_path_witness) = false /\ xspec (embed old_group_witness) (run_old_group old_group_witness) = false
  /\ xspec (embed long_name_witness) (run_linebuf true 255 long_name_witness) = false /\ xvalid (embed example_run) = true.
Proof. vm_compute. repeat split; reflexivity. Qed.
