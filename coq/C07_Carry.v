(* C07 -- proofs, part 4: what one test declares (EXPECT_N_LEAKS / IGNORE_ALL_LEAKS_IN_TEST) has no effect on any other test *)
From Coq Require Import NArith List Bool Lia Permutation Arith.
From CppUVerif Require Import gen.Gen_Common C04_Model C07_Model C07_Proofs C07_Tests C07_Main.
Import ListNotations.
Local Open Scope N_scope.

Definition flagless (s : stmt) : bool := match s with SExpect _ | SIgnore => false | _ => true end.
Definition strip (l : list stmt) : list stmt := filter flagless l.
(* the test without its declarations *)
Definition strip_test (t : ltest) : ltest :=
  mkT (t_before t) (strip (t_ipre t)) (strip (t_setup t)) (strip (t_body t)) (strip (t_teardown t)) (strip (t_ipost t)).

Lemma upto_fail_strip : forall l, upto_fail (strip l) = (strip (fst (upto_fail l)), snd (upto_fail l)).
Proof.
  induction l as [|s r IH]; [reflexivity|].
  destruct s; cbn [strip filter flagless upto_fail]; fold (strip r); try rewrite IH;
    destruct (upto_fail r) as [e f]; cbn [fst snd strip filter flagless]; reflexivity.
Qed.

Lemma executed_strip t : executed (strip_test t) = strip (executed t).
Proof.
  unfold executed, phase_text, strip_test. cbn [t_ipre t_setup t_body t_teardown t_ipost]. rewrite !upto_fail_strip.
  destruct (upto_fail (t_setup t)) as [a fa]. cbn [fst snd]. unfold strip. rewrite !filter_app.
  destruct fa; reflexivity.
Qed.

Lemma allocs_strip l : allocs (strip l) = allocs l.
Proof.
  unfold allocs, strip. f_equal. induction l as [|s r IH]; [reflexivity|].
  destruct s; cbn [filter flagless is_alloc]; rewrite ?IH; reflexivity.
Qed.

Lemma allocs_text_strip t : allocs (text_of (strip_test t)) = allocs (text_of t).
Proof. unfold text_of. rewrite !allocs_app, executed_strip, allocs_strip. reflexivity. Qed.

(* two observations of one test that are both what the text demands are the same observation *)
Definition item_same (o o' : titem) : Prop :=
  ti_fail o = ti_fail o' /\ ti_leak o = ti_leak o' /\ Permutation (ti_entries o) (ti_entries o') /\
  ti_noleaks o = ti_noleaks o' /\ ti_many o = ti_many o' /\ ti_total o = ti_total o'.

Lemma item_good_same base t o o' : item_good base t o -> item_good base t o' -> item_same o o'.
Proof.
  unfold item_good, item_same. destruct (verdict _ _).
  - intros (-> & -> & P & -> & -> & ->) (-> & -> & P' & -> & -> & ->). repeat split; try reflexivity.
    eapply perm_trans; [exact P|apply Permutation_sym; exact P'].
  - intros (-> & -> & -> & -> & -> & ->) (-> & -> & -> & -> & -> & ->). repeat split; reflexivity.
Qed.

Lemma nth_other {A} (d x y : A) : forall (P Q : list A) j, j <> length P -> nth j (P ++ x :: Q) d = nth j (P ++ y :: Q) d.
Proof.
  induction P as [|p P IH]; intros Q [|j] H; cbn in *; try reflexivity; try lia.
  apply IH. lia.
Qed.

Lemma base_other b0 P Q t t' j : allocs (text_of t) = allocs (text_of t') -> j <> length P ->
  base_from b0 (P ++ t :: Q) j = base_from b0 (P ++ t' :: Q) j.
Proof.
  intros E Hj. unfold base_from. rewrite (nth_other no_test t t' P Q j Hj). f_equal. f_equal.
  revert j Hj. induction P as [|p P IH]; intros [|j] Hj; cbn [length] in Hj; try reflexivity; try lia.
  - cbn [app firstn flat_text flat_map]. rewrite !allocs_app, E. reflexivity.
  - cbn [app firstn flat_text flat_map]. fold (flat_text (firstn j (P ++ t :: Q))). fold (flat_text (firstn j (P ++ t' :: Q))).
    rewrite !allocs_app. f_equal. apply IH. lia.
Qed.

Lemma flags_do_not_carry_over pre P Q t t' tail tail' k k' j :
  strip_test t = strip_test t' ->
  valid (mkS pre (P ++ t :: Q) tail k) = true -> valid (mkS pre (P ++ t' :: Q) tail' k') = true ->
  j <> length P -> (j < length (P ++ t :: Q))%nat ->
  item_same (nth j (o_tests (run (mkS pre (P ++ t :: Q) tail k))) no_item) (nth j (o_tests (run (mkS pre (P ++ t' :: Q) tail' k'))) no_item).
Proof.
  intros ES HV HV' Hj Hlt.
  assert (Hlt' : (j < length (P ++ t' :: Q))%nat) by (rewrite app_length in *; cbn [length] in *; lia).
  pose proof (item_of _ j HV Hlt) as G. pose proof (item_of _ j HV' Hlt') as G'. unfold base_of in G, G'. cbn [s_tests s_pre] in G, G'.
  assert (EA : allocs (text_of t) = allocs (text_of t')) by (rewrite <- (allocs_text_strip t), <- (allocs_text_strip t'), ES; reflexivity).
  rewrite (base_other _ P Q t t' j EA Hj), (nth_other no_test t t' P Q j Hj) in G.
  exact (item_good_same _ _ _ _ G G').
Qed.

(* ------------------------------------------------------------------ releasing a foreign block offsets nothing, in whole runs *)
Lemma item_good_ext base t t' o :
  own_failures (executed t) = own_failures (executed t') -> asked_ignore (executed t) = asked_ignore (executed t') ->
  declared (executed t) = declared (executed t') -> leaked base (executed t) = leaked base (executed t') ->
  item_good base t o -> item_good base t' o.
Proof. unfold item_good, verdict. intros -> -> -> ->. auto. Qed.

Lemma nth_here {A} (d x : A) P Q : nth (length P) (P ++ x :: Q) d = x.
Proof. rewrite app_nth2, Nat.sub_diag by lia. reflexivity. Qed.
Lemma firstn_here {A} (x : A) P Q : firstn (length P) (P ++ x :: Q) = P.
Proof. rewrite firstn_app, Nat.sub_diag, firstn_all. cbn. apply app_nil_r. Qed.

Lemma foreign_release_changes_no_verdict pre P Q t t' tail tail' k k' j A B id :
  executed t = A ++ SFree id :: B -> executed t' = A ++ B -> t_before t = t_before t' ->
  existsb (allocates id) A = false ->
  valid (mkS pre (P ++ t :: Q) tail k) = true -> valid (mkS pre (P ++ t' :: Q) tail' k') = true ->
  (j < length (P ++ t :: Q))%nat ->
  item_same (nth j (o_tests (run (mkS pre (P ++ t :: Q) tail k))) no_item) (nth j (o_tests (run (mkS pre (P ++ t' :: Q) tail' k'))) no_item).
Proof.
  intros E E' EB HA HV HV' Hlt.
  assert (Hlt' : (j < length (P ++ t' :: Q))%nat) by (rewrite app_length in *; cbn [length] in *; lia).
  pose proof (item_of _ j HV Hlt) as G. pose proof (item_of _ j HV' Hlt') as G'. unfold base_of in G, G'. cbn [s_tests s_pre] in G, G'.
  assert (EA : allocs (text_of t) = allocs (text_of t')).
  { unfold text_of. rewrite E, E', EB, !allocs_app. unfold allocs at 3. cbn [filter is_alloc]. reflexivity. }
  destruct (Nat.eq_dec j (length P)) as [->|Hj].
  - unfold base_from in G, G'. rewrite nth_here, firstn_here in G, G'. rewrite <- EB in G'.
    refine (item_good_same _ _ _ _ _ G'). revert G. apply item_good_ext; rewrite E, E'.
    + unfold own_failures. rewrite !filter_app. reflexivity.
    + unfold asked_ignore. rewrite !existsb_app. reflexivity.
    + unfold declared. rewrite !fold_left_app. reflexivity.
    + apply foreign_release_no_offset. assumption.
  - rewrite (base_other _ P Q t t' j EA Hj), (nth_other no_test t t' P Q j Hj) in G.
    exact (item_good_same _ _ _ _ G G').
Qed.

(* satisfiable: the example program, and the same program with test 1 declaring something else *)
Example carry_example :
  let t := nth 1 (s_tests example_s) no_test in
  let t' := mkT (t_before t) [SExpect 9] (SIgnore :: t_setup t) [SFree 2; SExpect 3; SAlloc 3 1 0] (t_teardown t) [] in
  strip_test t = strip_test t' /\
  valid (mkS (s_pre example_s) (firstn 1 (s_tests example_s) ++ t' :: skipn 2 (s_tests example_s)) [] 2) = true.
Proof. vm_compute. split; reflexivity. Qed.
Example release_example :
  let t := nth 1 (s_tests example_s) no_test in
  let t' := mkT (t_before t) [] [] [SAlloc 3 1 0; SExpect 1] [] [] in
  executed t = [] ++ SFree 2 :: [SAlloc 3 1 0; SExpect 1] /\ executed t' = [] ++ [SAlloc 3 1 0; SExpect 1] /\
  valid (mkS (s_pre example_s) (firstn 1 (s_tests example_s) ++ t' :: skipn 2 (s_tests example_s)) [] 0) = true.
Proof. vm_compute. repeat split; reflexivity. Qed.
