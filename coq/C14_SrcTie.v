(* C14: the seven first-difference scans of the failure constructors of /repo's TestFailure.cpp (CheckEqualFailure,
   StringEqualFailure, StringEqualNoCaseFailure: one scan over the operands and one over their printable forms;
   BinaryEqualFailure: one scan bounded by `size`), as tools/cxx2gal.py translates each loop ON ITS OWN on every run
   (gen/Gen_LoopC14.v, over the byte memory of lib/CMem.v; `x.at(i)` is the translated SimpleString::at of gen/Gen_LoopC13.v,
   `ToLower` the translated leaf of gen/Gen_LeafC13.v), compute the TEXTBOOK first difference `first_diff` of C14_Model.v
   and read nothing beyond the terminators (resp. nothing at an index >= size).
   `FOk v`: the loop terminated within the fuel, made no access outside the blocks of its operands, and left v in the loop
   variable.  The memory model refuses every access outside a block, so a statement that holds for blocks ENDING at the
   terminator (the rest `ra` / `re` after the terminator is arbitrary, in particular empty) says that the terminator is the
   last byte read.  A change to one of these loops changes Gen_LoopC14.v and these theorems are re-checked against it. *)
From Coq Require Import ZArith NArith Bool List Lia.
From CppUVerif Require Import lib.CSem lib.CMem lib.CMemFacts lib.Str gen.Gen_LeafC13 gen.Gen_LoopC13 gen.Gen_LoopC14
  C13_Text C13_Model C13_Proofs C13_LeafTie C13_SrcTie C13_SrcSpec C13_SrcSpec2.
From CppUVerif Require C14_Model C14_Scan.
Import ListNotations.
Local Open Scope Z_scope.

Notation first_diff := C14_Model.first_diff.

(* ------------------------------------------------------------------ helpers: lists, bytes *)
Lemma skipn_cons_inv {A} (l : list A) : forall k x t, skipn k l = x :: t ->
  nth_error l k = Some x /\ skipn (S k) l = t.
Proof.
  induction l as [|c l IH]; intros k x t H.
  - rewrite skipn_nil in H. discriminate H.
  - destruct k as [|k].
    + cbn in H. inversion H; subst. split; reflexivity.
    + cbn [skipn] in H. destruct (IH k x t H) as [A1 A2]. split; [exact A1 | exact A2].
Qed.

Lemma first_diff_refl s : first_diff s s = length s.
Proof. induction s as [|x s IH]; cbn; [reflexivity|]. rewrite N.eqb_refl, IH. reflexivity. Qed.

(* the model's `nz` and C13's `NN` are the same predicate *)
Lemma NN_is_nz s : NN s <-> C14_Scan.nz s.
Proof. split; intro H; exact H. Qed.

Lemma schar_is_sc c : (c < 256)%N -> schar c = sc c.
Proof. intro H. apply Z.eqb_eq. revert c H. apply byte_sweep. vm_compute. reflexivity. Qed.

Lemma to_lower_byte c : (c < 256)%N -> (to_lower c < 256)%N.
Proof.
  intro H. unfold to_lower. destruct ((65 <=? c)%N && (c <=? 90)%N) eqn:E; [|exact H].
  apply andb_true_iff in E. destruct E as [_ E]. apply N.leb_le in E. lia.
Qed.

(* the translated ToLower on the char value of a byte = the char value of the textbook to_lower of the byte *)
Lemma ToLower_schar c : (c < 256)%N -> leaf_ToLower (schar c) = schar (to_lower c).
Proof.
  intro H. rewrite (schar_is_sc c H), (tie_ToLower c H). symmetry. apply schar_is_sc. apply to_lower_byte. exact H.
Qed.

(* ------------------------------------------------------------------ one read `p[k]` : form p + k, load *)
Definition rdp (m : memory) (p : ptr) (k : Z) : option N :=
  match padd m p k with None => None | Some q => load m q end.

Lemma src_at_rdp fuel m p k : src_at fuel m p k = match rdp m p k with Some c => FOk (schar c) | None => FOob end.
Proof. unfold src_at, rdp. destruct (padd m p k) as [q|]; [|reflexivity]. destruct (load m q); reflexivity. Qed.

Lemma rdp_some m p k c : 0 <= k -> nth_error (view m p) (Z.to_nat k) = Some c -> rdp m p k = Some c.
Proof.
  intros Hk Hn. destruct p as [|b o].
  - cbn [view] in Hn. destruct (Z.to_nat k); discriminate Hn.
  - assert (Hlen : (Z.to_nat k < length (view m (Ptr b o)))%nat) by (apply nth_error_Some; rewrite Hn; discriminate).
    destruct (view m (Ptr b o)) as [|c0 r] eqn:Hv; [cbn in Hlen; lia|].
    destruct (view_cons_bounds _ _ _ _ _ Hv) as [Ho Hb].
    unfold rdp. cbn [padd].
    replace (0 <=? o + k) with true by (symmetry; apply Z.leb_le; lia).
    replace (o + k <=? Z.of_nat (length (block m b))) with true by (symmetry; apply Z.leb_le; lia).
    cbn [andb load]. replace (0 <=? o + k) with true by (symmetry; apply Z.leb_le; lia).
    rewrite <- Hn, <- Hv. cbn [view]. replace (0 <=? o) with true by (symmetry; apply Z.leb_le; lia).
    rewrite nth_error_skipn'. f_equal. lia.
Qed.

Lemma rdp_skipn m p k c t : skipn k (view m p) = c :: t -> rdp m p (Z.of_nat k) = Some c.
Proof.
  intro H. destruct (skipn_cons_inv _ _ _ _ H) as [Hn _]. apply rdp_some; [lia|]. rewrite Nat2Z.id. exact Hn.
Qed.

(* the memory model refuses every read at or after the end of the cells a pointer sees: this is what makes `FOk` on a block
   that ENDS at the terminator a statement about the largest index read *)
Lemma rdp_beyond m p k c r : view m p = c :: r -> 0 <= k -> (length (c :: r) <= Z.to_nat k)%nat -> rdp m p k = None.
Proof.
  intros Hv Hk Hl. destruct p as [|b o]; [reflexivity|].
  destruct (view_cons_bounds _ _ _ _ _ Hv) as [Ho Hb]. unfold rdp. cbn [padd].
  destruct ((0 <=? o + k) && (o + k <=? Z.of_nat (length (block m b)))) eqn:E; [|reflexivity].
  cbn [load]. destruct (0 <=? o + k); [|reflexivity]. apply nth_error_None. lia.
Qed.

(* ------------------------------------------------------------------ the common shape of the six string scans *)
(* for (i = 0; norm(actual[i]) == norm(expected[i]) && actual[i] != '\0'; i++) ;   over signed char values *)
Fixpoint gloop (norm : Z -> Z) (fuel : nat) (m : memory) (pa pe : ptr) (i : Z) {struct fuel} : cres Z Z :=
  match fuel with O => CMem.NoFuel | S fuel =>
    match rdp m pa i with None => CMem.Oob | Some x =>
      match rdp m pe i with None => CMem.Oob | Some y =>
        if z2b (c_eq (norm (schar x)) (norm (schar y))) then
          if z2b (c_ne (schar x) 0) then gloop norm fuel m pa pe (cw 64 false (i + 1)) else Go i
        else Go i
      end
    end
  end.

Definition idz (z : Z) : Z := z.

(* every generated loop IS this shape, for every memory, pointers, index and fuel (out-of-bounds runs included) *)
Lemma CheckEqual_raw_loop_is fuel0 m pa pe : forall fuel i,
  src_scan_CheckEqual_raw_loop1 fuel0 fuel m pa pe i = gloop idz fuel m pa pe i.
Proof.
  induction fuel as [|fuel IH]; intro i; [reflexivity|].
  cbn [src_scan_CheckEqual_raw_loop1 gloop]. rewrite !src_at_rdp.
  destruct (rdp m pa i) as [x|]; cbv beta iota; [|reflexivity].
  destruct (rdp m pe i) as [y|]; cbv beta iota; [|reflexivity]. unfold idz.
  destruct (z2b (c_eq (schar x) (schar y))); [|reflexivity].
  destruct (z2b (c_ne (schar x) 0)); [|reflexivity]. apply IH.
Qed.

Lemma CheckEqual_printable_loop_is fuel0 m pa pe : forall fuel i,
  src_scan_CheckEqual_printable_loop1 fuel0 fuel m pa pe i = gloop idz fuel m pa pe i.
Proof.
  induction fuel as [|fuel IH]; intro i; [reflexivity|].
  cbn [src_scan_CheckEqual_printable_loop1 gloop]. rewrite !src_at_rdp.
  destruct (rdp m pa i) as [x|]; cbv beta iota; [|reflexivity].
  destruct (rdp m pe i) as [y|]; cbv beta iota; [|reflexivity]. unfold idz.
  destruct (z2b (c_eq (schar x) (schar y))); [|reflexivity].
  destruct (z2b (c_ne (schar x) 0)); [|reflexivity]. apply IH.
Qed.

Lemma StringEqual_printable_loop_is fuel0 m pa pe : forall fuel i,
  src_scan_StringEqual_printable_loop1 fuel0 fuel m pa pe i = gloop idz fuel m pa pe i.
Proof.
  induction fuel as [|fuel IH]; intro i; [reflexivity|].
  cbn [src_scan_StringEqual_printable_loop1 gloop]. rewrite !src_at_rdp.
  destruct (rdp m pa i) as [x|]; cbv beta iota; [|reflexivity].
  destruct (rdp m pe i) as [y|]; cbv beta iota; [|reflexivity]. unfold idz.
  destruct (z2b (c_eq (schar x) (schar y))); [|reflexivity].
  destruct (z2b (c_ne (schar x) 0)); [|reflexivity]. apply IH.
Qed.

Lemma NoCase_printable_loop_is fuel0 m pa pe : forall fuel i,
  src_scan_NoCase_printable_loop1 fuel0 fuel m pa pe i = gloop leaf_ToLower fuel m pa pe i.
Proof.
  induction fuel as [|fuel IH]; intro i; [reflexivity|].
  cbn [src_scan_NoCase_printable_loop1 gloop]. rewrite !src_at_rdp.
  destruct (rdp m pa i) as [x|]; cbv beta iota; [|reflexivity].
  destruct (rdp m pe i) as [y|]; cbv beta iota; [|reflexivity].
  destruct (z2b (c_eq (leaf_ToLower (schar x)) (leaf_ToLower (schar y)))); [|reflexivity].
  destruct (z2b (c_ne (schar x) 0)); [|reflexivity]. apply IH.
Qed.

(* the raw `const char*` loops take (expected, actual) in this order and index the pointers directly *)
Lemma StringEqual_raw_loop_is fuel0 m pa pe : forall fuel i,
  src_scan_StringEqual_raw_loop1 fuel0 fuel m pe pa i = gloop idz fuel m pa pe i.
Proof.
  induction fuel as [|fuel IH]; intro i; [reflexivity|].
  cbn [src_scan_StringEqual_raw_loop1 gloop]. unfold rdp.
  destruct (padd m pa i) as [qa|]; [|reflexivity]. destruct (load m qa) as [x|]; [|reflexivity].
  destruct (padd m pe i) as [qe|]; [|reflexivity]. destruct (load m qe) as [y|]; [|reflexivity]. unfold idz.
  destruct (z2b (c_eq (schar x) (schar y))); [|reflexivity].
  destruct (z2b (c_ne (schar x) 0)); [|reflexivity]. apply IH.
Qed.

Lemma NoCase_raw_loop_is fuel0 m pa pe : forall fuel i,
  src_scan_NoCase_raw_loop1 fuel0 fuel m pe pa i = gloop leaf_ToLower fuel m pa pe i.
Proof.
  induction fuel as [|fuel IH]; intro i; [reflexivity|].
  cbn [src_scan_NoCase_raw_loop1 gloop]. unfold rdp.
  destruct (padd m pa i) as [qa|]; [|reflexivity]. destruct (load m qa) as [x|]; [|reflexivity].
  destruct (padd m pe i) as [qe|]; [|reflexivity]. destruct (load m qe) as [y|]; [|reflexivity].
  destruct (z2b (c_eq (leaf_ToLower (schar x)) (leaf_ToLower (schar y)))); [|reflexivity].
  destruct (z2b (c_ne (schar x) 0)); [|reflexivity]. apply IH.
Qed.

(* ------------------------------------------------------------------ what the common shape computes *)
Section Shape.
  Variable norm : Z -> Z.
  Variable normN : N -> N.
  Hypothesis norm_tie : forall c, (c < 256)%N -> norm (schar c) = schar (normN c).
  Hypothesis normN_byte : forall c, (c < 256)%N -> (normN c < 256)%N.
  Hypothesis normN_nz : forall c, c <> 0%N -> normN c <> normN 0%N.

  Lemma gloop_run m pa pe ra re : forall a e k fuel,
    skipn k (view m pa) = a ++ 0%N :: ra -> skipn k (view m pe) = e ++ 0%N :: re ->
    NN a -> NN e -> bytes_ok a -> bytes_ok e ->
    (first_diff (map normN a) (map normN e) < fuel)%nat ->
    Z.of_nat (k + first_diff (map normN a) (map normN e)) < M64 ->
    gloop norm fuel m pa pe (Z.of_nat k) = Go (Z.of_nat (k + first_diff (map normN a) (map normN e))).
  Proof.
    induction a as [|x a IH]; intros e k fuel Ha He Na Ne Ba Be Hf Hl;
      (destruct fuel as [|fuel]; [lia|]); cbn [gloop]; cbn [app] in Ha; rewrite (rdp_skipn _ _ _ _ _ Ha).
    - (* the actual's terminator: the scan stops here whatever the expected holds *)
      assert (E : rdp m pe (Z.of_nat k) = Some (match e with [] => 0%N | y :: _ => y end)).
      { destruct e as [|y e]; cbn [app] in He; exact (rdp_skipn _ _ _ _ _ He). }
      rewrite E. change (z2b (c_ne (schar 0%N) 0)) with false.
      cbn [map first_diff]. rewrite Nat.add_0_r. destruct (z2b _); reflexivity.
    - inversion Na as [|? ? Hx Na']; subst. inversion Ba as [|? ? Bx Ba']; subst.
      destruct (skipn_cons_inv _ _ _ _ Ha) as [_ Ha'].
      destruct e as [|y e]; cbn [app] in He; rewrite (rdp_skipn _ _ _ _ _ He).
      + (* the expected's terminator against a non-NUL byte: they differ *)
        rewrite (norm_tie x Bx), (norm_tie 0%N) by lia. unfold c_eq. rewrite b2z_z2b.
        rewrite schar_inj by (apply normN_byte; lia).
        destruct (N.eqb_spec (normN x) (normN 0%N)) as [E|_]; [exfalso; exact (normN_nz x Hx E)|].
        cbn [map first_diff]. rewrite Nat.add_0_r. reflexivity.
      + inversion Ne as [|? ? Hy Ne']; subst. inversion Be as [|? ? By' Be']; subst.
        destruct (skipn_cons_inv _ _ _ _ He) as [_ He'].
        rewrite (norm_tie x Bx), (norm_tie y By'). unfold c_eq, c_ne. rewrite !b2z_z2b.
        rewrite schar_inj by (apply normN_byte; assumption). rewrite (schar_zero x Bx).
        revert Hf Hl. cbn [map first_diff].
        destruct (N.eqb (normN x) (normN y)) eqn:E; intros Hf Hl.
        * destruct (N.eqb_spec x 0%N) as [Z0|_]; [contradiction|]. cbn [negb].
          unfold M64 in Hl. rewrite cw_u_small by lia.
          replace (Z.of_nat k + 1) with (Z.of_nat (S k)) by lia.
          replace (k + S (first_diff (map normN a) (map normN e)))%nat
            with (S k + first_diff (map normN a) (map normN e))%nat by lia.
          apply IH; try assumption; [lia | unfold M64; lia].
        * rewrite Nat.add_0_r. reflexivity.
  Qed.

  Lemma gloop_cstr m pa pe a ra e re fuel : mem_ok m -> cstr_at m pa a ra -> cstr_at m pe e re ->
    (first_diff (map normN a) (map normN e) < fuel)%nat ->
    Z.of_nat (first_diff (map normN a) (map normN e)) < M64 ->
    gloop norm fuel m pa pe 0 = Go (Z.of_nat (first_diff (map normN a) (map normN e))).
  Proof.
    intros Hm [Va Na] [Ve Ne] Hf Hl.
    pose proof (view_ok m pa Hm) as Ba. rewrite Va in Ba. unfold bytes_ok in Ba. apply Forall_app in Ba. destruct Ba as [Ba _].
    pose proof (view_ok m pe Hm) as Be. rewrite Ve in Be. unfold bytes_ok in Be. apply Forall_app in Be. destruct Be as [Be _].
    exact (gloop_run m pa pe ra re a e 0%nat fuel Va Ve Na Ne Ba Be Hf Hl).
  Qed.
End Shape.

Lemma gloop_id m pa pe a ra e re fuel : mem_ok m -> cstr_at m pa a ra -> cstr_at m pe e re ->
  (first_diff a e < fuel)%nat -> Z.of_nat (first_diff a e) < M64 ->
  gloop idz fuel m pa pe 0 = Go (Z.of_nat (first_diff a e)).
Proof.
  intros Hm Ca Ce Hf Hl.
  pose proof (gloop_cstr idz (fun c => c) (fun c _ => eq_refl) (fun c H => H) (fun c H => H) m pa pe a ra e re fuel Hm Ca Ce) as G.
  rewrite !map_id in G. exact (G Hf Hl).
Qed.

Lemma gloop_lower m pa pe a ra e re fuel : mem_ok m -> cstr_at m pa a ra -> cstr_at m pe e re ->
  (first_diff (map to_lower a) (map to_lower e) < fuel)%nat -> Z.of_nat (first_diff (map to_lower a) (map to_lower e)) < M64 ->
  gloop leaf_ToLower fuel m pa pe 0 = Go (Z.of_nat (first_diff (map to_lower a) (map to_lower e))).
Proof.
  intros Hm Ca Ce Hf Hl.
  exact (gloop_cstr leaf_ToLower to_lower ToLower_schar to_lower_byte C14_Scan.lower_nz m pa pe a ra e re fuel Hm Ca Ce Hf Hl).
Qed.

(* ================================================================== (1) the four case-sensitive scans *)
(* a = the actual, e = the expected string (for the `printable` scans: the contents of printableActual / printableExpected);
   `fs` is the incoming value of the loop variable, which the loop resets to 0.  The hypotheses on fuel and on 2^64 are
   tight: the scan makes first_diff a e + 1 iterations; both follow from (length a < fuel) and Z.of_nat (length a) < M64
   (scan_hyps_of_length below). *)
Theorem src_scan_CheckEqual_raw_spec fuel m fs pa pe a ra e re : mem_ok m ->
  cstr_at m pa a ra -> cstr_at m pe e re -> (first_diff a e < fuel)%nat -> Z.of_nat (first_diff a e) < M64 ->
  src_scan_CheckEqual_raw fuel m fs pa pe = FOk (Z.of_nat (first_diff a e)).
Proof.
  intros Hm Ca Ce Hf Hl. unfold src_scan_CheckEqual_raw. rewrite CheckEqual_raw_loop_is.
  rewrite (gloop_id m pa pe a ra e re fuel Hm Ca Ce Hf Hl). reflexivity.
Qed.

Theorem src_scan_CheckEqual_printable_spec fuel m fs pa pe a ra e re : mem_ok m ->
  cstr_at m pa a ra -> cstr_at m pe e re -> (first_diff a e < fuel)%nat -> Z.of_nat (first_diff a e) < M64 ->
  src_scan_CheckEqual_printable fuel m fs pa pe = FOk (Z.of_nat (first_diff a e)).
Proof.
  intros Hm Ca Ce Hf Hl. unfold src_scan_CheckEqual_printable. rewrite CheckEqual_printable_loop_is.
  rewrite (gloop_id m pa pe a ra e re fuel Hm Ca Ce Hf Hl). reflexivity.
Qed.

Theorem src_scan_StringEqual_raw_spec fuel m fs pa pe a ra e re : mem_ok m ->
  cstr_at m pa a ra -> cstr_at m pe e re -> (first_diff a e < fuel)%nat -> Z.of_nat (first_diff a e) < M64 ->
  src_scan_StringEqual_raw fuel m pe pa fs = FOk (Z.of_nat (first_diff a e)).
Proof.
  intros Hm Ca Ce Hf Hl. unfold src_scan_StringEqual_raw. rewrite StringEqual_raw_loop_is.
  rewrite (gloop_id m pa pe a ra e re fuel Hm Ca Ce Hf Hl). reflexivity.
Qed.

Theorem src_scan_StringEqual_printable_spec fuel m fs pa pe a ra e re : mem_ok m ->
  cstr_at m pa a ra -> cstr_at m pe e re -> (first_diff a e < fuel)%nat -> Z.of_nat (first_diff a e) < M64 ->
  src_scan_StringEqual_printable fuel m fs pa pe = FOk (Z.of_nat (first_diff a e)).
Proof.
  intros Hm Ca Ce Hf Hl. unfold src_scan_StringEqual_printable. rewrite StringEqual_printable_loop_is.
  rewrite (gloop_id m pa pe a ra e re fuel Hm Ca Ce Hf Hl). reflexivity.
Qed.

(* ================================================================== (2) the two scans that ignore case *)
(* the source compares ToLower of the bytes and tests the ACTUAL's byte itself for the terminator: since to_lower keeps a
   non-NUL byte non-NUL (C14_Scan.lower_nz) this is the first difference of the lowered strings, also when one lowered
   string is a proper prefix of the other (the terminator of the shorter one differs from the byte of the longer one) *)
Theorem src_scan_NoCase_raw_spec fuel m fs pa pe a ra e re : mem_ok m ->
  cstr_at m pa a ra -> cstr_at m pe e re ->
  (first_diff (map to_lower a) (map to_lower e) < fuel)%nat -> Z.of_nat (first_diff (map to_lower a) (map to_lower e)) < M64 ->
  src_scan_NoCase_raw fuel m pe pa fs = FOk (Z.of_nat (first_diff (map to_lower a) (map to_lower e))).
Proof.
  intros Hm Ca Ce Hf Hl. unfold src_scan_NoCase_raw. rewrite NoCase_raw_loop_is.
  rewrite (gloop_lower m pa pe a ra e re fuel Hm Ca Ce Hf Hl). reflexivity.
Qed.

Theorem src_scan_NoCase_printable_spec fuel m fs pa pe a ra e re : mem_ok m ->
  cstr_at m pa a ra -> cstr_at m pe e re ->
  (first_diff (map to_lower a) (map to_lower e) < fuel)%nat -> Z.of_nat (first_diff (map to_lower a) (map to_lower e)) < M64 ->
  src_scan_NoCase_printable fuel m fs pa pe = FOk (Z.of_nat (first_diff (map to_lower a) (map to_lower e))).
Proof.
  intros Hm Ca Ce Hf Hl. unfold src_scan_NoCase_printable. rewrite NoCase_printable_loop_is.
  rewrite (gloop_lower m pa pe a ra e re fuel Hm Ca Ce Hf Hl). reflexivity.
Qed.

(* the tight hypotheses follow from the usual ones on the length of the actual string *)
Lemma scan_hyps_of_length (f : N -> N) a e fuel : (length a < fuel)%nat -> Z.of_nat (length a) < M64 ->
  (first_diff (map f a) (map f e) < fuel)%nat /\ Z.of_nat (first_diff (map f a) (map f e)) < M64.
Proof.
  intros Hf Hl. destruct (C14_Scan.first_diff_le (map f a) (map f e)) as [A _]. rewrite map_length in A. lia.
Qed.
Lemma scan_hyps_of_length_id a e fuel : (length a < fuel)%nat -> Z.of_nat (length a) < M64 ->
  (first_diff a e < fuel)%nat /\ Z.of_nat (first_diff a e) < M64.
Proof. intros Hf Hl. destruct (C14_Scan.first_diff_le a e) as [A _]. lia. Qed.

(* ================================================================== (3) the binary scan *)
(* for (i = 0; i < size && actual[i] == expected[i]; i++) ;   over unsigned char values *)
Fixpoint bloop (fuel : nat) (m : memory) (pa pe : ptr) (size i : Z) {struct fuel} : cres Z Z :=
  match fuel with O => CMem.NoFuel | S fuel =>
    if z2b (c_lt i size) then
      match rdp m pa i with None => CMem.Oob | Some x =>
        match rdp m pe i with None => CMem.Oob | Some y =>
          if z2b (c_eq (uchar x) (uchar y)) then bloop fuel m pa pe size (cw 64 false (i + 1)) else Go i
        end
      end
    else Go i
  end.

Lemma Binary_loop_is fuel0 m pa pe size : forall fuel i,
  src_scan_Binary_loop1 fuel0 fuel m pe pa size i = bloop fuel m pa pe size i.
Proof.
  induction fuel as [|fuel IH]; intro i; [reflexivity|].
  cbn [src_scan_Binary_loop1 bloop]. unfold rdp.
  destruct (z2b (c_lt i size)); [|reflexivity].
  destruct (padd m pa i) as [qa|]; [|reflexivity]. destruct (load m qa) as [x|]; [|reflexivity].
  destruct (padd m pe i) as [qe|]; [|reflexivity]. destruct (load m qe) as [y|]; [|reflexivity].
  destruct (z2b (c_eq (uchar x) (uchar y))); [|reflexivity]. apply IH.
Qed.

Lemma bloop_run m pa pe size : size < M64 ->
  (Z.to_nat size <= length (view m pa))%nat -> (Z.to_nat size <= length (view m pe))%nat ->
  forall d k fuel, (k + d = Z.to_nat size)%nat ->
  (first_diff (firstn d (skipn k (view m pa))) (firstn d (skipn k (view m pe))) < fuel)%nat ->
  bloop fuel m pa pe size (Z.of_nat k) =
    Go (Z.of_nat (k + first_diff (firstn d (skipn k (view m pa))) (firstn d (skipn k (view m pe))))).
Proof.
  intros Hs La Le. induction d as [|d IH]; intros k fuel Hk Hf; (destruct fuel as [|fuel]; [lia|]); cbn [bloop];
    unfold c_lt; rewrite b2z_z2b.
  - replace (Z.of_nat k <? size) with false by (symmetry; apply Z.ltb_ge; lia).
    cbn [firstn first_diff]. rewrite Nat.add_0_r. reflexivity.
  - replace (Z.of_nat k <? size) with true by (symmetry; apply Z.ltb_lt; lia).
    destruct (skipn_cons_ex (view m pa) k ltac:(lia)) as [x Hx].
    destruct (skipn_cons_ex (view m pe) k ltac:(lia)) as [y Hy].
    rewrite (rdp_skipn _ _ _ _ _ Hx), (rdp_skipn _ _ _ _ _ Hy).
    unfold c_eq. rewrite b2z_z2b, uchar_inj.
    revert Hf. rewrite Hx, Hy. cbn [firstn first_diff].
    destruct (N.eqb x y); intro Hf.
    + unfold M64 in Hs. rewrite cw_u_small by lia.
      replace (Z.of_nat k + 1) with (Z.of_nat (S k)) by lia.
      rewrite (IH (S k) fuel) by lia. f_equal. f_equal. lia.
    + rewrite Nat.add_0_r. reflexivity.
Qed.

(* a = the cells the actual pointer sees, e = those of the expected pointer, each at least `size` long: the scan returns the
   first difference of the first `size` bytes (= size when they agree); the hypotheses allow blocks of EXACTLY size bytes,
   where an access at an index >= size is refused: only indices < size are read *)
Theorem src_scan_Binary_spec fuel m fs pa pe size a e : view m pa = a -> view m pe = e -> size < M64 ->
  (Z.to_nat size <= length a)%nat -> (Z.to_nat size <= length e)%nat ->
  (first_diff (firstn (Z.to_nat size) a) (firstn (Z.to_nat size) e) < fuel)%nat ->
  src_scan_Binary fuel m pe pa size fs = FOk (Z.of_nat (first_diff (firstn (Z.to_nat size) a) (firstn (Z.to_nat size) e))).
Proof.
  intros Va Ve Hs La Le Hf. subst a e. unfold src_scan_Binary. rewrite Binary_loop_is.
  pose proof (bloop_run m pa pe size Hs La Le (Z.to_nat size) 0%nat fuel eq_refl Hf) as G.
  change (Z.of_nat 0) with 0 in G. rewrite G. reflexivity.
Qed.

Corollary src_scan_Binary_equal fuel m fs pa pe size a e : view m pa = a -> view m pe = e -> size < M64 ->
  (Z.to_nat size <= length a)%nat -> (Z.to_nat size <= length e)%nat ->
  firstn (Z.to_nat size) a = firstn (Z.to_nat size) e -> (Z.to_nat size < fuel)%nat ->
  src_scan_Binary fuel m pe pa size fs = FOk (Z.of_nat (Z.to_nat size)).
Proof.
  intros Va Ve Hs La Le Heq Hf.
  assert (D : first_diff (firstn (Z.to_nat size) a) (firstn (Z.to_nat size) e) = Z.to_nat size).
  { rewrite <- Heq, first_diff_refl, firstn_length. lia. }
  rewrite (src_scan_Binary_spec fuel m fs pa pe size a e Va Ve Hs La Le) by (rewrite D; exact Hf).
  rewrite D. reflexivity.
Qed.

(* ================================================================== (4) memory safety *)
(* no scan leaves the blocks of its operands *)
Corollary C14_string_scans_no_oob fuel m fs pa pe a ra e re : mem_ok m ->
  cstr_at m pa a ra -> cstr_at m pe e re -> (length a < fuel)%nat -> Z.of_nat (length a) < M64 ->
  src_scan_CheckEqual_raw fuel m fs pa pe <> FOob /\ src_scan_CheckEqual_printable fuel m fs pa pe <> FOob /\
  src_scan_StringEqual_raw fuel m pe pa fs <> FOob /\ src_scan_StringEqual_printable fuel m fs pa pe <> FOob /\
  src_scan_NoCase_raw fuel m pe pa fs <> FOob /\ src_scan_NoCase_printable fuel m fs pa pe <> FOob.
Proof.
  intros Hm Ca Ce Hf Hl.
  destruct (scan_hyps_of_length_id a e fuel Hf Hl) as [F1 L1].
  destruct (scan_hyps_of_length to_lower a e fuel Hf Hl) as [F2 L2].
  rewrite (src_scan_CheckEqual_raw_spec fuel m fs pa pe a ra e re Hm Ca Ce F1 L1).
  rewrite (src_scan_CheckEqual_printable_spec fuel m fs pa pe a ra e re Hm Ca Ce F1 L1).
  rewrite (src_scan_StringEqual_raw_spec fuel m fs pa pe a ra e re Hm Ca Ce F1 L1).
  rewrite (src_scan_StringEqual_printable_spec fuel m fs pa pe a ra e re Hm Ca Ce F1 L1).
  rewrite (src_scan_NoCase_raw_spec fuel m fs pa pe a ra e re Hm Ca Ce F2 L2).
  rewrite (src_scan_NoCase_printable_spec fuel m fs pa pe a ra e re Hm Ca Ce F2 L2).
  repeat split; discriminate.
Qed.

Corollary C14_binary_scan_no_oob fuel m fs pa pe size : size < M64 ->
  (Z.to_nat size <= length (view m pa))%nat -> (Z.to_nat size <= length (view m pe))%nat -> (Z.to_nat size < fuel)%nat ->
  src_scan_Binary fuel m pe pa size fs <> FOob.
Proof.
  intros Hs La Le Hf.
  rewrite (src_scan_Binary_spec fuel m fs pa pe size _ _ eq_refl eq_refl Hs La Le); [discriminate|].
  destruct (C14_Scan.first_diff_le (firstn (Z.to_nat size) (view m pa)) (firstn (Z.to_nat size) (view m pe))) as [A _].
  rewrite firstn_length in A. lia.
Qed.

(* the case the defect repaired by commit 3aa5bba got wrong: operands (or printable forms) that do NOT differ.  Both blocks
   END at their terminator (view = a ++ [0]: the index length a is the last one the memory model lets a scan read, see
   rdp_beyond / src_at_oob), and every scan stops there with the length as its result *)
Corollary C14_equal_scans_stop_at_terminator fuel m fs pa pe a : mem_ok m -> NN a ->
  view m pa = a ++ [0%N] -> view m pe = a ++ [0%N] -> (length a < fuel)%nat -> Z.of_nat (length a) < M64 ->
  src_scan_CheckEqual_raw fuel m fs pa pe = FOk (Z.of_nat (length a)) /\
  src_scan_CheckEqual_printable fuel m fs pa pe = FOk (Z.of_nat (length a)) /\
  src_scan_StringEqual_raw fuel m pe pa fs = FOk (Z.of_nat (length a)) /\
  src_scan_StringEqual_printable fuel m fs pa pe = FOk (Z.of_nat (length a)) /\
  src_scan_NoCase_raw fuel m pe pa fs = FOk (Z.of_nat (length a)) /\
  src_scan_NoCase_printable fuel m fs pa pe = FOk (Z.of_nat (length a)).
Proof.
  intros Hm Na Va Ve Hf Hl.
  assert (Ca : cstr_at m pa a []) by (split; assumption).
  assert (Ce : cstr_at m pe a []) by (split; assumption).
  assert (D1 : first_diff a a = length a) by apply first_diff_refl.
  assert (D2 : first_diff (map to_lower a) (map to_lower a) = length a) by (rewrite first_diff_refl; apply map_length).
  rewrite (src_scan_CheckEqual_raw_spec fuel m fs pa pe a [] a [] Hm Ca Ce) by (rewrite D1; assumption).
  rewrite (src_scan_CheckEqual_printable_spec fuel m fs pa pe a [] a [] Hm Ca Ce) by (rewrite D1; assumption).
  rewrite (src_scan_StringEqual_raw_spec fuel m fs pa pe a [] a [] Hm Ca Ce) by (rewrite D1; assumption).
  rewrite (src_scan_StringEqual_printable_spec fuel m fs pa pe a [] a [] Hm Ca Ce) by (rewrite D1; assumption).
  rewrite (src_scan_NoCase_raw_spec fuel m fs pa pe a [] a [] Hm Ca Ce) by (rewrite D2; assumption).
  rewrite (src_scan_NoCase_printable_spec fuel m fs pa pe a [] a [] Hm Ca Ce) by (rewrite D2; assumption).
  rewrite D1, D2. repeat split; reflexivity.
Qed.

(* ... and in such blocks an access one position further is refused in both strings: with the corollary above, the largest
   index a scan of equal strings reads is length a *)
Lemma C14_read_after_terminator_refused fuel m p a k : view m p = a ++ [0%N] -> Z.of_nat (length a) < k ->
  rdp m p k = None /\ src_at fuel m p k = FOob.
Proof.
  intros Hv Hk.
  assert (R : rdp m p k = None).
  { destruct (a ++ [0%N]) as [|c r] eqn:E; [destruct a; discriminate E|].
    apply (rdp_beyond m p k c r Hv); [lia|]. rewrite <- E, app_length. cbn [length]. lia. }
  split; [exact R|]. rewrite src_at_rdp, R. reflexivity.
Qed.

(* strings that differ only in case: the two scans that ignore case stop at the terminator as well *)
Corollary C14_nocase_equal_stop_at_terminator fuel m fs pa pe a e : mem_ok m -> NN a -> NN e ->
  map to_lower a = map to_lower e ->
  view m pa = a ++ [0%N] -> view m pe = e ++ [0%N] -> (length a < fuel)%nat -> Z.of_nat (length a) < M64 ->
  src_scan_NoCase_raw fuel m pe pa fs = FOk (Z.of_nat (length a)) /\
  src_scan_NoCase_printable fuel m fs pa pe = FOk (Z.of_nat (length a)).
Proof.
  intros Hm Na Ne Heq Va Ve Hf Hl.
  assert (Ca : cstr_at m pa a []) by (split; assumption).
  assert (Ce : cstr_at m pe e []) by (split; assumption).
  assert (D : first_diff (map to_lower a) (map to_lower e) = length a) by (rewrite <- Heq, first_diff_refl; apply map_length).
  rewrite (src_scan_NoCase_raw_spec fuel m fs pa pe a [] e [] Hm Ca Ce) by (rewrite D; assumption).
  rewrite (src_scan_NoCase_printable_spec fuel m fs pa pe a [] e [] Hm Ca Ce) by (rewrite D; assumption).
  rewrite D. split; reflexivity.
Qed.

(* one string a proper prefix of the other: the scan stops at the terminator of the shorter one *)
Lemma first_diff_prefix_l a t : first_diff a (a ++ t) = length a.
Proof. induction a as [|x a IH]; cbn; [destruct t; reflexivity|]. rewrite N.eqb_refl, IH. reflexivity. Qed.
Lemma first_diff_prefix_r e t : first_diff (e ++ t) e = length e.
Proof. induction e as [|x e IH]; cbn; [destruct t; reflexivity|]. rewrite N.eqb_refl, IH. reflexivity. Qed.

(* binary: blocks of EXACTLY size bytes that agree; the result is size and no index >= size is read *)
Corollary C14_binary_equal_tight fuel m fs pa pe size : 0 <= size < M64 ->
  length (view m pa) = Z.to_nat size -> view m pe = view m pa -> (Z.to_nat size < fuel)%nat ->
  src_scan_Binary fuel m pe pa size fs = FOk size.
Proof.
  intros Hs La Ve Hf.
  rewrite (src_scan_Binary_equal fuel m fs pa pe size _ _ eq_refl eq_refl); try lia.
  - f_equal. lia.
  - rewrite Ve. lia.
  - rewrite Ve. reflexivity.
Qed.

(* ================================================================== examples on a concrete memory *)
(* block 0 "hello", 1 "help", 2 "hello" (a second copy), 3 "hel", 4 "HeLLo", 5 / 6 binary blocks WITHOUT terminator;
   every string block ends at its terminator *)
Definition ex_mem : memory :=
  [ [104;101;108;108;111;0]; [104;101;108;112;0]; [104;101;108;108;111;0]; [104;101;108;0]; [72;101;76;76;111;0];
    [1;2;3;4]; [1;2;3;9] ]%N.
Definition exP (b : nat) : ptr := Ptr b 0.

(* different strings: "hello" (actual) against "help" (expected): position 3 *)
Example ex_CheckEqual_raw_diff : src_scan_CheckEqual_raw 10 ex_mem 77 (exP 0) (exP 1) = FOk 3.
Proof. vm_compute. reflexivity. Qed.
Example ex_CheckEqual_printable_diff : src_scan_CheckEqual_printable 10 ex_mem 77 (exP 0) (exP 1) = FOk 3.
Proof. vm_compute. reflexivity. Qed.
Example ex_StringEqual_raw_diff : src_scan_StringEqual_raw 10 ex_mem (exP 1) (exP 0) 77 = FOk 3.
Proof. vm_compute. reflexivity. Qed.
Example ex_StringEqual_printable_diff : src_scan_StringEqual_printable 10 ex_mem 77 (exP 0) (exP 1) = FOk 3.
Proof. vm_compute. reflexivity. Qed.
(* equal strings in two blocks that end at the terminator: the length, no Oob *)
Example ex_CheckEqual_raw_equal : src_scan_CheckEqual_raw 10 ex_mem 0 (exP 0) (exP 2) = FOk 5.
Proof. vm_compute. reflexivity. Qed.
Example ex_StringEqual_raw_equal : src_scan_StringEqual_raw 10 ex_mem (exP 2) (exP 0) 0 = FOk 5.
Proof. vm_compute. reflexivity. Qed.
Example ex_StringEqual_printable_equal : src_scan_StringEqual_printable 10 ex_mem 0 (exP 0) (exP 2) = FOk 5.
Proof. vm_compute. reflexivity. Qed.
Example ex_after_terminator_refused : src_at 10 ex_mem (exP 0) 5 = FOk 0 /\ src_at 10 ex_mem (exP 0) 6 = FOob.
Proof. vm_compute. split; reflexivity. Qed.
(* one a proper prefix of the other, both ways: the shorter length *)
Example ex_prefix_actual_shorter : src_scan_StringEqual_raw 10 ex_mem (exP 0) (exP 3) 0 = FOk 3.
Proof. vm_compute. reflexivity. Qed.
Example ex_prefix_expected_shorter : src_scan_CheckEqual_raw 10 ex_mem 0 (exP 0) (exP 3) = FOk 3.
Proof. vm_compute. reflexivity. Qed.
(* ignoring case: "HeLLo" against "hello" agree up to the terminator, against "help" up to position 3;
   the case-sensitive scan of the same pair stops at 0 *)
Example ex_NoCase_raw_equal : src_scan_NoCase_raw 10 ex_mem (exP 0) (exP 4) 0 = FOk 5.
Proof. vm_compute. reflexivity. Qed.
Example ex_NoCase_printable_equal : src_scan_NoCase_printable 10 ex_mem 0 (exP 4) (exP 0) = FOk 5.
Proof. vm_compute. reflexivity. Qed.
Example ex_NoCase_raw_diff : src_scan_NoCase_raw 10 ex_mem (exP 1) (exP 4) 0 = FOk 3.
Proof. vm_compute. reflexivity. Qed.
Example ex_NoCase_vs_case : src_scan_StringEqual_raw 10 ex_mem (exP 0) (exP 4) 0 = FOk 0.
Proof. vm_compute. reflexivity. Qed.
(* binary: equal over size = 3 (result size), different at index 3 when size = 4; blocks of exactly 4 bytes;
   a size beyond the blocks is refused by the memory model when the bytes agree that far *)
Example ex_Binary_equal_over_size : src_scan_Binary 10 ex_mem (exP 6) (exP 5) 3 77 = FOk 3.
Proof. vm_compute. reflexivity. Qed.
Example ex_Binary_diff : src_scan_Binary 10 ex_mem (exP 6) (exP 5) 4 77 = FOk 3.
Proof. vm_compute. reflexivity. Qed.
Example ex_Binary_same_block_tight : src_scan_Binary 10 ex_mem (exP 5) (exP 5) 4 0 = FOk 4.
Proof. vm_compute. reflexivity. Qed.
Example ex_Binary_size_too_large : src_scan_Binary 10 ex_mem (exP 5) (exP 5) 5 0 = FOob.
Proof. vm_compute. reflexivity. Qed.
(* the theorems applied to the concrete memory (their hypotheses are satisfiable) *)
Example ex_theorem_applies : src_scan_CheckEqual_raw 10 ex_mem 0 (exP 0) (exP 1) = FOk (Z.of_nat (first_diff [104;101;108;108;111] [104;101;108;112])%N).
Proof.
  apply (src_scan_CheckEqual_raw_spec 10 ex_mem 0 (exP 0) (exP 1) [104;101;108;108;111]%N [] [104;101;108;112]%N []).
  - repeat constructor.
  - split; [reflexivity | repeat constructor; discriminate].
  - split; [reflexivity | repeat constructor; discriminate].
  - vm_compute. lia.
  - vm_compute. reflexivity.
Qed.
