(* C19 -- the C mocking interface (src/CppUTestExt/MockSupport_c.cpp, include/CppUTestExt/MockSupport_c.h) as a wiring model.

   A C scenario is a flat list of calls through the three function tables (plus the selection of the mock support).  Two
   interpreters turn it into the sequence of C++-level operations it performs:
     c_trace : through the REGENERATED tables (gen/Gen_C19.v): field -> position in the struct -> entry of the positional
               initialiser -> body of that forwarder (receiver = one of the three static pointers currentMockSupport /
               expectedCall / actualCall, C++ method, argument expressions, result wrapper, default handling);
     x_trace : the direct C++ translation: what the field name and its C signature denote (`denote`, written here by hand from the
               header's naming scheme: with<T>Parameters = withParameter(name, T), andReturn<T>Value = andReturnValue(T),
               return<T>ValueOrDefault = hasReturnValue() ? <getter of T> : default, bool = (int != 0), ...), with the local pointers
               a C++ test would hold.
   A `machine` gives the C++ operations a semantics (state, failure, returned value, output buffers); it is a parameter: the
   equivalence holds for every machine.  What the caller sees of a result differs per interface (C: after the wrapper of the
   forwarder -- `? 1 : 0`, the function-pointer cast, getMockValueCFromNamedValue, regenerated as well; C++: the value itself):
   observe_c / observe_x bring both to one canonical form.
   Custom types: installComparator / installCopier take their functions from a small pool (by index; the harness has 2 equality
   functions, 3 to-string functions, 2 copiers), so that several types can share some functions and differ in others.  The C layer
   keeps two more statics, the lists of adaptor nodes (comparatorList_, copierList_): `c_installer` is installComparator_c /
   installCopier_c (a fresh node per call, the new head is what the C++ repository receives), `x_installer` the C++ user who hands
   over an object with the given functions; XInstallCmp / XInstallCopy record the functions of the object that was installed.
   No proofs in this file. *)
From Coq Require Import ZArith NArith Bool List.
From CppUVerif Require Import lib.CInt lib.Str C09_Model C19_Table gen.Gen_C19.
Import ListNotations.
Local Open Scope name_scope.

(* ================================================================ resolved forwarders *)
Inductive recv := RSup | RExp | RAct.            (* currentMockSupport / expectedCall / actualCall ; m / e / a of a C++ test *)
Inductive sem :=
| SChain (r : recv) (method : name) (args : list aexp) (target : recv)    (* target := &r->method(args); the table of `target` is returned *)
| SVoid (r : recv) (method : name) (args : list aexp)
| SRet (w : rwrap) (r : recv) (method : name) (args : list aexp)
| SOrDefault (rh rg : recv) (getter : name) (w : rwrap) (dflt : nat)     (* rh->hasReturnValue() ? w(rg->getter()) : p_dflt *)
| SSelect (scope : aexp) (rep : name)     (* currentMockSupport = &mock(scope, rep) *)
| SInstallCmp | SInstallCopy | SRemoveAll
| SBad.

Definition recv_of (s : name) : option recv :=
  if s =? "currentMockSupport" then Some RSup else if s =? "expectedCall" then Some RExp else if s =? "actualCall" then Some RAct else None.
Definition table_of (s : name) : option recv :=
  if s =? "gMockSupport" then Some RSup else if s =? "gExpectedCall" then Some RExp else if s =? "gActualCall" then Some RAct else None.
Definition recv_eqb (a b : recv) : bool := match a, b with RSup, RSup | RExp, RExp | RAct, RAct => true | _, _ => false end.

(* the C++ ...OrDefault methods: MockSupport::return<T>ValueOrDefault(d) = hasReturnValue() ? <t>ReturnValue() : d  (MockSupport.cpp),
   MockActualCall::return<T>ValueOrDefault(d) = hasReturnValue() ? return<T>Value() : d  (MockActualCall.cpp) *)
Definition type_names : list (name * name) :=
  [("Bool", "bool"); ("Int", "int"); ("UnsignedInt", "unsignedInt"); ("LongInt", "longInt"); ("UnsignedLongInt", "unsignedLongInt");
   ("LongLongInt", "longLongInt"); ("UnsignedLongLongInt", "unsignedLongLongInt"); ("String", "string"); ("Double", "double");
   ("Pointer", "pointer"); ("ConstPointer", "constPointer"); ("FunctionPointer", "functionPointer")].
Definition getter_name (r : recv) (t : name * name) : name :=
  match r with RSup => snd t ++ "ReturnValue" | _ => "return" ++ fst t ++ "Value" end.
Definition or_default_name (t : name * name) : name := "return" ++ fst t ++ "ValueOrDefault".
Definition norm_ret (w : rwrap) (r : recv) (method : name) (args : list aexp) : sem :=
  match find (fun t => or_default_name t =? method) type_names, args with
  | Some t, [AParam i] | Some t, [ACastFun i] => SOrDefault r r (getter_name r t) w i
  | _, _ => SRet w r method args
  end.

Definition find_fdef (fs : list fdef) (n : name) : option fdef := find (fun f => f_name f =? n) fs.

Definition resolve_in (fs : list fdef) (n : name) : sem :=
  match find_fdef fs n with
  | None => SBad
  | Some f =>
    match f_body f with
    | BChain t r m args tb =>
        match recv_of t, recv_of r, table_of tb with
        | Some t', Some r', Some tb' => if recv_eqb t' tb' then SChain r' m args t' else SBad
        | _, _, _ => SBad
        end
    | BVoid r m args => match recv_of r with Some r' => SVoid r' m args | None => SBad end
    | BRet w r m args => match recv_of r with Some r' => norm_ret w r' m args | None => SBad end
    | BOrDefault h d g =>
        match option_map f_body (find_fdef fs h), option_map f_body (find_fdef fs g) with
        | Some (BRet WNone rh mh []), Some (BRet w rg mg []) =>
            match recv_of rh, recv_of rg with
            | Some rh', Some rg' => if mh =? "hasReturnValue" then SOrDefault rh' rg' mg w d else SBad
            | _, _ => SBad
            end
        | _, _ => SBad
        end
    | BSelect a r => SSelect a r
    | BInstallCmp => SInstallCmp | BInstallCopy => SInstallCopy | BRemoveAll => SRemoveAll
    | BOther _ => SBad
    end
  end.
Definition resolve : name -> sem := resolve_in forwarders.

(* ================================================================ what the field names and signatures denote *)
Inductive tbl := TblS | TblE | TblA.
Record tyrow := { ty_name : name * name; ty_c : cty; ty_arg : nat -> aexp; ty_wrap : rwrap }.
Definition row (u l : name) (c : cty) (a : nat -> aexp) (w : rwrap) : tyrow := {| ty_name := (u, l); ty_c := c; ty_arg := a; ty_wrap := w |}.
Definition ty_rows : list tyrow :=
  [ row "Bool" "bool" (TI TInt) ANonZero WBool01; row "Int" "int" (TI TInt) AParam WNone; row "UnsignedInt" "unsignedInt" (TI TUInt) AParam WNone;
    row "LongInt" "longInt" (TI TLong) AParam WNone; row "UnsignedLongInt" "unsignedLongInt" (TI TULong) AParam WNone;
    row "LongLongInt" "longLongInt" (TI TLLong) AParam WNone; row "UnsignedLongLongInt" "unsignedLongLongInt" (TI TULLong) AParam WNone;
    row "Double" "double" TDouble AParam WNone; row "String" "string" TCharP AParam WNone; row "Pointer" "pointer" TVoidP AParam WNone;
    row "ConstPointer" "constPointer" TCVoidP AParam WNone; row "FunctionPointer" "functionPointer" TFunP ACastFun WFunCast ].
Definition setter_rows : list tyrow :=
  filter (fun t => existsb (name_eqb (fst (ty_name t))) ["Bool"; "Int"; "UnsignedInt"; "String"; "Double"; "Pointer"; "ConstPointer"; "FunctionPointer"]) ty_rows.

Definition tbl_recv (t : tbl) : recv := match t with TblS => RSup | TblE => RExp | TblA => RAct end.
Definition tbl_cty (r : recv) : cty := match r with RSup => TSupTbl | RExp => TExpTbl | RAct => TActTbl end.
Definition P (l : list nat) : list aexp := map AParam l.

(* parameters shared by expected and actual calls *)
Definition den_params (r : recv) : list (name * (csig * sem)) :=
  map (fun t => ("with" ++ fst (ty_name t) ++ "Para" ++ "meters", ((tbl_cty r, [TCharP; ty_c t]), SChain r "withParameter" [AParam 0; ty_arg t 1] r))) ty_rows
  ++ [ ("withMemoryBufferParameter", ((tbl_cty r, [TCharP; TUCharP; TSize]), SChain r "withParameter" (P [0; 1; 2]) r));
       ("withParameterOfType", ((tbl_cty r, [TCharP; TCharP; TCVoidP]), SChain r "withParameterOfType" (P [0; 1; 2]) r)) ]%nat.
(* readers of the return value: same field names in MockActualCall_c and MockSupport_c *)
Definition den_readers (r : recv) : list (name * (csig * sem)) :=
  [ ("hasReturnValue", ((TI TInt, []), SRet WNone r "hasReturnValue" [])); ("returnValue", ((TValueC, []), SRet WValueC r "returnValue" [])) ]
  ++ flat_map (fun t => [ (snd (ty_name t) ++ "ReturnValue", ((ty_c t, []), SRet (ty_wrap t) r (getter_name r (ty_name t)) []));
                          (or_default_name (ty_name t), ((ty_c t, [ty_c t]), SOrDefault r r (getter_name r (ty_name t)) (ty_wrap t) 0)) ]) ty_rows.
Definition den_void (n : name) : name * (csig * sem) := (n, ((TVoid, []), SVoid RSup n [])).

Definition denotations (t : tbl) : list (name * (csig * sem)) :=
  match t with
  | TblE => den_params RExp ++
      [ ("withDoubleParametersAndTolerance", ((TExpTbl, [TCharP; TDouble; TDouble]), SChain RExp "withParameter" (P [0; 1; 2]) RExp));
        ("withOutputParameterReturning", ((TExpTbl, [TCharP; TCVoidP; TSize]), SChain RExp "withOutputParameterReturning" (P [0; 1; 2]) RExp));
        ("withOutputParameterOfTypeReturning", ((TExpTbl, [TCharP; TCharP; TCVoidP]), SChain RExp "withOutputParameterOfTypeReturning" (P [0; 1; 2]) RExp));
        ("withUnmodifiedOutputParameter", ((TExpTbl, [TCharP]), SChain RExp "withUnmodifiedOutputParameter" (P [0]) RExp));
        ("ignoreOtherParameters", ((TExpTbl, []), SChain RExp "ignoreOtherParameters" [] RExp)) ]%nat
      ++ map (fun t => ("andReturn" ++ fst (ty_name t) ++ "Value", ((TExpTbl, [ty_c t]), SChain RExp "andReturnValue" [ty_arg t 0%nat] RExp))) ty_rows
  | TblA => den_params RAct ++
      [ ("withOutputParameter", ((TActTbl, [TCharP; TVoidP]), SChain RAct "withOutputParameter" (P [0; 1]) RAct));
        ("withOutputParameterOfType", ((TActTbl, [TCharP; TCharP; TVoidP]), SChain RAct "withOutputParameterOfType" (P [0; 1; 2]) RAct)) ]%nat
      ++ den_readers RAct
  | TblS =>
      [ den_void "strictOrder";
        ("expectOneCall", ((TExpTbl, [TCharP]), SChain RSup "expectOneCall" (P [0]) RExp));
        ("expectNoCall", ((TVoid, [TCharP]), SVoid RSup "expectNoCall" (P [0])));
        ("expectNCalls", ((TExpTbl, [TI TUInt; TCharP]), SChain RSup "expectNCalls" (P [0; 1]) RExp));
        ("actualCall", ((TActTbl, [TCharP]), SChain RSup "actualCall" (P [0]) RAct)) ]%nat
      ++ den_readers RSup
      ++ map (fun t => ("set" ++ fst (ty_name t) ++ "Data", ((TVoid, [TCharP; ty_c t]), SVoid RSup "setData" [AParam 0; ty_arg t 1]))) setter_rows
      ++ [ ("setDataObject", ((TVoid, [TCharP; TCharP; TVoidP]), SVoid RSup "setDataObject" (P [0; 1; 2])));
           ("setDataConstObject", ((TVoid, [TCharP; TCharP; TCVoidP]), SVoid RSup "setDataConstObject" (P [0; 1; 2])));
           ("getData", ((TValueC, [TCharP]), SRet WValueC RSup "getData" (P [0])));
           den_void "disable"; den_void "enable"; den_void "ignoreOtherCalls"; den_void "checkExpectations";
           ("expectedCallsLeft", ((TI TInt, []), SRet WNone RSup "expectedCallsLeft" []));
           den_void "clear";
           ("crashOnFailure", ((TVoid, [TI TUInt]), SVoid RSup "crashOnFailure" [ANonZero 0]));
           ("installComparator", ((TVoid, [TCharP; TEqFn; TStrFn]), SInstallCmp));
           ("installCopier", ((TVoid, [TCharP; TCopyFn]), SInstallCopy));
           ("removeAllComparatorsAndCopiers", ((TVoid, []), SRemoveAll)) ]%nat
  end.
Definition denote (t : tbl) (field : name) : option (csig * sem) :=
  option_map snd (find (fun d => fst d =? field) (denotations t)).

(* the regenerated tables of one struct *)
Definition fields_of (t : tbl) : list (name * csig) := match t with TblS => support_fields | TblE => expected_fields | TblA => actual_fields end.
Definition init_of (t : tbl) : list name := match t with TblS => support_init | TblE => expected_init | TblA => actual_init end.
(* the positional initialiser: entry i of the initialiser is stored in field i of the struct *)
Definition slots (t : tbl) : list ((name * csig) * name) := combine (fields_of t) (init_of t).
Definition wired_entries (t : tbl) : list (name * (csig * sem)) :=
  map (fun e => (fst (fst e), (snd (fst e), resolve (snd e)))) (slots t).
(* calling t->field(...) in C: the function stored in that field *)
Definition wired (t : tbl) (field : name) : option (csig * sem) :=
  option_map snd (find (fun d => fst d =? field) (wired_entries t)).

(* ================================================================ scenarios *)
Inductive arg := AZ (z : Z) | AB (b : option (list N)).
Inductive op := OSelect (scope : option (list N)) | OCall (t : tbl) (field : name) (args : list arg)
              | ONewTest.     (* the test ends here and the next one begins: the mock state and the pointers the user holds are kept *)

(* C values bound to the parameters of a signature; generic arguments are consumed left to right: byte strings by pointers to
   characters / buffers / objects, numbers by integers, doubles (bit pattern) and the remaining pointers; a size_t is the length
   of the preceding buffer; output buffers are supplied by the harness; a comparator/copier function is a number: its index in
   the harness's pool of functions of that type *)
Inductive cval := CNum (c : cty) (z : Z) | CBytes (c : cty) (b : option (list N)) | CSize (n : N) | COut | CFn (c : cty) (i : Z).
Definition fn_pool (c : cty) : Z := match c with TEqFn => 2 | TStrFn => 3 | TCopyFn => 2 | _ => 0 end.
Definition obj_methods := ["withParameterOfType"; "withOutputParameterOfTypeReturning"; "withOutputParameterReturning"].
Definition out_methods := ["withOutputParameter"; "withOutputParameterOfType"].
Inductive bkind := KBytes | KNum | KSize | KOut | KFn.
Definition bkind_of (field : name) (c : cty) : bkind :=
  match c with
  | TCharP | TUCharP => KBytes
  | TCVoidP => if existsb (name_eqb field) obj_methods then KBytes else KNum
  | TVoidP => if existsb (name_eqb field) out_methods then KOut else KNum
  | TSize => KSize
  | TEqFn | TStrFn | TCopyFn => KFn
  | _ => KNum
  end.
Definition num_ok (c : cty) (z : Z) : bool :=
  match c with TI t => in_range t z | _ => (0 <=? z)%Z && (z <? 18446744073709551616)%Z end.
Fixpoint bind (field : name) (ps : list cty) (args : list arg) (last : N) : option (list cval) :=
  match ps with
  | [] => match args with [] => Some [] | _ => None end
  | c :: pr =>
      match bkind_of field c with
      | KBytes => match args with
                  | AB b :: ar => option_map (cons (CBytes c b)) (bind field pr ar (match b with Some l => N.of_nat (List.length l) | None => 0%N end))
                  | _ => None end
      | KNum => match args with
                | AZ z :: ar => if num_ok c z then option_map (cons (CNum c z)) (bind field pr ar last) else None
                | _ => None end
      | KSize => option_map (cons (CSize last)) (bind field pr args last)
      | KOut => option_map (cons COut) (bind field pr args last)
      | KFn => match args with
               | AZ z :: ar => if (0 <=? z)%Z && (z <? fn_pool c)%Z then option_map (cons (CFn c z)) (bind field pr ar last) else None
               | _ => None end
      end
  end.

(* evaluated arguments of the C++ call *)
Inductive xarg := XPass (v : cval) | XBool (b : bool) | XFun (v : cval) | XCast (ty : name) (v : cval) | XLit (s : name) | XMissing.
Definition eval_arg (vs : list cval) (a : aexp) : xarg :=
  match a with
  | AParam i => match nth_error vs i with Some v => XPass v | None => XMissing end
  | ANonZero i => match nth_error vs i with Some (CNum _ z) => XBool (negb (z =? 0)%Z) | _ => XMissing end
  | ACastFun i => match nth_error vs i with Some v => XFun v | None => XMissing end
  | ACast ty i => match nth_error vs i with Some v => XCast ty v | None => XMissing end
  | ALit s => XLit s
  end.

(* objects are named by the op that returned them; the global support by None, a scope by its name *)
Inductive handle := HSup (scope : option (list N)) | HExp (k : nat) | HAct (k : nat) | HNone.
Inductive xop :=
| XSelect (scope : option (list N))
| XChain (h : handle) (method : name) (args : list xarg) (target : recv)
| XVoid (h : handle) (method : name) (args : list xarg)
| XRet (w : rwrap) (h : handle) (method : name) (args : list xarg)
| XOrDefault (hh hg : handle) (getter : name) (w : rwrap) (dflt : xarg)
| XInstallCmp (h : handle) (tyname : xarg) (equal to_string : xarg)    (* h->installComparator(tyname, <object whose isEqual is `equal` and whose valueToString is `to_string`>) *)
| XInstallCopy (h : handle) (tyname : xarg) (copier : xarg)            (* h->installCopier(tyname, <object whose copy is `copier`>) *)
| XRemoveAll (h : handle)
| XNewTest
| XStuck.

(* the three pointers: statics of MockSupport_c.cpp for the C interface, locals of the test for the C++ interface *)
Record ptrs := { p_sup : handle; p_exp : handle; p_act : handle }.
Definition ptrs0 : ptrs := {| p_sup := HNone; p_exp := HNone; p_act := HNone |}.
Definition get_ptr (p : ptrs) (r : recv) : handle := match r with RSup => p_sup p | RExp => p_exp p | RAct => p_act p end.
Definition set_ptr (p : ptrs) (r : recv) (h : handle) : ptrs :=
  match r with
  | RSup => {| p_sup := h; p_exp := p_exp p; p_act := p_act p |}
  | RExp => {| p_sup := p_sup p; p_exp := h; p_act := p_act p |}
  | RAct => {| p_sup := p_sup p; p_exp := p_exp p; p_act := h |}
  end.
Definition new_handle (r : recv) (k : nat) : handle := match r with RExp => HExp k | RAct => HAct k | RSup => HNone end.

(* the comparator / copier objects handed to the C++ repository.  An object is described by the functions it runs: the adaptors
   (adaptor_bodies, regenerated and compared verbatim in C19_Proofs.adaptors_ok) are isEqual = equal_(a, b) != 0,
   valueToString = SimpleString(toString_(a)), copy = copier_(dst, src).
   C interface: two more statics, the lists of adaptor nodes owned by the C layer; C++ interface: the user's own objects. *)
Record cmp_node := { n_equal : xarg; n_to_string : xarg }.       (* MockCFunctionComparatorNode: equal_, toString_ (next_ = the list) *)
Record adaptors := { a_cmps : list cmp_node; a_cps : list xarg }. (* comparatorList_, copierList_ (MockCFunctionCopierNode: copier_) *)
Definition adaptors0 : adaptors := {| a_cmps := []; a_cps := [] |}.
Record installer := {
  i_cmp : list cmp_node -> xarg -> xarg -> list cmp_node * cmp_node;    (* list, isEqual, valueToString -> new list, the object installed *)
  i_copy : list xarg -> xarg -> list xarg * xarg }.
(* installComparator_c: comparatorList_ = new MockCFunctionComparatorNode(comparatorList_, isEqual, valueToString);
                        currentMockSupport->installComparator(typeName, *comparatorList_);                 (BInstallCmp, verbatim)
   installCopier_c:     copierList_ = new MockCFunctionCopierNode(copierList_, copier);
                        currentMockSupport->installCopier(typeName, *copierList_);                          (BInstallCopy, verbatim) *)
Definition head_or {A} (l : list A) (d : A) : A := match l with x :: _ => x | [] => d end.
Definition c_installer : installer :=
  {| i_cmp := fun l e s => let l' := {| n_equal := e; n_to_string := s |} :: l in (l', head_or l' {| n_equal := XMissing; n_to_string := XMissing |});
     i_copy := fun l c => let l' := c :: l in (l', head_or l' XMissing) |}.
(* C++: mock().installComparator(typeName, object) with the user's object for exactly these functions; no list *)
Definition x_installer : installer :=
  {| i_cmp := fun l e s => (l, {| n_equal := e; n_to_string := s |}); i_copy := fun l c => (l, c) |}.

(* one call through a table whose entry has signature sg and meaning s *)
Definition apply_sem (I : installer) (p : ptrs) (ad : adaptors) (k : nat) (field : name) (sg : csig) (s : sem) (args : list arg)
  : ptrs * adaptors * xop :=
  match bind field (snd sg) args 0%N with
  | None => (p, ad, XStuck)
  | Some vs =>
      let ev := map (eval_arg vs) in
      match s with
      | SChain r m a target => (set_ptr p target (new_handle target k), ad, XChain (get_ptr p r) m (ev a) target)
      | SVoid r m a => (p, ad, XVoid (get_ptr p r) m (ev a))
      | SRet w r m a => (p, ad, XRet w (get_ptr p r) m (ev a))
      | SOrDefault rh rg g w d => (p, ad, XOrDefault (get_ptr p rh) (get_ptr p rg) g w (eval_arg vs (AParam d)))
      | SInstallCmp =>
          let (l', obj) := i_cmp I (a_cmps ad) (eval_arg vs (AParam 1)) (eval_arg vs (AParam 2)) in
          (p, {| a_cmps := l'; a_cps := a_cps ad |}, XInstallCmp (p_sup p) (eval_arg vs (AParam 0)) (n_equal obj) (n_to_string obj))
      | SInstallCopy =>
          let (l', obj) := i_copy I (a_cps ad) (eval_arg vs (AParam 1)) in
          (p, {| a_cmps := a_cmps ad; a_cps := l' |}, XInstallCopy (p_sup p) (eval_arg vs (AParam 0)) obj)
      | SRemoveAll => (p, adaptors0, XRemoveAll (p_sup p))        (* both lists are deleted node by node, then the repository is emptied *)
      | SSelect _ _ | SBad => (p, ad, XStuck)
      end
  end.

(* mock_c() / mock_scope_c(scope): both must be `currentMockSupport = &mock(<scope>, ...)`; mock() / mock(scope) in C++ *)
Definition select_ok : bool :=
  match resolve "mock_c", resolve "mock_scope_c" with
  | SSelect (ALit l) _, SSelect (AParam 0) _ => l =? """"""
  | _, _ => false
  end.

Definition step (lookup : tbl -> name -> option (csig * sem)) (sel : bool) (I : installer) (p : ptrs) (ad : adaptors) (k : nat) (o : op)
  : ptrs * adaptors * xop :=
  match o with
  | OSelect sc => if sel then (set_ptr p RSup (HSup sc), ad, XSelect sc) else (p, ad, XStuck)
  | ONewTest => (p, ad, XNewTest)      (* C: the statics stay; C++: the user keeps his references (or selects again) *)
  | OCall t f args => match lookup t f with
                      | Some (sg, s) => apply_sem I p ad k f sg s args
                      | None => (p, ad, XStuck)
                      end
  end.
Fixpoint trace_from (lookup : tbl -> name -> option (csig * sem)) (sel : bool) (I : installer) (p : ptrs) (ad : adaptors) (k : nat)
                    (ops : list op) : list xop :=
  match ops with
  | [] => []
  | o :: r => let '(p', ad', x) := step lookup sel I p ad k o in x :: trace_from lookup sel I p' ad' (S k) r
  end.
(* through the function tables, the three static pointers and the two static adaptor lists *)
Definition c_trace (ops : list op) : list xop := trace_from wired select_ok c_installer ptrs0 adaptors0 0 ops.
(* the same scenario written in C++ *)
Definition x_trace (ops : list op) : list xop := trace_from denote true x_installer ptrs0 adaptors0 0 ops.

(* valid scenarios: every op names an entry of the header and its arguments fit the C signature *)
Definition op_valid (o : op) : bool :=
  match o with
  | OSelect _ | ONewTest => true
  | OCall t f args => match denote t f with
                      | Some (sg, _) => match bind f (snd sg) args 0%N with Some _ => true | None => false end
                      | None => false
                      end
  end.
Definition valid (ops : list op) : bool := forallb op_valid ops.

(* ================================================================ values and what the caller sees *)
(* MockNamedValue as returned by returnValue() / getData() *)
Inductive mvalue :=
| MBool (b : bool) | MInt (t : ity) (z : Z) | MDouble (bits : Z) | MStr (s : option (list N))
| MPtr (a : Z) | MCPtr (a : Z) | MFun (a : Z) | MMem (a : Z) | MObj (ty : name) (a : Z).
Definition mtype (v : mvalue) : name :=
  match v with
  | MBool _ => "bool" | MInt TInt _ => "int" | MInt TUInt _ => "unsigned int" | MInt TLong _ => "long int" | MInt TULong _ => "unsigned long int"
  | MInt TLLong _ => "long long int" | MInt TULLong _ => "unsigned long long int" | MDouble _ => "double" | MStr _ => "const char*"
  | MPtr _ => "void*" | MCPtr _ => "const void*" | MFun _ => "void (*)()" | MMem _ => "const unsigned char*" | MObj ty _ => ty
  end.
Definition mvalid (v : mvalue) : bool :=
  match v with
  | MInt t z => in_range t z
  | MObj ty _ => forallb (fun d => negb (d_type d =? ty)) value_dispatch     (* a user type is not named like a built-in one *)
  | _ => true
  end.

(* canonical form of a value handed to the caller *)
Inductive pk := PVoid | PConst | PFunc | PMem | PObj.
Inductive canon := CB (b : bool) | CI (t : ity) (z : Z) | CD (bits : Z) | CS (s : option (list N)) | CP (k : pk) (a : Z).
Definition canon_of_value (v : mvalue) : canon :=
  match v with
  | MBool b => CB b | MInt t z => CI t z | MDouble d => CD d | MStr s => CS s
  | MPtr a => CP PVoid a | MCPtr a => CP PConst a | MFun a => CP PFunc a | MMem a => CP PMem a | MObj _ a => CP PObj a
  end.

(* the getters of MockNamedValue used by getMockValueCFromNamedValue (integers: the C09 model); None = the getter fails the test *)
Definition c09_of (t : ity) (z : Z) : C09_Model.value := VInt t z.
Inductive payload := YZ (z : Z) | YS (s : option (list N)).
Definition apply_getter (g : name) (v : mvalue) : option payload :=
  let int_get (gt : getter) := match v with MInt t z => option_map YZ (get gt (c09_of t z)) | _ => None end in
  if g =? "getBoolValue" then match v with MBool b => Some (YZ (if b then 1 else 0)%Z) | _ => None end
  else if g =? "getIntValue" then int_get GInt else if g =? "getUnsignedIntValue" then int_get GUInt
  else if g =? "getLongIntValue" then int_get GLong else if g =? "getUnsignedLongIntValue" then int_get GULong
  else if g =? "getLongLongIntValue" then int_get GLLong else if g =? "getUnsignedLongLongIntValue" then int_get GULLong
  else if g =? "getDoubleValue" then match v with MDouble d => Some (YZ d) | _ => None end
  else if g =? "getStringValue" then match v with MStr s => Some (YS s) | _ => None end
  else if g =? "getPointerValue" then match v with MPtr a => Some (YZ a) | _ => None end
  else if g =? "getConstPointerValue" then match v with MCPtr a => Some (YZ a) | _ => None end
  else if g =? "getFunctionPointerValue" then match v with MFun a => Some (YZ a) | _ => None end
  else if g =? "getMemoryBuffer" then match v with MMem a => Some (YZ a) | _ => None end
  else if g =? "getObjectPointer" then match v with MObj _ a => Some (YZ a) | _ => None end    (* no type check: reads the union *)
  else None.
(* getMockValueCFromNamedValue: first branch whose type name matches, else the object branch *)
Definition value_to_c (v : mvalue) : option (name * name * payload) :=
  let d := match find (fun d => d_type d =? mtype v) value_dispatch with Some d => d | None => value_dispatch_else end in
  match apply_getter (d_getter d) v with
  | Some y => Some (d_tag d, d_member d, y)
  | None => None
  end.
(* a C caller switches on the tag and reads the member that belongs to it (rec_value of harness/C19_c.c) *)
Definition c_reads : list (name * (name * (payload -> option canon))) :=
  let z (f : Z -> canon) := fun y => match y with YZ v => Some (f v) | YS _ => None end in
  [ ("MOCKVALUETYPE_BOOL", ("boolValue", z (fun v => CB (negb (v =? 0)%Z))));
    ("MOCKVALUETYPE_INTEGER", ("intValue", z (CI TInt))); ("MOCKVALUETYPE_UNSIGNED_INTEGER", ("unsignedIntValue", z (CI TUInt)));
    ("MOCKVALUETYPE_LONG_INTEGER", ("longIntValue", z (CI TLong))); ("MOCKVALUETYPE_UNSIGNED_LONG_INTEGER", ("unsignedLongIntValue", z (CI TULong)));
    ("MOCKVALUETYPE_LONG_LONG_INTEGER", ("longLongIntValue", z (CI TLLong)));
    ("MOCKVALUETYPE_UNSIGNED_LONG_LONG_INTEGER", ("unsignedLongLongIntValue", z (CI TULLong)));
    ("MOCKVALUETYPE_DOUBLE", ("doubleValue", z CD));
    ("MOCKVALUETYPE_STRING", ("stringValue", fun y => match y with YS s => Some (CS s) | YZ _ => None end));
    ("MOCKVALUETYPE_POINTER", ("pointerValue", z (CP PVoid))); ("MOCKVALUETYPE_CONST_POINTER", ("constPointerValue", z (CP PConst)));
    ("MOCKVALUETYPE_FUNCTIONPOINTER", ("functionPointerValue", z (CP PFunc))); ("MOCKVALUETYPE_MEMORYBUFFER", ("memoryBufferValue", z (CP PMem)));
    ("MOCKVALUETYPE_OBJECT", ("objectValue", z (CP PObj))) ].
Definition canon_of_c (c : name * name * payload) : option canon :=
  let '(tag, member, y) := c in
  match find (fun r => fst r =? tag) c_reads with
  | Some (_, (m, f)) => if (m =? member) && existsb (name_eqb tag) value_tags then f y else None
  | None => None
  end.

(* result of a C++ operation *)
Inductive xres := RNone | RBool (b : bool) | RInt (t : ity) (z : Z) | RDouble (bits : Z) | RStr (s : option (list N)) | RPtr (k : pk) (a : Z)
                | RValue (v : mvalue).
Definition observe_x (r : xres) : option canon :=
  match r with
  | RNone => None | RBool b => Some (CB b) | RInt t z => Some (CI t z) | RDouble d => Some (CD d) | RStr s => Some (CS s) | RPtr k a => Some (CP k a)
  | RValue v => Some (canon_of_value v)
  end.
Definition observe_c (w : rwrap) (r : xres) : option canon :=
  match w, r with
  | _, RNone => None
  | WBool01, RBool b => Some (CB (negb ((if b then 1 else 0) =? 0)%Z))       (* e ? 1 : 0, read back as int != 0 *)
  | WFunCast, RPtr PFunc a => Some (CP PFunc a)
  | WValueC, RValue v => match value_to_c v with Some c => canon_of_c c | None => None end
  | WNone, RValue _ => None
  | WNone, _ => observe_x r
  | _, _ => None
  end.
(* the wrapper fits the C++ result type (C++ type checking of the forwarder) *)
Definition fits (w : rwrap) (r : xres) : bool :=
  match w, r with
  | _, RNone => true
  | WBool01, RBool _ | WFunCast, RPtr PFunc _ => true
  | WValueC, RValue v => mvalid v
  | WNone, RValue _ | WNone, RPtr PFunc _ => false
  | WNone, _ => true
  | _, _ => false
  end.
Definition wrap_of (x : xop) : rwrap := match x with XRet w _ _ _ | XOrDefault _ _ _ w _ => w | _ => WNone end.

(* ================================================================ failure reporters: HOW the test is left on a failure *)
(* A mock failure is reported through a MockFailureReporter object; the object's crashOnFailure_ flag decides whether the crash hook
   (UT_CRASH -> UtestShell::crash -> the function given to UtestShell::setCrashMethod) runs before the test is left.  Two reporter
   objects exist in a scenario: the standard reporter (global_mock.defaultReporter_; MockSupport::clone hands the global's
   standardReporter_ to every scope, so all supports share it) and failureReporterForC, the static of MockSupport_c.cpp.
     mock(scope, r)                     : setActiveReporter(r): activeReporter_ = r ? r : standardReporter_      (gen: "mock", "setActiveReporter")
     MockSupport::crashOnFailure(b)     : activeReporter_->crashOnFailure(b)                                      (gen: "crashOnFailure")
     MockSupport::actualCall            : new MockCheckedActualCall(.., activeReporter_, ..): the call object keeps that reporter
     a failure raised by a call object  : its own reporter_->failTest
     a failure raised by MockSupport    : failTest = clear(); activeReporter_->failTest(failure)                  (checkExpectations: expected
                                          calls that did not happen, calls out of order)
     a CHECK inside the library         : no reporter (e.g. the type check of a MockNamedValue getter): never the crash hook
     reporter->failTest                 : failWith(failure, TERMINATOR(crashOnFailure_)); TERMINATOR::exitCurrentTest = if (flag) UT_CRASH(); leave
   The C interface differs from the C++ one in exactly one place: mock_c() / mock_scope_c() pass &failureReporterForC where a C++ user
   passes nothing (NULL -> the standard reporter).  `rlayer` is what the rest of the code does with a reporter it holds (faithful code:
   nothing -- clear() keeps activeReporter_, a new call takes activeReporter_); changed code is another rlayer. *)
Inductive reporter := RepStd | RepC.
Definition swap (r : reporter) : reporter := match r with RepStd => RepC | RepC => RepStd end.
Notation scope := (option (list N)) (only parsing).
Definition optbytes_eqb (a b : option (list N)) : bool :=
  match a, b with Some x, Some y => bytes_eqb x y | None, None => true | _, _ => false end.
Record callrec := { c_id : nat; c_scope : scope; c_rep : reporter }.     (* a checked actual call: the op that created it, its support, its reporter_ *)
Record rstate := { rs_std : bool; rs_c : bool;                           (* crashOnFailure_ of the two reporter objects *)
                   rs_active : list (scope * reporter);                  (* activeReporter_ of every mock support that exists *)
                   rs_calls : list callrec }.                            (* the call objects that exist *)
Definition rstate0 : rstate := {| rs_std := false; rs_c := false; rs_active := []; rs_calls := [] |}.
Record rlayer := { l_given : scope -> reporter;            (* the reporter setActiveReporter ends up with when THIS interface selects the support *)
                   l_clear : reporter -> reporter;         (* activeReporter_ after clear(), from activeReporter_ before *)
                   l_call : reporter -> reporter }.        (* reporter_ of a new actual call, from activeReporter_ *)

Definition flag (s : rstate) (r : reporter) : bool := match r with RepStd => rs_std s | RepC => rs_c s end.
Definition set_flag (s : rstate) (r : reporter) (b : bool) : rstate :=
  match r with
  | RepStd => {| rs_std := b; rs_c := rs_c s; rs_active := rs_active s; rs_calls := rs_calls s |}
  | RepC => {| rs_std := rs_std s; rs_c := b; rs_active := rs_active s; rs_calls := rs_calls s |}
  end.
Definition rs_get (s : rstate) (sc : scope) : option reporter :=
  option_map snd (find (fun e => optbytes_eqb (fst e) sc) (rs_active s)).
Definition rs_set (s : rstate) (sc : scope) (r : reporter) : rstate :=
  {| rs_std := rs_std s; rs_c := rs_c s; rs_active := (sc, r) :: filter (fun e => negb (optbytes_eqb (fst e) sc)) (rs_active s); rs_calls := rs_calls s |}.
Definition is_global (sc : scope) : bool := match sc with None => true | Some _ => false end.
(* MockSupport::clear() of support sc: its last actual call is deleted; the global support also clears and deletes every scope *)
Definition rs_clear (L : rlayer) (s : rstate) (sc : scope) : rstate :=
  {| rs_std := rs_std s; rs_c := rs_c s;
     rs_active := map (fun e => if optbytes_eqb (fst e) sc then (fst e, l_clear L (snd e)) else e)
                      (filter (fun e => negb (is_global sc) || is_global (fst e)) (rs_active s));
     rs_calls := filter (fun c => negb (is_global sc) && negb (optbytes_eqb (c_scope c) sc)) (rs_calls s) |}.
Definition receiver (x : xop) : option scope :=
  match x with
  | XChain (HSup sc) _ _ _ | XVoid (HSup sc) _ _ | XRet _ (HSup sc) _ _ | XOrDefault (HSup sc) _ _ _ _ => Some sc
  | _ => None
  end.
(* what op number k does to the reporters (an ignored call is over-approximated by a call object that never fails) *)
Definition rstep (L : rlayer) (s : rstate) (k : nat) (x : xop) : rstate :=
  match x with
  | XSelect sc => rs_set s sc (l_given L sc)
  | XVoid (HSup sc) m args =>
      if m =? "crashOnFailure" then match args, rs_get s sc with [XBool b], Some r => set_flag s r b | _, _ => s end
      else if m =? "clear" then rs_clear L s sc
      else s
  | XChain (HSup sc) m _ RAct =>
      if m =? "actualCall"
      then match rs_get s sc with
           | Some r => {| rs_std := rs_std s; rs_c := rs_c s; rs_active := rs_active s;
                          rs_calls := {| c_id := k; c_scope := sc; c_rep := l_call L r |} :: filter (fun c => negb (optbytes_eqb (c_scope c) sc)) (rs_calls s) |}
           | None => s
           end
      else s
  | _ => s
  end.
(* who raises the failure of an operation (the machine says): the actual call object created by op j, the mock support the
   operation was called on, or a plain CHECK of the library *)
Inductive raiser := ByCall (j : nat) | BySupport | ByAssert.
Definition armed (s : rstate) (r : option reporter) : N := match r with Some r => if flag s r then 1%N else 0%N | None => 0%N end.
(* how often the crash hook runs when op x (state before: s, after: s') fails *)
Definition crash_on (L : rlayer) (s s' : rstate) (x : xop) (by_ : raiser) : N :=
  match by_ with
  | ByAssert => 0%N
  | ByCall j => armed s' (option_map c_rep (find (fun c => Nat.eqb (c_id c) j) (rs_calls s' ++ rs_calls s)))   (* the new call, or the one this op deletes *)
  | BySupport => match receiver x with
                 | Some sc => let s2 := rs_clear L s' sc in armed s2 (rs_get s2 sc)        (* failTest: clear(); activeReporter_->failTest *)
                 | None => 0%N
                 end
  end.

(* ================================================================ machines, observations, run, spec *)
Record mres := { r_fail : option (list N); r_by : raiser; r_val : xres }.      (* failure text + who raised it (the test is left) / value returned *)
Record machine := { mst : Type; minit : mst; mexec : mst -> nat -> xop -> mst * mres; mouts : mst -> list (N * list N) }.

Record oval := { v_op : N; v_canon : canon }.
(* one test of the scenario: the op at which it was left with the failure text, and how often the crash hook ran *)
Record tres := { t_fail : option (N * list N); t_crash : N }.
Record half := { h_tests : list tres; h_vals : list oval; h_outs : list (N * list N) }.
Record obs := { o_c : half; o_x : half }.
Definition t_pass : tres := {| t_fail := None; t_crash := 0 |}.
(* the reporters after a failure: MockSupport::failTest has cleared the support; a call object reports without clearing *)
Definition rs_failed (L : rlayer) (s' : rstate) (x : xop) (by_ : raiser) : rstate :=
  match by_, receiver x with BySupport, Some sc => rs_clear L s' sc | _, _ => s' end.

(* skip = the current test has failed (its result is in `done`): its remaining ops are not executed *)
Fixpoint exec (M : machine) (L : rlayer) (observe : rwrap -> xres -> option canon) (st : mst M) (rs : rstate) (k : nat) (tr : list xop)
              (vals : list oval) (done : list tres) (skip : bool) : half :=
  match tr with
  | [] => {| h_tests := rev (if skip then done else t_pass :: done); h_vals := rev vals; h_outs := mouts M st |}
  | XNewTest :: r => exec M L observe (fst (mexec M st k XNewTest)) rs (S k) r vals (if skip then done else t_pass :: done) false
  | x :: r =>
      if skip then exec M L observe st rs (S k) r vals done true
      else
        let (st', res) := mexec M st k x in
        let rs' := rstep L rs k x in
        match r_fail res with
        | Some text => exec M L observe st' (rs_failed L rs' x (r_by res)) (S k) r vals
                         ({| t_fail := Some (N.of_nat k, text); t_crash := crash_on L rs rs' x (r_by res) |} :: done) true
        | None => exec M L observe st' rs' (S k) r
                    (match observe (wrap_of x) (r_val res) with Some c => {| v_op := N.of_nat k; v_canon := c |} :: vals | None => vals end) done false
        end
  end.
(* the reporter each interface hands to mock(): C: what the regenerated mock_c / mock_scope_c forwarders pass; C++: nothing *)
Definition c_reporter_name : name := "&failureReporterForC".
Definition given_of (s : sem) : reporter := match s with SSelect _ r => if r =? c_reporter_name then RepC else RepStd | _ => RepStd end.
Definition faithful_layer (given : scope -> reporter) : rlayer := {| l_given := given; l_clear := fun r => r; l_call := fun r => r |}.
Definition c_layer : rlayer := faithful_layer (fun sc => given_of (resolve (if is_global sc then "mock_c" else "mock_scope_c"))).
Definition x_layer : rlayer := faithful_layer (fun _ => RepStd).
Definition run_layers (Lc Lx : rlayer) (M : machine) (ops : list op) : obs :=
  {| o_c := exec M Lc observe_c (minit M) rstate0 0 (c_trace ops) [] [] false;
     o_x := exec M Lx (fun _ => observe_x) (minit M) rstate0 0 (x_trace ops) [] [] false |}.
Definition run_with : machine -> list op -> obs := run_layers c_layer x_layer.

(* the machine used by the extracted model: no checked calls, nothing fails, nothing is returned (the C++ machinery itself is the
   subject of C08/C09; here it is a parameter) *)
Definition machine0 : machine :=
  {| mst := unit; minit := tt; mexec := fun st _ _ => (st, {| r_fail := None; r_by := ByAssert; r_val := RNone |}); mouts := fun _ => [] |}.
Definition run : list op -> obs := run_with machine0.

(* spec: test by test the two interfaces gave the same verdict, left the test at the same op with the same text and the same number of
   runs of the crash hook; they returned the same values with
   the same type tags at the same ops, and left the same bytes in the output buffers *)
Definition pk_eqb (a b : pk) : bool := match a, b with PVoid, PVoid | PConst, PConst | PFunc, PFunc | PMem, PMem | PObj, PObj => true | _, _ => false end.
Definition canon_eqb (a b : canon) : bool :=
  match a, b with
  | CB x, CB y => Bool.eqb x y | CI t x, CI u y => ity_eqb t u && (x =? y)%Z | CD x, CD y => (x =? y)%Z
  | CS x, CS y => optbytes_eqb x y | CP k x, CP l y => pk_eqb k l && (x =? y)%Z | _, _ => false
  end.
Fixpoint list_eqb {A} (e : A -> A -> bool) (a b : list A) : bool :=
  match a, b with [], [] => true | x :: a', y :: b' => e x y && list_eqb e a' b' | _, _ => false end.
Definition tres_eqb (a b : tres) : bool :=
  match t_fail a, t_fail b with
  | None, None => true
  | Some (i, s), Some (j, t) => (i =? j)%N && bytes_eqb s t
  | _, _ => false
  end
  && (t_crash a =? t_crash b)%N.
Definition half_eqb (a b : half) : bool :=
  list_eqb tres_eqb (h_tests a) (h_tests b)
  && list_eqb (fun x y => (v_op x =? v_op y)%N && canon_eqb (v_canon x) (v_canon y)) (h_vals a) (h_vals b)
  && list_eqb (fun x y => (fst x =? fst y)%N && bytes_eqb (snd x) (snd y)) (h_outs a) (h_outs b).
Definition spec (ops : list op) (o : obs) : bool := half_eqb (o_c o) (o_x o).
