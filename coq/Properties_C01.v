(* C01 -- A failing check always fails the run: lifecycle, failure count, exit value.
   Only statements; every proof is `exact <lemma>` into C01_Proofs.v. *)
From Coq Require Import NArith ZArith Bool List.
From CppUVerif Require Import gen.Gen_Common lib.CInt C01_Model C01_Proofs C01_Console C01_ConsoleProofs C01_TryProofs.
Import ListNotations.
Local Open Scope Z_scope.

(* ok_test exc r t: the test cannot throw, or the build has exceptions and they are not rethrown (DESIGN C01 scope decision).
   Every statement below holds from ANY machine state s (any jump depth, any current test), in both builds. *)

(* lifecycle: the statements a test executes are exactly want_events: per entered phase the prefix up to and including the first
   statement that does not pass; body entered iff setup completed; teardown always *)
Theorem C01_lifecycle : forall exc r i t s, ok_test exc r t = true ->
  events_of (out (fst (run_one_test exc r i t s))) =
  events_of (out s) ++ map (fun e => mkEv (fst (fst e)) (snd (fst e)) (snd e) (depth s + 2)) (want_events i t).
Proof. exact one_test_events. Qed.
Print Assumptions C01_lifecycle.

Theorem C01_body_only_after_setup : forall i t k, In (i, 1%N, k) (want_events i t) -> completes (t_setup t) = true.
Proof. exact body_only_after_setup. Qed.
Print Assumptions C01_body_only_after_setup.

Theorem C01_body_when_setup_completes : forall i t, completes (t_setup t) = true -> t_body t <> [] -> In (i, 1%N, 0%N) (want_events i t).
Proof. exact body_when_setup_completes. Qed.
Print Assumptions C01_body_when_setup_completes.

Theorem C01_teardown_always : forall i t, t_teardown t <> [] -> In (i, 2%N, 0%N) (want_events i t).
Proof. exact teardown_always. Qed.
Print Assumptions C01_teardown_always.

(* nothing placed after a failing check or an escaping exception is executed *)
Theorem C01_nothing_after_failure : forall l,
  exists post, l = executed l ++ post /\ forallb is_pass (removelast (executed l)) = true /\
               (post <> [] -> exists x, last (executed l) SNop = x /\ is_pass x = false).
Proof. exact executed_prefix. Qed.
Print Assumptions C01_nothing_after_failure.

(* every failed check, escaped exception and plugin-reported error is recorded (counter) and printed (log) exactly once, where it happened *)
Theorem C01_failures_once : forall exc r i t s, ok_test exc r t = true ->
  let s' := fst (run_one_test exc r i t s) in
  fails_of (out s') = fails_of (out s) ++ want_fails i t /\
  k_fail (cn s') = (k_fail (cn s) + N.of_nat (length (want_fails i t)))%N /\
  k_checks (cn s') = (k_checks (cn s) + want_checks t)%N /\
  k_run (cn s') = (k_run (cn s) + 1)%N.
Proof. exact one_test_fails. Qed.
Print Assumptions C01_failures_once.

(* check kinds (every assert entry point of UtestShell, the C interface in front of them, the CHECK_COMPARE macro).  Machine level,
   from ANY state, both builds: a statement SCheckK kd a f l adds exactly [counted kd a] to the checks counter and, when it fails,
   exactly one failure record carrying the location (f, l) it was given (output and failure counter); the phase goes on iff it
   passes; a failing C-interface kind leaves by longjmp in both builds, a failing UtestShell kind by the exception when there are any *)
Theorem C01_checkk_step : forall exc i ph k0 kd a f l s,
  let r := exec_stmt exc i ph k0 (SCheckK kd a f l) s in
  k_checks (cn (fst r)) = (k_checks (cn s) + counted kd a)%N /\
  fails_of (out (fst r)) = fails_of (out s) ++ (if passes kd a then [] else [mkF i f l 0]) /\
  k_fail (cn (fst r)) = (k_fail (cn s) + (if passes kd a then 0 else 1))%N /\
  events_of (out (fst r)) = events_of (out s) ++ [mkEv i ph k0 (depth s)] /\
  (snd r = ONormal <-> passes kd a = true) /\
  (passes kd a = false -> snd r = if c_style kd || negb exc then OJump (depth s - 1) else OThrow XFailed).
Proof. exact checkk_step. Qed.
Print Assumptions C01_checkk_step.

(* the same at the level of the oracle's vocabulary (what C01_lifecycle / C01_failures_once / C01_summary_true are stated with): a
   check of kind kd after passing statements is executed, adds counted kd a to the phase's "checks", demands exactly the record at
   (f, l) when it fails and then cuts the phase off; nothing of it is demanded when it passes *)
Theorem C01_checkk_wants : forall i t pre kd a f l post, completes pre = true -> existsb intercepts pre = false ->
  let x := SCheckK kd a f l in
  executed (pre ++ x :: post) = pre ++ x :: (if passes kd a then executed post else []) /\
  sumN n_checks (executed (pre ++ x :: post)) =
    (sumN n_checks pre + counted kd a + (if passes kd a then sumN n_checks (executed post) else 0))%N /\
  flat_map (stmt_failure i t) (executed (pre ++ x :: post)) =
    (if passes kd a then flat_map (stmt_failure i t) (executed post) else [mkF i f l 0]).
Proof. exact checkk_wants. Qed.
Print Assumptions C01_checkk_wants.

(* a failing check is always counted; the only executed-but-uncounted check statement is the CHECK_COMPARE macro on a true
   comparison (UtestShell::assertCompare itself counts whether or not the comparison holds) *)
Theorem C01_uncounted_only_macro : forall k a, (passes k a = false -> counted k a = 1%N) /\ (counted k a = 0%N <-> (k = MCompare /\ a = true)).
Proof. exact (fun k a => conj (fail_is_counted k a) (uncounted_only_macro k a)). Qed.
Print Assumptions C01_uncounted_only_macro.

(* D20 (fixed in /repo ff2a581): the CHECK_COMPARE_LOCATION macro as it was -- the failure printed at the place of the macro expansion
   whatever location it was given -- violates the property: the oracle rejects that observation *)
Theorem C01_compare_macro_old_refuted : ~ compare_macro_old_stmt.
Proof. exact compare_macro_old_refuted. Qed.
Print Assumptions C01_compare_macro_old_refuted.

(* the jump-buffer index returns to its pre-test value after every test, for every mix of failure kinds *)
Theorem C01_depth_restored : forall exc r i t s, ok_test exc r t = true ->
  depth (fst (run_one_test exc r i t s)) = depth s.
Proof. exact one_test_depth. Qed.
Print Assumptions C01_depth_restored.

Theorem C01_test_returns_normally : forall exc r i t s, ok_test exc r t = true -> snd (run_one_test exc r i t s) = ONormal.
Proof. exact one_test_normal. Qed.
Print Assumptions C01_test_returns_normally.

Theorem C01_context_restored : forall exc r i t s, ok_test exc r t = true -> cur (fst (run_one_test exc r i t s)) = cur s.
Proof. exact one_test_context. Qed.
Print Assumptions C01_context_restored.

(* whole runs: any number of (consecutive failing) tests, any repeat count -- the jump stack never leaves its jmp_slots slots *)
Theorem C01_no_slot_overflow : forall exc scn, valid exc scn = true ->
  let fin := snd (run_from exc scn st0) in
  overflow fin = false /\ depth fin = 0 /\ cur fin = None /\
  forall rp e, In rp (o_reps (run exc scn)) -> In e (r_events rp) -> e_depth e = 2 /\ e_depth e <= slots.
Proof. exact no_slot_overflow. Qed.
Print Assumptions C01_no_slot_overflow.

(* the summary of EACH repetition carries the true counts OF THAT REPETITION (the program may behave differently from one repetition
   to the next: rep_want scn j / rep_tests scn j are computed from the program as it behaves in repetition j) and reads OK exactly
   when that repetition had no failure and ran or ignored at least one test *)
Theorem C01_summary_true : forall exc scn j rp, valid exc scn = true -> nth_error (o_reps (run exc scn)) j = Some rp ->
  let c := rep_want scn (N.of_nat j) in
  exists m, r_summary rp = Some m /\
    m_tests m = N.of_nat (length (s_tests scn)) /\ m_run m = k_run c /\ m_checks m = k_checks c /\ m_ign m = k_ign c /\ m_filt m = k_filt c /\
    (m_tests m = m_run m + m_ign m + m_filt m)%N /\
    m_nfail m = (if (0 <? k_fail c)%N then Some (k_fail c) else None) /\
    r_fails rp = rep_fails (s_cfg scn) (rep_tests scn (N.of_nat j)) /\
    k_fail c = N.of_nat (length (r_fails rp)) /\
    (m_ok m = true <-> (k_fail c = 0 /\ 0 < k_run c + k_ign c)%N).
Proof. exact summary_true. Qed.
Print Assumptions C01_summary_true.

(* the value the command-line runner returns, over the per-repetition outcomes (fewer than 2^31 failures in total): there are
   n = eff_repeat (-r value) >= 1 repetitions (-r0 repeats twice), and the value is zero iff EVERY repetition j < n is OK for the
   program as it behaves in repetition j, iff every printed summary reads OK *)
Theorem C01_exit_value : forall exc scn, valid exc scn = true -> c_cli (s_cfg scn) = true ->
  let n := eff_repeat (c_repeat (s_cfg scn)) in
  length (o_reps (run exc scn)) = N.to_nat n /\ (0 < n)%N /\
  exists z, o_ret (run exc scn) = Some z /\
    (z = 0 <-> forall j, (j < n)%N -> rep_is_ok (rep_want scn j) = true) /\
    (z = 0 <-> forall rp, In rp (o_reps (run exc scn)) -> exists m, r_summary rp = Some m /\ m_ok m = true).
Proof. exact exit_value_iff. Qed.
Print Assumptions C01_exit_value.

(* the two accumulators of the repeat loop: over any list of repetitions, returned value zero iff every one of them is OK *)
Theorem C01_exit_value_accumulates : forall (f : N -> cnt) (L : list N),
  Z.of_N (sum_fail f L) < 2 ^ 31 -> Z.of_nat (length L) < 2 ^ 31 ->
  (exit_value (sum_fail f L) (n_failed f L) = 0 <-> forallb (fun j => rep_is_ok (f j)) L = true).
Proof. exact exit_value_zero_iff. Qed.
Print Assumptions C01_exit_value_accumulates.

(* a flaky program separates the property from two weaker readings: neither the last nor the first repetition alone decides *)
Theorem C01_exit_last_only_refuted : ~ exit_last_only_stmt.
Proof. exact exit_last_only_refuted. Qed.
Print Assumptions C01_exit_last_only_refuted.

Theorem C01_exit_first_only_refuted : ~ exit_first_only_stmt.
Proof. exact exit_first_only_refuted. Qed.
Print Assumptions C01_exit_first_only_refuted.

(* stated limit: without the bound the size_t -> int conversion wraps (2^32 failures return 0) *)
Theorem C01_exit_value_wrap_refuted : ~ (forall ft fe : N, exit_value ft fe = 0 -> ft = 0%N).
Proof. exact exit_value_wrap_refuted. Qed.
Print Assumptions C01_exit_value_wrap_refuted.

(* builds with and without C++ exception support behave the same on programs that cannot throw *)
Theorem C01_build_independent : forall scn, existsb rhas_throw (s_tests scn) = false -> run true scn = run false scn.
Proof. exact build_independent. Qed.
Print Assumptions C01_build_independent.

(* ------------------------------------------------------------------ the bytes that reach standard output (C01_Console.v) *)
(* a buffered stdio stream shared by the runner and a forked child: the buffer is process memory (fork copies it, _exit drops it,
   exit / fflush / a full buffer write it out).  With the code's discipline -- ConsoleTestOutput::printBuffer flushes after every
   fputs -- every buffer is empty between two prints, so fork copies nothing, _exit drops nothing, and the file holds every chunk
   that was printed, once, in order: for every capacity, every sequence of prints / forks / child exits, whichever way the child leaves *)
Theorem C01_stdio_flush_each : forall d cap ops, d_flush_each d = true ->
  let s := io_run d cap ops io0 in
  io_parent s = [] /\ (io_child s = None \/ io_child s = Some []) /\ io_file s = puts ops /\ stdio_run d cap ops = puts ops.
Proof. exact stdio_flush_each_inv. Qed.
Print Assumptions C01_stdio_flush_each.

(* another discipline is right as well (no flush per print; the stream is flushed before fork and by the child when it leaves): a
   rewrite of the code to it must not raise an alarm *)
Theorem C01_stdio_fork_exit : forall d cap ops, d_fork_flushes d = true -> d_exit_flushes d = true -> wf false ops = true ->
  stdio_run d cap ops = puts ops.
Proof. exact stdio_fork_exit. Qed.
Print Assumptions C01_stdio_fork_exit.

(* ... and these two are the only right ones among the eight: [once_stmt d] = for every capacity and every well-formed sequence of
   operations the file is exactly what was printed *)
Theorem C01_stdio_once_iff : forall d, once_stmt d <-> right_disc d = true.
Proof. exact once_iff. Qed.
Print Assumptions C01_stdio_once_iff.

(* the seeded change (printBuffer without flush; plain fork; _exit) is refuted: a record printed by the child appears ZERO times (it
   dies in the child's buffer), and with a full buffer in the child a record the runner printed before the fork appears TWICE *)
Theorem C01_stdio_noflush_refuted : ~ once_stmt noflush_disc.
Proof. exact noflush_refuted. Qed.
Print Assumptions C01_stdio_noflush_refuted.

Theorem C01_stdio_noflush_loses_and_duplicates :
  count_rec rB (puts ops_lost) = 1%nat /\ count_rec rB (stdio_run noflush_disc 10 ops_lost) = 0%nat /\
  count_rec rA (puts ops_dup) = 1%nat /\ count_rec rA (stdio_run noflush_disc 1 ops_dup) = 2%nat.
Proof. exact noflush_loses_and_duplicates. Qed.
Print Assumptions C01_stdio_noflush_loses_and_duplicates.

(* whole runs through the real console output (stdout a pipe or a file, any buffer capacity, -v / -c, one process or -p): the failure
   records that stand in the captured bytes are exactly the demanded ones -- every failed check, escaped exception and plugin-reported
   error as often as it happened (once), where it happened; under -p each failed test followed by the runner's own record *)
Theorem C01_console_records_once : forall exc xs io, valid_x exc xs = true -> x_io xs = Some io ->
  exists c, run_x exc xs = XConsole c /\ co_escaped c = false /\
    let want := flat_map (want_seg (i_sep io) (x_scn xs)) (rep_index (eff_repeat (c_repeat (s_cfg (x_scn xs))))) in
    recs_of (co_items c) = want /\ forall f, occ f (recs_of (co_items c)) = occ f want.
Proof. exact console_records_once. Qed.
Print Assumptions C01_console_records_once.

(* one summary per repetition (none lost, none twice); summary j carries the verdict of repetition j and the figures the runner's
   process knows; in one process also the checks and the failures figure (the counters of a child die with it) *)
Theorem C01_console_summaries_true : forall exc xs io, valid_x exc xs = true -> x_io xs = Some io ->
  exists c, run_x exc xs = XConsole c /\
    let n := eff_repeat (c_repeat (s_cfg (x_scn xs))) in
    length (sums_of (co_items c)) = N.to_nat n /\
    forall j m, nth_error (sums_of (co_items c)) j = Some m ->
      let k := rep_want (x_scn xs) (N.of_nat j) in
      m_ok m = rep_is_ok k /\ is_some (m_nfail m) = (0 <? k_fail k)%N /\
      m_tests m = k_tests k /\ m_run m = k_run k /\ m_ign m = k_ign k /\ m_filt m = k_filt k /\
      (i_sep io = false -> m_checks m = k_checks k /\ m_nfail m = if (0 <? k_fail k)%N then Some (k_fail k) else None).
Proof. exact console_summaries_true. Qed.
Print Assumptions C01_console_summaries_true.

(* a failing check fails the run also when it failed in a forked child *)
Theorem C01_console_exit_value : forall exc xs io, valid_x exc xs = true -> x_io xs = Some io ->
  exists c z, run_x exc xs = XConsole c /\ co_ret c = Some z /\
    let n := eff_repeat (c_repeat (s_cfg (x_scn xs))) in
    (z = 0 <-> forall j, (j < n)%N -> rep_is_ok (rep_want (x_scn xs) j) = true).
Proof. exact console_exit_value. Qed.
Print Assumptions C01_console_exit_value.

(* pipe or file, -v, -c, the capacity of the buffer, and any other discipline that flushes after every print: same observation *)
Theorem C01_console_independent : forall exc xs xs' io io' d, valid_x exc xs = true -> x_io xs = Some io -> x_io xs' = Some io' ->
  x_scn xs' = x_scn xs -> i_sep io' = i_sep io -> d_flush_each d = true -> run_x_with d exc xs' = run_x exc xs.
Proof. exact console_independent. Qed.
Print Assumptions C01_console_independent.

Theorem C01_console_build_independent : forall xs, existsb rhas_throw (s_tests (x_scn xs)) = false -> run_x true xs = run_x false xs.
Proof. exact run_x_build_independent. Qed.
Print Assumptions C01_console_build_independent.

(* the seeded change at the level of whole runs: the oracle rejects what the machine produces without the flush *)
Theorem C01_console_noflush_refuted : ~ console_noflush_stmt.
Proof. exact console_noflush_refuted. Qed.
Print Assumptions C01_console_noflush_refuted.

(* --------------------------------------------------------------------------------------------------------------
   USER TRY BLOCKS, CHECK_THROWS, TESTS MADE BY THE PUBLIC MACROS (coq/C01_TryProofs.v).  A statement of a phase may be
   try { blk } catch (h) { hd } (STry) or CHECK_THROWS(e, helper) (SThrows); the statements inside are logged as sub events.
   -------------------------------------------------------------------------------------------------------------- *)
(* the exit of a failing C++-style check (CppUTestFailedException: a class without a base class) is caught by catch (...) only *)
Theorem C01_failed_check_caught_only_by_catch_all : forall h, catches h XFailed = true <-> h = HAll.
Proof. exact catches_failed_iff. Qed.
Print Assumptions C01_failed_check_caught_only_by_catch_all.

(* machine level, ANY state, the build with exceptions: what executing one statement (simple or compound) does to the checks and
   failure counters, the event / sub-event / failure logs, and how it leaves *)
Theorem C01_stmt_step : forall i ph k x s,
  let r := exec_stmt true i ph k x s in
  k_checks (cn (fst r)) = (k_checks (cn s) + n_checks x)%N /\
  k_fail (cn (fst r)) = (k_fail (cn s) + n_checkfails x)%N /\
  events_of (out (fst r)) = events_of (out s) ++ [mkEv i ph k (depth s)] /\
  subs_of (out (fst r)) = subs_of (out s) ++ stmt_subs i ph k x /\
  (forall t, fails_of (out (fst r)) ++ (if how_escapes (stmt_how x) then [exc_failure i t] else []) = fails_of (out s) ++ stmt_failure i t x) /\
  snd r = outcome_of (stmt_how x) s /\
  (snd r = ONormal <-> is_pass x = true).
Proof. exact stmt_step. Qed.
Print Assumptions C01_stmt_step.

(* a failing check (C-style or C++-style) inside a try block with a handler for ANY type: the handler is not entered, the statement
   does not pass, the block runs up to and including the failing check and no further, exactly one failure record is demanded *)
Theorem C01_try_failing_check : forall i t ph k blk e hd, ends_in_check blk ->
  let x := STry blk (HType e) hd in
  handler_entered blk (HType e) = false /\
  stmt_how x = bases_how blk /\
  is_pass x = false /\
  stmt_subs i ph k x = map (fun jb => mkSub i ph k (fst jb)) (number 0 (b_executed blk)) /\
  (exists f, stmt_failure i t x = [f] /\ f_kind f = 0%N /\ f_test f = i) /\
  n_checkfails x = 1%N.
Proof. exact try_failing_check. Qed.
Print Assumptions C01_try_failing_check.

(* ... and nothing that stands behind the try block in the phase is executed *)
Theorem C01_nothing_after_try_check : forall pre blk e hd post,
  completes pre = true -> ends_in_check blk -> executed (pre ++ STry blk (HType e) hd :: post) = pre ++ [STry blk (HType e) hd].
Proof. exact nothing_after_try_check. Qed.
Print Assumptions C01_nothing_after_try_check.

(* the same on the machine, from any state: sub events of the block only, ONE failure record, failure counter + 1, and the statement
   leaves the phase the way the failing check does (longjmp / the framework's exception), never normally *)
Theorem C01_try_failing_check_step : forall i ph k blk e hd s, ends_in_check blk ->
  let r := exec_stmt true i ph k (STry blk (HType e) hd) s in
  subs_of (out (fst r)) = subs_of (out s) ++ map (fun jb => mkSub i ph k (fst jb)) (number 0 (b_executed blk)) /\
  (exists f, fails_of (out (fst r)) = fails_of (out s) ++ [f] /\ f_kind f = 0%N) /\
  k_fail (cn (fst r)) = (k_fail (cn s) + 1)%N /\
  snd r = outcome_of (bases_how blk) s /\ snd r <> ONormal.
Proof. exact try_failing_check_step. Qed.
Print Assumptions C01_try_failing_check_step.

(* an exception of the program's own that a handler of the try block catches does not escape: the handler runs, and when it completes
   the statement passes and nothing is recorded; one that no handler catches escapes (one record at the TEST's location) *)
Theorem C01_try_caught_exception : forall i t ph k blk h hd ex,
  bases_how blk = HowThrow ex -> ex <> XFailed -> catches h ex = true ->
  let x := STry blk h hd in
  handler_entered blk h = true /\ stmt_how x = bases_how hd /\
  stmt_subs i ph k x = map (fun jb => mkSub i ph k (fst jb)) (number 0 (b_executed blk))
                       ++ map (fun jb => mkSub i ph k (fst jb)) (number (N.of_nat (length blk)) (b_executed hd)) /\
  (bases_how hd = HowDone -> is_pass x = true /\ stmt_failure i t x = []).
Proof. exact try_caught_exception. Qed.
Print Assumptions C01_try_caught_exception.
Theorem C01_try_uncaught_exception : forall i t blk h hd ex,
  bases_how blk = HowThrow ex -> ex <> XFailed -> catches h ex = false ->
  let x := STry blk h hd in
  handler_entered blk h = false /\ stmt_how x = HowThrow ex /\ is_pass x = false /\ stmt_failure i t x = [mkF i 0 (t_line t) 1].
Proof. exact try_uncaught_exception. Qed.
Print Assumptions C01_try_uncaught_exception.

(* CHECK_THROWS(ex, helper()) with checks inside the helper *)
Theorem C01_check_throws_cases : forall i t ex blk f l,
  let x := SThrows ex blk f l in
  (forall e, bases_how blk = HowThrow e -> catches_type ex e = true ->
     is_pass x = true /\ stmt_failure i t x = [] /\ n_checks x = (sumN b_counts (b_executed blk) + 1)%N) /\
  (bases_how blk = HowDone -> is_pass x = false /\ stmt_failure i t x = [mkF i f l 0] /\ n_checks x = (sumN b_counts (b_executed blk) + 1)%N) /\
  (forall e, bases_how blk = HowThrow e -> e <> XFailed -> catches_type ex e = false ->
     is_pass x = false /\ stmt_failure i t x = [mkF i f l 0] /\ stmt_how x = HowThrow XFailed) /\
  (bases_how blk = HowJump ->
     is_pass x = false /\ stmt_how x = HowJump /\ n_checks x = sumN b_counts (b_executed blk) /\ exists r, stmt_failure i t x = [r] /\ f_kind r = 0%N).
Proof. exact check_throws_cases. Qed.
Print Assumptions C01_check_throws_cases.

(* scope: catch (...) around a C++-style check that can fail (CHECK_THROWS has one inside) is outside what the oracle judges -- and
   nothing else is: a handler for a type never puts a program outside *)
Theorem C01_intercepts_iff : forall x,
  intercepts x = true <->
  (exists blk hd, x = STry blk HAll hd /\ existsb b_cxx_fail blk = true) \/ (exists e blk f l, x = SThrows e blk f l /\ existsb b_cxx_fail blk = true).
Proof. exact intercepts_iff. Qed.
Print Assumptions C01_intercepts_iff.
Theorem C01_spec_out_of_scope : forall scn o, existsb rintercepts (s_tests scn) = true -> spec scn o = true.
Proof. exact spec_out_of_scope. Qed.
Print Assumptions C01_spec_out_of_scope.

(* the oracle on the program of red-team change C01-1 (a failing check inside try / catch (const std::exception&) { FAIL }): every
   accepted observation shows the block up to the failing check, no handler statement, nothing behind the try block, one record;
   what a tree shows in which the framework's exception is a std::exception is rejected *)
Theorem C01_try_oracle : forall o, spec ex_try o = true ->
  forall rp, In rp (o_reps o) ->
    r_subs rp = [mkSub 0 1 0 0; mkSub 0 1 0 1] /\ map strip (r_events rp) = [(0, 1, 0); (0, 2, 0); (1, 1, 0)]%N /\ length (r_fails rp) = 1%nat.
Proof. exact ex_try_oracle. Qed.
Print Assumptions C01_try_oracle.
Theorem C01_try_std_handler_rejected :
  spec ex_try (mkObs false None [mkRep [mkEv 0 1 0 2; mkEv 0 2 0 2; mkEv 1 1 0 2] [mkF 0 0 105 0; mkF 0 0 107 0] [(0, true); (0, true)]
                                       (Some (mkSum false (Some 2%N) 2 2 5 0 0)) (Some (mkCnt 2 2 5 2 0 0))
                                       [mkSub 0 1 0 0; mkSub 0 1 0 1; mkSub 0 1 0 3]]) = false.
Proof. exact ex_try_std_handler_rejected. Qed.
Print Assumptions C01_try_std_handler_rejected.

(* ignored tests: without -ri counted as ignored, nothing runs; with -ri the test's OWN setup / body / teardown run (createTest() of
   the shell builds the test's class), its checks and failures count, it is counted as run and not as ignored *)
Theorem C01_ignored_not_run : forall exc cfg i t s,
  t_ignored t = true -> c_runign cfg = false -> shell_run exc cfg i t s = (count one_ign s, ONormal).
Proof. exact ignored_not_run. Qed.
Print Assumptions C01_ignored_not_run.
Theorem C01_run_ignored_runs_own_phases : forall exc cfg i t s,
  c_runign cfg = true -> ok_test exc (c_rethrow cfg) t = true ->
  let s' := fst (shell_run exc cfg i t s) in
  events_of (out s') = events_of (out s) ++ map (fun e => mkEv (fst (fst e)) (snd (fst e)) (snd e) (depth s + 2)) (want_events i t) /\
  subs_of (out s') = subs_of (out s) ++ want_subs i t /\
  fails_of (out s') = fails_of (out s) ++ want_fails i t /\
  k_fail (cn s') = (k_fail (cn s) + N.of_nat (length (want_fails i t)))%N /\
  k_checks (cn s') = (k_checks (cn s) + want_checks t)%N /\
  k_run (cn s') = (k_run (cn s) + 1)%N /\ k_ign (cn s') = k_ign (cn s).
Proof. exact run_ignored_runs_own_phases. Qed.
Print Assumptions C01_run_ignored_runs_own_phases.
Theorem C01_run_ignored_started : forall cfg ts, c_runign cfg = true ->
  filter (started cfg) ts = filter (fun it => selected cfg (snd it)) ts /\ k_ign (rep_counts cfg ts) = 0%N.
Proof. exact run_ignored_started. Qed.
Print Assumptions C01_run_ignored_started.
(* the oracle on the program of red-team change C01-2 (TEST + IGNORE_TEST with a failing check, -ri): every accepted observation shows
   the ignored test's setup, body up to the failing check and teardown, a summary that is not OK with 2 ran / 2 checks, and a
   returned value that is not zero; "counted as run, nothing ran, OK, 0" is rejected *)
Theorem C01_run_ignored_oracle : forall o, spec ex_ri o = true ->
  (forall rp, In rp (o_reps o) ->
     map strip (r_events rp) = [(0, 0, 0); (0, 1, 0); (0, 2, 0); (1, 0, 0); (1, 1, 0); (1, 1, 1); (1, 2, 0)]%N /\
     exists m, r_summary rp = Some m /\ m_ok m = false /\ m_run m = 2%N /\ m_checks m = 2%N) /\
  exists z, o_ret o = Some z /\ z <> 0.
Proof. exact ex_ri_oracle. Qed.
Print Assumptions C01_run_ignored_oracle.
Theorem C01_run_ignored_not_instantiated_rejected :
  spec ex_ri (mkObs false (Some 0) [mkRep [mkEv 0 0 0 2; mkEv 0 1 0 2; mkEv 0 2 0 2] [] [(0, true); (0, true)]
                                          (Some (mkSum true None 2 2 1 0 0)) None []]) = false.
Proof. exact ex_ri_not_instantiated_rejected. Qed.
Print Assumptions C01_run_ignored_not_instantiated_rejected.

(* the executable oracle used on the implementation's observations accepts every model observation: plain scenarios ... *)
Theorem C01_run_meets_spec_plain : forall exc scn, valid exc scn = true -> spec scn (run exc scn) = true.
Proof. exact run_meets_spec. Qed.
Print Assumptions C01_run_meets_spec_plain.

(* ... and every valid scenario of the extended language (a plain scenario, or one with a console configuration) *)
Theorem C01_run_meets_spec : forall exc xs, valid_x exc xs = true -> spec_x xs (run_x exc xs) = true.
Proof. exact run_x_meets_spec. Qed.
Print Assumptions C01_run_meets_spec.

(* --------------------------------------------------------------------------------------------------------------
   THE TRANSLATED SOURCE (gen/Gen_HeapC01.v, gen/Gen_HeapC01X.v, regenerated by tools/cxx2heap.py on every run) of TestResult's counters, TestOutput::printTestsEnded and CommandLineTestRunner::runAllTests computes the model's cadd / is_failure / mk_summary / exit_value
   -------------------------------------------------------------------------------------------------------------- *)
From CppUVerif Require Import lib.CSem lib.CMem lib.CHeap gen.Gen_HeapC01 gen.Gen_HeapC01X C01_SrcTie.
Local Open Scope Z_scope.
Theorem C01_result_layout_is_the_source :
  off_TestResult_output_ = 0 /\
  off_TestResult_testCount_ = 1 /\
  off_TestResult_runCount_ = 2 /\
  off_TestResult_checkCount_ = 3 /\
  off_TestResult_failureCount_ = 4 /\
  off_TestResult_filteredOutCount_ = 5 /\
  off_TestResult_ignoredCount_ = 6 /\
  off_TestResult_totalExecutionTime_ = 7 /\
  cells_TestResult = 13 /\
  off_TestOutput_dotCount_ = 0 /\
  off_TestOutput_verbose_ = 1 /\
  off_TestOutput_color_ = 2 /\ off_TestOutput_progressIndication_ = 3 /\ cells_TestOutput = 4.
Proof. exact result_layout_is_the_source. Qed.
Print Assumptions C01_result_layout_is_the_source.

Theorem C01_src_result_countTest_spec :
  forall (fuel : nat) (h : heap) (evs : list qev) (fcs ifs : list Z) (rb : nat) (o : val)
  (c : cnt) (t : Z) (r : list val),
  result_rep h rb o c t r ->
  Z.of_N (k_tests c) + 1 < 2 ^ 64 ->
  src_result_countTest fuel h evs fcs ifs (HPtr rb 0) =
  FOk (tt, upd h rb (result_cells o (cadd c one_test) t r), evs, fcs, ifs).
Proof. exact src_result_countTest_spec. Qed.
Print Assumptions C01_src_result_countTest_spec.

Theorem C01_src_result_countRun_spec :
  forall (fuel : nat) (h : heap) (evs : list qev) (fcs ifs : list Z) (rb : nat) (o : val)
  (c : cnt) (t : Z) (r : list val),
  result_rep h rb o c t r ->
  Z.of_N (k_run c) + 1 < 2 ^ 64 ->
  src_result_countRun fuel h evs fcs ifs (HPtr rb 0) =
  FOk (tt, upd h rb (result_cells o (cadd c one_run) t r), evs, fcs, ifs).
Proof. exact src_result_countRun_spec. Qed.
Print Assumptions C01_src_result_countRun_spec.

Theorem C01_src_result_countCheck_spec :
  forall (fuel : nat) (h : heap) (evs : list qev) (fcs ifs : list Z) (rb : nat) (o : val)
  (c : cnt) (t : Z) (r : list val),
  result_rep h rb o c t r ->
  Z.of_N (k_checks c) + 1 < 2 ^ 64 ->
  src_result_countCheck fuel h evs fcs ifs (HPtr rb 0) =
  FOk (tt, upd h rb (result_cells o (cadd c one_check) t r), evs, fcs, ifs).
Proof. exact src_result_countCheck_spec. Qed.
Print Assumptions C01_src_result_countCheck_spec.

Theorem C01_src_result_countIgnored_spec :
  forall (fuel : nat) (h : heap) (evs : list qev) (fcs ifs : list Z) (rb : nat) (o : val)
  (c : cnt) (t : Z) (r : list val),
  result_rep h rb o c t r ->
  Z.of_N (k_ign c) + 1 < 2 ^ 64 ->
  src_result_countIgnored fuel h evs fcs ifs (HPtr rb 0) =
  FOk (tt, upd h rb (result_cells o (cadd c one_ign) t r), evs, fcs, ifs).
Proof. exact src_result_countIgnored_spec. Qed.
Print Assumptions C01_src_result_countIgnored_spec.

Theorem C01_src_result_countFilteredOut_spec :
  forall (fuel : nat) (h : heap) (evs : list qev) (fcs ifs : list Z) (rb : nat) (o : val)
  (c : cnt) (t : Z) (r : list val),
  result_rep h rb o c t r ->
  Z.of_N (k_filt c) + 1 < 2 ^ 64 ->
  src_result_countFilteredOut fuel h evs fcs ifs (HPtr rb 0) =
  FOk (tt, upd h rb (result_cells o (cadd c one_filt) t r), evs, fcs, ifs).
Proof. exact src_result_countFilteredOut_spec. Qed.
Print Assumptions C01_src_result_countFilteredOut_spec.

Theorem C01_src_result_addFailure_spec :
  forall (fuel : nat) (h : heap) (evs : list qev) (fcs ifs : list Z) (rb : nat) (o : val)
  (c : cnt) (t : Z) (r : list val),
  result_rep h rb o c t r ->
  Z.of_N (k_fail c) + 1 < 2 ^ 64 ->
  src_result_addFailure fuel h evs fcs ifs (HPtr rb 0) =
  FOk (tt, upd h rb (result_cells o (cadd c one_fail) t r), evs ++ [QPrintFailure], fcs, ifs).
Proof. exact src_result_addFailure_spec. Qed.
Print Assumptions C01_src_result_addFailure_spec.

Theorem C01_src_result_getFailureCount_spec :
  forall (fuel : nat) (h : heap) (evs : list qev) (fcs ifs : list Z) (rb : nat) (o : val)
  (c : cnt) (t : Z) (r : list val),
  result_rep h rb o c t r ->
  src_result_getFailureCount fuel h evs fcs ifs (HPtr rb 0) = FOk (Z.of_N (k_fail c), h, evs, fcs, ifs).
Proof. exact src_result_getFailureCount_spec. Qed.
Print Assumptions C01_src_result_getFailureCount_spec.

Theorem C01_src_result_isFailure_spec :
  forall (fuel : nat) (h : heap) (evs : list qev) (fcs ifs : list Z) (rb : nat) (o : val)
  (c : cnt) (t : Z) (r : list val),
  result_rep h rb o c t r ->
  Z.of_N (k_run c) + Z.of_N (k_ign c) < 2 ^ 64 ->
  src_result_isFailure fuel h evs fcs ifs (HPtr rb 0) = FOk (b2z (is_failure c), h, evs, fcs, ifs).
Proof. exact src_result_isFailure_spec. Qed.
Print Assumptions C01_src_result_isFailure_spec.

Theorem C01_isFailure_without_the_bound_differs :
  result_rep wrap_heap 0 (VInt 0) wrap_cnt 0 [VInt 0; VInt 0; VInt 0; VInt 0; VInt 0] /\
  cnt_ok wrap_cnt /\
  is_failure wrap_cnt = false /\
  src_result_isFailure 0 wrap_heap [] [] [] (HPtr 0 0) = FOk (1, wrap_heap, [], [], []).
Proof. exact isFailure_without_the_bound_differs. Qed.
Print Assumptions C01_isFailure_without_the_bound_differs.

Theorem C01_src_output_printTestsEnded_spec :
  forall (fuel : nat) (h : heap) (evs : list qev) (fcs ifs : list Z) (rb : nat) (o : val)
  (c : cnt) (t : Z) (r : list val) (ob : nat) (d v : val) (color : bool) (p : val),
  result_rep h rb o c t r ->
  output_rep h ob d v color p ->
  Z.of_N (k_run c) + Z.of_N (k_ign c) < 2 ^ 64 ->
  src_output_printTestsEnded fuel h evs fcs ifs (HPtr ob 0) (HPtr rb 0) =
  FOk (tt, upd h ob (output_cells (VInt 0) v color p), evs ++ summary_text color c t, fcs, ifs).
Proof. exact src_output_printTestsEnded_spec. Qed.
Print Assumptions C01_src_output_printTestsEnded_spec.

Theorem C01_summary_text_denotes_mk_summary :
  forall (color : bool) (c : cnt) (t : Z), parse_summary (summary_text color c t) = Some (mk_summary c, t).
Proof. exact summary_text_denotes_mk_summary. Qed.
Print Assumptions C01_summary_text_denotes_mk_summary.

Theorem C01_m_ok_iff :
  forall c : cnt, m_ok (mk_summary c) = true <-> k_fail c = 0%N /\ (0 < k_run c + k_ign c)%N.
Proof. exact m_ok_iff. Qed.
Print Assumptions C01_m_ok_iff.

Theorem C01_summary_text_OK :
  forall (color : bool) (c : cnt) (t : Z),
  has
  (PText
  (String.String (Ascii.Ascii true true true true false false true false)
  (String.String (Ascii.Ascii true true false true false false true false)
  (String.String (Ascii.Ascii false false false false false true false false)
  (String.String (Ascii.Ascii false false false true false true false false) String.EmptyString)))))
  (summary_text color c t) = m_ok (mk_summary c).
Proof. exact summary_text_OK. Qed.
Print Assumptions C01_summary_text_OK.

Theorem C01_summary_text_after_Errors :
  forall (color : bool) (c : cnt) (t : Z),
  next_after
  (PText
  (String.String (Ascii.Ascii true false true false false false true false)
  (String.String (Ascii.Ascii false true false false true true true false)
  (String.String (Ascii.Ascii false true false false true true true false)
  (String.String (Ascii.Ascii true true true true false true true false)
  (String.String (Ascii.Ascii false true false false true true true false)
  (String.String (Ascii.Ascii true true false false true true true false)
  (String.String (Ascii.Ascii false false false false false true false false)
  (String.String (Ascii.Ascii false false false true false true false false)
  String.EmptyString))))))))) (summary_text color c t) =
  (if is_failure c
  then
  Some
  (if (0 <? k_fail c)%N
  then PNum (Z.of_N (k_fail c))
  else
  PText
  (String.String (Ascii.Ascii false true false false true true true false)
  (String.String (Ascii.Ascii true false false false false true true false)
  (String.String (Ascii.Ascii false true true true false true true false)
  (String.String (Ascii.Ascii false false false false false true false false)
  (String.String (Ascii.Ascii false true true true false true true false)
  (String.String (Ascii.Ascii true true true true false true true false)
  (String.String (Ascii.Ascii false false true false true true true false)
  (String.String (Ascii.Ascii false false false true false true true false)
  (String.String (Ascii.Ascii true false false true false true true false)
  (String.String (Ascii.Ascii false true true true false true true false)
  (String.String (Ascii.Ascii true true true false false true true false)
  (String.String
  (Ascii.Ascii false false true true false true false false)
  (String.String
  (Ascii.Ascii false false false false false true false false)
  String.EmptyString))))))))))))))
  else None).
Proof. exact summary_text_after_Errors. Qed.
Print Assumptions C01_summary_text_after_Errors.

Theorem C01_summary_text_numbers :
  forall (color : bool) (c : cnt) (t : Z),
  nums_labels (summary_text color c t) =
  (if is_failure c && (0 <? k_fail c)%N
  then
  [(Z.of_N (k_fail c),
  String.String (Ascii.Ascii false false false false false true false false)
  (String.String (Ascii.Ascii false true true false false true true false)
  (String.String (Ascii.Ascii true false false false false true true false)
  (String.String (Ascii.Ascii true false false true false true true false)
  (String.String (Ascii.Ascii false false true true false true true false)
  (String.String (Ascii.Ascii true false true false true true true false)
  (String.String (Ascii.Ascii false true false false true true true false)
  (String.String (Ascii.Ascii true false true false false true true false)
  (String.String (Ascii.Ascii true true false false true true true false)
  (String.String (Ascii.Ascii false false true true false true false false)
  (String.String (Ascii.Ascii false false false false false true false false)
  String.EmptyString)))))))))))]
  else []) ++
  [(Z.of_N (k_tests c),
  String.String (Ascii.Ascii false false false false false true false false)
  (String.String (Ascii.Ascii false false true false true true true false)
  (String.String (Ascii.Ascii true false true false false true true false)
  (String.String (Ascii.Ascii true true false false true true true false)
  (String.String (Ascii.Ascii false false true false true true true false)
  (String.String (Ascii.Ascii true true false false true true true false)
  (String.String (Ascii.Ascii false false true true false true false false)
  (String.String (Ascii.Ascii false false false false false true false false)
  String.EmptyString))))))));
  (Z.of_N (k_run c),
  String.String (Ascii.Ascii false false false false false true false false)
  (String.String (Ascii.Ascii false true false false true true true false)
  (String.String (Ascii.Ascii true false false false false true true false)
  (String.String (Ascii.Ascii false true true true false true true false)
  (String.String (Ascii.Ascii false false true true false true false false)
  (String.String (Ascii.Ascii false false false false false true false false) String.EmptyString))))));
  (Z.of_N (k_checks c),
  String.String (Ascii.Ascii false false false false false true false false)
  (String.String (Ascii.Ascii true true false false false true true false)
  (String.String (Ascii.Ascii false false false true false true true false)
  (String.String (Ascii.Ascii true false true false false true true false)
  (String.String (Ascii.Ascii true true false false false true true false)
  (String.String (Ascii.Ascii true true false true false true true false)
  (String.String (Ascii.Ascii true true false false true true true false)
  (String.String (Ascii.Ascii false false true true false true false false)
  (String.String (Ascii.Ascii false false false false false true false false)
  String.EmptyString)))))))));
  (Z.of_N (k_ign c),
  String.String (Ascii.Ascii false false false false false true false false)
  (String.String (Ascii.Ascii true false false true false true true false)
  (String.String (Ascii.Ascii true true true false false true true false)
  (String.String (Ascii.Ascii false true true true false true true false)
  (String.String (Ascii.Ascii true true true true false true true false)
  (String.String (Ascii.Ascii false true false false true true true false)
  (String.String (Ascii.Ascii true false true false false true true false)
  (String.String (Ascii.Ascii false false true false false true true false)
  (String.String (Ascii.Ascii false false true true false true false false)
  (String.String (Ascii.Ascii false false false false false true false false)
  String.EmptyString))))))))));
  (Z.of_N (k_filt c),
  String.String (Ascii.Ascii false false false false false true false false)
  (String.String (Ascii.Ascii false true true false false true true false)
  (String.String (Ascii.Ascii true false false true false true true false)
  (String.String (Ascii.Ascii false false true true false true true false)
  (String.String (Ascii.Ascii false false true false true true true false)
  (String.String (Ascii.Ascii true false true false false true true false)
  (String.String (Ascii.Ascii false true false false true true true false)
  (String.String (Ascii.Ascii true false true false false true true false)
  (String.String (Ascii.Ascii false false true false false true true false)
  (String.String (Ascii.Ascii false false false false false true false false)
  (String.String (Ascii.Ascii true true true true false true true false)
  (String.String (Ascii.Ascii true false true false true true true false)
  (String.String (Ascii.Ascii false false true false true true true false)
  (String.String
  (Ascii.Ascii false false true true false true false false)
  (String.String
  (Ascii.Ascii false false false false false true false false)
  String.EmptyString)))))))))))))));
  (t,
  String.String (Ascii.Ascii false false false false false true false false)
  (String.String (Ascii.Ascii true false true true false true true false)
  (String.String (Ascii.Ascii true true false false true true true false)
  (String.String (Ascii.Ascii true false false true false true false false) String.EmptyString))))].
Proof. exact summary_text_numbers. Qed.
Print Assumptions C01_summary_text_numbers.

Theorem C01_src_runner_list1 :
  forall (fuel : nat) (mem : heap) (evs : list qev) (fcs ifs : list Z) (n l1 l2 l3 rv sh seed : Z) (this : hptr),
  l1 <> 0 ->
  src_runner_runAllTests fuel mem evs fcs ifs n l1 l2 l3 rv sh seed this =
  FOk (0, mem, evs ++ [QInit; QNewResult; QList 1], fcs, ifs, n, l1, l2, l3, rv, sh, seed).
Proof. exact src_runner_list1. Qed.
Print Assumptions C01_src_runner_list1.

Theorem C01_src_runner_runAllTests_spec :
  forall (fuel : nat) (mem : heap) (evs : list qev) (fcs ifs : list Z) (n rv sh seed : Z) (this : hptr),
  0 <= n < 2 ^ 64 ->
  (Z.to_nat n < fuel)%nat ->
  (Z.to_nat n <= length fcs)%nat ->
  (Z.to_nat n <= length ifs)%nat ->
  nonneg (firstn (Z.to_nat n) fcs) ->
  sumz (firstn (Z.to_nat n) fcs) < 2 ^ 64 ->
  src_runner_runAllTests fuel mem evs fcs ifs n 0 0 0 rv sh seed this =
  FOk
  (exit_value (Z.to_N (sumz (firstn (Z.to_nat n) fcs))) (Z.to_N (cntnz (firstn (Z.to_nat n) ifs))), mem,
  evs ++ run_events rv sh seed n, skipn (Z.to_nat n) fcs, skipn (Z.to_nat n) ifs, n, 0, 0, 0, rv, sh, seed).
Proof. exact src_runner_runAllTests_spec. Qed.
Print Assumptions C01_src_runner_runAllTests_spec.

Theorem C01_run_events_counts :
  forall rv sh seed n : Z,
  0 <= n ->
  count_occ qev_eq_dec (run_events rv sh seed n) QRunAll = Z.to_nat n /\
  count_occ qev_eq_dec (run_events rv sh seed n) QNewResult = Z.to_nat n /\
  count_occ qev_eq_dec (run_events rv sh seed n) QReverse = (if z2b rv then 1%nat else 0%nat) /\
  count_occ qev_eq_dec (run_events rv sh seed n) QInit = 1%nat /\
  count_occ qev_eq_dec (run_events rv sh seed n) (QShuffle seed) = (if z2b sh then Z.to_nat n else 0%nat).
Proof. exact run_events_counts. Qed.
Print Assumptions C01_run_events_counts.

Theorem C01_reverse_before_every_run :
  forall (rv sh seed n : Z) (l1 l2 : list qev),
  0 <= n ->
  run_events rv sh seed n = l1 ++ QRunAll :: l2 ->
  In QInit l1 /\ (z2b rv = true -> In QReverse l1) /\ ~ In QReverse l2 /\ ~ In QInit l2.
Proof. exact reverse_before_every_run. Qed.
Print Assumptions C01_reverse_before_every_run.

Theorem C01_exit_zero_iff :
  forall (n : nat) (fcs ifs : list Z),
  nonneg (firstn n fcs) ->
  sumz (firstn n fcs) < 2 ^ 32 ->
  cntnz (firstn n ifs) < 2 ^ 32 ->
  exit_value (Z.to_N (sumz (firstn n fcs))) (Z.to_N (cntnz (firstn n ifs))) = 0 <->
  all0 (firstn n fcs) /\ all0 (firstn n ifs).
Proof. exact exit_zero_iff. Qed.
Print Assumptions C01_exit_zero_iff.

Theorem C01_src_runner_exit_zero_iff :
  forall (fuel : nat) (mem : heap) (evs : list qev) (fcs ifs : list Z) (n rv sh seed : Z) (this : hptr),
  0 <= n < 2 ^ 32 ->
  (Z.to_nat n < fuel)%nat ->
  (Z.to_nat n <= length fcs)%nat ->
  (Z.to_nat n <= length ifs)%nat ->
  nonneg (firstn (Z.to_nat n) fcs) ->
  sumz (firstn (Z.to_nat n) fcs) < 2 ^ 32 ->
  exists v : Z,
  src_runner_runAllTests fuel mem evs fcs ifs n 0 0 0 rv sh seed this =
  FOk
  (v, mem, evs ++ run_events rv sh seed n, skipn (Z.to_nat n) fcs, skipn (Z.to_nat n) ifs, n, 0, 0, 0, rv,
  sh, seed) /\ (v = 0 <-> all0 (firstn (Z.to_nat n) fcs) /\ all0 (firstn (Z.to_nat n) ifs)).
Proof. exact src_runner_exit_zero_iff. Qed.
Print Assumptions C01_src_runner_exit_zero_iff.

Theorem C01_exit_value_wraps :
  exit_value (Z.to_N (sumz [2 ^ 32])) (Z.to_N (cntnz [1])) = 0 /\
  ~ all0 [2 ^ 32] /\
  src_runner_runAllTests 2 [] [] [2 ^ 32] [1] 1 0 0 0 0 0 0 HNull =
  FOk (0, [], [QInit; QPrintTestRun 1 1; QNewResult; QRunAll], [], [], 1, 0, 0, 0, 0, 0, 0).
Proof. exact exit_value_wraps. Qed.
Print Assumptions C01_exit_value_wraps.

Theorem C01_runner_loop_accumulates :
  forall (exc : bool) (cfg : config) (tests : list rtest) (n : nat) (loop : N) (s : st)
  (ft fe : N) (rs : list rep_obs) (s2 : st) (a b : N),
  runner_loop exc cfg tests n loop s ft fe = (rs, s2, a, b, ONormal) ->
  length (rep_cnts exc cfg tests n loop s) = n /\
  a = (ft + ft_of (rep_cnts exc cfg tests n loop s))%N /\ b = (fe + fe_of (rep_cnts exc cfg tests n loop s))%N.
Proof. exact runner_loop_accumulates. Qed.
Print Assumptions C01_runner_loop_accumulates.

Theorem C01_src_runner_agrees_with_runner_loop :
  forall (exc : bool) (cfg : config) (tests : list rtest) (n : nat) (s : st) (rs : list rep_obs)
  (s2 : st) (a b : N) (fuel : nat) (mem : heap) (evs : list qev) (rv sh seed : Z)
  (this : hptr),
  runner_loop exc cfg tests n 0 s 0 0 = (rs, s2, a, b, ONormal) ->
  Z.of_nat n < 2 ^ 64 ->
  Z.of_N a < 2 ^ 64 ->
  (n < fuel)%nat ->
  let cs := rep_cnts exc cfg tests n 0 s in
  src_runner_runAllTests fuel mem evs (map fcount_of cs) (map isfail_of cs) (Z.of_nat n) 0 0 0 rv sh seed this =
  FOk
  (exit_value a b, mem, evs ++ run_events rv sh seed (Z.of_nat n), [], [], Z.of_nat n, 0, 0, 0, rv, sh, seed).
Proof. exact src_runner_agrees_with_runner_loop. Qed.
Print Assumptions C01_src_runner_agrees_with_runner_loop.

Theorem C01_stream_values_are_the_getters :
  forall (fuel : nat) (h : heap) (evs : list qev) (fcs ifs : list Z) (rb : nat) (o : val)
  (c : cnt) (t : Z) (r : list val),
  result_rep h rb o c t r ->
  Z.of_N (k_run c) + Z.of_N (k_ign c) < 2 ^ 64 ->
  src_result_getFailureCount fuel h evs fcs ifs (HPtr rb 0) = FOk (fcount_of c, h, evs, fcs, ifs) /\
  src_result_isFailure fuel h evs fcs ifs (HPtr rb 0) = FOk (isfail_of c, h, evs, fcs, ifs).
Proof. exact stream_values_are_the_getters. Qed.
Print Assumptions C01_stream_values_are_the_getters.
