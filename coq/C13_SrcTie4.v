From Coq Require Import ZArith NArith Bool List Lia. From CppUVerif Require Import lib.CSem lib.CMem lib.CMemFacts lib.Str gen.Gen_LeafC13 gen.Gen_LoopC13 C13_Model C13_LeafTie C13_SrcTie. Import ListNotations. Local Open Scope Z_scope.
(* C13: the translated SimpleString::StrNCpy (gen/Gen_LoopC13.v, it STORES into the byte memory of lib/CMem.v) is EQUAL to the
   model function StrNCpy of C13_Model.v, destination and source in different blocks, including the inputs on which the
   source reads or writes outside a block (both sides say Oob). *)

(* ------------------------------------------------------------------ lists: upd against the model's wr *)
Lemma wr_upd {A} : forall (b : list A) i v, (i < length b)%nat -> firstn i b ++ v :: skipn (S i) b = upd b i v.
Proof.
  induction b as [|x b IH]; intros [|i] v H; cbn in *; try lia; auto. f_equal. apply IH. lia.
Qed.

Lemma wr_eq b i v : wr b i v = if Nat.ltb i (length b) then C13_Model.Ok (upd b i v) else C13_Model.Oob.
Proof.
  unfold wr. destruct (Nat.ltb_spec i (length b)) as [L|L]; [|reflexivity]. rewrite (wr_upd b i v L). reflexivity.
Qed.

Lemma upd_upd {A} : forall (l : list A) i a b, upd (upd l i a) i b = upd l i b.
Proof. induction l as [|x l IH]; intros [|i] a b; cbn; auto. f_equal. apply IH. Qed.

Lemma upd_nth_id {A} : forall (l : list A) i d, upd l i (nth i l d) = l.
Proof. induction l as [|x l IH]; intros [|i] d; cbn; auto. f_equal. apply IH. Qed.

Lemma Forall_upd {A} (P : A -> Prop) : forall l i v, Forall P l -> P v -> Forall P (upd l i v).
Proof.
  induction l as [|x l IH]; intros [|i] v Hl Hv; cbn; auto.
  - constructor; [exact Hv | exact (Forall_inv_tail Hl)].
  - constructor; [exact (Forall_inv Hl) | apply IH; [exact (Forall_inv_tail Hl) | exact Hv]].
Qed.

(* ------------------------------------------------------------------ memory: a store into block bd *)
Lemma block_upd_same m bd d : (bd < length m)%nat -> block (upd m bd d) bd = d.
Proof. intro H. unfold block. apply nth_upd_same. exact H. Qed.

Lemma block_upd_other m bd bs d : bd <> bs -> block (upd m bd d) bs = block m bs.
Proof. intro H. unfold block. apply nth_upd_other. exact H. Qed.

Lemma view_upd_other m bd bs os d : bd <> bs -> view (upd m bd d) (Ptr bs os) = view m (Ptr bs os).
Proof. intro H. cbn [view]. rewrite (block_upd_other m bd bs d H). reflexivity. Qed.

Lemma upd_block_id m b : upd m b (block m b) = m.
Proof. unfold block. apply upd_nth_id. Qed.

Lemma mem_ok_upd m b d : mem_ok m -> bytes_ok d -> mem_ok (upd m b d).
Proof. intros Hm Hd. unfold mem_ok. apply Forall_upd; assumption. Qed.

Lemma bytes_ok_upd d i c : bytes_ok d -> (c < 256)%N -> bytes_ok (upd d i c).
Proof. intros Hd Hc. unfold bytes_ok. apply Forall_upd; assumption. Qed.

(* loads, stores and pointer steps at a non-negative offset *)
Lemma load_nat m b o : load m (Ptr b (Z.of_nat o)) = nth_error (block m b) o.
Proof.
  cbn [load]. replace (0 <=? Z.of_nat o) with true by (symmetry; apply Z.leb_le; lia). rewrite Nat2Z.id. reflexivity.
Qed.

Lemma store_nat m b o v : store m (Ptr b (Z.of_nat o)) v =
  if Nat.ltb o (length (block m b)) && Nat.ltb b (length m) then Some (upd m b (upd (block m b) o v)) else None.
Proof.
  cbn [store]. replace (0 <=? Z.of_nat o) with true by (symmetry; apply Z.leb_le; lia). rewrite Nat2Z.id. cbn [andb].
  destruct (Nat.ltb_spec o (length (block m b))) as [L|L].
  - replace (Z.of_nat o <? Z.of_nat (length (block m b))) with true by (symmetry; apply Z.ltb_lt; lia). reflexivity.
  - replace (Z.of_nat o <? Z.of_nat (length (block m b))) with false by (symmetry; apply Z.ltb_ge; lia). reflexivity.
Qed.

Lemma padd1_nat m b o : (o < length (block m b))%nat -> padd m (Ptr b (Z.of_nat o)) 1 = Some (Ptr b (Z.of_nat (S o))).
Proof.
  intro L. cbn [padd]. replace (0 <=? Z.of_nat o + 1) with true by (symmetry; apply Z.leb_le; lia).
  replace (Z.of_nat o + 1 <=? Z.of_nat (length (block m b))) with true by (symmetry; apply Z.leb_le; lia).
  cbn [andb]. f_equal. f_equal. lia.
Qed.

(* ------------------------------------------------------------------ StrNCpy: the loop *)
(* At the head of the loop the byte c0 = *s2 has just been written at *s1 (offset o of block bd) and the counter is k + 1:
   `--n != 0 && *s1` is the model's `Nat.eqb k 0 || (c0 =? 0)` negated. *)
Lemma StrNCpy_loop_tie : forall r fuel0 fuel mem bd o bs os k c0,
  mem_ok mem -> bd <> bs -> (bd < length mem)%nat ->
  view mem (Ptr bs os) = c0 :: r ->
  nth_error (block mem bd) o = Some c0 ->
  Z.of_nat (S k) < M64 ->
  (length r < fuel)%nat ->
  match (if Nat.eqb k 0 || (c0 =? 0)%N then C13_Model.Ok (block mem bd) else StrNCpy_loop (block mem bd) (S o) r k) with
  | C13_Model.Ok d' => exists s1 s2 n',
      src_StrNCpy_loop1 fuel0 fuel mem (Ptr bd (Z.of_nat o)) (Ptr bs os) (Z.of_nat (S k)) = Go (upd mem bd d', s1, s2, n')
  | _ => src_StrNCpy_loop1 fuel0 fuel mem (Ptr bd (Z.of_nat o)) (Ptr bs os) (Z.of_nat (S k)) = CMem.Oob
  end.
Proof.
  induction r as [|c1 r IH]; intros fuel0 fuel mem bd o bs os k c0 Hm Hne Hbd Hv Hd Hk Hf;
    (destruct fuel as [|fuel]; [cbn in Hf; lia|]); cbn [src_StrNCpy_loop1];
    replace (Z.of_nat (S k) - 1) with (Z.of_nat k) by lia;
    rewrite (cw_u_small 64 (Z.of_nat k)) by (unfold M64 in Hk; lia);
    unfold c_ne;
    (destruct k as [|k]; [cbn [Z.of_nat Z.eqb negb b2z z2b Nat.eqb orb]; rewrite upd_block_id; eauto|]);
    replace (Z.of_nat (S k) =? 0) with false by (symmetry; apply Z.eqb_neq; lia);
    cbn [negb b2z z2b Z.eqb Nat.eqb orb]; rewrite load_nat, Hd;
    pose proof (view_ok mem (Ptr bs os) Hm) as Hb; rewrite Hv in Hb;
    pose proof (Forall_inv Hb) as Hc0; cbn beta in Hc0; rewrite (schar_zero c0 Hc0);
    (destruct (N.eqb_spec c0 0) as [->|Hn0]; cbn [negb b2z z2b Z.eqb]; [rewrite upd_block_id; eauto|]);
    destruct (view_padd1 _ _ _ _ _ Hv) as [Hp Hv']; rewrite Hp.
  - rewrite (view_nil_load _ _ Hv'). cbn [StrNCpy_loop rd bind]. reflexivity.
  - rewrite (view_cons_load _ _ _ _ _ Hv').
    assert (Lo : (o < length (block mem bd))%nat) by (apply nth_error_Some; rewrite Hd; discriminate).
    rewrite (padd1_nat mem bd o Lo). rewrite store_nat.
    cbn [StrNCpy_loop rd bind tl]. rewrite wr_eq.
    pose proof (Forall_inv_tail Hb) as Hb'. pose proof (Forall_inv Hb') as Hc1. cbn beta in Hc1.
    rewrite (byte_of_schar c1 Hc1).
    destruct (Nat.ltb_spec (S o) (length (block mem bd))) as [L|L]; cbn [andb bind]; [|reflexivity].
    replace (Nat.ltb bd (length mem)) with true by (symmetry; apply Nat.ltb_lt; exact Hbd).
    set (d1 := upd (block mem bd) (S o) c1). set (mem1 := upd mem bd d1).
    assert (Hm1 : mem_ok mem1).
    { apply mem_ok_upd; [exact Hm|]. apply bytes_ok_upd; [apply block_ok; exact Hm | exact Hc1]. }
    assert (Hbd1 : (bd < length mem1)%nat) by (unfold mem1; rewrite upd_length; exact Hbd).
    assert (Hv1 : view mem1 (Ptr bs (os + 1)) = c1 :: r) by (unfold mem1; rewrite view_upd_other by exact Hne; exact Hv').
    assert (Hblk : block mem1 bd = d1) by (apply block_upd_same; exact Hbd).
    assert (Hd1 : nth_error (block mem1 bd) (S o) = Some c1).
    { rewrite Hblk. unfold d1. apply nth_error_upd_same. exact L. }
    assert (Hk1 : Z.of_nat (S k) < M64) by lia.
    assert (Hf1 : (length r < fuel)%nat) by (cbn in Hf; lia).
    pose proof (IH fuel0 fuel mem1 bd (S o) bs (os + 1) k c1 Hm1 Hne Hbd1 Hv1 Hd1 Hk1 Hf1) as H.
    rewrite Hblk in H.
    destruct (if Nat.eqb k 0 || (c1 =? 0)%N then C13_Model.Ok d1 else StrNCpy_loop d1 (S (S o)) r k) as [d'| | |].
    + destruct H as (s1 & s2 & n' & H). exists s1, s2, n'. rewrite H. unfold mem1. rewrite upd_upd. reflexivity.
    + exact H.
    + exact H.
    + exact H.
Qed.

(* ------------------------------------------------------------------ StrNCpy: the function *)
Lemma src_StrNCpy_tie : forall fuel m bd od bs os n, mem_ok m -> bd <> bs -> (bd < length m)%nat -> 0 <= od ->
  0 <= n < M64 -> (length (view m (Ptr bs os)) < fuel)%nat ->
  src_StrNCpy fuel m (Ptr bd od) (Ptr bs os) n =
    match StrNCpy (block m bd) (Z.to_nat od) (view m (Ptr bs os)) (Z.to_nat n) with
    | C13_Model.Ok d' => FOk (Ptr bd od, upd m bd d')
    | _ => FOob
    end.
Proof.
  intros fuel m bd od bs os n Hm Hne Hbd Hod Hn Hf. unfold src_StrNCpy, StrNCpy.
  change (z2b (p_eq Null (Ptr bd od))) with false. cbv iota. unfold c_eq.
  destruct (Z.eqb_spec 0 n) as [<-|Hn0].
  - cbn [b2z z2b Z.eqb negb Z.to_nat Nat.eqb finish]. rewrite upd_block_id. reflexivity.
  - cbn [b2z z2b Z.eqb negb].
    replace (Nat.eqb (Z.to_nat n) 0) with false by (symmetry; apply Nat.eqb_neq; lia).
    destruct (Z.to_nat n) as [|k] eqn:Ek; [lia|].
    assert (En : n = Z.of_nat (S k)) by lia.
    assert (Eo : od = Z.of_nat (Z.to_nat od)) by lia.
    set (o := Z.to_nat od) in *. clearbody o. subst od n.
    cbn [StrNCpy_loop].
    destruct (view m (Ptr bs os)) as [|c0 r] eqn:Hv.
    + rewrite (view_nil_load _ _ Hv). reflexivity.
    + rewrite (view_cons_load _ _ _ _ _ Hv). cbn [rd bind tl].
      pose proof (view_ok m (Ptr bs os) Hm) as Hb. rewrite Hv in Hb. pose proof (Forall_inv Hb) as Hc0. cbn beta in Hc0.
      rewrite (byte_of_schar c0 Hc0). rewrite store_nat, wr_eq.
      destruct (Nat.ltb_spec o (length (block m bd))) as [L|L]; cbn [andb bind]; [|reflexivity].
      replace (Nat.ltb bd (length m)) with true by (symmetry; apply Nat.ltb_lt; exact Hbd).
      set (d1 := upd (block m bd) o c0). set (mem1 := upd m bd d1).
      assert (Hm1 : mem_ok mem1).
      { apply mem_ok_upd; [exact Hm|]. apply bytes_ok_upd; [apply block_ok; exact Hm | exact Hc0]. }
      assert (Hbd1 : (bd < length mem1)%nat) by (unfold mem1; rewrite upd_length; exact Hbd).
      assert (Hv1 : view mem1 (Ptr bs os) = c0 :: r) by (unfold mem1; rewrite view_upd_other by exact Hne; exact Hv).
      assert (Hblk : block mem1 bd = d1) by (apply block_upd_same; exact Hbd).
      assert (Hd1 : nth_error (block mem1 bd) o = Some c0).
      { rewrite Hblk. unfold d1. apply nth_error_upd_same. exact L. }
      assert (Hf1 : (length r < fuel)%nat) by (cbn in Hf; lia).
      pose proof (StrNCpy_loop_tie r fuel fuel mem1 bd o bs os k c0 Hm1 Hne Hbd1 Hv1 Hd1 (proj2 Hn) Hf1) as H.
      rewrite Hblk in H.
      destruct (if Nat.eqb k 0 || (c0 =? 0)%N then C13_Model.Ok d1 else StrNCpy_loop d1 (S o) r k) as [d'| | |].
      * destruct H as (s1 & s2 & n' & H). rewrite H. cbn [finish]. unfold mem1. rewrite upd_upd. reflexivity.
      * rewrite H. reflexivity.
      * rewrite H. reflexivity.
      * rewrite H. reflexivity.
Qed.

(* non-vacuity: copy "ab\0" (block 1, offset 1) to offset 1 of a 5-cell block 0, n = 5; and an overrun of the destination *)
Example src_StrNCpy_ex1 :
  src_StrNCpy 10 [[9; 9; 9; 9; 9]; [7; 97; 98; 0; 8]]%N (Ptr 0 1) (Ptr 1 1) 5
  = FOk (Ptr 0%nat 1, [[9; 97; 98; 0; 9]; [7; 97; 98; 0; 8]]%N).
Proof. vm_compute. reflexivity. Qed.
Example src_StrNCpy_ex2 :
  src_StrNCpy 10 [[9; 9]; [97; 98; 99; 0]]%N (Ptr 0 0) (Ptr 1 0) 4 = FOob.
Proof. vm_compute. reflexivity. Qed.
Example src_StrNCpy_ex3 :
  src_StrNCpy 10 [[9; 9]; [97; 98; 99; 0]]%N (Ptr 0 0) (Ptr 1 0) 2 = FOk (Ptr 0%nat 0, [[97; 98]; [97; 98; 99; 0]]%N).
Proof. vm_compute. reflexivity. Qed.
