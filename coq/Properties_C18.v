(* C18 -- String buffer cache never aliases live buffers and gives everything back.
   Only statements; every proof is `exact <lemma>` into C18_Proofs.v. *)
From Coq Require Import NArith Arith Bool List.
From CppUVerif Require Import gen.Gen_C18 C18_Model C18_Lists C18_Inv C18_Sim C18_Proofs.
Import ListNotations.
Local Open Scope N_scope.

(* for every history the model's observation satisfies the model-free statement of the property: no buffer handed out
   overlaps one in use, capacity >= request, reuse only within the size class, blocks go back at most once, with their size
   and never while in use, clearCache returns every idle block, clearAll everything obtained since construction,
   destruction the node array, and the first unknown release (and only it) warns *)
Theorem C18_run_meets_spec : forall s, valid s = true -> spec s (run s) = true.
Proof. exact run_meets_spec. Qed.
Print Assumptions C18_run_meets_spec.
