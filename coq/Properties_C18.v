(* C18 -- String buffer cache never aliases live buffers and gives everything back.
   Only statements; every proof is `exact <lemma>` into C18_Proofs.v / C18_Hist.v / C18_Lists.v.
   Histories are arbitrary lists of calls  LAlloc n | LDealloc p n | LClearCache | LClearAll  with ARBITRARY pointers p
   (a block id, whether or not the cache ever returned it, or a foreign pointer); `after ops` is the cache after them,
   `trace ops` every call made on the underlying allocator since (and including) construction, `chks` the allocator's own
   bookkeeping of such a trace (sizes by block id, ids given back). *)
From Coq Require Import NArith Arith Bool List.
From CppUVerif Require Import gen.Gen_C18 C18_Model C18_Lists C18_Inv C18_Sim C18_Proofs C18_Hist C18_ModelG C18_GInv C18_GSim C18_GProofs C18_ModelE C18_EInv C18_EBooks C18_EProofs C18_EThms C18_ModelW C18_WProofs.
Import ListNotations.
Local Open Scope N_scope.

(* for every scenario of the check's language -- a history of calls on a bare cache (C18_Model), a history over INSTALLED
   GlobalSimpleStringCache objects (C18_ModelG), or a history of one object in a scripted ENVIRONMENT (C18_ModelE: which malloc
   allocator is current at construction / destruction, another string allocator on top, an underlying allocator that re-enters
   the string allocator) -- the model's observation satisfies the model-free statement of the property:
   no buffer handed out overlaps one in use, capacity >= request, reuse only within the size class, blocks go back at most once,
   with their size, to the allocator they came from and never while in use, clearCache returns every idle block, clearAll
   everything obtained since construction, destruction the node array, and the first unknown release (and only it) warns *)
Theorem C18_run_meets_spec : forall s, zvalid s = true -> zspec s (zrun s) = true.
Proof. exact zrun_meets_zspec. Qed.
Print Assumptions C18_run_meets_spec.

(* (zscenario = the three modes above, or mode 4 -- C18_ModelW: the one-time WARNING PRINTED THROUGH THE CACHE.  The current
   test's output builds strings while it prints: at every print it requests a buffer g bytes larger and releases its old one --
   which was allocated before the cache came (a foreign release made from inside the print) or by the cache.  The test requests,
   releases, releases foreign buffers of any size and prints.  Every call on the cache, the output's included, is judged by the
   bare cache's oracle -- so a second warning, e.g. from the release the print itself makes, is refused -- and the output must have
   been entered exactly once per print of the test plus once for the one warning, nested at most once.) *)
Theorem C18_warnprint_run_meets_spec : forall s, wvalid s = true -> wspec s (wrun s) = true.
Proof. exact wrun_meets_wspec. Qed.
Print Assumptions C18_warnprint_run_meets_spec.

(* the flag is set by the very release that warns, BEFORE the print: in the state that release leaves behind no history of
   calls whatever -- the requests and releases the output makes while the warning is printed, foreign or not, and all later
   ones -- warns again *)
Theorem C18_warnprint_flag_set_before_print : forall st p n st1 x, dealloc st p n = (st1, x) -> o_warn x = true ->
  s_warned st = false /\ s_warned st1 = true /\ forall ops, warns (snd (exec st1 ops)) = O.
Proof. exact flag_set_before_print. Qed.
Print Assumptions C18_warnprint_flag_set_before_print.

(* a pointer the cache never handed out is an unknown release in every state, for every size (every class, non-cached) *)
Theorem C18_warnprint_foreign_release_is_unknown : forall st k n, dealloc st (PFor k) n = unknown_release st.
Proof. exact foreign_release_is_unknown. Qed.
Print Assumptions C18_warnprint_foreign_release_is_unknown.

(* at most one warning per object in EVERY history of mode 4 (valid or not), releases made by the print included *)
Theorem C18_warnprint_one_warning : forall s, (iwarns (wo_items (wrun s)) <= 1)%nat.
Proof. exact wrun_one_warning. Qed.
Print Assumptions C18_warnprint_one_warning.

(* printing is nested at most once *)
Theorem C18_warnprint_nesting : forall s, wvalid s = true -> wo_depth (wrun s) <= 2.
Proof. exact wrun_nesting. Qed.
Print Assumptions C18_warnprint_nesting.

(* the red-team variant (flag set only after the print): its calls up to the cut at nesting depth 3 are refused, whatever
   depth and number of prints are reported *)
Theorem C18_warnprint_late_flag_refuted : wvalid late_scn = true /\
  wspec late_scn {| wo_items := late_flag_items 20 40 30; wo_depth := 3; wo_prints := 3 |} = false /\
  (forall d p, wspec late_scn {| wo_items := late_flag_items 20 40 30; wo_depth := d; wo_prints := p |} = false).
Proof. exact late_flag_refuted. Qed.
Print Assumptions C18_warnprint_late_flag_refuted.

(* the three parts of it: the bare cache ... *)
Theorem C18_cache_run_meets_spec : forall s, valid s = true -> spec s (run s) = true.
Proof. exact run_meets_spec. Qed.
Print Assumptions C18_cache_run_meets_spec.

(* ... and the installed cache: any number of GlobalSimpleStringCache objects constructed one after the other or nested to any
   depth over a recording string allocator (an object nested in another takes the outer object's cache as its underlying
   allocator), requests / releases through whatever is installed or straight at the recorder, clearCache / clearAll of the
   innermost object, buffers of any size in use at any destruction, pointers of one object released under another.  The oracle
   judges: the recorder's books (every call legal, every block back at most once, with its size, never while a buffer in it is
   in use); buffers handed out inside owned unreturned blocks, large enough, not overlapping any buffer in use, reused only
   within their class; a release known iff the pointer is in use on the innermost object's account with a size of its class;
   the first unknown release at an object warns, no other; after clearCache the object holds exactly one header and one buffer
   per buffer in use on its account; after clearAll and after DESTRUCTION the object holds nothing of its underlying
   allocator's memory, and when it is the outermost object every recorder block obtained since its construction is back *)
Theorem C18_installed_run_meets_spec : forall sc, gvalid sc = true -> gspec sc (grun sc) = true.
Proof. exact grun_meets_gspec. Qed.
Print Assumptions C18_installed_run_meets_spec.

(* at the end of every valid installed scenario (objects still alive are destroyed) nothing is installed, the whole trace of
   calls is legal in the recorder's own books, no block went back twice, and every block the recorder ever handed out is back
   -- except buffers requested with nothing installed that are still in use *)
Theorem C18_installed_all_returned : forall sc, gvalid sc = true ->
  exists sf, gfinal sc = Some sf /\ C18_ModelG.q_lv sf = [] /\
    chks ([], []) (gtrace (grun sc)) = Some (q_bk sf) /\ NoDup (snd (q_bk sf)) /\
    forall id, id < N.of_nat (length (fst (q_bk sf))) -> In id (snd (q_bk sf)) \/ direct_live sf id.
Proof. exact installed_all_returned. Qed.
Print Assumptions C18_installed_all_returned.

(* whatever the state: after clearAll and after the destructor the forwarding recorder below the object counts no pointer
   outstanding and no pointer returned twice *)
Theorem C18_destroyed_object_holds_nothing : forall w w' x o, (o = GPop \/ o = GClearAll) -> gstep w o = (w', x) -> gi_out x = 0 /\ gi_dbl x = 0.
Proof. exact destroyed_holds_nothing. Qed.
Print Assumptions C18_destroyed_object_holds_nothing.

(* one installed object over the recorder IS the cache of C18_Model (whose functions are tied to the source by C18_HeapTie):
   a request makes the allocator calls of alloc, returns its pointer and leaves its lists; a release is dealloc; the clears are
   clear_cache / clear_all *)
Theorem C18_installed_request_is_alloc : forall c n,
  let st := g_st c in
  exists st' nx', u_alloc 1 [c] (s_next st) n = ([set_st c st'], nx', match o_ret (snd (alloc st n)) with Some p => p | None => 0 end,
                                                 o_evs (snd (alloc st n))) /\
              nx' = s_next (fst (alloc st n)) /\
              s_cache st' = s_cache (fst (alloc st n)) /\ s_non st' = s_non (fst (alloc st n)) /\ s_warned st' = s_warned (fst (alloc st n)).
Proof. exact single_request_is_alloc. Qed.
Print Assumptions C18_installed_request_is_alloc.
Theorem C18_installed_release_is_dealloc : forall c p n,
  u_free 1 [c] p n = ([set_st c (fst (dealloc (g_st c) p n))], o_evs (snd (dealloc (g_st c) p n)), o_warn (snd (dealloc (g_st c) p n))).
Proof. exact single_release_is_dealloc. Qed.
Print Assumptions C18_installed_release_is_dealloc.
Theorem C18_installed_clear_is_clear : forall c,
  u_clear clear_cache [c] = ([set_st c (fst (clear_cache (g_st c)))], o_evs (snd (clear_cache (g_st c))), false) /\
  u_clear clear_all [c] = ([set_st c (fst (clear_all (g_st c)))], o_evs (snd (clear_all (g_st c))), false).
Proof. exact single_clear_is_clear. Qed.
Print Assumptions C18_installed_clear_is_clear.

(* a destructor that only drops the cached blocks (clearCache in place of clearAll) is refuted by a computed scenario: an object
   destroyed with one buffer in use *)
Theorem C18_destroy_by_clear_cache_refuted : gvalid leak_scn = true /\ gspec leak_scn (grun_with gstep_cc_variant world0 leak_scn) = false.
Proof. exact destroy_by_clear_cache_refuted. Qed.
Print Assumptions C18_destroy_by_clear_cache_refuted.

(* ... and one object in a scripted environment: five allocators with their own books (default malloc allocator, two recording
   malloc allocators, the base string allocator U, a string allocator T installed on top), block ids over all of them; the
   current malloc allocator changed at any point; T installed over the cache or over U, in place or not when the object is
   destroyed; U building a string of its own inside free_memory / alloc_memory through whatever string allocator is in force;
   requests and releases at the cache, straight at U, at T.  The oracle judges: every block goes back only to the allocator it
   came from, at most once, with its size, never while a buffer in it is in use; every buffer handed out -- to the scenario or
   to U's own string -- lies inside a block obtained and NOT given back, is large enough, overlaps no buffer in use, in a block
   only ever used for one size class; nothing warns; when the object is gone every block obtained from ANY allocator since
   its construction began is back, except blocks of buffers in use that were not served by its cache *)
Theorem C18_env_run_meets_spec : forall s, evalid s = true -> espec s (erun s) = true.
Proof. exact erun_meets_espec. Qed.
Print Assumptions C18_env_run_meets_spec.

(* at the end of every valid environment scenario the object is gone, the whole trace (every call on every allocator, every
   buffer handed out) is legal in the allocators' own books `tapplies` (ids fresh, a block back only to the allocator it came
   from and not twice, no buffer inside memory already returned), and every block ever obtained from any allocator is back --
   except the blocks of buffers still in use that U or T served directly *)
Theorem C18_env_books_balanced : forall s, evalid s = true ->
  exists qf, efinal s (erun s) = Some qf /\ v_obj (q_env qf) = None /\
    tapplies ([], []) (etrace (erun s)) = Some (bk_of (q_b qf)) /\ NoDup (xf (q_b qf)) /\
    (forall e, In e (q_lv qf) -> le_own e < 2) /\
    forall id, id < xlen (q_b qf) -> In id (xf (q_b qf)) \/ In id (lids (q_lv qf)).
Proof. exact env_books_balanced. Qed.
Print Assumptions C18_env_books_balanced.

(* the string the underlying allocator builds for itself while the cache is in force (alloc, then dealloc of that buffer) leaves
   the cache's lists as they were -- lent an idle block of its class and got it back -- or with ONE more idle block in the
   string's class, or (above the bound) creates and destroys a block; the non-cached list is never changed *)
Theorem C18_env_string_life : forall r st nx st' nx' evs, map n_size (s_cache st) = class_sizes ->
  life r st nx = (st', nx', evs) -> life_case r st nx st' nx' evs.
Proof. exact life_cases. Qed.
Print Assumptions C18_env_string_life.

(* with an underlying allocator that does not re-enter, a request / a release / the destructor of this mode are alloc / dealloc /
   clear_all of the cache model C18_Model (whose functions are tied to the source by the C18_src_* theorems below) *)
Theorem C18_env_plain_request_is_alloc : forall st nx n,
  let '(st', nx', p, e) := r_alloc None st nx n in
  let '(st1, x) := alloc (set_next st nx) n in
  s_cache st' = s_cache st1 /\ s_non st' = s_non st1 /\ s_warned st' = s_warned st1 /\ nx' = s_next st1 /\ o_ret x = Some p /\ e = map xu (o_evs x).
Proof. exact plain_request_is_alloc. Qed.
Print Assumptions C18_env_plain_request_is_alloc.
Theorem C18_env_plain_release_is_dealloc : forall st nx p n,
  r_dealloc None st nx p n = (fst (dealloc st p n), nx, map xu (o_evs (snd (dealloc st p n))), o_warn (snd (dealloc st p n))).
Proof. exact plain_release_is_dealloc. Qed.
Print Assumptions C18_env_plain_release_is_dealloc.
Theorem C18_env_plain_destructor_is_clear_all : forall ra w st tab, ew_obj w = Some (st, tab) ->
  estep None ra w EPop =
  ({| ew_obj := None; ew_nx := ew_nx w; ew_cur := FU; ew_tsv := ew_tsv w; ew_res := ew_res w |},
   mk_ei (map xu (o_evs (snd (clear_all st))) ++ [XF who_D tab node_array_size]) None false).
Proof. exact plain_destructor_is_clear_all. Qed.
Print Assumptions C18_env_plain_destructor_is_clear_all.

(* the three red-team changes of round 5, each refuted by a computed scenario that the unchanged model passes:
   the node table taken from the CURRENT malloc allocator but returned to the default one (M1 current at construction) *)
Theorem C18_env_table_from_current_refuted :
  evalid sc_tab = true /\ espec sc_tab (erun_tab_variant None None 0 eworld0 (e_ops sc_tab)) = false /\ espec sc_tab (erun sc_tab) = true.
Proof. exact table_from_current_refuted. Qed.
Print Assumptions C18_env_table_from_current_refuted.
(* the destructor that uninstalls and clears only while its adaptor is still the current string allocator (T on top at destruction) *)
Theorem C18_env_guarded_destructor_refuted :
  evalid sc_guard = true /\ espec sc_guard (erun_with (estep_guarded_variant None None) eworld0 (e_ops sc_guard)) = false /\
  espec sc_guard (erun sc_guard) = true.
Proof. exact guarded_destructor_refuted. Qed.
Print Assumptions C18_env_guarded_destructor_refuted.
(* the destructor that clears BEFORE it uninstalls (U builds a string while the first block goes back: served the block just returned) *)
Theorem C18_env_clear_before_uninstall_refuted :
  evalid sc_order = true /\ espec sc_order (erun_with (estep_clear_first_variant (Some 10) None) eworld0 (e_ops sc_order)) = false /\
  espec sc_order (erun sc_order) = true.
Proof. exact clear_before_uninstall_refuted. Qed.
Print Assumptions C18_env_clear_before_uninstall_refuted.

(* in every reachable state the allocator accepted every call so far, all headers and buffers in all lists are pairwise
   distinct, the lists of a node hold only blocks obtained with that node's size (headers with the header size), the
   non-cached list only blocks above the cached bound, and nothing in a list has been given back *)
Theorem C18_inv : forall ops, exists bk, books_of ops = Some bk /\
  NoDup (all_ids (after ops)) /\
  (forall nd b, In nd (s_cache (after ops)) -> In b (n_free nd ++ n_used nd) ->
     szof (fst bk) (b_mem b) = Some (n_size nd) /\ szof (fst bk) (b_hdr b) = Some block_hdr_size /\
     ~ In (b_mem b) (snd bk) /\ ~ In (b_hdr b) (snd bk)) /\
  (forall b, In b (s_non (after ops)) ->
     (exists a, cached_bound < a /\ szof (fst bk) (b_mem b) = Some a) /\ szof (fst bk) (b_hdr b) = Some block_hdr_size /\
     ~ In (b_mem b) (snd bk) /\ ~ In (b_hdr b) (snd bk)).
Proof. exact inv_all. Qed.
Print Assumptions C18_inv.

(* the buffer alloc returns was on no used list and not among the non-cached blocks before the call *)
Theorem C18_no_alias : forall ops n id, o_ret (snd (alloc (after ops) n)) = Some id -> ~ In id (used_mems (after ops)).
Proof. exact no_alias. Qed.
Print Assumptions C18_no_alias.

(* alloc always returns the start of a block the allocator handed to the cache, not given back, of at least the
   requested size *)
Theorem C18_capacity : forall ops n, exists id bk a,
  o_ret (snd (step (after ops) (LAlloc n))) = Some id /\ books_of (ops ++ [LAlloc n]) = Some bk /\
  szof (fst bk) id = Some a /\ n <= a /\ ~ In id (snd bk).
Proof. exact capacity. Qed.
Print Assumptions C18_capacity.

(* two requests ever served by the same block are of the same size class *)
Theorem C18_reuse_same_class : forall ops id n1 n2,
  In (id, n1) (handouts ops (outs_of ops)) -> In (id, n2) (handouts ops (outs_of ops)) -> cls n1 = cls n2.
Proof. exact reuse_same_class. Qed.
Print Assumptions C18_reuse_same_class.

(* a request served without an allocator call took its block from the free list of the node of its own class *)
Theorem C18_reuse_from_class_node : forall ops n id, is_cached n = true ->
  o_ret (snd (alloc (after ops) n)) = Some id -> o_evs (snd (alloc (after ops) n)) = [] ->
  exists nd, In nd (s_cache (after ops)) /\ cls n = Some (n_size nd) /\ In id (mems (n_free nd)).
Proof. exact reuse_from_class_node. Qed.
Print Assumptions C18_reuse_from_class_node.

(* releasing a pointer that is not on the searched list (the used list of the class of the GIVEN size, or the non-cached
   list) changes no list, calls the allocator not at all, sets the flag and prints only if the flag was clear *)
Theorem C18_unknown_release : forall st p n, (forall b, In b (searched st n) -> mem_is b p = false) ->
  dealloc st p n = ({| s_cache := s_cache st; s_non := s_non st; s_warned := true; s_next := s_next st |},
                    mk_out [] None (negb (s_warned st))).
Proof. exact unknown_release_inert. Qed.
Print Assumptions C18_unknown_release.

(* at most one warning over a whole history *)
Theorem C18_warn_once : forall ops, (warns (outs_of ops) <= 1)%nat.
Proof. exact warn_once. Qed.
Print Assumptions C18_warn_once.

(* after clearAll and destruction the allocator's books are balanced: the calls were all legal (every free of a block
   obtained, not yet given back, with its size), no id was given back twice, and every id obtained has been given back *)
Theorem C18_all_returned : forall ops, exists bk,
  chks ([], []) (trace (ops ++ [LClearAll]) ++ o_evs (snd (destroy (after (ops ++ [LClearAll]))))) = Some bk /\
  NoDup (snd bk) /\ (forall id, In id (snd bk) <-> id < N.of_nat (length (fst bk))).
Proof. exact all_returned. Qed.
Print Assumptions C18_all_returned.

(* clearCache gives back exactly the blocks of the free lists (with their node's size), empties them, leaves the used
   lists and the non-cached list alone, and nothing still listed has been given back *)
Theorem C18_clear_cache_returns : forall ops,
  let st := after ops in let st' := fst (clear_cache st) in let x := snd (clear_cache st) in
  (forall nd b, In nd (s_cache st) -> In b (n_free nd) ->
     In (EF (b_mem b) (n_size nd)) (o_evs x) /\ In (EF (b_hdr b) block_hdr_size) (o_evs x)) /\
  s_cache st' = map keep_used (s_cache st) /\ s_non st' = s_non st /\
  exists bk, books_of (ops ++ [LClearCache]) = Some bk /\ forall id, In id (all_ids st') -> ~ In id (snd bk).
Proof. exact clear_cache_returns. Qed.
Print Assumptions C18_clear_cache_returns.

(* the code's head test + interior loop is "remove the first block whose buffer is the pointer" *)
Theorem C18_unlink_is_remove_first : forall l p, unlink l p = remove_first l p.
Proof. exact unlink_remove_first. Qed.
Print Assumptions C18_unlink_is_remove_first.

(* --------------------------------------------------------------------------------------------------------------
   The cache of the model IS the source: the 17 member functions of SimpleStringInternalCache as tools/cxx2heap.py regenerates them from SimpleStringInternalCache.cpp on every run (gen/Gen_HeapC18.v; C18_HeapRep.v: blk_cells / node_cells / cache_cells / chain / rep, ids relates header heap blocks to the model's allocation ordinals, erase reads the ghost allocator events as the model's EA / EF), run on a heap that represents a model state, return what the model's alloc / dealloc / clear_cache / clear_all return, make exactly the model's allocator calls, warn exactly when the model warns, and leave a heap that represents the model's new state; every block outside the cache structure is unchanged
   -------------------------------------------------------------------------------------------------------------- *)
From CppUVerif Require Import lib.CSem lib.CMem lib.CHeap gen.Gen_C18 gen.Gen_HeapC18 C18_HeapRep C18_HeapTie.
Local Open Scope Z_scope.
Theorem C18_layout_is_the_source :
  off_SimpleStringMemoryBlock_next_ = Z0 /\
  off_SimpleStringMemoryBlock_memory_ = Zpos 1 /\
  cells_SimpleStringMemoryBlock = Zpos 2 /\
  off_SimpleStringInternalCacheNode_size_ = Z0 /\
  off_SimpleStringInternalCacheNode_freeMemoryHead_ = Zpos 1 /\
  off_SimpleStringInternalCacheNode_usedMemoryHead_ = Zpos 2 /\
  cells_SimpleStringInternalCacheNode = Zpos 3 /\
  off_SimpleStringInternalCache_allocator_ = Z0 /\
  off_SimpleStringInternalCache_cache_ = Zpos 1 /\
  off_SimpleStringInternalCache_nonCachedAllocations_ = Zpos 2 /\
  off_SimpleStringInternalCache_hasWarnedAboutDeallocations = Zpos 3 /\
  cells_SimpleStringInternalCache = Zpos 4 /\
  sizeof_SimpleStringMemoryBlock = BinInt.Z.of_N block_hdr_size /\
  sizeof_SimpleStringInternalCacheNode = BinInt.Z.of_N cache_node_size /\
  (forall (b : mblock) (nxt : hptr), length (blk_cells b nxt) = BinInt.Z.to_nat cells_SimpleStringMemoryBlock) /\
  (forall (nd : mnode) (pf pu : hptr),
  length (node_cells nd pf pu) = BinInt.Z.to_nat cells_SimpleStringInternalCacheNode) /\
  (forall (al : Z) (bn : nat) (pn : hptr) (w : bool),
  length (cache_cells al bn pn w) = BinInt.Z.to_nat cells_SimpleStringInternalCache).
Proof. exact layout_is_the_source. Qed.
Print Assumptions C18_layout_is_the_source.

Theorem C18_src_cache_alloc_spec :
  forall (fuel : nat) (h : heap) (evs : list hev) (this : hptr) (ids : list (nat * N))
  (L : lay) (st : state) (n : N),
  rep h this ids L st ->
  fuel_ok fuel st ->
  exists (h' : heap) (evs' : list hev) (nx' : Z) (ids' : list (nat * N)) (L' : lay)
  (id : N),
  o_ret (snd (alloc st n)) = Some id /\
  src_cache_alloc fuel h evs (BinInt.Z.of_N (s_next st)) this (BinInt.Z.of_N n) =
  FOk (BinInt.Z.of_N id, h', evs', nx') /\
  (ids' = ids \/ ids' = (length h, s_next st) :: ids) /\
  tie_post h evs L this (alloc st n) h' evs' nx' ids' L'.
Proof. exact src_cache_alloc_spec. Qed.
Print Assumptions C18_src_cache_alloc_spec.

Theorem C18_src_cache_dealloc_spec :
  forall (fuel : nat) (h : heap) (evs : list hev) (this : hptr) (ids : list (nat * N))
  (L : lay) (st : state) (p : mptr) (n : N),
  rep h this ids L st ->
  fuel_ok fuel st ->
  exists (h' : heap) (evs' : list hev) (nx' : Z) (L' : lay),
  src_cache_dealloc fuel h evs (BinInt.Z.of_N (s_next st)) this (addr_of p) (BinInt.Z.of_N n) =
  FOk (tt, h', evs', nx') /\
  o_ret (snd (dealloc st p n)) = None /\ tie_post h evs L this (dealloc st p n) h' evs' nx' ids L'.
Proof. exact src_cache_dealloc_spec. Qed.
Print Assumptions C18_src_cache_dealloc_spec.

Theorem C18_src_cache_clearCache_spec :
  forall (fuel : nat) (h : heap) (evs : list hev) (this : hptr) (ids : list (nat * N)) (L : lay) (st : state),
  rep h this ids L st ->
  fuel_ok fuel st ->
  exists (h' : heap) (evs' : list hev) (nx' : Z) (L' : lay),
  src_cache_clearCache fuel h evs (BinInt.Z.of_N (s_next st)) this = FOk (tt, h', evs', nx') /\
  o_ret (snd (clear_cache st)) = None /\ tie_post h evs L this (clear_cache st) h' evs' nx' ids L'.
Proof. exact src_cache_clearCache_spec. Qed.
Print Assumptions C18_src_cache_clearCache_spec.

Theorem C18_src_cache_clearAll_spec :
  forall (fuel : nat) (h : heap) (evs : list hev) (this : hptr) (ids : list (nat * N)) (L : lay) (st : state),
  rep h this ids L st ->
  fuel_ok fuel st ->
  exists (h' : heap) (evs' : list hev) (nx' : Z) (L' : lay),
  src_cache_clearAllIncludingCurrentlyUsedMemory fuel h evs (BinInt.Z.of_N (s_next st)) this =
  FOk (tt, h', evs', nx') /\
  o_ret (snd (clear_all st)) = None /\ tie_post h evs L this (clear_all st) h' evs' nx' ids L'.
Proof. exact src_cache_clearAll_spec. Qed.
Print Assumptions C18_src_cache_clearAll_spec.
