(* C18 -- String buffer cache never aliases live buffers and gives everything back.
   Only statements; every proof is `exact <lemma>` into C18_Proofs.v. *)
From Coq Require Import NArith Arith Bool List.
From CppUVerif Require Import gen.Gen_C18 C18_Model C18_Proofs.
Import ListNotations.

Theorem C18_demo : valid demo = true /\ spec demo (run demo) = true.
Proof. exact demo_ok. Qed.
Print Assumptions C18_demo.
