(* C17 -- Pointers set for a test are restored after it; plugin actions nest properly.
   Only statements; every proof is `exact <lemma>` into C17_Proofs.v / C17_Links.v / C17_Chain.v / C17_Run.v / C17_Reinstall.v /
   C17_Process.v. *)
From Coq Require Import NArith Arith Bool List.
From CppUVerif Require Import gen.Gen_Common C17_Model C17_Proofs C17_Links C17_Chain C17_Run C17_Reinstall C17_ModelP C17_Process.
Import ListNotations.

(* every test (any statements in setup/body/teardown, any outcome) started with an empty table: after SetPointerPlugin's
   post action memory is exactly "every redirected location holds the value remembered at its first redirection,
   everything else what the test left", and the test failed iff a statement failed or the limit was passed *)
Theorem C17_restored : forall m t,
  match exec_test m [] t with
  | (m3, tb3, failed) => restore tb3 m3 = fst (ref_test m t) /\ failed = snd (ref_test m t)
  end.
Proof. exact test_refines. Qed.
Print Assumptions C17_restored.

(* the same in split form, directly on the code's table: for every sequence pre ++ UT_PTR_SET(l,v) :: post whose first
   redirection of l is the one shown, l ends with the value it had just before it -- for every continuation *)
Theorem C17_restored_first_value : forall pre l v post m,
  existsb is_abort pre = false -> existsb (sets_loc l) pre = false -> count_sets pre < max_set -> l < length m ->
  match exec_stmts m [] (pre ++ SSet l v :: post) with
  | (m', tb', _) => rd (restore tb' m') l = rd (plain m pre) l
  end.
Proof. exact restored_first_value. Qed.
Print Assumptions C17_restored_first_value.

(* locations never redirected are untouched by the post action *)
Theorem C17_untouched : forall ss m l, existsb (sets_loc l) ss = false -> l < length m ->
  match exec_stmts m [] ss with (m', tb', _) => rd (restore tb' m') l = rd m' l end.
Proof. exact untouched. Qed.
Print Assumptions C17_untouched.

(* the chain's post actions restore and empty the table exactly when an enabled SetPointerPlugin is in the chain *)
Theorem C17_post_actions : forall c m tb,
  fst (post_all c m tb) = if sp_active c then (restore tb m, []) else (m, tb).
Proof. exact post_all_state. Qed.
Print Assumptions C17_post_actions.

(* the table is empty between any two operations of every valid session ... *)
Theorem C17_consecutive_tests : forall s1 s2,
  valid (s1 ++ s2) = true -> s_tbl (exec_ops init_state s1) = [].
Proof. exact table_empty_between. Qed.
Print Assumptions C17_consecutive_tests.

(* ... and before every test inside every run (runAllTests, the runner) of a valid session, where that test is a valid one
   for the chain as the run so far has left it *)
Theorem C17_consecutive_tests_in_run : forall ts1 st t ts2 r',
  good st -> valid_tests (s_reg st) (ts1 ++ t :: ts2) = Some r' ->
  s_tbl (fst (run_tests st ts1)) = [] /\ xtest_ok (s_chain (fst (run_tests st ts1))) t = true.
Proof. exact table_empty_in_run. Qed.
Print Assumptions C17_consecutive_tests_in_run.

(* the redirection that finds the table full fails the test at that statement: nothing recorded, nothing assigned *)
Theorem C17_limit_fails_test : forall m tb l v r, max_set <= length tb -> exec_stmts m tb (SSet l v :: r) = (m, tb, false).
Proof. exact store_at_limit. Qed.
Print Assumptions C17_limit_fails_test.

(* in every session whatsoever (runs, acting plugins, the runner included) no table slot >= MAX_SET is ever used *)
Theorem C17_limit_no_overrun : forall ops st, length (s_tbl st) <= max_set -> length (s_tbl (exec_ops st ops)) <= max_set.
Proof. exact session_bounded. Qed.
Print Assumptions C17_limit_no_overrun.

(* pre actions: enabled plugins only, head of the chain first; post actions: the exact reverse *)
Theorem C17_order : forall m tb c t,
  match run_test m tb c t with
  | (_, _, ITest _ pre post _) => pre = map p_id (filter p_on c) /\ post = rev pre
  | _ => False
  end.
Proof. exact test_order. Qed.
Print Assumptions C17_order.

(* that plain recursion IS what the model runs for a test without actions on a chain of recording plugins (any table, a
   pointer plugin or none): observation, memory, table *)
Theorem C17_plain_recursion : forall st t, wf (s_reg st) -> passive (s_chain st) ->
  snd (run_xtest st (lift t)) = snd (run_test (s_mem st) (s_tbl st) (s_chain st) t) /\
  s_mem (fst (run_xtest st (lift t))) = fst (fst (run_test (s_mem st) (s_tbl st) (s_chain st) t)) /\
  s_tbl (fst (run_xtest st (lift t))) = snd (fst (run_test (s_mem st) (s_tbl st) (s_chain st) t)) /\
  s_reg (fst (run_xtest st (lift t))) = s_reg st.
Proof. exact passive_run_xtest. Qed.
Print Assumptions C17_plain_recursion.

(* the head of the chain is the plugin installed last *)
Theorem C17_install_order : forall l st,
  map p_id (s_chain (exec_ops st (map (fun nk => OInstall (fst nk) (snd nk)) l))) =
  rev (seq (s_next st) (length l)) ++ map p_id (s_chain st).
Proof. exact install_order. Qed.
Print Assumptions C17_install_order.

(* removal by name (repaired code): the chain without exactly the plugins of that name, wherever they stand *)
Theorem C17_remove_exact : forall n c, remove_by_name n c = filter (fun p => negb (N.eqb (p_name p) n)) c.
Proof. exact remove_by_name_without. Qed.
Print Assumptions C17_remove_exact.

Theorem C17_remove_unique : forall n c1 p c2, p_name p = n ->
  (forall q, In q (c1 ++ c2) -> p_name q <> n) -> remove_by_name n (c1 ++ p :: c2) = c1 ++ c2.
Proof. exact remove_unique. Qed.
Print Assumptions C17_remove_unique.

(* the code before the `fix:` commit for D16 did not have this property *)
Theorem C17_remove_exact_old_refuted : ~ (forall n c, remove_by_name_old n c = filter (fun p => negb (N.eqb (p_name p) n)) c).
Proof. exact remove_old_refuted. Qed.
Print Assumptions C17_remove_exact_old_refuted.

(* ---- install / remove / enable / disable while a run is going on *)
(* one test of a run, started on a well-formed registry with an empty table, valid for the chain c0 it starts with (its
   statements and the pre / post actions of c0's acting plugins may install, remove by name, enable, disable, reset -- also
   the acting plugin itself, in the last of its actions): afterwards the registry is the textbook one (the actions of the
   enabled acting plugins head first, of the statements that are reached, of the enabled acting plugins tail first, applied
   in that order; removal = every plugin of the name gone, installation = new head): THE NEXT TEST STARTS FROM THAT CHAIN;
   the table is empty, every pointer is back (the value before the first redirection), the verdict is the statements';
   the recording plugins that no action of the test names logged: enabled ones of c0 head first, then the exact reverse *)
Theorem C17_test_in_run : forall st0 t, wf (s_reg st0) -> s_tbl st0 = [] -> xtest_ok (s_chain st0) t = true ->
  s_reg (fst (run_xtest st0 t)) = fst (tb_acts (s_reg st0, []) (test_acts (s_chain st0) t)) /\
  s_tbl (fst (run_xtest st0 t)) = [] /\
  s_mem (fst (run_xtest st0 t)) = fst (ref_test (s_mem st0) (strip t)) /\
  snd (run_xtest st0 t) =
    ITest (snd (ref_test (s_mem st0) (strip t)))
          (filter (unnamed (snd (tb_acts (s_reg st0, []) (test_acts (s_chain st0) t)))) (log_ids (s_chain st0)))
          (filter (unnamed (snd (tb_acts (s_reg st0, []) (test_acts (s_chain st0) t)))) (rev (log_ids (s_chain st0))))
          (fst (ref_test (s_mem st0) (strip t))).
Proof. exact run_xtest_ok. Qed.
Print Assumptions C17_test_in_run.

(* a whole run (any number of tests, each valid for the chain the tests before it have left): the registry after the run is
   the textbook one, the table is empty, and the observations are the ones the oracle demands test by test *)
Theorem C17_run_takes_chain_at_each_test : forall ts st r', good st -> valid_tests (s_reg st) ts = Some r' ->
  s_reg (fst (run_tests st ts)) = r' /\ good (fst (run_tests st ts)) /\
  forall obs, spec_tests (s_reg st) (s_mem st) ts (snd (run_tests st ts) ++ obs) = Some (r', s_mem (fst (run_tests st ts)), obs).
Proof. exact run_tests_ok. Qed.
Print Assumptions C17_run_takes_chain_at_each_test.

(* whatever a test does (valid or not): a plugin of the chain that none of its actions names is still in the chain
   afterwards, unchanged -- removing by name removes nothing else, also from inside a run *)
Theorem C17_unnamed_plugins_stay : forall st t, wf (s_reg st) ->
  wf (s_reg (fst (run_xtest st t))) /\
  forall p, In p (s_chain st) -> ~ In (p_id p) (s_T (fst (run_xtest st t))) -> In p (s_chain (fst (run_xtest st t))).
Proof. exact run_xtest_J. Qed.
Print Assumptions C17_unnamed_plugins_stay.

(* ---- the command line runner *)
(* whatever plugins the registry holds -- any names, the runner's own plugin name included, pointer plugins or not, enabled
   or not, any number -- runAllTestsMain over tests that leave the registry alone (any redirections, any outcome, repeated
   -r times) is a valid scenario: C17_run_meets_spec then says every pointer is back after every test and after the run *)
Theorem C17_runner_any_registry : forall r rep ts, 0 < rep -> (forall p, In p (r_chain r) -> is_actor p = false) ->
  (forall t, In t ts -> stmt_acts t = [] /\ forallb stmt_ok (all_stmts (strip t)) = true) ->
  valid_from r [ORunner rep ts] = true.
Proof. exact runner_valid. Qed.
Print Assumptions C17_runner_any_registry.

(* ... directly: with the runner's plugin installed on top of such a registry, a test leaves every redirected pointer at the
   value it had before its first redirection, the table empty and the registry as it was *)
Theorem C17_runner_restores : forall st t, good st -> (forall p, In p (s_chain st) -> is_actor p = false) -> stmt_acts t = [] ->
  forallb stmt_ok (all_stmts (strip t)) = true ->
  let st1 := install st (runner_plugin (s_next st)) in
  s_mem (fst (run_xtest st1 t)) = fst (ref_test (s_mem st) (strip t)) /\ s_tbl (fst (run_xtest st1 t)) = [] /\
  s_reg (fst (run_xtest st1 t)) = s_reg st1.
Proof. exact runner_restores. Qed.
Print Assumptions C17_runner_restores.

(* the executable oracle accepts every model observation -- registry level (one registry, no command lines) *)
Theorem C17_registry_run_meets_spec : forall s, valid s = true -> spec s (run s) = true.
Proof. exact run_meets_spec. Qed.
Print Assumptions C17_registry_run_meets_spec.

(* ---- several runs in one process, each with its own command line (C17_ModelP.v) *)
(* the executable oracle used on the implementation's observations accepts every model observation, for every valid session
   of the extended language: registry operations, tests that pass / fail / THROW, registry runs, runner invocations with any
   command line (-e -f -p -v -vv -c -r<n>), UtestShell::setRethrowExceptions / setCrashOnFail calls in between; the model
   carries rethrowExceptions_, the crashing-terminator switch, the current-test statics and the registry's separate-process
   switch from run to run *)
Theorem C17_run_meets_spec : forall s, pvalid s = true -> pspec s (prun s) = true.
Proof. exact prun_meets_spec. Qed.
Print Assumptions C17_run_meets_spec.

(* more exactly: on a valid session the process-level model gives the observation of the registry-level model on the session
   with command lines, switch calls and the throw / fail difference erased.  No exception leaves a run. *)
Theorem C17_runs_erase_command_lines : forall s, pvalid s = true -> plain_items (prun s) = Some (run (lower_session s)).
Proof. exact prun_erases. Qed.
Print Assumptions C17_runs_erase_command_lines.

(* a runner invocation reads none of the process-wide switches it finds: whatever earlier runs or API calls left behind (any
   globals g, g'), observation, registry, pointers, whether an exception leaves it, and the rethrow switch afterwards are the same *)
Theorem C17_run_depends_on_own_command_line : forall g g' sep st cl ts,
  let A := pstep (mkP g sep st false) (PRunner cl ts) in
  let B := pstep (mkP g' sep st false) (PRunner cl ts) in
  snd A = snd B /\ p_st (fst A) = p_st (fst B) /\ p_dead (fst A) = p_dead (fst B) /\ p_sep (fst A) = p_sep (fst B) /\
  g_rethrow (p_g (fst A)) = g_rethrow (p_g (fst B)).
Proof. exact runner_own_cmdline. Qed.
Print Assumptions C17_run_depends_on_own_command_line.

(* ... so it behaves as it would in a fresh process on the same registry *)
Theorem C17_run_as_if_alone : forall P cl ts, p_dead P = false ->
  snd (pstep P (PRunner cl ts)) = snd (pstep (mkP init_globals (p_sep P) (p_st P) false) (PRunner cl ts)).
Proof. exact runner_as_if_alone. Qed.
Print Assumptions C17_run_as_if_alone.

(* -v / -vv, -c and -f change nothing that is observed *)
Theorem C17_output_options_change_nothing : forall cl v c f P ts,
  snd (pstep P (PRunner {| cl_e := cl_e cl; cl_f := f; cl_p := cl_p cl; cl_v := v; cl_c := c; cl_rep := cl_rep cl |} ts)) =
  snd (pstep P (PRunner cl ts)).
Proof. exact runner_output_options. Qed.
Print Assumptions C17_output_options_change_nothing.

(* between any two operations of a valid session: no exception has left a run, currentTest_ / testResult_ are back, the
   pointer table is empty, the registry is well-formed and its links are the chain *)
Theorem C17_between_runs : forall s1 s2, pvalid (s1 ++ s2) = true ->
  p_dead (pexec init_pstate s1) = false /\ g_stale (p_g (pexec init_pstate s1)) = false /\
  s_tbl (p_st (pexec init_pstate s1)) = [] /\ good (p_st (pexec init_pstate s1)).
Proof. exact between_runs. Qed.
Print Assumptions C17_between_runs.

(* where exceptions are not rethrown (or the test has no throw statement) a test that throws -- std::exception or an int, from
   setup, body or teardown, after any redirections -- is run exactly like the test that fails at that statement: teardown runs,
   the post actions run, nothing leaves runOneTestInCurrentProcess *)
Theorem C17_caught_throw_is_a_failure : forall rt st t, rt && has_throw t = false ->
  run_ytest rt st t = (fst (run_xtest st (lower t)), snd (run_xtest st (lower t)), false).
Proof. exact run_ytest_lower. Qed.
Print Assumptions C17_caught_throw_is_a_failure.

(* -p: tests run in forked children.  For tests that leave the registry alone, on a registry without acting plugins, the
   parent ends with exactly the state and observation of the run in the current process *)
Theorem C17_separate_process_loses_nothing : forall rt ts st r', rt && existsb has_throw ts = false -> good st -> calm (s_reg st) ->
  existsb has_acts ts = false -> valid_tests (s_reg st) (map lower ts) = Some r' ->
  run_ytests rt true st ts = (fst (run_tests st (map lower ts)), snd (run_tests st (map lower ts)), false).
Proof. exact run_ytests_sep. Qed.
Print Assumptions C17_separate_process_loses_nothing.

(* refuted: the runner that only ever switches rethrowing ON (red-team change C17-2 of round 5): after a run without -e, a run
   WITH -e in which a test redirects a pointer and throws -- the exception leaves the runner *)
Theorem C17_rethrow_only_switched_on_refuted : ~ (forall s, pvalid s = true -> pspec s (prun_only_on s) = true).
Proof. exact only_on_refuted. Qed.
Print Assumptions C17_rethrow_only_switched_on_refuted.

(* refuted, hence excluded by `pvalid`: a throwing test where rethrowing is on (no post actions, pointer not restored: that is
   what the switch is for), and registry actions of tests that -p runs in a child (lost with the child) *)
Theorem C17_rethrown_test_refuted : ~ (forall s, pvalid_any_throw s = true -> pspec s (prun s) = true).
Proof. exact rethrown_refuted. Qed.
Print Assumptions C17_rethrown_test_refuted.
Theorem C17_forked_registry_actions_refuted : ~ (forall s, pvalid_any_sep s = true -> pspec s (prun s) = true).
Proof. exact sep_actions_refuted. Qed.
Print Assumptions C17_forked_registry_actions_refuted.

(* ---- plugin objects that are removed and installed again *)
(* installPlugin on an object that is outside the chain (removed by name or dropped by resetPlugins earlier): it is the new
   head -- most recently installed first -- with the flags it carries; the rest of the chain does not move *)
Theorem C17_reinstall_head : forall r i p, find_id i (r_out r) = Some p ->
  r_chain (reg_act remove_by_name r (AReinstall i)) = p :: r_chain r /\ p_id p = i /\
  r_out (reg_act remove_by_name r (AReinstall i)) = take_id i (r_out r).
Proof. exact reinstall_head. Qed.
Print Assumptions C17_reinstall_head.

(* a plugin removed by name, wherever it stood (head, middle, tail), lives on outside the chain and may be installed again *)
Theorem C17_removed_can_return : forall r n p, wf r -> In p (r_chain r) -> p_name p = n -> is_runner p = false ->
  In p (r_out (reg_act without r (ARemove n))) /\ reinst_ok (reg_act without r (ARemove n)) (p_id p) = true.
Proof. exact removed_can_return. Qed.
Print Assumptions C17_removed_can_return.

Theorem C17_reset_can_return : forall r p, wf r -> In p (r_chain r) -> is_runner p = false ->
  reinst_ok (reg_act without r AReset) (p_id p) = true.
Proof. exact reset_can_return. Qed.
Print Assumptions C17_reset_can_return.

(* several objects handed back one after the other: most recently installed first, in front of the chain as it was *)
Theorem C17_reinstall_order : forall l r T, NoDup l -> (forall i, In i l -> exists p, find_id i (r_out r) = Some p) ->
  map p_id (r_chain (fst (tb_acts (r, T) (map AReinstall l)))) = rev l ++ map p_id (r_chain r).
Proof. exact reinstall_order. Qed.
Print Assumptions C17_reinstall_order.

(* an enabled recording plugin that is installed again sees the pre action of the next test first (and its post action last) *)
Theorem C17_reinstall_logs_first : forall r i p, find_id i (r_out r) = Some p -> p_on p = true -> logs p = true ->
  log_ids (r_chain (reg_act remove_by_name r (AReinstall i))) = i :: log_ids (r_chain r).
Proof. exact reinstall_logs_first. Qed.
Print Assumptions C17_reinstall_logs_first.

(* the code's side: objects with a next_ link and firstPlugin_.  TestPlugin::addPlugin OVERWRITES the link of the object it is
   given: for an object that is not in the chain -- whatever stale link it carries -- the chain afterwards is that object
   followed by the chain as it was *)
Theorem C17_install_overwrites_link : forall os f ids i, ~ In i ids -> path os f ids -> path (set_next os i f) (Some i) (i :: ids).
Proof. exact path_install. Qed.
Print Assumptions C17_install_overwrites_link.

(* TestRegistry::removePluginByName over the links: the loops end, the chain read from firstPlugin_ afterwards is the chain
   level's chain, names do not change, and no link is written except those of objects that stay in the chain: a removed
   object KEEPS the link it had (stale, pointing into the chain) *)
Theorem C17_remove_over_links : forall n c L fuel, path (l_objs L) (l_first L) (map p_id c) -> NoDup (map p_id c) ->
  (forall p, In p c -> oname (l_objs L) (p_id p) = p_name p) -> length c < fuel ->
  exists L', l_remove fuel n L = Some L' /\ path (l_objs L') (l_first L') (map p_id (remove_by_name n c)) /\
    (forall j, oname (l_objs L') j = oname (l_objs L) j) /\
    (forall j, ~ In j (map p_id (remove_by_name n c)) -> nxt (l_objs L') j = nxt (l_objs L) j).
Proof. exact remove_links. Qed.
Print Assumptions C17_remove_over_links.

(* every history of installs of new objects, removals by name, enables, disables, resets and re-installs of objects that are
   outside the chain at that moment (acts_ok), from any well-formed registry whose links are its chain: afterwards the links
   are again the chain (read from firstPlugin_ through the next_ links: exactly the chain level's list, every object once) *)
Theorem C17_links_follow_registry : forall l r T, wf r -> linked r -> acts_ok r l = true ->
  linked (fst (tb_acts (r, T) l)) /\ wf (fst (tb_acts (r, T) l)).
Proof. exact links_follow_registry. Qed.
Print Assumptions C17_links_follow_registry.

(* ... in particular after every prefix of every valid session (tests, runs, acting plugins, the runner included): the chain
   holds every installed object once and reading it through the links gives exactly that chain *)
Theorem C17_session_chain_is_links : forall s1 s2, valid (s1 ++ s2) = true ->
  NoDup (map p_id (s_chain (exec_ops init_state s1))) /\ linked (s_reg (exec_ops init_state s1)) /\
  read_chain (s_reg (exec_ops init_state s1)) = map p_id (s_chain (exec_ops init_state s1)).
Proof. exact session_linked. Qed.
Print Assumptions C17_session_chain_is_links.

(* runAllPreTestAction / runAllPostTestAction over such links end; the pre actions reach the enabled plugins of the chain head
   first, the post actions in the exact reverse; every enabled installed plugin exactly once, any other object never *)
Theorem C17_link_walks : forall r, wf r -> linked r ->
  l_pre (remove_fuel r) (l_objs (r_lnk r)) (on_of (r_chain r)) (l_first (r_lnk r)) = Some (pre_all (r_chain r)) /\
  l_post (remove_fuel r) (l_objs (r_lnk r)) (on_of (r_chain r)) (l_first (r_lnk r)) = Some (rev (pre_all (r_chain r))) /\
  (forall p, In p (r_chain r) -> p_on p = true -> count_occ Nat.eq_dec (pre_all (r_chain r)) (p_id p) = 1) /\
  (forall i, (forall p, In p (r_chain r) -> p_on p = true -> p_id p <> i) -> count_occ Nat.eq_dec (pre_all (r_chain r)) i = 0).
Proof. exact link_walks. Qed.
Print Assumptions C17_link_walks.

(* OUTSIDE the property (excluded by `valid`): installPlugin handed an object that IS in the chain.  The links become circular
   (reading the chain, the pre and post actions, removal by name never end); no statement of the form "the links stay the
   chain whatever object is installed" holds *)
Theorem C17_install_in_chain_refuted : ~ install_any_object_stmt.
Proof. exact install_any_object_refuted. Qed.
Print Assumptions C17_install_in_chain_refuted.

Theorem C17_install_always_wellformed_refuted : ~ install_always_wellformed_stmt.
Proof. exact install_always_wellformed_refuted. Qed.
Print Assumptions C17_install_always_wellformed_refuted.

Theorem C17_circular_chain_never_ends : forall fuel on,
  l_read fuel (l_objs (r_lnk ex_twice)) (l_first (r_lnk ex_twice)) = None /\
  l_pre fuel (l_objs (r_lnk ex_twice)) on (l_first (r_lnk ex_twice)) = None.
Proof. exact twice_never_ends. Qed.
Print Assumptions C17_circular_chain_never_ends.

(* a guard "an object that is the head or still carries a link is installed already" (what a red team put into installPlugin)
   does not implement installation: a removed object keeps its stale link and would never come back *)
Theorem C17_guard_on_stale_link_refuted : ~ guarded_install_links_in_stmt.
Proof. exact guarded_install_refuted. Qed.
Print Assumptions C17_guard_on_stale_link_refuted.

(* --------------------------------------------------------------------------------------------------------------
   The pointer table of the model IS the source: CppUTestStore and SetPointerPlugin::postTestAction as tools/cxx2heap.py regenerates them from TestPlugin.cpp on every run (gen/Gen_HeapC17.v; the file-static pointerTableIndex and setlist[MAX_SET] are heap objects, a void** is the address of a cell of the pool block; rep in C17_HeapTie.v), run on a heap representing (pool, table): a store below the limit extends the table exactly as the model's Set statement does and writes nothing else; a store into a FULL table writes nothing at all and fails the test (HFail); the post action leaves the pool the model's restore computes -- each location back at the value it had before its first redirection -- and an empty table
   -------------------------------------------------------------------------------------------------------------- *)
From CppUVerif Require Import lib.CSem lib.CMem lib.CHeap gen.Gen_HeapC17 C17_HeapTie.
Local Open Scope Z_scope.
Theorem C17_max_set_32 :
  max_set = 32.
Proof. exact max_set_32. Qed.
Print Assumptions C17_max_set_32.

Theorem C17_src_CppUTestStore_spec :
  forall (fuel : nat) (h : heap) (evs : list hev) (nx : Z) (bp bi bs : nat) (pool : mem) (tb : table) (l : nat),
  rep h bp bi bs pool tb ->
  length tb < max_set ->
  l < length pool ->
  exists h' : heap,
  src_CppUTestStore fuel h evs nx (HPtr bi Z0) (HPtr bs Z0) (loc_ptr bp l) = FOk (tt, h', evs, nx) /\
  rep h' bp bi bs pool ((l, rd pool l) :: tb) /\
  hblock h' bp = hblock h bp /\
  hblock h' bs =
  upd (upd (hblock h bs) (2 * length tb + 1) (VInt (BinInt.Z.of_N (rd pool l)))) (2 * length tb)
  (VPtr (loc_ptr bp l)) /\
  length h' = length h /\ (forall b : nat, b <> bi -> b <> bs -> hblock h' b = hblock h b).
Proof. exact src_CppUTestStore_spec. Qed.
Print Assumptions C17_src_CppUTestStore_spec.

Theorem C17_src_CppUTestStore_full_spec :
  forall (fuel : nat) (h : heap) (evs : list hev) (nx : Z) (bp bi bs : nat) (pool : mem) (tb : table) (f : hptr),
  rep h bp bi bs pool tb ->
  length tb = max_set ->
  0 < fuel -> src_CppUTestStore fuel h evs nx (HPtr bi Z0) (HPtr bs Z0) f = FOk (tt, h, evs ++ [HFail], nx).
Proof. exact src_CppUTestStore_full_spec. Qed.
Print Assumptions C17_src_CppUTestStore_full_spec.

Theorem C17_src_SetPointer_postTestAction_spec :
  forall (fuel : nat) (h : heap) (evs : list hev) (nx : Z) (this_ : hptr) (bp bi bs : nat)
  (pool : mem) (tb : table),
  rep h bp bi bs pool tb ->
  length tb < fuel ->
  exists h' : heap,
  src_SetPointer_postTestAction fuel h evs nx this_ (HPtr bi Z0) (HPtr bs Z0) = FOk (tt, h', evs, nx) /\
  rep h' bp bi bs (restore tb pool) [] /\
  hblock h' bp = pool_cells (restore tb pool) /\
  hblock h' bi = [VInt Z0] /\
  hblock h' bs = hblock h bs /\
  length h' = length h /\ (forall b : nat, b <> bp -> b <> bi -> hblock h' b = hblock h b).
Proof. exact src_SetPointer_postTestAction_spec. Qed.
Print Assumptions C17_src_SetPointer_postTestAction_spec.

Theorem C17_src_SetPointer_postTestAction_first_value :
  forall (fuel : nat) (h : heap) (evs : list hev) (nx : Z) (this_ : hptr) (bp bi bs : nat)
  (pool : mem) (tb : table),
  rep h bp bi bs pool tb ->
  length tb < fuel ->
  exists h' : heap,
  src_SetPointer_postTestAction fuel h evs nx this_ (HPtr bi Z0) (HPtr bs Z0) = FOk (tt, h', evs, nx) /\
  (forall l : nat,
  l < length pool ->
  cell h' bp l = Some (VInt (BinInt.Z.of_N match oldest tb l with
  | Some v => v
  | None => rd pool l
  end))).
Proof. exact src_SetPointer_postTestAction_first_value. Qed.
Print Assumptions C17_src_SetPointer_postTestAction_first_value.

Theorem C17_ut_ptr_set_spec :
  forall (fuel : nat) (h : heap) (evs : list hev) (nx : Z) (bp bi bs : nat) (pool : mem)
  (tb : table) (l : nat) (v : N),
  rep h bp bi bs pool tb ->
  length tb < max_set ->
  l < length pool ->
  exists h' h'' : heap,
  src_CppUTestStore fuel h evs nx (HPtr bi Z0) (HPtr bs Z0) (loc_ptr bp l) = FOk (tt, h', evs, nx) /\
  hstore h' (loc_ptr bp l) (VInt (BinInt.Z.of_N v)) = Some h'' /\
  exec_stmt pool tb (SSet l v) = (C17_Model.upd pool l v, (l, rd pool l) :: tb, true) /\
  rep h'' bp bi bs (C17_Model.upd pool l v) ((l, rd pool l) :: tb) /\
  (forall b : nat, b <> bp -> b <> bi -> b <> bs -> hblock h'' b = hblock h b).
Proof. exact ut_ptr_set_spec. Qed.
Print Assumptions C17_ut_ptr_set_spec.

(* --------------------------------------------------------------------------------------------------------------
   THE TRANSLATED SOURCE of the plugin chain (gen/Gen_HeapC17P.v, regenerated by tools/cxx2heap.py on every run: TestPlugin::addPlugin / runAllPreTestAction / runAllPostTestAction / getPluginByName / removePluginByName / enable / disable, TestRegistry::installPlugin / removePluginByName / getPluginByName / countPlugins / resetPlugins) computes the link-level model of C17_Model.v, so the C17 theorems over the links hold of the translated source
   -------------------------------------------------------------------------------------------------------------- *)
From CppUVerif Require Import lib.CSem lib.CMem lib.CHeap gen.Gen_HeapC17P C17_ChainTie.
Local Open Scope Z_scope.
Theorem C17_C17P_pre :
  forall (h : heap) (p : hptr) (nb : nat) (ps : list prec) (evs : list pcev) (fuel : nat),
  chain_at h p nb ps ->
  length ps <= fuel -> run_pre fuel h evs (HPtr nb Z0) p = FOk (tt, h, evs ++ pre_evs ps, HPtr nb Z0).
Proof. exact C17P_pre. Qed.
Print Assumptions C17_C17P_pre.

Theorem C17_C17P_post :
  forall (h : heap) (p : hptr) (nb : nat) (ps : list prec) (evs : list pcev) (fuel : nat),
  chain_at h p nb ps ->
  length ps <= fuel -> run_post fuel h evs (HPtr nb Z0) p = FOk (tt, h, evs ++ post_evs ps, HPtr nb Z0).
Proof. exact C17P_post. Qed.
Print Assumptions C17_C17P_post.

Theorem C17_post_is_reverse_of_pre :
  forall ps : list prec, map ev_ptr (post_evs ps) = rev (map ev_ptr (pre_evs ps)).
Proof. exact post_is_reverse_of_pre. Qed.
Print Assumptions C17_post_is_reverse_of_pre.

Theorem C17_pre_each_once :
  forall (h : heap) (p : hptr) (nb : nat) (ps : list prec),
  chain_at h p nb ps ->
  (forall x : prec, In x ps -> pe x = true -> count_occ hptr_dec (map ev_ptr (pre_evs ps)) (pptr x) = 1) /\
  (forall q : hptr,
  (forall x : prec, In x ps -> pe x = true -> pptr x <> q) ->
  count_occ hptr_dec (map ev_ptr (pre_evs ps)) q = 0).
Proof. exact pre_each_once. Qed.
Print Assumptions C17_pre_each_once.

Theorem C17_C17P_install :
  forall (h : heap) (rb nb : nat) (ps : list prec) (x : prec) (stale : hptr) (evs : list pcev) (fuel : nat),
  registry_at h rb nb ps ->
  hblock h (pb x) = pcells x stale ->
  ~ In (pb x) (map pb ps) ->
  pb x <> nb ->
  pb x <> rb ->
  exists h' : heap,
  src_registry_installPlugin fuel h evs (HPtr nb Z0) (HPtr rb Z0) (pptr x) = FOk (tt, h', evs, HPtr nb Z0) /\
  registry_at h' rb nb (x :: ps) /\
  length h' = length h /\
  (forall b : nat, b <> rb -> b <> pb x -> hblock h' b = hblock h b) /\
  (forall k : nat, k <> 3 -> nth_error (hblock h' rb) k = nth_error (hblock h rb) k).
Proof. exact C17P_install. Qed.
Print Assumptions C17_C17P_install.

Theorem C17_C17P_remove :
  forall (rb nb : nat) (name : Z) (evs : list pcev) (fuel0 : nat),
  rb <> nb ->
  forall (h : heap) (ps : list prec),
  registry_at h rb nb ps ->
  length ps < fuel0 ->
  exists h' : heap,
  src_registry_removePluginByName fuel0 h evs (HPtr nb Z0) (HPtr rb Z0) name = FOk (tt, h', evs, HPtr nb Z0) /\
  registry_at h' rb nb (keep name ps) /\
  length h' = length h /\
  (forall b : nat, b <> rb -> ~ In b (map pb (keep name ps)) -> hblock h' b = hblock h b) /\
  (forall k : nat, k <> 3 -> nth_error (hblock h' rb) k = nth_error (hblock h rb) k).
Proof. exact C17P_remove. Qed.
Print Assumptions C17_C17P_remove.

Theorem C17_C17P_removed_keep_cells :
  forall (rb nb : nat) (name : Z) (evs : list pcev) (h : heap) (ps : list prec) (fuel : nat) (h' : heap),
  rb <> nb ->
  registry_at h rb nb ps ->
  src_registry_removePluginByName fuel h evs (HPtr nb Z0) (HPtr rb Z0) name = FOk (tt, h', evs, HPtr nb Z0) ->
  length ps < fuel -> forall x : prec, In x ps -> pn x = name -> hblock h' (pb x) = hblock h (pb x).
Proof. exact C17P_removed_keep_cells. Qed.
Print Assumptions C17_C17P_removed_keep_cells.

Theorem C17_C17P_reinstall_removed :
  forall (rb nb : nat) (name : Z) (evs : list pcev) (h : heap) (ps : list prec) (fuel : nat) (x : prec),
  rb <> nb ->
  registry_at h rb nb ps ->
  length ps < fuel ->
  In x ps ->
  pn x = name ->
  exists h1 h2 : heap,
  src_registry_removePluginByName fuel h evs (HPtr nb Z0) (HPtr rb Z0) name = FOk (tt, h1, evs, HPtr nb Z0) /\
  src_registry_installPlugin fuel h1 evs (HPtr nb Z0) (HPtr rb Z0) (pptr x) = FOk (tt, h2, evs, HPtr nb Z0) /\
  registry_at h2 rb nb (x :: keep name ps).
Proof. exact C17P_reinstall_removed. Qed.
Print Assumptions C17_C17P_reinstall_removed.

Theorem C17_C17P_getByName_found :
  forall (h : heap) (rb nb : nat) (ps : list prec) (a name : Z) (evs : list pcev) (fuel : nat),
  registry_at h rb nb ps ->
  term_at h nb a ->
  a <> name ->
  length ps < fuel ->
  src_registry_getPluginByName fuel h evs (HPtr nb Z0) (HPtr rb Z0) name =
  FOk (match first_named name ps with
  | Some x => pptr x
  | None => HNull
  end, h, evs, HPtr nb Z0).
Proof. exact C17P_getByName_found. Qed.
Print Assumptions C17_C17P_getByName_found.

Theorem C17_C17P_count :
  forall (h : heap) (rb nb : nat) (ps : list prec) (evs : list pcev) (fuel : nat),
  registry_at h rb nb ps ->
  length ps < fuel ->
  BinInt.Z.lt (BinInt.Z.of_nat (length ps)) (BinInt.Z.pow (Zpos 2) (Zpos 31)) ->
  src_registry_countPlugins fuel h evs (HPtr nb Z0) (HPtr rb Z0) =
  FOk (BinInt.Z.of_nat (length ps), h, evs, HPtr nb Z0).
Proof. exact C17P_count. Qed.
Print Assumptions C17_C17P_count.

Theorem C17_C17P_reset :
  forall (h : heap) (rb nb : nat) (ps : list prec) (evs : list pcev) (fuel : nat),
  registry_at h rb nb ps ->
  src_registry_resetPlugins fuel h evs (HPtr nb Z0) (HPtr rb Z0) =
  FOk (tt, set_first h rb (HPtr nb Z0), evs, HPtr nb Z0) /\
  registry_at (set_first h rb (HPtr nb Z0)) rb nb [] /\
  length (set_first h rb (HPtr nb Z0)) = length h /\
  (forall b : nat, b <> rb -> hblock (set_first h rb (HPtr nb Z0)) b = hblock h b) /\
  (forall k : nat, k <> 3 -> nth_error (hblock (set_first h rb (HPtr nb Z0)) rb) k = nth_error (hblock h rb) k).
Proof. exact C17P_reset. Qed.
Print Assumptions C17_C17P_reset.

Theorem C17_C17P_l_install :
  forall (rb nb : nat) (bk : nat -> nat) (h : heap) (D : nat -> Prop) (on : nat -> bool)
  (L : links) (i : nat) (evs : list pcev) (fuel : nat),
  links_at rb nb bk h D on L ->
  D i ->
  exists h' : heap,
  src_registry_installPlugin fuel h evs (HPtr nb Z0) (HPtr rb Z0) (HPtr (bk i) Z0) =
  FOk (tt, h', evs, HPtr nb Z0) /\
  links_at rb nb bk h' D on (l_install i L) /\
  length h' = length h /\
  (forall b : nat, b <> rb -> b <> bk i -> hblock h' b = hblock h b) /\
  (forall k : nat, k <> 3 -> nth_error (hblock h' rb) k = nth_error (hblock h rb) k).
Proof. exact C17P_l_install. Qed.
Print Assumptions C17_C17P_l_install.

Theorem C17_C17P_l_remove :
  forall (rb nb : nat) (bk : nat -> nat) (D : nat -> Prop) (on : nat -> bool) (n : N)
  (evs : list pcev) (fuel0 : nat),
  geo rb nb bk D ->
  forall (h : heap) (L L' : links) (fuel : nat),
  links_at rb nb bk h D on L ->
  l_remove fuel n L = Some L' ->
  fuel < fuel0 ->
  exists h' : heap,
  src_registry_removePluginByName fuel0 h evs (HPtr nb Z0) (HPtr rb Z0) (BinInt.Z.of_N n) =
  FOk (tt, h', evs, HPtr nb Z0) /\
  links_at rb nb bk h' D on L' /\
  length h' = length h /\
  (forall b : nat, (forall i : nat, D i -> b <> bk i) -> b <> rb -> hblock h' b = hblock h b) /\
  (forall k : nat, k <> 3 -> nth_error (hblock h' rb) k = nth_error (hblock h rb) k) /\
  (forall i : nat, D i -> nxt (l_objs L') i = nxt (l_objs L) i -> hblock h' (bk i) = hblock h (bk i)).
Proof. exact C17P_l_remove. Qed.
Print Assumptions C17_C17P_l_remove.

Theorem C17_C17P_l_reset :
  forall (rb nb : nat) (bk : nat -> nat) (h : heap) (D : nat -> Prop) (on : nat -> bool)
  (L : links) (evs : list pcev) (fuel : nat),
  links_at rb nb bk h D on L ->
  src_registry_resetPlugins fuel h evs (HPtr nb Z0) (HPtr rb Z0) =
  FOk (tt, set_first h rb (HPtr nb Z0), evs, HPtr nb Z0) /\
  links_at rb nb bk (set_first h rb (HPtr nb Z0)) D on (l_reset L) /\
  (forall b : nat, b <> rb -> hblock (set_first h rb (HPtr nb Z0)) b = hblock h b).
Proof. exact C17P_l_reset. Qed.
Print Assumptions C17_C17P_l_reset.

Theorem C17_C17P_l_read :
  forall (rb nb : nat) (bk : nat -> nat) (h : heap) (D : nat -> Prop) (on : nat -> bool) (os : list obj),
  geo rb nb bk D ->
  objs_at nb bk h D on os ->
  forall (fuel : nat) (f : C17_Model.ptr),
  closed D f ->
  h_read fuel h (HPtr nb Z0) (optr nb bk f) =
  match l_read fuel os f with
  | Some ids => Some (optrs bk ids)
  | None => None
  end.
Proof. exact C17P_l_read. Qed.
Print Assumptions C17_C17P_l_read.

Theorem C17_C17P_l_pre :
  forall (rb nb : nat) (bk : nat -> nat) (h : heap) (D : nat -> Prop) (on : nat -> bool) (os : list obj),
  geo rb nb bk D ->
  objs_at nb bk h D on os ->
  forall (fuel : nat) (f : C17_Model.ptr) (r : list nat) (evs : list pcev),
  closed D f ->
  l_pre fuel os on f = Some r ->
  run_pre fuel h evs (HPtr nb Z0) (optr nb bk f) =
  FOk (tt, h, evs ++ map (fun i : nat => PPre (HPtr (bk i) Z0)) r, HPtr nb Z0).
Proof. exact C17P_l_pre. Qed.
Print Assumptions C17_C17P_l_pre.

Theorem C17_C17P_l_post :
  forall (rb nb : nat) (bk : nat -> nat) (h : heap) (D : nat -> Prop) (on : nat -> bool) (os : list obj),
  geo rb nb bk D ->
  objs_at nb bk h D on os ->
  forall (fuel : nat) (f : C17_Model.ptr) (r : list nat) (evs : list pcev),
  closed D f ->
  l_post fuel os on f = Some r ->
  run_post fuel h evs (HPtr nb Z0) (optr nb bk f) =
  FOk (tt, h, evs ++ map (fun i : nat => PPost (HPtr (bk i) Z0)) r, HPtr nb Z0).
Proof. exact C17P_l_post. Qed.
Print Assumptions C17_C17P_l_post.

Theorem C17_C17P_install_overwrites_link :
  forall (rb nb : nat) (bk : nat -> nat) (h : heap) (D : nat -> Prop) (on : nat -> bool)
  (L : links) (ids : list nat) (i : nat) (evs : list pcev) (fuel : nat),
  links_at rb nb bk h D on L ->
  path (l_objs L) (l_first L) ids ->
  D i ->
  ~ In i ids ->
  exists h' : heap,
  src_registry_installPlugin fuel h evs (HPtr nb Z0) (HPtr rb Z0) (HPtr (bk i) Z0) =
  FOk (tt, h', evs, HPtr nb Z0) /\
  links_at rb nb bk h' D on (l_install i L) /\
  h_read (S (S (length ids))) h' (HPtr nb Z0) (HPtr (bk i) Z0) = Some (optrs bk (i :: ids)).
Proof. exact C17P_install_overwrites_link. Qed.
Print Assumptions C17_C17P_install_overwrites_link.

Theorem C17_C17P_remove_over_links :
  forall (rb nb : nat) (bk : nat -> nat) (h : heap) (D : nat -> Prop) (on : nat -> bool)
  (L : links) (n : N) (c : list plugin) (evs : list pcev) (fuel : nat),
  links_at rb nb bk h D on L ->
  path (l_objs L) (l_first L) (map p_id c) ->
  NoDup (map p_id c) ->
  (forall p : plugin, In p c -> oname (l_objs L) (p_id p) = p_name p) ->
  S (length c) < fuel ->
  exists (h' : heap) (L' : links),
  src_registry_removePluginByName fuel h evs (HPtr nb Z0) (HPtr rb Z0) (BinInt.Z.of_N n) =
  FOk (tt, h', evs, HPtr nb Z0) /\
  l_remove (S (length c)) n L = Some L' /\
  links_at rb nb bk h' D on L' /\
  h_read fuel h' (HPtr nb Z0) (optr nb bk (l_first L')) = Some (optrs bk (map p_id (without n c))) /\
  (forall j : nat, D j -> ~ In j (map p_id (without n c)) -> hblock h' (bk j) = hblock h (bk j)).
Proof. exact C17P_remove_over_links. Qed.
Print Assumptions C17_C17P_remove_over_links.

Theorem C17_reg_rep_act :
  forall (rb nb : nat) (bk : nat -> nat) (h : heap) (r : reg) (a : act) (evs : list pcev) (fuel : nat),
  reg_rep rb nb bk h r ->
  act_ok r a = true ->
  act_pre rb nb bk h r a ->
  remove_fuel r < fuel ->
  exists h' : heap,
  src_act rb nb bk fuel h evs r a = FOk (tt, h', evs, HPtr nb Z0) /\ reg_rep rb nb bk h' (reg_act without r a).
Proof. exact reg_rep_act. Qed.
Print Assumptions C17_reg_rep_act.

Theorem C17_reg_rep_pre :
  forall (rb nb : nat) (bk : nat -> nat) (h : heap) (r : reg) (st : state) (evs : list pcev) (fuel : nat),
  reg_rep rb nb bk h r ->
  s_reg st = r ->
  passive (r_chain r) ->
  remove_fuel r <= fuel ->
  run_pre fuel h evs (HPtr nb Z0) (optr nb bk (l_first (r_lnk r))) =
  FOk
  (tt, h, evs ++ map (fun i : nat => PPre (HPtr (bk i) Z0)) (snd (walk false (r_chain r) st [])), HPtr nb Z0).
Proof. exact reg_rep_pre. Qed.
Print Assumptions C17_reg_rep_pre.

Theorem C17_reg_rep_post :
  forall (rb nb : nat) (bk : nat -> nat) (h : heap) (r : reg) (st : state) (evs : list pcev) (fuel : nat),
  reg_rep rb nb bk h r ->
  s_reg st = r ->
  passive (r_chain r) ->
  remove_fuel r <= fuel ->
  run_post fuel h evs (HPtr nb Z0) (optr nb bk (l_first (r_lnk r))) =
  FOk
  (tt, h, evs ++ map (fun i : nat => PPost (HPtr (bk i) Z0)) (snd (walk true (rev (r_chain r)) st [])),
  HPtr nb Z0).
Proof. exact reg_rep_post. Qed.
Print Assumptions C17_reg_rep_post.

Theorem C17_get_null_for_absent_refuted :
  ~ get_null_for_absent_stmt.
Proof. exact get_null_for_absent_refuted. Qed.
Print Assumptions C17_get_null_for_absent_refuted.

Theorem C17_install_any_block_refuted :
  ~ install_any_block_stmt.
Proof. exact install_any_block_refuted. Qed.
Print Assumptions C17_install_any_block_refuted.

(* --------------------------------------------------------------------------------------------------------------
   SOURCE TIE (what a run's command line does to the process-wide switches): CommandLineTestRunner::initializeTestRun as translated on every run into gen/Gen_HeapC12R.v -- setRethrowExceptions is called with this run's value whatever the switch was, setCrashOnFail only ever switches on; C17_ModelP.runner_globals is that effect, the 'only ever on' variant is not
   -------------------------------------------------------------------------------------------------------------- *)
From CppUVerif Require gen.Gen_HeapC12R C12_RunnerTie C12_RunnerLinks.
Local Open Scope Z_scope.
Theorem C17_initializeTestRun_events :
  forall (fuel : nat) (h : heap) (evs : list Gen_HeapC12R.rnev) (gf nf v vv c sep ri cr rt : Z)
  (ps rs ms : list Z) (this : hptr),
  Gen_HeapC12R.src_runner_initializeTestRun fuel h evs gf nf v vv c sep ri cr rt ps rs ms this =
  FOk
  (tt, h, evs ++ C12_RunnerTie.init_events gf nf v vv c sep ri cr rt, gf, nf, v, vv, c, sep, ri, cr, rt, ps,
  rs, ms).
Proof. exact C12_RunnerTie.initializeTestRun_events. Qed.
Print Assumptions C17_initializeTestRun_events.

Theorem C17_initializeTestRun_effect :
  forall (s : C12_RunnerTie.switches) (gf nf v vv c sep ri cr rt : Z),
  let s' := C12_RunnerTie.after s (C12_RunnerTie.init_events gf nf v vv c sep ri cr rt) in
  C12_RunnerTie.s_gf s' = gf /\
  C12_RunnerTie.s_nf s' = nf /\
  C12_RunnerTie.s_rethrow s' = z2b rt /\
  C12_RunnerTie.s_run_ignored s' = C12_RunnerTie.s_run_ignored s || z2b ri /\
  C12_RunnerTie.s_separate s' = C12_RunnerTie.s_separate s || z2b sep /\
  C12_RunnerTie.s_crash s' = C12_RunnerTie.s_crash s || z2b cr /\
  C12_RunnerTie.s_color s' = C12_RunnerTie.s_color s || z2b c /\
  C12_RunnerTie.s_verbosity s' =
  (if z2b vv then Zpos 2 else if z2b v then Zpos 1 else C12_RunnerTie.s_verbosity s).
Proof. exact C12_RunnerTie.initializeTestRun_effect. Qed.
Print Assumptions C17_initializeTestRun_effect.

Theorem C17_runner_globals_is_the_translated_initializeTestRun :
  forall (cl : cmdline) (g : globals) (s : C12_RunnerTie.switches) (gf nf v vv col sep ri : Z),
  let s' :=
  C12_RunnerTie.after (C12_RunnerLinks.sw_of_globals g s)
  (C12_RunnerTie.init_events gf nf v vv col sep ri (b2z (cl_f cl)) (b2z (negb (cl_e cl)))) in
  C12_RunnerTie.s_rethrow s' = g_rethrow (runner_globals cl g) /\
  C12_RunnerTie.s_crash s' = g_crash (runner_globals cl g).
Proof. exact C12_RunnerLinks.runner_globals_is_the_translated_initializeTestRun. Qed.
Print Assumptions C17_runner_globals_is_the_translated_initializeTestRun.

Theorem C17_only_on_differs_from_the_source :
  let g := {| g_rethrow := true; g_crash := false; g_stale := false |} in
  let cl := {| cl_e := true; cl_f := false; cl_p := false; cl_v := 0; cl_c := false; cl_rep := 1 |} in
  g_rethrow (runner_globals_only_on cl g) = true /\
  C12_RunnerTie.s_rethrow
  (C12_RunnerTie.after
  (C12_RunnerLinks.sw_of_globals g
  {|
  C12_RunnerTie.s_gf := Z0;
  C12_RunnerTie.s_nf := Z0;
  C12_RunnerTie.s_verbosity := Z0;
  C12_RunnerTie.s_color := false;
  C12_RunnerTie.s_separate := false;
  C12_RunnerTie.s_run_ignored := false;
  C12_RunnerTie.s_crash := false;
  C12_RunnerTie.s_rethrow := false
  |}) (C12_RunnerTie.init_events Z0 Z0 Z0 Z0 Z0 Z0 Z0 Z0 (b2z (negb (cl_e cl))))) = false.
Proof. exact C12_RunnerLinks.only_on_differs_from_the_source. Qed.
Print Assumptions C17_only_on_differs_from_the_source.
