(* C17 -- Pointers set for a test are restored after it; plugin actions nest properly.
   Only statements; every proof is `exact <lemma>` into C17_Proofs.v. *)
From Coq Require Import NArith Arith Bool List.
From CppUVerif Require Import gen.Gen_Common C17_Model C17_Proofs.
Import ListNotations.

(* every test (any statements in setup/body/teardown, any outcome) started with an empty table: after SetPointerPlugin's
   post action memory is exactly "every redirected location holds the value remembered at its first redirection,
   everything else what the test left", and the test failed iff a statement failed or the limit was passed *)
Theorem C17_restored : forall m t,
  match exec_test m [] t with
  | (m3, tb3, failed) => restore tb3 m3 = fst (ref_test m t) /\ failed = snd (ref_test m t)
  end.
Proof. exact test_refines. Qed.
Print Assumptions C17_restored.

(* the same in split form, directly on the code's table: for every sequence pre ++ UT_PTR_SET(l,v) :: post whose first
   redirection of l is the one shown, l ends with the value it had just before it -- for every continuation *)
Theorem C17_restored_first_value : forall pre l v post m,
  existsb is_abort pre = false -> existsb (sets_loc l) pre = false -> count_sets pre < max_set -> l < length m ->
  match exec_stmts m [] (pre ++ SSet l v :: post) with
  | (m', tb', _) => rd (restore tb' m') l = rd (plain m pre) l
  end.
Proof. exact restored_first_value. Qed.
Print Assumptions C17_restored_first_value.

(* locations never redirected are untouched by the post action *)
Theorem C17_untouched : forall ss m l, existsb (sets_loc l) ss = false -> l < length m ->
  match exec_stmts m [] ss with (m', tb', _) => rd (restore tb' m') l = rd m' l end.
Proof. exact untouched. Qed.
Print Assumptions C17_untouched.

(* the chain's post actions restore and empty the table exactly when an enabled SetPointerPlugin is in the chain *)
Theorem C17_post_actions : forall c m tb,
  fst (post_all c m tb) = if sp_active c then (restore tb m, []) else (m, tb).
Proof. exact post_all_state. Qed.
Print Assumptions C17_post_actions.

(* the table is empty before every test of every valid session *)
Theorem C17_consecutive_tests : forall s1 t s2,
  valid (s1 ++ OTest t :: s2) = true -> s_tbl (exec_ops init_state s1) = [].
Proof. exact table_empty_before_every_test. Qed.
Print Assumptions C17_consecutive_tests.

(* the redirection that finds the table full fails the test at that statement: nothing recorded, nothing assigned *)
Theorem C17_limit_fails_test : forall m tb l v r, max_set <= length tb -> exec_stmts m tb (SSet l v :: r) = (m, tb, false).
Proof. exact store_at_limit. Qed.
Print Assumptions C17_limit_fails_test.

(* in every session whatsoever no table slot >= MAX_SET is ever used *)
Theorem C17_limit_no_overrun : forall ops st, length (s_tbl st) <= max_set -> length (s_tbl (exec_ops st ops)) <= max_set.
Proof. exact session_bounded. Qed.
Print Assumptions C17_limit_no_overrun.

(* pre actions: enabled plugins only, head of the chain first; post actions: the exact reverse *)
Theorem C17_order : forall m tb c t,
  match run_test m tb c t with
  | (_, _, ITest _ pre post _) => pre = map p_id (filter p_on c) /\ post = rev pre
  | _ => False
  end.
Proof. exact test_order. Qed.
Print Assumptions C17_order.

(* the head of the chain is the plugin installed last *)
Theorem C17_install_order : forall l st,
  map p_id (s_chain (exec_ops st (map (fun nk => OInstall (fst nk) (snd nk)) l))) =
  rev (seq (s_next st) (length l)) ++ map p_id (s_chain st).
Proof. exact install_order. Qed.
Print Assumptions C17_install_order.

(* removal by name (repaired code): the chain without exactly the plugins of that name, wherever they stand *)
Theorem C17_remove_exact : forall n c, remove_by_name n c = filter (fun p => negb (N.eqb (p_name p) n)) c.
Proof. exact remove_by_name_without. Qed.
Print Assumptions C17_remove_exact.

Theorem C17_remove_unique : forall n c1 p c2, p_name p = n ->
  (forall q, In q (c1 ++ c2) -> p_name q <> n) -> remove_by_name n (c1 ++ p :: c2) = c1 ++ c2.
Proof. exact remove_unique. Qed.
Print Assumptions C17_remove_unique.

(* the code before the `fix:` commit for D16 did not have this property *)
Theorem C17_remove_exact_old_refuted : ~ (forall n c, remove_by_name_old n c = filter (fun p => negb (N.eqb (p_name p) n)) c).
Proof. exact remove_old_refuted. Qed.
Print Assumptions C17_remove_exact_old_refuted.

(* the executable oracle used on the implementation's observations accepts every model observation *)
Theorem C17_run_meets_spec : forall s, valid s = true -> spec s (run s) = true.
Proof. exact run_meets_spec. Qed.
Print Assumptions C17_run_meets_spec.

(* --------------------------------------------------------------------------------------------------------------
   The pointer table of the model IS the source: CppUTestStore and SetPointerPlugin::postTestAction as tools/cxx2heap.py regenerates them from TestPlugin.cpp on every run (gen/Gen_HeapC17.v; the file-static pointerTableIndex and setlist[MAX_SET] are heap objects, a void** is the address of a cell of the pool block; rep in C17_HeapTie.v), run on a heap representing (pool, table): a store below the limit extends the table exactly as the model's Set statement does and writes nothing else; a store into a FULL table writes nothing at all and fails the test (HFail); the post action leaves the pool the model's restore computes -- each location back at the value it had before its first redirection -- and an empty table
   -------------------------------------------------------------------------------------------------------------- *)
From CppUVerif Require Import lib.CSem lib.CMem lib.CHeap gen.Gen_HeapC17 C17_HeapTie.
Local Open Scope Z_scope.
Theorem C17_max_set_32 :
  max_set = 32.
Proof. exact max_set_32. Qed.
Print Assumptions C17_max_set_32.

Theorem C17_src_CppUTestStore_spec :
  forall (fuel : nat) (h : heap) (evs : list hev) (nx : Z) (bp bi bs : nat) (pool : mem) (tb : table) (l : nat),
  rep h bp bi bs pool tb ->
  length tb < max_set ->
  l < length pool ->
  exists h' : heap,
  src_CppUTestStore fuel h evs nx (HPtr bi Z0) (HPtr bs Z0) (loc_ptr bp l) = FOk (tt, h', evs, nx) /\
  rep h' bp bi bs pool ((l, rd pool l) :: tb) /\
  hblock h' bp = hblock h bp /\
  hblock h' bs =
  upd (upd (hblock h bs) (2 * length tb + 1) (VInt (BinInt.Z.of_N (rd pool l)))) (2 * length tb)
  (VPtr (loc_ptr bp l)) /\
  length h' = length h /\ (forall b : nat, b <> bi -> b <> bs -> hblock h' b = hblock h b).
Proof. exact src_CppUTestStore_spec. Qed.
Print Assumptions C17_src_CppUTestStore_spec.

Theorem C17_src_CppUTestStore_full_spec :
  forall (fuel : nat) (h : heap) (evs : list hev) (nx : Z) (bp bi bs : nat) (pool : mem) (tb : table) (f : hptr),
  rep h bp bi bs pool tb ->
  length tb = max_set ->
  0 < fuel -> src_CppUTestStore fuel h evs nx (HPtr bi Z0) (HPtr bs Z0) f = FOk (tt, h, evs ++ [HFail], nx).
Proof. exact src_CppUTestStore_full_spec. Qed.
Print Assumptions C17_src_CppUTestStore_full_spec.

Theorem C17_src_SetPointer_postTestAction_spec :
  forall (fuel : nat) (h : heap) (evs : list hev) (nx : Z) (this_ : hptr) (bp bi bs : nat)
  (pool : mem) (tb : table),
  rep h bp bi bs pool tb ->
  length tb < fuel ->
  exists h' : heap,
  src_SetPointer_postTestAction fuel h evs nx this_ (HPtr bi Z0) (HPtr bs Z0) = FOk (tt, h', evs, nx) /\
  rep h' bp bi bs (restore tb pool) [] /\
  hblock h' bp = pool_cells (restore tb pool) /\
  hblock h' bi = [VInt Z0] /\
  hblock h' bs = hblock h bs /\
  length h' = length h /\ (forall b : nat, b <> bp -> b <> bi -> hblock h' b = hblock h b).
Proof. exact src_SetPointer_postTestAction_spec. Qed.
Print Assumptions C17_src_SetPointer_postTestAction_spec.

Theorem C17_src_SetPointer_postTestAction_first_value :
  forall (fuel : nat) (h : heap) (evs : list hev) (nx : Z) (this_ : hptr) (bp bi bs : nat)
  (pool : mem) (tb : table),
  rep h bp bi bs pool tb ->
  length tb < fuel ->
  exists h' : heap,
  src_SetPointer_postTestAction fuel h evs nx this_ (HPtr bi Z0) (HPtr bs Z0) = FOk (tt, h', evs, nx) /\
  (forall l : nat,
  l < length pool ->
  cell h' bp l = Some (VInt (BinInt.Z.of_N match oldest tb l with
  | Some v => v
  | None => rd pool l
  end))).
Proof. exact src_SetPointer_postTestAction_first_value. Qed.
Print Assumptions C17_src_SetPointer_postTestAction_first_value.

Theorem C17_ut_ptr_set_spec :
  forall (fuel : nat) (h : heap) (evs : list hev) (nx : Z) (bp bi bs : nat) (pool : mem)
  (tb : table) (l : nat) (v : N),
  rep h bp bi bs pool tb ->
  length tb < max_set ->
  l < length pool ->
  exists h' h'' : heap,
  src_CppUTestStore fuel h evs nx (HPtr bi Z0) (HPtr bs Z0) (loc_ptr bp l) = FOk (tt, h', evs, nx) /\
  hstore h' (loc_ptr bp l) (VInt (BinInt.Z.of_N v)) = Some h'' /\
  exec_stmt pool tb (SSet l v) = (C17_Model.upd pool l v, (l, rd pool l) :: tb, true) /\
  rep h'' bp bi bs (C17_Model.upd pool l v) ((l, rd pool l) :: tb) /\
  (forall b : nat, b <> bp -> b <> bi -> b <> bs -> hblock h'' b = hblock h b).
Proof. exact ut_ptr_set_spec. Qed.
Print Assumptions C17_ut_ptr_set_spec.
