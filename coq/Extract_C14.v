From Coq Require Import ExtrOcamlBasic.
From CppUVerif Require Import C14_Model.
Extraction "c14_model.ml" C14_Model.run C14_Model.run_old C14_Model.spec C14_Model.valid.
