(* C18 -- lemmas (first version: concrete sanity runs; the unbounded theorems follow) *)
From Coq Require Import NArith Arith Bool List Lia.
From CppUVerif Require Import gen.Gen_C18 C18_Model.
Import ListNotations.
Local Open Scope N_scope.

Definition demo : scenario :=
  (0, [OAlloc 10; OAlloc 20; OAlloc 33; OAlloc 300; ODealloc 1 20; ODealloc 0 5; OAlloc 1; ODealloc 2 10; OForeign 0 7;
       ODealloc 3 999; OClearCache; OAlloc 64; OClearAll]).
Lemma demo_ok : valid demo = true /\ spec demo (run demo) = true.
Proof. vm_compute. split; reflexivity. Qed.
