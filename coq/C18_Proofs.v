(* C18 -- the main theorems *)
From Coq Require Import NArith Arith Bool List Lia.
From CppUVerif Require Import gen.Gen_C18 C18_Model C18_Lists C18_Inv C18_Sim.
Import ListNotations.
Local Open Scope N_scope.

Definition s0 : sstate := mk_s ([node_array_size], []) [] [] false [].

Lemma R_init : R init_state s0.
Proof.
  constructor; simpl.
  - reflexivity.
  - reflexivity.
  - reflexivity.
  - intros id. lia.
  - intros id [].
  - intros id H1 H2. lia.
  - intros id [].
  - constructor.
  - split; [reflexivity | intros []].
  - apply Forall_forall. intros nd H b Hb. repeat (destruct H as [<-|H]; [destruct Hb|]). destruct H.
  - constructor.
  - intros e [].
  - constructor.
  - intros nd id H Hu. repeat (destruct H as [<-|H]; [destruct Hu|]). destruct H.
  - intros id [].
  - intros id c [].
Qed.

Lemma dealloc_ret : forall st p n, o_ret (snd (dealloc st p n)) = None.
Proof.
  intros. unfold dealloc, unknown_release. destruct (is_cached n).
  - destruct (unlink _ p) as [[b u]|]; reflexivity.
  - destruct (unlink _ p) as [[b u]|]; reflexivity.
Qed.

Lemma R_len : forall st s, R st s -> (1 <= length (fst (a_bk s)))%nat.
Proof. intros st s HR. destruct (r_zero _ _ HR) as [H _]. apply szof_lt in H. lia. Qed.

Definition ptrs_of (res : list N) : list (N * N) := map (fun id => (id, 0)) res.

Lemma run_ops_ok : forall ops st s res, R st s -> a_ptrs s = ptrs_of res -> check_ops 1 s ops (run_ops st res ops) = true.
Proof.
  induction ops as [|o r IH]; intros st s res HR Hp.
  - simpl. apply (sim_destroy st s HR).
  - cbn [run_ops]. destruct (step st (resolve res o)) as [st1 x] eqn:E. cbn [check_ops].
    destruct o as [n|k n|k n| |]; cbn [resolve step] in E; cbn [check_op].
    + destruct (sim_alloc st s n HR) as [s' [H1 [H2 H3]]]. rewrite E in H1, H2, H3. cbn [fst snd] in *.
      rewrite H1. apply IH; [exact H2|]. unfold ptrs_ok in H3. destruct (o_ret x) as [id|].
      * rewrite H3, Hp. unfold ptrs_of. rewrite map_app. reflexivity.
      * rewrite H3. exact Hp.
    + set (p := match nth_error res k with Some id => PId id | None => PFor 0 end) in *.
      assert (Hrel : ptr_rel p (nth_error (a_ptrs s) k)).
      { rewrite Hp. unfold ptrs_of. rewrite nth_error_map. unfold p. destruct (nth_error res k); reflexivity. }
      destruct (sim_dealloc st s p _ n HR Hrel) as [s' [H1 [H2 H3]]].
      pose proof (dealloc_ret st p n) as Hret. rewrite E in H1, H2, Hret. cbn [fst snd] in *.
      rewrite H1, Hret. apply IH; [exact H2 | rewrite H3; exact Hp].
    + destruct (sim_dealloc st s (PFor k) None n HR eq_refl) as [s' [H1 [H2 H3]]].
      pose proof (dealloc_ret st (PFor k) n) as Hret. rewrite E in H1, H2, Hret. cbn [fst snd] in *.
      rewrite H1, Hret. apply IH; [exact H2 | rewrite H3; exact Hp].
    + destruct (sim_clear_cache st s HR) as [s' [H1 [H2 H3]]]. rewrite clear_cache_eq in E.
      rewrite clear_cache_eq in H1, H2. inversion E; subst. cbn [fst snd o_ret mk_out] in *.
      rewrite H1. apply IH; [exact H2 | rewrite H3; exact Hp].
    + destruct (sim_clear_all st s HR (R_len _ _ HR)) as [s' [H1 [H2 H3]]]. rewrite clear_all_eq in E.
      rewrite clear_all_eq in H1, H2. inversion E; subst. cbn [fst snd o_ret mk_out] in *.
      rewrite H1. apply IH; [exact H2 | rewrite H3; exact Hp].
Qed.

(* every history (no condition on the scenario is needed: a release that names no earlier alloc is a foreign release) *)
Lemma run_meets_spec : forall sc, valid sc = true -> spec sc (run sc) = true.
Proof.
  intros sc _. unfold spec, run. cbn [i_evs i_ret i_warn item_of init_out o_evs o_ret o_warn mk_out].
  change (apply_evs 0 [] ([], []) [EA 0 node_array_size]) with (Some ([node_array_size], @nil N)).
  cbn [fst length]. apply (run_ops_ok (snd sc) init_state s0 []); [exact R_init | reflexivity].
Qed.

Definition demo : scenario :=
  (0, [OAlloc 10; OAlloc 20; OAlloc 33; OAlloc 300; ODealloc 1 20; ODealloc 0 5; OAlloc 1; ODealloc 2 10; OForeign 0 7;
       ODealloc 3 999; OClearCache; OAlloc 64; OClearAll]).
Lemma demo_ok : valid demo = true /\ spec demo (run demo) = true.
Proof. vm_compute. split; reflexivity. Qed.
