(* C01 -- A failing check always fails the run: lifecycle, failure count, exit value.
   Executable mirror of
     src/Platforms/Gcc/UtestPlatform.cpp   PlatformSpecificSetJmpImplementation / LongJmp / RestoreJumpBuffer (jmp_buf_index)
     src/CppUTest/Utest.cpp                Utest::run (both #if variants), UtestShell::runOneTest, runOneTestInCurrentProcess,
                                           fail / failWith / addFailure, the terminators, IgnoredUtestShell::runOneTest,
                                           every UtestShell::assert* entry point (countCheck first, then failWith at the location given)
     src/CppUTest/TestHarness_c.cpp        the C-interface functions in front of them (TestTerminatorWithoutExceptions)
     include/CppUTest/UtestMacros.h        CHECK_COMPARE_LOCATION (calls assertCompare only when the comparison does not hold)
     src/CppUTest/TestRegistry.cpp         runAllTests (counting, filter, current test started/ended)
     src/CppUTest/TestResult.cpp/.h        the six counters, isFailure
     src/CppUTest/TestOutput.cpp           printTestsEnded (as a structured summary; the time is not modelled)
     src/CppUTest/CommandLineTestRunner.cpp runAllTests (repeat loop, returned value)
     src/CppUTest/CommandLineArguments.cpp  setRepeatCount (what the number after -r means)
   A program may behave differently from one repetition to the next (static state in a test or a plugin): scripted statements
   and plugin failures can be conditional on the repetition number; [at_rep r] is the program as it behaves in repetition r.
   No proofs in this file. *)
From Coq Require Import NArith ZArith Bool List.
From CppUVerif Require Import gen.Gen_Common lib.CInt.
Import ListNotations.
Local Open Scope Z_scope.

(* ------------------------------------------------------------------ check kinds *)
(* The assert entry points a test statement can go through.
   K..: the member functions of UtestShell in src/CppUTest/Utest.cpp, called on UtestShell::getCurrent() with the default terminator
        argument getCurrentTestTerminator() (assertCstrNoCaseEqual / assertCstrContains / assertCstrNoCaseContains have no terminator
        parameter and use failWith(failure) = the same current terminator): a NormalTestTerminator, i.e. throw CppUTestFailedException
        in a build with exceptions, longjmp in a build without.  KBinaryZero = assertBinaryEqual with length 0.
   C..: the functions of src/CppUTest/TestHarness_c.cpp; each calls one of the member functions above with
        UtestShell::getCurrentTestTerminatorWithoutExceptions() (longjmp in both builds).  CMemcmpZero = CHECK_EQUAL_C_MEMCMP_LOCATION
        with size 0.
   MCompare: the macro CHECK_COMPARE_LOCATION of include/CppUTest/UtestMacros.h, which evaluates the comparison ITSELF and calls
        assertCompare(false, ...) only when it does not hold.
   Every check statement carries [agree] (do the operands handed over satisfy the asserted relation?) and the location (file, line)
   handed to the function. *)
Inductive ckind :=
  | KTrue | KCstrEqual | KCstrNEqual | KCstrNoCaseEqual | KCstrContains | KCstrNoCaseContains | KLongs | KULongs | KLongLongs
  | KULongLongs | KSignedBytes | KPointers | KFunctionPointers | KDoubles | KEquals | KBinary | KBinaryZero | KBits | KCompare | KFail
  | CBool | CInt | CUInt | CLong | CULong | CLongLong | CULongLong | CReal | CChar | CUByte | CSByte | CString | CPointer
  | CMemcmp | CMemcmpZero | CBits | CFailText | CFail | CCheck
  | MCompare.
(* is the assert function entered at all?  Every kind but the macro calls its function unconditionally. *)
Definition called (k : ckind) (agree : bool) : bool := match k with MCompare => negb agree | _ => true end.
(* what the function decides once entered, AFTER its first statement getTestResult()->countCheck(): fail(...) has no operands and
   always fails; assertBinaryEqual returns on length == 0 before it looks at the operands (NULL or different contents included);
   every other function fails exactly when the operands do not satisfy the relation (UtestShell::assertCompare included: it is
   counted whether or not the comparison holds -- only the macro in front of it skips the call) *)
Definition fn_passes (k : ckind) (agree : bool) : bool :=
  match k with KFail | CFailText | CFail => false | KBinaryZero | CMemcmpZero => true | _ => agree end.
Definition c_style (k : ckind) : bool :=
  match k with
  | CBool | CInt | CUInt | CLong | CULong | CLongLong | CULongLong | CReal | CChar | CUByte | CSByte | CString | CPointer
  | CMemcmp | CMemcmpZero | CBits | CFailText | CFail | CCheck => true
  | _ => false
  end.
(* the two facts the property needs about a check statement: does the test go on after it, and how much does it add to "checks" *)
Definition passes (k : ckind) (agree : bool) : bool := negb (called k agree) || fn_passes k agree.
Definition counted (k : ckind) (agree : bool) : N := if called k agree then 1%N else 0%N.

(* ------------------------------------------------------------------ programs *)
(* file: 0 = the test's own file, 1 = another file.  SFailX = C++-style failing check (UtestShell::fail through the current
   terminator), SFailC = C-style (FAIL_TEXT_C_LOCATION, TestTerminatorWithoutExceptions), SCheck = a passing check (assertTrue),
   SCheckK k agree file line = a check of kind k at the location (file, line), which is NOT the TEST's own location. *)
Inductive stmt := SNop | SCheck | SFailX (file line : N) | SFailC (file line : N) | SThrowStd | SThrowOther
                | SCheckK (k : ckind) (agree : bool) (file line : N).
Record test := mkTest { t_ignored : bool; t_sel : bool; t_line : N;
                        t_setup : list stmt; t_body : list stmt; t_teardown : list stmt;
                        t_pre : list N; t_post : list N }.    (* lines of the failures the plugin adds before/after the test *)
Record config := mkCfg { c_cli : bool;       (* true: CommandLineTestRunner::runAllTestsMain, false: TestRegistry::runAllTests once *)
                         c_rethrow : bool;   (* UtestShell::rethrowExceptions_ (cli: absent -e / -ci) *)
                         c_filter : bool;    (* a name filter is installed that accepts exactly the tests with t_sel *)
                         c_runign : bool;    (* -ri *)
                         c_repeat : N }.     (* the <n> of -r<n>, cli only; see eff_repeat *)

(* repetition-dependent programs.  What a test does may depend on how often it has run before (a static counter in the test, a
   plugin that only complains the first time, ...).  r = number of repetitions completed before this one = loopCount - 1. *)
Inductive rcond := REq (k : N) | RNe (k : N) | RLt (k : N) | RGe (k : N).
Definition holds (c : rcond) (r : N) : bool :=
  match c with REq k => (r =? k)%N | RNe k => negb (r =? k)%N | RLt k => (r <? k)%N | RGe k => (k <=? r)%N end.
Inductive rstmt := RS (x : stmt) | RIf (c : rcond) (x y : stmt).          (* RIf c x y: behaves as x in the repetitions where c holds, as y in the others *)
Inductive rline := RL (l : N) | RLIf (c : rcond) (l : N).                  (* plugin failure at line l: always / only in the repetitions where c holds *)
Record rtest := mkRTest { rt_ignored : bool; rt_sel : bool; rt_line : N;
                          rt_setup : list rstmt; rt_body : list rstmt; rt_teardown : list rstmt;
                          rt_pre : list rline; rt_post : list rline }.
Definition stmt_at (r : N) (x : rstmt) : stmt := match x with RS a => a | RIf c a b => if holds c r then a else b end.
Definition lines_at (r : N) (l : list rline) : list N :=
  flat_map (fun x => match x with RL a => [a] | RLIf c a => if holds c r then [a] else [] end) l.
Definition at_rep (r : N) (t : rtest) : test :=
  mkTest (rt_ignored t) (rt_sel t) (rt_line t) (map (stmt_at r) (rt_setup t)) (map (stmt_at r) (rt_body t)) (map (stmt_at r) (rt_teardown t))
         (lines_at r (rt_pre t)) (lines_at r (rt_post t)).
Definition prog_at (r : N) (l : list rtest) : list test := map (at_rep r) l.
Record scenario := mkScn { s_cfg : config; s_tests : list rtest }.

(* ------------------------------------------------------------------ observations *)
Record event := mkEv { e_test : N; e_phase : N; e_idx : N; e_depth : Z }.    (* one executed statement; phase 0/1/2 *)
Record frec := mkF { f_test : N; f_file : N; f_line : N; f_kind : N }.       (* kind 0 check, 1 escaped exception, 3 plugin; file 2 = plugin file *)
Inductive item := IEv (e : event) | IFail (f : frec) | IAfter (d : Z) (ctx_ok : bool).
Record cnt := mkCnt { k_tests : N; k_run : N; k_checks : N; k_fail : N; k_filt : N; k_ign : N }.
Record summary := mkSum { m_ok : bool; m_nfail : option N; m_tests : N; m_run : N; m_checks : N; m_ign : N; m_filt : N }.
Record rep_obs := mkRep { r_events : list event; r_fails : list frec; r_after : list (Z * bool);
                          r_summary : option summary; r_counters : option cnt }.
Record obs := mkObs { o_escaped : bool; o_ret : option Z; o_reps : list rep_obs }.

(* ------------------------------------------------------------------ machine state *)
Record st := mkSt { depth : Z;            (* jmp_buf_index *)
                    overflow : bool;      (* a slot outside test_exit_jmp_buf[0..slots-1] was written *)
                    cur : option N;       (* UtestShell::currentTest_ / testResult_ (None = outside any test) *)
                    cn : cnt;             (* the TestResult of the running repetition *)
                    out : list item }.    (* what the scripted tests and the output have logged, in order *)
Inductive exn := XFailed | XStd | XOther.
Inductive outcome := ONormal | OJump (slot : Z) | OThrow (e : exn).

Definition slots : Z := Z.of_N jmp_slots.
Definition slot_ok (k : Z) : bool := (0 <=? k) && (k <? slots).

Definition cadd (a b : cnt) : cnt :=
  mkCnt (k_tests a + k_tests b) (k_run a + k_run b) (k_checks a + k_checks b) (k_fail a + k_fail b) (k_filt a + k_filt b) (k_ign a + k_ign b)%N.
Definition czero := mkCnt 0 0 0 0 0 0.
Definition one_test := mkCnt 1 0 0 0 0 0.
Definition one_run := mkCnt 0 1 0 0 0 0.
Definition one_check := mkCnt 0 0 1 0 0 0.
Definition one_fail := mkCnt 0 0 0 1 0 0.
Definition one_filt := mkCnt 0 0 0 0 1 0.
Definition one_ign := mkCnt 0 0 0 0 0 1.

Definition set_depth (d : Z) (s : st) : st := mkSt d (overflow s) (cur s) (cn s) (out s).
Definition mark_slot (k : Z) (s : st) : st := mkSt (depth s) (overflow s || negb (slot_ok k)) (cur s) (cn s) (out s).
Definition set_cur (c : option N) (s : st) : st := mkSt (depth s) (overflow s) c (cn s) (out s).
Definition count (d : cnt) (s : st) : st := mkSt (depth s) (overflow s) (cur s) (cadd (cn s) d) (out s).
Definition emit (x : item) (s : st) : st := mkSt (depth s) (overflow s) (cur s) (cn s) (out s ++ [x]).

(* PlatformSpecificSetJmpImplementation: slot = index, index+1 during the call, -1 on normal return; a longjmp that was aimed
   at this slot lands here (index already decremented by PlatformSpecificLongJmpImplementation) and makes it return 0; a C++
   exception passes through and leaves the index incremented. *)
Definition setjmp_call (f : st -> st * outcome) (s : st) : st * bool * outcome :=
  let k := depth s in
  let '(s2, o) := f (set_depth (k + 1) (mark_slot k s)) in
  match o with
  | ONormal => (set_depth (depth s2 - 1) s2, true, ONormal)
  | OJump j => if j =? k then (s2, false, ONormal) else (s2, false, OJump j)
  | OThrow e => (s2, false, OThrow e)
  end.
Definition long_jmp (s : st) : st * outcome := (set_depth (depth s - 1) s, OJump (depth s - 1)).
Definition restore_jump_buffer (s : st) : st := set_depth (depth s - 1) s.

(* TestResult::addFailure: print the failure, failureCount_++ *)
Definition add_failure (f : frec) (s : st) : st := count one_fail (emit (IFail f) s).
Definition exc_failure (i : N) (t : test) : frec := mkF i 0 (t_line t) 1.      (* UnexpectedExceptionFailure: the test's own location *)

Definition exec_stmt (exc : bool) (i ph k : N) (x : stmt) (s : st) : st * outcome :=
  let s := emit (IEv (mkEv i ph k (depth s))) s in
  match x with
  | SNop => (s, ONormal)
  | SCheck => (count one_check s, ONormal)
  | SFailX f l => let s := add_failure (mkF i f l 0) (count one_check s) in
                  if exc then (s, OThrow XFailed) else long_jmp s              (* NormalTestTerminator::exitCurrentTest *)
  | SFailC f l => long_jmp (add_failure (mkF i f l 0) (count one_check s))    (* TestTerminatorWithoutExceptions *)
  | SThrowStd => (s, OThrow XStd)
  | SThrowOther => (s, OThrow XOther)
  | SCheckK k a f l =>
      if called k a then
        let s := count one_check s in                                           (* getTestResult()->countCheck(): first statement of every assert function *)
        if fn_passes k a then (s, ONormal)
        else let s := add_failure (mkF i f l 0) s in                            (* failWith(XxxFailure(this, fileName, lineNumber, ...), terminator) *)
             if c_style k then long_jmp s                                       (* TestTerminatorWithoutExceptions *)
             else if exc then (s, OThrow XFailed) else long_jmp s               (* NormalTestTerminator *)
      else (s, ONormal)                                                         (* the macro found the comparison true: no call *)
  end.
Fixpoint exec_stmts (exc : bool) (i ph k : N) (l : list stmt) (s : st) : st * outcome :=
  match l with
  | [] => (s, ONormal)
  | x :: r => let '(s', o) := exec_stmt exc i ph k x s in
              match o with ONormal => exec_stmts exc i ph (k + 1)%N r s' | _ => (s', o) end
  end.

(* the catch handlers of Utest::run *)
Definition handlers (rethrow : bool) (i : N) (t : test) (so : st * outcome) : st * outcome :=
  let '(s, o) := so in
  match o with
  | OThrow XFailed => (restore_jump_buffer s, ONormal)
  | OThrow XStd => let s := restore_jump_buffer (add_failure (exc_failure i t) s) in (s, if rethrow then OThrow XStd else ONormal)
  | OThrow XOther => let s := restore_jump_buffer (add_failure (exc_failure i t) s) in (s, if rethrow then OThrow XOther else ONormal)
  | _ => (s, o)
  end.
Definition drop_ret (r : st * bool * outcome) : st * outcome := let '(s, _, o) := r in (s, o).

Definition utest_run_exc (rethrow : bool) (i : N) (t : test) (s : st) : st * outcome :=
  let try1 :=
    let '(s1, r, o1) := setjmp_call (exec_stmts true i 0 0 (t_setup t)) s in
    match o1 with
    | ONormal => if r then drop_ret (setjmp_call (exec_stmts true i 1 0 (t_body t)) s1) else (s1, ONormal)
    | _ => (s1, o1)
    end in
  let '(s2, o2) := handlers rethrow i t try1 in
  match o2 with
  | ONormal => handlers rethrow i t (drop_ret (setjmp_call (exec_stmts true i 2 0 (t_teardown t)) s2))
  | _ => (s2, o2)
  end.
Definition utest_run_noexc (i : N) (t : test) (s : st) : st * outcome :=
  let '(s1, r, o1) := setjmp_call (exec_stmts false i 0 0 (t_setup t)) s in
  match o1 with
  | ONormal =>
      let '(s2, o2) := if r then drop_ret (setjmp_call (exec_stmts false i 1 0 (t_body t)) s1) else (s1, ONormal) in
      match o2 with
      | ONormal => drop_ret (setjmp_call (exec_stmts false i 2 0 (t_teardown t)) s2)
      | _ => (s2, o2)
      end
  | _ => (s1, o1)
  end.
Definition utest_run (exc rethrow : bool) (i : N) (t : test) (s : st) : st * outcome :=
  if exc then utest_run_exc rethrow i t s else utest_run_noexc i t s.

Definition plugin_fails (i : N) (lines : list N) (s : st) : st := fold_left (fun s l => add_failure (mkF i 2 l 3) s) lines s.

(* UtestShell::runOneTestInCurrentProcess *)
Definition run_in_process (exc rethrow : bool) (i : N) (t : test) (s : st) : st * outcome :=
  let s1 := plugin_fails i (t_pre t) s in
  let saved := cur s1 in
  let '(s3, o) := utest_run exc rethrow i t (set_cur (Some i) s1) in
  match o with
  | ONormal => (plugin_fails i (t_post t) (set_cur saved s3), ONormal)
  | _ => (s3, o)                        (* catch (...) { destroyTest; throw; } *)
  end.
Definition run_one_test (exc rethrow : bool) (i : N) (t : test) (s : st) : st * outcome :=
  drop_ret (setjmp_call (run_in_process exc rethrow i t) (count one_run s)).
Definition shell_run (exc : bool) (cfg : config) (i : N) (t : test) (s : st) : st * outcome :=
  if t_ignored t && negb (c_runign cfg) then (count one_ign s, ONormal)      (* IgnoredUtestShell::runOneTest *)
  else run_one_test exc (c_rethrow cfg) i t s.

Definition selected (cfg : config) (t : test) : bool := negb (c_filter cfg) || t_sel t.
Definition is_none {A} (o : option A) : bool := match o with None => true | Some _ => false end.

(* TestRegistry::runAllTests, the loop *)
Fixpoint run_tests (exc : bool) (cfg : config) (i : N) (l : list test) (s : st) : st * outcome :=
  match l with
  | [] => (s, ONormal)
  | t :: r =>
      let s1 := count one_test s in
      if selected cfg t then
        let '(s2, o) := shell_run exc cfg i t s1 in
        match o with
        | ONormal => run_tests exc cfg (i + 1)%N r (emit (IAfter (depth s2) (is_none (cur s2))) s2)
        | _ => (s2, o)
        end
      else run_tests exc cfg (i + 1)%N r (count one_filt s1)
  end.

Definition is_failure (c : cnt) : bool := negb (k_fail c =? 0)%N || (k_run c + k_ign c =? 0)%N.
(* TestOutput::printTestsEnded *)
Definition mk_summary (c : cnt) : summary :=
  let isf := is_failure c in
  mkSum (negb isf) (if isf then if (0 <? k_fail c)%N then Some (k_fail c) else None else None)
        (k_tests c) (k_run c) (k_checks c) (k_ign c) (k_filt c).

Fixpoint events_of (l : list item) : list event := match l with [] => [] | IEv e :: r => e :: events_of r | _ :: r => events_of r end.
Fixpoint fails_of (l : list item) : list frec := match l with [] => [] | IFail f :: r => f :: fails_of r | _ :: r => fails_of r end.
Fixpoint afters_of (l : list item) : list (Z * bool) := match l with [] => [] | IAfter d b :: r => (d, b) :: afters_of r | _ :: r => afters_of r end.

Definition fresh (s : st) : st := mkSt (depth s) (overflow s) (cur s) czero [].       (* a new TestResult per repetition *)
Definition run_rep (exc : bool) (cfg : config) (tests : list test) (s : st) : st * outcome := run_tests exc cfg 0%N tests (fresh s).
Definition is_normal (o : outcome) : bool := match o with ONormal => true | _ => false end.
Definition rep_obs_of (cfg : config) (s : st) (o : outcome) : rep_obs :=
  mkRep (events_of (out s)) (fails_of (out s)) (afters_of (out s))
        (if is_normal o then Some (mk_summary (cn s)) else None)
        (if c_cli cfg then None else Some (cn s)).

(* CommandLineArguments::setRepeatCount: repeat_ = AtoI(text after -r); if (0 == repeat_) repeat_ = 2;   ("-r" alone and "-r0" repeat twice) *)
Definition eff_repeat (n : N) : N := if (n =? 0)%N then 2%N else n.

(* CommandLineTestRunner::runAllTests, the repeat loop:
     while (loopCount++ < repeatCount) { TestResult tr(output); registry_->runAllTests(tr);
                                         failedTestCount += tr.getFailureCount(); if (tr.isFailure()) failedExecutionCount++; }
   n = repetitions still to do, loop = repetitions done (= loopCount - 1 inside the body); every repetition gets a fresh TestResult
   (run_rep), the two accumulators live across the repetitions. *)
Fixpoint runner_loop (exc : bool) (cfg : config) (tests : list rtest) (n : nat) (loop : N) (s : st) (ft fe : N) : list rep_obs * st * N * N * outcome :=
  match n with
  | O => ([], s, ft, fe, ONormal)
  | S n' =>
      let '(s1, o) := run_rep exc cfg (prog_at loop tests) s in
      let r := rep_obs_of cfg s1 o in
      match o with
      | ONormal =>
          let '(rs, s2, a, b, o2) := runner_loop exc cfg tests n' (loop + 1)%N s1 (ft + k_fail (cn s1))%N (if is_failure (cn s1) then fe + 1 else fe)%N in
          (r :: rs, s2, a, b, o2)
      | _ => ([r], s1, ft, fe, o)
      end
  end.
(* return (int) (failedTestCount != 0 ? failedTestCount : failedExecutionCount);   size_t -> int *)
Definition exit_value (ft fe : N) : Z := cast TInt (cast TULong (Z.of_N (if (ft =? 0)%N then fe else ft))).

Definition st0 : st := mkSt 0 false None czero [].
Definition run_from (exc : bool) (scn : scenario) (s0 : st) : obs * st :=
  let cfg := s_cfg scn in
  if c_cli cfg then
    let '(rs, s, ft, fe, o) := runner_loop exc cfg (s_tests scn) (N.to_nat (eff_repeat (c_repeat cfg))) 0%N s0 0%N 0%N in
    (mkObs (negb (is_normal o)) (if is_normal o then Some (exit_value ft fe) else None) rs, s)
  else
    let '(s, o) := run_rep exc cfg (prog_at 0%N (s_tests scn)) s0 in
    (mkObs (negb (is_normal o)) None [rep_obs_of cfg s o], s).
Definition run (exc : bool) (scn : scenario) : obs := fst (run_from exc scn st0).

(* ------------------------------------------------------------------ spec: what the property demands of an observation.
   Written from the program text alone (no machine state, no jump bookkeeping). *)
Definition is_pass (x : stmt) : bool := match x with SNop | SCheck => true | SCheckK k a _ _ => passes k a | _ => false end.
Definition is_throw (x : stmt) : bool := match x with SThrowStd | SThrowOther => true | _ => false end.
Definition counts_check (x : stmt) : bool :=
  match x with SCheck | SFailX _ _ | SFailC _ _ => true | SCheckK k a _ _ => (0 <? counted k a)%N | _ => false end.
(* the statements of a phase that execute: up to and including the first one that does not pass *)
Fixpoint executed (l : list stmt) : list stmt :=
  match l with [] => [] | x :: r => if is_pass x then x :: executed r else [x] end.
Definition completes (l : list stmt) : bool := forallb is_pass l.
Fixpoint number {A} (k : N) (l : list A) : list (N * A) := match l with [] => [] | x :: r => (k, x) :: number (k + 1)%N r end.

Definition runs (cfg : config) (t : test) : bool := negb (t_ignored t) || c_runign cfg.
(* the phases of a test that are entered, with their statement lists: body only if setup completed, teardown always *)
Definition phases (t : test) : list (N * list stmt) :=
  [(0%N, t_setup t)] ++ (if completes (t_setup t) then [(1%N, t_body t)] else []) ++ [(2%N, t_teardown t)].
Definition want_events (i : N) (t : test) : list (N * N * N) :=
  flat_map (fun p => map (fun kx => (i, fst p, fst kx)) (number 0 (executed (snd p)))) (phases t).
Definition stmt_failure (i : N) (t : test) (x : stmt) : list frec :=
  match x with
  | SFailX f l | SFailC f l => [mkF i f l 0]
  | SThrowStd | SThrowOther => [mkF i 0 (t_line t) 1]
  | SCheckK k a f l => if passes k a then [] else [mkF i f l 0]         (* a failed check: once, at the location it was given *)
  | _ => []
  end.
Definition want_fails (i : N) (t : test) : list frec :=
  map (fun l => mkF i 2 l 3) (t_pre t)
  ++ flat_map (fun p => flat_map (stmt_failure i t) (executed (snd p))) (phases t)
  ++ map (fun l => mkF i 2 l 3) (t_post t).
Definition want_checks (t : test) : N :=
  N.of_nat (length (filter counts_check (flat_map (fun p => executed (snd p)) (phases t)))).

Definition started (cfg : config) (it : N * test) : bool := selected cfg (snd it) && runs cfg (snd it).
Definition nb {A} (f : A -> bool) (l : list A) : N := N.of_nat (length (filter f l)).
Definition rep_events (cfg : config) (ts : list (N * test)) := flat_map (fun it => want_events (fst it) (snd it)) (filter (started cfg) ts).
Definition rep_fails (cfg : config) (ts : list (N * test)) := flat_map (fun it => want_fails (fst it) (snd it)) (filter (started cfg) ts).
Definition rep_counts (cfg : config) (ts : list (N * test)) : cnt :=
  mkCnt (N.of_nat (length ts))
        (nb (started cfg) ts)
        (fold_right (fun it a => (want_checks (snd it) + a)%N) 0%N (filter (started cfg) ts))
        (N.of_nat (length (rep_fails cfg ts)))
        (nb (fun it => negb (selected cfg (snd it))) ts)
        (nb (fun it => selected cfg (snd it) && negb (runs cfg (snd it))) ts).
Definition rep_is_ok (c : cnt) : bool := (k_fail c =? 0)%N && (0 <? k_run c + k_ign c)%N.

Fixpoint list_eqb {A} (e : A -> A -> bool) (a b : list A) : bool :=
  match a, b with [] , [] => true | x :: a', y :: b' => e x y && list_eqb e a' b' | _, _ => false end.
Definition ev3_eqb (a b : N * N * N) : bool :=
  let '(a1, a2, a3) := a in let '(b1, b2, b3) := b in ((a1 =? b1) && (a2 =? b2) && (a3 =? b3))%N.
Definition frec_eqb (a b : frec) : bool :=
  ((f_test a =? f_test b) && (f_file a =? f_file b) && (f_line a =? f_line b) && (f_kind a =? f_kind b))%N.
Definition cnt_eqb (a b : cnt) : bool :=
  ((k_tests a =? k_tests b) && (k_run a =? k_run b) && (k_checks a =? k_checks b) && (k_fail a =? k_fail b)
   && (k_filt a =? k_filt b) && (k_ign a =? k_ign b))%N.
Definition optN_eqb (a b : option N) : bool :=
  match a, b with None, None => true | Some x, Some y => (x =? y)%N | _, _ => false end.

Definition summary_ok (c : cnt) (m : summary) : bool :=
  Bool.eqb (m_ok m) (rep_is_ok c)
  && optN_eqb (m_nfail m) (if (0 <? k_fail c)%N then Some (k_fail c) else None)
  && ((m_tests m =? k_tests c) && (m_run m =? k_run c) && (m_checks m =? k_checks c) && (m_ign m =? k_ign c) && (m_filt m =? k_filt c))%N.

Definition rep_ok (cfg : config) (ts : list (N * test)) (r : rep_obs) : bool :=
  let c := rep_counts cfg ts in
  list_eqb ev3_eqb (map (fun e => (e_test e, e_phase e, e_idx e)) (r_events r)) (rep_events cfg ts)       (* lifecycle *)
  && forallb (fun e => (1 <=? e_depth e) && (e_depth e <=? slots)) (r_events r)                            (* inside the jump stack *)
  && list_eqb frec_eqb (r_fails r) (rep_fails cfg ts)                                                       (* every failure once, where it happened *)
  && (N.of_nat (length (r_after r)) =? nb (fun it => selected cfg (snd it)) ts)%N
  && forallb (fun a => (fst a =? 0) && snd a) (r_after r)                                                   (* depth and context restored after every test *)
  && match r_summary r with Some m => summary_ok c m | None => false end
  && match r_counters r with Some k => cnt_eqb k c | None => true end.

Definition has_throw (t : test) : bool := existsb is_throw (t_setup t ++ t_body t ++ t_teardown t).
(* a throw statement somewhere in the program text, in whichever repetition it would be executed *)
Definition rstmt_throws (x : rstmt) : bool := match x with RS a => is_throw a | RIf _ a b => is_throw a || is_throw b end.
Definition rhas_throw (t : rtest) : bool := existsb rstmt_throws (rt_setup t ++ rt_body t ++ rt_teardown t).

(* the repetitions: number j (from 0) runs the program as it behaves in repetition j *)
Definition rep_index (n : N) : list N := map N.of_nat (seq 0 (N.to_nat n)).
Definition rep_tests (scn : scenario) (j : N) : list (N * test) := number 0%N (prog_at j (s_tests scn)).
Definition rep_want (scn : scenario) (j : N) : cnt := rep_counts (s_cfg scn) (rep_tests scn j).
Fixpoint reps_ok (scn : scenario) (j : N) (l : list rep_obs) : bool :=
  match l with [] => true | r :: l' => rep_ok (s_cfg scn) (rep_tests scn j) r && reps_ok scn (j + 1)%N l' end.
(* "that holds for every repetition": every one of the n repetitions had no failure and ran or ignored at least one test *)
Definition every_rep_ok (scn : scenario) (n : N) : bool := forallb (fun j => rep_is_ok (rep_want scn j)) (rep_index n).
Definition total_failures (scn : scenario) (n : N) : N := fold_right (fun j a => (k_fail (rep_want scn j) + a)%N) 0%N (rep_index n).

Definition spec (scn : scenario) (o : obs) : bool :=
  let cfg := s_cfg scn in
  let n := if c_cli cfg then eff_repeat (c_repeat cfg) else 1%N in
  if c_rethrow cfg && existsb rhas_throw (s_tests scn) then true      (* outside the property's quantifier, see DESIGN C01 scope decision *)
  else
    negb (o_escaped o)
    && (N.of_nat (length (o_reps o)) =? n)%N
    && reps_ok scn 0%N (o_reps o)                                      (* lifecycle, failures, true summary: of EACH repetition, for that repetition *)
    && (if c_cli cfg
        then match o_ret o with
             | Some z => Bool.eqb (z =? 0) (every_rep_ok scn n)        (* zero iff EVERY repetition is OK *)
             | None => false
             end
        else is_none (o_ret o)).

(* scenarios the theorems and the harness are about *)
Definition valid (exc : bool) (scn : scenario) : bool :=
  (exc || negb (existsb rhas_throw (s_tests scn)))
  && negb (c_rethrow (s_cfg scn) && existsb rhas_throw (s_tests scn))
  && (Z.of_N (total_failures scn (eff_repeat (c_repeat (s_cfg scn)))) <? 2 ^ 31)
  && (Z.of_N (c_repeat (s_cfg scn)) <? 2 ^ 31).
