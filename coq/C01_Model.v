(* C01 -- A failing check always fails the run: lifecycle, failure count, exit value.
   Executable mirror of
     src/Platforms/Gcc/UtestPlatform.cpp   PlatformSpecificSetJmpImplementation / LongJmp / RestoreJumpBuffer (jmp_buf_index)
     src/CppUTest/Utest.cpp                Utest::run (both #if variants), UtestShell::runOneTest, runOneTestInCurrentProcess,
                                           fail / failWith / addFailure, the terminators, IgnoredUtestShell::runOneTest,
                                           every UtestShell::assert* entry point (countCheck first, then failWith at the location given)
     src/CppUTest/TestHarness_c.cpp        the C-interface functions in front of them (TestTerminatorWithoutExceptions)
     include/CppUTest/UtestMacros.h        CHECK_COMPARE_LOCATION (calls assertCompare only when the comparison does not hold)
     src/CppUTest/TestRegistry.cpp         runAllTests (counting, filter, current test started/ended)
     src/CppUTest/TestResult.cpp/.h        the six counters, isFailure
     src/CppUTest/TestOutput.cpp           printTestsEnded (as a structured summary; the time is not modelled)
     src/CppUTest/CommandLineTestRunner.cpp runAllTests (repeat loop, returned value)
     src/CppUTest/CommandLineArguments.cpp  setRepeatCount (what the number after -r means)
   A program may behave differently from one repetition to the next (static state in a test or a plugin): scripted statements
   and plugin failures can be conditional on the repetition number; [at_rep r] is the program as it behaves in repetition r.
   No proofs in this file. *)
From Coq Require Import NArith ZArith Bool List.
From CppUVerif Require Import gen.Gen_Common lib.CInt.
Import ListNotations.
Local Open Scope Z_scope.

(* ------------------------------------------------------------------ check kinds *)
(* The assert entry points a test statement can go through.
   K..: the member functions of UtestShell in src/CppUTest/Utest.cpp, called on UtestShell::getCurrent() with the default terminator
        argument getCurrentTestTerminator() (assertCstrNoCaseEqual / assertCstrContains / assertCstrNoCaseContains have no terminator
        parameter and use failWith(failure) = the same current terminator): a NormalTestTerminator, i.e. throw CppUTestFailedException
        in a build with exceptions, longjmp in a build without.  KBinaryZero = assertBinaryEqual with length 0.
   C..: the functions of src/CppUTest/TestHarness_c.cpp; each calls one of the member functions above with
        UtestShell::getCurrentTestTerminatorWithoutExceptions() (longjmp in both builds).  CMemcmpZero = CHECK_EQUAL_C_MEMCMP_LOCATION
        with size 0.
   MCompare: the macro CHECK_COMPARE_LOCATION of include/CppUTest/UtestMacros.h, which evaluates the comparison ITSELF and calls
        assertCompare(false, ...) only when it does not hold.
   Every check statement carries [agree] (do the operands handed over satisfy the asserted relation?) and the location (file, line)
   handed to the function. *)
Inductive ckind :=
  | KTrue | KCstrEqual | KCstrNEqual | KCstrNoCaseEqual | KCstrContains | KCstrNoCaseContains | KLongs | KULongs | KLongLongs
  | KULongLongs | KSignedBytes | KPointers | KFunctionPointers | KDoubles | KEquals | KBinary | KBinaryZero | KBits | KCompare | KFail
  | CBool | CInt | CUInt | CLong | CULong | CLongLong | CULongLong | CReal | CChar | CUByte | CSByte | CString | CPointer
  | CMemcmp | CMemcmpZero | CBits | CFailText | CFail | CCheck
  | MCompare.
(* is the assert function entered at all?  Every kind but the macro calls its function unconditionally. *)
Definition called (k : ckind) (agree : bool) : bool := match k with MCompare => negb agree | _ => true end.
(* what the function decides once entered, AFTER its first statement getTestResult()->countCheck(): fail(...) has no operands and
   always fails; assertBinaryEqual returns on length == 0 before it looks at the operands (NULL or different contents included);
   every other function fails exactly when the operands do not satisfy the relation (UtestShell::assertCompare included: it is
   counted whether or not the comparison holds -- only the macro in front of it skips the call) *)
Definition fn_passes (k : ckind) (agree : bool) : bool :=
  match k with KFail | CFailText | CFail => false | KBinaryZero | CMemcmpZero => true | _ => agree end.
Definition c_style (k : ckind) : bool :=
  match k with
  | CBool | CInt | CUInt | CLong | CULong | CLongLong | CULongLong | CReal | CChar | CUByte | CSByte | CString | CPointer
  | CMemcmp | CMemcmpZero | CBits | CFailText | CFail | CCheck => true
  | _ => false
  end.
(* the two facts the property needs about a check statement: does the test go on after it, and how much does it add to "checks" *)
Definition passes (k : ckind) (agree : bool) : bool := negb (called k agree) || fn_passes k agree.
Definition counted (k : ckind) (agree : bool) : N := if called k agree then 1%N else 0%N.

(* ------------------------------------------------------------------ programs *)
(* file: 0 = the test's own file, 1 = another file.  SFailX = C++-style failing check (UtestShell::fail through the current
   terminator), SFailC = C-style (FAIL_TEXT_C_LOCATION, TestTerminatorWithoutExceptions), SCheck = a passing check (assertTrue),
   SCheckK k agree file line = a check of kind k at the location (file, line), which is NOT the TEST's own location. *)
(* User try blocks.  A statement of a phase may be a try block of the test's own:
     STry blk h hd       try { blk } catch (<h>) { hd }            the statements of blk and hd are [base] statements (no nesting)
     SThrows e blk f l   CHECK_THROWS(<e>, helper()) at location (f, l), helper() = the statements blk (they may contain checks)
   handler types: EStd = const std::exception&, EInt = int (the type of the foreign exception the scripted tests throw),
   EUnrel = a class of the program's own that nothing thrown here is an instance of, HAll = catch (...). *)
Inductive base := BNop | BCheck | BFailX (file line : N) | BFailC (file line : N) | BThrowStd | BThrowOther
                | BCheckK (k : ckind) (agree : bool) (file line : N).
Inductive ekind := EStd | EInt | EUnrel.
Inductive hkind := HType (e : ekind) | HAll.
Inductive stmt := SNop | SCheck | SFailX (file line : N) | SFailC (file line : N) | SThrowStd | SThrowOther
                | SCheckK (k : ckind) (agree : bool) (file line : N)
                | STry (blk : list base) (h : hkind) (hd : list base)
                | SThrows (e : ekind) (blk : list base) (file line : N).
Record test := mkTest { t_ignored : bool; t_sel : bool; t_line : N;
                        t_setup : list stmt; t_body : list stmt; t_teardown : list stmt;
                        t_pre : list N; t_post : list N }.    (* lines of the failures the plugin adds before/after the test *)
Record config := mkCfg { c_cli : bool;       (* true: CommandLineTestRunner::runAllTestsMain, false: TestRegistry::runAllTests once *)
                         c_rethrow : bool;   (* UtestShell::rethrowExceptions_ (cli: absent -e / -ci) *)
                         c_filter : bool;    (* a name filter is installed that accepts exactly the tests with t_sel *)
                         c_runign : bool;    (* -ri *)
                         c_repeat : N }.     (* the <n> of -r<n>, cli only; see eff_repeat *)

(* repetition-dependent programs.  What a test does may depend on how often it has run before (a static counter in the test, a
   plugin that only complains the first time, ...).  r = number of repetitions completed before this one = loopCount - 1. *)
Inductive rcond := REq (k : N) | RNe (k : N) | RLt (k : N) | RGe (k : N).
Definition holds (c : rcond) (r : N) : bool :=
  match c with REq k => (r =? k)%N | RNe k => negb (r =? k)%N | RLt k => (r <? k)%N | RGe k => (k <=? r)%N end.
Inductive rstmt := RS (x : stmt) | RIf (c : rcond) (x y : stmt).          (* RIf c x y: behaves as x in the repetitions where c holds, as y in the others *)
Inductive rline := RL (l : N) | RLIf (c : rcond) (l : N).                  (* plugin failure at line l: always / only in the repetitions where c holds *)
Record rtest := mkRTest { rt_ignored : bool; rt_sel : bool; rt_line : N;
                          rt_setup : list rstmt; rt_body : list rstmt; rt_teardown : list rstmt;
                          rt_pre : list rline; rt_post : list rline }.
Definition stmt_at (r : N) (x : rstmt) : stmt := match x with RS a => a | RIf c a b => if holds c r then a else b end.
Definition lines_at (r : N) (l : list rline) : list N :=
  flat_map (fun x => match x with RL a => [a] | RLIf c a => if holds c r then [a] else [] end) l.
Definition at_rep (r : N) (t : rtest) : test :=
  mkTest (rt_ignored t) (rt_sel t) (rt_line t) (map (stmt_at r) (rt_setup t)) (map (stmt_at r) (rt_body t)) (map (stmt_at r) (rt_teardown t))
         (lines_at r (rt_pre t)) (lines_at r (rt_post t)).
Definition prog_at (r : N) (l : list rtest) : list test := map (at_rep r) l.
Record scenario := mkScn { s_cfg : config; s_tests : list rtest }.

(* ------------------------------------------------------------------ observations *)
Record event := mkEv { e_test : N; e_phase : N; e_idx : N; e_depth : Z }.    (* one executed statement; phase 0/1/2 *)
Record frec := mkF { f_test : N; f_file : N; f_line : N; f_kind : N }.       (* kind 0 check, 1 escaped exception, 3 plugin; file 2 = plugin file *)
(* one executed statement INSIDE a try block: statement number u_sub of the compound statement number u_idx of the phase
   (the statements of the block count from 0, those of the handler go on behind them) *)
Record subev := mkSub { u_test : N; u_phase : N; u_idx : N; u_sub : N }.
Inductive item := IEv (e : event) | IFail (f : frec) | IAfter (d : Z) (ctx_ok : bool) | ISub (u : subev).
Record cnt := mkCnt { k_tests : N; k_run : N; k_checks : N; k_fail : N; k_filt : N; k_ign : N }.
Record summary := mkSum { m_ok : bool; m_nfail : option N; m_tests : N; m_run : N; m_checks : N; m_ign : N; m_filt : N }.
Record rep_obs := mkRep { r_events : list event; r_fails : list frec; r_after : list (Z * bool);
                          r_summary : option summary; r_counters : option cnt; r_subs : list subev }.
Record obs := mkObs { o_escaped : bool; o_ret : option Z; o_reps : list rep_obs }.

(* ------------------------------------------------------------------ machine state *)
Record st := mkSt { depth : Z;            (* jmp_buf_index *)
                    overflow : bool;      (* a slot outside test_exit_jmp_buf[0..slots-1] was written *)
                    cur : option N;       (* UtestShell::currentTest_ / testResult_ (None = outside any test) *)
                    cn : cnt;             (* the TestResult of the running repetition *)
                    out : list item }.    (* what the scripted tests and the output have logged, in order *)
Inductive exn := XFailed | XStd | XOther.
Inductive outcome := ONormal | OJump (slot : Z) | OThrow (e : exn).

Definition slots : Z := Z.of_N jmp_slots.
Definition slot_ok (k : Z) : bool := (0 <=? k) && (k <? slots).

Definition cadd (a b : cnt) : cnt :=
  mkCnt (k_tests a + k_tests b) (k_run a + k_run b) (k_checks a + k_checks b) (k_fail a + k_fail b) (k_filt a + k_filt b) (k_ign a + k_ign b)%N.
Definition czero := mkCnt 0 0 0 0 0 0.
Definition one_test := mkCnt 1 0 0 0 0 0.
Definition one_run := mkCnt 0 1 0 0 0 0.
Definition one_check := mkCnt 0 0 1 0 0 0.
Definition one_fail := mkCnt 0 0 0 1 0 0.
Definition one_filt := mkCnt 0 0 0 0 1 0.
Definition one_ign := mkCnt 0 0 0 0 0 1.

Definition set_depth (d : Z) (s : st) : st := mkSt d (overflow s) (cur s) (cn s) (out s).
Definition mark_slot (k : Z) (s : st) : st := mkSt (depth s) (overflow s || negb (slot_ok k)) (cur s) (cn s) (out s).
Definition set_cur (c : option N) (s : st) : st := mkSt (depth s) (overflow s) c (cn s) (out s).
Definition count (d : cnt) (s : st) : st := mkSt (depth s) (overflow s) (cur s) (cadd (cn s) d) (out s).
Definition emit (x : item) (s : st) : st := mkSt (depth s) (overflow s) (cur s) (cn s) (out s ++ [x]).

(* PlatformSpecificSetJmpImplementation: slot = index, index+1 during the call, -1 on normal return; a longjmp that was aimed
   at this slot lands here (index already decremented by PlatformSpecificLongJmpImplementation) and makes it return 0; a C++
   exception passes through and leaves the index incremented. *)
Definition setjmp_call (f : st -> st * outcome) (s : st) : st * bool * outcome :=
  let k := depth s in
  let '(s2, o) := f (set_depth (k + 1) (mark_slot k s)) in
  match o with
  | ONormal => (set_depth (depth s2 - 1) s2, true, ONormal)
  | OJump j => if j =? k then (s2, false, ONormal) else (s2, false, OJump j)
  | OThrow e => (s2, false, OThrow e)
  end.
Definition long_jmp (s : st) : st * outcome := (set_depth (depth s - 1) s, OJump (depth s - 1)).
Definition restore_jump_buffer (s : st) : st := set_depth (depth s - 1) s.

(* TestResult::addFailure: print the failure, failureCount_++ *)
Definition add_failure (f : frec) (s : st) : st := count one_fail (emit (IFail f) s).
Definition exc_failure (i : N) (t : test) : frec := mkF i 0 (t_line t) 1.      (* UnexpectedExceptionFailure: the test's own location *)

(* ---- inside a user try block *)
(* which handler catches which exception object.  The object a failing C++-style check throws to leave the phase is a
   CppUTestFailedException (include/CppUTest/Utest.h): a plain class WITHOUT a base class -- in particular not a std::exception --
   so no handler for a class of the standard library or of the program's own matches it; only catch (...) does. *)
Definition catches_type (e : ekind) (x : exn) : bool :=
  match e, x with EStd, XStd => true | EInt, XOther => true | _, _ => false end.
Definition catches (h : hkind) (x : exn) : bool := match h with HAll => true | HType e => catches_type e x end.

(* statement number j of the try block that is statement k of the phase: the same assert functions and terminators as at top level *)
Definition exec_base (exc : bool) (i ph k j : N) (b : base) (s : st) : st * outcome :=
  let s := emit (ISub (mkSub i ph k j)) s in
  match b with
  | BNop => (s, ONormal)
  | BCheck => (count one_check s, ONormal)
  | BFailX f l => let s := add_failure (mkF i f l 0) (count one_check s) in
                  if exc then (s, OThrow XFailed) else long_jmp s
  | BFailC f l => long_jmp (add_failure (mkF i f l 0) (count one_check s))
  | BThrowStd => (s, OThrow XStd)
  | BThrowOther => (s, OThrow XOther)
  | BCheckK kd a f l =>
      if called kd a then
        let s := count one_check s in
        if fn_passes kd a then (s, ONormal)
        else let s := add_failure (mkF i f l 0) s in
             if c_style kd then long_jmp s
             else if exc then (s, OThrow XFailed) else long_jmp s
      else (s, ONormal)
  end.
Fixpoint exec_bases (exc : bool) (i ph k j : N) (l : list base) (s : st) : st * outcome :=
  match l with
  | [] => (s, ONormal)
  | b :: r => let '(s', o) := exec_base exc i ph k j b s in
              match o with ONormal => exec_bases exc i ph k (j + 1)%N r s' | _ => (s', o) end
  end.
(* UtestShell::fail(text, file, line) through the current terminator *)
Definition fail_here (exc : bool) (i f l : N) (s : st) : st * outcome :=
  let s := add_failure (mkF i f l 0) (count one_check s) in
  if exc then (s, OThrow XFailed) else long_jmp s.

Definition exec_stmt (exc : bool) (i ph k : N) (x : stmt) (s : st) : st * outcome :=
  let s := emit (IEv (mkEv i ph k (depth s))) s in
  match x with
  | SNop => (s, ONormal)
  | SCheck => (count one_check s, ONormal)
  | SFailX f l => let s := add_failure (mkF i f l 0) (count one_check s) in
                  if exc then (s, OThrow XFailed) else long_jmp s              (* NormalTestTerminator::exitCurrentTest *)
  | SFailC f l => long_jmp (add_failure (mkF i f l 0) (count one_check s))    (* TestTerminatorWithoutExceptions *)
  | SThrowStd => (s, OThrow XStd)
  | SThrowOther => (s, OThrow XOther)
  | SCheckK k a f l =>
      if called k a then
        let s := count one_check s in                                           (* getTestResult()->countCheck(): first statement of every assert function *)
        if fn_passes k a then (s, ONormal)
        else let s := add_failure (mkF i f l 0) s in                            (* failWith(XxxFailure(this, fileName, lineNumber, ...), terminator) *)
             if c_style k then long_jmp s                                       (* TestTerminatorWithoutExceptions *)
             else if exc then (s, OThrow XFailed) else long_jmp s               (* NormalTestTerminator *)
      else (s, ONormal)                                                         (* the macro found the comparison true: no call *)
  | STry blk h hd =>                                                            (* try { blk } catch (h) { hd } *)
      let '(s1, o1) := exec_bases exc i ph k 0 blk s in
      match o1 with
      | OThrow e => if catches h e then exec_bases exc i ph k (N.of_nat (length blk)) hd s1       (* the handler; what it does is what the statement does *)
                    else (s1, o1)                                                                 (* no handler matches: the exception goes on *)
      | _ => (s1, o1)                                                           (* the block completed, or a longjmp passed over the handlers *)
      end
  | SThrows ex blk f l =>
      (* include/CppUTest/UtestMacros.h CHECK_THROWS(expected, expression):
           try { (expression); } catch (const expected&) { caught_expected = true; } catch (...) { failure_msg = "... threw a different type"; }
           if (!caught_expected) UtestShell::getCurrent()->fail(failure_msg, __FILE__, __LINE__); else UtestShell::getCurrent()->countCheck(); *)
      let '(s1, o1) := exec_bases exc i ph k 0 blk s in
      match o1 with
      | OJump _ => (s1, o1)
      | OThrow e => if catches_type ex e then (count one_check s1, ONormal) else fail_here exc i f l s1
      | ONormal => fail_here exc i f l s1
      end
  end.
Fixpoint exec_stmts (exc : bool) (i ph k : N) (l : list stmt) (s : st) : st * outcome :=
  match l with
  | [] => (s, ONormal)
  | x :: r => let '(s', o) := exec_stmt exc i ph k x s in
              match o with ONormal => exec_stmts exc i ph (k + 1)%N r s' | _ => (s', o) end
  end.

(* the catch handlers of Utest::run *)
Definition handlers (rethrow : bool) (i : N) (t : test) (so : st * outcome) : st * outcome :=
  let '(s, o) := so in
  match o with
  | OThrow XFailed => (restore_jump_buffer s, ONormal)
  | OThrow XStd => let s := restore_jump_buffer (add_failure (exc_failure i t) s) in (s, if rethrow then OThrow XStd else ONormal)
  | OThrow XOther => let s := restore_jump_buffer (add_failure (exc_failure i t) s) in (s, if rethrow then OThrow XOther else ONormal)
  | _ => (s, o)
  end.
Definition drop_ret (r : st * bool * outcome) : st * outcome := let '(s, _, o) := r in (s, o).

Definition utest_run_exc (rethrow : bool) (i : N) (t : test) (s : st) : st * outcome :=
  let try1 :=
    let '(s1, r, o1) := setjmp_call (exec_stmts true i 0 0 (t_setup t)) s in
    match o1 with
    | ONormal => if r then drop_ret (setjmp_call (exec_stmts true i 1 0 (t_body t)) s1) else (s1, ONormal)
    | _ => (s1, o1)
    end in
  let '(s2, o2) := handlers rethrow i t try1 in
  match o2 with
  | ONormal => handlers rethrow i t (drop_ret (setjmp_call (exec_stmts true i 2 0 (t_teardown t)) s2))
  | _ => (s2, o2)
  end.
Definition utest_run_noexc (i : N) (t : test) (s : st) : st * outcome :=
  let '(s1, r, o1) := setjmp_call (exec_stmts false i 0 0 (t_setup t)) s in
  match o1 with
  | ONormal =>
      let '(s2, o2) := if r then drop_ret (setjmp_call (exec_stmts false i 1 0 (t_body t)) s1) else (s1, ONormal) in
      match o2 with
      | ONormal => drop_ret (setjmp_call (exec_stmts false i 2 0 (t_teardown t)) s2)
      | _ => (s2, o2)
      end
  | _ => (s1, o1)
  end.
Definition utest_run (exc rethrow : bool) (i : N) (t : test) (s : st) : st * outcome :=
  if exc then utest_run_exc rethrow i t s else utest_run_noexc i t s.

Definition plugin_fails (i : N) (lines : list N) (s : st) : st := fold_left (fun s l => add_failure (mkF i 2 l 3) s) lines s.

(* UtestShell::runOneTestInCurrentProcess *)
Definition run_in_process (exc rethrow : bool) (i : N) (t : test) (s : st) : st * outcome :=
  let s1 := plugin_fails i (t_pre t) s in
  let saved := cur s1 in
  let '(s3, o) := utest_run exc rethrow i t (set_cur (Some i) s1) in
  match o with
  | ONormal => (plugin_fails i (t_post t) (set_cur saved s3), ONormal)
  | _ => (s3, o)                        (* catch (...) { destroyTest; throw; } *)
  end.
Definition run_one_test (exc rethrow : bool) (i : N) (t : test) (s : st) : st * outcome :=
  drop_ret (setjmp_call (run_in_process exc rethrow i t) (count one_run s)).
Definition shell_run (exc : bool) (cfg : config) (i : N) (t : test) (s : st) : st * outcome :=
  if t_ignored t && negb (c_runign cfg) then (count one_ign s, ONormal)      (* IgnoredUtestShell::runOneTest *)
  else run_one_test exc (c_rethrow cfg) i t s.

Definition selected (cfg : config) (t : test) : bool := negb (c_filter cfg) || t_sel t.
Definition is_none {A} (o : option A) : bool := match o with None => true | Some _ => false end.

(* TestRegistry::runAllTests, the loop *)
Fixpoint run_tests (exc : bool) (cfg : config) (i : N) (l : list test) (s : st) : st * outcome :=
  match l with
  | [] => (s, ONormal)
  | t :: r =>
      let s1 := count one_test s in
      if selected cfg t then
        let '(s2, o) := shell_run exc cfg i t s1 in
        match o with
        | ONormal => run_tests exc cfg (i + 1)%N r (emit (IAfter (depth s2) (is_none (cur s2))) s2)
        | _ => (s2, o)
        end
      else run_tests exc cfg (i + 1)%N r (count one_filt s1)
  end.

Definition is_failure (c : cnt) : bool := negb (k_fail c =? 0)%N || (k_run c + k_ign c =? 0)%N.
(* TestOutput::printTestsEnded *)
Definition mk_summary (c : cnt) : summary :=
  let isf := is_failure c in
  mkSum (negb isf) (if isf then if (0 <? k_fail c)%N then Some (k_fail c) else None else None)
        (k_tests c) (k_run c) (k_checks c) (k_ign c) (k_filt c).

Fixpoint events_of (l : list item) : list event := match l with [] => [] | IEv e :: r => e :: events_of r | _ :: r => events_of r end.
Fixpoint fails_of (l : list item) : list frec := match l with [] => [] | IFail f :: r => f :: fails_of r | _ :: r => fails_of r end.
Fixpoint subs_of (l : list item) : list subev := match l with [] => [] | ISub u :: r => u :: subs_of r | _ :: r => subs_of r end.
Fixpoint afters_of (l : list item) : list (Z * bool) := match l with [] => [] | IAfter d b :: r => (d, b) :: afters_of r | _ :: r => afters_of r end.

Definition fresh (s : st) : st := mkSt (depth s) (overflow s) (cur s) czero [].       (* a new TestResult per repetition *)
Definition run_rep (exc : bool) (cfg : config) (tests : list test) (s : st) : st * outcome := run_tests exc cfg 0%N tests (fresh s).
Definition is_normal (o : outcome) : bool := match o with ONormal => true | _ => false end.
Definition rep_obs_of (cfg : config) (s : st) (o : outcome) : rep_obs :=
  mkRep (events_of (out s)) (fails_of (out s)) (afters_of (out s))
        (if is_normal o then Some (mk_summary (cn s)) else None)
        (if c_cli cfg then None else Some (cn s))
        (subs_of (out s)).

(* CommandLineArguments::setRepeatCount: repeat_ = AtoI(text after -r); if (0 == repeat_) repeat_ = 2;   ("-r" alone and "-r0" repeat twice) *)
Definition eff_repeat (n : N) : N := if (n =? 0)%N then 2%N else n.

(* CommandLineTestRunner::runAllTests, the repeat loop:
     while (loopCount++ < repeatCount) { TestResult tr(output); registry_->runAllTests(tr);
                                         failedTestCount += tr.getFailureCount(); if (tr.isFailure()) failedExecutionCount++; }
   n = repetitions still to do, loop = repetitions done (= loopCount - 1 inside the body); every repetition gets a fresh TestResult
   (run_rep), the two accumulators live across the repetitions. *)
Fixpoint runner_loop (exc : bool) (cfg : config) (tests : list rtest) (n : nat) (loop : N) (s : st) (ft fe : N) : list rep_obs * st * N * N * outcome :=
  match n with
  | O => ([], s, ft, fe, ONormal)
  | S n' =>
      let '(s1, o) := run_rep exc cfg (prog_at loop tests) s in
      let r := rep_obs_of cfg s1 o in
      match o with
      | ONormal =>
          let '(rs, s2, a, b, o2) := runner_loop exc cfg tests n' (loop + 1)%N s1 (ft + k_fail (cn s1))%N (if is_failure (cn s1) then fe + 1 else fe)%N in
          (r :: rs, s2, a, b, o2)
      | _ => ([r], s1, ft, fe, o)
      end
  end.
(* return (int) (failedTestCount != 0 ? failedTestCount : failedExecutionCount);   size_t -> int *)
Definition exit_value (ft fe : N) : Z := cast TInt (cast TULong (Z.of_N (if (ft =? 0)%N then fe else ft))).

Definition st0 : st := mkSt 0 false None czero [].
Definition run_from (exc : bool) (scn : scenario) (s0 : st) : obs * st :=
  let cfg := s_cfg scn in
  if c_cli cfg then
    let '(rs, s, ft, fe, o) := runner_loop exc cfg (s_tests scn) (N.to_nat (eff_repeat (c_repeat cfg))) 0%N s0 0%N 0%N in
    (mkObs (negb (is_normal o)) (if is_normal o then Some (exit_value ft fe) else None) rs, s)
  else
    let '(s, o) := run_rep exc cfg (prog_at 0%N (s_tests scn)) s0 in
    (mkObs (negb (is_normal o)) None [rep_obs_of cfg s o], s).
Definition run (exc : bool) (scn : scenario) : obs := fst (run_from exc scn st0).

(* ------------------------------------------------------------------ spec: what the property demands of an observation.
   Written from the program text alone (no machine state, no jump bookkeeping). *)
(* ---- a user try block, read from the program text (C++ [except.handle]; there are no try blocks in a build without exceptions).
   A statement list is left in one of three ways: it completes, a check fails C-style (longjmp: no handler of the program is
   entered), or an exception object is thrown -- a std exception, the foreign one, or the object of a failing C++-style check. *)
Definition b_pass (b : base) : bool := match b with BNop | BCheck => true | BCheckK k a _ _ => passes k a | _ => false end.
Definition b_counts (b : base) : N :=
  match b with BCheck | BFailX _ _ | BFailC _ _ => 1%N | BCheckK k a _ _ => counted k a | _ => 0%N end.
Definition b_failure (i : N) (b : base) : list frec :=
  match b with
  | BFailX f l | BFailC f l => [mkF i f l 0]
  | BCheckK k a f l => if passes k a then [] else [mkF i f l 0]
  | _ => []
  end.
Fixpoint b_executed (l : list base) : list base :=
  match l with [] => [] | b :: r => if b_pass b then b :: b_executed r else [b] end.
Fixpoint b_ending (l : list base) : option base :=
  match l with [] => None | b :: r => if b_pass b then b_ending r else Some b end.
Inductive how := HowDone | HowJump | HowThrow (e : exn).
Definition b_how (b : base) : how :=
  match b with
  | BFailX _ _ => HowThrow XFailed
  | BFailC _ _ => HowJump
  | BThrowStd => HowThrow XStd
  | BThrowOther => HowThrow XOther
  | BCheckK k a _ _ => if passes k a then HowDone else if c_style k then HowJump else HowThrow XFailed
  | _ => HowDone
  end.
Definition bases_how (l : list base) : how := match b_ending l with None => HowDone | Some b => b_how b end.
(* try { blk } catch (h) { hd }: the handler is entered exactly when the block throws an object it catches *)
Definition handler_entered (blk : list base) (h : hkind) : bool :=
  match bases_how blk with HowThrow e => catches h e | _ => false end.
Definition try_how (blk : list base) (h : hkind) (hd : list base) : how :=
  match bases_how blk with HowThrow e => if catches h e then bases_how hd else HowThrow e | w => w end.
(* CHECK_THROWS(ex, blk): passes when blk throws an ex; is not reached when a C-style check of blk fails; fails otherwise *)
Definition throws_how (ex : ekind) (blk : list base) : how :=
  match bases_how blk with
  | HowJump => HowJump
  | HowThrow e => if catches_type ex e then HowDone else HowThrow XFailed
  | HowDone => HowThrow XFailed
  end.
Definition stmt_how (x : stmt) : how :=
  match x with
  | SNop | SCheck => HowDone
  | SFailX _ _ => HowThrow XFailed
  | SFailC _ _ => HowJump
  | SThrowStd => HowThrow XStd
  | SThrowOther => HowThrow XOther
  | SCheckK k a _ _ => if passes k a then HowDone else if c_style k then HowJump else HowThrow XFailed
  | STry blk h hd => try_how blk h hd
  | SThrows ex blk _ _ => throws_how ex blk
  end.
Definition how_done (w : how) : bool := match w with HowDone => true | _ => false end.
(* an exception of the program's own (not the exit of a failing check) leaves the statement *)
Definition how_escapes (w : how) : bool := match w with HowThrow XStd | HowThrow XOther => true | _ => false end.
Definition sumN {A} (f : A -> N) (l : list A) : N := fold_right (fun x a => (f x + a)%N) 0%N l.

Definition is_pass (x : stmt) : bool :=
  match x with
  | SNop | SCheck => true
  | SCheckK k a _ _ => passes k a
  | STry blk h hd => how_done (try_how blk h hd)
  | SThrows ex blk _ _ => how_done (throws_how ex blk)
  | _ => false
  end.
(* the statement uses the exception machinery (it cannot be written in a build without exceptions) *)
Definition is_throw (x : stmt) : bool := match x with SThrowStd | SThrowOther | STry _ _ _ | SThrows _ _ _ _ => true | _ => false end.
(* what the statement adds to "checks" when it is executed *)
Definition n_checks (x : stmt) : N :=
  match x with
  | SCheck | SFailX _ _ | SFailC _ _ => 1%N
  | SCheckK k a _ _ => counted k a
  | STry blk h hd => (sumN b_counts (b_executed blk) + (if handler_entered blk h then sumN b_counts (b_executed hd) else 0))%N
  | SThrows ex blk _ _ => (sumN b_counts (b_executed blk) + (match bases_how blk with HowJump => 0 | _ => 1 end))%N
  | _ => 0%N
  end.
(* the statements of a phase that execute: up to and including the first one that does not pass *)
Fixpoint executed (l : list stmt) : list stmt :=
  match l with [] => [] | x :: r => if is_pass x then x :: executed r else [x] end.
Definition completes (l : list stmt) : bool := forallb is_pass l.
Fixpoint number {A} (k : N) (l : list A) : list (N * A) := match l with [] => [] | x :: r => (k, x) :: number (k + 1)%N r end.

Definition runs (cfg : config) (t : test) : bool := negb (t_ignored t) || c_runign cfg.
(* the phases of a test that are entered, with their statement lists: body only if setup completed, teardown always *)
Definition phases (t : test) : list (N * list stmt) :=
  [(0%N, t_setup t)] ++ (if completes (t_setup t) then [(1%N, t_body t)] else []) ++ [(2%N, t_teardown t)].
Definition want_events (i : N) (t : test) : list (N * N * N) :=
  flat_map (fun p => map (fun kx => (i, fst p, fst kx)) (number 0 (executed (snd p)))) (phases t).
Definition stmt_failure (i : N) (t : test) (x : stmt) : list frec :=
  match x with
  | SFailX f l | SFailC f l => [mkF i f l 0]
  | SThrowStd | SThrowOther => [mkF i 0 (t_line t) 1]
  | SCheckK k a f l => if passes k a then [] else [mkF i f l 0]         (* a failed check: once, at the location it was given *)
  | STry blk h hd =>
      flat_map (b_failure i) (b_executed blk)
      ++ (if handler_entered blk h then flat_map (b_failure i) (b_executed hd) else [])
      ++ (if how_escapes (try_how blk h hd) then [mkF i 0 (t_line t) 1] else [])
  | SThrows ex blk f l =>
      flat_map (b_failure i) (b_executed blk)
      ++ (match bases_how blk with
          | HowJump => []
          | HowThrow e => if catches_type ex e then [] else [mkF i f l 0]
          | HowDone => [mkF i f l 0]
          end)
  | _ => []
  end.
(* the statements INSIDE the compound statement number k of phase ph that execute: of the block up to and including the first one
   that does not pass; of the handler only if it is entered *)
Definition stmt_subs (i ph k : N) (x : stmt) : list subev :=
  match x with
  | STry blk h hd =>
      map (fun jb => mkSub i ph k (fst jb)) (number 0 (b_executed blk))
      ++ (if handler_entered blk h then map (fun jb => mkSub i ph k (fst jb)) (number (N.of_nat (length blk)) (b_executed hd)) else [])
  | SThrows _ blk _ _ => map (fun jb => mkSub i ph k (fst jb)) (number 0 (b_executed blk))
  | _ => []
  end.
Definition want_subs (i : N) (t : test) : list subev :=
  flat_map (fun p => flat_map (fun kx => stmt_subs i (fst p) (fst kx) (snd kx)) (number 0 (executed (snd p)))) (phases t).
Definition want_fails (i : N) (t : test) : list frec :=
  map (fun l => mkF i 2 l 3) (t_pre t)
  ++ flat_map (fun p => flat_map (stmt_failure i t) (executed (snd p))) (phases t)
  ++ map (fun l => mkF i 2 l 3) (t_post t).
Definition want_checks (t : test) : N := sumN n_checks (flat_map (fun p => executed (snd p)) (phases t)).

Definition started (cfg : config) (it : N * test) : bool := selected cfg (snd it) && runs cfg (snd it).
Definition nb {A} (f : A -> bool) (l : list A) : N := N.of_nat (length (filter f l)).
Definition rep_events (cfg : config) (ts : list (N * test)) := flat_map (fun it => want_events (fst it) (snd it)) (filter (started cfg) ts).
Definition rep_subs (cfg : config) (ts : list (N * test)) := flat_map (fun it => want_subs (fst it) (snd it)) (filter (started cfg) ts).
Definition rep_fails (cfg : config) (ts : list (N * test)) := flat_map (fun it => want_fails (fst it) (snd it)) (filter (started cfg) ts).
Definition rep_counts (cfg : config) (ts : list (N * test)) : cnt :=
  mkCnt (N.of_nat (length ts))
        (nb (started cfg) ts)
        (fold_right (fun it a => (want_checks (snd it) + a)%N) 0%N (filter (started cfg) ts))
        (N.of_nat (length (rep_fails cfg ts)))
        (nb (fun it => negb (selected cfg (snd it))) ts)
        (nb (fun it => selected cfg (snd it) && negb (runs cfg (snd it))) ts).
Definition rep_is_ok (c : cnt) : bool := (k_fail c =? 0)%N && (0 <? k_run c + k_ign c)%N.

Fixpoint list_eqb {A} (e : A -> A -> bool) (a b : list A) : bool :=
  match a, b with [] , [] => true | x :: a', y :: b' => e x y && list_eqb e a' b' | _, _ => false end.
Definition ev3_eqb (a b : N * N * N) : bool :=
  let '(a1, a2, a3) := a in let '(b1, b2, b3) := b in ((a1 =? b1) && (a2 =? b2) && (a3 =? b3))%N.
Definition frec_eqb (a b : frec) : bool :=
  ((f_test a =? f_test b) && (f_file a =? f_file b) && (f_line a =? f_line b) && (f_kind a =? f_kind b))%N.
Definition sub_eqb (a b : subev) : bool :=
  ((u_test a =? u_test b) && (u_phase a =? u_phase b) && (u_idx a =? u_idx b) && (u_sub a =? u_sub b))%N.
Definition cnt_eqb (a b : cnt) : bool :=
  ((k_tests a =? k_tests b) && (k_run a =? k_run b) && (k_checks a =? k_checks b) && (k_fail a =? k_fail b)
   && (k_filt a =? k_filt b) && (k_ign a =? k_ign b))%N.
Definition optN_eqb (a b : option N) : bool :=
  match a, b with None, None => true | Some x, Some y => (x =? y)%N | _, _ => false end.

Definition summary_ok (c : cnt) (m : summary) : bool :=
  Bool.eqb (m_ok m) (rep_is_ok c)
  && optN_eqb (m_nfail m) (if (0 <? k_fail c)%N then Some (k_fail c) else None)
  && ((m_tests m =? k_tests c) && (m_run m =? k_run c) && (m_checks m =? k_checks c) && (m_ign m =? k_ign c) && (m_filt m =? k_filt c))%N.

Definition rep_ok (cfg : config) (ts : list (N * test)) (r : rep_obs) : bool :=
  let c := rep_counts cfg ts in
  list_eqb ev3_eqb (map (fun e => (e_test e, e_phase e, e_idx e)) (r_events r)) (rep_events cfg ts)       (* lifecycle *)
  && forallb (fun e => (1 <=? e_depth e) && (e_depth e <=? slots)) (r_events r)                            (* inside the jump stack *)
  && list_eqb frec_eqb (r_fails r) (rep_fails cfg ts)                                                       (* every failure once, where it happened *)
  && (N.of_nat (length (r_after r)) =? nb (fun it => selected cfg (snd it)) ts)%N
  && forallb (fun a => (fst a =? 0) && snd a) (r_after r)                                                   (* depth and context restored after every test *)
  && match r_summary r with Some m => summary_ok c m | None => false end
  && match r_counters r with Some k => cnt_eqb k c | None => true end
  && list_eqb sub_eqb (r_subs r) (rep_subs cfg ts).                                                        (* inside the try blocks: nothing behind a failing check, no handler for it *)

Definition has_throw (t : test) : bool := existsb is_throw (t_setup t ++ t_body t ++ t_teardown t).
(* a throw statement somewhere in the program text, in whichever repetition it would be executed *)
Definition rstmt_throws (x : rstmt) : bool := match x with RS a => is_throw a | RIf _ a b => is_throw a || is_throw b end.
Definition rhas_throw (t : rtest) : bool := existsb rstmt_throws (rt_setup t ++ rt_body t ++ rt_teardown t).

(* A handler that can intercept the exit of a failing check.  In a build with exceptions a C++-style check leaves the phase by
   throwing; the language hands every exception object to an enclosing catch (...) -- whatever its class -- and the handler decides
   what happens next (swallow, rethrow, fail again).  No exception-based exit can prevent that, and a program that catches (...)
   around a failing check has taken the exit path into its own hands: its phases neither complete, nor fail a check, nor throw in
   the sense of the property's quantifier.  CHECK_THROWS contains a catch (...) of its own.  Such programs (a C++-style check that
   can fail inside a try block with a catch (...), or inside the expression of CHECK_THROWS) are outside what [spec] judges; a
   handler for std::exception or for any other class is NOT such a handler: the exit of a failing check must pass it. *)
Definition b_cxx_fail (b : base) : bool := match b_how b with HowThrow XFailed => true | _ => false end.
Definition intercepts (x : stmt) : bool :=
  match x with
  | STry blk HAll _ => existsb b_cxx_fail blk
  | SThrows _ blk _ _ => existsb b_cxx_fail blk
  | _ => false
  end.
Definition rstmt_intercepts (x : rstmt) : bool := match x with RS a => intercepts a | RIf _ a b => intercepts a || intercepts b end.
Definition rintercepts (t : rtest) : bool := existsb rstmt_intercepts (rt_setup t ++ rt_body t ++ rt_teardown t).

(* the repetitions: number j (from 0) runs the program as it behaves in repetition j *)
Definition rep_index (n : N) : list N := map N.of_nat (seq 0 (N.to_nat n)).
Definition rep_tests (scn : scenario) (j : N) : list (N * test) := number 0%N (prog_at j (s_tests scn)).
Definition rep_want (scn : scenario) (j : N) : cnt := rep_counts (s_cfg scn) (rep_tests scn j).
Fixpoint reps_ok (scn : scenario) (j : N) (l : list rep_obs) : bool :=
  match l with [] => true | r :: l' => rep_ok (s_cfg scn) (rep_tests scn j) r && reps_ok scn (j + 1)%N l' end.
(* "that holds for every repetition": every one of the n repetitions had no failure and ran or ignored at least one test *)
Definition every_rep_ok (scn : scenario) (n : N) : bool := forallb (fun j => rep_is_ok (rep_want scn j)) (rep_index n).
Definition total_failures (scn : scenario) (n : N) : N := fold_right (fun j a => (k_fail (rep_want scn j) + a)%N) 0%N (rep_index n).

Definition spec (scn : scenario) (o : obs) : bool :=
  let cfg := s_cfg scn in
  let n := if c_cli cfg then eff_repeat (c_repeat cfg) else 1%N in
  if c_rethrow cfg && existsb rhas_throw (s_tests scn) then true      (* outside the property's quantifier, see DESIGN C01 scope decision *)
  else if existsb rintercepts (s_tests scn) then true                 (* catch (...) around a C++-style check that can fail: see [intercepts] *)
  else
    negb (o_escaped o)
    && (N.of_nat (length (o_reps o)) =? n)%N
    && reps_ok scn 0%N (o_reps o)                                      (* lifecycle, failures, true summary: of EACH repetition, for that repetition *)
    && (if c_cli cfg
        then match o_ret o with
             | Some z => Bool.eqb (z =? 0) (every_rep_ok scn n)        (* zero iff EVERY repetition is OK *)
             | None => false
             end
        else is_none (o_ret o)).

(* scenarios the theorems and the harness are about *)
Definition valid (exc : bool) (scn : scenario) : bool :=
  (exc || negb (existsb rhas_throw (s_tests scn)))
  && negb (c_rethrow (s_cfg scn) && existsb rhas_throw (s_tests scn))
  && (Z.of_N (total_failures scn (eff_repeat (c_repeat (s_cfg scn)))) <? 2 ^ 31)
  && (Z.of_N (c_repeat (s_cfg scn)) <? 2 ^ 31).
