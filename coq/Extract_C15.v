From Coq Require Import ExtrOcamlBasic.
From CppUVerif Require Import C15_Model.
Extraction "c15_model.ml" C15_Model.run C15_Model.spec C15_Model.valid.
