(* C04 / C05 / C06: MemoryLeakDetector's allocation, release and reallocation paths as TRANSLATED from /repo on every run
   (gen/Gen_HeapC04D.v: src_det_allocMemory, src_det_deallocMemory, src_det_reallocMemory and the functions they are made of) do what
   the hand-written models say: C04_Model.v (det, d_store, d_dealloc, d_realloc_failed, t_add, t_remove), the misuse classification
   of C06_Model.v (cat: CNonAlloc | CMismatch first | CCorrupt | CNone) and the "fails cleanly" clause of C05 (every path that
   returns NULL leaves the table exactly as it was and gives back whatever it had obtained).
   The heap represents a detector state through C04_DetRep.detector_at; user memory is an opaque address; the outside world answers
   through the oracle streams (allocs, nodefails, inlines, reallocs, guards) and every answer is recorded in an event.
   actual / equal_type / destroyed are arbitrary functions (the Section variables of the generated file).
   Contents: 1 the leaves (MemoryLeakDetectorNode::init, the two size formulas, matchingAllocation, checkForCorruption);
   2 storeLeakInformation and allocMemory (oversize / allocator refuses / separate record refused / success with a separate or an
   inline record); 3 deallocMemory (= d_dealloc, the events, at most one report, the C06 category); 4 reallocMemory (oversize / NULL /
   unknown block / the three failures = d_realloc_failed / the two successes = d_store (fst (d_dealloc ..)) ..); 5 invalidateMemory;
   6 deallocAllMemoryInCurrentAllocationStage = d_stage_free (tables satisfying C04_Table.Inv without a record for address 0);
   the bridge to C06_Model.matching / check; vm_compute examples on a concrete heap, with the two counterexamples that explain
   hypotheses (sequence number wrap, record for the address 0).
   Fuel: the bucket of the address must be shorter than the fuel (removeNode / retrieveNode walk one bucket); the stage loop needs
   number of records + 80. *)
From Coq Require Import ZArith NArith Bool List Lia.
From CppUVerif Require Import lib.CSem lib.CMem lib.CMemFacts lib.CHeap gen.Gen_Common gen.Gen_HeapC04
  C04_Model C04_HeapRep C04_HeapList C04_HeapListW C04_HeapTable C04_HeapTableW C07_HeapRep C07_HeapTable gen.Gen_HeapC04D
  C04_DetRep C04_Lists C04_Table C04_Proofs.
From CppUVerif Require C06_Model.
Import ListNotations.
Local Open Scope Z_scope.

(* ------------------------------------------------------------------ small facts *)
Lemma z_of_N_64 a : (a < 2 ^ 64)%N -> 0 <= Z.of_N a < 18446744073709551616.
Proof. intro H. split; [apply N2Z.is_nonneg|]. change 18446744073709551616 with (Z.of_N (2 ^ 64)). apply N2Z.inj_lt. exact H. Qed.
Lemma c_eq_N0 a : z2b (c_eq (Z.of_N a) 0) = (a =? 0)%N.
Proof. change 0 with (Z.of_N 0). apply w_key_eq. Qed.
Lemma c_ne_N0 a : z2b (c_ne (Z.of_N a) 0) = negb (a =? 0)%N.
Proof. unfold c_ne. rewrite b2z_z2b. change 0 with (Z.of_N 0). rewrite of_N_eqb. reflexivity. Qed.
Lemma z2b_lnot g : z2b (c_lnot g) = (g =? 0).
Proof. unfold c_lnot. rewrite b2z_z2b. unfold z2b. apply negb_involutive. Qed.
Lemma hp_eq_null_ptr b i : z2b (hp_eq (HPtr b i) HNull) = false. Proof. reflexivity. Qed.
Lemma hp_eq_null_null : z2b (hp_eq HNull HNull) = true. Proof. reflexivity. Qed.

(* loads, stores and address computations in a block written as upd h b blk *)
Lemma hpadd_upd_blk (h : heap) b blk i k : (b < length h)%nat -> 0 <= i + k <= Z.of_nat (length blk) ->
  hpadd (upd h b blk) (HPtr b i) k = Some (HPtr b (i + k)).
Proof. intros Hb H. apply hpadd_lit. rewrite hblock_upd_same by exact Hb. exact H. Qed.
Lemma hstore_upd_blk (h : heap) b blk i v : (b < length h)%nat -> 0 <= i < Z.of_nat (length blk) ->
  hstore (upd h b blk) (HPtr b i) v = Some (upd h b (upd blk (Z.to_nat i) v)).
Proof.
  intros Hb H. rewrite hstore_lit; [|lia | rewrite hblock_upd_same by exact Hb; lia | rewrite heap_upd_length; exact Hb].
  unfold set_cell. rewrite hblock_upd_same by exact Hb. rewrite upd_upd. reflexivity.
Qed.

(* ================================================================== 1: the leaves *)
(* ------------------------------------------------------------------ MemoryLeakDetectorNode::init *)
(* eight scalar cells are written, next_ is not *)
Lemma src_node_init_upd fuel (h : heap) evs al nf il rl gs b c0 c1 c2 c3 c4 c5 c6 c7 c8 memory number size allocator period stage file line :
  (b < length h)%nat ->
  src_node_init fuel (upd h b [c0; c1; c2; c3; c4; c5; c6; c7; c8]) evs al nf il rl gs (HPtr b 0) memory number size allocator
                period stage file line =
  FOk (tt, upd h b [VInt size; VInt number; VInt memory; VInt file; VInt line; VInt allocator; VInt period; VInt stage; c8],
       evs, al, nf, il, rl, gs).
Proof.
  intro Hb. unfold src_node_init.
  rewrite (hpadd_upd_blk h b _ 0 1 Hb) by (rewrite ?upd_length; cbn [length]; lia). cbv beta iota.
  rewrite (hstore_upd_blk h b _ _ _ Hb) by (rewrite ?upd_length; cbn [length]; lia). cbv beta iota.
  rewrite (hpadd_upd_blk h b _ 0 2 Hb) by (rewrite ?upd_length; cbn [length]; lia). cbv beta iota.
  rewrite (hstore_upd_blk h b _ _ _ Hb) by (rewrite ?upd_length; cbn [length]; lia). cbv beta iota.
  rewrite (hstore_upd_blk h b _ _ _ Hb) by (rewrite ?upd_length; cbn [length]; lia). cbv beta iota.
  rewrite (hpadd_upd_blk h b _ 0 5 Hb) by (rewrite ?upd_length; cbn [length]; lia). cbv beta iota.
  rewrite (hstore_upd_blk h b _ _ _ Hb) by (rewrite ?upd_length; cbn [length]; lia). cbv beta iota.
  rewrite (hpadd_upd_blk h b _ 0 6 Hb) by (rewrite ?upd_length; cbn [length]; lia). cbv beta iota.
  rewrite (hstore_upd_blk h b _ _ _ Hb) by (rewrite ?upd_length; cbn [length]; lia). cbv beta iota.
  rewrite (hpadd_upd_blk h b _ 0 7 Hb) by (rewrite ?upd_length; cbn [length]; lia). cbv beta iota.
  rewrite (hstore_upd_blk h b _ _ _ Hb) by (rewrite ?upd_length; cbn [length]; lia). cbv beta iota.
  rewrite (hpadd_upd_blk h b _ 0 3 Hb) by (rewrite ?upd_length; cbn [length]; lia). cbv beta iota.
  rewrite (hstore_upd_blk h b _ _ _ Hb) by (rewrite ?upd_length; cbn [length]; lia). cbv beta iota.
  rewrite (hpadd_upd_blk h b _ 0 4 Hb) by (rewrite ?upd_length; cbn [length]; lia). cbv beta iota.
  rewrite (hstore_upd_blk h b _ _ _ Hb) by (rewrite ?upd_length; cbn [length]; lia). cbv beta iota.
  reflexivity.
Qed.

Theorem src_node_init_spec : forall fuel (h : heap) evs al nf il rl gs b memory number size allocator period stage file line,
  (b < length h)%nat -> length (hblock h b) = 9%nat ->
  src_node_init fuel h evs al nf il rl gs (HPtr b 0) memory number size allocator period stage file line =
  FOk (tt, upd h b [VInt size; VInt number; VInt memory; VInt file; VInt line; VInt allocator; VInt period; VInt stage;
                    nth 8 (hblock h b) (VInt 0)], evs, al, nf, il, rl, gs).
Proof.
  intros fuel h evs al nf il rl gs b memory number size allocator period stage file line Hb Hl.
  remember (hblock h b) as blk eqn:E.
  destruct blk as [|c0 [|c1 [|c2 [|c3 [|c4 [|c5 [|c6 [|c7 [|c8 [|c9 blk]]]]]]]]]]; try discriminate Hl.
  assert (Hh : upd h b [c0; c1; c2; c3; c4; c5; c6; c7; c8] = h) by (rewrite E; unfold hblock; apply upd_nth_id).
  pose proof (src_node_init_upd fuel h evs al nf il rl gs b c0 c1 c2 c3 c4 c5 c6 c7 c8 memory number size allocator period stage
                file line Hb) as P.
  rewrite Hh in P. exact P.
Qed.

(* the record written for the model node n *)
Lemma init_cells_raw a size number file line kind per stage v8 :
  [VInt (Z.of_N size); VInt (Z.of_N number); VInt (Z.of_N a); VInt (Z.of_N file); VInt (Z.of_N line); VInt (Z.of_N kind);
   VInt (stamp_code per); VInt (Z.of_N stage); v8] = raw_cells (mkNode a size number file line kind per stage) v8.
Proof. reflexivity. Qed.

(* ------------------------------------------------------------------ the size formulas *)
(* size + memory_corruption_buffer_size (3) rounded up to the NEXT multiple of sizeof(void* ) (8): a multiple of 8 is moved up too *)
Definition size_with_guard (s : Z) : Z := 8 * ((s + 3) / 8 + 1).
(* the largest request that leaves room: (size_t) -1 - (3 + 8 + sizeof(MemoryLeakDetectorNode)) *)
Definition max_user_size : Z := 2 ^ 64 - 1 - (3 + 8 + 64).
Lemma max_user_size_val : max_user_size = 18446744073709551540. Proof. reflexivity. Qed.

Lemma size_with_guard_alt s : size_with_guard s = (s + 3) + (8 - (s + 3) mod 8).
Proof. unfold size_with_guard. pose proof (Z.div_mod (s + 3) 8). lia. Qed.
Lemma size_with_guard_bounds s : s + 3 < size_with_guard s <= s + 11 /\ size_with_guard s mod 8 = 0.
Proof.
  split.
  - rewrite size_with_guard_alt. pose proof (Z.mod_pos_bound (s + 3) 8). lia.
  - unfold size_with_guard. rewrite Z.mul_comm. apply Z_mod_mult.
Qed.

Section Tie.
Variable actual : Z -> Z.
Variable equal_type : Z -> Z -> Z.
Variable destroyed : Z -> Z.

Theorem src_det_sizeOfMemoryWithCorruptionInfo_spec : forall fuel (h : heap) (evs : list dev) al nf (il : list hptr) rl gs this size,
  0 <= size <= max_user_size ->
  src_det_sizeOfMemoryWithCorruptionInfo fuel h evs al nf il rl gs this size = FOk (size_with_guard size, h, evs, al, nf, il, rl, gs).
Proof.
  intros fuel h evs al nf il rl gs this size Hs. rewrite max_user_size_val in Hs.
  unfold src_det_sizeOfMemoryWithCorruptionInfo, src_det_calculateVoidPointerAlignedSize. cbn [finish].
  assert (E : cw 64 false (cw 64 false (8 - cw 64 false (c_rem (cw 64 false (size + 3)) 8)) + cw 64 false (size + 3)) =
              size_with_guard size).
  { rewrite size_with_guard_alt. pose proof (Z.mod_pos_bound (size + 3) 8).
    rewrite (cw_u_small 64 (size + 3)) by (change (2 ^ 64) with 18446744073709551616; lia).
    unfold c_rem. rewrite Z.rem_mod_nonneg by lia.
    rewrite (cw_u_small 64 ((size + 3) mod 8)) by (change (2 ^ 64) with 18446744073709551616; lia).
    rewrite (cw_u_small 64 (8 - (size + 3) mod 8)) by (change (2 ^ 64) with 18446744073709551616; lia).
    rewrite cw_u_small by (change (2 ^ 64) with 18446744073709551616; lia). lia. }
  rewrite E. reflexivity.
Qed.

Lemma acc_const : cw 64 false (cw 64 false (cw 32 true (- 1)) - cw 64 false (cw 64 false (3 + 8) + sizeof_MemoryLeakDetectorNode)) =
                  max_user_size.
Proof. vm_compute. reflexivity. Qed.

(* true iff size <= 2^64 - 1 - (3 + 8 + 64) *)
Theorem src_det_sizeLeavesRoomForAccountingInformation_spec : forall fuel (h : heap) (evs : list dev) al nf (il : list hptr) rl gs size,
  src_det_sizeLeavesRoomForAccountingInformation fuel h evs al nf il rl gs size =
  FOk (b2z (size <=? max_user_size), h, evs, al, nf, il, rl, gs).
Proof.
  intros. unfold src_det_sizeLeavesRoomForAccountingInformation. cbn [finish]. cbv zeta. rewrite acc_const. reflexivity.
Qed.

(* ------------------------------------------------------------------ matchingAllocation *)
(* the value returned: isOfEqualType's answer is handed on as it is *)
Definition match_val (tc : bool) (a f : Z) : Z := if a =? f then 1 else if tc then equal_type f a else 1.
Definition d_matching (tc : bool) (a f : Z) : bool := z2b (match_val tc a f).
Lemma d_matching_eq tc a f : d_matching tc a f = (a =? f) || negb tc || z2b (equal_type f a).
Proof. unfold d_matching, match_val. destruct (a =? f); [reflexivity|]. destruct tc; reflexivity. Qed.
(* "mismatch iff the actual allocators differ and (type checking on -> not equal_type)" *)
Lemma d_mismatch_iff tc a f : d_matching tc a f = false <-> a <> f /\ tc = true /\ z2b (equal_type f a) = false.
Proof.
  rewrite d_matching_eq. destruct (Z.eqb_spec a f) as [E|E]; destruct tc; cbn [orb negb]; split.
  - intro H. discriminate H.
  - intros [H1 _]. contradiction.
  - intro H. discriminate H.
  - intros [H1 _]. contradiction.
  - intro H. split; [exact E|]. split; [reflexivity | exact H].
  - intros [_ [_ H3]]. exact H3.
  - intro H. discriminate H.
  - intros [_ [H2 _]]. discriminate H2.
Qed.

Theorem src_det_matchingAllocation_spec : forall fuel h evs al nf il rl gs dt bss d tc a f,
  detector_at h dt bss d tc ->
  src_det_matchingAllocation equal_type fuel h evs al nf il rl gs (HPtr dt 0) a f = FOk (match_val tc a f, h, evs, al, nf, il, rl, gs).
Proof.
  intros fuel h evs al nf il rl gs dt bss d tc a f [H0 [_ [H76 _]]]. unfold src_det_matchingAllocation, match_val.
  unfold c_eq at 1. rewrite b2z_z2b. destruct (a =? f); [reflexivity|].
  rewrite (blk_padd h dt 76) by (rewrite H0; cbn; lia). cbv beta iota.
  rewrite (blk_load_int h dt 76 (b2z tc)) by (try lia; exact H76). cbv beta iota.
  destruct tc; reflexivity.
Qed.

(* ------------------------------------------------------------------ checkForCorruption *)
(* node->memory_ + node->size_ : 64-bit address arithmetic *)
Definition guard_addr (n : node) : Z := cw 64 false (Z.of_N (n_addr n) + Z.of_N (n_size n)).
Lemma guard_addr_small n : (n_addr n + n_size n < 2 ^ 64)%N -> guard_addr n = Z.of_N (n_addr n + n_size n).
Proof.
  intro H. unfold guard_addr. rewrite <- N2Z.inj_add. apply cw_u_small. change (2 ^ 64) with 18446744073709551616.
  apply z_of_N_64. exact H.
Qed.

(* what checkForCorruption tells the outside world about the record n found at p, released through `allocator`;
   g is the answer of validMemoryCorruptionInformation, asked only when the allocators match *)
Definition corr_events (tc : bool) (p : hptr) (n : node) (allocator sep g : Z) : list dev :=
  if d_matching tc (actual (Z.of_N (n_kind n))) (actual allocator) then
    DGuardCheck (guard_addr n) g :: (if g =? 0 then [DReport 3 p] else if z2b sep then [DNodeFree allocator p] else [])
  else [DReport 2 p].
Definition corr_guards (tc : bool) (n : node) (allocator : Z) (gs : list Z) : list Z :=
  if d_matching tc (actual (Z.of_N (n_kind n))) (actual allocator) then tl gs else gs.

Theorem src_det_checkForCorruption_spec : forall fuel h evs al nf il rl gs dt bss d tc b n nxt file line allocator sep g gs',
  detector_at h dt bss d tc -> hblock h b = node_cells n nxt ->
  (d_matching tc (actual (Z.of_N (n_kind n))) (actual allocator) = true -> gs = g :: gs') ->
  src_det_checkForCorruption actual equal_type fuel h evs al nf il rl gs (HPtr dt 0) (HPtr b 0) file line allocator sep =
  FOk (tt, h, evs ++ corr_events tc (HPtr b 0) n allocator sep g, al, nf, il, rl, corr_guards tc n allocator gs).
Proof.
  intros fuel h evs al nf il rl gs dt bss d tc b n nxt file line allocator sep g gs' Hd Hb Hg.
  unfold src_det_checkForCorruption, corr_events, corr_guards.
  rewrite (node_padd h b n nxt 5 Hb) by lia. cbv beta iota. rewrite (node_allocator h b n nxt Hb). cbv beta iota.
  rewrite (src_det_matchingAllocation_spec fuel h evs al nf il rl gs dt bss d tc _ _ Hd). cbv beta iota.
  fold (d_matching tc (actual (Z.of_N (n_kind n))) (actual allocator)) in *.
  unfold c_lnot at 1. rewrite b2z_z2b. fold (d_matching tc (actual (Z.of_N (n_kind n))) (actual allocator)).
  destruct (d_matching tc (actual (Z.of_N (n_kind n))) (actual allocator)); cbn [negb]; cbv beta iota zeta; [|reflexivity].
  rewrite (Hg eq_refl).
  rewrite (node_padd h b n nxt 2 Hb) by lia. cbv beta iota. rewrite (node_memory h b n nxt Hb). cbv beta iota.
  rewrite (node_size h b n nxt Hb). cbv beta iota zeta. fold (guard_addr n). cbn [tl].
  rewrite z2b_lnot.
  destruct (g =? 0); cbv beta iota zeta.
  - rewrite <- app_assoc. reflexivity.
  - destruct (z2b sep); cbv beta iota zeta; [rewrite <- app_assoc|]; reflexivity.
Qed.

(* the classification of C06 (C06_Model.cat: mismatch first, then corruption) *)
Definition d_check (tc : bool) (n : node) (allocator g : Z) : C06_Model.cat :=
  if negb (d_matching tc (actual (Z.of_N (n_kind n))) (actual allocator)) then C06_Model.CMismatch
  else if g =? 0 then C06_Model.CCorrupt else C06_Model.CNone.
(* events: DReport 2 node iff mismatch; else DGuardCheck and DReport 3 iff the guard oracle says 0; else DNodeFree iff separate *)
Lemma corr_events_cat tc p n allocator sep g :
  corr_events tc p n allocator sep g =
  match d_check tc n allocator g with
  | C06_Model.CMismatch => [DReport 2 p]
  | C06_Model.CCorrupt => [DGuardCheck (guard_addr n) g; DReport 3 p]
  | _ => DGuardCheck (guard_addr n) g :: (if z2b sep then [DNodeFree allocator p] else [])
  end.
Proof.
  unfold corr_events, d_check. destruct (d_matching tc (actual (Z.of_N (n_kind n))) (actual allocator)); cbn [negb]; [|reflexivity].
  destruct (g =? 0); reflexivity.
Qed.


(* ================================================================== 2: allocMemory *)
(* the record storeLeakInformation writes: number = the sequence number before the increment, period and stage stamped *)
Definition new_node (d : det) (a size kind file line : N) : node :=
  mkNode a size (d_seq d) file line kind (d_period d) (d_stage d).
Lemma d_store_new_node d a size kind file line :
  d_store d a size kind file line =
  mkDet (t_add (new_node d a size kind file line) (d_tbl d)) (d_period d) (d_stage d) (d_seq d + 1)%N.
Proof. reflexivity. Qed.

(* ------------------------------------------------------------------ storeLeakInformation *)
(* the record block nb holds 9 cells of anything (a fresh separate record, or the place inside the user block), is not the
   detector object and is not in the table *)
Theorem src_det_storeLeakInformation_spec : forall fuel h evs al nf il rl gs dt bss d tc nb a size kind file line,
  detector_at h dt bss d tc -> (nb < length h)%nat -> length (hblock h nb) = 9%nat -> nb <> dt -> ~ In nb (concat bss) ->
  (a < 2 ^ 64)%N -> (size < 2 ^ 64)%N -> (line < 2 ^ 64)%N -> (d_seq d + 1 < 2 ^ 32)%N ->
  exists h' hd,
    src_det_storeLeakInformation fuel h evs al nf il rl gs (HPtr dt 0) (HPtr nb 0) (Z.of_N a) (Z.of_N size) (Z.of_N kind)
                                 (Z.of_N file) (Z.of_N line) =
      FOk (tt, h', evs ++ [DGuardWrite (guard_addr (new_node d a size kind file line))], al, nf, il, rl, gs) /\
    detector_at h' dt (tw_set (hashN a) (nb :: nth (hashN a) bss []) bss) (d_store d a size kind file line) tc /\
    length h' = length h /\ hblock h' nb = node_cells (new_node d a size kind file line) hd /\
    (forall b', b' <> nb -> b' <> dt -> hblock h' b' = hblock h b').
Proof.
  intros fuel h evs al nf il rl gs dt bss d tc nb a size kind file line Hd Hnb Hl9 Hne Hnin Ha Hs Hln Hseq.
  pose proof Hd as [H0 [H1 [H76 [H77 [H78 [Hsq [Hst Ht]]]]]]].
  pose proof (detector_at_lt _ _ _ _ _ Hd) as Hdt.
  set (nn := new_node d a size kind file line).
  unfold src_det_storeLeakInformation.
  rewrite (blk_padd h dt 77) by (rewrite H0; cbn; lia). cbv beta iota.
  rewrite (blk_load_int h dt 77 (Z.of_N (d_seq d))) by (try lia; exact H77). cbv beta iota zeta.
  assert (Ecw : cw 32 false (Z.of_N (d_seq d) + 1) = Z.of_N (d_seq d + 1)).
  { rewrite N2Z.inj_add. apply cw_u_small. change (2 ^ 32) with 4294967296.
    assert (Z.of_N (d_seq d + 1) < Z.of_N (2 ^ 32)) by (apply N2Z.inj_lt; exact Hseq).
    rewrite N2Z.inj_add in H. change (Z.of_N (2 ^ 32)) with 4294967296 in H. change (Z.of_N 1) with 1 in *. lia. }
  rewrite Ecw.
  rewrite (hstore_lit h dt 77) by (try lia; try exact Hdt; rewrite H0; cbn; lia). cbv beta iota.
  change (Z.to_nat 77) with 77%nat.
  pose proof (detector_at_set_seq h dt bss d tc (d_seq d + 1)%N Hd Hseq) as Hd1.
  set (h1 := set_cell h dt 77 (VInt (Z.of_N (d_seq d + 1)))) in *.
  set (d1 := mkDet (d_tbl d) (d_period d) (d_stage d) (d_seq d + 1)%N) in *.
  pose proof Hd1 as [G0 [G1 [G76 [G77 [G78 _]]]]]. cbn [d1 d_period d_stage] in G1, G78.
  rewrite (blk_padd h1 dt 1) by (rewrite G0; cbn; lia). cbv beta iota.
  rewrite (blk_load_int h1 dt 1 (stamp_code (d_period d))) by (try lia; exact G1). cbv beta iota.
  rewrite (blk_padd h1 dt 78) by (rewrite G0; cbn; lia). cbv beta iota.
  rewrite (blk_load_int h1 dt 78 (Z.of_N (d_stage d))) by (try lia; exact G78). cbv beta iota.
  assert (Hnb1 : (nb < length h1)%nat) by (unfold h1; rewrite set_cell_length; exact Hnb).
  assert (Hl91 : length (hblock h1 nb) = 9%nat) by (unfold h1; rewrite set_cell_other by exact Hne; exact Hl9).
  rewrite (src_node_init_spec fuel h1 evs al nf il rl gs nb _ _ _ _ _ _ _ _ Hnb1 Hl91). cbv beta iota.
  rewrite init_cells_raw. fold (new_node d a size kind file line). fold nn.
  set (v8 := nth 8 (hblock h1 nb) (VInt 0)).
  pose proof (detector_at_upd_other h1 dt bss d1 tc nb (raw_cells nn v8) Hd1 Hne Hnin) as Hd2.
  set (h2 := upd h1 nb (raw_cells nn v8)) in *.
  assert (Hb2 : hblock h2 nb = raw_cells nn v8) by (apply hblock_upd_same; exact Hnb1).
  assert (Hnb2 : (nb < length h2)%nat) by (unfold h2; rewrite heap_upd_length; exact Hnb1).
  rewrite (raw_padd h2 nb nn v8 Hb2 2) by lia. cbv beta iota.
  rewrite (raw_load_key h2 nb nn v8 Hb2). cbv beta iota.
  rewrite (raw_load_size h2 nb nn v8 Hb2). cbv beta iota zeta.
  change (cw 64 false (Z.of_N (n_addr nn) + Z.of_N (n_size nn))) with (guard_addr nn).
  pose proof Hd2 as [K0 _].
  rewrite (blk_padd h2 dt 3) by (rewrite K0; cbn; lia). cbv beta iota.
  assert (Hok : node_ok nn) by (unfold node_ok, nn, new_node; cbn [n_addr n_size n_number n_line n_stage]; repeat split; assumption).
  change (HPtr dt 3) with (HPtr dt (Z.of_nat 3)).
  destruct (src_table_addNewNode_off fuel h2 dt 3 bss (d_tbl d) nb nn v8 (detector_at_table _ _ _ _ _ Hd2) Hok Hnb2 Hnin Hne Hb2)
    as [h3 [hd [A [T [L [Lb [_ [Hb3 [F G]]]]]]]]].
  rewrite A. cbv beta iota.
  exists h3, hd. split; [reflexivity|]. split.
  { rewrite d_store_new_node. fold nn.
    change (mkDet (t_add nn (d_tbl d)) (d_period d) (d_stage d) (d_seq d + 1)%N) with (with_tbl d1 (t_add nn (d_tbl d1))).
    change (hashN a) with (hashN (n_addr nn)).
    apply (detector_at_new_table h2 h3 dt bss _ d1 tc _ Hd2 T Lb).
    intros k Hk. apply G. pose proof (tw_hashN_lt (n_addr nn)) as Hh. rewrite tw_nb in Hh. lia. }
  split. { rewrite L. unfold h2. rewrite heap_upd_length. unfold h1. apply set_cell_length. }
  split; [exact Hb3|].
  intros b' Hb1 Hb2'. rewrite (F b' Hb1 Hb2'). unfold h2. rewrite hblock_upd_other by (intro E; apply Hb1; symmetry; exact E).
  unfold h1. apply set_cell_other. exact Hb2'.
Qed.

(* ------------------------------------------------------------------ what is asked of the underlying allocator *)
(* sizeOfMemoryWithCorruptionInfo(size), plus sizeof(MemoryLeakDetectorNode) when the record lives inside the block *)
Definition alloc_request (sep size : Z) : Z := if z2b sep then size_with_guard size else size_with_guard size + 64.
Lemma inline_request_small size : 0 <= size <= max_user_size ->
  cw 64 false (size_with_guard size + sizeof_MemoryLeakDetectorNode) = size_with_guard size + 64.
Proof.
  intro H. rewrite max_user_size_val in H. pose proof (size_with_guard_bounds size) as [B _]. unfold sizeof_MemoryLeakDetectorNode.
  apply cw_u_small. change (2 ^ 64) with 18446744073709551616. lia.
Qed.

Lemma src_det_allocateMemoryWithAccountingInformation_spec fuel (h : heap) (evs : list dev) o al nf (il : list hptr) rl gs this allocator
      size file line sep :
  0 <= size <= max_user_size ->
  src_det_allocateMemoryWithAccountingInformation fuel h evs (o :: al) nf il rl gs this allocator size file line sep =
  FOk (o, h, evs ++ [DAllocCall allocator (alloc_request sep size) o], al, nf, il, rl, gs).
Proof.
  intro Hs. unfold src_det_allocateMemoryWithAccountingInformation, alloc_request.
  rewrite (src_det_sizeOfMemoryWithCorruptionInfo_spec fuel h evs (o :: al) nf il rl gs this size Hs).
  destruct (z2b sep); cbv beta iota zeta; [reflexivity|]. rewrite (inline_request_small size Hs). reflexivity.
Qed.

(* (a) the request does not leave room for the accounting information: NULL, nothing asked of anyone, nothing touched *)
Theorem src_det_allocMemory_oversize : forall fuel (h : heap) (evs : list dev) al nf (il : list hptr) rl gs this allocator size file line sep,
  max_user_size < size ->
  src_det_allocMemory fuel h evs al nf il rl gs this allocator size file line sep = FOk (0, h, evs, al, nf, il, rl, gs).
Proof.
  intros. unfold src_det_allocMemory. rewrite src_det_sizeLeavesRoomForAccountingInformation_spec. cbv beta iota.
  rewrite z2b_lnot. replace (size <=? max_user_size) with false by (symmetry; apply Z.leb_gt; assumption). reflexivity.
Qed.

(* (b) the allocator refuses the block: NULL, one call, nothing touched *)
Theorem src_det_allocMemory_refused : forall fuel (h : heap) (evs : list dev) al nf (il : list hptr) rl gs this allocator size file line sep,
  0 <= size <= max_user_size ->
  src_det_allocMemory fuel h evs (0 :: al) nf il rl gs this allocator size file line sep =
  FOk (0, h, evs ++ [DAllocCall allocator (alloc_request sep size) 0], al, nf, il, rl, gs).
Proof.
  intros fuel h evs al nf il rl gs this allocator size file line sep Hs. unfold src_det_allocMemory.
  rewrite src_det_sizeLeavesRoomForAccountingInformation_spec. cbv beta iota.
  rewrite z2b_lnot. replace (size <=? max_user_size) with true by (symmetry; apply Z.leb_le; lia). cbn [b2z Z.eqb]. cbv beta iota.
  rewrite (src_det_allocateMemoryWithAccountingInformation_spec fuel h evs 0 al nf il rl gs this allocator size file line sep Hs).
  cbv beta iota zeta. reflexivity.
Qed.

(* (c) the separate record is refused: the block is given back (free_memory with the user size), NULL, nothing touched *)
Theorem src_det_allocMemory_node_refused : forall fuel (h : heap) (evs : list dev) o al r nf (il : list hptr) rl gs this allocator size
                                                  file line sep,
  0 <= size <= max_user_size -> o <> 0 -> z2b sep = true -> r <> 0 ->
  src_det_allocMemory fuel h evs (o :: al) (r :: nf) il rl gs this allocator size file line sep =
  FOk (0, h, evs ++ [DAllocCall allocator (size_with_guard size) o; DNodeRefused allocator; DFreeCall allocator o size],
       al, nf, il, rl, gs).
Proof.
  intros fuel h evs o al r nf il rl gs this allocator size file line sep Hs Ho Hsep Hr. unfold src_det_allocMemory.
  rewrite src_det_sizeLeavesRoomForAccountingInformation_spec. cbv beta iota.
  rewrite z2b_lnot. replace (size <=? max_user_size) with true by (symmetry; apply Z.leb_le; lia). cbn [b2z Z.eqb]. cbv beta iota.
  rewrite (src_det_allocateMemoryWithAccountingInformation_spec fuel h evs o al (r :: nf) il rl gs this allocator size file line sep Hs).
  cbv beta iota zeta. unfold alloc_request. rewrite Hsep.
  replace (z2b (c_eq o 0)) with false by (unfold c_eq; rewrite b2z_z2b; symmetry; apply Z.eqb_neq; exact Ho). cbv beta iota.
  unfold src_det_createMemoryLeakAccountingInformation. rewrite Hsep. cbv beta iota.
  replace (z2b r) with true by (unfold z2b; symmetry; apply negb_true_iff; apply Z.eqb_neq; exact Hr). cbv beta iota zeta.
  cbn [finish]. rewrite hp_eq_null_null. cbv beta iota zeta. rewrite <- !app_assoc. reflexivity.
Qed.

(* (d) success, the record allocated separately: a new block (number length h) holds the record *)
Theorem src_det_allocMemory_separate : forall fuel h evs al nf il rl gs dt bss d tc a size kind file line sep,
  detector_at h dt bss d tc -> (size <= 2 ^ 64 - 76)%N -> (a < 2 ^ 64)%N -> a <> 0%N -> (line < 2 ^ 64)%N ->
  (d_seq d + 1 < 2 ^ 32)%N -> z2b sep = true ->
  exists h' hd,
    src_det_allocMemory fuel h evs (Z.of_N a :: al) (0 :: nf) il rl gs (HPtr dt 0) (Z.of_N kind) (Z.of_N size) (Z.of_N file)
                        (Z.of_N line) sep =
      FOk (Z.of_N a, h',
           evs ++ [DAllocCall (Z.of_N kind) (size_with_guard (Z.of_N size)) (Z.of_N a); DNodeAlloc (Z.of_N kind) (HPtr (length h) 0);
                   DGuardWrite (guard_addr (new_node d a size kind file line))], al, nf, il, rl, gs) /\
    detector_at h' dt (tw_set (hashN a) (length h :: nth (hashN a) bss []) bss) (d_store d a size kind file line) tc /\
    length h' = S (length h) /\ hblock h' (length h) = node_cells (new_node d a size kind file line) hd /\
    (forall b', (b' < length h)%nat -> b' <> dt -> hblock h' b' = hblock h b').
Proof.
  intros fuel h evs al nf il rl gs dt bss d tc a size kind file line sep Hd Hsz Ha Ha0 Hln Hseq Hsep.
  assert (Hs : 0 <= Z.of_N size <= max_user_size).
  { rewrite max_user_size_val. split; [apply N2Z.is_nonneg|]. change 18446744073709551540 with (Z.of_N (2 ^ 64 - 76)).
    apply N2Z.inj_le. exact Hsz. }
  assert (Hs64 : (size < 2 ^ 64)%N) by (change (2 ^ 64)%N with 18446744073709551616%N; change (2 ^ 64 - 76)%N with 18446744073709551540%N in Hsz; lia).
  pose proof (detector_at_lt _ _ _ _ _ Hd) as Hdt.
  set (h1 := h ++ [repeat (VInt 0) 9]).
  assert (Hd1 : detector_at h1 dt bss d tc).
  { apply (detector_at_frame_le h h1 dt bss d tc Hd).
    - unfold h1. rewrite app_length. lia.
    - apply hblock_app_old. exact Hdt.
    - intros b Hb. apply hblock_app_old. exact (toff_block_lt _ _ _ _ _ _ (detector_at_table _ _ _ _ _ Hd) Hb). }
  assert (Hl1 : length h1 = S (length h)) by (unfold h1; rewrite app_length; cbn [length]; lia).
  destruct (src_det_storeLeakInformation_spec fuel h1
              (evs ++ [DAllocCall (Z.of_N kind) (size_with_guard (Z.of_N size)) (Z.of_N a); DNodeAlloc (Z.of_N kind) (HPtr (length h) 0)])
              al nf il rl gs dt bss d tc (length h) a size kind file line Hd1)
    as [h' [hd [A [B [C [D E]]]]]]; try assumption.
  { lia. }
  { unfold h1. rewrite hblock_app_new. reflexivity. }
  { lia. }
  { intro Hin. pose proof (toff_block_lt _ _ _ _ _ _ (detector_at_table _ _ _ _ _ Hd) Hin). lia. }
  exists h', hd. split.
  { unfold src_det_allocMemory.
    rewrite src_det_sizeLeavesRoomForAccountingInformation_spec. cbv beta iota.
    rewrite z2b_lnot. replace (Z.of_N size <=? max_user_size) with true by (symmetry; apply Z.leb_le; lia). cbn [b2z Z.eqb]. cbv beta iota.
    rewrite (src_det_allocateMemoryWithAccountingInformation_spec fuel h evs (Z.of_N a) al (0 :: nf) il rl gs (HPtr dt 0) (Z.of_N kind)
               (Z.of_N size) (Z.of_N file) (Z.of_N line) sep Hs).
    cbv beta iota zeta. unfold alloc_request. rewrite Hsep.
    rewrite c_eq_N0. replace (a =? 0)%N with false by (symmetry; apply N.eqb_neq; exact Ha0). cbv beta iota.
    unfold src_det_createMemoryLeakAccountingInformation. rewrite Hsep. cbv beta iota.
    change (z2b 0) with false. cbv beta iota zeta. cbn [finish]. rewrite hp_eq_null_ptr. cbv beta iota zeta.
    fold h1. rewrite <- !app_assoc. cbn [app]. rewrite <- !app_assoc in A. cbn [app] in A. rewrite A. cbv beta iota.
    rewrite (node_padd h' (length h) _ hd 2 D) by lia. cbv beta iota.
    rewrite (node_memory h' (length h) _ hd D). reflexivity. }
  split; [exact B|]. split; [rewrite C; exact Hl1|]. split; [exact D|].
  intros b' Hb1 Hb2. rewrite E by (try lia; exact Hb2). unfold h1. apply hblock_app_old. exact Hb1.
Qed.

(* (d) success, the record inside the block: getNodeFromMemoryPointer answers with the block nb (9 cells of anything, not the
   detector object, not in the table) *)
Theorem src_det_allocMemory_inline : forall fuel h evs al nf il rl gs dt bss d tc nb a size kind file line sep,
  detector_at h dt bss d tc -> (size <= 2 ^ 64 - 76)%N -> (a < 2 ^ 64)%N -> a <> 0%N -> (line < 2 ^ 64)%N ->
  (d_seq d + 1 < 2 ^ 32)%N -> z2b sep = false ->
  (nb < length h)%nat -> length (hblock h nb) = 9%nat -> nb <> dt -> ~ In nb (concat bss) ->
  exists h' hd,
    src_det_allocMemory fuel h evs (Z.of_N a :: al) nf (HPtr nb 0 :: il) rl gs (HPtr dt 0) (Z.of_N kind) (Z.of_N size) (Z.of_N file)
                        (Z.of_N line) sep =
      FOk (Z.of_N a, h',
           evs ++ [DAllocCall (Z.of_N kind) (size_with_guard (Z.of_N size) + 64) (Z.of_N a); DInline (Z.of_N a) (Z.of_N size) (HPtr nb 0);
                   DGuardWrite (guard_addr (new_node d a size kind file line))], al, nf, il, rl, gs) /\
    detector_at h' dt (tw_set (hashN a) (nb :: nth (hashN a) bss []) bss) (d_store d a size kind file line) tc /\
    length h' = length h /\ hblock h' nb = node_cells (new_node d a size kind file line) hd /\
    (forall b', b' <> nb -> b' <> dt -> hblock h' b' = hblock h b').
Proof.
  intros fuel h evs al nf il rl gs dt bss d tc nb a size kind file line sep Hd Hsz Ha Ha0 Hln Hseq Hsep Hnb Hl9 Hne Hnin.
  assert (Hs : 0 <= Z.of_N size <= max_user_size).
  { rewrite max_user_size_val. split; [apply N2Z.is_nonneg|]. change 18446744073709551540 with (Z.of_N (2 ^ 64 - 76)).
    apply N2Z.inj_le. exact Hsz. }
  assert (Hs64 : (size < 2 ^ 64)%N) by (change (2 ^ 64)%N with 18446744073709551616%N; change (2 ^ 64 - 76)%N with 18446744073709551540%N in Hsz; lia).
  destruct (src_det_storeLeakInformation_spec fuel h
              (evs ++ [DAllocCall (Z.of_N kind) (size_with_guard (Z.of_N size) + 64) (Z.of_N a); DInline (Z.of_N a) (Z.of_N size) (HPtr nb 0)])
              al nf il rl gs dt bss d tc nb a size kind file line Hd Hnb Hl9 Hne Hnin Ha Hs64 Hln Hseq)
    as [h' [hd [A [B [C [D E]]]]]].
  exists h', hd. split.
  { unfold src_det_allocMemory.
    rewrite src_det_sizeLeavesRoomForAccountingInformation_spec. cbv beta iota.
    rewrite z2b_lnot. replace (Z.of_N size <=? max_user_size) with true by (symmetry; apply Z.leb_le; lia). cbn [b2z Z.eqb]. cbv beta iota.
    rewrite (src_det_allocateMemoryWithAccountingInformation_spec fuel h evs (Z.of_N a) al nf (HPtr nb 0 :: il) rl gs (HPtr dt 0)
               (Z.of_N kind) (Z.of_N size) (Z.of_N file) (Z.of_N line) sep Hs).
    cbv beta iota zeta. unfold alloc_request. rewrite Hsep.
    rewrite c_eq_N0. replace (a =? 0)%N with false by (symmetry; apply N.eqb_neq; exact Ha0). cbv beta iota.
    unfold src_det_createMemoryLeakAccountingInformation. rewrite Hsep. cbv beta iota zeta. cbn [finish].
    rewrite hp_eq_null_ptr. cbv beta iota zeta.
    rewrite <- !app_assoc. cbn [app]. rewrite <- !app_assoc in A. cbn [app] in A. rewrite A. cbv beta iota.
    rewrite (node_padd h' nb _ hd 2 D) by lia. cbv beta iota.
    rewrite (node_memory h' nb _ hd D). reflexivity. }
  split; [exact B|]. split; [exact C|]. split; [exact D | exact E].
Qed.


(* ================================================================== 3: deallocMemory *)
(* ------------------------------------------------------------------ memoryTable_.removeNode(memory) on a represented detector *)
Lemma d_dealloc_fst d a : fst (d_dealloc d a) = with_tbl d (snd (t_remove a (d_tbl d))).
Proof.
  unfold d_dealloc. rewrite (t_remove_pair a (d_tbl d)). destruct (fst (t_remove a (d_tbl d))) eqn:E; cbn [fst snd]; [reflexivity|].
  rewrite (t_remove_absent a _ E). symmetry. apply with_tbl_same.
Qed.
Lemma d_dealloc_snd d a : snd (d_dealloc d a) = match fst (t_remove a (d_tbl d)) with None => true | Some _ => false end.
Proof. unfold d_dealloc. rewrite (t_remove_pair a (d_tbl d)). destruct (fst (t_remove a (d_tbl d))); reflexivity. Qed.

(* the block is not tracked: NULL comes back, the heap still represents the same detector *)
Lemma remove_unknown fuel h dt bss d tc a :
  detector_at h dt bss d tc -> (a < 2 ^ 64)%N -> (length (nth (hashN a) (d_tbl d) []) < fuel)%nat ->
  fst (t_remove a (d_tbl d)) = None ->
  exists h' bss', src_table_removeNode fuel h (HPtr dt 3) (Z.of_N a) = FOk (HNull, h') /\ detector_at h' dt bss' d tc /\
    length h' = length h /\ (forall b', b' <> dt -> ~ In b' (concat bss) -> hblock h' b' = hblock h b').
Proof.
  intros Hd Ha Hf Hr. pose proof (detector_at_table _ _ _ _ _ Hd) as Ht.
  change (HPtr dt 3) with (HPtr dt (Z.of_nat 3)).
  destruct (src_table_removeNode_off fuel h dt 3 bss (d_tbl d) a Ht Ha Hf) as [h' [bsi' [A [T [L [Lb [D [E [_ [G K]]]]]]]]]].
  rewrite Hr in G. rewrite G in A. exists h', (tw_set (hashN a) bsi' bss). split; [exact A|]. split.
  - assert (X : detector_at h' dt (tw_set (hashN a) bsi' bss) (with_tbl d (snd (t_remove a (d_tbl d)))) tc).
    { apply (detector_at_new_table h h' dt bss _ d tc _ Hd T Lb).
      intros k Hk. apply K. pose proof (tw_hashN_lt a) as Hh. rewrite tw_nb in Hh. lia. }
    rewrite (t_remove_absent a (d_tbl d) Hr), with_tbl_same in X. exact X.
  - split; [exact L|]. intros b' H1 H2. apply D; [exact H1|]. intro Hin. apply H2.
    exact (tw_in_nth_concat _ _ _ (proj1 (proj1 (E b') Hin))).
Qed.

(* the block is tracked: its record n comes back in block b, untouched and out of the table *)
Lemma remove_known fuel h dt bss d tc a n :
  detector_at h dt bss d tc -> (a < 2 ^ 64)%N -> (length (nth (hashN a) (d_tbl d) []) < fuel)%nat ->
  fst (t_remove a (d_tbl d)) = Some n ->
  exists h' bss' b nxt, src_table_removeNode fuel h (HPtr dt 3) (Z.of_N a) = FOk (HPtr b 0, h') /\
    ptr_of a (nth (hashN a) bss []) (nth (hashN a) (d_tbl d) []) = HPtr b 0 /\
    detector_at h' dt bss' (with_tbl d (snd (t_remove a (d_tbl d)))) tc /\ length h' = length h /\
    hblock h' b = node_cells n nxt /\ hblock h b = node_cells n nxt /\ (b < length h)%nat /\ b <> dt /\ In b (concat bss) /\
    ~ In b (concat bss') /\ (forall x, In x (concat bss') -> In x (concat bss)) /\
    node_ok n /\ n_addr n = a /\
    (forall b', b' <> dt -> ~ In b' (concat bss) -> hblock h' b' = hblock h b') /\
    (forall x, In x (concat bss) -> x <> b -> In x (concat bss')) /\
    (forall x n0 nx, In x (concat bss') -> hblock h x = node_cells n0 nx -> exists nx', hblock h' x = node_cells n0 nx').
Proof.
  intros Hd Ha Hf Hr. pose proof (detector_at_table _ _ _ _ _ Hd) as Ht.
  change (HPtr dt 3) with (HPtr dt (Z.of_nat 3)).
  destruct (src_table_removeNode_off_kept fuel h dt 3 bss (d_tbl d) a Ht Ha Hf)
    as [h' [bsi' [A [T [L [Lb [D [E [F [G [K [Hstay Hkept]]]]]]]]]]]].
  rewrite Hr in G. destruct G as [b [nxt [Hp [Hin Hb]]]]. rewrite Hp in A.
  pose proof Ht as [_ [_ [_ [_ [Hnd [Hnt _]]]]]].
  assert (Hinc : In b (concat bss)) by exact (tw_in_nth_concat _ _ _ Hin).
  exists h', (tw_set (hashN a) bsi' bss), b, nxt. split; [exact A|]. split; [exact Hp|]. split.
  { apply (detector_at_new_table h h' dt bss _ d tc _ Hd T Lb).
    intros k Hk. apply K. pose proof (tw_hashN_lt a) as Hh. rewrite tw_nb in Hh. lia. }
  split; [exact L|]. split; [exact Hb|]. split; [rewrite <- (F b Hp); exact Hb|].
  split; [exact (toff_block_lt _ _ _ _ _ _ Ht Hinc)|].
  split; [intro Eq; subst b; exact (Hnt Hinc)|]. split; [exact Hinc|]. split.
  { apply (removed_not_in bss (hashN a) bsi' b Hnd Hin). intro Hx. exact (proj2 (proj1 (E b) Hx) Hp). }
  split.
  { intros x Hx. rewrite tw_set_eq in Hx. destruct (tw_set_concat_in x bss _ _ Hx) as [H|H]; [|exact H].
    exact (tw_in_nth_concat _ _ _ (proj1 (proj1 (E x) H))). }
  destruct (t_remove_key a (d_tbl d) n Hr) as [Hk Hnin].
  split. { exact (proj1 (Forall_forall _ _) (toff_nodes_ok h dt 3 bss (d_tbl d) (hashN a) Ht (tw_hashN_lt a)) n Hnin). }
  split; [exact Hk|]. split.
  { intros b' H1 H2. apply D; [exact H1|]. intro Hx. apply H2. exact (tw_in_nth_concat _ _ _ (proj1 (proj1 (E b') Hx))). }
  split.
  - intros x Hx Hne. apply Hstay; [exact Hx|]. rewrite Hp. intro Eq. inversion Eq. apply Hne. symmetry. assumption.
  - exact Hkept.
Qed.

(* ------------------------------------------------------------------ deallocMemory *)
(* what deallocMemory tells the outside world: r = the record the model's t_remove hands back, p = where it was found *)
Definition dealloc_events (tc : bool) (p : hptr) (r : option node) (allocator a sep g : Z) : list dev :=
  match r with
  | None => [DReport 1 HNull]
  | Some n => if z2b (destroyed allocator) then []
              else corr_events tc p n allocator sep g ++ [DFreeCall allocator a (Z.of_N (n_size n))]
  end.
Definition dealloc_guards (tc : bool) (r : option node) (allocator : Z) (gs : list Z) : list Z :=
  match r with
  | None => gs
  | Some n => if z2b (destroyed allocator) then gs else corr_guards tc n allocator gs
  end.

(* NULL: nothing at all *)
Theorem src_det_deallocMemory_null : forall fuel (h : heap) (evs : list dev) al nf (il : list hptr) rl gs this allocator file line sep,
  src_det_deallocMemory actual equal_type destroyed fuel h evs al nf il rl gs this allocator 0 file line sep =
  FOk (tt, h, evs, al, nf, il, rl, gs).
Proof. reflexivity. Qed.

(* a non-NULL address: the new heap represents the model's d_dealloc; the guard oracle is consulted only for a tracked block
   released through a live allocator that matches *)
Theorem src_det_deallocMemory_spec : forall fuel h evs al nf il rl gs dt bss d tc a allocator file line sep g gs',
  detector_at h dt bss d tc -> (a < 2 ^ 64)%N -> a <> 0%N -> (length (nth (hashN a) (d_tbl d) []) < fuel)%nat ->
  (forall n, fst (t_remove a (d_tbl d)) = Some n -> z2b (destroyed allocator) = false ->
             d_matching tc (actual (Z.of_N (n_kind n))) (actual allocator) = true -> gs = g :: gs') ->
  exists h' bss',
    src_det_deallocMemory actual equal_type destroyed fuel h evs al nf il rl gs (HPtr dt 0) allocator (Z.of_N a) file line sep =
      FOk (tt, h', evs ++ dealloc_events tc (ptr_of a (nth (hashN a) bss []) (nth (hashN a) (d_tbl d) []))
                                         (fst (t_remove a (d_tbl d))) allocator (Z.of_N a) sep g,
           al, nf, il, rl, dealloc_guards tc (fst (t_remove a (d_tbl d))) allocator gs) /\
    detector_at h' dt bss' (fst (d_dealloc d a)) tc /\ length h' = length h /\
    (forall b', b' <> dt -> ~ In b' (concat bss) -> hblock h' b' = hblock h b') /\
    match fst (t_remove a (d_tbl d)) with
    | Some n => exists b nxt, ptr_of a (nth (hashN a) bss []) (nth (hashN a) (d_tbl d) []) = HPtr b 0 /\
                              hblock h' b = node_cells n nxt /\ hblock h b = node_cells n nxt /\ In b (concat bss) /\
                              ~ In b (concat bss') /\ (forall x, In x (concat bss) -> x <> b -> In x (concat bss')) /\
                              (forall x n0 nx, In x (concat bss') -> hblock h x = node_cells n0 nx ->
                                               exists nx', hblock h' x = node_cells n0 nx')
    | None => ptr_of a (nth (hashN a) bss []) (nth (hashN a) (d_tbl d) []) = HNull
    end.
Proof.
  intros fuel h evs al nf il rl gs dt bss d tc a allocator file line sep g gs' Hd Ha Ha0 Hf Hg.
  pose proof Hd as [H0 _]. pose proof (detector_at_table _ _ _ _ _ Hd) as Ht.
  rewrite d_dealloc_fst. unfold src_det_deallocMemory.
  rewrite c_eq_N0. replace (a =? 0)%N with false by (symmetry; apply N.eqb_neq; exact Ha0). cbv beta iota.
  rewrite (blk_padd h dt 3) by (rewrite H0; cbn; lia). cbv beta iota.
  assert (Hp : forall q h', src_table_removeNode fuel h (HPtr dt 3) (Z.of_N a) = FOk (q, h') ->
                            q = ptr_of a (nth (hashN a) bss []) (nth (hashN a) (d_tbl d) [])).
  { intros q h' Hq. change (HPtr dt 3) with (HPtr dt (Z.of_nat 3)) in Hq.
    destruct (src_table_removeNode_off fuel h dt 3 bss (d_tbl d) a Ht Ha Hf) as [h'' [bsi' [A _]]]. rewrite A in Hq.
    inversion Hq. reflexivity. }
  destruct (fst (t_remove a (d_tbl d))) as [n|] eqn:Er.
  - destruct (remove_known fuel h dt bss d tc a n Hd Ha Hf Er)
      as [h' [bss' [b [nxt [A [_ [Hd' [L [Hb [Hbh [_ [_ [Hin [Hnin [_ [_ [_ [Fr [Hstay Hkept]]]]]]]]]]]]]]]]]]].
    rewrite <- (Hp _ _ A). rewrite A. cbv beta iota zeta. rewrite hp_eq_null_ptr. cbv beta iota.
    exists h', bss'. split.
    + rewrite z2b_lnot. unfold dealloc_events, dealloc_guards.
      replace (destroyed allocator =? 0) with (negb (z2b (destroyed allocator))) by (unfold z2b; apply negb_involutive).
      destruct (z2b (destroyed allocator)) eqn:Ed; cbn [negb]; cbv beta iota; [rewrite app_nil_r; reflexivity|].
      rewrite (node_size h' b n nxt Hb). cbv beta iota zeta.
      rewrite (src_det_checkForCorruption_spec fuel h' evs al nf il rl gs dt bss' _ tc b n nxt file line allocator sep g gs' Hd' Hb
                 (Hg n eq_refl eq_refl)).
      cbv beta iota zeta. rewrite <- app_assoc. reflexivity.
    + split; [exact Hd'|]. split; [exact L|]. split; [exact Fr|]. exists b, nxt.
      split; [reflexivity|]. split; [exact Hb|]. split; [exact Hbh|]. split; [exact Hin|]. split; [exact Hnin|].
      split; [exact Hstay | exact Hkept].
  - destruct (remove_unknown fuel h dt bss d tc a Hd Ha Hf Er) as [h' [bss' [A [Hd' [L Fr]]]]].
    rewrite <- (Hp _ _ A). rewrite A. cbv beta iota zeta. rewrite hp_eq_null_null. cbv beta iota zeta.
    exists h', bss'. split; [reflexivity|]. split.
    + rewrite (t_remove_absent a _ Er), with_tbl_same. exact Hd'.
    + split; [exact L|]. split; [exact Fr | reflexivity].
Qed.

(* the reports: "non-allocated" iff the block is not tracked; otherwise (live allocator) mismatch iff the actual allocators do
   not match, otherwise corruption iff the guard oracle says 0; never two *)
Definition is_report (e : dev) : bool := match e with DReport _ _ => true | _ => false end.
Definition dealloc_cat (tc : bool) (r : option node) (allocator g : Z) : C06_Model.cat :=
  match r with
  | None => C06_Model.CNonAlloc
  | Some n => if z2b (destroyed allocator) then C06_Model.CNone else d_check tc n allocator g
  end.
Theorem dealloc_reports : forall tc p r allocator a sep g,
  filter is_report (dealloc_events tc p r allocator a sep g) =
  match dealloc_cat tc r allocator g with
  | C06_Model.CNone => []
  | C06_Model.CNonAlloc => [DReport 1 HNull]
  | C06_Model.CMismatch => [DReport 2 p]
  | C06_Model.CCorrupt => [DReport 3 p]
  end.
Proof.
  intros tc p r allocator a sep g. unfold dealloc_events, dealloc_cat. destruct r as [n|]; [|reflexivity].
  destruct (z2b (destroyed allocator)); [reflexivity|]. rewrite corr_events_cat. unfold d_check.
  destruct (d_matching tc (actual (Z.of_N (n_kind n))) (actual allocator)); cbn [negb]; [|reflexivity].
  destruct (g =? 0); [reflexivity|]. destruct (z2b sep); reflexivity.
Qed.
Corollary dealloc_at_most_one_report : forall tc p r allocator a sep g,
  (length (filter is_report (dealloc_events tc p r allocator a sep g)) <= 1)%nat.
Proof. intros. rewrite dealloc_reports. destruct (dealloc_cat tc r allocator g); cbn [length]; lia. Qed.
(* free_memory is called with the address and the recorded size exactly when a tracked block is released through a live allocator *)
Theorem dealloc_frees : forall tc p r allocator a sep g,
  filter (fun e => match e with DFreeCall _ _ _ => true | _ => false end) (dealloc_events tc p r allocator a sep g) =
  match r with
  | Some n => if z2b (destroyed allocator) then [] else [DFreeCall allocator a (Z.of_N (n_size n))]
  | None => []
  end.
Proof.
  intros tc p r allocator a sep g. unfold dealloc_events. destruct r as [n|]; [|reflexivity].
  destruct (z2b (destroyed allocator)); [reflexivity|]. rewrite filter_app. unfold corr_events.
  destruct (d_matching tc (actual (Z.of_N (n_kind n))) (actual allocator)); [|reflexivity].
  destruct (g =? 0); [reflexivity|]. destruct (z2b sep); reflexivity.
Qed.


(* ================================================================== 4: reallocMemory *)
Lemma sep_true_eqb sep : z2b sep = true -> (sep =? 0) = false.
Proof. unfold z2b. intro H. apply negb_true_iff in H. exact H. Qed.
Lemma sep_false_eqb sep : z2b sep = false -> (sep =? 0) = true.
Proof. unfold z2b. intro H. apply negb_false_iff in H. exact H. Qed.
Lemma z2b_nonzero r : r <> 0 -> z2b r = true.
Proof. intro H. unfold z2b. apply negb_true_iff. apply Z.eqb_neq. exact H. Qed.

Lemma src_det_reallocateMemoryWithAccountingInformation_spec fuel (h : heap) (evs : list dev) al nf (il : list hptr) o rl gs this u0
      memory size u3 u4 sep :
  0 <= size <= max_user_size ->
  src_det_reallocateMemoryWithAccountingInformation fuel h evs al nf il (o :: rl) gs this u0 memory size u3 u4 sep =
  FOk (o, h, evs ++ [DRealloc memory (alloc_request sep size) o], al, nf, il, rl, gs).
Proof.
  intro Hs. unfold src_det_reallocateMemoryWithAccountingInformation, alloc_request.
  rewrite (src_det_sizeOfMemoryWithCorruptionInfo_spec fuel h evs al nf il (o :: rl) gs this size Hs).
  destruct (z2b sep); cbv beta iota zeta; [reflexivity|]. rewrite (inline_request_small size Hs). reflexivity.
Qed.

(* ------------------------------------------------------------------ reallocateMemoryAndLeakInformation: the five outcomes *)
(* R1: the separate record is refused before anything else is asked: NULL, the heap as it was *)
Lemma rml_node_refused fuel (h : heap) (evs : list dev) al r nf (il : list hptr) rl gs this allocator memory size file line sep :
  z2b sep = true -> r <> 0 ->
  src_det_reallocateMemoryAndLeakInformation fuel h evs al (r :: nf) il rl gs this allocator memory size file line sep =
  FOk (0, h, evs ++ [DNodeRefused allocator], al, nf, il, rl, gs).
Proof.
  intros Hsep Hr. unfold src_det_reallocateMemoryAndLeakInformation. cbv zeta. rewrite Hsep. cbv beta iota.
  unfold src_det_createMemoryLeakAccountingInformation. rewrite ?Hsep. cbv beta iota. rewrite (z2b_nonzero r Hr). cbv beta iota zeta.
  cbn [finish]. cbv beta iota zeta. rewrite hp_eq_null_null. reflexivity.
Qed.
(* R2: the separate record is there (a new block), PlatformSpecificRealloc fails: the record is given back, NULL *)
Lemma rml_realloc_failed_separate fuel (h : heap) (evs : list dev) al nf (il : list hptr) rl gs this allocator memory size file line sep :
  z2b sep = true -> 0 <= size <= max_user_size ->
  src_det_reallocateMemoryAndLeakInformation fuel h evs al (0 :: nf) il (0 :: rl) gs this allocator memory size file line sep =
  FOk (0, h ++ [repeat (VInt 0) 9],
       evs ++ [DNodeAlloc allocator (HPtr (length h) 0); DRealloc memory (size_with_guard size) 0; DNodeFree allocator (HPtr (length h) 0)],
       al, nf, il, rl, gs).
Proof.
  intros Hsep Hs. unfold src_det_reallocateMemoryAndLeakInformation. cbv zeta. rewrite Hsep. cbv beta iota.
  unfold src_det_createMemoryLeakAccountingInformation. rewrite ?Hsep. cbv beta iota. change (z2b 0) with false. cbv beta iota zeta.
  cbn [finish]. cbv beta iota zeta. rewrite hp_eq_null_ptr. cbv beta iota.
  rewrite (src_det_reallocateMemoryWithAccountingInformation_spec fuel _ _ al nf il 0 rl gs this allocator memory size file line sep Hs).
  cbv beta iota zeta. change (z2b (c_eq 0 0)) with true. cbv beta iota. rewrite ?Hsep. cbv beta iota zeta.
  unfold alloc_request. rewrite ?Hsep. rewrite <- !app_assoc. reflexivity.
Qed.
(* R3: the record lives inside the block, PlatformSpecificRealloc fails: NULL, the heap as it was *)
Lemma rml_realloc_failed_inline fuel (h : heap) (evs : list dev) al nf (il : list hptr) rl gs this allocator memory size file line sep :
  z2b sep = false -> 0 <= size <= max_user_size ->
  src_det_reallocateMemoryAndLeakInformation fuel h evs al nf il (0 :: rl) gs this allocator memory size file line sep =
  FOk (0, h, evs ++ [DRealloc memory (size_with_guard size + 64) 0], al, nf, il, rl, gs).
Proof.
  intros Hsep Hs. unfold src_det_reallocateMemoryAndLeakInformation. cbv zeta. rewrite Hsep. cbv beta iota.
  rewrite (src_det_reallocateMemoryWithAccountingInformation_spec fuel _ _ al nf il 0 rl gs this allocator memory size file line sep Hs).
  cbv beta iota zeta. change (z2b (c_eq 0 0)) with true. cbv beta iota. rewrite ?Hsep. cbv beta iota zeta.
  unfold alloc_request. rewrite ?Hsep. reflexivity.
Qed.
(* R4: success, separate record (the new block number length h) *)
Lemma rml_success_separate fuel h evs al nf il rl gs dt bss d tc memory na size kind file line sep :
  detector_at h dt bss d tc -> (size <= 2 ^ 64 - 76)%N -> (na < 2 ^ 64)%N -> na <> 0%N -> (line < 2 ^ 64)%N ->
  (d_seq d + 1 < 2 ^ 32)%N -> z2b sep = true ->
  exists h' hd,
    src_det_reallocateMemoryAndLeakInformation fuel h evs al (0 :: nf) il (Z.of_N na :: rl) gs (HPtr dt 0) (Z.of_N kind) memory
                                               (Z.of_N size) (Z.of_N file) (Z.of_N line) sep =
      FOk (Z.of_N na, h',
           evs ++ [DNodeAlloc (Z.of_N kind) (HPtr (length h) 0); DRealloc memory (size_with_guard (Z.of_N size)) (Z.of_N na);
                   DGuardWrite (guard_addr (new_node d na size kind file line))], al, nf, il, rl, gs) /\
    detector_at h' dt (tw_set (hashN na) (length h :: nth (hashN na) bss []) bss) (d_store d na size kind file line) tc /\
    length h' = S (length h) /\ hblock h' (length h) = node_cells (new_node d na size kind file line) hd /\
    (forall b', (b' < length h)%nat -> b' <> dt -> hblock h' b' = hblock h b').
Proof.
  intros Hd Hsz Ha Ha0 Hln Hseq Hsep.
  assert (Hs : 0 <= Z.of_N size <= max_user_size).
  { rewrite max_user_size_val. split; [apply N2Z.is_nonneg|]. change 18446744073709551540 with (Z.of_N (2 ^ 64 - 76)).
    apply N2Z.inj_le. exact Hsz. }
  assert (Hs64 : (size < 2 ^ 64)%N) by (change (2 ^ 64)%N with 18446744073709551616%N; change (2 ^ 64 - 76)%N with 18446744073709551540%N in Hsz; lia).
  pose proof (detector_at_lt _ _ _ _ _ Hd) as Hdt.
  set (h1 := h ++ [repeat (VInt 0) 9]).
  assert (Hd1 : detector_at h1 dt bss d tc).
  { apply (detector_at_frame_le h h1 dt bss d tc Hd).
    - unfold h1. rewrite app_length. lia.
    - apply hblock_app_old. exact Hdt.
    - intros b Hb. apply hblock_app_old. exact (toff_block_lt _ _ _ _ _ _ (detector_at_table _ _ _ _ _ Hd) Hb). }
  assert (Hl1 : length h1 = S (length h)) by (unfold h1; rewrite app_length; cbn [length]; lia).
  destruct (src_det_storeLeakInformation_spec fuel h1
              (evs ++ [DNodeAlloc (Z.of_N kind) (HPtr (length h) 0); DRealloc memory (size_with_guard (Z.of_N size)) (Z.of_N na)])
              al nf il rl gs dt bss d tc (length h) na size kind file line Hd1)
    as [h' [hd [A [B [C [D E]]]]]]; try assumption.
  { lia. }
  { unfold h1. rewrite hblock_app_new. reflexivity. }
  { lia. }
  { intro Hin. pose proof (toff_block_lt _ _ _ _ _ _ (detector_at_table _ _ _ _ _ Hd) Hin). lia. }
  exists h', hd. split.
  { unfold src_det_reallocateMemoryAndLeakInformation. cbv zeta. rewrite Hsep. cbv beta iota.
    unfold src_det_createMemoryLeakAccountingInformation at 1. rewrite ?Hsep. cbv beta iota. change (z2b 0) with false. cbv beta iota zeta.
    cbn [finish]. cbv beta iota zeta. rewrite hp_eq_null_ptr. cbv beta iota. fold h1.
    rewrite (src_det_reallocateMemoryWithAccountingInformation_spec fuel _ _ al nf il (Z.of_N na) rl gs (HPtr dt 0) (Z.of_N kind) memory
               (Z.of_N size) (Z.of_N file) (Z.of_N line) sep Hs).
    cbv beta iota zeta. rewrite c_eq_N0. replace (na =? 0)%N with false by (symmetry; apply N.eqb_neq; exact Ha0). cbv beta iota.
    rewrite z2b_lnot, (sep_true_eqb sep Hsep). cbv beta iota.
    unfold alloc_request. rewrite ?Hsep.
    rewrite <- !app_assoc. cbn [app]. rewrite <- !app_assoc in A. cbn [app] in A. rewrite A. cbv beta iota.
    rewrite (node_padd h' (length h) _ hd 2 D) by lia. cbv beta iota.
    rewrite (node_memory h' (length h) _ hd D). reflexivity. }
  split; [exact B|]. split; [rewrite C; exact Hl1|]. split; [exact D|].
  intros b' Hb1 Hb2. rewrite E by (try lia; exact Hb2). unfold h1. apply hblock_app_old. exact Hb1.
Qed.
(* R5: success, the record inside the new block (the oracle answers with block nb) *)
Lemma rml_success_inline fuel h evs al nf il rl gs dt bss d tc nb memory na size kind file line sep :
  detector_at h dt bss d tc -> (size <= 2 ^ 64 - 76)%N -> (na < 2 ^ 64)%N -> na <> 0%N -> (line < 2 ^ 64)%N ->
  (d_seq d + 1 < 2 ^ 32)%N -> z2b sep = false ->
  (nb < length h)%nat -> length (hblock h nb) = 9%nat -> nb <> dt -> ~ In nb (concat bss) ->
  exists h' hd,
    src_det_reallocateMemoryAndLeakInformation fuel h evs al nf (HPtr nb 0 :: il) (Z.of_N na :: rl) gs (HPtr dt 0) (Z.of_N kind) memory
                                               (Z.of_N size) (Z.of_N file) (Z.of_N line) sep =
      FOk (Z.of_N na, h',
           evs ++ [DRealloc memory (size_with_guard (Z.of_N size) + 64) (Z.of_N na); DInline (Z.of_N na) (Z.of_N size) (HPtr nb 0);
                   DGuardWrite (guard_addr (new_node d na size kind file line))], al, nf, il, rl, gs) /\
    detector_at h' dt (tw_set (hashN na) (nb :: nth (hashN na) bss []) bss) (d_store d na size kind file line) tc /\
    length h' = length h /\ hblock h' nb = node_cells (new_node d na size kind file line) hd /\
    (forall b', b' <> nb -> b' <> dt -> hblock h' b' = hblock h b').
Proof.
  intros Hd Hsz Ha Ha0 Hln Hseq Hsep Hnb Hl9 Hne Hnin.
  assert (Hs : 0 <= Z.of_N size <= max_user_size).
  { rewrite max_user_size_val. split; [apply N2Z.is_nonneg|]. change 18446744073709551540 with (Z.of_N (2 ^ 64 - 76)).
    apply N2Z.inj_le. exact Hsz. }
  assert (Hs64 : (size < 2 ^ 64)%N) by (change (2 ^ 64)%N with 18446744073709551616%N; change (2 ^ 64 - 76)%N with 18446744073709551540%N in Hsz; lia).
  destruct (src_det_storeLeakInformation_spec fuel h
              (evs ++ [DRealloc memory (size_with_guard (Z.of_N size) + 64) (Z.of_N na); DInline (Z.of_N na) (Z.of_N size) (HPtr nb 0)])
              al nf il rl gs dt bss d tc nb na size kind file line Hd Hnb Hl9 Hne Hnin Ha Hs64 Hln Hseq)
    as [h' [hd [A [B [C [D E]]]]]].
  exists h', hd. split.
  { unfold src_det_reallocateMemoryAndLeakInformation. cbv zeta. rewrite Hsep. cbv beta iota.
    rewrite (src_det_reallocateMemoryWithAccountingInformation_spec fuel _ _ al nf (HPtr nb 0 :: il) (Z.of_N na) rl gs (HPtr dt 0)
               (Z.of_N kind) memory (Z.of_N size) (Z.of_N file) (Z.of_N line) sep Hs).
    cbv beta iota zeta. rewrite c_eq_N0. replace (na =? 0)%N with false by (symmetry; apply N.eqb_neq; exact Ha0). cbv beta iota.
    rewrite z2b_lnot, (sep_false_eqb sep Hsep). cbv beta iota.
    unfold src_det_createMemoryLeakAccountingInformation. rewrite ?Hsep. cbv beta iota zeta. cbn [finish]. cbv beta iota zeta.
    unfold alloc_request. rewrite ?Hsep.
    rewrite <- !app_assoc. cbn [app]. rewrite <- !app_assoc in A. cbn [app] in A. rewrite A. cbv beta iota.
    rewrite (node_padd h' nb _ hd 2 D) by lia. cbv beta iota.
    rewrite (node_memory h' nb _ hd D). reflexivity. }
  split; [exact B|]. split; [exact C|]. split; [exact D | exact E].
Qed.

(* ------------------------------------------------------------------ reallocMemory around it *)
(* oversize: NULL, nothing asked, nothing touched (the table is not even looked at) *)
Theorem src_det_reallocMemory_oversize : forall fuel (h : heap) (evs : list dev) al nf (il : list hptr) rl gs this allocator memory size
                                                file line sep,
  max_user_size < size ->
  src_det_reallocMemory actual equal_type fuel h evs al nf il rl gs this allocator memory size file line sep =
  FOk (0, h, evs, al, nf, il, rl, gs).
Proof.
  intros. unfold src_det_reallocMemory. rewrite src_det_sizeLeavesRoomForAccountingInformation_spec. cbv beta iota.
  rewrite z2b_lnot. replace (size <=? max_user_size) with false by (symmetry; apply Z.leb_gt; assumption). reflexivity.
Qed.

(* reallocMemory(NULL, ...) is reallocateMemoryAndLeakInformation: nothing is removed, nothing is put back or freed afterwards *)
Theorem src_det_reallocMemory_null : forall fuel (h : heap) (evs : list dev) al nf (il : list hptr) rl gs this allocator size file line sep,
  size <= max_user_size ->
  src_det_reallocMemory actual equal_type fuel h evs al nf il rl gs this allocator 0 size file line sep =
  src_det_reallocateMemoryAndLeakInformation fuel h evs al nf il rl gs this allocator 0 size file line sep.
Proof.
  intros fuel h evs al nf il rl gs this allocator size file line sep Hs. unfold src_det_reallocMemory.
  rewrite src_det_sizeLeavesRoomForAccountingInformation_spec. cbv beta iota.
  rewrite z2b_lnot. replace (size <=? max_user_size) with true by (symmetry; apply Z.leb_le; exact Hs). cbn [b2z Z.eqb]. cbv beta iota zeta.
  change (z2b (c_ne 0 0)) with false. cbv beta iota.
  destruct (src_det_reallocateMemoryAndLeakInformation fuel h evs al nf il rl gs this allocator 0 size file line sep)
    as [[[[[[[[r m] e] a1] n1] i1] r1] g1]| |]; reflexivity.
Qed.

(* the block is not tracked: "non-allocated" is reported, NULL, the detector as it was *)
Theorem src_det_reallocMemory_unknown : forall fuel h evs al nf il rl gs dt bss d tc a allocator size file line sep,
  detector_at h dt bss d tc -> (a < 2 ^ 64)%N -> a <> 0%N -> (length (nth (hashN a) (d_tbl d) []) < fuel)%nat ->
  size <= max_user_size -> fst (t_remove a (d_tbl d)) = None ->
  exists h' bss',
    src_det_reallocMemory actual equal_type fuel h evs al nf il rl gs (HPtr dt 0) allocator (Z.of_N a) size file line sep =
      FOk (0, h', evs ++ [DReport 1 HNull], al, nf, il, rl, gs) /\
    detector_at h' dt bss' d tc /\ fst (d_realloc_failed d a) = d /\ snd (d_realloc_failed d a) = true /\ length h' = length h /\
    (forall b', b' <> dt -> ~ In b' (concat bss) -> hblock h' b' = hblock h b').
Proof.
  intros fuel h evs al nf il rl gs dt bss d tc a allocator size file line sep Hd Ha Ha0 Hf Hs Hr.
  pose proof Hd as [H0 _].
  destruct (remove_unknown fuel h dt bss d tc a Hd Ha Hf Hr) as [h' [bss' [A [Hd' [L Fr]]]]].
  exists h', bss'. split.
  { unfold src_det_reallocMemory. rewrite src_det_sizeLeavesRoomForAccountingInformation_spec. cbv beta iota.
    rewrite z2b_lnot. replace (size <=? max_user_size) with true by (symmetry; apply Z.leb_le; exact Hs). cbn [b2z Z.eqb].
    cbv beta iota zeta. rewrite c_ne_N0. replace (a =? 0)%N with false by (symmetry; apply N.eqb_neq; exact Ha0). cbn [negb].
    cbv beta iota. rewrite (blk_padd h dt 3) by (rewrite H0; cbn; lia). cbv beta iota. rewrite A. cbv beta iota zeta.
    rewrite hp_eq_null_null. reflexivity. }
  split; [exact Hd'|]. unfold d_realloc_failed. rewrite (t_remove_pair a (d_tbl d)), Hr. cbn [fst snd].
  split; [reflexivity|]. split; [reflexivity|]. split; [exact L | exact Fr].
Qed.

(* what happens after reallocateMemoryAndLeakInformation when a record was taken out at p *)
Definition realloc_post (fuel : nat) (dt : nat) (p : hptr) (allocator sep : Z)
    (X : fres (Z * heap * list dev * list Z * list Z * list hptr * list Z * list Z)) :
    fres (Z * heap * list dev * list Z * list Z * list hptr * list Z * list Z) :=
  match X with
  | FOk (r5, mem, evs, al, nf, il, rl, gs) =>
      if z2b (c_eq r5 0) then
        match hpadd mem (HPtr dt 0) 3 with
        | None => FOob
        | Some q => match src_table_addNewNode fuel mem q p with
                    | FOk (_, mem') => FOk (r5, mem', evs, al, nf, il, rl, gs)
                    | FOob => FOob
                    | FNoFuel => FNoFuel
                    end
        end
      else FOk (r5, mem, if z2b sep then evs ++ [DNodeFree allocator p] else evs, al, nf, il, rl, gs)
  | FOob => FOob
  | FNoFuel => FNoFuel
  end.

Lemma realloc_known_unfold fuel (h h' : heap) (evs evs' : list dev) al nf (il : list hptr) rl gs gs' dt b a allocator size file line sep :
  size <= max_user_size -> a <> 0%N -> hpadd h (HPtr dt 0) 3 = Some (HPtr dt 3) ->
  src_table_removeNode fuel h (HPtr dt 3) (Z.of_N a) = FOk (HPtr b 0, h') ->
  src_det_checkForCorruption actual equal_type fuel h' evs al nf il rl gs (HPtr dt 0) (HPtr b 0) file line allocator 0 =
    FOk (tt, h', evs', al, nf, il, rl, gs') ->
  src_det_reallocMemory actual equal_type fuel h evs al nf il rl gs (HPtr dt 0) allocator (Z.of_N a) size file line sep =
  realloc_post fuel dt (HPtr b 0) allocator sep
    (src_det_reallocateMemoryAndLeakInformation fuel h' evs' al nf il rl gs' (HPtr dt 0) allocator (Z.of_N a) size file line sep).
Proof.
  intros Hs Ha0 Hp Hrm Hck. unfold src_det_reallocMemory. rewrite src_det_sizeLeavesRoomForAccountingInformation_spec. cbv beta iota.
  rewrite z2b_lnot. replace (size <=? max_user_size) with true by (symmetry; apply Z.leb_le; exact Hs). cbn [b2z Z.eqb].
  cbv beta iota zeta. rewrite c_ne_N0. replace (a =? 0)%N with false by (symmetry; apply N.eqb_neq; exact Ha0). cbn [negb].
  cbv beta iota. rewrite Hp. cbv beta iota. rewrite Hrm. cbv beta iota zeta. rewrite hp_eq_null_ptr. cbv beta iota.
  rewrite Hck. cbv beta iota.
  destruct (src_det_reallocateMemoryAndLeakInformation fuel h' evs' al nf il rl gs' (HPtr dt 0) allocator (Z.of_N a) size file line sep)
    as [[[[[[[[r m] e] a1] n1] i1] r1] g1]| |]; try reflexivity.
  unfold realloc_post. cbv beta iota zeta. rewrite w_z2b_ptr. cbv beta iota.
  destruct (z2b (c_eq r 0)); cbv beta iota.
  - destruct (hpadd m (HPtr dt 0) 3) as [q|]; [|reflexivity]. cbv beta iota.
    destruct (src_table_addNewNode fuel m q (HPtr b 0)) as [[u m']| |]; reflexivity.
  - destruct (z2b sep); reflexivity.
Qed.


(* ------------------------------------------------------------------ a tracked block *)
Lemma d_realloc_failed_known d a n : fst (t_remove a (d_tbl d)) = Some n ->
  d_realloc_failed d a = (with_tbl d (t_add n (snd (t_remove a (d_tbl d)))), false).
Proof. intro H. unfold d_realloc_failed. rewrite (t_remove_pair a (d_tbl d)), H. reflexivity. Qed.

(* memoryTable_.addNewNode(node): the record taken out goes back, at the head of its bucket *)
Lemma realloc_restore fuel h2 dt bss2 d2 tc b n nxt allocator sep (evs2 : list dev) al nf (il : list hptr) rl gs :
  detector_at h2 dt bss2 d2 tc -> hblock h2 b = node_cells n nxt -> node_ok n -> (b < length h2)%nat -> ~ In b (concat bss2) ->
  b <> dt ->
  exists h3 hd,
    realloc_post fuel dt (HPtr b 0) allocator sep (FOk (0, h2, evs2, al, nf, il, rl, gs)) = FOk (0, h3, evs2, al, nf, il, rl, gs) /\
    detector_at h3 dt (tw_set (hashN (n_addr n)) (b :: nth (hashN (n_addr n)) bss2 []) bss2) (with_tbl d2 (t_add n (d_tbl d2))) tc /\
    length h3 = length h2 /\ hblock h3 b = node_cells n hd /\ (forall b', b' <> b -> b' <> dt -> hblock h3 b' = hblock h2 b').
Proof.
  intros Hd Hb Hok Hlt Hnin Hne. pose proof Hd as [H0 _]. rewrite node_cells_raw in Hb.
  destruct (src_table_addNewNode_off fuel h2 dt 3 bss2 (d_tbl d2) b n (VPtr nxt) (detector_at_table _ _ _ _ _ Hd) Hok Hlt Hnin Hne Hb)
    as [h3 [hd [A [T [L [Lb [_ [Hb3 [F G]]]]]]]]].
  exists h3, hd. split.
  { unfold realloc_post. change (z2b (c_eq 0 0)) with true. cbv beta iota.
    rewrite (blk_padd h2 dt 3) by (rewrite H0; cbn; lia). change (HPtr dt 3) with (HPtr dt (Z.of_nat 3)). rewrite A. reflexivity. }
  split.
  { apply (detector_at_new_table h2 h3 dt bss2 _ d2 tc _ Hd T Lb).
    intros k Hk. apply G. pose proof (tw_hashN_lt (n_addr n)) as Hh. rewrite tw_nb in Hh. lia. }
  split; [exact L|]. split; [exact Hb3 | exact F].
Qed.

(* the part of reallocMemory before reallocateMemoryAndLeakInformation, for a tracked block: the record n is taken out (block b,
   untouched) and checked; separately allocated records are kept for now (checkForCorruption is called with false) *)
Lemma realloc_known_prefix fuel h evs al nf il rl gs dt bss d tc a n allocator size file line g gs' :
  detector_at h dt bss d tc -> (a < 2 ^ 64)%N -> a <> 0%N -> (length (nth (hashN a) (d_tbl d) []) < fuel)%nat ->
  size <= max_user_size -> fst (t_remove a (d_tbl d)) = Some n ->
  (d_matching tc (actual (Z.of_N (n_kind n))) (actual allocator) = true -> gs = g :: gs') ->
  exists h' bss' b nxt,
    ptr_of a (nth (hashN a) bss []) (nth (hashN a) (d_tbl d) []) = HPtr b 0 /\
    (forall sep,
      src_det_reallocMemory actual equal_type fuel h evs al nf il rl gs (HPtr dt 0) allocator (Z.of_N a) size file line sep =
      realloc_post fuel dt (HPtr b 0) allocator sep
        (src_det_reallocateMemoryAndLeakInformation fuel h' (evs ++ corr_events tc (HPtr b 0) n allocator 0 g) al nf il rl
           (corr_guards tc n allocator gs) (HPtr dt 0) allocator (Z.of_N a) size file line sep)) /\
    detector_at h' dt bss' (fst (d_dealloc d a)) tc /\ length h' = length h /\
    hblock h' b = node_cells n nxt /\ (b < length h)%nat /\ b <> dt /\ In b (concat bss) /\
    ~ In b (concat bss') /\ (forall x, In x (concat bss') -> In x (concat bss)) /\ node_ok n /\ n_addr n = a /\
    (forall b', b' <> dt -> ~ In b' (concat bss) -> hblock h' b' = hblock h b').
Proof.
  intros Hd Ha Ha0 Hf Hs Hr Hg. pose proof Hd as [H0 _].
  destruct (remove_known fuel h dt bss d tc a n Hd Ha Hf Hr)
    as [h' [bss' [b [nxt [A [Hp [Hd' [L [Hb [_ [Hlt [Hne [Hin [Hnin [Hsub [Hok [Hk [Fr _]]]]]]]]]]]]]]]]]].
  exists h', bss', b, nxt. split; [exact Hp|]. split.
  { intro sep. apply realloc_known_unfold; try assumption.
    - apply blk_padd. rewrite H0. cbn. lia.
    - exact (src_det_checkForCorruption_spec fuel h' evs al nf il rl gs dt bss' _ tc b n nxt file line allocator 0 g gs' Hd' Hb Hg). }
  rewrite d_dealloc_fst. repeat (split; [assumption|]). exact Fr.
Qed.

(* the separate record for the new block is refused: the old record is back in the table (d_realloc_failed), NULL *)
Theorem src_det_reallocMemory_node_refused : forall fuel h evs al r nf il rl gs dt bss d tc a n allocator size file line sep g gs',
  detector_at h dt bss d tc -> (a < 2 ^ 64)%N -> a <> 0%N -> (length (nth (hashN a) (d_tbl d) []) < fuel)%nat ->
  size <= max_user_size -> fst (t_remove a (d_tbl d)) = Some n ->
  (d_matching tc (actual (Z.of_N (n_kind n))) (actual allocator) = true -> gs = g :: gs') ->
  z2b sep = true -> r <> 0 ->
  exists h3 bss3,
    src_det_reallocMemory actual equal_type fuel h evs al (r :: nf) il rl gs (HPtr dt 0) allocator (Z.of_N a) size file line sep =
      FOk (0, h3, evs ++ corr_events tc (ptr_of a (nth (hashN a) bss []) (nth (hashN a) (d_tbl d) [])) n allocator 0 g ++
                  [DNodeRefused allocator], al, nf, il, rl, corr_guards tc n allocator gs) /\
    detector_at h3 dt bss3 (fst (d_realloc_failed d a)) tc /\ snd (d_realloc_failed d a) = false /\ length h3 = length h /\
    (forall b', b' <> dt -> ~ In b' (concat bss) -> hblock h3 b' = hblock h b').
Proof.
  intros fuel h evs al r nf il rl gs dt bss d tc a n allocator size file line sep g gs' Hd Ha Ha0 Hf Hs Hr Hg Hsep Hrn.
  destruct (realloc_known_prefix fuel h evs al (r :: nf) il rl gs dt bss d tc a n allocator size file line g gs' Hd Ha Ha0 Hf Hs Hr Hg)
    as [h' [bss' [b [nxt [Hp [Heq [Hd' [L [Hb [Hlt [Hne [Hin [Hnin [Hsub [Hok [Hk Fr]]]]]]]]]]]]]]]].
  rewrite Heq, Hp. rewrite (rml_node_refused fuel h' _ al r nf il rl _ (HPtr dt 0) allocator (Z.of_N a) size file line sep Hsep Hrn).
  destruct (realloc_restore fuel h' dt bss' _ tc b n nxt allocator sep
              ((evs ++ corr_events tc (HPtr b 0) n allocator 0 g) ++ [DNodeRefused allocator]) al nf il rl
              (corr_guards tc n allocator gs) Hd' Hb Hok ltac:(rewrite L; exact Hlt) Hnin Hne) as [h3 [hd [A [B [C [D E]]]]]].
  exists h3; eexists; split; [etransitivity; [exact A|]; rewrite <- app_assoc; reflexivity|]. rewrite (d_realloc_failed_known d a n Hr). cbn [fst snd].
  rewrite d_dealloc_fst in B. split; [exact B|]. split; [reflexivity|]. split; [rewrite C; exact L|].
  intros b' H1 H2. rewrite E; [exact (Fr b' H1 H2) | intro Eq; subst b'; exact (H2 Hin) | exact H1].
Qed.

(* the separate record is there but PlatformSpecificRealloc fails: the new record is given back, the old one is back in the
   table, NULL; the heap has one (dead) block more *)
Theorem src_det_reallocMemory_failed_separate : forall fuel h evs al nf il rl gs dt bss d tc a n allocator size file line sep g gs',
  detector_at h dt bss d tc -> (a < 2 ^ 64)%N -> a <> 0%N -> (length (nth (hashN a) (d_tbl d) []) < fuel)%nat ->
  0 <= size <= max_user_size -> fst (t_remove a (d_tbl d)) = Some n ->
  (d_matching tc (actual (Z.of_N (n_kind n))) (actual allocator) = true -> gs = g :: gs') ->
  z2b sep = true ->
  exists h3 bss3,
    src_det_reallocMemory actual equal_type fuel h evs al (0 :: nf) il (0 :: rl) gs (HPtr dt 0) allocator (Z.of_N a) size file line sep =
      FOk (0, h3, evs ++ corr_events tc (ptr_of a (nth (hashN a) bss []) (nth (hashN a) (d_tbl d) [])) n allocator 0 g ++
                  [DNodeAlloc allocator (HPtr (length h) 0); DRealloc (Z.of_N a) (size_with_guard size) 0;
                   DNodeFree allocator (HPtr (length h) 0)], al, nf, il, rl, corr_guards tc n allocator gs) /\
    detector_at h3 dt bss3 (fst (d_realloc_failed d a)) tc /\ snd (d_realloc_failed d a) = false /\ length h3 = S (length h) /\
    (forall b', (b' < length h)%nat -> b' <> dt -> ~ In b' (concat bss) -> hblock h3 b' = hblock h b').
Proof.
  intros fuel h evs al nf il rl gs dt bss d tc a n allocator size file line sep g gs' Hd Ha Ha0 Hf Hs Hr Hg Hsep.
  destruct (realloc_known_prefix fuel h evs al (0 :: nf) il (0 :: rl) gs dt bss d tc a n allocator size file line g gs' Hd Ha Ha0 Hf
              (proj2 Hs) Hr Hg)
    as [h' [bss' [b [nxt [Hp [Heq [Hd' [L [Hb [Hlt [Hne [Hin [Hnin [Hsub [Hok [Hk Fr]]]]]]]]]]]]]]]].
  rewrite Heq, Hp.
  rewrite (rml_realloc_failed_separate fuel h' _ al nf il rl _ (HPtr dt 0) allocator (Z.of_N a) size file line sep Hsep Hs).
  set (h2 := h' ++ [repeat (VInt 0) 9]).
  pose proof (detector_at_lt _ _ _ _ _ Hd') as Hdt.
  assert (Hd2 : detector_at h2 dt bss' (fst (d_dealloc d a)) tc).
  { apply (detector_at_frame_le h' h2 dt bss' _ tc Hd').
    - unfold h2. rewrite app_length. lia.
    - apply hblock_app_old. exact Hdt.
    - intros x Hx. apply hblock_app_old. exact (toff_block_lt _ _ _ _ _ _ (detector_at_table _ _ _ _ _ Hd') Hx). }
  assert (Hl2 : length h2 = S (length h)) by (unfold h2; rewrite app_length, L; cbn [length]; lia).
  assert (Hb2 : hblock h2 b = node_cells n nxt) by (unfold h2; rewrite hblock_app_old by (rewrite L; exact Hlt); exact Hb).
  rewrite L.
  destruct (realloc_restore fuel h2 dt bss' _ tc b n nxt allocator sep
              ((evs ++ corr_events tc (HPtr b 0) n allocator 0 g) ++
               [DNodeAlloc allocator (HPtr (length h) 0); DRealloc (Z.of_N a) (size_with_guard size) 0;
                DNodeFree allocator (HPtr (length h) 0)]) al nf il rl
              (corr_guards tc n allocator gs) Hd2 Hb2 Hok ltac:(rewrite Hl2; lia) Hnin Hne) as [h3 [hd [A [B [C [D E]]]]]].
  exists h3; eexists; split; [etransitivity; [exact A|]; rewrite <- app_assoc; reflexivity|]. rewrite (d_realloc_failed_known d a n Hr). cbn [fst snd].
  rewrite d_dealloc_fst in B. split; [exact B|]. split; [reflexivity|]. split; [rewrite C; exact Hl2|].
  intros b' H0 H1 H2. rewrite E; [|intro Eq; subst b'; exact (H2 Hin) | exact H1].
  unfold h2. rewrite hblock_app_old by (rewrite L; exact H0). exact (Fr b' H1 H2).
Qed.

(* the record lives inside the block and PlatformSpecificRealloc fails: the old record is back in the table, NULL *)
Theorem src_det_reallocMemory_failed_inline : forall fuel h evs al nf il rl gs dt bss d tc a n allocator size file line sep g gs',
  detector_at h dt bss d tc -> (a < 2 ^ 64)%N -> a <> 0%N -> (length (nth (hashN a) (d_tbl d) []) < fuel)%nat ->
  0 <= size <= max_user_size -> fst (t_remove a (d_tbl d)) = Some n ->
  (d_matching tc (actual (Z.of_N (n_kind n))) (actual allocator) = true -> gs = g :: gs') ->
  z2b sep = false ->
  exists h3 bss3,
    src_det_reallocMemory actual equal_type fuel h evs al nf il (0 :: rl) gs (HPtr dt 0) allocator (Z.of_N a) size file line sep =
      FOk (0, h3, evs ++ corr_events tc (ptr_of a (nth (hashN a) bss []) (nth (hashN a) (d_tbl d) [])) n allocator 0 g ++
                  [DRealloc (Z.of_N a) (size_with_guard size + 64) 0], al, nf, il, rl, corr_guards tc n allocator gs) /\
    detector_at h3 dt bss3 (fst (d_realloc_failed d a)) tc /\ snd (d_realloc_failed d a) = false /\ length h3 = length h /\
    (forall b', b' <> dt -> ~ In b' (concat bss) -> hblock h3 b' = hblock h b').
Proof.
  intros fuel h evs al nf il rl gs dt bss d tc a n allocator size file line sep g gs' Hd Ha Ha0 Hf Hs Hr Hg Hsep.
  destruct (realloc_known_prefix fuel h evs al nf il (0 :: rl) gs dt bss d tc a n allocator size file line g gs' Hd Ha Ha0 Hf
              (proj2 Hs) Hr Hg)
    as [h' [bss' [b [nxt [Hp [Heq [Hd' [L [Hb [Hlt [Hne [Hin [Hnin [Hsub [Hok [Hk Fr]]]]]]]]]]]]]]]].
  rewrite Heq, Hp.
  rewrite (rml_realloc_failed_inline fuel h' _ al nf il rl _ (HPtr dt 0) allocator (Z.of_N a) size file line sep Hsep Hs).
  destruct (realloc_restore fuel h' dt bss' _ tc b n nxt allocator sep
              ((evs ++ corr_events tc (HPtr b 0) n allocator 0 g) ++ [DRealloc (Z.of_N a) (size_with_guard size + 64) 0]) al nf il rl
              (corr_guards tc n allocator gs) Hd' Hb Hok ltac:(rewrite L; exact Hlt) Hnin Hne) as [h3 [hd [A [B [C [D E]]]]]].
  exists h3; eexists; split; [etransitivity; [exact A|]; rewrite <- app_assoc; reflexivity|]. rewrite (d_realloc_failed_known d a n Hr). cbn [fst snd].
  rewrite d_dealloc_fst in B. split; [exact B|]. split; [reflexivity|]. split; [rewrite C; exact L|].
  intros b' H1 H2. rewrite E; [exact (Fr b' H1 H2) | intro Eq; subst b'; exact (H2 Hin) | exact H1].
Qed.

(* success with separate records: old record out, new record (block number length h) in with a new number and the CURRENT
   period and stage (= d_store (fst (d_dealloc d a)) ...), then the old separate record is freed *)
Theorem src_det_reallocMemory_success_separate : forall fuel h evs al nf il rl gs dt bss d tc a n na size kind file line sep g gs',
  detector_at h dt bss d tc -> (a < 2 ^ 64)%N -> a <> 0%N -> (length (nth (hashN a) (d_tbl d) []) < fuel)%nat ->
  (size <= 2 ^ 64 - 76)%N -> fst (t_remove a (d_tbl d)) = Some n ->
  (d_matching tc (actual (Z.of_N (n_kind n))) (actual (Z.of_N kind)) = true -> gs = g :: gs') ->
  z2b sep = true -> (na < 2 ^ 64)%N -> na <> 0%N -> (line < 2 ^ 64)%N -> (d_seq d + 1 < 2 ^ 32)%N ->
  exists h3 bss3,
    src_det_reallocMemory actual equal_type fuel h evs al (0 :: nf) il (Z.of_N na :: rl) gs (HPtr dt 0) (Z.of_N kind) (Z.of_N a)
                          (Z.of_N size) (Z.of_N file) (Z.of_N line) sep =
      FOk (Z.of_N na, h3,
           evs ++ corr_events tc (ptr_of a (nth (hashN a) bss []) (nth (hashN a) (d_tbl d) [])) n (Z.of_N kind) 0 g ++
           [DNodeAlloc (Z.of_N kind) (HPtr (length h) 0); DRealloc (Z.of_N a) (size_with_guard (Z.of_N size)) (Z.of_N na);
            DGuardWrite (guard_addr (new_node d na size kind file line));
            DNodeFree (Z.of_N kind) (ptr_of a (nth (hashN a) bss []) (nth (hashN a) (d_tbl d) []))],
           al, nf, il, rl, corr_guards tc n (Z.of_N kind) gs) /\
    detector_at h3 dt bss3 (d_store (fst (d_dealloc d a)) na size kind file line) tc /\ snd (d_dealloc d a) = false /\
    length h3 = S (length h) /\
    (forall b', (b' < length h)%nat -> b' <> dt -> ~ In b' (concat bss) -> hblock h3 b' = hblock h b').
Proof.
  intros fuel h evs al nf il rl gs dt bss d tc a n na size kind file line sep g gs' Hd Ha Ha0 Hf Hsz Hr Hg Hsep Hna Hna0 Hln Hseq.
  assert (Hs : Z.of_N size <= max_user_size).
  { rewrite max_user_size_val. change 18446744073709551540 with (Z.of_N (2 ^ 64 - 76)). apply N2Z.inj_le. exact Hsz. }
  destruct (realloc_known_prefix fuel h evs al (0 :: nf) il (Z.of_N na :: rl) gs dt bss d tc a n (Z.of_N kind) (Z.of_N size)
              (Z.of_N file) (Z.of_N line) g gs' Hd Ha Ha0 Hf Hs Hr Hg)
    as [h' [bss' [b [nxt [Hp [Heq [Hd' [L [Hb [Hlt [Hne [Hin [Hnin [Hsub [Hok [Hk Fr]]]]]]]]]]]]]]]].
  rewrite Heq, Hp.
  assert (Hseq' : (d_seq (fst (d_dealloc d a)) + 1 < 2 ^ 32)%N) by (rewrite d_dealloc_fst; exact Hseq).
  destruct (rml_success_separate fuel h' (evs ++ corr_events tc (HPtr b 0) n (Z.of_N kind) 0 g) al nf il rl
              (corr_guards tc n (Z.of_N kind) gs) dt bss' _ tc (Z.of_N a) na size kind file line sep Hd' Hsz Hna Hna0 Hln Hseq' Hsep)
    as [h3 [hd [A [B [C [D E]]]]]].
  rewrite A. exists h3; eexists; split.
  { unfold realloc_post. rewrite c_eq_N0. replace (na =? 0)%N with false by (symmetry; apply N.eqb_neq; exact Hna0). cbv beta iota.
    rewrite Hsep, L. rewrite <- !app_assoc. cbn [app].
    replace (new_node (fst (d_dealloc d a)) na size kind file line) with (new_node d na size kind file line)
      by (rewrite d_dealloc_fst; reflexivity).
    reflexivity. }
  split; [exact B|]. split; [rewrite d_dealloc_snd, Hr; reflexivity|]. split; [rewrite C, L; reflexivity|].
  intros b' H0 H1 H2. rewrite E by (try exact H1; rewrite L; exact H0). exact (Fr b' H1 H2).
Qed.

(* success with the record inside the block: the oracle (getNodeFromMemoryPointer) answers with block nb, which is outside the old
   table and the detector object, or is the block of the old record itself (a block grown in place) *)
Theorem src_det_reallocMemory_success_inline : forall fuel h evs al nf il rl gs dt bss d tc nb a n na size kind file line sep g gs',
  detector_at h dt bss d tc -> (a < 2 ^ 64)%N -> a <> 0%N -> (length (nth (hashN a) (d_tbl d) []) < fuel)%nat ->
  (size <= 2 ^ 64 - 76)%N -> fst (t_remove a (d_tbl d)) = Some n ->
  (d_matching tc (actual (Z.of_N (n_kind n))) (actual (Z.of_N kind)) = true -> gs = g :: gs') ->
  z2b sep = false -> (na < 2 ^ 64)%N -> na <> 0%N -> (line < 2 ^ 64)%N -> (d_seq d + 1 < 2 ^ 32)%N ->
  ((nb < length h)%nat /\ length (hblock h nb) = 9%nat /\ nb <> dt /\ ~ In nb (concat bss)) \/
  HPtr nb 0 = ptr_of a (nth (hashN a) bss []) (nth (hashN a) (d_tbl d) []) ->
  exists h3 bss3,
    src_det_reallocMemory actual equal_type fuel h evs al nf (HPtr nb 0 :: il) (Z.of_N na :: rl) gs (HPtr dt 0) (Z.of_N kind) (Z.of_N a)
                          (Z.of_N size) (Z.of_N file) (Z.of_N line) sep =
      FOk (Z.of_N na, h3,
           evs ++ corr_events tc (ptr_of a (nth (hashN a) bss []) (nth (hashN a) (d_tbl d) [])) n (Z.of_N kind) 0 g ++
           [DRealloc (Z.of_N a) (size_with_guard (Z.of_N size) + 64) (Z.of_N na); DInline (Z.of_N na) (Z.of_N size) (HPtr nb 0);
            DGuardWrite (guard_addr (new_node d na size kind file line))],
           al, nf, il, rl, corr_guards tc n (Z.of_N kind) gs) /\
    detector_at h3 dt bss3 (d_store (fst (d_dealloc d a)) na size kind file line) tc /\ snd (d_dealloc d a) = false /\
    length h3 = length h /\
    (forall b', b' <> nb -> b' <> dt -> ~ In b' (concat bss) -> hblock h3 b' = hblock h b').
Proof.
  intros fuel h evs al nf il rl gs dt bss d tc nb a n na size kind file line sep g gs' Hd Ha Ha0 Hf Hsz Hr Hg Hsep Hna Hna0 Hln Hseq Hnb.
  assert (Hs : Z.of_N size <= max_user_size).
  { rewrite max_user_size_val. change 18446744073709551540 with (Z.of_N (2 ^ 64 - 76)). apply N2Z.inj_le. exact Hsz. }
  destruct (realloc_known_prefix fuel h evs al nf (HPtr nb 0 :: il) (Z.of_N na :: rl) gs dt bss d tc a n (Z.of_N kind) (Z.of_N size)
              (Z.of_N file) (Z.of_N line) g gs' Hd Ha Ha0 Hf Hs Hr Hg)
    as [h' [bss' [b [nxt [Hp [Heq [Hd' [L [Hb [Hlt [Hne [Hin [Hnin [Hsub [Hok [Hk Fr]]]]]]]]]]]]]]]].
  rewrite Heq, Hp.
  assert (Hseq' : (d_seq (fst (d_dealloc d a)) + 1 < 2 ^ 32)%N) by (rewrite d_dealloc_fst; exact Hseq).
  assert (Hnb' : (nb < length h')%nat /\ length (hblock h' nb) = 9%nat /\ nb <> dt /\ ~ In nb (concat bss')).
  { destruct Hnb as [[N1 [N2 [N3 N4]]]|N].
    - split; [rewrite L; exact N1|]. split; [rewrite (Fr nb N3 N4); exact N2|]. split; [exact N3|].
      intro Hx. exact (N4 (Hsub nb Hx)).
    - rewrite Hp in N. inversion N; subst nb. split; [rewrite L; exact Hlt|]. split; [rewrite Hb; reflexivity|].
      split; [exact Hne | exact Hnin]. }
  destruct Hnb' as [N1 [N2 [N3 N4]]].
  destruct (rml_success_inline fuel h' (evs ++ corr_events tc (HPtr b 0) n (Z.of_N kind) 0 g) al nf il rl
              (corr_guards tc n (Z.of_N kind) gs) dt bss' _ tc nb (Z.of_N a) na size kind file line sep Hd' Hsz Hna Hna0 Hln Hseq' Hsep
              N1 N2 N3 N4)
    as [h3 [hd [A [B [C [D E]]]]]].
  rewrite A. exists h3; eexists; split.
  { unfold realloc_post. rewrite c_eq_N0. replace (na =? 0)%N with false by (symmetry; apply N.eqb_neq; exact Hna0). cbv beta iota.
    rewrite Hsep. rewrite <- !app_assoc. cbn [app].
    replace (new_node (fst (d_dealloc d a)) na size kind file line) with (new_node d na size kind file line)
      by (rewrite d_dealloc_fst; reflexivity).
    reflexivity. }
  split; [exact B|]. split; [rewrite d_dealloc_snd, Hr; reflexivity|]. split; [rewrite C, L; reflexivity|].
  intros b' H0 H1 H2. rewrite (E b' H0 H1). exact (Fr b' H1 H2).
Qed.


(* ================================================================== 5: invalidateMemory *)
(* the block is poisoned (0xCD over the recorded size) iff it is tracked; nothing is written in the object heap *)
Theorem src_det_invalidateMemory_spec : forall fuel h evs al nf il rl gs dt bss d tc a,
  detector_at h dt bss d tc -> (a < 2 ^ 64)%N -> (length (nth (hashN a) (d_tbl d) []) < fuel)%nat ->
  src_det_invalidateMemory fuel h evs al nf il rl gs (HPtr dt 0) (Z.of_N a) =
  FOk (tt, h, evs ++ match t_retrieve a (d_tbl d) with Some n => [DPoison (Z.of_N a) (Z.of_N (n_size n))] | None => [] end,
       al, nf, il, rl, gs).
Proof.
  intros fuel h evs al nf il rl gs dt bss d tc a Hd Ha Hf. pose proof Hd as [H0 _].
  pose proof (detector_at_table _ _ _ _ _ Hd) as Ht. unfold src_det_invalidateMemory.
  rewrite (blk_padd h dt 3) by (rewrite H0; cbn; lia). cbv beta iota. change (HPtr dt 3) with (HPtr dt (Z.of_nat 3)).
  rewrite (src_table_retrieveNode_off fuel h dt 3 bss (d_tbl d) a Ht Ha Hf). cbv beta iota zeta.
  pose proof (toff_retrieve h dt 3 bss (d_tbl d) a Ht) as Hr.
  destruct (t_retrieve a (d_tbl d)) as [n|].
  - destruct Hr as [b [nxt [Hp [_ Hb]]]]. rewrite Hp, w_z2b_ptr. cbv beta iota. rewrite (node_size h b n nxt Hb). reflexivity.
  - rewrite Hr, w_z2b_null. cbv beta iota. rewrite app_nil_r. reflexivity.
Qed.

End Tie.


(* ================================================================== 6: deallocAllMemoryInCurrentAllocationStage *)
(* the loop over getFirstLeakForAllocationStage / getNextLeakForAllocationStage calling deallocMemory is the model's stage_loop
   (C04_Model.d_stage_free), for a table that satisfies C04_Table.Inv (every record in the bucket of its key, keys distinct) and
   holds no record for the address 0 (deallocMemory(NULL) returns at once: see the counterexample at the end of the file) *)
Section Stage.
Variable actual : Z -> Z.
Variable equal_type : Z -> Z -> Z.
Variable destroyed : Z -> Z.

(* ------------------------------------------------------------------ the model under Inv *)
Lemma inv_hash_pos : forall (t : table) k0, bucket_ok_from k0 t -> forall i k d, (i < length t)%nat -> (k < length (nth i t []))%nat ->
  hashN (n_addr (nth k (nth i t []) d)) = (k0 + i)%nat.
Proof.
  induction t as [|b t IH]; intros k0 Hbk i k d Hi Hk; [cbn [length] in Hi; lia|]. destruct Hbk as [Hb Hr].
  cbn [length] in Hi. destruct i as [|i].
  - cbn [nth] in Hk |- *. rewrite Forall_forall in Hb. rewrite (Hb _ (nth_In b d Hk)). lia.
  - cbn [nth] in Hk |- *. rewrite (IH (S k0) Hr i k d) by (lia || assumption). lia.
Qed.
Lemma inv_bucket_nodup : forall (t : table) i, NoDup (addrs (flat t)) -> NoDup (map n_addr (nth i t [])).
Proof.
  unfold addrs, flat. induction t as [|b t IH]; intros i H; [destruct i; constructor|].
  cbn [concat] in H. rewrite map_app in H. destruct i as [|i]; cbn [nth].
  - exact (proj1 (proj1 (tw_NoDup_app _ _) H)).
  - apply IH. exact (proj1 (proj2 (proj1 (tw_NoDup_app _ _) H))).
Qed.
Lemma in_bucket_in_flat (t : table) i n : In n (nth i t []) -> In n (flat t).
Proof.
  intro H. unfold flat. destruct (Nat.lt_ge_cases i (length t)) as [L|L].
  - apply in_concat. exists (nth i t []). split; [apply nth_In; exact L | exact H].
  - rewrite nth_overflow in H by exact L. destruct H.
Qed.
(* removing a member of the table (C04_Proofs.dealloc_member without the detector around it) *)
Lemma remove_member t n P S : Inv t -> flat t = P ++ n :: S ->
  fst (t_remove (n_addr n) t) = Some n /\ flat (snd (t_remove (n_addr n) t)) = P ++ S /\ Inv (snd (t_remove (n_addr n) t)) /\
  ~ In (n_addr n) (addrs S).
Proof.
  intros HI E. pose proof HI as (_ & _ & ND). rewrite E in ND. destruct (nodup_mid_notin _ _ _ ND) as [Hn1 Hn2].
  destruct (remove_flat (n_addr n) _ HI) as (R1 & R2 & R3).
  rewrite E in R1, R2. rewrite rm_here in R2 by auto.
  rewrite retrieve_app, (retrieve_notin _ _ Hn1) in R1. cbn [l_retrieve] in R1. rewrite N.eqb_refl in R1. auto.
Qed.
Lemma next_member f t n P S : Inv t -> flat t = P ++ n :: S -> t_next f n t = l_leak_from f S.
Proof.
  intros HI E. pose proof HI as (_ & _ & ND). rewrite E in ND. destruct (nodup_mid_notin _ _ _ ND) as [Hn1 _].
  rewrite next_flat; [|assumption|rewrite E, !addrs_app; cbn [addrs map]; rewrite !in_app_iff; cbn [In]; tauto].
  rewrite E, after_here by auto. reflexivity.
Qed.
Lemma bucket_le_count : forall (t : table) i, (length (nth i t []) <= t_count t)%nat.
Proof. induction t as [|b t IH]; intros [|i]; cbn [nth t_count length]; try lia. specialize (IH i). lia. Qed.

(* a released tracked record is never reported as "non-allocated" *)
Lemma dealloc_events_some_no_nonalloc tc p n allocator a sep g e :
  In e (dealloc_events actual equal_type destroyed tc p (Some n) allocator a sep g) -> e <> DReport 1 HNull.
Proof.
  unfold dealloc_events, corr_events. destruct (z2b (destroyed allocator)); [intros []|].
  destruct (d_matching equal_type tc (actual (Z.of_N (n_kind n))) (actual allocator)).
  - destruct (g =? 0); [|destruct (z2b sep)]; cbn [app In]; intros H; repeat (destruct H as [H|H]; [subst e; discriminate|]);
      destruct H.
  - cbn [app In]. intros H; repeat (destruct H as [H|H]; [subst e; discriminate|]); destruct H.
Qed.
Lemma dealloc_guards_length tc r allocator gs :
  (length gs <= S (length (dealloc_guards actual equal_type destroyed tc r allocator gs)))%nat.
Proof.
  unfold dealloc_guards, corr_guards. destruct r as [n|]; [|lia]. destruct (z2b (destroyed allocator)); [lia|].
  destruct (d_matching equal_type tc (actual (Z.of_N (n_kind n))) (actual allocator)); [|lia]. destruct gs; cbn [tl length]; lia.
Qed.

(* the pointer the walk holds and the record the model's loop holds *)
Definition linked (h : heap) (bss : list (list nat)) (cur : option node) (node : hptr) : Prop :=
  match cur with
  | None => node = HNull
  | Some n => exists b nxt, node = HPtr b 0 /\ In b (concat bss) /\ hblock h b = node_cells n nxt
  end.
Definition no_null_key (t : table) : Prop := forall n, In n (flat t) -> n_addr n <> 0%N.

Lemma stage_walk fuel0 (al nf : list Z) (il : list hptr) (rl : list Z) dt tc : forall m fuel h evs gs bss d cur node mem0 fails,
  detector_at h dt bss d tc -> Inv (d_tbl d) -> no_null_key (d_tbl d) ->
  (t_count (d_tbl d) < m)%nat -> (t_count (d_tbl d) < fuel)%nat -> (t_count (d_tbl d) + 80 < fuel0)%nat ->
  (t_count (d_tbl d) <= length gs)%nat -> linked h bss cur node ->
  exists h' bss' evs' gs' st' mem',
    src_det_deallocAllMemoryInCurrentAllocationStage_loop1 actual equal_type destroyed fuel0 fuel (HPtr dt 0) h evs al nf il rl gs mem0
      node = Go (h', evs ++ evs', al, nf, il, rl, gs', mem', HNull) /\
    stage_loop m cur d fails = Some (st', fails) /\ detector_at h' dt bss' st' tc /\ Inv (d_tbl st') /\ no_null_key (d_tbl st') /\
    (forall e, In e evs' -> e <> DReport 1 HNull).
Proof.
  induction m as [|m IH]; intros fuel h evs gs bss d cur node mem0 fails Hd HI Hnz Hm Hfu Hf0 Hgs Hlk; [lia|].
  destruct fuel as [|fuel]; [lia|]. cbn [src_det_deallocAllMemoryInCurrentAllocationStage_loop1 stage_loop].
  destruct cur as [n|].
  2:{ cbn [linked] in Hlk. subst node. rewrite w_z2b_null. cbv beta iota.
      exists h, bss, [], gs, d, mem0. rewrite app_nil_r. split; [reflexivity|]. split; [reflexivity|]. split; [exact Hd|].
      split; [exact HI|]. split; [exact Hnz|]. intros e []. }
  destruct Hlk as [b [nxt [-> [Hin Hb]]]]. rewrite w_z2b_ptr. cbv beta iota.
  pose proof Hd as [H0 [_ [_ [_ [H78 _]]]]]. pose proof (detector_at_table _ _ _ _ _ Hd) as Ht.
  set (t := d_tbl d) in *.
  rewrite (node_padd h b n nxt 2 Hb) by lia. cbv beta iota. rewrite (node_memory h b n nxt Hb). cbv beta iota zeta.
  rewrite (node_padd h b n nxt 5 Hb) by lia. cbv beta iota. rewrite (node_allocator h b n nxt Hb). cbv beta iota zeta.
  rewrite (blk_padd h dt 3) by (rewrite H0; cbn; lia). cbv beta iota.
  rewrite (blk_padd h dt 78) by (rewrite H0; cbn; lia). cbv beta iota.
  rewrite (blk_load_int h dt 78 (Z.of_N (d_stage d))) by (try lia; exact H78). cbv beta iota.
  (* where the record is *)
  destruct (toff_block_position h dt 3 bss t b n Ht Hin) as [i [k [nxt2 [Hi [Hk [Eb Hb2]]]]]].
  assert (En : nth k (nth i t []) n = n) by (rewrite Hb in Hb2; symmetry; exact (node_cells_eq_inj _ _ _ _ Hb2)).
  pose proof HI as [HIl [HIb HInd]].
  assert (Hhash : hashN (n_addr (nth k (nth i t []) n)) = i).
  { rewrite (inv_hash_pos t 0%nat HIb i k n) by (try exact Hk; rewrite HIl; exact Hi). reflexivity. }
  assert (Hbf : forall j, (j < nbuckets)%nat -> (length (nth j t []) < fuel0)%nat).
  { intros j _. pose proof (bucket_le_count t j). lia. }
  pose proof (src_table_getNextLeakForAllocationStage_off fuel0 h dt 3 bss t i k (d_stage d) n Ht Hi Hk Hhash Hbf ltac:(lia)) as GN.
  rewrite <- Eb in GN. change (HPtr dt (Z.of_nat 3)) with (HPtr dt 3) in GN. rewrite GN. clear GN.
  cbv beta iota zeta.
  (* the model's view *)
  assert (Hnin : In n (nth i t [])) by (rewrite <- En; apply nth_In; exact Hk).
  destruct (in_split n (flat t) (in_bucket_in_flat t i n Hnin)) as [P [Sx E]].
  destruct (remove_member t n P Sx HI E) as [Er [Ef [HI' HnS]]].
  pose proof (next_member (fun c => is_in_stage c (d_stage d)) t n P Sx HI E) as Enx.
  assert (Hcnt : t_count t = S (t_count (snd (t_remove (n_addr n) t)))).
  { rewrite !t_count_flat, E, Ef, !app_length. cbn [length]. lia. }
  assert (Hok : node_ok n) by exact (proj1 (Forall_forall _ _) (toff_nodes_ok h dt 3 bss t i Ht Hi) n Hnin).
  assert (Ha0 : n_addr n <> 0%N) by (apply Hnz; rewrite E; apply in_or_app; right; left; reflexivity).
  destruct gs as [|g gs0]; [cbn [length] in Hgs; lia|].
  (* the file, line and flag literals of the call are whatever the source says now *)
  match goal with |- context [src_det_deallocMemory actual equal_type destroyed fuel0 h evs al nf il rl (g :: gs0) (HPtr dt 0)
                                 (Z.of_N (n_kind n)) (Z.of_N (n_addr n)) ?f ?l ?s] =>
    destruct (src_det_deallocMemory_spec actual equal_type destroyed fuel0 h evs al nf il rl (g :: gs0) dt bss d tc (n_addr n)
                (Z.of_N (n_kind n)) f l s g gs0 Hd (proj1 Hok) Ha0) as [h' [bss' [A [Hd' [L [Fr Hs]]]]]]
  end.
  { fold t. pose proof (bucket_le_count t (hashN (n_addr n))). lia. }
  { intros; reflexivity. }
  fold t in A, Hs. rewrite Er in A, Hs.
  rewrite A. cbv beta iota.
  destruct Hs as [bm [nxm [Hpm [Hbm' [Hbm [Hinm [Hninm [Hstay Hkept]]]]]]]].
  rewrite d_dealloc_fst in Hd'. fold t in Hd'.
  rewrite (surjective_pairing (d_dealloc d (n_addr n))), d_dealloc_snd, d_dealloc_fst. fold t. rewrite Er.
  set (d' := with_tbl d (snd (t_remove (n_addr n) t))) in *.
  (* the successor is still linked *)
  assert (Hlk' : linked h' bss' (t_next (fun c => is_in_stage c (d_stage d)) n t)
                        (tptr_next (fun c => is_in_stage c (d_stage d)) i k bss t)).
  { destruct (t_next (fun c => is_in_stage c (d_stage d)) n t) as [n'|] eqn:En'.
    - assert (En'' : t_next (fun c => is_in_stage c (d_stage d)) (nth k (nth i t []) n) t = Some n') by (rewrite En; exact En').
      destruct (toff_next_some h dt 3 bss t _ i k n n' Ht Hi Hk Hhash (inv_bucket_nodup t i HInd) En'') as [b' [nxt' [Hp' [Hin' Hb']]]].
      cbn [linked]. rewrite Hp'.
      assert (Hne : b' <> bm).
      { intro Eq. subst b'. rewrite Hbm in Hb'. apply node_cells_eq_inj in Hb'. subst n'.
        destruct (l_leak_from_some _ _ _ (eq_sym Enx)) as [HinS _]. apply HnS. unfold addrs. apply in_map. exact HinS. }
      destruct (Hkept b' n' nxt' (Hstay b' Hin' Hne) Hb') as [nx' Hb''].
      exists b', nx'. split; [reflexivity|]. split; [exact (Hstay b' Hin' Hne) | exact Hb''].
    - cbn [linked]. apply (proj2 (toff_next_none h dt 3 bss t _ i k n Ht Hi Hk Hhash (inv_bucket_nodup t i HInd))).
      rewrite En. exact En'. }
  assert (Hnz' : no_null_key (d_tbl d')).
  { intros x Hx. apply Hnz. fold t. cbn [d' with_tbl d_tbl] in Hx. rewrite Ef in Hx. rewrite E. apply in_app_or in Hx.
    apply in_or_app. destruct Hx as [Hx|Hx]; [left; exact Hx | right; right; exact Hx]. }
  pose proof (dealloc_guards_length tc (Some n) (Z.of_N (n_kind n)) (g :: gs0)) as Hgl.
  match type of A with _ = FOk (tt, _, ?e, _, _, _, _, ?gg) =>
    destruct (IH fuel h' e gg bss' d'
                (t_next (fun c => is_in_stage c (d_stage d)) n t) (tptr_next (fun c => is_in_stage c (d_stage d)) i k bss t)
                (Z.of_N (n_addr n)) fails Hd')
      as [h2 [bss2 [evs2 [gs2 [st2 [mem2 [B [C [D2 [I2 [Z2 R2]]]]]]]]]]]
  end; try assumption.
  { cbn [d' with_tbl d_tbl]. lia. }
  { cbn [d' with_tbl d_tbl]. lia. }
  { cbn [d' with_tbl d_tbl]. lia. }
  { cbn [d' with_tbl d_tbl]. cbn [length] in Hgs, Hgl. lia. }
  match type of A with _ = FOk (tt, _, evs ++ ?X, _, _, _, _, _) => exists h2, bss2, (X ++ evs2), gs2, st2, mem2 end.
  split; [rewrite B, app_assoc; reflexivity|]. split; [exact C|]. split; [exact D2|]. split; [exact I2|]. split; [exact Z2|].
  intros e He. apply in_app_or in He. destruct He as [He|He]; [exact (dealloc_events_some_no_nonalloc _ _ _ _ _ _ _ _ He) | exact (R2 e He)].
Qed.

Theorem src_det_deallocAllMemoryInCurrentAllocationStage_spec : forall fuel h evs al nf il rl gs dt bss d tc,
  detector_at h dt bss d tc -> Inv (d_tbl d) -> no_null_key (d_tbl d) ->
  (t_count (d_tbl d) + 80 < fuel)%nat -> (t_count (d_tbl d) <= length gs)%nat ->
  exists h' bss' evs' gs' st',
    src_det_deallocAllMemoryInCurrentAllocationStage actual equal_type destroyed fuel h evs al nf il rl gs (HPtr dt 0) =
      FOk (tt, h', evs ++ evs', al, nf, il, rl, gs') /\
    d_stage_free d = Some (st', 0%N) /\ detector_at h' dt bss' st' tc /\ Inv (d_tbl st') /\ no_null_key (d_tbl st') /\
    (forall e, In e evs' -> e <> DReport 1 HNull).
Proof.
  intros fuel h evs al nf il rl gs dt bss d tc Hd HI Hnz Hf Hgs.
  pose proof Hd as [H0 [_ [_ [_ [H78 _]]]]]. pose proof (detector_at_table _ _ _ _ _ Hd) as Ht.
  assert (Hbf : forall j, (j < nbuckets)%nat -> (length (nth j (d_tbl d) []) < fuel)%nat).
  { intros j _. pose proof (bucket_le_count (d_tbl d) j). lia. }
  assert (Hlk : linked h bss (t_first (fun c => is_in_stage c (d_stage d)) (d_tbl d))
                       (tptr_first (fun c => is_in_stage c (d_stage d)) bss (d_tbl d))).
  { destruct (t_first (fun c => is_in_stage c (d_stage d)) (d_tbl d)) as [n|] eqn:E.
    - destruct (toff_first_some h dt 3 bss (d_tbl d) _ n Ht E) as [b [nxt [Hp [Hin Hb]]]]. cbn [linked]. rewrite Hp.
      exists b, nxt. split; [reflexivity|]. split; assumption.
    - cbn [linked]. exact (proj2 (toff_first_none h dt 3 bss (d_tbl d) _ Ht) E). }
  destruct (stage_walk fuel al nf il rl dt tc (S (t_count (d_tbl d))) fuel h evs gs bss d _ _ 0 0%N Hd HI Hnz ltac:(lia) ltac:(lia) Hf Hgs Hlk)
    as [h' [bss' [evs' [gs' [st' [mem' [B [C [D [I' [Z' R]]]]]]]]]]].
  exists h', bss', evs', gs', st'. split.
  { unfold src_det_deallocAllMemoryInCurrentAllocationStage. cbv zeta.
    rewrite (blk_padd h dt 3) by (rewrite H0; cbn; lia). cbv beta iota.
    rewrite (blk_padd h dt 78) by (rewrite H0; cbn; lia). cbv beta iota.
    rewrite (blk_load_int h dt 78 (Z.of_N (d_stage d))) by (try lia; exact H78). cbv beta iota.
    change (HPtr dt 3) with (HPtr dt (Z.of_nat 3)).
    rewrite (src_table_getFirstLeakForAllocationStage_off fuel h dt 3 bss (d_tbl d) (d_stage d) Ht Hbf) by lia. cbv beta iota zeta.
    rewrite B. reflexivity. }
  split; [exact C|]. split; [exact D|]. split; [exact I'|]. split; [exact Z' | exact R].
Qed.

(* with C04_Proofs.stage_free_spec: what is left is what was not stamped with the current stage *)
Corollary stage_free_leaves : forall d st' k, Inv (d_tbl d) -> d_stage_free d = Some (st', k) ->
  flat (d_tbl st') = filter (fun c => negb (n_stage c =? d_stage d)%N) (flat (d_tbl d)) /\ k = 0%N.
Proof.
  intros d st' k HI E. destruct (stage_free_spec d HI) as [t' [E' [F _]]]. rewrite E' in E. inversion E; subst.
  split; [exact F | reflexivity].
Qed.

End Stage.

(* ================================================================== the C06 vocabulary *)
(* the classification above is C06_Model's: with allocator objects numbered as there, matching is C06_Model.matching and
   d_check is C06_Model.check (valid_guard answered by the guard oracle) *)
Lemma d_matching_is_C06 (equal_type : Z -> Z -> Z) (ds : list C06_Model.adesc) tc a f :
  (forall x y, z2b (equal_type (Z.of_nat x) (Z.of_nat y)) = C06_Model.equal_type ds x y) ->
  d_matching equal_type tc (Z.of_nat a) (Z.of_nat f) = C06_Model.matching ds tc a f.
Proof.
  intro H. rewrite d_matching_eq. unfold C06_Model.matching. rewrite H.
  replace (Z.of_nat a =? Z.of_nat f) with (Nat.eqb a f).
  - destruct (Nat.eqb a f); [reflexivity|]. destruct tc; reflexivity.
  - destruct (Nat.eqb_spec a f) as [E|E]; symmetry; [apply Z.eqb_eq; lia | apply Z.eqb_neq; lia].
Qed.
Lemma d_check_is_C06 (actual : Z -> Z) (equal_type : Z -> Z -> Z) (ds : list C06_Model.adesc) (st : C06_Model.dstate) n al g :
  (forall x y, z2b (equal_type (Z.of_nat x) (Z.of_nat y)) = C06_Model.equal_type ds x y) ->
  (forall x, actual (Z.of_nat x) = Z.of_nat (C06_Model.actual_of ds x)) ->
  z2b g = C06_Model.valid_guard (C06_Model.s_mem st) (n_addr n + n_size n)%N ->
  d_check actual equal_type (C06_Model.s_tc st) n (Z.of_nat al) g = C06_Model.check ds st n al.
Proof.
  intros He Ha Hg. unfold d_check, C06_Model.check.
  replace (Z.of_N (n_kind n)) with (Z.of_nat (C06_Model.node_alloc n)) by (unfold C06_Model.node_alloc; lia).
  rewrite !Ha, (d_matching_is_C06 equal_type ds _ _ _ He).
  destruct (C06_Model.matching ds (C06_Model.s_tc st) (C06_Model.actual_of ds (C06_Model.node_alloc n)) (C06_Model.actual_of ds al));
    cbn [negb]; [|reflexivity].
  rewrite <- Hg. unfold z2b. destruct (g =? 0); reflexivity.
Qed.

(* ================================================================== non-vacuity: the translated functions on a concrete heap *)
Module DetExamples.
  Import TWExamples.
  (* the detector object: reporter_, current_period_ = enabled, outputBuffer_, the 73 heads, type checking on, sequence number,
     stage 0, mutex_ *)
  Definition det_blk (heads : list val) (seq : Z) : list val :=
    [VInt 0; VInt 2; VInt 0] ++ heads ++ [VInt 1; VInt seq; VInt 0; VInt 0].
  (* block 0: the detector; blocks 1, 2: bucket 27 = [n1; n2]; block 3: bucket 8 = [n3]; block 4: nine cells of anything *)
  Definition g0 : heap :=
    [det_blk (tbl (HPtr 3 0) (HPtr 1 0)) 7; node_cells n1 (HPtr 2 0); node_cells n2 HNull; node_cells n3 HNull; repeat (VInt 99) 9].
  Definition d0 : det := mkDet t0 SEnabled 0 7.
  (* allocators are their own actual allocator, no two are of equal type, none is destroyed *)
  Definition idf (x : Z) : Z := x.
  Definition never (f a : Z) : Z := 0.
  Definition alive (x : Z) : Z := 0.

  Example g0_represents : detector_at g0 0 bss0 d0 true.
  Proof.
    unfold detector_at. split; [reflexivity|]. split; [reflexivity|]. split; [reflexivity|]. split; [reflexivity|].
    split; [reflexivity|]. split; [reflexivity|]. split; [reflexivity|].
    split; [reflexivity|]. split; [reflexivity|]. split; [cbn; lia|]. split; [cbn; lia|]. split.
    { cbv. repeat constructor; cbn; intuition lia. }
    split. { cbv. intuition lia. }
    intros i Hi. rewrite tw_nb in Hi.
    do 73 (destruct i as [|i]; [
      first [ exists HNull; split; [reflexivity|]; split; [reflexivity|]; split; [constructor|]; split; [constructor|];
              split; [constructor|]; split; [intros [] | cbn; lia]
            | exists (HPtr 3 0); split; [reflexivity|]; split;
              [ cbn [chain nth bss0 t0]; split; [reflexivity|]; exists HNull; split; reflexivity |];
              split; [repeat constructor; cbn; intuition lia|]; split; [repeat constructor; exact ok3|];
              split; [repeat constructor; cbn; lia|]; split; [cbn; intuition lia | cbn; lia]
            | exists (HPtr 1 0); split; [reflexivity|]; split;
              [ split; [reflexivity|]; exists (HPtr 2 0); split; [reflexivity|]; split; [reflexivity|]; exists HNull;
                split; reflexivity |];
              split; [repeat constructor; cbn; intuition lia|];
              split; [constructor; [exact ok1|]; constructor; [exact ok2 | constructor]|];
              split; [repeat constructor; cbn; lia|]; split; [cbn; intuition lia | cbn; lia] ] |]).
    lia.
  Qed.

  (* allocMemory, the record inside the block (the oracle: block 4): 500 hashes to bucket 62; the record gets number 7, the
     current period and stage; the counter becomes 8 *)
  Definition heads_after_alloc : list val :=
    repeat (VPtr HNull) 8 ++ [VPtr (HPtr 3 0)] ++ repeat (VPtr HNull) 18 ++ [VPtr (HPtr 1 0)] ++ repeat (VPtr HNull) 34 ++
    [VPtr (HPtr 4 0)] ++ repeat (VPtr HNull) 10.
  Example ex_alloc_inline :
    src_det_allocMemory 0 g0 [] [500] [] [HPtr 4 0] [] [] (HPtr 0 0) 0 10 7 99 0 =
    FOk (500, [det_blk heads_after_alloc 8; node_cells n1 (HPtr 2 0); node_cells n2 HNull; node_cells n3 HNull;
               node_cells (mkNode 500 10 7 7 99 0 SEnabled 0) HNull],
         [DAllocCall 0 80 500; DInline 500 10 (HPtr 4 0); DGuardWrite 510], [], [], [], [], []).
  Proof. vm_compute. reflexivity. Qed.
  Example ex_alloc_inline_model : d_store d0 500 10 0 7 99 =
    mkDet (set_b 62 [mkNode 500 10 7 7 99 0 SEnabled 0] t0) SEnabled 0 8.
  Proof. vm_compute. reflexivity. Qed.
  (* the theorem on this heap *)
  Example ex_alloc_inline_thm : exists h' hd,
    src_det_allocMemory 0 g0 [] [Z.of_N 500] [] [HPtr 4 0] [] [] (HPtr 0 0) (Z.of_N 0) (Z.of_N 10) (Z.of_N 7) (Z.of_N 99) 0 =
      FOk (Z.of_N 500, h',
           [] ++ [DAllocCall (Z.of_N 0) (size_with_guard (Z.of_N 10) + 64) (Z.of_N 500); DInline (Z.of_N 500) (Z.of_N 10) (HPtr 4 0);
                  DGuardWrite (guard_addr (new_node d0 500 10 0 7 99))], [], [], [], [], []) /\
    detector_at h' 0 (tw_set (hashN 500) (4%nat :: nth (hashN 500) bss0 []) bss0) (d_store d0 500 10 0 7 99) true /\
    length h' = length g0 /\ hblock h' 4 = node_cells (new_node d0 500 10 0 7 99) hd /\
    (forall b', b' <> 4%nat -> b' <> 0%nat -> hblock h' b' = hblock g0 b').
  Proof.
    apply (src_det_allocMemory_inline 0 g0 [] [] [] [] [] [] 0 bss0 d0 true 4 500 10 0 7 99 0 g0_represents);
      try reflexivity; try discriminate; try (cbn; lia).
  Qed.

  (* allocMemory, separate records, allocMemoryLeakNode refuses: the block is handed back, the heap is untouched *)
  Example ex_alloc_node_refused :
    src_det_allocMemory 0 g0 [] [500] [1] [] [] [] (HPtr 0 0) 0 10 7 99 1 =
    FOk (0, g0, [DAllocCall 0 16 500; DNodeRefused 0; DFreeCall 0 500 10], [], [], [], [], []).
  Proof. vm_compute. reflexivity. Qed.
  (* the allocator itself refuses / the request is too large *)
  Example ex_alloc_refused :
    src_det_allocMemory 0 g0 [] [0] [] [] [] [] (HPtr 0 0) 0 10 7 99 1 = FOk (0, g0, [DAllocCall 0 16 0], [], [], [], [], []).
  Proof. vm_compute. reflexivity. Qed.
  Example ex_alloc_oversize :
    src_det_allocMemory 0 g0 [] [500] [] [] [] [] (HPtr 0 0) 0 18446744073709551541 7 99 1 = FOk (0, g0, [], [500], [], [], [], []).
  Proof. vm_compute. reflexivity. Qed.
  (* allocMemory, separate record granted: block 5 is new *)
  Example ex_alloc_separate :
    src_det_allocMemory 0 g0 [] [500] [0] [] [] [] (HPtr 0 0) 0 10 7 99 1 =
    FOk (500, [det_blk (upd heads_after_alloc 62 (VPtr (HPtr 5 0))) 8; node_cells n1 (HPtr 2 0); node_cells n2 HNull;
               node_cells n3 HNull; repeat (VInt 99) 9; node_cells (mkNode 500 10 7 7 99 0 SEnabled 0) HNull],
         [DAllocCall 0 16 500; DNodeAlloc 0 (HPtr 5 0); DGuardWrite 510], [], [], [], [], []).
  Proof. vm_compute. reflexivity. Qed.

  (* deallocMemory of n2's block (allocated through allocator 1) through allocator 0: mismatch is reported, the guard is not
     even looked at (the oracle stream is untouched), the block is still handed to free_memory; n2 is unlinked behind n1 *)
  Example ex_dealloc_mismatch :
    src_det_deallocMemory idf never alive 3 g0 [] [] [] [] [] [5] (HPtr 0 0) 0 173 0 0 0 =
    FOk (tt, [det_blk (tbl (HPtr 3 0) (HPtr 1 0)) 7; node_cells n1 HNull; node_cells n2 HNull; node_cells n3 HNull; repeat (VInt 99) 9],
         [DReport 2 (HPtr 2 0); DFreeCall 0 173 16], [], [], [], [], [5]).
  Proof. vm_compute. reflexivity. Qed.
  Example ex_dealloc_model : d_dealloc d0 173 = (mkDet (set_b 8 [n3] (set_b 27 [n1] empty_table)) SEnabled 0 7, false).
  Proof. vm_compute. reflexivity. Qed.
  (* the same through allocator 1: the guard oracle says "damaged" -> corruption; says "intact" -> no report *)
  Example ex_dealloc_corrupt :
    src_det_deallocMemory idf never alive 3 g0 [] [] [] [] [] [0] (HPtr 0 0) 1 173 0 0 0 =
    FOk (tt, [det_blk (tbl (HPtr 3 0) (HPtr 1 0)) 7; node_cells n1 HNull; node_cells n2 HNull; node_cells n3 HNull; repeat (VInt 99) 9],
         [DGuardCheck 189 0; DReport 3 (HPtr 2 0); DFreeCall 1 173 16], [], [], [], [], []).
  Proof. vm_compute. reflexivity. Qed.
  Example ex_dealloc_clean :
    src_det_deallocMemory idf never alive 3 g0 [] [] [] [] [] [1] (HPtr 0 0) 1 173 0 0 1 =
    FOk (tt, [det_blk (tbl (HPtr 3 0) (HPtr 1 0)) 7; node_cells n1 HNull; node_cells n2 HNull; node_cells n3 HNull; repeat (VInt 99) 9],
         [DGuardCheck 189 1; DNodeFree 1 (HPtr 2 0); DFreeCall 1 173 16], [], [], [], [], []).
  Proof. vm_compute. reflexivity. Qed.
  Example ex_dealloc_unknown :
    src_det_deallocMemory idf never alive 3 g0 [] [] [] [] [] [] (HPtr 0 0) 1 246 0 0 0 = FOk (tt, g0, [DReport 1 HNull], [], [], [], [], []).
  Proof. vm_compute. reflexivity. Qed.
  (* the theorem on this heap *)
  Example ex_dealloc_thm : exists h' bss',
    src_det_deallocMemory idf never alive 3 g0 [] [] [] [] [] [5] (HPtr 0 0) 0 (Z.of_N 173) 0 0 0 =
      FOk (tt, h', [] ++ dealloc_events idf never alive true (ptr_of 173 (nth (hashN 173) bss0 []) (nth (hashN 173) (d_tbl d0) []))
                                        (fst (t_remove 173 (d_tbl d0))) 0 (Z.of_N 173) 0 5,
           [], [], [], [], dealloc_guards idf never alive true (fst (t_remove 173 (d_tbl d0))) 0 [5]) /\
    detector_at h' 0 bss' (fst (d_dealloc d0 173)) true /\ length h' = length g0 /\
    (forall b', b' <> 0%nat -> ~ In b' (concat bss0) -> hblock h' b' = hblock g0 b') /\
    match fst (t_remove 173 (d_tbl d0)) with
    | Some n => exists b nxt, ptr_of 173 (nth (hashN 173) bss0 []) (nth (hashN 173) (d_tbl d0) []) = HPtr b 0 /\
                              hblock h' b = node_cells n nxt /\ hblock g0 b = node_cells n nxt /\ In b (concat bss0) /\
                              ~ In b (concat bss') /\ (forall x, In x (concat bss0) -> x <> b -> In x (concat bss')) /\
                              (forall x n0 nx, In x (concat bss') -> hblock g0 x = node_cells n0 nx ->
                                               exists nx', hblock h' x = node_cells n0 nx')
    | None => ptr_of 173 (nth (hashN 173) bss0 []) (nth (hashN 173) (d_tbl d0) []) = HNull
    end.
  Proof.
    apply (src_det_deallocMemory_spec idf never alive 3 g0 [] [] [] [] [] [5] 0 bss0 d0 true 173 0 0 0 0 5 [] g0_represents);
      try reflexivity; try discriminate; try (apply Nat.ltb_lt; vm_compute; reflexivity).
  Qed.
  Example ex_dealloc_events :
    dealloc_events idf never alive true (ptr_of 173 (nth (hashN 173) bss0 []) (nth (hashN 173) (d_tbl d0) []))
                   (fst (t_remove 173 (d_tbl d0))) 0 (Z.of_N 173) 0 5 = [DReport 2 (HPtr 2 0); DFreeCall 0 173 16].
  Proof. vm_compute. reflexivity. Qed.

  (* reallocMemory of n2's block through its own allocator, PlatformSpecificRealloc fails: NULL; n2 is back, now at the head
     of bucket 27 (head cell 3 + 27 -> block 2 -> block 1) *)
  Example ex_realloc_failed :
    src_det_reallocMemory idf never 3 g0 [] [] [] [] [0] [1] (HPtr 0 0) 1 173 20 0 0 0 =
    FOk (0, [det_blk (tbl (HPtr 3 0) (HPtr 2 0)) 7; node_cells n1 HNull; node_cells n2 (HPtr 1 0); node_cells n3 HNull; repeat (VInt 99) 9],
         [DGuardCheck 189 1; DRealloc 173 88 0], [], [], [], [], []).
  Proof. vm_compute. reflexivity. Qed.
  Example ex_realloc_failed_model :
    d_realloc_failed d0 173 = (mkDet (set_b 8 [n3] (set_b 27 [n2; n1] empty_table)) SEnabled 0 7, false).
  Proof. vm_compute. reflexivity. Qed.
  (* with separate records: the new record (block 5) is obtained first and given back *)
  Example ex_realloc_failed_separate :
    src_det_reallocMemory idf never 3 g0 [] [] [0] [] [0] [1] (HPtr 0 0) 1 173 20 0 0 1 =
    FOk (0, [det_blk (tbl (HPtr 3 0) (HPtr 2 0)) 7; node_cells n1 HNull; node_cells n2 (HPtr 1 0); node_cells n3 HNull; repeat (VInt 99) 9;
             repeat (VInt 0) 9],
         [DGuardCheck 189 1; DNodeAlloc 1 (HPtr 5 0); DRealloc 173 24 0; DNodeFree 1 (HPtr 5 0)], [], [], [], [], []).
  Proof. vm_compute. reflexivity. Qed.
  (* success, the record inside the moved block (oracle: block 4): old record out, new record number 7, the current period *)
  Example ex_realloc_success :
    src_det_reallocMemory idf never 3 g0 [] [] [] [HPtr 4 0] [500] [1] (HPtr 0 0) 1 173 20 7 99 0 =
    FOk (500, [det_blk heads_after_alloc 8; node_cells n1 HNull; node_cells n2 HNull; node_cells n3 HNull;
               node_cells (mkNode 500 20 7 7 99 1 SEnabled 0) HNull],
         [DGuardCheck 189 1; DRealloc 173 88 500; DInline 500 20 (HPtr 4 0); DGuardWrite 520], [], [], [], [], []).
  Proof. vm_compute. reflexivity. Qed.
  (* the theorem for the failed reallocation on this heap *)
  Example ex_realloc_failed_thm : exists h3 bss3,
    src_det_reallocMemory idf never 3 g0 [] [] [] [] (0 :: []) [1] (HPtr 0 0) 1 (Z.of_N 173) 20 0 0 0 =
      FOk (0, h3, [] ++ corr_events idf never true (ptr_of 173 (nth (hashN 173) bss0 []) (nth (hashN 173) (d_tbl d0) [])) n2 1 0 1 ++
                  [DRealloc (Z.of_N 173) (size_with_guard 20 + 64) 0], [], [], [], [], corr_guards idf never true n2 1 [1]) /\
    detector_at h3 0 bss3 (fst (d_realloc_failed d0 173)) true /\ snd (d_realloc_failed d0 173) = false /\ length h3 = length g0 /\
    (forall b', b' <> 0%nat -> ~ In b' (concat bss0) -> hblock h3 b' = hblock g0 b').
  Proof.
    apply (src_det_reallocMemory_failed_inline idf never 3 g0 [] [] [] [] [] [1] 0 bss0 d0 true 173 n2 1 20 0 0 0 1 [] g0_represents);
      try reflexivity; try discriminate; try (apply Nat.ltb_lt; vm_compute; reflexivity).
    rewrite max_user_size_val. lia.
  Qed.

  (* invalidateMemory: a tracked block is poisoned over its recorded size, an unknown address is left alone *)
  Example ex_invalidate : src_det_invalidateMemory 3 g0 [] [] [] [] [] [] (HPtr 0 0) 173 = FOk (tt, g0, [DPoison 173 16], [], [], [], [], []).
  Proof. vm_compute. reflexivity. Qed.
  Example ex_invalidate_unknown : src_det_invalidateMemory 3 g0 [] [] [] [] [] [] (HPtr 0 0) 246 = FOk (tt, g0, [], [], [], [], [], []).
  Proof. vm_compute. reflexivity. Qed.

  (* deallocAllMemoryInCurrentAllocationStage (stage 0: n1 and n2; n3 belongs to stage 1 and stays): every block is released through
     the allocator it was obtained with, so no mismatch can be reported *)
  Example ex_stage_free :
    src_det_deallocAllMemoryInCurrentAllocationStage idf never alive 100 g0 [] [] [] [] [] [1; 1] (HPtr 0 0) =
    FOk (tt, [det_blk (tbl (HPtr 3 0) HNull) 7; node_cells n1 (HPtr 2 0); node_cells n2 HNull; node_cells n3 HNull; repeat (VInt 99) 9],
         [DGuardCheck 108 1; DFreeCall 0 100 8; DGuardCheck 189 1; DFreeCall 1 173 16], [], [], [], [], []).
  Proof. vm_compute. reflexivity. Qed.
  Example ex_stage_free_model : d_stage_free d0 = Some (mkDet (set_b 8 [n3] empty_table) SEnabled 0 7, 0%N).
  Proof. vm_compute. reflexivity. Qed.
  Example t0_inv : Inv t0.
  Proof.
    split; [reflexivity|]. split.
    - let x := eval vm_compute in t0 in change t0 with x. cbn [bucket_ok_from].
      repeat split; repeat (constructor; try reflexivity).
    - let x := eval vm_compute in (addrs (flat t0)) in change (addrs (flat t0)) with x.
      repeat (constructor; [cbn [In]; intuition discriminate|]). constructor.
  Qed.
  Example t0_no_null : no_null_key t0.
  Proof.
    intros n Hn. let x := eval vm_compute in (flat t0) in change (flat t0) with x in Hn.
    cbn [In] in Hn. destruct Hn as [<-|[<-|[<-|[]]]]; discriminate.
  Qed.
  Example ex_stage_free_thm : exists h' bss' evs' gs' st',
    src_det_deallocAllMemoryInCurrentAllocationStage idf never alive 100 g0 [] [] [] [] [] [1; 1; 1] (HPtr 0 0) =
      FOk (tt, h', [] ++ evs', [], [], [], [], gs') /\
    d_stage_free d0 = Some (st', 0%N) /\ detector_at h' 0 bss' st' true /\ Inv (d_tbl st') /\ no_null_key (d_tbl st') /\
    (forall e, In e evs' -> e <> DReport 1 HNull).
  Proof.
    apply (src_det_deallocAllMemoryInCurrentAllocationStage_spec idf never alive 100 g0 [] [] [] [] [] [1; 1; 1] 0 bss0 d0 true
             g0_represents t0_inv t0_no_null).
    - apply Nat.ltb_lt. vm_compute. reflexivity.
    - apply Nat.leb_le. vm_compute. reflexivity.
  Qed.

  (* COUNTEREXAMPLE (why no_null_key is a hypothesis of the stage theorem): a table that holds a record for the address 0 in the
     current stage.  The table satisfies Inv; the model's d_stage_free removes the record; the translated loop hands the address to
     deallocMemory, which returns at once for NULL, and the record stays (nothing is reported, no guard is consulted) *)
  Definition nz : node := mkNode 0 8 1 7 10 0 SEnabled 0.
  Definition gz : heap := [det_blk (upd (repeat (VPtr HNull) 73) 0 (VPtr (HPtr 1 0))) 7; node_cells nz HNull].
  Definition dz : det := mkDet (set_b 0 [nz] empty_table) SEnabled 0 7.
  Example cex_null_key_translated :
    src_det_deallocAllMemoryInCurrentAllocationStage idf never alive 100 gz [] [] [] [] [] [1; 1] (HPtr 0 0) =
    FOk (tt, gz, [], [], [], [], [], [1; 1]).
  Proof. vm_compute. reflexivity. Qed.
  Example cex_null_key_model : d_stage_free dz = Some (mkDet empty_table SEnabled 0 7, 0%N).
  Proof. vm_compute. reflexivity. Qed.

  (* why "the sequence number does not wrap" is a hypothesis of the success theorems: allocationSequenceNumber_ is an unsigned int;
     at 2^32 - 1 the translated increment stores 0 while the model's d_seq (an unbounded N) becomes 2^32 *)
  Definition gw : heap := [det_blk (tbl (HPtr 3 0) (HPtr 1 0)) 4294967295; node_cells n1 (HPtr 2 0); node_cells n2 HNull;
                           node_cells n3 HNull; repeat (VInt 99) 9].
  Example ex_seq_wraps :
    match src_det_allocMemory 0 gw [] [500] [] [HPtr 4 0] [] [] (HPtr 0 0) 0 10 7 99 0 with
    | FOk (_, h', _, _, _, _, _, _) => nth_error (hblock h' 0) 77 = Some (VInt 0)
    | _ => False
    end /\ d_seq (d_store (mkDet t0 SEnabled 0 4294967295) 500 10 0 7 99) = 4294967296%N.
  Proof. split; vm_compute; reflexivity. Qed.
  (* with type checking off nothing mismatches, whatever the allocators are (d_mismatch_iff: the switch is a conjunct) *)
  Example ex_no_type_checking : d_matching never false 1 2 = true /\ d_matching never true 1 2 = false.
  Proof. split; reflexivity. Qed.
End DetExamples.
