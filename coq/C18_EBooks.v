(* C18 -- environment mode: the books of all allocators (the oracle's side) and the two invariants that tie them to the model:
   BI  which block ids are out -- pending in an operation, held by the cache (its node table and every header and buffer in
       its lists), or the block of a buffer in use that an allocator served directly -- and that everything else obtained since
       the object was constructed is back;
   KI  every block in the cache's lists came from U with the size of its class, its class is the one it was first used for, and
       the buffers handed out are exactly the buffers in use on the object's account. *)
From Coq Require Import NArith Arith Bool List Lia Permutation.
From CppUVerif Require Import gen.Gen_C18 C18_Model C18_Lists C18_Inv C18_Sim C18_ModelG C18_GInv C18_GSim C18_ModelE C18_EInv.
Import ListNotations.
Local Open Scope N_scope.

Definition xlen (b : xbk) : N := N.of_nat (length (xo b)).
Definition is_dir (e : lentry) : bool := le_own e <? 2.
Definition dir_ids (live : list lentry) : list N := map le_id (filter is_dir live).
Definition who_of_tag (t : N) : N := if t =? 0 then who_U else who_T.
Definition held (o : option (state * N)) : list N := match o with Some (st, tab) => tab :: ids st | None => [] end.

(* ---------------------------------------------------------------- lookups *)
Lemma xszof_lt : forall o id v, xszof o id = Some v -> id < N.of_nat (length o).
Proof. intros o id v H. unfold xszof in H. destruct (id <? N.of_nat (length o)) eqn:E; [apply N.ltb_lt; exact E | discriminate]. Qed.
Lemma xszof_app : forall o x id v, xszof o id = Some v -> xszof (o ++ x) id = Some v.
Proof.
  intros o x id v H. pose proof (xszof_lt _ _ _ H) as L. unfold xszof in *.
  replace (id <? N.of_nat (length o)) with true in H by (symmetry; apply N.ltb_lt; exact L).
  replace (id <? N.of_nat (length (o ++ x))) with true by (symmetry; apply N.ltb_lt; rewrite app_length; lia).
  rewrite nth_error_app1; [exact H|]. apply nth_error_Some. congruence.
Qed.
Lemma xszof_new : forall o v, xszof (o ++ [v]) (N.of_nat (length o)) = Some v.
Proof.
  intros. unfold xszof. replace (N.of_nat (length o) <? N.of_nat (length (o ++ [v]))) with true
    by (symmetry; apply N.ltb_lt; rewrite app_length; cbn [length]; lia).
  rewrite Nat2N.id. rewrite nth_error_app2; [|lia]. rewrite Nat.sub_diag. reflexivity.
Qed.
Lemma seen_lt_none : forall (l : list (N * option N)) id bound, (forall i c, In (i, c) l -> i < bound) -> bound <= id -> seen_cls l id = None.
Proof. intros l id bound H Hb. apply seen_cls_None. intros c Hc. apply H in Hc. lia. Qed.
Lemma seen_cls_here : forall l id c, seen_cls ((id, c) :: l) id = Some c.
Proof. intros. simpl. rewrite N.eqb_refl. reflexivity. Qed.

Lemma lids_app : forall a b, lids (a ++ b) = lids a ++ lids b.
Proof. intros. unfold lids. apply map_app. Qed.
Lemma dir_ids_app : forall a b, dir_ids (a ++ b) = dir_ids a ++ dir_ids b.
Proof. intros. unfold dir_ids. rewrite filter_app, map_app. reflexivity. Qed.
Lemma dir_ids_cons : forall e l, dir_ids (e :: l) = if is_dir e then le_id e :: dir_ids l else dir_ids l.
Proof. intros. unfold dir_ids. simpl. destruct (is_dir e); reflexivity. Qed.
Lemma dir_in_lids : forall live id, In id (dir_ids live) -> In id (lids live).
Proof.
  intros live id H. unfold dir_ids, lids in *. apply in_map_iff in H. destruct H as [e [E H]]. apply filter_In in H.
  apply in_map_iff. exists e. tauto.
Qed.
Lemma in_dir_ids : forall live id, In id (dir_ids live) <-> exists e, In e live /\ le_own e < 2 /\ le_id e = id.
Proof.
  intros live id. unfold dir_ids. rewrite in_map_iff. split.
  - intros [e [E H]]. apply filter_In in H. destruct H as [H1 H2]. unfold is_dir in H2. apply N.ltb_lt in H2. exists e. auto.
  - intros [e [H1 [H2 H3]]]. exists e. split; [exact H3|]. apply filter_In. split; [exact H1|]. unfold is_dir. apply N.ltb_lt. exact H2.
Qed.
Lemma in_lvk : forall live t id k, In (id, k) (lvk live t) <-> exists e, In e live /\ le_own e = t /\ le_id e = id /\ cls (le_req e) = k.
Proof.
  intros live t id k. unfold lvk. rewrite in_map_iff. split.
  - intros [e [E H]]. apply filter_In in H. destruct H as [H1 H2]. unfold owned_by in H2. apply N.eqb_eq in H2. inversion E; subst. exists e. auto.
  - intros [e [H1 [H2 [H3 H4]]]]. exists e. subst. split; [reflexivity|]. apply filter_In. split; [exact H1|]. unfold owned_by. apply N.eqb_refl.
Qed.
Lemma overlaps_free : forall live id off n, ~ In id (lids live) -> existsb (overlaps id off n) (map le3 live) = false.
Proof.
  intros live id off n H. destruct (existsb (overlaps id off n) (map le3 live)) eqn:E; [|reflexivity].
  apply existsb_exists in E. destruct E as [x [Hx Ho]]. apply in_map_iff in Hx. destruct Hx as [e [E1 E2]]. subst x.
  destruct e as [[[i o] r] w]. unfold le3 in Ho. cbn [fst overlaps] in Ho.
  apply andb_true_iff in Ho. destruct Ho as [Ho _]. apply andb_true_iff in Ho. destruct Ho as [Ho _]. apply N.eqb_eq in Ho. subst i.
  elim H. unfold lids. apply in_map_iff. exists (id, o, r, w). auto.
Qed.

(* the first entry for a pointer *)
Lemma gfind_split : forall live id off req own, gfind_live live id off = Some (req, own) ->
  exists l1 l2, live = l1 ++ (id, off, req, own) :: l2 /\ gdrop_live live id off = l1 ++ l2.
Proof.
  induction live as [|e r IH]; intros id off req own H; simpl in H; [discriminate|].
  destruct ((le_id e =? id) && (le_off e =? off)) eqn:E.
  - exists [], r. simpl. rewrite E. split; [|reflexivity]. f_equal. apply andb_true_iff in E. destruct E as [E1 E2].
    apply N.eqb_eq in E1. apply N.eqb_eq in E2. destruct e as [[[i o] q] w]. unfold le_id, le_off, le_req, le_own in *. cbn [fst snd] in *.
    inversion H; subst. reflexivity.
  - destruct (IH _ _ _ _ H) as [l1 [l2 [H1 H2]]]. exists (e :: l1), l2. split; [rewrite H1; reflexivity | simpl; rewrite E, H2; reflexivity].
Qed.
Lemma gfind_in : forall live id off req own, NoDup (lids live) -> In (id, off, req, own) live -> gfind_live live id off = Some (req, own).
Proof.
  induction live as [|e r IH]; intros id off req own Hn Hin; [destruct Hin|].
  simpl in Hn. inversion Hn as [|? ? Ha Hr]; subst. simpl. destruct Hin as [->|Hin].
  - unfold le_id, le_off, le_req, le_own. cbn [fst snd]. rewrite !N.eqb_refl. reflexivity.
  - destruct ((le_id e =? id) && (le_off e =? off)) eqn:E; [|apply IH; assumption].
    exfalso. apply andb_true_iff in E. destruct E as [E _]. apply N.eqb_eq in E. apply Ha. rewrite E.
    unfold lids. apply in_map_iff. exists (id, off, req, own). auto.
Qed.

(* ---------------------------------------------------------------- the invariants *)
Record BI (pend : list N) (o : option (state * N)) (tagc base : N) (b : xbk) (live : list lentry) : Prop := {
  bi_nodup : NoDup (pend ++ held o ++ dir_ids live);
  bi_rng : forall id, In id (pend ++ held o) -> id < xlen b /\ ~ In id (xf b);
  bi_cov : forall id, base <= id -> id < xlen b -> In id (xf b) \/ In id (pend ++ held o) \/ In id (dir_ids live);
  bi_freed : forall id, In id (xf b) -> id < xlen b;
  bi_dir : forall e, In e live -> le_own e < 2 ->
           le_off e = 0 /\ xszof (xo b) (le_id e) = Some (who_of_tag (le_own e), le_req e) /\ ~ In (le_id e) (xf b);
  bi_own : forall e, In e live -> le_own e < 2 \/ (o <> None /\ le_own e = tagc);
  bi_seenp : forall id c, In (id, c) (xs b) -> id < xlen b;
  bi_lnd : NoDup (lids live);
  bi_base : base <= xlen b
}.

Definition blk_sat (b : xbk) (kb : kblock) : Prop :=
  xszof (xo b) (b_hdr (snd kb)) = Some (who_U, block_hdr_size) /\
  match fst kb with
  | Some s => xszof (xo b) (b_mem (snd kb)) = Some (who_U, s)
  | None => exists a, cached_bound < a /\ xszof (xo b) (b_mem (snd kb)) = Some (who_U, a)
  end /\
  seen_cls (xs b) (b_mem (snd kb)) = Some (fst kb).
Record KI (st : state) (tab tagc : N) (b : xbk) (live : list lentry) : Prop := {
  ki_sizes : map n_size (s_cache st) = class_sizes;
  ki_blk : forall kb, In kb (kblocks st) -> blk_sat b kb;
  ki_live : Permutation (outk st) (lvk live tagc);
  ki_tab : xszof (xo b) tab = Some (who_D, node_array_size);
  ki_off : forall e, In e live -> le_own e = tagc -> le_off e = 0;
  ki_tag : 2 <= tagc
}.

(* the books only grow: blocks keep their allocator and size, seen blocks keep their class *)
Definition bgrow (b b' : xbk) : Prop :=
  (forall id v, xszof (xo b) id = Some v -> xszof (xo b') id = Some v) /\
  (forall id k, seen_cls (xs b) id = Some k -> seen_cls (xs b') id = Some k) /\ xlen b <= xlen b'.
Lemma bgrow_refl : forall b, bgrow b b.
Proof. intros. split; [|split]; auto. lia. Qed.
Lemma bgrow_trans : forall a b c, bgrow a b -> bgrow b c -> bgrow a c.
Proof. intros a b c [A1 [A2 A3]] [B1 [B2 B3]]. split; [|split]; auto. lia. Qed.
Lemma blk_sat_grow : forall b b' kb, bgrow b b' -> blk_sat b kb -> blk_sat b' kb.
Proof.
  intros b b' kb [G1 [G2 _]] [H1 [H2 H3]]. split; [apply G1; exact H1|]. split; [|apply G2; exact H3].
  destruct (fst kb); [apply G1; exact H2|]. destruct H2 as [a [Ha Hs]]. exists a. split; [exact Ha | apply G1; exact Hs].
Qed.
Lemma KI_grow : forall st tab t b b' live, bgrow b b' -> KI st tab t b live -> KI st tab t b' live.
Proof.
  intros st tab t b b' live G [K1 K2 K3 K4 K5 K6]. constructor; auto.
  - intros kb H. eapply blk_sat_grow; eauto.
  - destruct G as [G1 _]. apply G1. exact K4.
Qed.
Lemma KI_state : forall st st' tab t b live, s_cache st' = s_cache st -> s_non st' = s_non st -> KI st tab t b live -> KI st' tab t b live.
Proof.
  intros st st' tab t b live H1 H2 [K1 K2 K3 K4 K5 K6]. destruct (kblocks_eq st st' H1 H2) as [E1 E2].
  constructor; auto.
  - rewrite H1. exact K1.
  - rewrite E1. exact K2.
  - unfold outk. rewrite E2. exact K3.
Qed.

(* where the blocks of buffers in use are *)
Lemma live_where : forall pend o t base b live st tab id, BI pend o t base b live -> o = Some (st, tab) -> KI st tab t b live ->
  In id (lids live) -> In id (dir_ids live) \/ In id (map fst (outk st)).
Proof.
  intros pend o t base b live st tab id B Ho K H. unfold lids in H. apply in_map_iff in H. destruct H as [e [E H]].
  destruct (bi_own _ _ _ _ _ _ B e H) as [D|[_ D]].
  - left. apply in_dir_ids. exists e. auto.
  - right. assert (G : In (id, cls (le_req e)) (lvk live t)) by (apply in_lvk; exists e; auto).
    eapply Permutation_in in G; [|apply Permutation_sym; exact (ki_live _ _ _ _ _ K)].
    apply in_map_iff. exists (id, cls (le_req e)). auto.
Qed.
(* a block that is pending, or held but not handed out, holds no buffer in use *)
Lemma idle_not_live : forall pend st tab t base b live id, BI pend (Some (st, tab)) t base b live -> KI st tab t b live ->
  In id (pend ++ held (Some (st, tab))) -> ~ In id (map fst (outk st)) -> ~ In id (lids live).
Proof.
  intros pend st tab t base b live id B K Hin Hout Hl.
  destruct (live_where _ _ _ _ _ _ _ _ _ B eq_refl K Hl) as [D|D]; [|exact (Hout D)].
  pose proof (bi_nodup _ _ _ _ _ _ B) as N. rewrite app_assoc in N. eapply NoDup_app_disj; eauto.
Qed.
Lemma NoDup_app_mid : forall (A : Type) (a b c : list A) x, NoDup (a ++ b ++ c) -> In x a -> In x b -> False.
Proof. intros A a b c x H Ha Hb. eapply NoDup_app_disj; [exact H | exact Ha | apply in_or_app; left; exact Hb]. Qed.

(* ---------------------------------------------------------------- handing out *)
Lemma handout_seen : forall live b id n w a, xszof (xo b) id = Some (w, a) -> ~ In id (xf b) -> n <= a -> ~ In id (lids live) ->
  seen_cls (xs b) id = Some (cls n) -> handout live b id 0 n = Some b.
Proof.
  intros live b id n w a H1 H2 H3 H4 H5. unfold handout. rewrite H1. apply memN_false in H2. rewrite H2.
  replace (0 + n <=? a) with true by (symmetry; apply N.leb_le; lia). cbn [negb].
  rewrite (overlaps_free _ _ _ _ H4). rewrite H5.
  replace (optN_eqb (cls n) (cls n)) with true; [reflexivity|]. destruct (cls n); simpl; [rewrite N.eqb_refl|]; reflexivity.
Qed.
Lemma handout_fresh : forall live b id n w a, xszof (xo b) id = Some (w, a) -> ~ In id (xf b) -> n <= a -> ~ In id (lids live) ->
  seen_cls (xs b) id = None -> handout live b id 0 n = Some {| xo := xo b; xf := xf b; xs := (id, cls n) :: xs b |}.
Proof.
  intros live b id n w a H1 H2 H3 H4 H5. unfold handout. rewrite H1. apply memN_false in H2. rewrite H2.
  replace (0 + n <=? a) with true by (symmetry; apply N.leb_le; lia). cbn [negb].
  rewrite (overlaps_free _ _ _ _ H4). rewrite H5. reflexivity.
Qed.
Definition see (b : xbk) (id : N) (c : option N) : xbk := {| xo := xo b; xf := xf b; xs := (id, c) :: xs b |}.
Lemma bgrow_see : forall b id c, seen_cls (xs b) id = None -> bgrow b (see b id c).
Proof.
  intros b id c H. split; [|split]; [auto | | cbn; unfold xlen; simpl; lia].
  intros i k Hk. cbn [see xs]. rewrite seen_cls_skip; [exact Hk|]. intros ->. congruence.
Qed.
Lemma BI_see : forall pend o t base b live id c, id < xlen b -> BI pend o t base b live -> BI pend o t base (see b id c) live.
Proof.
  intros pend o t base b live id c Hlt [B1 B2 B3 B4 B5 B6 B7 B8 B9]. constructor; auto.
  cbn [see xs]. intros i k [E|H]; [inversion E; subst; exact Hlt | eapply B7; eauto].
Qed.

(* ---------------------------------------------------------------- an allocator hands out a block: it is pending *)
Definition grow1 (b : xbk) (w sz : N) : xbk := {| xo := xo b ++ [(w, sz)]; xf := xf b; xs := xs b |}.
Lemma apply_XA : forall c live b w sz, x_apply c live b (XA w (xlen b) sz) = Some (grow1 b w sz).
Proof. intros. unfold x_apply, xlen. rewrite N.eqb_refl. reflexivity. Qed.
Lemma xlen_grow1 : forall b w sz, xlen (grow1 b w sz) = xlen b + 1.
Proof. intros. unfold xlen, grow1. cbn [xo]. rewrite app_length. simpl. lia. Qed.
Lemma bgrow_grow1 : forall b w sz, bgrow b (grow1 b w sz).
Proof. intros. split; [|split]; [intros; apply xszof_app; assumption | auto | rewrite xlen_grow1; lia]. Qed.
Lemma grow1_new : forall b w sz, xszof (xo (grow1 b w sz)) (xlen b) = Some (w, sz).
Proof. intros. unfold grow1, xlen. cbn [xo]. apply xszof_new. Qed.
Lemma BI_XA : forall pend o t base b live w sz, BI pend o t base b live -> BI (xlen b :: pend) o t base (grow1 b w sz) live.
Proof.
  intros pend o t base b live w sz [B1 B2 B3 B4 B5 B6 B7 B8 B9].
  assert (Hd : forall id, In id (dir_ids live) -> id < xlen b).
  { intros id H. apply in_dir_ids in H. destruct H as [e [H1 [H2 H3]]]. destruct (B5 e H1 H2) as [_ [G _]]. subst id. eapply xszof_lt; eauto. }
  constructor; rewrite ?xlen_grow1; cbn [grow1 xo xf xs]; auto.
  - simpl. constructor; [|exact B1]. intros H. rewrite app_assoc in H. apply in_app_iff in H. destruct H as [H|H].
    + apply B2 in H. lia.
    + apply Hd in H. lia.
  - intros id [<-|H]; [split; [lia|]; intros G; apply B4 in G; lia|].
    destruct (B2 id H) as [G2 G3]. split; [lia | exact G3].
  - intros id H1 H2. destruct (N.eq_dec id (xlen b)) as [->|Hne]; [right; left; left; reflexivity|].
    destruct (B3 id H1) as [G|[G|G]]; [lia | left; exact G | right; left; right; exact G | right; right; exact G].
  - intros id H. apply B4 in H. lia.
  - intros e H1 H2. destruct (B5 e H1 H2) as [G1 [G2 G3]]. split; [exact G1|]. split; [apply xszof_app; exact G2 | exact G3].
  - intros id c H. apply B7 in H. lia.
  - lia.
Qed.

(* a pending block goes back *)
Definition free1 (b : xbk) (id : N) : xbk := {| xo := xo b; xf := id :: xf b; xs := xs b |}.
Lemma apply_XF : forall c live b w a id sz, xszof (xo b) id = Some (w, a) -> ~ In id (xf b) -> size_ok a sz c = true -> ~ In id (lids live) ->
  x_apply c live b (XF w id sz) = Some (free1 b id).
Proof.
  intros c live b w a id sz H1 H2 H3 H4. unfold x_apply. rewrite H1, N.eqb_refl, H3. apply memN_false in H2. apply memN_false in H4.
  rewrite H2, H4. reflexivity.
Qed.
Lemma bgrow_free1 : forall b id, bgrow b (free1 b id).
Proof. intros. split; [|split]; auto. unfold xlen. simpl. lia. Qed.
Lemma BI_XF : forall pend pend' o t base b live id, Permutation pend (id :: pend') -> BI pend o t base b live -> BI pend' o t base (free1 b id) live.
Proof.
  intros pend pend' o t base b live id P [B1 B2 B3 B4 B5 B6 B7 B8 B9].
  assert (P2 : Permutation (pend ++ held o ++ dir_ids live) (id :: pend' ++ held o ++ dir_ids live)).
  { change (id :: pend' ++ held o ++ dir_ids live) with ((id :: pend') ++ held o ++ dir_ids live). apply Permutation_app_tail. exact P. }
  pose proof (Permutation_NoDup P2 B1) as N. inversion N as [|? ? Na Nr]; subst.
  assert (Hin : forall x, In x (pend' ++ held o) -> In x (pend ++ held o)).
  { intros x H. apply in_app_iff in H. apply in_or_app. destruct H as [H|H]; [left|right; exact H].
    eapply Permutation_in; [apply Permutation_sym; exact P | right; exact H]. }
  assert (Hid : In id (pend ++ held o)).
  { apply in_or_app. left. eapply Permutation_in; [apply Permutation_sym; exact P | left; reflexivity]. }
  constructor; unfold xlen in *; cbn [free1 xo xf xs]; auto.
  - intros x H. destruct (B2 x (Hin x H)) as [G2 G3]. split; [exact G2|].
    intros [E|E]; [|exact (G3 E)]. subst x. apply Na. rewrite app_assoc. apply in_or_app. left. exact H.
  - intros x H1 H2. destruct (N.eq_dec x id) as [->|Hne]; [left; left; reflexivity|].
    destruct (B3 x H1 H2) as [G|[G|G]]; [left; right; exact G | | right; right; exact G].
    right. left. apply in_app_iff in G. apply in_or_app. destruct G as [G|G]; [left|right; exact G].
    eapply Permutation_in in G; [|exact P]. destruct G as [G|G]; [congruence | exact G].
  - intros x [E|H]; [subst x; apply (B2 id Hid) | apply B4; exact H].
  - intros e H1 H2. destruct (B5 e H1 H2) as [G1 [G2 G3]]. split; [exact G1|]. split; [exact G2|].
    intros [E|E]; [|exact (G3 E)]. apply Na. apply in_or_app. right. apply in_or_app. right. apply in_dir_ids. exists e. auto.
Qed.

(* blocks move between "pending" and "held" *)
Lemma BI_move : forall pend pend' o o' t base b live, Permutation (pend ++ held o) (pend' ++ held o') -> (o = None <-> o' = None) ->
  BI pend o t base b live -> BI pend' o' t base b live.
Proof.
  intros pend pend' o o' t base b live P Ho [B1 B2 B3 B4 B5 B6 B7 B8 B9]. constructor; auto.
  - rewrite app_assoc. rewrite app_assoc in B1. eapply Permutation_NoDup; [|exact B1]. apply Permutation_app_tail. exact P.
  - intros id H. apply B2. eapply Permutation_in; [apply Permutation_sym; exact P | exact H].
  - intros id H1 H2. destruct (B3 id H1 H2) as [G|[G|G]]; [left; exact G | | right; right; exact G].
    right. left. eapply Permutation_in; [exact P | exact G].
  - intros e H. destruct (B6 e H) as [G|[G1 G2]]; [left; exact G | right]. split; [|exact G2]. intros E. apply G1. apply Ho. exact E.
Qed.

(* the string the underlying allocator builds while it is itself in force: a block of its own, back at once *)
Definition dlife1 (b : xbk) (r : N) : xbk := {| xo := xo b ++ [(who_U, r)]; xf := xlen b :: xf b; xs := (xlen b, cls r) :: xs b |}.
Lemma dlife_apply : forall c live b r, (forall id k, In (id, k) (xs b) -> id < xlen b) -> (forall id, In id (xf b) -> id < xlen b) ->
  (forall id, In id (lids live) -> id < xlen b) ->
  x_applies c live b (fst (dlife (Some r) (xlen b))) = Some (dlife1 b r).
Proof.
  intros c live b r Hs Hf Hl. cbn [dlife fst x_applies]. rewrite apply_XA.
  assert (Hnl : ~ In (xlen b) (lids live)) by (intros H; apply Hl in H; lia).
  assert (Hnf : ~ In (xlen b) (xf b)) by (intros H; apply Hf in H; lia).
  change (x_apply c live (grow1 b who_U r) (XR (xlen b) 0 r)) with (handout live (grow1 b who_U r) (xlen b) 0 r).
  rewrite (handout_fresh live (grow1 b who_U r) (xlen b) r who_U r).
  - rewrite (apply_XF c live _ who_U r (xlen b) r); cbn [grow1 xo xf xs]; auto.
    + apply xszof_new.
    + apply size_ok_same.
  - apply grow1_new.
  - exact Hnf.
  - lia.
  - exact Hnl.
  - cbn [grow1 xs]. eapply seen_lt_none; [exact Hs | lia].
Qed.
Lemma xlen_dlife1 : forall b r, xlen (dlife1 b r) = xlen b + 1.
Proof. intros. unfold xlen, dlife1. cbn [xo]. rewrite app_length. simpl. lia. Qed.
Lemma bgrow_dlife1 : forall b r, (forall id k, In (id, k) (xs b) -> id < xlen b) -> bgrow b (dlife1 b r).
Proof.
  intros b r Hs. split; [|split]; [intros; apply xszof_app; assumption | | rewrite xlen_dlife1; lia].
  intros id k H. cbn [dlife1 xs]. rewrite seen_cls_skip; [exact H|]. intros ->. apply seen_cls_In in H. apply Hs in H. lia.
Qed.
Lemma BI_dlife1 : forall pend o t base b live r, BI pend o t base b live -> BI pend o t base (dlife1 b r) live.
Proof.
  intros pend o t base b live r [B1 B2 B3 B4 B5 B6 B7 B8 B9]. constructor; rewrite ?xlen_dlife1; cbn [dlife1 xo xf xs]; auto.
  - intros id H. destruct (B2 id H) as [G2 G3]. split; [lia|]. intros [E|E]; [lia | exact (G3 E)].
  - intros id H1 H2. destruct (N.eq_dec id (xlen b)) as [->|Hne]; [left; left; reflexivity|].
    destruct (B3 id H1) as [G|[G|G]]; [lia | left; right; exact G | right; left; exact G | right; right; exact G].
  - intros id [<-|H]; [lia | apply B4 in H; lia].
  - intros e H1 H2. destruct (B5 e H1 H2) as [G1 [G2 G3]]. split; [exact G1|]. split; [apply xszof_app; exact G2|].
    intros [E|E]; [|exact (G3 E)]. apply xszof_lt in G2. fold (xlen b) in G2. lia.
  - intros id c [E|H]; [inversion E; subst; lia | apply B7 in H; lia].
  - lia.
Qed.
Definition KIo (o : option (state * N)) (t : N) (b : xbk) (live : list lentry) : Prop :=
  match o with Some (st, tab) => KI st tab t b live | None => True end.
Lemma live_lt : forall pend o t base b live id, BI pend o t base b live -> KIo o t b live -> In id (lids live) -> id < xlen b.
Proof.
  intros pend o t base b live id B K H. unfold lids in H. apply in_map_iff in H. destruct H as [e [E H]].
  destruct (bi_own _ _ _ _ _ _ B e H) as [D|[D1 D2]].
  - destruct (bi_dir _ _ _ _ _ _ B e H D) as [_ [G _]]. subst id. eapply xszof_lt; eauto.
  - destruct o as [[st tab]|]; [|congruence]. simpl in K.
    assert (G : In (id, cls (le_req e)) (lvk live t)) by (apply in_lvk; exists e; auto).
    eapply Permutation_in in G; [|apply Permutation_sym; exact (ki_live _ _ _ _ _ K)].
    assert (G2 : In id (ids st)) by (apply outk_in_ids; apply in_map_iff; exists (id, cls (le_req e)); auto).
    apply (bi_rng _ _ _ _ _ _ B id). apply in_or_app. right. simpl. right. exact G2.
Qed.
