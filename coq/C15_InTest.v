(* C15 -- proofs for the never-done check asked from inside a running test (scenario kind STest): the report does not
   depend on the failures the test has recorded before.  No Axiom / Admitted. *)
From Coq Require Import ZArith NArith Bool List Lia ZifyBool.
From CppUVerif Require Import lib.Str C15_Model C15_Proofs.
Import ListNotations.
Local Open Scope Z_scope.

Definition plain (it : oitem) : bool := match it with OPhase _ => false | _ => true end.

Lemma take_phase_app : forall l k r, forallb plain l = true -> take_phase (l ++ OPhase k :: r) = Some (l, k, r).
Proof.
  induction l as [|it l IH]; intros k r H; simpl in *; [reflexivity|].
  apply andb_prop in H. destruct H as [Hp Hl]. rewrite (IH k r Hl).
  destruct it; simpl in Hp; try reflexivity. discriminate Hp.
Qed.

Lemma firstn_length_firstn {A} : forall k (l : list A), firstn (length (firstn k l)) l = firstn k l.
Proof.
  induction k as [|k IH]; intros [|x l]; simpl; try reflexivity. rewrite IH. reflexivity.
Qed.

Lemma filter_plain_id : forall l, forallb plain l = true -> filter plain l = l.
Proof.
  induction l as [|it l IH]; intros H; simpl in *; [reflexivity|].
  apply andb_prop in H. destruct H as [Hp Hl]. rewrite Hp, (IH Hl). reflexivity.
Qed.

(* ---- one event *)
Lemma tstep_item_plain mute t e i : snd (fst (tstep_gen mute t e)) = Some i -> plain i = true /\ count_ok i = true.
Proof.
  destruct e as [o| |]; simpl; try discriminate.
  destruct o; simpl; try discriminate.
  - destruct (walk (s_cur (t_f t) + 1) l false (s_nodes (t_f t))); simpl. intros H; inversion H; subst. split; reflexivity.
  - destruct (if mute && (0 <? t_n t) then None else check_report (t_f t)); simpl; intros H; inversion H; subst; simpl; split; try reflexivity; lia.
Qed.

Lemma titems_plain mute : forall evs t, forallb plain (titems mute t evs) = true /\ forallb count_ok (titems mute t evs) = true.
Proof.
  induction evs as [|e r IH]; intros t; simpl; [split; reflexivity|].
  destruct (snd (fst (tstep_gen mute t e))) as [i|] eqn:E.
  - destruct (tstep_item_plain _ _ _ _ E) as [H1 H2]. simpl. rewrite H1, H2. apply IH.
  - apply IH.
Qed.

Lemma titems_app mute : forall a t b, titems mute t (a ++ b) = titems mute t a ++ titems mute (tmrun mute t a) b.
Proof.
  induction a as [|e r IH]; intros t b; simpl; [reflexivity|].
  destruct (snd (fst (tstep_gen mute t e))); simpl; rewrite IH; reflexivity.
Qed.

Lemma tmrun_app mute : forall a t b, tmrun mute t (a ++ b) = tmrun mute (tmrun mute t a) b.
Proof. induction a as [|e r IH]; intros t b; simpl; [reflexivity|apply IH]. Qed.

Lemma ops_of_app : forall a b, ops_of (a ++ b) = ops_of a ++ ops_of b.
Proof. induction a as [|e r IH]; intros b; simpl; [reflexivity|]. destruct e; simpl; rewrite IH; reflexivity. Qed.

(* the code (mute = false): a test sees the allocator exactly as a plain history of its operations does *)
Lemma tstep_sim t e :
  match e with
  | TOp o => t_f (tnext false t e) = fst (mstep (t_f t) o)
             /\ option_map strip (snd (fst (tstep_gen false t e))) = snd (mstep (t_f t) o)
  | _ => t_f (tnext false t e) = t_f t /\ snd (fst (tstep_gen false t e)) = None
  end.
Proof.
  destruct e as [o| |]; unfold tnext; simpl; try (split; reflexivity).
  destruct o; simpl; try (split; reflexivity).
  - destruct (walk (s_cur (t_f t) + 1) l false (s_nodes (t_f t))); simpl. split; reflexivity.
  - destruct (check_report (t_f t)); simpl; split; reflexivity.
Qed.

Lemma strip_titems : forall evs t, map strip (titems false t evs) = run_from (t_f t) (ops_of evs).
Proof.
  induction evs as [|e r IH]; intros t; [reflexivity|].
  pose proof (tstep_sim t e) as H.
  change (titems false t (e :: r)) with
    (match snd (fst (tstep_gen false t e)) with
     | Some i => i :: titems false (tnext false t e) r
     | None => titems false (tnext false t e) r end).
  remember (snd (fst (tstep_gen false t e))) as oi eqn:Eoi. remember (tnext false t e) as t' eqn:Et'.
  clear Eoi Et'. destruct e as [o| |].
  - destruct H as [Hf Hi]. change (ops_of (TOp o :: r)) with (o :: ops_of r).
    change (run_from (t_f t) (o :: ops_of r)) with
      (let (s', it) := mstep (t_f t) o in match it with Some i => i :: run_from s' (ops_of r) | None => run_from s' (ops_of r) end).
    destruct (mstep (t_f t) o) as [s' it]. simpl in Hf, Hi. subst s' it.
    destruct oi as [i|]; simpl; rewrite IH; reflexivity.
  - destruct H as [Hf Hi]. subst oi. change (ops_of (TAdd :: r)) with (ops_of r). rewrite IH, Hf. reflexivity.
  - destruct H as [Hf Hi]. subst oi. change (ops_of (TFail :: r)) with (ops_of r). rewrite IH, Hf. reflexivity.
Qed.

(* ---- the whole test *)
Definition tst1 pre su bo td := tmrun false (tst0 pre) (fst (fst (tparts false pre su bo td))).
Definition tst2 pre su bo td := tmrun false (tst1 pre su bo td) (snd (fst (tparts false pre su bo td))).

Lemma tparts_prefix mute pre su bo td :
  exists k1 k2 k3, tparts mute pre su bo td = (firstn k1 su, firstn k2 bo, firstn k3 td).
Proof.
  unfold tparts. destruct (texec mute (tst0 pre) su) as [k1 l1]. eexists. eexists. eexists. reflexivity.
Qed.

(* items of the three test functions in a row = items of the events carried out, in a row *)
Lemma trun_shape mute pre su bo td :
  exists e1 e2 e3 i1 i2 i3,
    tparts mute pre su bo td = (e1, e2, e3) /\
    trun_gen mute pre su bo td = i1 ++ OPhase (length e1) :: i2 ++ OPhase (length e2) :: i3 ++ [OPhase (length e3)] /\
    i1 ++ i2 ++ i3 = titems mute (tst0 pre) (e1 ++ e2 ++ e3) /\
    forallb plain i1 = true /\ forallb plain i2 = true /\ forallb plain i3 = true.
Proof.
  unfold trun_gen. destruct (tparts mute pre su bo td) as [[e1 e2] e3].
  exists e1, e2, e3. do 3 eexists. split; [reflexivity|]. split; [reflexivity|].
  split; [rewrite !titems_app; reflexivity|].
  repeat split; apply titems_plain.
Qed.

Lemma trun_check pre su bo td :
  valid (STest pre su bo td) = true -> tcheck su bo td (trun_gen false pre su bo td) = true.
Proof.
  intros Hv. simpl in Hv. apply andb_prop in Hv. destruct Hv as [_ Hv]. unfold teff in Hv.
  destruct (trun_shape false pre su bo td) as (e1 & e2 & e3 & i1 & i2 & i3 & Hp & Hr & Hi & P1 & P2 & P3).
  destruct (tparts_prefix false pre su bo td) as (k1 & k2 & k3 & Hk). rewrite Hp in Hk. inversion Hk; subst e1 e2 e3; clear Hk.
  rewrite Hp in Hv. rewrite Hr. unfold tcheck.
  rewrite (take_phase_app i1 _ _ P1), (take_phase_app i2 _ _ P2).
  change (i3 ++ [OPhase (length (firstn k3 td))]) with (i3 ++ OPhase (length (firstn k3 td)) :: []).
  rewrite (take_phase_app i3 _ _ P3).
  rewrite !firstn_length_firstn.
  assert (L : forall k (l : list tev), Nat.leb (length (firstn k l)) (length l) = true)
    by (intros k l; apply (proj2 (Nat.leb_le _ _)); rewrite firstn_length; lia).
  rewrite !L. simpl andb. rewrite Hv. simpl.
  rewrite Hi, strip_titems. simpl t_f.
  rewrite (run_check _ st0 0 [] 0%nat (inv0 _) Hv). simpl.
  apply titems_plain.
Qed.

(* ------------------------------------------------------------------ Prop-level statements *)
(* the check, asked in any state of the asking test: what it does is decided by the pending list alone *)
Theorem check_in_test_any_count : forall f n,
  match check_report f with
  | Some r => tstep_gen false {| t_f := f; t_n := n |} (TOp Check)
              = ({| t_f := f; t_n := n + 1 |}, Some (OCheckT n (n + 1) (Some r)), true)
  | None => tstep_gen false {| t_f := f; t_n := n |} (TOp Check)
              = ({| t_f := f; t_n := n |}, Some (OCheckT n n None), false)
  end.
Proof. intros f n. simpl. destruct (check_report f); reflexivity. Qed.

(* the history of the allocator as the test goes through it, and the items of the test without the phase marks *)
Theorem test_is_plain_history : forall pre su bo td,
  map strip (filter plain (run (STest pre su bo td))) = run_from st0 (ops_of (teff pre su bo td)).
Proof.
  intros. simpl run. unfold teff.
  destruct (trun_shape false pre su bo td) as (e1 & e2 & e3 & i1 & i2 & i3 & Hp & Hr & Hi & P1 & P2 & P3).
  rewrite Hp, Hr.
  rewrite filter_app. simpl. rewrite filter_app. simpl. rewrite filter_app. simpl. rewrite app_nil_r.
  rewrite !filter_plain_id by assumption. rewrite Hi, strip_titems. reflexivity.
Qed.

(* every check asked anywhere in a test -- setup, body, teardown, after any number of failures of any kind -- reports
   iff, by counting the history the test went through, a designation still waits *)
Theorem test_never_done_reported : forall pre su bo td,
  valid (STest pre su bo td) = true ->
  check_flags (map strip (filter plain (run (STest pre su bo td)))) = expected_checks 0 [] (ops_of (teff pre su bo td)) 0.
Proof.
  intros pre su bo td Hv. rewrite test_is_plain_history. apply never_done_reported.
  simpl in Hv. apply andb_prop in Hv. apply Hv.
Qed.

(* each report is exactly one more failure of the test, no report leaves the count alone *)
Definition count_exact (it : oitem) : Prop :=
  match it with
  | OCheckT b a None => a = b
  | OCheckT b a (Some _) => a = b + 1
  | OCheck _ => False
  | _ => True
  end.
Lemma tstep_item_exact t e i : snd (fst (tstep_gen false t e)) = Some i -> count_exact i.
Proof.
  destruct e as [o| |]; simpl; try discriminate.
  destruct o; simpl; try discriminate.
  - destruct (walk (s_cur (t_f t) + 1) l false (s_nodes (t_f t))); simpl. intros H; inversion H; subst. exact I.
  - destruct (check_report (t_f t)); simpl; intros H; inversion H; subst; simpl; reflexivity.
Qed.
Lemma titems_exact : forall evs t, Forall count_exact (titems false t evs).
Proof.
  induction evs as [|e r IH]; intros t; simpl; [constructor|].
  destruct (snd (fst (tstep_gen false t e))) as [i|] eqn:E; [constructor; [exact (tstep_item_exact _ _ _ E)|apply IH]|apply IH].
Qed.
Theorem test_report_counts_once : forall pre su bo td, Forall count_exact (run (STest pre su bo td)).
Proof.
  intros. simpl. unfold trun_gen. destruct (tparts false pre su bo td) as [[e1 e2] e3].
  repeat (apply Forall_app; split; try apply titems_exact; try (constructor; [exact I|])). constructor.
Qed.

(* ---- the failures recorded before do not matter: same events carried out, same reports *)
Lemma tstep_same t t' e : t_f t = t_f t' ->
  tleaves false t e = tleaves false t' e /\ t_f (tnext false t e) = t_f (tnext false t' e)
  /\ option_map strip (snd (fst (tstep_gen false t e))) = option_map strip (snd (fst (tstep_gen false t' e))).
Proof.
  intros H. unfold tleaves, tnext. destruct e as [o| |]; simpl; try (repeat split; assumption).
  destruct o; simpl; rewrite <- ?H; try (repeat split; reflexivity).
  - destruct (walk (s_cur (t_f t) + 1) l false (s_nodes (t_f t))); simpl. repeat split; reflexivity.
  - destruct (check_report (t_f t)); simpl; repeat split; assumption.
Qed.

Lemma texec_same : forall evs t t', t_f t = t_f t' -> texec false t evs = texec false t' evs.
Proof.
  induction evs as [|e r IH]; intros t t' H; simpl; [reflexivity|].
  destruct (tstep_same t t' e H) as (Hl & Hf & _). rewrite Hl.
  destruct (tleaves false t' e); [reflexivity|]. rewrite (IH _ _ Hf). reflexivity.
Qed.

Lemma tmrun_same : forall evs t t', t_f t = t_f t' -> t_f (tmrun false t evs) = t_f (tmrun false t' evs).
Proof.
  induction evs as [|e r IH]; intros t t' H; simpl; [exact H|].
  apply IH. apply (tstep_same t t' e H).
Qed.

Lemma titems_same : forall evs t t', t_f t = t_f t' -> map strip (titems false t evs) = map strip (titems false t' evs).
Proof. intros evs t t' H. rewrite !strip_titems, H. reflexivity. Qed.

Lemma tparts_same pre pre' su bo td : tparts false pre su bo td = tparts false pre' su bo td.
Proof.
  unfold tparts.
  assert (H0 : t_f (tst0 pre) = t_f (tst0 pre')) by reflexivity.
  rewrite (texec_same su _ _ H0). destruct (texec false (tst0 pre') su) as [k1 l1].
  assert (H1 := tmrun_same (firstn k1 su) _ _ H0).
  rewrite (texec_same bo _ _ H1).
  set (k2 := if l1 then 0%nat else fst (texec false (tmrun false (tst0 pre') (firstn k1 su)) bo)).
  assert (H2 := tmrun_same (firstn k2 bo) _ _ H1).
  rewrite (texec_same td _ _ H2). reflexivity.
Qed.

Theorem test_failures_before_irrelevant : forall pre pre' su bo td,
  teff pre su bo td = teff pre' su bo td /\
  map strip (run (STest pre su bo td)) = map strip (run (STest pre' su bo td)).
Proof.
  intros. split; [unfold teff; rewrite (tparts_same pre pre'); reflexivity|].
  simpl. unfold trun_gen. rewrite (tparts_same pre pre'). destruct (tparts false pre' su bo td) as [[e1 e2] e3].
  assert (H0 : t_f (tst0 pre) = t_f (tst0 pre')) by reflexivity.
  assert (H1 := tmrun_same e1 _ _ H0).
  assert (H2 := tmrun_same e2 _ _ H1).
  rewrite !map_app. simpl. rewrite !map_app. simpl. rewrite !map_app. simpl.
  rewrite (titems_same e1 _ _ H0), (titems_same e2 _ _ H1), (titems_same e3 _ _ H2). reflexivity.
Qed.

(* ---- the variant that keeps quiet once the test has failed is refuted *)
Definition witness_mute : scenario := STest 0 [] [TOp (FailG 1); TFail] [TOp Check].
Definition mute_meets_spec_stmt : Prop := forall s, valid s = true -> spec s (run_mute s) = true.
Theorem mute_refuted : ~ mute_meets_spec_stmt.
Proof. intros H. specialize (H witness_mute eq_refl). vm_compute in H. discriminate H. Qed.

(* ---- satisfiability *)
Definition la : loc := ([97; 46; 99]%N, 10%N).
Example ex_witness_mute :
  valid witness_mute = true
  /\ run witness_mute = [OPhase 0; OPhase 2; OCheckT 1 2 (Some (RepG 1)); OPhase 1]
  /\ run_mute witness_mute = [OPhase 0; OPhase 2; OCheckT 1 1 None; OPhase 1].
Proof. vm_compute. repeat split. Qed.
Definition ex_test : scenario :=
  STest 2 [TOp (FailAt 2 la); TOp (Alloc FMalloc la); TAdd]
          [TOp Check; TOp (Alloc FMalloc la)]
          [TOp Check; TOp Clear; TOp Check].
Example ex_test_run :
  valid ex_test = true
  /\ run ex_test = [OAlloc ROk; OPhase 3; OCheckT 3 4 (Some (RepL la)); OPhase 1; OCheckT 4 5 (Some (RepL la)); OPhase 1]
  /\ teff 2 [TOp (FailAt 2 la); TOp (Alloc FMalloc la); TAdd] [TOp Check; TOp (Alloc FMalloc la)] [TOp Check; TOp Clear; TOp Check]
     = [TOp (FailAt 2 la); TOp (Alloc FMalloc la); TAdd; TOp Check; TOp Check].
Proof. vm_compute. repeat split. Qed.
Example ex_check_any_count : check_report {| s_nodes := [new_node 7 None]; s_cur := 0 |} = Some (RepG 7). Proof. reflexivity. Qed.
