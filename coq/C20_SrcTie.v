From Coq Require Import ZArith NArith Bool List Lia. From CppUVerif Require Import lib.CSem lib.CMem lib.CMemFacts lib.CEmit gen.Gen_LoopC20 C20_Model. Import ListNotations. Local Open Scope Z_scope.
(* C20: TeamCityTestOutput::printEscaped as translated by tools/cxx2gal.py from /repo's TeamCityTestOutput.cpp on every run
   (gen/Gen_LoopC20.v: the loop is a Fixpoint on fuel over the byte memory of lib/CMem.v, the local array `char str[3]` is a
   fresh block appended to the memory at every iteration, printBuffer(str) appends the C string at str to the ghost output
   through lib/CEmit.v's emit) hands to the output exactly the model's tc_escape (C20_Model.v) of the C string at its
   argument; it reads and writes inside blocks only, the blocks that existed before the call are unchanged, and a fuel
   linear in the length of the string suffices.  A change to printEscaped changes Gen_LoopC20.v and these lemmas are
   re-checked against it. *)

(* ------------------------------------------------------------------ a memory that grew by appended blocks *)
Lemma block_app_old (m e : memory) b : (b < length m)%nat -> block (m ++ e) b = block m b.
Proof. intro H. unfold block. apply app_nth1. exact H. Qed.

Lemma block_app_new (m : memory) blk : block (m ++ [blk]) (length m) = blk.
Proof. unfold block. rewrite app_nth2 by lia. rewrite Nat.sub_diag. reflexivity. Qed.

Lemma view_app_old (m e : memory) b o : (b < length m)%nat -> view (m ++ e) (Ptr b o) = view m (Ptr b o).
Proof. intro H. cbn [view]. rewrite (block_app_old m e b H). reflexivity. Qed.

Lemma load_app_old (m e : memory) b o : (b < length m)%nat -> load (m ++ e) (Ptr b o) = load m (Ptr b o).
Proof. intro H. cbn [load]. rewrite (block_app_old m e b H). reflexivity. Qed.

Lemma padd_app_old (m e : memory) b o k : (b < length m)%nat -> padd (m ++ e) (Ptr b o) k = padd m (Ptr b o) k.
Proof. intro H. cbn [padd]. rewrite (block_app_old m e b H). reflexivity. Qed.

Lemma mem_ok_app (m e : memory) : mem_ok m -> mem_ok e -> mem_ok (m ++ e).
Proof. intros Hm He. unfold mem_ok. apply Forall_app. split; assumption. Qed.

(* ------------------------------------------------------------------ the scratch block: the last block, three cells *)
Lemma padd_str (m : memory) x y z k : 0 <= k <= 3 ->
  padd (m ++ [[x; y; z]]) (Ptr (length m) 0) k = Some (Ptr (length m) k).
Proof.
  intro H. unfold padd. rewrite block_app_new. rewrite Z.add_0_l. cbn [length].
  replace (0 <=? k) with true by (symmetry; apply Z.leb_le; lia).
  replace (k <=? Z.of_nat 3) with true by (symmetry; apply Z.leb_le; lia). reflexivity.
Qed.

Lemma store_new (m : memory) blk k v : (k < length blk)%nat ->
  store (m ++ [blk]) (Ptr (length m) (Z.of_nat k)) v = Some (m ++ [upd blk k v]).
Proof.
  intro H. rewrite store_nat. rewrite block_app_new.
  replace (Nat.ltb k (length blk)) with true by (symmetry; apply Nat.ltb_lt; exact H).
  replace (Nat.ltb (length m) (length (m ++ [blk]))) with true
    by (symmetry; apply Nat.ltb_lt; rewrite app_length; cbn [length]; lia).
  cbn [andb]. rewrite upd_app_mid. reflexivity.
Qed.

Lemma store_str0 (m : memory) x y z v : store (m ++ [[x; y; z]]) (Ptr (length m) 0) v = Some (m ++ [[v; y; z]]).
Proof. apply (store_new m [x; y; z] 0 v). cbn [length]. lia. Qed.
Lemma store_str1 (m : memory) x y z v : store (m ++ [[x; y; z]]) (Ptr (length m) 1) v = Some (m ++ [[x; v; z]]).
Proof. apply (store_new m [x; y; z] 1 v). cbn [length]. lia. Qed.
Lemma store_str2 (m : memory) x y z v : store (m ++ [[x; y; z]]) (Ptr (length m) 2) v = Some (m ++ [[x; y; v]]).
Proof. apply (store_new m [x; y; z] 2 v). cbn [length]. lia. Qed.

Lemma emit_str (m : memory) blk out : emit (m ++ [blk]) (Ptr (length m) 0) out = option_map (app out) (CEmit.cstring blk).
Proof. unfold emit, view. rewrite block_app_new. reflexivity. Qed.

Lemma bytes3 x y z : (x < 256)%N -> (y < 256)%N -> (z < 256)%N -> bytes_ok [x; y; z].
Proof. intros Hx Hy Hz. repeat constructor; assumption. Qed.

(* the signed char *s against a character constant below 128 *)
Lemma schar_eqc c k : (c < 256)%N -> (k < 128)%N -> z2b (c_eq (schar c) (Z.of_N k)) = (c =? k)%N.
Proof.
  intros Hc Hk. unfold c_eq. rewrite b2z_z2b. rewrite <- (schar_small k Hk). apply schar_inj; [exact Hc | lia].
Qed.

(* ------------------------------------------------------------------ the loop *)
Ltac scratch Hb Hl Hc :=
  repeat (first [ rewrite padd_str by lia | rewrite store_str0 | rewrite store_str1 | rewrite store_str2
                | rewrite (load_app_old _ _ _ _ Hb), Hl | rewrite (byte_of_schar _ Hc) ]; cbv beta iota).

Lemma printEscaped_loop : forall s fuel0 fuel m out b o r, mem_ok m -> view m (Ptr b o) = s ++ 0%N :: r ->
  Forall (fun c => c <> 0%N) s -> (b < length m)%nat -> (length s < fuel)%nat ->
  exists extra, src_printEscaped_loop1 fuel0 fuel m out (Ptr b o) =
                  Go (m ++ extra, out ++ tc_escape s, Ptr b (o + Z.of_nat (length s))) /\ mem_ok (m ++ extra).
Proof.
  induction s as [|c s IH]; intros fuel0 fuel m out b o r Hm Hv Hnz Hb Hf.
  - destruct fuel as [|fuel]; [cbn in Hf; lia|]. cbn [app] in Hv. cbn [src_printEscaped_loop1].
    rewrite (view_cons_load _ _ _ _ _ Hv). replace (z2b (c_ne (schar 0%N) 0)) with false by reflexivity.
    cbv beta iota. exists []. unfold tc_escape. cbn [flat_map length Z.of_nat]. rewrite !app_nil_r, Z.add_0_r.
    split; [reflexivity | exact Hm].
  - destruct fuel as [|fuel]; [cbn in Hf; lia|]. cbn [app] in Hv. cbn [length] in Hf.
    pose proof (view_ok m (Ptr b o) Hm) as Hok. rewrite Hv in Hok.
    pose proof (Forall_inv Hok) as Hc. cbn beta in Hc.
    pose proof (Forall_inv Hnz) as Hc0. cbn beta in Hc0. pose proof (Forall_inv_tail Hnz) as Hnz'.
    destruct (view_padd1 _ _ _ _ _ Hv) as [Hp Hv'].
    pose proof (view_cons_load _ _ _ _ _ Hv) as Hl.
    (* what follows the if-chain, for every content of the scratch block *)
    assert (Tail : forall blk, bytes_ok blk -> CEmit.cstring blk = Some (tc_esc c) ->
      exists extra,
        match emit (m ++ [blk]) (Ptr (length m) 0) out with
        | None => CMem.Oob
        | Some out0 =>
            match padd (m ++ [blk]) (Ptr b o) 1 with
            | None => CMem.Oob
            | Some s0 => src_printEscaped_loop1 fuel0 fuel (m ++ [blk]) out0 s0
            end
        end = Go (m ++ extra, out ++ tc_escape (c :: s), Ptr b (o + Z.of_nat (length (c :: s)))) /\ mem_ok (m ++ extra)).
    { intros blk Hblk Hcs. rewrite emit_str, Hcs. cbn [option_map]. rewrite (padd_app_old _ _ _ _ _ Hb), Hp.
      assert (Hm' : mem_ok (m ++ [blk])) by (apply mem_ok_app; [exact Hm | constructor; [exact Hblk | constructor]]).
      assert (Hb' : (b < length (m ++ [blk]))%nat) by (rewrite app_length; lia).
      destruct (IH fuel0 fuel (m ++ [blk]) (out ++ tc_esc c) b (o + 1) r Hm') as [extra [He Hok']];
        [rewrite (view_app_old _ _ _ _ Hb); exact Hv' | exact Hnz' | exact Hb' | lia |].
      exists ([blk] ++ extra). rewrite He. rewrite <- !app_assoc in *. split; [|exact Hok'].
      unfold tc_escape. cbn [flat_map length]. replace (o + Z.of_nat (S (length s))) with (o + 1 + Z.of_nat (length s)) by lia. reflexivity. }
    assert (E39 : z2b (c_eq (schar c) 39) = (c =? 39)%N) by (apply (schar_eqc c 39%N Hc); reflexivity).
    assert (E124 : z2b (c_eq (schar c) 124) = (c =? 124)%N) by (apply (schar_eqc c 124%N Hc); reflexivity).
    assert (E91 : z2b (c_eq (schar c) 91) = (c =? 91)%N) by (apply (schar_eqc c 91%N Hc); reflexivity).
    assert (E93 : z2b (c_eq (schar c) 93) = (c =? 93)%N) by (apply (schar_eqc c 93%N Hc); reflexivity).
    assert (E13 : z2b (c_eq (schar c) 13) = (c =? 13)%N) by (apply (schar_eqc c 13%N Hc); reflexivity).
    assert (E10 : z2b (c_eq (schar c) 10) = (c =? 10)%N) by (apply (schar_eqc c 10%N Hc); reflexivity).
    assert (Q : ~ In 0%N [124%N; c]) by (intros [H|[H|[]]]; [discriminate H | exact (Hc0 H)]).
    assert (Q1 : ~ In 0%N [c]) by (intros [H|[]]; exact (Hc0 H)).
    cbn [src_printEscaped_loop1 repeat]. rewrite Hl.
    replace (z2b (c_ne (schar c) 0)) with true
      by (unfold c_ne; rewrite b2z_z2b, (schar_zero c Hc); destruct (N.eqb_spec c 0); [contradiction | reflexivity]).
    cbv beta iota.
    change (byte_of 124) with 124%N. change (byte_of 114) with 114%N. change (byte_of 110) with 110%N.
    change (byte_of 0) with 0%N.
    rewrite ?(load_app_old _ _ _ _ Hb), ?Hl. cbv beta iota. rewrite E39.
    destruct (N.eqb_spec c 39) as [E|N39].
    { scratch Hb Hl Hc. apply Tail; [apply bytes3; [reflexivity | exact Hc | reflexivity]|].
      replace (tc_esc c) with [124%N; c] by (rewrite E; reflexivity). exact (CEmit.cstring_app [124%N; c] [] Q). }
    rewrite ?(load_app_old _ _ _ _ Hb), ?Hl. cbv beta iota. rewrite E124.
    destruct (N.eqb_spec c 124) as [E|N124].
    { scratch Hb Hl Hc. apply Tail; [apply bytes3; [reflexivity | exact Hc | reflexivity]|].
      replace (tc_esc c) with [124%N; c] by (rewrite E; reflexivity). exact (CEmit.cstring_app [124%N; c] [] Q). }
    rewrite ?(load_app_old _ _ _ _ Hb), ?Hl. cbv beta iota. rewrite E91.
    destruct (N.eqb_spec c 91) as [E|N91].
    { scratch Hb Hl Hc. apply Tail; [apply bytes3; [reflexivity | exact Hc | reflexivity]|].
      replace (tc_esc c) with [124%N; c] by (rewrite E; reflexivity). exact (CEmit.cstring_app [124%N; c] [] Q). }
    rewrite ?(load_app_old _ _ _ _ Hb), ?Hl. cbv beta iota. rewrite E93.
    destruct (N.eqb_spec c 93) as [E|N93].
    { scratch Hb Hl Hc. apply Tail; [apply bytes3; [reflexivity | exact Hc | reflexivity]|].
      replace (tc_esc c) with [124%N; c] by (rewrite E; reflexivity). exact (CEmit.cstring_app [124%N; c] [] Q). }
    rewrite ?(load_app_old _ _ _ _ Hb), ?Hl. cbv beta iota. rewrite E13.
    destruct (N.eqb_spec c 13) as [E|N13].
    { scratch Hb Hl Hc. apply Tail; [apply bytes3; reflexivity|]. rewrite E. reflexivity. }
    rewrite ?(load_app_old _ _ _ _ Hb), ?Hl. cbv beta iota. rewrite E10.
    destruct (N.eqb_spec c 10) as [E|N10].
    { scratch Hb Hl Hc. apply Tail; [apply bytes3; reflexivity|]. rewrite E. reflexivity. }
    scratch Hb Hl Hc. apply Tail; [apply bytes3; [exact Hc | reflexivity | reflexivity]|].
    replace (tc_esc c) with [c].
    + exact (CEmit.cstring_app [c] [0%N] Q1).
    + unfold tc_esc. apply N.eqb_neq in N39, N124, N91, N93, N13, N10.
      rewrite N39, N124, N91, N93, N13, N10. reflexivity.
Qed.

(* ------------------------------------------------------------------ the function *)
(* length s + 1 units of fuel are enough (one per byte, one for the test that finds the NUL) *)
Theorem src_printEscaped_spec_tight : forall fuel m out b o s r, mem_ok m -> view m (Ptr b o) = s ++ 0%N :: r ->
  Forall (fun c => c <> 0%N) s -> (b < length m)%nat -> (length s < fuel)%nat ->
  exists m', src_printEscaped fuel m out (Ptr b o) = FOk (tt, m', out ++ tc_escape s) /\
             (exists extra, m' = m ++ extra) /\ mem_ok m'.
Proof.
  intros fuel m out b o s r Hm Hv Hnz Hb Hf.
  destruct (printEscaped_loop s fuel fuel m out b o r Hm Hv Hnz Hb Hf) as [extra [He Hok]].
  exists (m ++ extra). unfold src_printEscaped. rewrite He. cbn [finish].
  split; [reflexivity|]. split; [exists extra; reflexivity | exact Hok].
Qed.

Theorem src_printEscaped_spec : forall fuel m out b o s r, mem_ok m -> view m (Ptr b o) = s ++ 0%N :: r ->
  Forall (fun c => c <> 0%N) s -> (b < length m)%nat -> (length (s ++ 0%N :: r) < fuel)%nat ->
  exists m', src_printEscaped fuel m out (Ptr b o) = FOk (tt, m', out ++ tc_escape s) /\
             (exists extra, m' = m ++ extra) /\ mem_ok m'.
Proof.
  intros fuel m out b o s r Hm Hv Hnz Hb Hf. apply (src_printEscaped_spec_tight fuel m out b o s r Hm Hv Hnz Hb).
  rewrite app_length in Hf. cbn [length] in Hf. lia.
Qed.

(* ------------------------------------------------------------------ non-vacuity: the translated function on a concrete memory *)
(* block 1 holds, from offset 1: A ' | [ ] CR LF 200 255 B NUL, then two more cells *)
Definition ex_mem : memory := [[1; 2]; [7; 65; 39; 124; 91; 93; 13; 10; 200; 255; 66; 0; 9; 0]]%N.
Definition ex_str : list N := [65; 39; 124; 91; 93; 13; 10; 200; 255; 66]%N.

Example ex_printEscaped :
  src_printEscaped 11 ex_mem [88%N] (Ptr 1 1) =
    FOk (tt,
         ex_mem ++ [[65; 0; 0]; [124; 39; 0]; [124; 124; 0]; [124; 91; 0]; [124; 93; 0]; [124; 114; 0]; [124; 110; 0];
                    [200; 0; 0]; [255; 0; 0]; [66; 0; 0]]%N,
         [88; 65; 124; 39; 124; 124; 124; 91; 124; 93; 124; 114; 124; 110; 200; 255; 66]%N).
Proof. vm_compute. reflexivity. Qed.

Example ex_printEscaped_model :
  src_printEscaped 11 ex_mem [88%N] (Ptr 1 1) =
    FOk (tt, ex_mem ++ map (fun c => match tc_esc c with [x] => [x; 0; 0] | l => l ++ [0] end)%N ex_str, [88%N] ++ tc_escape ex_str).
Proof. vm_compute. reflexivity. Qed.

(* the hypotheses of the theorem hold of this memory *)
Example ex_hyps : mem_ok ex_mem /\ view ex_mem (Ptr 1 1) = ex_str ++ 0%N :: [9; 0]%N /\ Forall (fun c => c <> 0%N) ex_str.
Proof.
  split; [|split; [reflexivity|]].
  - repeat constructor.
  - repeat (constructor; [discriminate|]). constructor.
Qed.

(* one unit of fuel less is not enough; the empty string; a string without terminator runs off its block *)
Example ex_printEscaped_nofuel : src_printEscaped 10 ex_mem [88%N] (Ptr 1 1) = FNoFuel.
Proof. vm_compute. reflexivity. Qed.
Example ex_printEscaped_empty : src_printEscaped 1 ex_mem [88%N] (Ptr 1 11) = FOk (tt, ex_mem, [88%N]).
Proof. vm_compute. reflexivity. Qed.
Example ex_printEscaped_oob : src_printEscaped 20 [[65; 66]]%N [] (Ptr 0 0) = FOob.
Proof. vm_compute. reflexivity. Qed.
