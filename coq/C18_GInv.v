(* C18 -- the installed cache: the invariant of a stack of caches.
   Every cache level is tied to the level below by what it holds of it: the (id, kind) of every header and buffer in its
   lists is exactly what the level below has handed out and not got back, next to the buffers that are in use on that
   level's own account.  kind = the size class the level below serves the pointer from (None = its non-cached list). *)
From Coq Require Import NArith Arith Bool List Lia Permutation.
From CppUVerif Require Import gen.Gen_C18 C18_Model C18_Lists C18_Inv C18_Sim C18_ModelG.
Import ListNotations.
Local Open Scope N_scope.

Definition kent : Type := N * option N.
Definition hkind : option N := cls block_hdr_size.

Definition used_loc (nd : node) : list kent := map (fun b => (b_mem b, Some (n_size nd))) (n_used nd).
Definition non_loc (l : list block) : list kent := map (fun b => (b_mem b, @None N)) l.
Definition out_loc (st : state) : list kent := flat_map used_loc (s_cache st) ++ non_loc (s_non st).
Definition blk_loc (k : option N) (b : block) : list kent := [(b_hdr b, hkind); (b_mem b, k)].
Definition blks_loc (k : option N) (l : list block) : list kent := flat_map (blk_loc k) l.
Definition node_loc (nd : node) : list kent := blks_loc (Some (n_size nd)) (n_free nd) ++ blks_loc (Some (n_size nd)) (n_used nd).
Definition ids_loc (st : state) : list kent := flat_map node_loc (s_cache st) ++ blks_loc None (s_non st).

Definition lvk (live : list lentry) (ser : N) : list kent :=
  map (fun e => (le_id e, cls (le_req e))) (filter (owned_by ser) live).

Definition all_blocks_of (st : state) : list block := flat_map (fun nd => n_free nd ++ n_used nd) (s_cache st) ++ s_non st.

Definition sizes_ok (sizes : list N) (bottom : bool) (st : state) : Prop :=
  (forall nd b, In nd (s_cache st) -> In b (n_free nd ++ n_used nd) -> szof sizes (b_mem b) = Some (n_size nd)) /\
  (forall b, In b (s_non st) -> exists a, cached_bound < a /\ szof sizes (b_mem b) = Some a) /\
  (bottom = true -> forall b, In b (all_blocks_of st) -> szof sizes (b_hdr b) = Some block_hdr_size).

Definition is_nil {A : Type} (l : list A) : bool := match l with [] => true | _ :: _ => false end.

Fixpoint OK (stk : list gc) (up : list kent) (live : list lentry) (bk : books) (base : N) : Prop :=
  match stk with
  | [] => (forall id k, In (id, k) up -> base <= id /\ id < N.of_nat (length (fst bk)) /\ ~ In id (snd bk))
          /\ (forall id, base <= id -> id < N.of_nat (length (fst bk)) -> In id (snd bk) \/ In id (map fst up))
          /\ NoDup (map fst up)
          /\ (forall id, In id (snd bk) -> id < N.of_nat (length (fst bk)))
          /\ (forall e, In e live -> le_own e = 0 -> le_id e < base /\ ~ In (le_id e) (snd bk))
  | c :: rest =>
      map n_size (s_cache (g_st c)) = class_sizes
      /\ sizes_ok (fst bk) (is_nil rest) (g_st c)
      /\ Permutation (out_loc (g_st c)) (up ++ lvk live (g_ser c))
      /\ OK rest (ids_loc (g_st c)) live bk base
  end.

(* ---------------------------------------------------------------- the generated table *)
Lemma class_fix : forallb (fun s => optN_eqb (cls s) (Some s)) class_sizes = true.
Proof. reflexivity. Qed.
Lemma cls_class : forall s, In s class_sizes -> cls s = Some s.
Proof.
  intros s H. pose proof class_fix as F. rewrite forallb_forall in F. apply optN_eqb_eq. apply F. exact H.
Qed.
Lemma classes_small : forallb (fun s => s <=? cached_bound) class_sizes = true.
Proof. reflexivity. Qed.
Lemma class_le_bound : forall s, In s class_sizes -> s <= cached_bound.
Proof. intros s H. pose proof classes_small as F. rewrite forallb_forall in F. apply N.leb_le. apply F. exact H. Qed.
Lemma cls_in_classes : forall n s, cls n = Some s -> In s class_sizes.
Proof.
  intros n s H. unfold cls in H. destruct (n <=? cached_bound); [|discriminate]. apply find_some in H. tauto.
Qed.
Lemma hkind_some : exists s, hkind = Some s.
Proof. unfold hkind. destruct (cls block_hdr_size) eqn:E; [eauto|]. vm_compute in E. discriminate. Qed.
Lemma cls_above : forall n, cached_bound < n -> cls n = None.
Proof. intros n H. unfold cls. replace (n <=? cached_bound) with false; [reflexivity|]. symmetry. apply N.leb_gt. exact H. Qed.
Lemma cls_none_above : forall n, cls n = None -> cached_bound < n.
Proof.
  intros n H. unfold cls in H. destruct (n <=? cached_bound) eqn:E; [|apply N.leb_gt; exact E].
  exfalso. apply N.leb_le in E. pose proof bound_has_class as B. apply existsb_exists in B. destruct B as [s [B1 B2]].
  apply N.leb_le in B2. assert (F : (fun s0 => n <=? s0) s = true) by (apply N.leb_le; lia).
  destruct (find (fun s0 => n <=? s0) class_sizes) eqn:G; [discriminate|].
  eapply find_none in G; [|exact B1]. simpl in *. congruence.
Qed.
Lemma is_cached_cls : forall n, is_cached n = true <-> exists s, cls n = Some s.
Proof.
  intros n. split.
  - intros H. destruct (cls n) eqn:E; [eauto|]. apply cls_none_above in E. unfold is_cached in H. apply N.leb_le in H. lia.
  - intros [s H]. apply cls_some_cached in H. unfold is_cached. apply N.leb_le. tauto.
Qed.

(* ---------------------------------------------------------------- permutations of located lists *)
Lemma OK_perm : forall stk up up' live bk base, Permutation up up' -> OK stk up live bk base -> OK stk up' live bk base.
Proof.
  intros [|c rest] up up' live bk base P H; simpl in *.
  - destruct H as [H1 [H2 [H3 H5]]]. split; [|split; [|split; [|exact H5]]].
    + intros id k Hi. apply H1 with k. eapply Permutation_in; [apply Permutation_sym; exact P | exact Hi].
    + intros id Ha Hb. destruct (H2 id Ha Hb) as [G|G]; [left; exact G | right].
      eapply Permutation_in; [apply Permutation_map; exact P | exact G].
    + eapply Permutation_NoDup; [apply Permutation_map; exact P | exact H3].
  - destruct H as [H1 [H2 [H3 H4]]]. split; [exact H1|]. split; [exact H2|]. split; [|exact H4].
    eapply perm_trans; [exact H3|]. apply Permutation_app_tail. exact P.
Qed.

Lemma in_used_loc : forall nd id k, In (id, k) (used_loc nd) <-> k = Some (n_size nd) /\ In id (mems (n_used nd)).
Proof.
  intros nd id k. unfold used_loc, mems. rewrite !in_map_iff. split.
  - intros [b [E H]]. inversion E; subst. split; [reflexivity|]. exists b. auto.
  - intros [-> [b [E H]]]. exists b. subst. auto.
Qed.
Lemma in_out_loc : forall st id k, In (id, k) (out_loc st) <->
  (exists nd, In nd (s_cache st) /\ k = Some (n_size nd) /\ In id (mems (n_used nd))) \/ (k = None /\ In id (mems (s_non st))).
Proof.
  intros st id k. unfold out_loc. rewrite in_app_iff, in_flat_map. split.
  - intros [[nd [H1 H2]]|H].
    + left. exists nd. apply in_used_loc in H2. tauto.
    + right. unfold non_loc, mems in *. apply in_map_iff in H. destruct H as [b [E H]]. inversion E; subst.
      split; [reflexivity|]. apply in_map. exact H.
  - intros [[nd [H1 [H2 H3]]]|[H1 H2]].
    + left. exists nd. split; [exact H1|]. apply in_used_loc. auto.
    + right. subst. unfold non_loc, mems in *. apply in_map_iff in H2. destruct H2 as [b [E H]]. apply in_map_iff. exists b. subst. auto.
Qed.

Lemma in_blks_loc : forall k l id k', In (id, k') (blks_loc k l) <-> exists b, In b l /\ ((id = b_hdr b /\ k' = hkind) \/ (id = b_mem b /\ k' = k)).
Proof.
  intros k l id k'. unfold blks_loc. rewrite in_flat_map. split.
  - intros [b [H1 H2]]. exists b. split; [exact H1|]. simpl in H2. destruct H2 as [E|[E|[]]]; inversion E; subst; auto.
  - intros [b [H1 [[-> ->]|[-> ->]]]]; exists b; split; auto; simpl; auto.
Qed.
Lemma blks_loc_app : forall k a b, blks_loc k (a ++ b) = blks_loc k a ++ blks_loc k b.
Proof. intros. unfold blks_loc. apply flat_map_app. Qed.
Lemma node_loc_eq : forall nd, node_loc nd = blks_loc (Some (n_size nd)) (n_free nd ++ n_used nd).
Proof. intros. unfold node_loc. rewrite blks_loc_app. reflexivity. Qed.

Lemma in_ids_loc : forall st id k, In (id, k) (ids_loc st) <->
  (exists nd b, In nd (s_cache st) /\ In b (n_free nd ++ n_used nd) /\ ((id = b_hdr b /\ k = hkind) \/ (id = b_mem b /\ k = Some (n_size nd)))) \/
  (exists b, In b (s_non st) /\ ((id = b_hdr b /\ k = hkind) \/ (id = b_mem b /\ k = None))).
Proof.
  intros st id k. unfold ids_loc. rewrite in_app_iff, in_flat_map, in_blks_loc. split.
  - intros [[nd [H1 H2]]|H]; [left|right; exact H]. rewrite node_loc_eq, in_blks_loc in H2.
    destruct H2 as [b [H2 H3]]. exists nd, b. auto.
  - intros [[nd [b [H1 [H2 H3]]]]|H]; [left|right; exact H]. exists nd. split; [exact H1|].
    rewrite node_loc_eq, in_blks_loc. exists b. auto.
Qed.

(* what a level has handed out is among what it holds *)
Lemma out_in_ids : forall st id k, In (id, k) (out_loc st) -> In (id, k) (ids_loc st).
Proof.
  intros st id k H. apply in_out_loc in H. apply in_ids_loc. destruct H as [[nd [H1 [H2 H3]]]|[H1 H2]].
  - apply in_mems in H3. destruct H3 as [b [H3 H4]]. left. exists nd, b. split; [exact H1|]. split; [apply in_app_iff; auto|]. right. auto.
  - apply in_mems in H2. destruct H2 as [b [H3 H4]]. right. exists b. split; [exact H3|]. right. auto.
Qed.

Lemma NoDup_map_fst_perm : forall (l l' : list kent), Permutation l l' -> NoDup (map fst l) -> NoDup (map fst l').
Proof. intros l l' P H. eapply Permutation_NoDup; [apply Permutation_map; exact P | exact H]. Qed.

(* ---------------------------------------------------------------- consequences of the invariant *)
Lemma NoDup_app_l : forall (A : Type) (a b : list A), NoDup (a ++ b) -> NoDup a.
Proof. induction a as [|x r IH]; intros b H; [constructor|]. simpl in H. inversion H; subst. constructor; [rewrite in_app_iff in *; tauto | eapply IH; eauto]. Qed.
Lemma NoDup_app_r : forall (A : Type) (a b : list A), NoDup (a ++ b) -> NoDup b.
Proof. induction a as [|x r IH]; intros b H; [exact H|]. simpl in H. inversion H; subst. eapply IH; eauto. Qed.
Lemma NoDup_app_disj : forall (A : Type) (a b : list A) x, NoDup (a ++ b) -> In x a -> In x b -> False.
Proof.
  induction a as [|y r IH]; intros b x H Ha Hb; [destruct Ha|]. simpl in H. inversion H; subst.
  destruct Ha as [<-|Ha]; [apply H2; apply in_app_iff; auto | eapply IH; eauto].
Qed.
Lemma map_fst_used_loc : forall nd, map fst (used_loc nd) = map b_mem (n_used nd).
Proof. intros. unfold used_loc. rewrite map_map. apply map_ext. reflexivity. Qed.
Lemma map_fst_non_loc : forall l, map fst (non_loc l) = map b_mem l.
Proof. intros. unfold non_loc. rewrite map_map. apply map_ext. reflexivity. Qed.
Lemma blks_perm_mems : forall k l, exists l2, Permutation (map fst (blks_loc k l)) (map b_mem l ++ l2).
Proof.
  intros k l. induction l as [|b r [l2 IHl]]; [exists []; constructor|].
  exists (b_hdr b :: l2). simpl. eapply perm_trans; [apply perm_swap|].
  constructor. eapply perm_trans; [|apply Permutation_middle]. constructor. exact IHl.
Qed.
Lemma nodes_perm_used : forall c, exists l2, Permutation (map fst (flat_map node_loc c)) (map fst (flat_map used_loc c) ++ l2).
Proof.
  induction c as [|nd r [l2 IHc]]; [exists []; constructor|].
  simpl. rewrite !map_app. unfold node_loc. rewrite map_app.
  destruct (blks_perm_mems (Some (n_size nd)) (n_used nd)) as [l3 P3].
  exists (map fst (blks_loc (Some (n_size nd)) (n_free nd)) ++ l3 ++ l2).
  rewrite map_fst_used_loc.
  rewrite <- !app_assoc.
  eapply perm_trans; [apply Permutation_app_swap_app|].
  eapply perm_trans; [apply Permutation_app; [exact P3 | apply Permutation_app; [apply Permutation_refl | exact IHc]]|].
  rewrite <- !app_assoc. apply Permutation_app_head.
  eapply perm_trans; [apply Permutation_app_swap_app|].
  eapply perm_trans; [|apply Permutation_app_swap_app]. apply Permutation_app_head.
  eapply perm_trans; [apply Permutation_app_swap_app|]. apply Permutation_refl.
Qed.
Lemma ids_perm_out : forall st, exists l2, Permutation (map fst (ids_loc st)) (map fst (out_loc st) ++ l2).
Proof.
  intros st. unfold ids_loc, out_loc. rewrite !map_app.
  destruct (nodes_perm_used (s_cache st)) as [l2 P2]. destruct (blks_perm_mems None (s_non st)) as [l3 P3].
  exists (l2 ++ l3).
  rewrite map_fst_non_loc.
  eapply perm_trans; [apply Permutation_app; [exact P2 | exact P3]|]. rewrite <- !app_assoc. apply Permutation_app_head.
  apply Permutation_app_swap_app.
Qed.
Lemma nodup_ids_out : forall st, NoDup (map fst (ids_loc st)) -> NoDup (map fst (out_loc st)).
Proof.
  intros st H. destruct (ids_perm_out st) as [l2 P]. eapply Permutation_NoDup in H; [|exact P]. apply NoDup_app_l in H. exact H.
Qed.

Definition top_lvk (stk : list gc) (live : list lentry) : list kent := match stk with [] => [] | c :: _ => lvk live (g_ser c) end.
Lemma OK_nodup_up : forall stk up live bk base, OK stk up live bk base -> NoDup (map fst (up ++ top_lvk stk live)).
Proof.
  induction stk as [|c rest IH]; intros up live bk base H.
  - simpl. rewrite app_nil_r. simpl in H. tauto.
  - simpl in H. destruct H as [H1 [H2 [H3 H4]]]. apply IH in H4.
    rewrite map_app in H4. apply NoDup_app_l in H4. apply nodup_ids_out in H4.
    eapply NoDup_map_fst_perm; [exact H3 | exact H4].
Qed.

Lemma OK_up_facts : forall stk up live bk base id k, OK stk up live bk base -> In (id, k) up ->
  base <= id /\ id < N.of_nat (length (fst bk)) /\ ~ In id (snd bk).
Proof.
  induction stk as [|c rest IH]; intros up live bk base id k H Hi.
  - simpl in H. destruct H as [H1 _]. eapply H1; eauto.
  - simpl in H. destruct H as [H1 [H2 [H3 H4]]]. eapply IH; [exact H4|]. apply out_in_ids.
    eapply Permutation_in; [apply Permutation_sym; exact H3|]. apply in_app_iff. left. exact Hi.
Qed.
Lemma OK_top_facts : forall c rest up live bk base id k, OK (c :: rest) up live bk base -> In (id, k) (up ++ lvk live (g_ser c)) ->
  base <= id /\ id < N.of_nat (length (fst bk)) /\ ~ In id (snd bk) /\
  match k with Some s => szof (fst bk) id = Some s /\ In s class_sizes | None => exists a, cached_bound < a /\ szof (fst bk) id = Some a end.
Proof.
  intros c rest up live bk base id k H Hi. simpl in H. destruct H as [H1 [H2 [H3 H4]]].
  assert (Ho : In (id, k) (out_loc (g_st c))) by (eapply Permutation_in; [apply Permutation_sym; exact H3 | exact Hi]).
  destruct (OK_up_facts _ _ _ _ _ id k H4 (out_in_ids _ _ _ Ho)) as [A [B C]].
  split; [exact A|]. split; [exact B|]. split; [exact C|].
  destruct H2 as [S1 [S2 _]]. apply in_out_loc in Ho. destruct Ho as [[nd [G1 [G2 G3]]]|[G1 G2]].
  - subst k. apply in_mems in G3. destruct G3 as [b [G3 G4]]. subst id. split.
    + apply S1; [exact G1 | apply in_app_iff; auto].
    + rewrite <- H1. apply in_map. exact G1.
  - subst k. apply in_mems in G2. destruct G2 as [b [G3 G4]]. subst id. apply S2. exact G3.
Qed.

Lemma sizes_ok_ext : forall sizes x b st, sizes_ok sizes b st -> sizes_ok (sizes ++ x) b st.
Proof.
  intros sizes x b st [H1 [H2 H3]]. split; [|split].
  - intros nd bl Hn Hb. apply szof_app_old. apply H1; auto.
  - intros bl Hb. destruct (H2 bl Hb) as [a [Ha Hs]]. exists a. split; [exact Ha | apply szof_app_old; exact Hs].
  - intros Hb bl Hi. apply szof_app_old. apply H3; auto.
Qed.

(* only the buffers in use on the account of the objects of the stack matter *)
Lemma OK_live_ext : forall stk up live live' bk base,
  (forall c, In c stk -> Permutation (lvk live (g_ser c)) (lvk live' (g_ser c))) ->
  (forall e, In e live' -> le_own e = 0 -> In e live) ->
  OK stk up live bk base -> OK stk up live' bk base.
Proof.
  induction stk as [|c rest IH]; intros up live live' bk base Hp Hd H.
  { simpl in *. destruct H as [H1 [H2 [H3 [H4 H5]]]]. split; [exact H1|]. split; [exact H2|]. split; [exact H3|]. split; [exact H4|].
    intros e He Ho. apply H5; [apply Hd; assumption | exact Ho]. }
  simpl in *. destruct H as [H1 [H2 [H3 H4]]]. split; [exact H1|]. split; [exact H2|]. split.
  - eapply perm_trans; [exact H3|]. apply Permutation_app_head. apply Hp. left. reflexivity.
  - eapply IH; [|exact Hd|exact H4]. intros c' Hc. apply Hp. right. exact Hc.
Qed.

(* ---------------------------------------------------------------- one node replaced *)
Lemma flat_map_mid_perm : forall (A B : Type) (f : A -> list B) l1 a a' l2 X T,
  Permutation (f a') (X ++ f a) ->
  Permutation (flat_map f (l1 ++ a' :: l2) ++ T) (X ++ flat_map f (l1 ++ a :: l2) ++ T).
Proof.
  intros A B f l1 a a' l2 X T P. rewrite !flat_map_app. simpl. rewrite <- !app_assoc.
  eapply perm_trans; [|apply Permutation_app_swap_app]. apply Permutation_app_head.
  rewrite !app_assoc. apply Permutation_app_tail. apply Permutation_app_tail. exact P.
Qed.
