(* C06: the two guard-byte loops of the leak detector, as tools/cxx2gal.py translates them from MemoryLeakDetector.cpp on every
   run (gen/Gen_LoopC06.v), against the model's `pattern` / `pat` / `G` (C06_Model.v, themselves built from the regenerated
   constants of gen/Gen_C06.v and gen/Gen_Common.v):
   - validMemoryCorruptionInformation(p) answers true exactly when the G cells at p are the pattern (each one compared, no
     cell outside p[0..G) read, none skipped) -- the model's valid_guard on the same cells;
   - addMemoryCorruptionInformation(p) stores exactly the pattern into p[0..G) and nothing else.
   GuardBytes is a pointer parameter of the translation; its content is the hypothesis `view m g = c06_guard_bytes`. *)
From Coq Require Import ZArith NArith Bool List Lia.
From CppUVerif Require Import lib.CSem lib.CMem lib.CMemFacts gen.Gen_Common gen.Gen_C06 gen.Gen_LoopC06 C06_Model.
Import ListNotations.
Local Open Scope Z_scope.

(* the guard cells of the model's check, read from a list of cells *)
Definition guard_ok (cells : list N) : bool := forallb (fun i => (nth i cells 0 =? pat i)%N) (seq 0 G).

Lemma G_is_3 : G = 3%nat. Proof. reflexivity. Qed.
Lemma guard_bytes_are : c06_guard_bytes = [66; 65; 83]%N. Proof. reflexivity. Qed.

Lemma nth_skipn_add {A} (l : list A) : forall n k d, nth k (skipn n l) d = nth (n + k) l d.
Proof. induction l as [|x l IH]; intros [|n] k d; cbn; try reflexivity; [destruct k; reflexivity | apply IH]. Qed.

Lemma load_nth m b o c r : view m (Ptr b o) = c :: r -> forall k, (k < length (c :: r))%nat ->
  padd m (Ptr b o) (Z.of_nat k) = Some (Ptr b (o + Z.of_nat k)) /\
  load m (Ptr b (o + Z.of_nat k)) = Some (nth k (c :: r) 0%N).
Proof.
  intros Hv k Hk. pose proof (view_cons_nonneg _ _ _ _ _ Hv) as Ho.
  assert (Hlen : (Z.to_nat o + length (c :: r) = length (block m b))%nat).
  { revert Hv. cbn [view]. destruct (0 <=? o); [|discriminate]. intro Hv. rewrite <- Hv, skipn_length.
    assert ((Z.to_nat o < length (block m b))%nat); [|lia].
    destruct (Nat.lt_ge_cases (Z.to_nat o) (length (block m b))) as [L|L]; [exact L|]. rewrite skipn_all2 in Hv by exact L. discriminate. }
  split.
  - cbn [padd]. replace (0 <=? o + Z.of_nat k) with true by (symmetry; apply Z.leb_le; lia).
    replace (o + Z.of_nat k <=? Z.of_nat (length (block m b))) with true by (symmetry; apply Z.leb_le; lia). reflexivity.
  - cbn [load]. replace (0 <=? o + Z.of_nat k) with true by (symmetry; apply Z.leb_le; lia).
    replace (Z.to_nat (o + Z.of_nat k)) with (Z.to_nat o + k)%nat by lia.
    revert Hv. cbn [view]. replace (0 <=? o) with true by (symmetry; apply Z.leb_le; lia). intro Hv.
    rewrite <- Hv. rewrite nth_skipn_add. apply nth_error_nth'. lia.
Qed.

(* validMemoryCorruptionInformation: true iff the three cells are the pattern; needs (and reads) exactly 3 cells *)
Theorem src_validGuard_spec : forall fuel m g bg og b o c0 c1 c2 r,
  mem_ok m -> g = Ptr bg og -> view m g = c06_guard_bytes ->
  view m (Ptr b o) = c0 :: c1 :: c2 :: r -> (3 < fuel)%nat ->
  src_validGuard fuel m g (Ptr b o) = FOk (b2z (guard_ok (c0 :: c1 :: c2 :: r))).
Proof.
  intros fuel m g bg og b o c0 c1 c2 r Hm -> Hg Hv Hf.
  pose proof (view_ok m (Ptr b o) Hm) as Hb. rewrite Hv in Hb.
  pose proof (Forall_inv Hb) as B0. pose proof (Forall_inv (Forall_inv_tail Hb)) as B1.
  pose proof (Forall_inv (Forall_inv_tail (Forall_inv_tail Hb))) as B2. cbn beta in B0, B1, B2.
  rewrite guard_bytes_are in Hg.
  destruct fuel as [|[|[|[|fuel]]]]; try lia.
  destruct (load_nth _ _ _ _ _ Hv 0%nat ltac:(cbn; lia)) as [P0 L0].
  destruct (load_nth _ _ _ _ _ Hv 1%nat ltac:(cbn; lia)) as [P1 L1].
  destruct (load_nth _ _ _ _ _ Hv 2%nat ltac:(cbn; lia)) as [P2 L2].
  destruct (load_nth _ _ _ _ _ Hg 0%nat ltac:(cbn; lia)) as [Q0 K0].
  destruct (load_nth _ _ _ _ _ Hg 1%nat ltac:(cbn; lia)) as [Q1 K1].
  destruct (load_nth _ _ _ _ _ Hg 2%nat ltac:(cbn; lia)) as [Q2 K2].
  cbn [Z.of_nat Pos.of_succ_nat Pos.succ nth] in *.
  unfold src_validGuard. cbn [src_validGuard_loop1].
  change (c_lt 0 3) with 1. cbn [z2b Z.eqb negb].
  change (cw 64 false (c_rem 0 3)) with 0. rewrite P0, L0, Q0, K0.
  unfold c_ne at 1. rewrite (schar_inj c0 66) by (assumption || reflexivity).
  unfold guard_ok. rewrite G_is_3. cbn [seq forallb nth]. change (pat 0) with 66%N. change (pat 1) with 65%N. change (pat 2) with 83%N.
  destruct (c0 =? 66)%N; cbn [negb b2z z2b Z.eqb andb finish]; [|reflexivity].
  change (cw 64 false (0 + 1)) with 1. change (c_lt 1 3) with 1. cbn [z2b Z.eqb negb].
  change (cw 64 false (c_rem 1 3)) with 1. rewrite P1, L1, Q1, K1.
  unfold c_ne at 1. rewrite (schar_inj c1 65) by (assumption || reflexivity).
  destruct (c1 =? 65)%N; cbn [negb b2z z2b Z.eqb andb finish]; [|reflexivity].
  change (cw 64 false (1 + 1)) with 2. change (c_lt 2 3) with 1. cbn [z2b Z.eqb negb].
  change (cw 64 false (c_rem 2 3)) with 2. rewrite P2, L2, Q2, K2.
  unfold c_ne at 1. rewrite (schar_inj c2 83) by (assumption || reflexivity).
  destruct (c2 =? 83)%N; cbn [negb b2z z2b Z.eqb andb finish]; [|reflexivity].
  change (cw 64 false (2 + 1)) with 3. change (c_lt 3 3) with 0. cbn [z2b Z.eqb negb finish]. reflexivity.
Qed.

(* the model's check reads the same cells: mread at p + i against pat i *)
Theorem guard_ok_is_valid_guard : forall (mm : C06_Model.memory) p cells,
  (forall i, (i < G)%nat -> mread mm (p + N.of_nat i) = nth i cells 0%N) -> valid_guard mm p = guard_ok cells.
Proof.
  intros mm p cells H. unfold valid_guard, guard_ok.
  assert (E : forall l, (forall i, In i l -> (i < G)%nat) ->
     forallb (fun i => (mread mm (p + N.of_nat i) =? pat i)%N) l = forallb (fun i => (nth i cells 0 =? pat i)%N) l).
  { induction l as [|i l IH]; intro Hl; cbn; [reflexivity|]. rewrite H by (apply Hl; left; reflexivity).
    f_equal. apply IH. intros j Hj. apply Hl. right. exact Hj. }
  apply E. intros i Hi. apply in_seq in Hi. lia.
Qed.

Example src_validGuard_ex :
  let m := [[66; 65; 83]; [1; 2; 66; 65; 83; 9]; [1; 2; 66; 64; 83; 9]; [66; 65]]%N in
  (src_validGuard 4 m (Ptr 0 0) (Ptr 1 2), src_validGuard 4 m (Ptr 0 0) (Ptr 2 2), src_validGuard 4 m (Ptr 0 0) (Ptr 3 0))
  = (FOk 1, FOk 0, FOob).
Proof. vm_compute. reflexivity. Qed.

(* ------------------------------------------------------------------ addMemoryCorruptionInformation *)
Lemma upd_mem_length (m : CMem.memory) b d : length (upd m b d) = length m.
Proof. apply upd_length. Qed.

Lemma addGuard_iter : forall fuel0 fuel (m : CMem.memory) bg og b nb k pre x t,
  mem_ok m -> bg <> b -> (b < length m)%nat -> view m (Ptr bg og) = [66; 65; 83]%N ->
  block m b = pre ++ x :: t -> length pre = (nb + k)%nat -> (k < 3)%nat ->
  src_addGuard_loop1 fuel0 (S fuel) (Ptr b (Z.of_nat nb)) (Ptr bg og) m (Z.of_nat k) =
  src_addGuard_loop1 fuel0 fuel (Ptr b (Z.of_nat nb)) (Ptr bg og) (upd m b (pre ++ nth k [66; 65; 83]%N 0%N :: t)) (Z.of_nat (S k)).
Proof.
  intros fuel0 fuel m bg og b nb k pre x t Hm Hd Hb Hg Hblk Hl Hk.
  assert (Hlen : length (block m b) = (nb + k + S (length t))%nat) by (rewrite Hblk, app_length; cbn; lia).
  destruct (load_nth _ _ _ _ _ Hg k ltac:(cbn; lia)) as [Pg Kg].
  pose proof (padd_nat m b nb k ltac:(lia)) as Pm.
  assert (St : forall v, store m (Ptr b (Z.of_nat (nb + k))) v = Some (upd m b (pre ++ v :: t))).
  { intro v. rewrite store_nat.
    replace (Nat.ltb (nb + k) (length (block m b))) with true by (symmetry; apply Nat.ltb_lt; lia).
    replace (Nat.ltb b (length m)) with true by (symmetry; apply Nat.ltb_lt; lia). cbn [andb].
    rewrite Hblk, <- Hl, upd_app_mid. reflexivity. }
  destruct k as [|[|[|k]]]; try lia; cbn [Z.of_nat Pos.of_succ_nat Pos.succ nth] in *;
    cbn [src_addGuard_loop1].
  - change (c_lt 0 3) with 1. cbn [z2b Z.eqb negb]. change (cw 64 false (c_rem 0 3)) with 0.
    rewrite Pg, Kg, Pm. rewrite Nat.add_0_r in *. change (byte_of (schar 66)) with 66%N. rewrite St. reflexivity.
  - change (c_lt 1 3) with 1. cbn [z2b Z.eqb negb]. change (cw 64 false (c_rem 1 3)) with 1.
    rewrite Pg, Kg, Pm. change (byte_of (schar 65)) with 65%N. rewrite St. reflexivity.
  - change (c_lt 2 3) with 1. cbn [z2b Z.eqb negb]. change (cw 64 false (c_rem 2 3)) with 2.
    rewrite Pg, Kg, Pm. change (byte_of (schar 83)) with 83%N. rewrite St. reflexivity.
Qed.

(* stores exactly the pattern into the G cells at the pointer; every other cell of every block keeps its value *)
Theorem src_addGuard_spec : forall fuel (m : CMem.memory) bg og b pre c0 c1 c2 r,
  mem_ok m -> bg <> b -> (b < length m)%nat -> view m (Ptr bg og) = c06_guard_bytes ->
  block m b = pre ++ c0 :: c1 :: c2 :: r -> (3 < fuel)%nat ->
  src_addGuard fuel m (Ptr bg og) (Ptr b (Z.of_nat (length pre))) = FOk (tt, upd m b (pre ++ pattern ++ r)).
Proof.
  intros fuel m bg og b pre c0 c1 c2 r Hm Hd Hb Hg Hblk Hf. rewrite guard_bytes_are in Hg.
  destruct fuel as [|[|[|[|fuel]]]]; try lia. unfold src_addGuard.
  assert (Bp : bytes_ok pre /\ bytes_ok r).
  { pose proof (block_ok m b Hm) as H. rewrite Hblk in H. apply Forall_app in H. destruct H as [H1 H2]. split; [exact H1|].
    exact (Forall_inv_tail (Forall_inv_tail (Forall_inv_tail H2))). }
  destruct Bp as [Bpre Br].
  change 0 with (Z.of_nat 0).
  rewrite (addGuard_iter _ _ m bg og b (length pre) 0 pre c0 (c1 :: c2 :: r)) by (try assumption; lia).
  cbn [nth].
  set (m1 := upd m b (pre ++ 66%N :: c1 :: c2 :: r)).
  assert (Hm1 : mem_ok m1).
  { apply mem_ok_upd; [exact Hm|]. apply Forall_app. split; [exact Bpre|]. pose proof (block_ok m b Hm) as H. rewrite Hblk in H.
    apply Forall_app in H. destruct H as [_ H2]. constructor; [reflexivity|]. exact (Forall_inv_tail H2). }
  assert (Hb1 : (b < length m1)%nat) by (unfold m1; rewrite upd_mem_length; exact Hb).
  assert (Hg1 : view m1 (Ptr bg og) = [66; 65; 83]%N) by (unfold m1; rewrite view_upd_other by congruence; exact Hg).
  assert (Hblk1 : block m1 b = (pre ++ [66%N]) ++ c1 :: c2 :: r).
  { unfold m1. rewrite block_upd_same by exact Hb. rewrite <- app_assoc. reflexivity. }
  rewrite (addGuard_iter _ _ m1 bg og b (length pre) 1 (pre ++ [66%N]) c1 (c2 :: r)) by (try assumption; try lia; rewrite app_length; cbn; lia).
  cbn [nth].
  set (m2 := upd m1 b ((pre ++ [66%N]) ++ 65%N :: c2 :: r)).
  assert (Hm2 : mem_ok m2).
  { apply mem_ok_upd; [exact Hm1|]. pose proof (block_ok m1 b Hm1) as H. rewrite Hblk1 in H.
    apply Forall_app in H. destruct H as [H1 H2]. apply Forall_app. split; [exact H1|]. constructor; [reflexivity|]. exact (Forall_inv_tail H2). }
  assert (Hb2 : (b < length m2)%nat) by (unfold m2; rewrite upd_mem_length; exact Hb1).
  assert (Hg2 : view m2 (Ptr bg og) = [66; 65; 83]%N) by (unfold m2; rewrite view_upd_other by congruence; exact Hg1).
  assert (Hblk2 : block m2 b = (pre ++ [66; 65]%N) ++ c2 :: r).
  { unfold m2. rewrite block_upd_same by exact Hb1. rewrite <- !app_assoc. reflexivity. }
  rewrite (addGuard_iter _ _ m2 bg og b (length pre) 2 (pre ++ [66; 65]%N) c2 r) by (try assumption; try lia; rewrite app_length; cbn; lia).
  cbn [nth src_addGuard_loop1 Z.of_nat Pos.of_succ_nat Pos.succ].
  change (c_lt 3 3) with 0. cbn [z2b Z.eqb negb finish].
  f_equal. f_equal. unfold m2, m1. rewrite !upd_upd. f_equal. rewrite <- !app_assoc. reflexivity.
Qed.

Example src_addGuard_ex :
  let m := [[66; 65; 83]; [1; 2; 3; 4; 5; 6]]%N in
  (src_addGuard 4 m (Ptr 0 0) (Ptr 1 2), src_addGuard 4 m (Ptr 0 0) (Ptr 1 4))
  = (FOk (tt, [[66; 65; 83]; [1; 2; 66; 65; 83; 6]]%N), FOob).
Proof. vm_compute. reflexivity. Qed.
