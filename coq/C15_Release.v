(* C15 -- proofs for releases and reallocs interleaved with the injected failures (scenario kind SRel):
   the saved allocator / stand-in pair of TestHarness_c.cpp, blocks handed out before out-of-memory begins and released,
   reallocated or copied from while it lasts and after it was cleared. *)
From Coq Require Import ZArith NArith Bool List Lia ZifyBool.
From CppUVerif Require Import lib.Str C15_Model C15_Proofs C15_InTest.
Import ListNotations.
Local Open Scope Z_scope.

(* ------------------------------------------------------------------ the simulation relation *)
(* the three C-level variables against the arming told by counting (k requests since the arming) *)
Definition RCI (b : alloc_id) (c : cst) (arm : option arming) (k : Z) : Prop :=
  match arm with
  | None => c_counter c = -1 /\ c_orig c = None /\ get_cur c = b
  | Some ArmOOM => c_orig c = Some b /\ c_cur c = Some ANull
  | Some (ArmCount n) =>
      0 <= k /\
      if (0 <=? n) && (n <=? k)
      then c_counter c = 0 /\ c_orig c = Some b /\ c_cur c = Some ANull
      else c_counter c = (if n <? 0 then n else n - k) /\ c_orig c = None /\ get_cur c = b
  end.
Definition slot_rel (b : alloc_id) (s : slot) (x : sslot) : Prop :=
  match s, x with
  | SNull, QNull => True
  | SLive a, QLive => a = b
  | SFreed, QFreed => True
  | _, _ => False
  end.
Definition all_global (nodes : list node) : Prop := Forall (fun nd => n_loc nd = None) nodes.
Definition has_num (n : Z) (nodes : list node) : bool := existsb (fun nd => n_num nd =? n) nodes.
(* the pending list of the failable allocator against the designated indices: they agree on every index still to come *)
Definition FI (b : alloc_id) (f : st) (g : Z) (D : list Z) : Prop :=
  is_failable b = true ->
  s_cur f = g /\ all_global (s_nodes f) /\ forall n, g < n -> has_num n (s_nodes f) = existsb (Z.eqb n) D.
Record RI (b : alloc_id) (r : rst) (s : qst) : Prop := {
  ri_c : RCI b (r_c r) (q_arm s) (q_k s);
  ri_for : get_cur (r_c r) = ANull -> r_for r = Some b;
  ri_slots : Forall2 (slot_rel b) (r_slots r) (q_slots s);
  ri_f : FI b (r_f r) (q_g s) (q_D s);
  ri_lost : r_lost r = false }.

Lemma not_null_neq b : is_null b = false -> b <> ANull.
Proof. intros H E. subst b. discriminate H. Qed.

(* either out-of-memory is on (the real allocator is saved, the stand-in current) or it is not (nothing saved) *)
Lemma rci_shape b c arm k :
  RCI b c arm k ->
  (c_orig c = Some b /\ c_cur c = Some ANull) \/ (c_orig c = None /\ get_cur c = b).
Proof.
  unfold RCI. destruct arm as [[|n]|].
  - intros H. left. exact H.
  - intros [_ H]. destruct ((0 <=? n) && (n <=? k)).
    + left. tauto.
    + right. tauto.
  - intros H. right. tauto.
Qed.

Lemma rci_oom_now b c arm k : is_null b = false -> RCI b c arm k -> is_null (get_cur c) = oom_at arm k.
Proof.
  intros Hb. unfold RCI, oom_at. destruct arm as [[|n]|].
  - intros [_ Hc]. unfold get_cur. rewrite Hc. reflexivity.
  - intros [_ H]. destruct ((0 <=? n) && (n <=? k)).
    + destruct H as (_ & _ & Hc). unfold get_cur. rewrite Hc. reflexivity.
    + destruct H as (_ & _ & Hc). rewrite Hc. exact Hb.
  - intros (_ & _ & Hc). rewrite Hc. exact Hb.
Qed.

Lemma rci_cur b c arm k : is_null b = false -> RCI b c arm k ->
  (oom_at arm k = true /\ get_cur c = ANull /\ c_orig c = Some b) \/ (oom_at arm k = false /\ get_cur c = b /\ c_orig c = None).
Proof.
  intros Hb H. pose proof (rci_oom_now _ _ _ _ Hb H) as Hn.
  destruct (rci_shape _ _ _ _ H) as [[Ho Hc]|[Ho Hc]].
  - left. unfold get_cur in *. rewrite Hc in *. simpl in Hn. auto.
  - right. rewrite Hc in Hn. rewrite Hb in Hn. auto.
Qed.

(* ------------------------------------------------------------------ slots *)
Lemma slots_nth b : forall l q i, Forall2 (slot_rel b) l q ->
  match nth_error l i with Some a => slot_rel b a (nth i q QFreed) | None => nth i q QFreed = QFreed end.
Proof.
  induction l as [|a l IH]; intros q i H; inversion H; subst.
  - destruct i; reflexivity.
  - destruct i; simpl; [assumption|]. apply IH. assumption.
Qed.
Lemma slots_set b : forall l q i a x, Forall2 (slot_rel b) l q -> slot_rel b a x ->
  Forall2 (slot_rel b) (set_slot l i a) (q_set q i x).
Proof.
  induction l as [|a0 l IH]; intros q i a x H Hr; inversion H; subst.
  - destruct i; constructor.
  - destruct i; simpl; constructor; auto.
Qed.
Lemma slots_app b l q a x : Forall2 (slot_rel b) l q -> slot_rel b a x -> Forall2 (slot_rel b) (l ++ [a]) (q ++ [x]).
Proof. intros H Hr. apply Forall2_app; [exact H|]. constructor; [exact Hr|constructor]. Qed.
Lemma slots_count b : forall l q, Forall2 (slot_rel b) l q -> count_live l = q_count q.
Proof.
  induction l as [|a l IH]; intros q H; inversion H; subst; [reflexivity|].
  simpl. destruct a, y; simpl in *; try contradiction; rewrite (IH _ H4); reflexivity.
Qed.

(* ------------------------------------------------------------------ the walk over index-only designations *)
Lemma walk_global g l : forall nodes found ns fd,
  all_global nodes -> walk g l found nodes = (ns, fd) ->
  fd = found || has_num g nodes /\ all_global ns /\ forall n, n <> g -> has_num n ns = has_num n nodes.
Proof.
  induction nodes as [|nd r IH]; intros found ns fd Hg Hw; simpl in Hw.
  - inversion Hw; subst. simpl. rewrite orb_false_r. repeat split; auto.
  - inversion Hg as [|? ? Hnd Hr]; subst.
    unfold should_fail in Hw. rewrite Hnd in Hw.
    destruct ((g =? n_num nd) && negb found) eqn:E.
    + apply andb_prop in E. destruct E as [E1 E2]. apply negb_true_iff in E2. subst found.
      destruct (IH true ns fd Hr Hw) as (Hfd & Hgl & Hn).
      split; [|split].
      * rewrite Hfd. simpl. unfold has_num. simpl. rewrite Z.eqb_sym, E1. reflexivity.
      * exact Hgl.
      * intros n Hne. rewrite (Hn n Hne). unfold has_num. simpl.
        assert (n_num nd =? n = false) by lia. rewrite H. reflexivity.
    + destruct (walk g l found r) as [r' fd'] eqn:Ew. inversion Hw; subst; clear Hw.
      destruct (IH found r' fd Hr Ew) as (Hfd & Hgl & Hn).
      split; [|split].
      * rewrite Hfd. unfold has_num. simpl. rewrite (Z.eqb_sym (n_num nd) g).
        destruct (g =? n_num nd); simpl in *; [|reflexivity]. rewrite negb_false_iff in E. subst found. reflexivity.
      * constructor; assumption.
      * intros n Hne. unfold has_num in *. simpl. rewrite (Hn n Hne). reflexivity.
Qed.

(* ------------------------------------------------------------------ set_out_of_memory / countdown / reset *)
Lemma set_oom_RI b r s :
  is_null b = false -> RI b r s ->
  RI b (r_set_oom r) {| q_arm := Some ArmOOM; q_k := 0; q_g := q_g s; q_D := q_D s; q_slots := q_slots s |}.
Proof.
  intros Hb [Hc Hf Hs Hfi Hl].
  assert (Ho : c_orig (c_set_oom (r_c r)) = Some b).
  { unfold c_set_oom. simpl. destruct (rci_shape _ _ _ _ Hc) as [[Ho _]|[Ho Hg]]; rewrite Ho; [reflexivity|rewrite Hg; reflexivity]. }
  constructor; simpl; auto.
Qed.

(* the same for a state whose counter was just overwritten (countdown arming / the decrement in countdown()) *)
Lemma shape_set_oom b r :
  is_null b = false ->
  ((c_orig (r_c r) = Some b /\ c_cur (r_c r) = Some ANull) \/ (c_orig (r_c r) = None /\ get_cur (r_c r) = b)) ->
  c_counter (r_c (r_set_oom r)) = c_counter (r_c r) /\ c_orig (r_c (r_set_oom r)) = Some b /\
  c_cur (r_c (r_set_oom r)) = Some ANull /\ r_for (r_set_oom r) = Some b /\
  r_f (r_set_oom r) = r_f r /\ r_slots (r_set_oom r) = r_slots r /\ r_lost (r_set_oom r) = r_lost r.
Proof.
  intros Hb Hsh.
  assert (Ho : c_orig (c_set_oom (r_c r)) = Some b).
  { unfold c_set_oom. simpl. destruct Hsh as [[Ho _]|[Ho Hg]]; rewrite Ho; [reflexivity|rewrite Hg; reflexivity]. }
  unfold c_set_oom in Ho. simpl in Ho. unfold r_set_oom; simpl. repeat split; try reflexivity; exact Ho.
Qed.

Definition q_ticked (s : qst) : qst :=
  {| q_arm := q_arm s; q_k := q_k s + 1; q_g := q_g s; q_D := q_D s; q_slots := q_slots s |}.

Lemma tick_RI b r s : is_null b = false -> RI b r s -> RI b (r_tick r) (q_ticked s).
Proof.
  intros Hb HI. pose proof HI as [Hc Hf Hs Hfi Hl].
  unfold r_tick.
  destruct (c_counter (r_c r) <=? -1) eqn:E1.
  { (* no countdown running *)
    constructor; simpl; auto. unfold RCI in *. destruct (q_arm s) as [[|n]|]; auto.
    destruct Hc as [Hk Hc]. split; [lia|].
    destruct ((0 <=? n) && (n <=? q_k s)) eqn:E.
    - destruct Hc as (Hcn & _). lia.
    - assert (E' : (0 <=? n) && (n <=? q_k s + 1) = false).
      { destruct Hc as (Hcn & _). destruct (n <? 0) eqn:E2; lia. }
      rewrite E'. destruct Hc as (Hcn & Ho & Hg). destruct (n <? 0) eqn:E2; [auto|lia]. }
  destruct (c_counter (r_c r) =? 0) eqn:E2.
  { (* out-of-memory reached earlier *)
    constructor; simpl; auto. unfold RCI in *. destruct (q_arm s) as [[|n]|]; auto.
    destruct Hc as [Hk Hc]. split; [lia|].
    destruct ((0 <=? n) && (n <=? q_k s)) eqn:E.
    - assert (E' : (0 <=? n) && (n <=? q_k s + 1) = true) by lia. rewrite E'. exact Hc.
    - destruct Hc as (Hcn & _). destruct (n <? 0) eqn:E3; lia. }
  (* the counter is decremented *)
  set (r1 := with_c r {| c_counter := c_counter (r_c r) - 1; c_orig := c_orig (r_c r); c_cur := c_cur (r_c r) |}).
  assert (H1c : c_counter (r_c r1) = c_counter (r_c r) - 1) by reflexivity.
  assert (H1o : c_orig (r_c r1) = c_orig (r_c r)) by reflexivity.
  assert (H1g : get_cur (r_c r1) = get_cur (r_c r)) by reflexivity.
  assert (H1u : c_cur (r_c r1) = c_cur (r_c r)) by reflexivity.
  assert (H1f : r_for r1 = r_for r) by reflexivity.
  assert (H1ff : r_f r1 = r_f r) by reflexivity.
  assert (H1s : r_slots r1 = r_slots r) by reflexivity.
  assert (H1l : r_lost r1 = r_lost r) by reflexivity.
  clearbody r1.
  assert (Hsh : (c_orig (r_c r1) = Some b /\ c_cur (r_c r1) = Some ANull) \/ (c_orig (r_c r1) = None /\ get_cur (r_c r1) = b)).
  { rewrite H1o, H1u, H1g. exact (rci_shape _ _ _ _ Hc). }
  rewrite H1c.
  destruct (c_counter (r_c r) - 1 =? 0) eqn:E3.
  - (* ... to zero: out-of-memory begins *)
    destruct (shape_set_oom b r1 Hb Hsh) as (Hcn & Ho & Hcu & Hfo & Hff & Hsl & Hlo).
    constructor; unfold q_ticked; cbn [q_arm q_k q_g q_D q_slots].
    + unfold RCI in *. destruct (q_arm s) as [[|n]|].
      * split; assumption.
      * destruct Hc as [Hk Hc]. split; [lia|].
        destruct ((0 <=? n) && (n <=? q_k s)) eqn:E.
        -- destruct Hc as (Hc0 & _). lia.
        -- destruct Hc as (Hc0 & _).
           assert (E' : (0 <=? n) && (n <=? q_k s + 1) = true) by (destruct (n <? 0) eqn:E4; lia).
           rewrite E'. rewrite Hcn, H1c. split; [lia|]. split; assumption.
      * destruct Hc as (Hc0 & _). lia.
    + intros _. exact Hfo.
    + rewrite Hsl, H1s. exact Hs.
    + rewrite Hff, H1ff. exact Hfi.
    + rewrite Hlo, H1l. exact Hl.
  - constructor; unfold q_ticked; cbn [q_arm q_k q_g q_D q_slots].
    + unfold RCI in *. rewrite H1c, H1o, H1u, H1g. destruct (q_arm s) as [[|n]|].
      * exact Hc.
      * destruct Hc as [Hk Hc]. split; [lia|].
        destruct ((0 <=? n) && (n <=? q_k s)) eqn:E.
        -- destruct Hc as (Hc0 & _). lia.
        -- destruct Hc as (Hc0 & Ho & Hg).
           assert (E' : (0 <=? n) && (n <=? q_k s + 1) = false) by (destruct (n <? 0) eqn:E4; lia).
           rewrite E'. split; [destruct (n <? 0) eqn:E4; lia|]. split; assumption.
      * destruct Hc as (Hc0 & _). lia.
    + rewrite H1g, H1f. exact Hf.
    + rewrite H1s. exact Hs.
    + rewrite H1ff. exact Hfi.
    + rewrite H1l. exact Hl.
Qed.

(* ------------------------------------------------------------------ one request *)
Lemma alloc_RI b r s :
  is_null b = false -> RI b r s ->
  RI b (fst (r_alloc r)) (q_request b s) /\ snd (r_alloc r) = (if q_fails b s then RNull else ROk).
Proof.
  intros Hb HI. pose proof (tick_RI _ _ _ Hb HI) as [Hc Hf Hs Hfi Hl].
  unfold q_ticked in *. cbn [q_arm q_k q_g q_D q_slots] in *.
  unfold r_alloc. set (r1 := r_tick r) in *. clearbody r1.
  destruct (rci_cur _ _ _ _ Hb Hc) as [(Ho & Hcur & _)|(Ho & Hcur & _)].
  - (* refused by the stand-in *)
    assert (Hq : q_oom_next s = true) by exact Ho.
    unfold q_request, q_fails. rewrite Hq. simpl.
    unfold r_request. rewrite Hcur. simpl. split; [|reflexivity].
    constructor; simpl; auto.
    apply slots_app; [exact Hs|exact I].
  - assert (Hq : q_oom_next s = false) by exact Ho.
    unfold q_request, q_fails. rewrite Hq. simpl.
    unfold r_request. rewrite Hcur.
    destruct b; try discriminate Hb.
    + simpl. split; [|reflexivity]. constructor; simpl; auto; try (intros H; discriminate H).
      apply slots_app; [exact Hs|reflexivity].
    + simpl. split; [|reflexivity]. constructor; simpl; auto; try (intros H; discriminate H).
      apply slots_app; [exact Hs|reflexivity].
    + (* a failable allocator: the pending failures see the request *)
      destruct (Hfi eq_refl) as (Hg & Hgl & Hn).
      destruct (walk (s_cur (r_f r1) + 1) unknown_loc false (s_nodes (r_f r1))) as [ns failed] eqn:Ew.
      destruct (walk_global _ _ _ _ _ _ Hgl Ew) as (Hfd & Hgl' & Hn').
      simpl in Hfd. rewrite Hg in *.
      assert (Hfe : failed = existsb (Z.eqb (q_g s + 1)) (q_D s)).
      { rewrite Hfd. apply Hn. lia. }
      simpl. rewrite <- Hfe. split; [|destruct failed; reflexivity].
      constructor; simpl; auto; try (intros H; discriminate H).
      * apply slots_app; [exact Hs|]. destruct failed; [exact I|reflexivity].
      * intros _. split; [reflexivity|]. split; [exact Hgl'|].
        intros n Hlt. rewrite Hn' by lia. apply Hn. lia.
Qed.

(* ------------------------------------------------------------------ release / realloc *)
Lemma no_mismatch b r s :
  is_null b = false -> RI b r s ->
  alloc_id_eqb (resolve r b) (resolve r (get_cur (r_c r))) = true /\ alloc_id_eqb (resolve r (get_cur (r_c r))) b = true.
Proof.
  intros Hb [Hc Hf _ _ _].
  assert (Hrb : resolve r b = b) by (destruct b; try reflexivity; discriminate Hb).
  assert (Hrc : resolve r (get_cur (r_c r)) = b).
  { destruct (rci_cur _ _ _ _ Hb Hc) as [(_ & Hcur & _)|(_ & Hcur & _)].
    - rewrite Hcur. simpl. rewrite (Hf Hcur). reflexivity.
    - rewrite Hcur. exact Hrb. }
  rewrite Hrb, Hrc. split; apply alloc_id_eqb_refl.
Qed.

Lemma free_RI b r s i :
  is_null b = false -> RI b r s -> rop_valid b s (RFree i) = true ->
  RI b (fst (r_free resolve r i)) (qstep b s (RFree i)) /\
  snd (r_free resolve r i) = OFree false (q_is_live (q_get s i)).
Proof.
  intros Hb HI Hv. pose proof HI as [Hc Hf Hs Hfi Hl].
  pose proof (slots_nth b _ _ i Hs) as Hn. unfold r_free. simpl in Hv. simpl. unfold q_get in *.
  destruct (nth_error (r_slots r) i) as [sl|] eqn:En.
  - destruct sl as [|a|]; destruct (nth i (q_slots s) QFreed) eqn:Eq; simpl in Hn; try contradiction; try discriminate Hv.
    + simpl. split; [exact HI|reflexivity].
    + subst a. destruct (no_mismatch _ _ _ Hb HI) as [H1 H2]. rewrite H1, H2. simpl. split; [|reflexivity].
      constructor; simpl; auto.
      * apply slots_set; [exact Hs|exact I].
      * rewrite Hl. reflexivity.
  - rewrite Hn in Hv. discriminate Hv.
Qed.

Lemma realloc_RI b r s i sz :
  is_null b = false -> RI b r s -> rop_valid b s (RRealloc i sz) = true ->
  RI b (fst (r_realloc resolve r i)) (qstep b s (RRealloc i sz)) /\
  snd (r_realloc resolve r i) = ORealloc (if q_oom_now s then RNull else ROk) false true.
Proof.
  intros Hb HI Hv. pose proof HI as [Hc Hf Hs Hfi Hl].
  pose proof (slots_nth b _ _ i Hs) as Hn. unfold r_realloc. simpl in Hv. simpl. unfold q_get, q_oom_now in *.
  pose proof (rci_oom_now _ _ _ _ Hb Hc) as Hnow.
  destruct (no_mismatch _ _ _ Hb HI) as [H1 _].
  destruct (nth_error (r_slots r) i) as [sl|] eqn:En.
  - destruct sl as [|a|]; destruct (nth i (q_slots s) QFreed) eqn:Eq; simpl in Hn; try contradiction; try discriminate Hv.
    + rewrite Hnow. destruct (oom_at (q_arm s) (q_k s)) eqn:Eo; simpl; [split; [exact HI|reflexivity]|].
      split; [|reflexivity]. constructor; simpl; auto.
      apply slots_set; [exact Hs|]. simpl.
      destruct (rci_cur _ _ _ _ Hb Hc) as [(Ho & _)|(_ & Hcur & _)]; [rewrite Ho in Eo; discriminate Eo|exact Hcur].
    + subst a. rewrite H1. rewrite Hnow. destruct (oom_at (q_arm s) (q_k s)) eqn:Eo; simpl; [split; [exact HI|reflexivity]|].
      split; [|reflexivity]. constructor; simpl; auto.
      apply slots_set; [exact Hs|]. simpl.
      destruct (rci_cur _ _ _ _ Hb Hc) as [(Ho & _)|(_ & Hcur & _)]; [rewrite Ho in Eo; discriminate Eo|exact Hcur].
  - rewrite Hn in Hv. discriminate Hv.
Qed.

(* ------------------------------------------------------------------ one operation *)
Lemma rstep_ok b r s o :
  is_null b = false -> RI b r s -> rop_valid b s o = true ->
  RI b (fst (rstep r o)) (qstep b s o) /\
  match snd (rstep r o) with
  | Some it => rproduces o = true /\ ritem_ok b s o it = true
  | None => rproduces o = false
  end.
Proof.
  intros Hb HI Hv. unfold rstep. destruct o; simpl.
  - (* RSetOOM *) split; [|reflexivity]. apply (set_oom_RI b r s Hb HI).
  - (* RSetNot *) pose proof HI as [Hc Hf Hs Hfi Hl]. simpl in Hv.
    assert (Hcur : get_cur (c_set_not (r_c r)) = b).
    { unfold c_set_not, get_cur. simpl. unfold q_oom_now in Hv.
      destruct (rci_cur _ _ _ _ Hb Hc) as [(_ & _ & Ho)|(Ho & _ & Ho')].
      - rewrite Ho. reflexivity.
      - rewrite Ho'. rewrite Ho in Hv. rewrite orb_false_r in Hv. destruct b; try discriminate Hv. reflexivity. }
    split.
    + constructor; simpl; auto.
      intros H. rewrite Hcur in H. destruct (not_null_neq _ Hb H).
    + split; [reflexivity|]. unfold r_set_not. simpl. rewrite Hcur. apply alloc_id_eqb_refl.
  - (* RCountdown *) split; [|reflexivity]. pose proof HI as [Hc Hf Hs Hfi Hl]. simpl in Hv.
    destruct (q_arm s) eqn:Ea; [discriminate Hv|]. simpl in Hc. destruct Hc as (Hcn & Ho & Hg).
    unfold r_countdown_arm.
    set (r1 := with_c r {| c_counter := n; c_orig := c_orig (r_c r); c_cur := c_cur (r_c r) |}).
    assert (H1c : c_counter (r_c r1) = n) by reflexivity.
    assert (H1o : c_orig (r_c r1) = c_orig (r_c r)) by reflexivity.
    assert (H1g : get_cur (r_c r1) = get_cur (r_c r)) by reflexivity.
    assert (H1f : r_for r1 = r_for r) by reflexivity.
    assert (H1ff : r_f r1 = r_f r) by reflexivity.
    assert (H1s : r_slots r1 = r_slots r) by reflexivity.
    assert (H1l : r_lost r1 = r_lost r) by reflexivity.
    clearbody r1.
    destruct (n =? 0) eqn:En.
    + assert (Hsh : (c_orig (r_c r1) = Some b /\ c_cur (r_c r1) = Some ANull) \/ (c_orig (r_c r1) = None /\ get_cur (r_c r1) = b)).
      { right. rewrite H1o, H1g. split; assumption. }
      destruct (shape_set_oom b r1 Hb Hsh) as (Hcn' & Ho' & Hcu & Hfo & Hff & Hsl & Hlo).
      constructor; cbn [qstep q_arm q_k q_g q_D q_slots].
      * unfold RCI. split; [lia|]. assert (E : (0 <=? n) && (n <=? 0) = true) by lia. rewrite E. rewrite Hcn', H1c. split; [lia|]. split; assumption.
      * intros _. exact Hfo.
      * rewrite Hsl, H1s. exact Hs.
      * rewrite Hff, H1ff. exact Hfi.
      * rewrite Hlo, H1l. exact Hl.
    + constructor; cbn [qstep q_arm q_k q_g q_D q_slots].
      * unfold RCI. split; [lia|]. assert (E : (0 <=? n) && (n <=? 0) = false) by lia. rewrite E.
        rewrite H1c, H1o, H1g. split; [destruct (n <? 0); lia|]. split; assumption.
      * intros H. rewrite H1g, Hg in H. destruct (not_null_neq _ Hb H).
      * rewrite H1s. exact Hs.
      * rewrite H1ff. exact Hfi.
      * rewrite H1l. exact Hl.
  - (* RAlloc *) destruct (alloc_RI _ _ _ Hb HI) as [HI' Hres].
    destruct (r_alloc r) as [r' res]. simpl in *. split; [exact HI'|]. split; [reflexivity|].
    rewrite Hres. apply ares_eqb_refl.
  - (* RDup *) destruct (alloc_RI _ _ _ Hb HI) as [HI' Hres].
    destruct (r_alloc r) as [r' res]. simpl in *. split; [exact HI'|]. split; [reflexivity|].
    rewrite Hres. rewrite ares_eqb_refl. reflexivity.
  - (* RFree *) destruct (free_RI _ _ _ i Hb HI Hv) as [HI' Hit].
    destruct (r_free resolve r i) as [r' it]. simpl in *. split; [exact HI'|]. split; [reflexivity|].
    rewrite Hit. simpl. destruct (q_is_live (q_get s i)); reflexivity.
  - (* RRealloc *) destruct (realloc_RI _ _ _ i sz Hb HI Hv) as [HI' Hit].
    destruct (r_realloc resolve r i) as [r' it]. simpl in *. split; [exact HI'|]. split; [reflexivity|].
    rewrite Hit. simpl. rewrite ares_eqb_refl. reflexivity.
  - (* RFailG *) split; [|reflexivity]. pose proof HI as [Hc Hf Hs Hfi Hl]. simpl in Hv.
    constructor; simpl; auto.
    intros Hfb. destruct (Hfi Hfb) as (Hg & Hgl & Hn). simpl. split; [exact Hg|]. split.
    + constructor; [reflexivity|exact Hgl].
    + intros m Hlt. unfold has_num in *. simpl. rewrite (Hn m Hlt). rewrite (Z.eqb_sym n m). reflexivity.
  - (* RClearF *) split; [|reflexivity]. pose proof HI as [Hc Hf Hs Hfi Hl].
    constructor; simpl; auto.
    intros _. split; [reflexivity|]. split; [constructor|]. intros; reflexivity.
Qed.

Lemma ri0 b : is_null b = false -> RI b (rst0 b) qst0.
Proof.
  intros Hb. constructor; simpl; auto.
  - intros H. destruct (not_null_neq _ Hb H).
  - intros _. split; [reflexivity|]. split; [constructor|]. intros; reflexivity.
Qed.

(* ------------------------------------------------------------------ whole histories *)
Lemma rrun_check b : is_null b = false -> forall ops r s,
  RI b r s -> rvalid_from b s ops = true -> rcheck b s ops (rrun_from r ops) = true.
Proof.
  intros Hb. induction ops as [|o t IH]; intros r s HI Hv.
  - simpl. destruct HI as [_ _ Hs _ Hl]. rewrite (slots_count _ _ _ Hs), Hl, Z.eqb_refl. reflexivity.
  - simpl in Hv. apply andb_prop in Hv. destruct Hv as [Hov Hv].
    destruct (rstep_ok _ _ _ _ Hb HI Hov) as [HI' Hout].
    unfold rrun_from in *. simpl. unfold rstep in *. destruct (rstep_gen resolve r o) as [r' it]. simpl in *.
    destruct it as [i|].
    + destruct Hout as [Hp Hok]. rewrite Hp, Hok. simpl. apply IH; assumption.
    + rewrite Hout. apply IH; assumption.
Qed.

Theorem run_meets_spec : forall s, valid s = true -> spec s (run s) = true.
Proof.
  intros [ops|custom cops|b rops|pre su bo td] Hv; [simpl in *..|exact (trun_check pre su bo td Hv)].
  - apply run_check; [apply inv0|exact Hv].
  - apply crun_check; [apply ci0|exact Hv].
  - apply andb_prop in Hv. destruct Hv as [Hb Hv]. apply negb_true_iff in Hb.
    apply rrun_check; [exact Hb|apply ri0; exact Hb|exact Hv].
Qed.

Lemma rmrun_app rs : forall pre r suf, rmrun_gen rs r (pre ++ suf) = rmrun_gen rs (rmrun_gen rs r pre) suf.
Proof. induction pre as [|o t IH]; intros r suf; simpl; [reflexivity|apply IH]. Qed.

(* after any prefix of any valid history the model state and the state told by counting are related *)
Lemma rsim_prefix b : is_null b = false -> forall pre suf r s,
  RI b r s -> rvalid_from b s (pre ++ suf) = true ->
  RI b (rmrun r pre) (qrun b s pre) /\ rvalid_from b (qrun b s pre) suf = true.
Proof.
  intros Hb. induction pre as [|o t IH]; intros suf r s HI Hv; simpl in *.
  - split; assumption.
  - apply andb_prop in Hv. destruct Hv as [Hov Hv].
    destruct (rstep_ok _ _ _ _ Hb HI Hov) as [HI' _].
    unfold rmrun in *. simpl. apply IH; assumption.
Qed.

Lemma valid_rel b ops : valid (SRel b ops) = true -> is_null b = false /\ rvalid_from b qst0 ops = true.
Proof. simpl. intros H. apply andb_prop in H. destruct H as [Hb Hv]. apply negb_true_iff in Hb. auto. Qed.

Lemma reach b pre suf : valid (SRel b (pre ++ suf)) = true ->
  is_null b = false /\ RI b (rmrun (rst0 b) pre) (qrun b qst0 pre) /\ rvalid_from b (qrun b qst0 pre) suf = true.
Proof.
  intros H. destruct (valid_rel _ _ H) as [Hb Hv]. split; [exact Hb|].
  apply (rsim_prefix b Hb pre suf); [apply ri0; exact Hb|exact Hv].
Qed.

Lemma set_slot_nth : forall l i x y, nth_error l i = Some x -> nth_error (set_slot l i y) i = Some y.
Proof. induction l as [|z l IH]; intros i x y Hn; destruct i; simpl in *; try discriminate Hn; eauto. Qed.

(* ------------------------------------------------------------------ Prop-level readings *)
(* out-of-memory is simulated (the stand-in is current) exactly when counting says so *)
Theorem rel_oom_state : forall b pre suf,
  valid (SRel b (pre ++ suf)) = true ->
  is_null (get_cur (r_c (rmrun (rst0 b) pre))) = q_oom_now (qrun b qst0 pre).
Proof.
  intros b pre suf H. destruct (reach _ _ _ H) as (Hb & [Hc _ _ _ _] & _).
  apply (rci_oom_now _ _ _ _ Hb Hc).
Qed.

(* a request is refused iff out-of-memory is on by then or its index is designated on the failable allocator *)
Theorem rel_alloc_fails_iff : forall b pre f suf,
  valid (SRel b (pre ++ RAlloc f :: suf)) = true ->
  snd (rstep (rmrun (rst0 b) pre) (RAlloc f)) = Some (OAlloc (if q_fails b (qrun b qst0 pre) then RNull else ROk)).
Proof.
  intros b pre f suf H. destruct (reach _ _ _ H) as (Hb & HI & Hv).
  destruct (alloc_RI _ _ _ Hb HI) as [_ Hres]. unfold rstep. simpl.
  destruct (r_alloc (rmrun (rst0 b) pre)) as [r' res]. simpl in *. rewrite Hres. reflexivity.
Qed.

(* a release is never a failure: a live block released at any point of any valid history -- out-of-memory simulated
   or not, designations pending or not -- raises nothing, reaches the allocator it came from, and is gone afterwards *)
Theorem release_never_fails : forall b pre i suf a,
  valid (SRel b (pre ++ RFree i :: suf)) = true ->
  nth_error (r_slots (rmrun (rst0 b) pre)) i = Some (SLive a) ->
  snd (rstep (rmrun (rst0 b) pre) (RFree i)) = Some (OFree false true) /\
  nth_error (r_slots (fst (rstep (rmrun (rst0 b) pre) (RFree i)))) i = Some SFreed /\
  r_lost (fst (rstep (rmrun (rst0 b) pre) (RFree i))) = false.
Proof.
  intros b pre i suf a H Hn. destruct (reach _ _ _ H) as (Hb & HI & Hv).
  simpl in Hv. apply andb_prop in Hv. destruct Hv as [Hov _].
  destruct (free_RI _ _ _ i Hb HI Hov) as [HI' Hit].
  pose proof (slots_nth b _ _ i (ri_slots _ _ _ HI)) as Hrel. rewrite Hn in Hrel.
  unfold q_get in Hit. destruct (nth i (q_slots (qrun b qst0 pre)) QFreed); simpl in Hrel; try contradiction.
  unfold rstep. simpl. unfold r_free in *. rewrite Hn in *. simpl in *. split; [rewrite Hit; reflexivity|].
  split; [|exact (ri_lost _ _ _ HI')].
  eapply set_slot_nth; exact Hn.
Qed.

(* realloc while out-of-memory is simulated: NULL, no failure, and the state is untouched -- the block stays valid and tracked *)
Theorem realloc_under_oom : forall b pre i sz suf a,
  valid (SRel b (pre ++ RRealloc i sz :: suf)) = true ->
  nth_error (r_slots (rmrun (rst0 b) pre)) i = Some (SLive a) ->
  q_oom_now (qrun b qst0 pre) = true ->
  rstep (rmrun (rst0 b) pre) (RRealloc i sz) = (rmrun (rst0 b) pre, Some (ORealloc RNull false true)).
Proof.
  intros b pre i sz suf a H Hn Ho. destruct (reach _ _ _ H) as (Hb & HI & Hv).
  pose proof (rci_oom_now _ _ _ _ Hb (ri_c _ _ _ HI)) as Hnow. unfold q_oom_now in Ho. rewrite Ho in Hnow.
  pose proof (slots_nth b _ _ i (ri_slots _ _ _ HI)) as Hrel. rewrite Hn in Hrel.
  destruct (nth i (q_slots (qrun b qst0 pre)) QFreed); simpl in Hrel; try contradiction. subst a.
  destruct (no_mismatch _ _ _ Hb HI) as [H1 _].
  unfold rstep. simpl. unfold r_realloc. rewrite Hn, Hnow, H1. reflexivity.
Qed.

(* ... and while it is not: the block is reallocated, no failure *)
Theorem realloc_otherwise : forall b pre i sz suf a,
  valid (SRel b (pre ++ RRealloc i sz :: suf)) = true ->
  nth_error (r_slots (rmrun (rst0 b) pre)) i = Some (SLive a) ->
  q_oom_now (qrun b qst0 pre) = false ->
  snd (rstep (rmrun (rst0 b) pre) (RRealloc i sz)) = Some (ORealloc ROk false true) /\
  nth_error (r_slots (fst (rstep (rmrun (rst0 b) pre) (RRealloc i sz)))) i = Some (SLive b).
Proof.
  intros b pre i sz suf a H Hn Ho. destruct (reach _ _ _ H) as (Hb & HI & Hv).
  pose proof (rci_oom_now _ _ _ _ Hb (ri_c _ _ _ HI)) as Hnow. unfold q_oom_now in Ho. rewrite Ho in Hnow.
  destruct (rci_cur _ _ _ _ Hb (ri_c _ _ _ HI)) as [(Ho' & _)|(_ & Hcur & _)]; [rewrite Ho in Ho'; discriminate Ho'|].
  pose proof (slots_nth b _ _ i (ri_slots _ _ _ HI)) as Hrel. rewrite Hn in Hrel.
  destruct (nth i (q_slots (qrun b qst0 pre)) QFreed); simpl in Hrel; try contradiction. subst a.
  destruct (no_mismatch _ _ _ Hb HI) as [H1 _].
  unfold rstep. simpl. unfold r_realloc. rewrite Hn, Hnow, H1, Hcur. simpl. split; [reflexivity|].
  eapply set_slot_nth; exact Hn.
Qed.

(* ------------------------------------------------------------------ after the reset: as if nothing had been injected *)
(* two states that differ at most in whom the stand-in was last told to stand for, while the stand-in is not current
   (and the stand-in is never the saved allocator, nor the recorded allocator of a block) *)
Record Same (r1 r2 : rst) : Prop := {
  sm_c : r_c r1 = r_c r2;
  sm_f : r_f r1 = r_f r2;
  sm_slots : r_slots r1 = r_slots r2;
  sm_lost : r_lost r1 = r_lost r2;
  sm_for : get_cur (r_c r1) = ANull -> r_for r1 = r_for r2;
  sm_live : Forall (fun sl => sl <> SLive ANull) (r_slots r1);
  sm_orig : c_orig (r_c r1) <> Some ANull;
  sm_cur : c_orig (r_c r1) = None -> get_cur (r_c r1) <> ANull }.

Lemma same_set_oom r1 r2 : Same r1 r2 -> Same (r_set_oom r1) (r_set_oom r2).
Proof.
  intros [Hc Hf Hs Hl Hfo Hlv Ho Hcu]. unfold r_set_oom. constructor; simpl; try congruence.
  - intros _. rewrite Hc. reflexivity.
  - destruct (c_orig (r_c r1)) as [a|] eqn:E; [exact Ho|]. intros H. inversion H as [H']. exact (Hcu eq_refl H').
  - destruct (c_orig (r_c r1)); discriminate.
Qed.

Lemma same_with_c r1 r2 c :
  Same r1 r2 -> get_cur c = get_cur (r_c r1) -> c_orig c = c_orig (r_c r1) -> Same (with_c r1 c) (with_c r2 c).
Proof.
  intros [Hc Hf Hs Hl Hfo Hlv Ho Hcu] Hg Hor. constructor; simpl; auto.
  - intros H. apply Hfo. rewrite <- Hg. exact H.
  - rewrite Hor. exact Ho.
  - rewrite Hor, Hg. exact Hcu.
Qed.

Lemma same_tick r1 r2 : Same r1 r2 -> Same (r_tick r1) (r_tick r2).
Proof.
  intros HS. pose proof (sm_c _ _ HS) as Hc. unfold r_tick. rewrite <- Hc.
  destruct (c_counter (r_c r1) <=? -1); [exact HS|].
  destruct (c_counter (r_c r1) =? 0); [exact HS|].
  simpl. destruct (c_counter (r_c r1) - 1 =? 0).
  - apply same_set_oom. apply same_with_c; [exact HS|reflexivity|reflexivity].
  - apply same_with_c; [exact HS|reflexivity|reflexivity].
Qed.

Lemma forall_app_live l x : Forall (fun sl => sl <> SLive ANull) l -> x <> SLive ANull -> Forall (fun sl => sl <> SLive ANull) (l ++ [x]).
Proof. intros H Hx. apply Forall_app. split; [exact H|constructor; [exact Hx|constructor]]. Qed.
Lemma forall_set_live : forall l i x, Forall (fun sl => sl <> SLive ANull) l -> x <> SLive ANull -> Forall (fun sl => sl <> SLive ANull) (set_slot l i x).
Proof.
  induction l as [|y l IH]; intros i x H Hx; [destruct i; constructor|].
  inversion H; subst. destruct i; simpl; constructor; auto.
Qed.

Lemma same_alloc r1 r2 : Same r1 r2 -> Same (fst (r_alloc r1)) (fst (r_alloc r2)) /\ snd (r_alloc r1) = snd (r_alloc r2).
Proof.
  intros HS. pose proof (same_tick _ _ HS) as [Hc Hf Hs Hl Hfo Hlv Ho Hcu].
  unfold r_alloc, r_request. rewrite <- Hc, <- Hf.
  destruct (get_cur (r_c (r_tick r1))) eqn:Ecur; simpl;
    try (split; [|reflexivity]; constructor; simpl; auto; try congruence;
         try (rewrite Hs; reflexivity); try (rewrite Ecur; assumption); apply forall_app_live; [exact Hlv|discriminate]).
  destruct (walk (s_cur (r_f (r_tick r1)) + 1) unknown_loc false (s_nodes (r_f (r_tick r1)))) as [ns failed]. simpl.
  split; [|reflexivity]. constructor; simpl; auto; try congruence; try (rewrite Hs; reflexivity); try (rewrite Ecur; assumption).
  apply forall_app_live; [exact Hlv|destruct failed; discriminate].
Qed.

Lemma same_resolve_cur r1 r2 : Same r1 r2 -> resolve r1 (get_cur (r_c r1)) = resolve r2 (get_cur (r_c r2)).
Proof.
  intros [Hc Hf Hs Hl Hfo Hlv Ho Hcu]. rewrite <- Hc. destruct (get_cur (r_c r1)) eqn:E; try reflexivity.
  simpl. rewrite (Hfo eq_refl). reflexivity.
Qed.
Lemma resolve_real r a : a <> ANull -> resolve r a = a.
Proof. destruct a; try reflexivity. intros H; destruct (H eq_refl). Qed.

Lemma live_not_null : forall l i a, Forall (fun sl => sl <> SLive ANull) l -> nth_error l i = Some (SLive a) -> a <> ANull.
Proof.
  induction l as [|y l IH]; intros i a H Hn; destruct i; simpl in Hn; try discriminate Hn; inversion H; subst.
  - inversion Hn; subst. intros E; subst. apply H2. reflexivity.
  - eapply IH; eauto.
Qed.

Lemma same_free r1 r2 i : Same r1 r2 -> Same (fst (r_free resolve r1 i)) (fst (r_free resolve r2 i)) /\ snd (r_free resolve r1 i) = snd (r_free resolve r2 i).
Proof.
  intros HS. pose proof HS as [Hc Hf Hs Hl Hfo Hlv Ho Hcu]. unfold r_free. rewrite <- Hs.
  destruct (nth_error (r_slots r1) i) as [[|a|]|] eqn:En; try (split; [exact HS|reflexivity]).
  pose proof (live_not_null _ _ _ Hlv En) as Ha.
  rewrite !(resolve_real _ a Ha). rewrite <- (same_resolve_cur _ _ HS). rewrite <- Hl.
  split; [|reflexivity]. constructor; simpl; auto.
  apply forall_set_live; [exact Hlv|discriminate].
Qed.

Lemma same_realloc r1 r2 i : Same r1 r2 -> Same (fst (r_realloc resolve r1 i)) (fst (r_realloc resolve r2 i)) /\ snd (r_realloc resolve r1 i) = snd (r_realloc resolve r2 i).
Proof.
  intros HS. pose proof HS as [Hc Hf Hs Hl Hfo Hlv Ho Hcu]. unfold r_realloc. rewrite <- Hs.
  pose proof (same_resolve_cur _ _ HS) as Hrc. rewrite <- Hc in *.
  assert (Hset : is_null (get_cur (r_c r1)) = false ->
                 Same (with_slots r1 (set_slot (r_slots r1) i (SLive (get_cur (r_c r1))))) (with_slots r2 (set_slot (r_slots r1) i (SLive (get_cur (r_c r1)))))).
  { intros Hnn. constructor; simpl; auto. apply forall_set_live; [exact Hlv|].
    intros E. inversion E as [E']. rewrite E' in Hnn. discriminate Hnn. }
  destruct (nth_error (r_slots r1) i) as [[|a|]|] eqn:En; try (split; [exact HS|reflexivity]).
  - destruct (is_null (get_cur (r_c r1))) eqn:Enull; [split; [exact HS|reflexivity]|]. split; [apply Hset; reflexivity|reflexivity].
  - pose proof (live_not_null _ _ _ Hlv En) as Ha.
    rewrite !(resolve_real _ a Ha). rewrite <- Hrc.
    destruct (is_null (get_cur (r_c r1))) eqn:Enull; [split; [exact HS|reflexivity]|]. split; [apply Hset; reflexivity|reflexivity].
Qed.

Lemma same_with_f r1 r2 f : Same r1 r2 -> Same (with_f r1 f) (with_f r2 f).
Proof. intros [Hc Hf Hs Hl Hfo Hlv Ho Hcu]. constructor; simpl; auto. Qed.

Lemma same_step r1 r2 o : Same r1 r2 -> Same (fst (rstep r1 o)) (fst (rstep r2 o)) /\ snd (rstep r1 o) = snd (rstep r2 o).
Proof.
  intros HS. unfold rstep. destruct o; simpl.
  - split; [apply same_set_oom; exact HS|reflexivity].
  - (* the reset makes the saved allocator current, and that is never the stand-in *)
    pose proof HS as [Hc Hf Hs Hl Hfo Hlv Ho Hcu]. unfold r_set_not. rewrite <- Hc. split; [|reflexivity].
    assert (Hg : get_cur (c_set_not (r_c r1)) <> ANull).
    { unfold c_set_not, get_cur. simpl. destruct (c_orig (r_c r1)) as [a|]; [|discriminate]. intros E. subst a. apply Ho. reflexivity. }
    constructor; simpl; auto.
    + intros H. destruct (Hg H).
    + discriminate.
  - unfold r_countdown_arm. rewrite <- (sm_c _ _ HS). split; [|reflexivity].
    destruct (n =? 0).
    + apply same_set_oom. apply same_with_c; [exact HS|reflexivity|reflexivity].
    + apply same_with_c; [exact HS|reflexivity|reflexivity].
  - destruct (same_alloc _ _ HS) as [H1 H2]. destruct (r_alloc r1), (r_alloc r2). simpl in *. subst. auto.
  - destruct (same_alloc _ _ HS) as [H1 H2]. destruct (r_alloc r1), (r_alloc r2). simpl in *. subst. auto.
  - destruct (same_free _ _ i HS) as [H1 H2]. destruct (r_free resolve r1 i), (r_free resolve r2 i). simpl in *. subst. auto.
  - destruct (same_realloc _ _ i HS) as [H1 H2]. destruct (r_realloc resolve r1 i), (r_realloc resolve r2 i). simpl in *. subst. auto.
  - rewrite <- (sm_f _ _ HS). split; [apply same_with_f; exact HS|reflexivity].
  - split; [apply same_with_f; exact HS|reflexivity].
Qed.

Lemma same_run : forall ops r1 r2, Same r1 r2 -> rrun_from r1 ops = rrun_from r2 ops.
Proof.
  induction ops as [|o t IH]; intros r1 r2 HS.
  - unfold rrun_from. simpl. rewrite (sm_slots _ _ HS), (sm_lost _ _ HS). reflexivity.
  - destruct (same_step _ _ o HS) as [H1 H2]. unfold rrun_from, rstep in *. simpl.
    destruct (rstep_gen resolve r1 o) as [r1' i1], (rstep_gen resolve r2 o) as [r2' i2]. simpl in *. subst i2.
    destruct i1; [f_equal|]; apply IH; exact H1.
Qed.

Definition forget_for (r : rst) : rst :=
  {| r_c := r_c r; r_for := None; r_f := r_f r; r_slots := r_slots r; r_lost := r_lost r |}.

(* clearing the injection restores normal behaviour: after cpputest_malloc_set_not_out_of_memory at any point of any valid
   history the three variables read as at the start (no countdown, nothing saved, the allocator of the start current), and
   whatever follows runs exactly as from the state in which the stand-in was never told anything -- only the blocks (and
   a failable allocator's own pending list) carry over *)
Theorem reset_restores : forall b pre suf,
  valid (SRel b (pre ++ RSetNot :: suf)) = true ->
  let r := rmrun (rst0 b) (pre ++ [RSetNot]) in
  c_counter (r_c r) = -1 /\ c_orig (r_c r) = None /\ get_cur (r_c r) = b /\
  rrun_from r suf = rrun_from (forget_for r) suf.
Proof.
  intros b pre suf H r.
  assert (H' : valid (SRel b ((pre ++ [RSetNot]) ++ suf)) = true) by (rewrite <- app_assoc; exact H).
  destruct (reach _ _ _ H') as (Hb & HI & _).
  assert (Hq : q_arm (qrun b qst0 (pre ++ [RSetNot])) = None).
  { clear. generalize qst0. induction pre as [|o t IH]; intros s; simpl; [reflexivity|apply IH]. }
  pose proof (ri_c _ _ _ HI) as Hc. rewrite Hq in Hc. simpl in Hc. destruct Hc as (Hcn & Ho & Hg).
  fold r in HI, Hcn, Ho, Hg. repeat split; auto.
  apply same_run. constructor; simpl; auto.
  - intros E. rewrite Hg in E. destruct (not_null_neq _ Hb E).
  - pose proof (ri_slots _ _ _ HI) as Hs. fold r in Hs. clear - Hs Hb.
    induction Hs as [|x y l q Hxy Hs IH]; constructor; auto.
    intros E. subst x. destruct y; simpl in Hxy; try contradiction. subst b. discriminate Hb.
  - rewrite Ho. discriminate.
  - intros _. rewrite Hg. apply not_null_neq. exact Hb.
Qed.

(* the failable allocator's clearFailedAllocs inside such a history: its pending list is the initial one again *)
Theorem rel_clear_restores : forall b pre, r_f (rmrun (rst0 b) (pre ++ [RClearF])) = st0.
Proof. intros b pre. unfold rmrun. rewrite rmrun_app. reflexivity. Qed.

(* ------------------------------------------------------------------ the code before 4104eb1 *)
Definition release_old_stmt : Prop :=
  forall b ops, valid (SRel b ops) = true -> spec (SRel b ops) (run_old (SRel b ops)) = true.
(* malloc; set_out_of_memory; free: the release raised 'Allocation/deallocation type mismatch' and the block was kept *)
Definition witness_release : list rop := [RAlloc CMalloc; RSetOOM; RFree 0].
Theorem release_old_refuted : ~ release_old_stmt.
Proof. intros H. specialize (H ADefault witness_release eq_refl). vm_compute in H. discriminate H. Qed.

(* ---- the hypotheses are satisfiable by non-trivial scenarios *)
Example ex_release_witness :
  valid (SRel ADefault witness_release) = true
  /\ run (SRel ADefault witness_release) = [OAlloc ROk; OFree false true; OEnd 0 true]
  /\ run_old (SRel ADefault witness_release) = [OAlloc ROk; OFree true false; OEnd 0 false].
Proof. repeat split; vm_compute; reflexivity. Qed.
Definition ex_rel_ops : list rop :=
  [RAlloc CMalloc; RAlloc CStrdup; RCountdown 2; RAlloc CCalloc; RRealloc 0 16; RAlloc CMalloc; RRealloc 0 32; RDup CStrdup 1;
   RFree 1; RFree 3; RSetNot; RRealloc 3 8; RFree 0; RAlloc CStrndup].
Example ex_rel_valid :
  valid (SRel ACustom ex_rel_ops) = true
  /\ run (SRel ACustom ex_rel_ops)
     = [OAlloc ROk; OAlloc ROk; OAlloc ROk; ORealloc ROk false true; OAlloc RNull; ORealloc RNull false true; ODup RNull true;
        OFree false true; OFree false false; OReset ACustom; ORealloc ROk false true; OFree false true; OAlloc ROk; OEnd 3 true].
Proof. split; vm_compute; reflexivity. Qed.
Example ex_rel_failable :
  valid (SRel AFailable [RAlloc CMalloc; RFailG 3; RAlloc CMalloc; RAlloc CMalloc; RFree 0; RRealloc 1 16; RSetOOM; RFree 1; RSetNot; RClearF; RAlloc CMalloc]) = true
  /\ run (SRel AFailable [RAlloc CMalloc; RFailG 3; RAlloc CMalloc; RAlloc CMalloc; RFree 0; RRealloc 1 16; RSetOOM; RFree 1; RSetNot; RClearF; RAlloc CMalloc])
     = [OAlloc ROk; OAlloc ROk; OAlloc RNull; OFree false true; ORealloc ROk false true; OFree false true; OReset AFailable; OAlloc ROk; OEnd 1 true].
Proof. split; vm_compute; reflexivity. Qed.
Example ex_reset_restores :
  valid (SRel ADefault ([RAlloc CMalloc; RSetOOM; RAlloc CMalloc] ++ RSetNot :: [RFree 0; RAlloc CMalloc])) = true.
Proof. vm_compute; reflexivity. Qed.
Example ex_realloc_under_oom :
  valid (SRel ADefault ([RAlloc CMalloc; RCountdown 1; RAlloc CMalloc] ++ RRealloc 0 16 :: [])) = true
  /\ nth_error (r_slots (rmrun (rst0 ADefault) [RAlloc CMalloc; RCountdown 1; RAlloc CMalloc])) 0 = Some (SLive ADefault)
  /\ q_oom_now (qrun ADefault qst0 [RAlloc CMalloc; RCountdown 1; RAlloc CMalloc]) = true.
Proof. repeat split; vm_compute; reflexivity. Qed.
Example ex_realloc_otherwise :
  valid (SRel ADefault ([RAlloc CMalloc; RCountdown 2; RAlloc CMalloc] ++ RRealloc 0 16 :: [])) = true
  /\ nth_error (r_slots (rmrun (rst0 ADefault) [RAlloc CMalloc; RCountdown 2; RAlloc CMalloc])) 0 = Some (SLive ADefault)
  /\ q_oom_now (qrun ADefault qst0 [RAlloc CMalloc; RCountdown 2; RAlloc CMalloc]) = false.
Proof. repeat split; vm_compute; reflexivity. Qed.
