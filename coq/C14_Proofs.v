(* C14 -- lemmas, part (a): the fixed text buffer. *)
From Coq Require Import NArith ZArith Bool List Lia ZifyBool.
From CppUVerif Require Import lib.CInt lib.Str gen.Gen_Common gen.Gen_C14 C14_Model.
Import ListNotations.
Local Open Scope N_scope.

Ltac nmm := repeat match goal with
  | |- context[N.min ?a ?b] => let h := fresh in destruct (N.min_spec a b) as [[h ->]|[h ->]]
  | |- context[N.max ?a ?b] => let h := fresh in destruct (N.max_spec a b) as [[h ->]|[h ->]]
  end.

(* ------------------------------------------------------------------ constants (re-checked against the generated files) *)
Lemma buf_len_pos : 1 <= buf_len.
Proof. unfold buf_len, simple_string_buffer_len. lia. Qed.
Lemma report_limit_small : report_limit <= buf_len - 1.
Proof. apply N.leb_le. vm_compute. reflexivity. Qed.
(* from the report limit the notice, the footer with a 10-digit total and the malloc note still fit *)
Lemma footer_fits_const :
  report_limit + too_much_len + (footer_len + footer_fmt_lit + footer_digits_reserved) + malloc_warning_len <= buf_len - 1.
Proof. apply N.leb_le. vm_compute. reflexivity. Qed.
Lemma footer_digits_10 : footer_digits_reserved = 10.
Proof. reflexivity. Qed.

(* ------------------------------------------------------------------ digit counts *)
Lemma ndigits_le : forall (k : nat) fuel n, n < 10 ^ N.of_nat (S k) -> ndigits_f 10 fuel n <= N.of_nat (S k).
Proof.
  induction k as [|k IH]; intros fuel n H.
  - change (10 ^ N.of_nat 1) with 10 in H. destruct fuel; cbn [ndigits_f]; [lia|].
    destruct (N.ltb_spec n 10); lia.
  - destruct fuel; cbn [ndigits_f]; [lia|].
    destruct (N.ltb_spec n 10); [lia|].
    assert (n / 10 < 10 ^ N.of_nat (S k)).
    { apply N.div_lt_upper_bound; [lia|]. rewrite <- N.pow_succ_r'. rewrite <- Nat2N.inj_succ. exact H. }
    specialize (IH fuel (n / 10) H1). lia.
Qed.
Lemma int_len_small : forall n, n <= int_max -> int_len n <= 10 /\ int_of_size n = Z.of_N n.
Proof.
  intros n H. unfold int_len. unfold int_max in H.
  assert (E : int_of_size n = Z.of_N n).
  { unfold int_of_size. apply cast_id'. cbn. lia. }
  split; [|exact E]. rewrite E.
  destruct (Z.ltb_spec (Z.of_N n) 0); [lia|]. rewrite N2Z.id.
  unfold dec_digits. apply (ndigits_le 9). change (10 ^ N.of_nat 10) with 10000000000. lia.
Qed.

(* ------------------------------------------------------------------ the invariant of every reachable buffer *)
Definition inv (b : buf) : Prop :=
  maxw b < buf_len /\ slen b = filled b /\ limit b <= buf_len - 1 /\ filled b <= buf_len - 1.

Lemma add_limit b c : limit (add b c) = limit b.
Proof. unfold add, write. destruct (limit b <=? filled b); reflexivity. Qed.

Lemma add_inv b c : inv b -> inv (add b c).
Proof.
  pose proof buf_len_pos as P. unfold inv, add, write. intros (H1 & H2 & H3 & H4).
  destruct (N.leb_spec (limit b) (filled b)); cbn [maxw slen limit filled]; [auto|].
  rewrite H2, N.ltb_irrefl.
  destruct (N.ltb_spec (limit b) (filled b + c)); nmm; lia.
Qed.
Lemma adds_inv b cs : inv b -> inv (adds add b cs).
Proof. unfold adds. revert b. induction cs as [|c cs IH]; intros b H; cbn; [exact H|]. apply IH, add_inv, H. Qed.
Lemma adds_limit b cs : limit (adds add b cs) = limit b.
Proof. unfold adds. revert b. induction cs as [|c cs IH]; intros b; cbn; [reflexivity|]. rewrite IH. apply add_limit. Qed.

Lemma inv_init : inv buf_init.
Proof. pose proof buf_len_pos. unfold inv, buf_init; cbn [filled limit slen maxw trunc]. lia. Qed.
Lemma inv_clear b : inv b -> inv (buf_clear b).
Proof. unfold inv, buf_clear; cbn [filled limit slen maxw trunc]. lia. Qed.
Lemma inv_set_limit b l : inv b -> inv (set_limit b l).
Proof. unfold inv, set_limit; cbn [filled limit slen maxw trunc]. intros. destruct (N.ltb_spec (buf_len - 1) l); lia. Qed.
Lemma inv_reset_limit b : inv b -> inv (reset_limit b).
Proof. unfold inv, reset_limit; cbn [filled limit slen maxw trunc]. lia. Qed.
Lemma inv_reset_trunc b : inv b -> inv (reset_trunc b).
Proof. unfold inv, reset_trunc; cbn [filled limit slen maxw trunc]. lia. Qed.
#[export] Hint Resolve add_inv adds_inv inv_init inv_clear inv_set_limit inv_reset_limit inv_reset_trunc : c14.

Lemma inv_obs b : inv b -> bounded_obs (obs_len b) (canary_ok b) = true.
Proof.
  pose proof buf_len_pos. unfold inv, bounded_obs, obs_len, canary_ok. intros (H1 & H2 & H3 & H4).
  apply andb_true_iff. split; apply N.ltb_lt; lia.
Qed.

(* ------------------------------------------------------------------ truncation bookkeeping while the limit is fixed *)
Definition tq (b : buf) : Prop := filled b <= limit b /\ (trunc b = true -> filled b = limit b).
Lemma add_tq b c : tq b -> tq (add b c).
Proof.
  unfold tq, add, write. intros (H1 & H2).
  destruct (N.leb_spec (limit b) (filled b)); cbn [maxw slen limit filled trunc].
  - split; [lia|]. intros _. lia.
  - destruct (N.ltb_spec (limit b) (filled b + c)); (split; [lia|]); intros T.
    + reflexivity.
    + apply orb_true_iff in T. destruct T as [T|T]; [specialize (H2 T); lia|]. apply N.ltb_lt in T. lia.
Qed.
Lemma adds_tq b cs : tq b -> tq (adds add b cs).
Proof. unfold adds. revert b. induction cs as [|c cs IH]; intros b H; cbn; [exact H|]. apply IH, add_tq, H. Qed.
Lemma add_full b c : filled b = limit b -> filled (add b c) = limit b.
Proof. unfold add. intros H. destruct (N.leb_spec (limit b) (filled b)); [cbn; exact H | lia]. Qed.
Lemma adds_full b cs : filled b = limit b -> filled (adds add b cs) = limit b.
Proof.
  unfold adds. revert b. induction cs as [|c cs IH]; intros b H; cbn; [exact H|].
  rewrite IH; [apply add_limit|]. rewrite add_limit. apply add_full, H.
Qed.
(* an add that fits is stored completely *)
Lemma add_fits b c : filled b + c <= limit b ->
  filled (add b c) = filled b + c /\ trunc (add b c) = trunc b /\ limit (add b c) = limit b.
Proof.
  unfold add, write. intros H.
  destruct (N.leb_spec (limit b) (filled b)); cbn [maxw slen limit filled trunc].
  - assert (c = 0) by lia. subst c. rewrite N.add_0_r, orb_false_r. auto.
  - destruct (N.ltb_spec (limit b) (filled b + c)); [lia|].
    destruct (N.ltb_spec (limit b - filled b) c); [lia|]. rewrite orb_false_r. auto.
Qed.

(* ------------------------------------------------------------------ the leak loop of a report *)
Section Report.
  Variable plen : N.
  Variable L : N.                                     (* the write limit during the loop *)

  Definition loop_ok (k : N) (sc : st * N) : Prop :=
    let (s, c) := sc in
    inv (sb s) /\ limit (sb s) = L /\ total s = k /\ c <= k /\
    (filled (sb s) <= L -> (c < k -> filled (sb s) = L)).
  Definition loop_le (sc : st * N) : Prop := filled (sb (fst sc)) <= L.

  Lemma report_leak_ok k sc l : loop_ok k sc -> loop_ok (k + 1) (report_leak add plen sc l).
  Proof.
    destruct sc as [s c]. unfold loop_ok, report_leak. intros (I & HL & HT & HC & HF).
    set (b0 := reset_trunc (sb s)).
    set (b1 := if total s =? 0 then adds add b0 [leak_header_len] else b0).
    set (b2 := adds add b1 (entry_len plen (seq s) l :: dump_counts (l_size l))).
    assert (I0 : inv b0) by (apply inv_reset_trunc, I).
    assert (I1 : inv b1) by (unfold b1; destruct (total s =? 0); auto with c14).
    assert (I2 : inv b2) by (apply adds_inv, I1).
    assert (L0 : limit b0 = L) by exact HL.
    assert (L1 : limit b1 = L) by (unfold b1; destruct (total s =? 0); [rewrite adds_limit|]; exact L0).
    assert (L2 : limit b2 = L) by (unfold b2; rewrite adds_limit; exact L1).
    cbn [sb total fst snd]. split; [exact I2|]. split; [exact L2|]. split; [lia|]. split.
    - destruct (trunc b2); lia.
    - intros Hle.
      (* filled never decreases below... we argue by cases on whether the buffer was within the limit before *)
      destruct (N.le_gt_cases (filled (sb s)) L) as [Hin|Hout].
      + assert (T0 : tq b0) by (unfold tq, b0, reset_trunc; cbn; split; [lia | discriminate]).
        assert (T1 : tq b1) by (unfold b1; destruct (total s =? 0); [apply adds_tq|]; exact T0).
        assert (T2 : tq b2) by (apply adds_tq, T1).
        destruct (trunc b2) eqn:TR.
        * intros _. destruct T2 as [_ T2]. rewrite (T2 TR). exact L2.
        * intros Hc. assert (Hck : c < k) by lia. specialize (HF Hin Hck).
          assert (F1 : filled b1 = limit b1).
          { unfold b1. destruct (total s =? 0).
            - rewrite adds_limit, adds_full; [reflexivity | rewrite L0; exact HF].
            - rewrite L0. exact HF. }
          unfold b2. rewrite adds_full; [exact L1 | exact F1].
      + (* beyond the limit nothing is ever added: filled stays where it was *)
        exfalso.
        assert (G : forall b cs, limit b < filled b -> filled (adds add b cs) = filled b /\ limit (adds add b cs) = limit b).
        { clear. intros b cs. unfold adds. revert b. induction cs as [|x cs IH]; intros b H; cbn; [auto|].
          assert (E : add b x = {| filled := filled b; limit := limit b; slen := slen b; maxw := maxw b; trunc := trunc b || (0 <? x) |}).
          { unfold add. destruct (N.leb_spec (limit b) (filled b)); [reflexivity | lia]. }
          rewrite E. match goal with |- context[fold_left add cs ?R] => apply (IH R); cbn; exact H end. }
        assert (F1 : filled b1 = filled (sb s) /\ limit b1 = L).
        { unfold b1. destruct (total s =? 0); [|auto]. destruct (G b0 [leak_header_len]) as [A B]; [rewrite L0; exact Hout|]. split; [exact A | rewrite B; exact L0]. }
        destruct F1 as [F1 F1'].
        destruct (G b1 (entry_len plen (seq s) l :: dump_counts (l_size l))) as [A B]; [lia|].
        fold b2 in A. lia.
  Qed.

  Lemma report_loop_ok leaks : forall k sc, loop_ok k sc ->
    loop_ok (k + N.of_nat (length leaks)) (fold_left (report_leak add plen) leaks sc).
  Proof.
    induction leaks as [|l r IH]; intros k sc H; cbn [fold_left length].
    - rewrite N.add_0_r. exact H.
    - rewrite Nat2N.inj_succ, <- N.add_1_l, N.add_assoc. apply IH, report_leak_ok, H.
  Qed.

  (* within the limit the fill position never passes it *)
  Lemma report_leak_le sc l : limit (sb (fst sc)) = L -> loop_le sc ->
    loop_le (report_leak add plen sc l) /\ limit (sb (fst (report_leak add plen sc l))) = L.
  Proof.
    destruct sc as [s c]. unfold loop_le, report_leak. cbn [fst]. intros HL H.
    set (b0 := reset_trunc (sb s)).
    set (b1 := if total s =? 0 then adds add b0 [leak_header_len] else b0).
    assert (T0 : tq b0) by (unfold tq, b0, reset_trunc; cbn; split; [lia | discriminate]).
    assert (T1 : tq b1) by (unfold b1; destruct (total s =? 0); [apply adds_tq|]; exact T0).
    assert (L1 : limit b1 = L) by (unfold b1; destruct (total s =? 0); [rewrite adds_limit|]; exact HL).
    pose proof (adds_tq b1 (entry_len plen (seq s) l :: dump_counts (l_size l)) T1) as [T2 _].
    rewrite adds_limit in T2. cbn [sb fst]. rewrite adds_limit. split; [lia | exact L1].
  Qed.
  Lemma report_loop_le leaks : forall sc, limit (sb (fst sc)) = L -> loop_le sc ->
    loop_le (fold_left (report_leak add plen) leaks sc).
  Proof.
    induction leaks as [|l r IH]; intros sc HL H; cbn [fold_left]; [exact H|].
    destruct (report_leak_le sc l HL H) as [A B]. apply IH; assumption.
  Qed.
End Report.

(* ------------------------------------------------------------------ every operation keeps the invariant *)
Lemma do_report_inv plen s leaks : inv (sb s) -> inv (sb (fst (do_report add plen s leaks))).
Proof.
  intros I. unfold do_report.
  set (s1 := {| sb := set_limit (sb s) report_limit; total := 0; warn := false; seq := seq s |}).
  assert (H1 : loop_ok (limit (sb s1)) 0 (s1, 0)).
  { unfold loop_ok, s1; cbn [sb total]. split; [auto with c14|]. split; [reflexivity|]. split; [reflexivity|]. split; [lia|]. intros _ Hc. lia. }
  pose proof (report_loop_ok plen _ leaks 0 (s1, 0) H1) as H2.
  destruct (fold_left (report_leak add plen) leaks (s1, 0)) as [s2 c2].
  destruct H2 as (I2 & _).
  destruct (total s2 =? 0); cbn [fst sb]; [auto with c14|].
  destruct (warn s2); destruct (reached_capacity (sb s2)); auto 10 with c14.
Qed.
Lemma step_inv plen s o : inv (sb s) -> inv (sb (fst (step add plen s o))).
Proof.
  intros I. destruct o; cbn [step fst sb]; auto with c14. apply do_report_inv, I.
Qed.
Lemma steps_inv plen ops : forall s, inv (sb s) -> inv (sb (fst (steps add plen s ops))).
Proof.
  induction ops as [|o r IH]; intros s I; cbn [steps]; [exact I|].
  pose proof (step_inv plen s o I) as I1. destruct (step add plen s o) as [s1 ob]. cbn [fst] in I1.
  specialize (IH s1 I1). destruct (steps add plen s1 r) as [s2 obs]. exact IH.
Qed.

(* all indices ever written are inside the buffer and the text ends where the fill position says, in every reachable state *)
Theorem buffer_bounded : forall plen ops,
  let b := sb (fst (steps add plen st_init ops)) in
  maxw b < buf_len /\ slen b = filled b /\ filled b < buf_len.
Proof.
  intros plen ops b. pose proof buf_len_pos.
  destruct (steps_inv plen ops st_init inv_init) as (A & B & C & D). fold b in A, B, C, D. lia.
Qed.

(* ------------------------------------------------------------------ a report begun on a cleared buffer *)
Lemma do_report_cleared plen s leaks :
  inv (sb s) -> filled (sb s) = 0 ->
  let n := N.of_nat (length leaks) in
  0 < n -> n <= int_max ->
  match snd (do_report add plen s leaks) with
  | ORep len c tot notice complete _ _ =>
      bounded_obs len c = true /\ tot = Some (Z.of_N n) /\ (complete < n -> notice = true)
  | _ => False
  end.
Proof.
  intros I F0 n Hn Hmax. pose proof (do_report_inv plen s leaks I) as IR. unfold do_report in *.
  set (s1 := {| sb := set_limit (sb s) report_limit; total := 0; warn := false; seq := seq s |}) in *.
  assert (LL : limit (sb s1) = report_limit).
  { unfold s1, set_limit; cbn. pose proof report_limit_small. destruct (N.ltb_spec (buf_len - 1) report_limit); lia. }
  assert (H1 : loop_ok report_limit 0 (s1, 0)).
  { unfold loop_ok. split; [unfold s1; cbn [sb]; auto with c14|]. split; [exact LL|]. split; [reflexivity|]. split; [lia|]. intros _ Hc. lia. }
  assert (H0 : loop_le report_limit (s1, 0)).
  { unfold loop_le, s1, set_limit; cbn. rewrite F0. lia. }
  pose proof (report_loop_ok plen _ leaks 0 (s1, 0) H1) as H2.
  pose proof (report_loop_le plen _ leaks (s1, 0) LL H0) as H3.
  destruct (fold_left (report_leak add plen) leaks (s1, 0)) as [s2 c2].
  unfold loop_le in H3. cbn [fst] in H3.
  destruct H2 as (I2 & L2 & T2 & C2 & F2). rewrite N.add_0_l in T2, C2, F2. fold n in T2, C2, F2.
  specialize (F2 H3).
  destruct (N.eqb_spec (total s2) 0) as [E|_]; [lia|]. cbn [fst snd] in *.
  rewrite T2. rewrite T2 in IR. destruct (int_len_small n Hmax) as [D10 DZ].
  pose proof footer_fits_const as K. rewrite footer_digits_10 in K.
  set (b0 := reset_trunc (reset_limit (sb s2))).
  assert (B0 : filled b0 = filled (sb s2) /\ limit b0 = buf_len - 1 /\ trunc b0 = false) by (unfold b0; cbn; auto).
  destruct B0 as (B0f & B0l & B0t).
  set (cap := reached_capacity (sb s2)).
  set (b1 := if cap then adds add b0 [too_much_len] else b0).
  assert (B1 : filled b1 <= report_limit + too_much_len /\ limit b1 = buf_len - 1 /\ trunc b1 = false).
  { unfold b1. destruct cap.
    - cbn [adds fold_left]. destruct (add_fits b0 too_much_len) as (A1 & A2 & A3); [lia|]. rewrite A1, A2, A3. lia.
    - lia. }
  destruct B1 as (B1f & B1l & B1t).
  set (b2 := adds add (reset_trunc b1) [footer_len + footer_fmt_lit + int_len n]).
  assert (B2 : filled b2 <= report_limit + too_much_len + (footer_len + footer_fmt_lit + 10) /\ limit b2 = buf_len - 1 /\ trunc b2 = false).
  { unfold b2. cbn [adds fold_left].
    destruct (add_fits (reset_trunc b1) (footer_len + footer_fmt_lit + int_len n)) as (A1 & A2 & A3);
      [unfold reset_trunc; cbn [filled limit]; lia|].
    rewrite A1, A2, A3. unfold reset_trunc; cbn [filled limit trunc]. split; [lia|]. split; [exact B1l | reflexivity]. }
  destruct B2 as (B2f & B2l & B2t).
  fold b0 cap b1 b2 in IR |- *.
  rewrite B1t, B2t, andb_true_r.
  assert (NT : c2 < n -> cap = true).
  { intros Hc. unfold cap, reached_capacity. rewrite L2, (F2 Hc). apply N.leb_refl. }
  destruct (warn s2); (split; [apply inv_obs; exact IR | split; [rewrite DZ; reflexivity | exact NT]]).
Qed.

(* ------------------------------------------------------------------ run meets spec, part (a) *)
Lemma step_bounded plen s o : inv (sb s) ->
  match snd (step add plen s o) with
  | OClr len c _ _ | OMis len c _ _ | ORep len c _ _ _ _ _ => bounded_obs len c = true
  end.
Proof.
  intros I. pose proof (step_inv plen s o I) as I1.
  destruct o; cbn [step snd fst] in *; try (apply inv_obs; exact I1).
  unfold do_report in *.
  destruct (fold_left (report_leak add plen) leaks _) as [s2 c2].
  destruct (total s2 =? 0); cbn [snd fst sb] in *; apply inv_obs; exact I1.
Qed.

Lemma steps_meet_spec plen ops : forall s cleared,
  valid_buf ops = true -> inv (sb s) -> (cleared = true -> filled (sb s) = 0) ->
  spec_buf_from cleared ops (snd (steps add plen s ops)) = true.
Proof.
  induction ops as [|o r IH]; intros s cleared V I C; cbn [steps]; [reflexivity|].
  cbn [valid_buf forallb] in V. apply andb_true_iff in V. destruct V as [Vo Vr].
  pose proof (step_inv plen s o I) as I1. pose proof (step_bounded plen s o I) as B1.
  destruct o as [|kind afl aline asize anl ffl fline fnl|leaks].
  - cbn [step] in *. cbn [fst snd] in *.
    specialize (IH _ true Vr I1 (fun _ => eq_refl)).
    destruct (steps add plen _ r) as [s2 obs]. cbn [snd spec_buf_from] in *. rewrite B1. exact IH.
  - cbn [step] in *. cbn [fst snd] in *.
    assert (IH' := IH _ false Vr I1). destruct (steps add plen _ r) as [s2 obs]. cbn [snd spec_buf_from] in *.
    rewrite B1. apply IH'. discriminate.
  - cbn [step] in *.
    assert (CL : cleared = true -> 0 < N.of_nat (length leaks) ->
                 match snd (do_report add plen s leaks) with
                 | ORep len c tot notice complete _ _ =>
                     tot = Some (Z.of_N (N.of_nat (length leaks))) /\ (complete < N.of_nat (length leaks) -> notice = true)
                 | _ => False end).
    { intros Hc Hn. cbn [op_ok] in Vo. apply andb_true_iff in Vo. destruct Vo as [_ Vn]. apply N.leb_le in Vn.
      pose proof (do_report_cleared plen s leaks I (C Hc) Hn Vn) as D.
      destruct (snd (do_report add plen s leaks)); try exact D. tauto. }
    destruct (do_report add plen s leaks) as [s1 ob] eqn:E. cbn [fst snd] in *.
    assert (IH' := IH s1 false Vr I1). destruct (steps add plen s1 r) as [s2 obs]. cbn [snd] in *.
    assert (K : exists len c tot notice complete f l, ob = ORep len c tot notice complete f l).
    { unfold do_report in E. destruct (fold_left (report_leak add plen) leaks _) as [s3 c3].
      destruct (total s3 =? 0); inversion E; do 7 eexists; reflexivity. }
    destruct K as (len & c & tot & notice & complete & f & l & ->).
    cbn [spec_buf_from]. rewrite B1, IH' by discriminate. rewrite andb_true_r. cbn [andb].
    destruct cleared; cbn [andb]; [|reflexivity].
    destruct (N.ltb_spec 0 (N.of_nat (length leaks))) as [Hn|Hn]; [|reflexivity].
    destruct (CL eq_refl Hn) as [-> NT]. rewrite Z.eqb_refl. cbn [andb].
    destruct (N.ltb_spec complete (N.of_nat (length leaks))); [apply NT; assumption | reflexivity].
Qed.

Theorem run_buf_meets_spec : forall plen ops, valid_buf ops = true -> spec_buf ops (run_buf plen ops) = true.
Proof.
  intros plen ops V. unfold spec_buf, run_buf. apply steps_meet_spec; [exact V | exact inv_init | reflexivity].
Qed.

(* ------------------------------------------------------------------ the code before the repair (D13) *)
Definition big_leak : leak := {| l_size := 256; l_flen := 32; l_line := 1; l_anl := 6; l_malloc := true |}.
Definition d13_witness : list op := [Rep (repeat big_leak 64); Rep []].
Lemma buffer_bounded_old_refuted :
  ~ (forall plen ops, valid_buf ops = true -> spec_buf ops (run_buf_old plen ops) = true).
Proof. intros H. specialize (H 10 d13_witness eq_refl). vm_compute in H. discriminate H. Qed.
Example buffer_bounded_witness_now : spec_buf d13_witness (run_buf 10 d13_witness) = true.
Proof. vm_compute. reflexivity. Qed.
