(* C08 -- proofs, part 4: the global mock and its named scopes.  The world of scopes (L) refines the family of per-scope
   reference states (M): configuration phase, expectation phase, interleaved calls, final mock().checkExpectations(); and on M the
   scenario passes iff every scope's own scenario passes. *)
From Coq Require Import ZArith NArith Bool List Lia.
From CppUVerif Require Import lib.CInt lib.Str C08_Model C08_Proofs C08_Proofs2.
Import ListNotations.
Local Open Scope N_scope.

(* ------------------------------------------------------------------ data_ : lookup and update *)
Lemma lookup_put_same s m kids : lookup_kid s (put_kid s m kids) = Some m.
Proof.
  induction kids as [|[t m'] r IH]; cbn.
  - rewrite N.eqb_refl. reflexivity.
  - destruct (t =? s) eqn:E; cbn; rewrite E; [reflexivity|exact IH].
Qed.
Lemma lookup_put_other s u m kids : u <> s -> lookup_kid u (put_kid s m kids) = lookup_kid u kids.
Proof.
  intro H. induction kids as [|[t m'] r IH]; cbn.
  - destruct (s =? u) eqn:E; [apply N.eqb_eq in E; congruence|reflexivity].
  - destruct (t =? s) eqn:E; cbn.
    + apply N.eqb_eq in E. subst t. destruct (s =? u) eqn:E2; [apply N.eqb_eq in E2; congruence|reflexivity].
    + destruct (t =? u); [reflexivity|exact IH].
Qed.
Lemma lookup_map_kids f u kids : lookup_kid u (map (fun k : N * mock => (fst k, f (snd k))) kids) = option_map f (lookup_kid u kids).
Proof. induction kids as [|[t m'] r IH]; cbn; [reflexivity|]. destruct (t =? u); [reflexivity|exact IH]. Qed.
Lemma lookup_none_keys u kids : lookup_kid u kids = None <-> ~ In u (map fst kids).
Proof.
  induction kids as [|[t m'] r IH]; cbn; [tauto|]. destruct (t =? u) eqn:E.
  - apply N.eqb_eq in E. split; [discriminate|]. intro H. exfalso. apply H. left. exact E.
  - apply N.eqb_neq in E. rewrite IH. tauto.
Qed.
Lemma keys_put s m kids : map fst (put_kid s m kids) = if existsb (N.eqb s) (map fst kids) then map fst kids else map fst kids ++ [s].
Proof.
  induction kids as [|[t m'] r IH]; cbn; [reflexivity|]. rewrite (N.eqb_sym s t). destruct (t =? s) eqn:E; cbn; [reflexivity|].
  rewrite IH. destruct (existsb (N.eqb s) (map fst r)); reflexivity.
Qed.
Lemma keys_put_mention s m kids : s <> 0 -> map fst (put_kid s m kids) = mention (map fst kids) s.
Proof. intro H. rewrite keys_put. unfold mention. apply N.eqb_neq in H. rewrite H. reflexivity. Qed.
Lemma mention_0 acc : mention acc 0 = acc. Proof. reflexivity. Qed.

Lemma existsb_eqb_In s l : existsb (N.eqb s) l = true <-> In s l.
Proof.
  rewrite existsb_exists. split.
  - intros [x [Hx E]]. apply N.eqb_eq in E. subst. exact Hx.
  - intro H. exists s. split; [exact H|apply N.eqb_refl].
Qed.
Lemma In_mention s acc t : In s (mention acc t) <-> In s acc \/ (s = t /\ t <> 0).
Proof.
  unfold mention. destruct (t =? 0) eqn:E0; cbn [orb].
  - apply N.eqb_eq in E0. split; [auto|]. intros [H|[_ H]]; [exact H|congruence].
  - apply N.eqb_neq in E0. destruct (existsb (N.eqb t) acc) eqn:E.
    + apply existsb_eqb_In in E. split; [auto|]. intros [H|[H _]]; [exact H|subst; exact E].
    + rewrite in_app_iff. cbn. split.
      * intros [H|[H|[]]]; [auto|right; auto].
      * intros [H|[H _]]; [auto|right; left; auto].
Qed.
Lemma In_fold_mention s : forall l acc, In s (fold_left mention l acc) <-> In s acc \/ (In s l /\ s <> 0).
Proof.
  induction l as [|t r IH]; intro acc; cbn; [tauto|]. rewrite IH, In_mention. split.
  - intros [[H|[H1 H2]]|[H1 H2]]; [auto|subst; auto|auto].
  - intros [H|[[H|H] H2]]; [auto|subst; auto|auto].
Qed.
Lemma fold_mention_app l1 l2 acc : fold_left mention (l1 ++ l2) acc = fold_left mention l2 (fold_left mention l1 acc).
Proof. apply fold_left_app. Qed.

(* ------------------------------------------------------------------ the mocks the first two phases build *)
Definition flagged (st ig : bool) : mock :=
  {| m_exps := []; m_aorder := 0; m_eorder := 0; m_strict := st; m_ignore := ig; m_enabled := true; m_last := None |}.
Definition built (st ig : bool) (es : list sexp) : mock := fold_left expect_s es (flagged st ig).
Definition mock_of (s : N) (w : world) : mock := if s =? 0 then w_g w else kid s w.

Lemma mock_of_0 w : mock_of 0 w = w_g w. Proof. reflexivity. Qed.
Lemma mock_of_kid s w : s <> 0 -> mock_of s w = kid s w.
Proof. intro H. unfold mock_of. apply N.eqb_neq in H. rewrite H. reflexivity. Qed.

Definition cfg_op (c : N * bool) : N * op := (fst c, if snd c then OIgnoreOtherCalls else OStrict).
Lemma add_no_effect a : add_effect a no_effect = a. Proof. destruct a. reflexivity. Qed.

Lemma ign_of_snoc cfg c s : ign_of (cfg ++ [c]) s = ign_of cfg s || (snd c && ((fst c =? 0) || (fst c =? s))).
Proof. unfold ign_of. rewrite existsb_app. cbn. rewrite orb_false_r. reflexivity. Qed.
Lemma mentioned_rev {A} s (l : list (N * A)) : mentioned s (rev l) = mentioned s l.
Proof.
  unfold mentioned. induction l as [|c r IH]; cbn; [reflexivity|]. rewrite existsb_app, IH. cbn. rewrite orb_false_r. apply orb_comm.
Qed.
Lemma strict_of_snoc cfg c s :
  strict_of (cfg ++ [c]) s = strict_of cfg s || (negb (snd c) && ((fst c =? s) || ((fst c =? 0) && negb (mentioned s cfg)))).
Proof.
  unfold strict_of. rewrite rev_app_distr. destruct c as [t b]. change (rev [(t, b)]) with [(t, b)]. cbn [app strict_r fst snd].
  rewrite mentioned_rev. reflexivity.
Qed.
Lemma mentioned_In {A} s (l : list (N * A)) : mentioned s l = true <-> In s (map fst l).
Proof.
  unfold mentioned. rewrite existsb_exists. split.
  - intros [c [Hc E]]. apply N.eqb_eq in E. subst. apply in_map. exact Hc.
  - intro H. apply in_map_iff in H. destruct H as [c [E Hc]]. exists c. split; [exact Hc|]. subst. apply N.eqb_refl.
Qed.

(* configuration phase: every scope, created or not, is the empty mock with the flags the specification computes *)
Definition Jc (done : list (N * bool)) (w : world) : Prop :=
  (forall s, mock_of s w = flagged (strict_of done s) (ign_of done s)) /\
  map fst (w_kids w) = fold_left mention (map fst done) [].

Lemma Jc_created done w u : Jc done w -> u <> 0 -> (lookup_kid u (w_kids w) = None <-> mentioned u done = false).
Proof.
  intros [_ K] Hu. rewrite lookup_none_keys, K, In_fold_mention. split.
  - intro H. destruct (mentioned u done) eqn:E; [|reflexivity]. exfalso. apply H. right. split; [apply mentioned_In; exact E|exact Hu].
  - intros H [[]|[X _]]. apply mentioned_In in X. congruence.
Qed.

Lemma kid_put_same s m g kids : kid s {| w_g := g; w_kids := put_kid s m kids |} = m.
Proof. unfold kid. cbn. rewrite lookup_put_same. reflexivity. Qed.
Lemma kid_put_other s u m g kids : u <> s -> kid u {| w_g := g; w_kids := put_kid s m kids |} = kid u {| w_g := g; w_kids := kids |}.
Proof. intro H. unfold kid. cbn. rewrite (lookup_put_other s u m kids H). reflexivity. Qed.
Lemma world_eta w : {| w_g := w_g w; w_kids := w_kids w |} = w. Proof. destruct w. reflexivity. Qed.
Lemma kid_map_kids f u w : (forall g, clone (f g) = f (clone g)) -> kid u (map_kids f w) = f (kid u w).
Proof. intro H. unfold kid, map_kids. cbn. rewrite lookup_map_kids. destruct (lookup_kid u (w_kids w)); cbn; [reflexivity|apply H]. Qed.
Lemma mock_of_map_kids f u w : (forall g, clone (f g) = f (clone g)) -> mock_of u (map_kids f w) = f (mock_of u w).
Proof. intro H. unfold mock_of. destruct (u =? 0); [reflexivity|apply kid_map_kids; exact H]. Qed.

Lemma cfg_step done w c :
  Jc done w -> exists w', stepw true w (cfg_op c) = inl (w', no_effect) /\ Jc (done ++ [c]) w'.
Proof.
  intros J. pose proof J as [M K]. destruct c as [s b]. unfold cfg_op. cbn [fst snd].
  assert (KK : forall m, s <> 0 -> map fst (put_kid s m (w_kids w)) = fold_left mention (map fst (done ++ [(s, b)])) []).
  { intros m Hs. rewrite keys_put_mention by exact Hs. rewrite K, map_app, fold_mention_app. reflexivity. }
  assert (K0 : map fst (w_kids w) = fold_left mention (map fst (done ++ [(0, b)])) []).
  { rewrite K, map_app, fold_mention_app. reflexivity. }
  destruct (N.eq_dec s 0) as [->|Es].
  - destruct b.
    + (* mock().ignoreOtherCalls() reaches every scope *)
      exists (map_kids set_ignore w). split; [reflexivity|]. split; [|cbn; rewrite map_map; cbn; exact K0].
      intro u. rewrite (mock_of_map_kids set_ignore u w) by reflexivity. rewrite (M u), ign_of_snoc, strict_of_snoc. cbn [fst snd negb andb orb].
      rewrite N.eqb_refl, orb_false_r, orb_true_r. reflexivity.
    + (* mock().strictOrder() reaches mock() and the scopes not created yet *)
      exists {| w_g := set_strict (w_g w); w_kids := w_kids w |}. split; [reflexivity|]. split; [|exact K0].
      intro u. rewrite ign_of_snoc, strict_of_snoc. cbn [fst snd negb andb orb]. rewrite orb_false_r, N.eqb_refl. cbn [andb].
      destruct (N.eq_dec u 0) as [->|Eu].
      * rewrite mock_of_0. cbn [w_g]. specialize (M 0). rewrite mock_of_0 in M. rewrite M. cbn. rewrite orb_true_r. reflexivity.
      * rewrite (mock_of_kid u _ Eu). rewrite (proj2 (N.eqb_neq 0 u)) by congruence. cbn [orb].
        pose proof (Jc_created done w u J Eu) as CR. specialize (M u). rewrite (mock_of_kid u w Eu) in M. unfold kid in *. cbn [w_g w_kids].
        destruct (lookup_kid u (w_kids w)) eqn:L.
        -- destruct (mentioned u done) eqn:Me; [|exfalso; assert (X : Some m = None) by (apply CR; reflexivity); discriminate X].
           cbn. rewrite orb_false_r. exact M.
        -- rewrite (proj1 CR eq_refl). cbn [negb]. rewrite orb_true_r.
           change (clone (set_strict (w_g w))) with (set_strict (clone (w_g w))). rewrite M. reflexivity.
  - assert (E0 : (s =? 0) = false) by (apply N.eqb_neq; exact Es).
    exists {| w_g := w_g w; w_kids := put_kid s (if b then set_ignore (kid s w) else set_strict (kid s w)) (w_kids w) |}. split.
    + cbn. rewrite E0. destruct b; reflexivity.
    + split; [|apply KK; exact Es].
      intro u. rewrite ign_of_snoc, strict_of_snoc. cbn [fst snd]. rewrite E0. cbn [andb orb]. rewrite orb_false_r.
      destruct (N.eq_dec u 0) as [->|Eu].
      * rewrite mock_of_0. cbn [w_g]. rewrite ?E0. rewrite ?andb_false_r, ?orb_false_r. apply (M 0).
      * rewrite (mock_of_kid u _ Eu). destruct (N.eq_dec u s) as [->|Hne].
        -- rewrite kid_put_same, N.eqb_refl. rewrite <- (mock_of_kid s w Es), (M s). destruct b; cbn; rewrite ?orb_true_r, ?orb_false_r; reflexivity.
        -- rewrite (kid_put_other s u _ _ _ Hne), world_eta. rewrite (proj2 (N.eqb_neq s u)) by congruence.
           rewrite !andb_false_r, !orb_false_r. rewrite <- (mock_of_kid u w Eu). apply (M u).
Qed.

Lemma run_cfg : forall todo done w i rest a,
  Jc done w -> exists w', runw_from true w i (map cfg_op todo ++ rest) a = runw_from true w' (i + N.of_nat (length todo)) rest a /\ Jc (done ++ todo) w'.
Proof.
  induction todo as [|c r IH]; intros done w i rest a J.
  - exists w. cbn. rewrite N.add_0_r, app_nil_r. auto.
  - destruct (cfg_step done w c J) as [w1 [S1 J1]]. destruct (IH (done ++ [c]) w1 (i + 1) rest a J1) as [w2 [S2 J2]].
    exists w2. cbn [map app runw_from]. rewrite S1, add_no_effect, S2. rewrite <- app_assoc in J2. split; [|exact J2].
    f_equal. cbn [length]. lia.
Qed.

(* expectation phase *)
Definition Je (cfg : list (N * bool)) (done : list (N * sexp)) (w : world) : Prop :=
  (forall s, mock_of s w = built (strict_of cfg s) (ign_of cfg s) (of_scope s done)) /\
  map fst (w_kids w) = fold_left mention (map fst cfg ++ map fst done) [].
Definition expw_op (x : N * sexp) : N * op := (fst x, exp_op (snd x)).

Lemma clone_expect g e : clone (expect_s g e) = clone g.
Proof. unfold expect_s, expect. destruct (m_enabled g) eqn:E; unfold clone; cbn; rewrite ?E; reflexivity. Qed.
Lemma of_scope_snoc {A} s (l : list (N * A)) t x : of_scope s (l ++ [(t, x)]) = if t =? s then of_scope s l ++ [x] else of_scope s l.
Proof. unfold of_scope. rewrite filter_app, map_app. cbn. destruct (t =? s); cbn; [reflexivity|apply app_nil_r]. Qed.
Lemma built_snoc st ig es e : built st ig (es ++ [e]) = expect_s (built st ig es) e.
Proof. unfold built. rewrite fold_left_app. reflexivity. Qed.

Lemma exp_step cfg done w x :
  Je cfg done w -> exists w', stepw true w (expw_op x) = inl (w', no_effect) /\ Je cfg (done ++ [x]) w'.
Proof.
  intros [M K]. destruct x as [s e]. unfold expw_op. cbn [fst snd].
  destruct (N.eq_dec s 0) as [->|Es].
  - exists {| w_g := expect_s (w_g w) e; w_kids := w_kids w |}. split; [reflexivity|]. split.
    + intro u. rewrite of_scope_snoc. destruct (N.eq_dec u 0) as [->|Eu].
      * rewrite mock_of_0. cbn [w_g]. rewrite N.eqb_refl, built_snoc. specialize (M 0). rewrite mock_of_0 in M. rewrite M. reflexivity.
      * rewrite (proj2 (N.eqb_neq 0 u)) by congruence. rewrite (mock_of_kid u _ Eu). specialize (M u). rewrite (mock_of_kid u w Eu) in M.
        unfold kid in *. cbn [w_g w_kids]. destruct (lookup_kid u (w_kids w)); [exact M|]. rewrite clone_expect. exact M.
    + cbn [w_kids]. rewrite K, map_app, app_assoc, (fold_mention_app _ (map fst [(0, e)])). reflexivity.
  - assert (E0 : (s =? 0) = false) by (apply N.eqb_neq; exact Es).
    exists {| w_g := w_g w; w_kids := put_kid s (expect_s (kid s w) e) (w_kids w) |}. split; [cbn; rewrite E0; reflexivity|]. split.
    + intro u. rewrite of_scope_snoc. destruct (N.eq_dec u 0) as [->|Eu].
      * rewrite mock_of_0. cbn [w_g]. rewrite E0. apply (M 0).
      * rewrite (mock_of_kid u _ Eu). destruct (N.eq_dec u s) as [->|Hne].
        -- rewrite kid_put_same, N.eqb_refl, built_snoc. rewrite <- (mock_of_kid s w Es), (M s). reflexivity.
        -- rewrite (kid_put_other s u _ _ _ Hne), world_eta. rewrite (proj2 (N.eqb_neq s u)) by congruence.
           rewrite <- (mock_of_kid u w Eu). apply (M u).
    + cbn [w_kids]. rewrite (keys_put_mention s _ _ Es), K, map_app, app_assoc, (fold_mention_app _ (map fst [(s, e)])). reflexivity.
Qed.
Lemma run_exps cfg : forall todo done w i rest a,
  Je cfg done w -> exists w', runw_from true w i (map expw_op todo ++ rest) a = runw_from true w' (i + N.of_nat (length todo)) rest a /\ Je cfg (done ++ todo) w'.
Proof.
  induction todo as [|c r IH]; intros done w i rest a J.
  - exists w. cbn. rewrite N.add_0_r, app_nil_r. auto.
  - destruct (exp_step cfg done w c J) as [w1 [S1 J1]]. destruct (IH (done ++ [c]) w1 (i + 1) rest a J1) as [w2 [S2 J2]].
    exists w2. cbn [map app runw_from]. rewrite S1, add_no_effect, S2. rewrite <- app_assoc in J2. split; [|exact J2].
    f_equal. cbn [length]. lia.
Qed.

(* after the two phases every scope is related to its initial M state *)
Lemma built_R st ig es :
  R ig (map sx_f es) (built st ig es) (mst0 st es).
Proof.
  destruct (expects_state es (flagged st ig) 0 eq_refl (fun _ => eq_refl) (Forall_nil _)) as [A [B [C [D [E [F _]]]]]].
  fold (built st ig es) in *. cbn [flagged m_exps map app m_strict m_last m_ignore m_aorder] in *.
  apply R_idle; cbn [mst0 s_order s_pend s_xs]; try assumption; try reflexivity. apply fnames_init.
Qed.

(* ------------------------------------------------------------------ calls phase *)
Definition flags (m : mock) := (m_strict m, m_ignore m, m_enabled m).
Lemma clone_flags m m' : flags m' = flags m -> clone m' = clone m.
Proof. unfold flags, clone. intro H. inversion H. reflexivity. Qed.
Lemma finish_last_flags m m' : finish_last m = inl m' -> flags m' = flags m.
Proof.
  unfold finish_last. destruct (m_last m); [|intro H; inversion H; reflexivity].
  destruct (check_call (m_exps m) a) as [[es c']|]; [|discriminate]. intro H. inversion H. reflexivity.
Qed.
Lemma actual_call_flags m f its want m' r : actual_call true m f its want = inl (m', r) -> flags m' = flags m.
Proof.
  unfold actual_call. destruct (finish_last m) as [m1|] eqn:FL; [|discriminate]. pose proof (finish_last_flags _ _ FL) as F1.
  change (m_enabled (with_exps m1 (m_exps m1) None)) with (m_enabled m1). change (m_ignore (with_exps m1 (m_exps m1) None)) with (m_ignore m1).
  destruct (negb (m_enabled m1)); [intro H; inversion H; subst; exact F1|].
  destruct (m_ignore m1 && negb (existsb (relates f) (m_exps (with_exps m1 (m_exps m1) None)))); [intro H; inversion H; subst; exact F1|].
  destruct (with_name _ _) as [[es c]|]; [|discriminate]. destruct (with_items its es c) as [[es2 c2]|]; [|discriminate].
  destruct want.
  - match goal with |- context [finish_last (with_exps ?x ?y ?z)] => destruct (finish_last (with_exps x y z)) as [m2|] eqn:FL2 end; [|discriminate]. pose proof (finish_last_flags _ _ FL2) as F2. intro H. inversion H; subst.
    etransitivity; [exact F2|exact F1].
  - intro H. inversion H; subst. exact F1.
Qed.

Lemma get_set_same s st sts : In s (map fst sts) -> get_st s (set_st s st sts) = st.
Proof.
  induction sts as [|[t st'] r IH]; cbn; [intros []|]. destruct (t =? s) eqn:E; cbn; rewrite E; [reflexivity|].
  intros [H|H]; [apply N.eqb_neq in E; congruence|apply IH; exact H].
Qed.
Lemma get_set_other s u st sts : u <> s -> get_st u (set_st s st sts) = get_st u sts.
Proof.
  intro H. induction sts as [|[t st'] r IH]; cbn; [reflexivity|]. destruct (t =? s) eqn:E; cbn.
  - apply N.eqb_eq in E. subst t. rewrite (proj2 (N.eqb_neq s u)) by congruence. reflexivity.
  - destruct (t =? u); [reflexivity|exact IH].
Qed.
Lemma keys_set s st sts : map fst (set_st s st sts) = map fst sts.
Proof. induction sts as [|[t st'] r IH]; cbn; [reflexivity|]. destruct (t =? s); cbn; [reflexivity|]. rewrite IH. reflexivity. Qed.

Definition ignS (k : canonw) (s : N) : bool := ign_of (kw_cfg k) s.
Definition nmS (k : canonw) (s : N) : list name := map sx_f (of_scope s (kw_exps k)).
Definition RW (k : canonw) (w : world) (sts : list (N * mst)) : Prop :=
  forall s, In s (map fst sts) -> R (ignS k s) (nmS k s) (mock_of s w) (get_st s sts) /\ unifM (s_xs (get_st s sts)).
Definition callw_op (x : N * scall) : N * op := (fst x, call_op (snd x)).

Lemma known_knows es f : known (map sx_f es) f = knows es f.
Proof. unfold known, knows. rewrite existsb_map. reflexivity. Qed.
Lemma m_call_ext ign k1 k2 st c : (forall f, k1 f = k2 f) -> m_call ign k1 st c = m_call ign k2 st c.
Proof. intro H. unfold m_call. rewrite H. reflexivity. Qed.

Lemma callw_step k w sts s c :
  RW k w sts -> In s (map fst sts) -> call_fresh c = true ->
  match stepw true w (callw_op (s, c)) with
  | inr fl => exists d, m_call (ignS k s) (knows (of_scope s (kw_exps k))) (get_st s sts) c = inr d /\ dkind_of (f_kind fl) = Some d
  | inl (w', r) => exists st' rv, m_call (ignS k s) (knows (of_scope s (kw_exps k))) (get_st s sts) c = inl (st', rv) /\
                                  RW k w' (set_st s st' sts) /\ map fst (w_kids w') = mention (map fst (w_kids w)) s /\
                                  r_ret r = fst rv /\ outs_ok (snd rv) (r_outs r) = true /\ r_left r = None
  end.
Proof.
  intros HR Hs Hf. destruct (HR s Hs) as [Rs Us]. unfold callw_op, call_op. cbn [fst snd].
  rewrite (m_call_ext _ (knows (of_scope s (kw_exps k))) (known (nmS k s))) by (intro f; symmetry; apply known_knows).
  pose proof (sim_call (ignS k s) (nmS k s) (mock_of s w) (get_st s sts) (sc_f c) (sc_items c) (sc_want c) Rs Hf Us) as SC.
  replace (mk_call (sc_f c) (sc_items c) (sc_want c)) with c in SC by (destruct c; reflexivity).
  destruct (N.eq_dec s 0) as [->|Es].
  - rewrite mock_of_0 in SC. cbn. destruct (actual_call true (w_g w) (sc_f c) (sc_items c) (sc_want c)) as [[g' r]|fl] eqn:AC; [|exact SC].
    destruct SC as [st' [rv [MC [R' [U' [Hr [Ho Hl]]]]]]]. exists st', rv. split; [exact MC|]. split; [|split; [reflexivity|auto]].
    intros u Hu. rewrite keys_set in Hu. destruct (N.eq_dec u 0) as [->|Eu].
    + rewrite (get_set_same 0 st' sts Hs), mock_of_0. cbn [w_g]. auto.
    + rewrite (get_set_other 0 u st' sts Eu). rewrite (mock_of_kid u _ Eu). destruct (HR u Hu) as [Ru Uu]. rewrite (mock_of_kid u w Eu) in Ru.
      unfold kid in *. cbn [w_g w_kids]. rewrite (clone_flags _ _ (actual_call_flags _ _ _ _ _ _ AC)). auto.
  - assert (E0 : (s =? 0) = false) by (apply N.eqb_neq; exact Es). rewrite (mock_of_kid s w Es) in SC. cbn. rewrite E0.
    destruct (actual_call true (kid s w) (sc_f c) (sc_items c) (sc_want c)) as [[m' r]|fl] eqn:AC; [|exact SC].
    destruct SC as [st' [rv [MC [R' [U' [Hr [Ho Hl]]]]]]]. exists st', rv. split; [exact MC|]. split; [|split; [apply keys_put_mention; exact Es|auto]].
    intros u Hu. rewrite keys_set in Hu. destruct (N.eq_dec u s) as [->|Hne].
    + rewrite (get_set_same s st' sts Hs), (mock_of_kid s _ Es), kid_put_same. auto.
    + rewrite (get_set_other s u st' sts Hne). destruct (HR u Hu) as [Ru Uu]. split; [|exact Uu].
      destruct (N.eq_dec u 0) as [->|Eu]; [exact Ru|]. rewrite (mock_of_kid u _ Eu), (kid_put_other s u _ _ _ Hne), world_eta.
      rewrite <- (mock_of_kid u w Eu). exact Ru.
Qed.

(* ------------------------------------------------------------------ the final mock().checkExpectations() *)
Definition pend (st : mst) : list dkind := match s_pend st with Some d => [d] | None => [] end.
Definition finished (m : mock) (st : mst) : Prop :=
  map abs (m_exps m) = s_xs st /\ Forall wfE (m_exps m) /\ last_ok m = true.

Lemma finish_one ig nm m st : R ig nm m st ->
  match finish_last m with
  | inr fl => exists d, s_pend st = Some d /\ dkind_of (f_kind fl) = Some d
  | inl m' => s_pend st = None /\ finished m' st
  end.
Proof.
  intros [_ [_ [_ H]]]. destruct (finish_last m) as [m'|fl]; [|destruct H as [d [X [Y _]]]; exists d; auto]. destruct H as [A [B [C [D _]]]]. split; [exact A|]. split; auto.
Qed.

Lemma finish_kids_sim : forall kids stl,
  Forall2 (fun (km : N * mock) st => exists ig nm, R ig nm (snd km) st) kids stl ->
  match finish_kids kids with
  | inr fl => exists d rest, flat_map pend stl = d :: rest /\ dkind_of (f_kind fl) = Some d
  | inl kids' => flat_map pend stl = [] /\ Forall2 (fun (km : N * mock) st => finished (snd km) st) kids' stl
  end.
Proof.
  induction 1 as [|[t m] st kids stl [ig [nm HR]] H2 IH]; cbn [finish_kids flat_map]; [split; constructor|].
  pose proof (finish_one ig nm m st HR) as F1. cbn [snd] in F1. destruct (finish_last m) as [m'|fl].
  - destruct F1 as [P1 F1]. assert (PS : pend st = []) by (unfold pend; rewrite P1; reflexivity). rewrite PS. cbn [app].
    destruct (finish_kids kids) as [kids'|fl].
    + destruct IH as [A B]. split; [exact A|]. constructor; [exact F1|exact B].
    + exact IH.
  - destruct F1 as [d [P1 K]]. exists d, (flat_map pend stl). assert (PS : pend st = [d]) by (unfold pend; rewrite P1; reflexivity).
    rewrite PS. split; [reflexivity|exact K].
Qed.

Lemma Forall2_keys {A B} (P : N -> A -> B -> Prop) : forall (l1 : list (N * A)) (l2 : list (N * B)),
  map fst l1 = map fst l2 -> (forall t a b, In (t, a) l1 -> In (t, b) l2 -> P t a b) ->
  Forall2 (fun x y => P (fst x) (snd x) (snd y)) l1 l2.
Proof.
  induction l1 as [|[t a] r IH]; destruct l2 as [|[u b] r2]; cbn; intros K H; try discriminate; [constructor|].
  inversion K; subst. constructor; [cbn; apply H; left; reflexivity|]. apply IH; [assumption|]. intros; apply H; right; assumption.
Qed.
Lemma lookup_nodup t m kids : NoDup (map fst kids) -> In (t, m) kids -> lookup_kid t kids = Some m.
Proof.
  induction kids as [|[u m'] r IH]; cbn; intros ND H; [destruct H|]. inversion ND as [|? ? N1 N2]; subst. destruct H as [H|H].
  - inversion H; subst. rewrite N.eqb_refl. reflexivity.
  - destruct (u =? t) eqn:E; [|apply IH; assumption]. apply N.eqb_eq in E. subst u. exfalso. apply N1. apply (in_map fst) in H. exact H.
Qed.
Lemma get_st_nodup t st sts : NoDup (map fst sts) -> In (t, st) sts -> get_st t sts = st.
Proof.
  induction sts as [|[u st'] r IH]; cbn; intros ND H; [destruct H|]. inversion ND as [|? ? N1 N2]; subst. destruct H as [H|H].
  - inversion H; subst. rewrite N.eqb_refl. reflexivity.
  - destruct (u =? t) eqn:E; [|apply IH; assumption]. apply N.eqb_eq in E. subst u. exfalso. apply N1. apply (in_map fst) in H. exact H.
Qed.

Lemma unfulfilled_finished kids stl :
  Forall2 (fun (km : N * mock) st => finished (snd km) st) kids stl ->
  existsb (fun k : N * mock => unfulfilled (m_exps (snd k))) kids = existsb (fun st => existsb x_open (s_xs st)) stl /\
  existsb (fun k : N * mock => existsb e_ooo (m_exps (snd k))) kids = existsb (fun st => existsb x_ooo (s_xs st)) stl /\
  forallb (fun k : N * mock => last_ok (snd k)) kids = true.
Proof.
  induction 1 as [|[t m] st kids stl [A [B C]] H2 [I1 [I2 I3]]]; cbn; [auto|]. cbn [snd] in *.
  rewrite (unfulfilled_abs _ B), A, I1, ooo_abs, A, I2, C, I3. auto.
Qed.

Lemma final_check k w sts st0 stsk :
  RW k w sts -> sts = (0, st0) :: stsk -> map fst stsk = map fst (w_kids w) -> NoDup (map fst sts) ->
  match check_world w with
  | inr fl => exists d, m_final (map snd sts) = Some d /\ dkind_of (f_kind fl) = Some d
  | inl _ => m_final (map snd sts) = None
  end.
Proof.
  intros HR -> K ND. unfold check_world, finish_all, m_final. cbn [map snd flat_map].
  destruct (HR 0 (or_introl eq_refl)) as [R0 _]. rewrite mock_of_0 in R0. cbn [get_st] in R0. rewrite N.eqb_refl in R0.
  pose proof (finish_one _ _ _ _ R0) as F0. cbn [map fst] in ND. inversion ND as [|? ? N0 ND']; subst.
  assert (NDk : NoDup (map fst (w_kids w))) by (rewrite <- K; exact ND').
  assert (F2 : Forall2 (fun (km : N * mock) st => exists ig nm, R ig nm (snd km) st) (w_kids w) (map snd stsk)).
  { assert (X : Forall2 (fun (x : N * mock) (y : N * mst) => exists ig nm, R ig nm (snd x) (snd y)) (w_kids w) stsk).
    { apply (Forall2_keys (fun t m st => exists ig nm, R ig nm m st)); [symmetry; exact K|].
      intros t m st Hm Hst. exists (ignS k t), (nmS k t).
      assert (Ht : t <> 0). { intro E. subst t. apply N0. apply (in_map fst) in Hst. exact Hst. }
      destruct (HR t) as [Rt _]. { right. apply (in_map fst) in Hst. exact Hst. }
      rewrite (mock_of_kid t w Ht) in Rt. unfold kid in Rt. rewrite (lookup_nodup t m _ NDk Hm) in Rt.
      cbn [get_st] in Rt. rewrite (proj2 (N.eqb_neq 0 t)) in Rt by congruence.
      rewrite (get_st_nodup t st stsk ND' Hst) in Rt. exact Rt. }
    clear - X. induction X; cbn; constructor; auto. }
  pose proof (finish_kids_sim _ _ F2) as FK.
  destruct (finish_last (w_g w)) as [g'|fl].
  - destruct F0 as [P0 [A0 [B0 C0]]]. unfold pend in FK. fold pend in FK. rewrite P0. cbn [app].
    replace (flat_map (fun st => match s_pend st with Some d => [d] | None => [] end) (map snd stsk)) with (flat_map pend (map snd stsk)) by reflexivity.
    destruct (finish_kids (w_kids w)) as [kids'|fl].
    + destruct FK as [PK FF]. rewrite PK. destruct (unfulfilled_finished _ _ FF) as [U1 [U2 U3]].
      unfold last_ok_all, left_all, ooo_all. cbn [w_g w_kids existsb]. rewrite C0, U3, U1, U2, (unfulfilled_abs _ B0), A0, ooo_abs, A0. cbn [andb].
      destruct (existsb x_open (s_xs st0) || existsb (fun st => existsb x_open (s_xs st)) (map snd stsk)); [eexists; split; reflexivity|].
      destruct (existsb x_ooo (s_xs st0) || existsb (fun st => existsb x_ooo (s_xs st)) (map snd stsk)); [eexists; split; reflexivity|reflexivity].
    + destruct FK as [d [rest [PK Kd]]]. rewrite PK. exists d. auto.
  - destruct F0 as [d [P0 Kd]]. rewrite P0. exists d. auto.
Qed.

(* ------------------------------------------------------------------ the interleaved calls and the final check, L against M *)
Lemma sim_callsw k : forall cs w sts i a ma doneM,
  RW k w sts -> NoDup (map fst sts) ->
  map fst (w_kids w) = fold_left mention doneM [] ->
  map fst sts = 0 :: fold_left mention (doneM ++ map fst cs) [] ->
  (forall x, In x cs -> In (fst x) (map fst sts) /\ call_fresh (snd x) = true) -> acc_rel a ma ->
  let o := runw_from true w i (map callw_op cs ++ [(0, OCheck)]) a in
  let r := mw_calls k sts i cs ma in
  proj o = lift (mr_fail r, mr_rets r) /\ outs_ok (mr_outs r) (o_outs o) = true.
Proof.
  induction cs as [|[s c] r IH]; intros w sts i a ma doneM HR ND KK KS HC HA; cbn zeta.
  - cbn [map app runw_from mw_calls]. rewrite app_nil_r in KS. destruct sts as [|[z st0] stsk]; [discriminate|].
    cbn [map fst] in KS. inversion KS as [[Z KS']]. subst z.
    pose proof (final_check k w _ st0 stsk HR eq_refl) as FC. rewrite KS', <- KK in FC. specialize (FC eq_refl ND).
    change (stepw true w (0, OCheck)) with (match check_world w with inr fl => inr fl | inl w0 => inl (w0, no_effect) end).
    destruct (check_world w) as [w'|fl].
    + rewrite FC. cbn [runw_from]. destruct (acc_rel_obs (add_effect a no_effect) ma None None) as [X Y].
      { destruct HA as [A B]. split; [exact A|exact B]. }
      split; [|exact Y]. unfold proj, lift. rewrite X. reflexivity.
    + destruct FC as [d [FC Kd]]. rewrite FC. destruct (acc_rel_obs a ma (Some (i, fl)) (Some (i, d)) HA) as [X Y]. split; [|exact Y].
      unfold proj, lift. rewrite X. cbn. rewrite Kd. reflexivity.
  - destruct (HC (s, c) (or_introl eq_refl)) as [Hs Hf]. cbn [fst snd] in Hs, Hf.
    pose proof (callw_step k w sts s c HR Hs Hf) as CS. cbn [map app runw_from mw_calls]. fold (ignS k s).
    destruct (stepw true w (callw_op (s, c))) as [[w' rv]|fl].
    + destruct CS as [st' [mrv [MC [HR' [KK' [Hr [Ho Hl]]]]]]]. rewrite MC.
      apply (IH w' (set_st s st' sts) (i + 1) (add_effect a rv) (macc_add ma mrv) (doneM ++ [s])).
      * exact HR'.
      * rewrite keys_set. exact ND.
      * rewrite KK', KK, fold_mention_app. reflexivity.
      * rewrite keys_set, KS, <- app_assoc. reflexivity.
      * intros x Hx. rewrite keys_set. apply HC. right. exact Hx.
      * apply acc_rel_add; assumption.
    + destruct CS as [d [MC Kd]]. rewrite MC. destruct (acc_rel_obs a ma (Some (i, fl)) (Some (i, d)) HA) as [X Y]. split; [|exact Y].
      unfold proj, lift. rewrite X. cbn. rewrite Kd. reflexivity.
Qed.

(* ------------------------------------------------------------------ shape of a judged scenario over scopes *)
Definition canonw_ops (k : canonw) : list (N * op) :=
  map cfg_op (kw_cfg k) ++ map expw_op (kw_exps k) ++ map callw_op (kw_calls k) ++ [(0, OCheck)].

Lemma parsew_calls_inv : forall ops cs, parsew_calls ops = Some cs -> ops = map callw_op cs ++ [(0, OCheck)].
Proof.
  induction ops as [|[s o] r IH]; intros cs H; [discriminate|]. destruct o; cbn in H; try (destruct s; discriminate).
  - destruct (parsew_calls r) as [l|] eqn:E; [|destruct s; discriminate].
    assert (X : Some ((s, {| sc_f := f; sc_items := its; sc_want := want |}) :: l) = Some cs) by (destruct s; exact H).
    inversion X; subst. cbn. rewrite (IH l eq_refl). reflexivity.
  - destruct s; [|discriminate]. destruct r; [|discriminate]. inversion H; subst. reflexivity.
Qed.
Lemma parsew_exps_inv : forall ops es cs, parsew_exps ops = Some (es, cs) -> ops = map expw_op es ++ map callw_op cs ++ [(0, OCheck)].
Proof.
  induction ops as [|[s o] r IH]; intros es cs H; [discriminate|].
  destruct o as [n f ps outs obj ret ign| | | | | | | | |];
    try (match type of H with parsew_exps (?o :: r) = _ =>
           change (match parsew_calls (o :: r) with Some cs0 => Some ([], cs0) | None => None end = Some (es, cs)) in H end;
         destruct (parsew_calls _) as [l|] eqn:E in H; [|discriminate]; inversion H; subst; cbn [map app]; apply (parsew_calls_inv _ _ E)).
  destruct ign.
  - change (match parsew_calls ((s, OExpect n f ps outs obj ret true) :: r) with Some cs0 => Some ([], cs0) | None => None end = Some (es, cs)) in H.
    cbn in H. destruct s; discriminate.
  - cbn in H. destruct (parsew_exps r) as [[es' cs']|] eqn:E; [|discriminate]. inversion H; subst. cbn. rewrite (IH es' cs eq_refl). reflexivity.
Qed.
Lemma parsew_inv : forall ops k, parsew ops = Some k -> ops = canonw_ops k.
Proof.
  unfold parsew, canonw_ops. induction ops as [|[s o] r IH]; intros k H; [discriminate|].
  destruct o as [n f ps outs obj ret ign| | | | | | | | |];
    try (match type of H with parsew_cfg (?o :: r) = _ =>
           change (match parsew_exps (o :: r) with Some (es, cs) => Some {| kw_cfg := []; kw_exps := es; kw_calls := cs |} | None => None end = Some k) in H end;
         destruct (parsew_exps _) as [[es cs]|] eqn:E in H; [|discriminate]; inversion H; subst; cbn [map app kw_cfg kw_exps kw_calls];
         apply (parsew_exps_inv _ _ _ E)).
  - cbn in H. destruct (parsew_cfg r) as [k'|] eqn:E; [|discriminate]. inversion H; subst. cbn. rewrite (IH k' eq_refl). reflexivity.
  - cbn in H. destruct (parsew_cfg r) as [k'|] eqn:E; [|discriminate]. inversion H; subst. cbn. rewrite (IH k' eq_refl). reflexivity.
Qed.

Lemma NoDup_snoc {A} (l : list A) x : NoDup l -> ~ In x l -> NoDup (l ++ [x]).
Proof.
  induction l as [|y r IH]; cbn; intros ND H; [constructor; [intros []|constructor]|]. inversion ND; subst. constructor.
  - rewrite in_app_iff. cbn. intros [X|[X|[]]]; [auto|subst; apply H; left; reflexivity].
  - apply IH; [assumption|]. intro X. apply H. right. exact X.
Qed.
Lemma NoDup_fold_mention : forall l acc, NoDup acc -> ~ In 0 acc -> NoDup (fold_left mention l acc) /\ ~ In 0 (fold_left mention l acc).
Proof.
  induction l as [|t r IH]; intros acc ND N0; cbn; [auto|]. apply IH.
  - unfold mention. destruct (t =? 0) eqn:E0; cbn [orb]; [exact ND|]. destruct (existsb (N.eqb t) acc) eqn:E; [exact ND|].
    apply NoDup_snoc; [exact ND|]. intro X. apply existsb_eqb_In in X. congruence.
  - rewrite In_mention. intros [H|[H1 H2]]; [auto|congruence].
Qed.

Lemma get_st_map (f : N -> mst) s l : In s l -> get_st s (map (fun t => (t, f t)) l) = f s.
Proof.
  induction l as [|t r IH]; cbn; [intros []|]. destruct (t =? s) eqn:E; [apply N.eqb_eq in E; subst; reflexivity|].
  intros [H|H]; [apply N.eqb_neq in E; congruence|apply IH; exact H].
Qed.
Lemma In_of_scope {A} s (x : A) l : In (s, x) l -> In x (of_scope s l).
Proof.
  intro H. unfold of_scope. apply in_map_iff. exists (s, x). split; [reflexivity|]. apply filter_In. split; [exact H|apply N.eqb_refl].
Qed.
Lemma Jc_world0 : Jc [] world0.
Proof.
  split; [|reflexivity]. intro s. unfold mock_of. destruct (s =? 0); reflexivity.
Qed.

(* L over the scopes refines M over the scopes on every judged scenario: same failing operation, same diagnosis, same returned
   values, output buffers begin with the bytes of the consumed expectation *)
Theorem W_refines_M ops k :
  parsew ops = Some k -> judgedw k = true ->
  proj (runw ops) = lift (mr_fail (expectedw k), mr_rets (expectedw k)) /\ outs_ok (mr_outs (expectedw k)) (o_outs (runw ops)) = true.
Proof.
  intros Hp Hj. rewrite (parsew_inv _ _ Hp). unfold runw, runw_gen, canonw_ops, expectedw.
  destruct (run_cfg (kw_cfg k) [] world0 0 (map expw_op (kw_exps k) ++ map callw_op (kw_calls k) ++ [(0, OCheck)]) acc0 Jc_world0) as [w1 [S1 J1]].
  rewrite S1. cbn [app] in J1.
  assert (J1e : Je (kw_cfg k) [] w1).
  { destruct J1 as [M K]. split; [exact M|]. rewrite app_nil_r. exact K. }
  destruct (run_exps (kw_cfg k) (kw_exps k) [] w1 (0 + N.of_nat (length (kw_cfg k))) (map callw_op (kw_calls k) ++ [(0, OCheck)]) acc0 J1e) as [w2 [S2 J2]].
  rewrite S2. cbn [app] in J2. destruct J2 as [M2 K2].
  replace (0 + N.of_nat (length (kw_cfg k)) + N.of_nat (length (kw_exps k))) with (N.of_nat (length (kw_cfg k) + length (kw_exps k))) by lia.
  unfold judgedw in Hj. rewrite forallb_forall in Hj.
  destruct (NoDup_fold_mention (map fst (kw_cfg k) ++ map fst (kw_exps k) ++ map fst (kw_calls k)) [] (NoDup_nil _) (fun x => x)) as [ND N0].
  fold (scopes_of k) in ND, N0.
  set (sts := map (fun s => (s, mst0 (strict_of (kw_cfg k) s) (of_scope s (kw_exps k)))) (0 :: scopes_of k)).
  assert (KS : map fst sts = 0 :: scopes_of k).
  { unfold sts. rewrite map_map. cbn [fst]. apply map_id. }
  apply (sim_callsw k (kw_calls k) w2 sts _ acc0 macc0 (map fst (kw_cfg k) ++ map fst (kw_exps k))).
  - intros s Hs. rewrite KS in Hs. unfold sts. rewrite (get_st_map _ s _ Hs), (M2 s). split.
    + apply built_R.
    + specialize (Hj s Hs). unfold judged in Hj. apply andb_true_iff in Hj. destruct Hj as [_ Hu]. cbn [scope_canon k_exps k_calls] in Hu.
      apply (obj_uniform_unifM _ _ _ _ Hu).
  - rewrite KS. constructor; assumption.
  - exact K2.
  - rewrite KS. unfold scopes_of. rewrite <- app_assoc. reflexivity.
  - intros [s c] Hx. cbn [fst snd]. rewrite KS.
    assert (Hs : In s (0 :: scopes_of k)).
    { destruct (N.eq_dec s 0) as [->|Es]; [left; reflexivity|]. right. unfold scopes_of. apply In_fold_mention. right. split; [|exact Es].
      rewrite !in_app_iff. right. right. apply (in_map fst) in Hx. exact Hx. }
    split; [exact Hs|]. specialize (Hj s Hs). unfold judged in Hj. apply andb_true_iff in Hj. destruct Hj as [Hc _].
    cbn [scope_canon k_calls] in Hc. rewrite forallb_forall in Hc. apply call_ok_fresh. apply Hc. apply In_of_scope. exact Hx.
  - split; [reflexivity|constructor].
Qed.

(* ------------------------------------------------------------------ on M the scenario passes iff every scope's own scenario passes *)
Fixpoint m_pass (ign : bool) (kn : name -> bool) (st : mst) (cs : list scall) : bool :=
  match cs with
  | [] => match m_final [st] with None => true | Some _ => false end
  | c :: r => match m_call ign kn st c with inr _ => false | inl (st', _) => m_pass ign kn st' r end
  end.
Lemma m_calls_pass ign kn : forall cs st i a, mr_fail (m_calls ign kn st i cs a) = None <-> m_pass ign kn st cs = true.
Proof.
  induction cs as [|c r IH]; intros st i a; cbn.
  - destruct (m_final [st]); cbn; split; intro H; try reflexivity; discriminate.
  - destruct (m_call ign kn st c) as [[st' rv]|d]; [apply IH|]. cbn. split; discriminate.
Qed.
Lemma flat_map_nil {A B} (f : A -> list B) l : flat_map f l = [] <-> forall x, In x l -> f x = [].
Proof.
  induction l as [|x r IH]; cbn; [split; [intros _ y []|reflexivity]|]. split.
  - intro H. apply app_eq_nil in H. destruct H as [H1 H2]. intros y [E|E]; [subst; exact H1|]. apply IH; assumption.
  - intro H. rewrite (H x (or_introl eq_refl)). cbn. apply IH. intros y Hy. apply H. right. exact Hy.
Qed.
Lemma m_final_parts l :
  m_final l = None <-> flat_map pend l = [] /\ existsb (fun st => existsb x_open (s_xs st)) l = false /\
                       existsb (fun st => existsb x_ooo (s_xs st)) l = false.
Proof.
  unfold m_final. fold pend. change (fun st : mst => match s_pend st with Some d => [d] | None => [] end) with pend.
  destruct (flat_map pend l); [|split; [discriminate|intros [H _]; discriminate H]].
  destruct (existsb (fun st => existsb x_open (s_xs st)) l); [split; [discriminate|intros [_ [H _]]; discriminate H]|].
  destruct (existsb (fun st => existsb x_ooo (s_xs st)) l); [split; [discriminate|intros [_ [_ H]]; discriminate H]|].
  split; auto.
Qed.
Lemma m_final_none l : m_final l = None <-> forall st, In st l -> m_final [st] = None.
Proof.
  rewrite m_final_parts, flat_map_nil, !existsb_false. split.
  - intros [A [B C]] st Hst. apply m_final_parts. cbn. rewrite (A st Hst), (B st Hst), (C st Hst). auto.
  - intro H. split; [|split]; intros st Hst; specialize (H st Hst); apply m_final_parts in H; cbn in H; destruct H as [A [B C]].
    + rewrite app_nil_r in A. exact A.
    + rewrite orb_false_r in B. exact B.
    + rewrite orb_false_r in C. exact C.
Qed.
Lemma In_get_st s sts : NoDup (map fst sts) -> In s (map fst sts) -> In (get_st s sts) (map snd sts).
Proof.
  intros ND H. apply in_map_iff in H. destruct H as [[t st] [E H]]. cbn in E. subst t. rewrite (get_st_nodup s st sts ND H).
  apply (in_map snd) in H. exact H.
Qed.
Lemma of_scope_cons {A} s t (x : A) l : of_scope s ((t, x) :: l) = if t =? s then x :: of_scope s l else of_scope s l.
Proof. unfold of_scope. cbn. destruct (t =? s); reflexivity. Qed.

Lemma mw_pass_iff k : forall cs sts i a,
  (forall x, In x cs -> In (fst x) (map fst sts)) -> NoDup (map fst sts) ->
  (mr_fail (mw_calls k sts i cs a) = None <->
   forall s, In s (map fst sts) -> m_pass (ignS k s) (knows (of_scope s (kw_exps k))) (get_st s sts) (of_scope s cs) = true).
Proof.
  induction cs as [|[s c] r IH]; intros sts i a HC ND.
  - cbn [mw_calls mk_mres mr_fail]. split.
    + intros H s Hs. cbn. destruct (m_final (map snd sts)) eqn:F; [discriminate H|].
      rewrite (proj1 (m_final_none _) F _ (In_get_st s sts ND Hs)). reflexivity.
    + intro H. assert (F : m_final (map snd sts) = None).
      { apply m_final_none. intros st Hst. apply in_map_iff in Hst. destruct Hst as [[t st'] [E Hin]]. cbn in E. subst st'.
        specialize (H t (in_map fst _ _ Hin)). cbn in H. rewrite (get_st_nodup t st sts ND Hin) in H.
        destruct (m_final [st]); [discriminate H|reflexivity]. }
      rewrite F. reflexivity.
  - assert (Hs : In s (map fst sts)) by (apply (HC (s, c)); left; reflexivity).
    cbn [mw_calls]. fold (ignS k s). destruct (m_call (ignS k s) (knows (of_scope s (kw_exps k))) (get_st s sts) c) as [[st' rv]|d] eqn:MC.
    + rewrite (IH (set_st s st' sts) (i + 1) (macc_add a rv)).
      2: { intros x Hx. rewrite keys_set. apply HC. right. exact Hx. }
      2: { rewrite keys_set. exact ND. }
      rewrite keys_set. split; intros H u Hu; specialize (H u Hu); rewrite of_scope_cons in *.
      * destruct (N.eq_dec u s) as [->|Hne].
        -- rewrite N.eqb_refl. cbn [m_pass]. rewrite MC. rewrite (get_set_same s st' sts Hs) in H. exact H.
        -- rewrite (proj2 (N.eqb_neq s u)) by congruence. rewrite (get_set_other s u st' sts Hne) in H. exact H.
      * destruct (N.eq_dec u s) as [->|Hne].
        -- rewrite N.eqb_refl in H. cbn [m_pass] in H. rewrite MC in H. rewrite (get_set_same s st' sts Hs). exact H.
        -- rewrite (proj2 (N.eqb_neq s u)) in H by congruence. rewrite (get_set_other s u st' sts Hne). exact H.
    + cbn [mk_mres mr_fail]. split; [discriminate|]. intro H. specialize (H s Hs). rewrite of_scope_cons, N.eqb_refl in H.
      cbn [m_pass] in H. rewrite MC in H. discriminate H.
Qed.

(* the verdict of M over the scopes: passes iff M passes in every scope *)
Theorem verdict_scopes k :
  mr_fail (expectedw k) = None <-> forall s, In s (0 :: scopes_of k) -> mr_fail (expected_res (scope_canon k s)) = None.
Proof.
  destruct (NoDup_fold_mention (map fst (kw_cfg k) ++ map fst (kw_exps k) ++ map fst (kw_calls k)) [] (NoDup_nil _) (fun x => x)) as [ND N0].
  fold (scopes_of k) in ND, N0. unfold expectedw.
  set (sts := map (fun s => (s, mst0 (strict_of (kw_cfg k) s) (of_scope s (kw_exps k)))) (0 :: scopes_of k)).
  assert (KS : map fst sts = 0 :: scopes_of k). { unfold sts. rewrite map_map. cbn [fst]. apply map_id. }
  rewrite (mw_pass_iff k (kw_calls k) sts).
  - rewrite KS. split; intros H s Hs; specialize (H s Hs).
    + unfold expected_res. cbn [scope_canon k_strict k_ignore k_exps k_calls]. apply m_calls_pass.
      unfold sts in H. rewrite (get_st_map _ s _ Hs) in H. exact H.
    + unfold expected_res in H. cbn [scope_canon k_strict k_ignore k_exps k_calls] in H. apply m_calls_pass in H.
      unfold sts. rewrite (get_st_map _ s _ Hs). exact H.
  - intros [s c] Hx. cbn [fst]. rewrite KS. destruct (N.eq_dec s 0) as [->|Es]; [left; reflexivity|]. right. unfold scopes_of.
    apply In_fold_mention. right. split; [|exact Es]. rewrite !in_app_iff. right. right. apply (in_map fst) in Hx. exact Hx.
  - rewrite KS. constructor; assumption.
Qed.
