(* C07 -- several MemoryLeakWarningPlugin instances in one process.
   The runner's plugin (the one installed in the registry: C07_Model's `world`) plus further plugins that the program constructs and
   destroys before / between / inside tests, each on a private MemoryLeakDetector or on the runner's detector ("the global one"),
   and the static MemoryLeakWarningPlugin::firstPlugin_ that EXPECT_N_LEAKS / IGNORE_ALL_LEAKS_IN_TEST go through:

     MemoryLeakWarningPlugin(name, localDetector):  if (firstPlugin_ == NULLPTR) firstPlugin_ = this;
                                                    memLeakDetector_ = localDetector ? localDetector : getGlobalDetector();
                                                    memLeakDetector_->enable();
     ~MemoryLeakWarningPlugin():                    firstPlugin_ is left alone
     EXPECT_N_LEAKS(n):                             if (getFirstPlugin()) getFirstPlugin()->expectLeaksInTest(n)

   The program text is C07_Model's with statements about the other instances in between (`mstmt`); `erase` forgets them.
   `mspec` = C07_Model.spec of the erased program for the runner's plugin (the other instances are invisible to the verdicts), and for
   every other instance the same table / final-report demand over the statements made through ITS detector since ITS construction.
   No proofs in this file. *)
From Coq Require Import NArith List Bool.
From CppUVerif Require Import gen.Gen_Common C04_Model C07_Model.
Import ListNotations.
Local Open Scope N_scope.

(* ------------------------------------------------------------------ programs *)
Inductive mstmt :=
| MS (s : stmt)                 (* a statement of C07_Model: through the runner's detector / through the macros *)
| MNew (j : N) (shared : bool)  (* q[j] = new MemoryLeakWarningPlugin(name, shared ? <the runner's detector> : <a fresh private detector>) *)
| MDel (j : N)                  (* delete q[j] *)
| MOn (j : N) (s : stmt)        (* s (SAlloc / SFree / SRealloc) through q[j]->getMemoryLeakDetector() *)
| MPre (j : N)                  (* q[j]->preTestAction(test, r[j])       r[j]: a TestResult of q[j]'s own *)
| MPost (j : N)                 (* q[j]->postTestAction(test, r[j])      observed: the failure it adds *)
| MFinal (j k : N).             (* q[j]->FinalReport(k)                  observed *)

Record mtest := mkMT { mt_before : list mstmt; mt_ipre : list mstmt; mt_setup : list mstmt; mt_body : list mstmt;
                       mt_teardown : list mstmt; mt_ipost : list mstmt }.
Record mscenario := mkMS { m_pre : list mstmt; m_tests : list mtest; m_tail : list mstmt; m_tbd : N }.

(* ------------------------------------------------------------------ small association lists keyed by slot *)
Definition find_s {A} (slot : A -> N) (j : N) (l : list A) : option A := find (fun a => slot a =? j) l.
Definition upd_s {A} (slot : A -> N) (j : N) (f : A -> A) (l : list A) : list A := map (fun a => if slot a =? j then f a else a) l.
Definition del_s {A} (slot : A -> N) (j : N) (l : list A) : list A := filter (fun a => negb (slot a =? j)) l.

(* ------------------------------------------------------------------ the machine *)
Record inst := mkI {
  i_slot : N;                   (* j: the program's pointer q[j] *)
  i_serial : N;                 (* which object: 0 = the runner's plugin, k = the k-th further plugin constructed *)
  i_shared : bool;              (* memLeakDetector_ is the runner's detector *)
  i_w : world }.                (* ignoreAllWarnings_, expectedLeaks_, failureCount_; the private detector; r[j]'s failure count *)

Inductive sitem :=
| SIPost (j : N) (i : titem)
| SIFinal (j : N) (empty noleaks many : bool) (total : N) (ents : list entry2).

Record aux := mkX {
  x_first : option N;           (* firstPlugin_: serial of the object it points to *)
  x_next : N;                   (* serial of the next further plugin *)
  x_insts : list inst;          (* the further plugins that exist *)
  x_obs : list sitem;
  x_err : bool }.               (* a macro went through a firstPlugin_ whose object is gone (undefined behaviour), or a walk ran out of fuel *)
Definition x_init : aux := mkX None 1 [] [] false.

Definition with_insts (x : aux) (l : list inst) := mkX (x_first x) (x_next x) l (x_obs x) (x_err x).
Definition with_w (i : inst) (w : world) := mkI (i_slot i) (i_serial i) (i_shared i) w.

(* the constructor of the runner's plugin *)
Definition x_main_ctor (x : aux) : aux :=
  mkX (match x_first x with None => Some 0 | f => f end) (x_next x) (x_insts x) (x_obs x) (x_err x).

Definition is_macro (s : stmt) : bool := match s with SExpect _ | SIgnore => true | _ => false end.

(* getFirstPlugin()->expectLeaksInTest(n) / ->ignoreAllLeaksInTest() when firstPlugin_ is not the runner's plugin *)
Definition x_reach (x : aux) (b : stmt) : aux :=
  match x_first x with
  | None => x                                                       (* if (getFirstPlugin()) ... : nothing happens *)
  | Some 0 => x                                                     (* the runner's plugin: main_step *)
  | Some o =>
      if existsb (fun i => i_serial i =? o) (x_insts x)
      then with_insts x (map (fun i => if i_serial i =? o then with_w i (exec_stmt (i_w i) b) else i) (x_insts x))
      else mkX (x_first x) (x_next x) (x_insts x) (x_obs x) true
  end.

Definition post_item (w : world) : world * titem :=
  let (w3, rep) := post_action w in
  (w3, match rep with
       | Some l => mkTI (w_failures w3 - w_fc0 w) 1 (is_nil l) false (len l) (map ent l)
       | None => mkTI (w_failures w3 - w_fc0 w) 0 false false 0 []
       end).
Definition final_item (j : N) (w : world) (k : N) : sitem * bool :=
  match final_report w k with
  | (Some l, e) => (SIFinal j false (is_nil l) false (len l) (map ent l), e)
  | (None, e) => (SIFinal j true false false 0 [], e)
  end.

(* what a statement does to the other instances and to firstPlugin_.  Statements through a plugin that shares the runner's
   detector (MOn / MPre / MPost / MFinal with i_shared) are not modelled (nothing happens; `mvalid` excludes them). *)
Definition aux_step (x : aux) (s : mstmt) : aux :=
  match s with
  | MS b => if is_macro b then x_reach x b else x
  | MNew j sh =>
      mkX (match x_first x with None => Some (x_next x) | f => f end) (x_next x + 1)
          (del_s i_slot j (x_insts x) ++ [mkI j (x_next x) sh (w_start d_init)]) (x_obs x) (x_err x)
  | MDel j => with_insts x (del_s i_slot j (x_insts x))
  | MOn j b =>
      with_insts x (upd_s i_slot j (fun i => if i_shared i then i else with_w i (with_det (i_w i) (mem_stmt (w_det (i_w i)) b))) (x_insts x))
  | MPre j => with_insts x (upd_s i_slot j (fun i => if i_shared i then i else with_w i (pre_action (i_w i))) (x_insts x))
  | MPost j =>
      match find_s i_slot j (x_insts x) with
      | Some i => if i_shared i then x else
                  let (w', it) := post_item (i_w i) in
                  mkX (x_first x) (x_next x) (upd_s i_slot j (fun i => with_w i w') (x_insts x)) (x_obs x ++ [SIPost j it]) (x_err x || w_err w')
      | None => x
      end
  | MFinal j k =>
      match find_s i_slot j (x_insts x) with
      | Some i => if i_shared i then x else
                  let (it, e) := final_item j (i_w i) k in
                  mkX (x_first x) (x_next x) (x_insts x) (x_obs x ++ [it]) (x_err x || e)
      | None => x
      end
  end.

(* what a statement does to the runner's plugin, its detector and the registry's TestResult *)
Definition main_step (first : option N) (w : world) (s : mstmt) : world :=
  match s with
  | MS b => if is_macro b then match first with Some 0 => step w b | _ => w end else step w b
  | MNew _ true => with_det w (with_period (w_det w) SEnabled)       (* memLeakDetector_->enable() on the runner's detector *)
  | _ => w
  end.

Definition mst := (world * aux)%type.
Definition mstep (st : mst) (s : mstmt) : mst := (main_step (x_first (snd st)) (fst st) s, aux_step (snd st) s).

Fixpoint m_run_phase (st : mst) (l : list mstmt) : mst * bool :=
  match l with
  | [] => (st, true)
  | MS SFail :: _ => (mstep st (MS SFail), false)
  | s :: r => m_run_phase (mstep st s) r
  end.
Definition m_run_body (st : mst) (t : mtest) : mst :=
  let (s1, ok) := m_run_phase st (mt_setup t) in
  let s2 := if ok then fst (m_run_phase s1 (mt_body t)) else s1 in
  fst (m_run_phase s2 (mt_teardown t)).

Definition m_run_one (st : mst) (t : mtest) : mst * titem :=
  let st0 := fold_left mstep (mt_before t) st in
  let st1 := (pre_action (fst st0), snd st0) in
  let st2 := fold_left mstep (mt_ipost t) (m_run_body (fold_left mstep (mt_ipre t) st1) t) in
  let (w3, rep) := post_action (fst st2) in
  ((w3, snd st2),
   match rep with
   | Some l => mkTI (w_failures w3 - w_failures (fst st0)) 1 (is_nil l) false (len l) (map ent l)
   | None => mkTI (w_failures w3 - w_failures (fst st0)) 0 false false 0 []
   end).

Fixpoint m_run_tests (st : mst) (ts : list mtest) : mst * list titem :=
  match ts with
  | [] => (st, [])
  | t :: r => let (s1, i) := m_run_one st t in let (s2, is) := m_run_tests s1 r in (s2, i :: is)
  end.

Record mobs := mkMO { mo_main : obs; mo_err : bool; mo_sec : list sitem }.

(* before the runner's plugin exists the detector is there (disabled) and nobody's members are *)
Definition w_none (d : det) : world := mkW d false 0 0 0 false.

Definition mrun (s : mscenario) : mobs :=
  let st0 := fold_left mstep (m_pre s) (w_none d_init, x_init) in
  let st1 := (w_start (w_det (fst st0)), x_main_ctor (snd st0)) in
  let (st2, items) := m_run_tests st1 (m_tests s) in
  let st3 := fold_left mstep (m_tail s) st2 in
  mkMO (match final_report (fst st3) (m_tbd s) with
        | (Some l, e) => mkO e items 0 false (is_nil l) false (len l) (map ent l)
        | (None, e) => mkO e items 0 true false false 0 []
        end) (x_err (snd st3)) (x_obs (snd st3)).

(* ------------------------------------------------------------------ the property, read off the program text *)
Definition er (l : list mstmt) : list stmt := flat_map (fun s => match s with MS b => [b] | _ => [] end) l.
Definition er_test (t : mtest) : ltest :=
  mkT (er (mt_before t)) (er (mt_ipre t)) (er (mt_setup t)) (er (mt_body t)) (er (mt_teardown t)) (er (mt_ipost t)).
(* the program without the statements about other instances *)
Definition erase (s : mscenario) : scenario := mkS (er (m_pre s)) (map er_test (m_tests s)) (er (m_tail s)) (m_tbd s).

Fixpoint m_upto_fail (l : list mstmt) : list mstmt * bool :=
  match l with
  | [] => ([], false)
  | MS SFail :: _ => ([MS SFail], true)
  | s :: r => let (e, f) := m_upto_fail r in (s :: e, f)
  end.
Definition m_phase_text (t : mtest) : list mstmt :=
  let (a, fa) := m_upto_fail (mt_setup t) in
  let b := if fa then [] else fst (m_upto_fail (mt_body t)) in
  a ++ b ++ fst (m_upto_fail (mt_teardown t)).
Definition m_executed (t : mtest) : list mstmt := mt_ipre t ++ m_phase_text t ++ mt_ipost t.
Definition m_text_of (t : mtest) : list mstmt := mt_before t ++ m_executed t.
(* everything executed after the runner's plugin was constructed, in order *)
Definition mtrace (s : mscenario) : list mstmt := flat_map m_text_of (m_tests s) ++ m_tail s.

(* what the text says about a further instance: the statements made through its detector since it was constructed, those since
   its last preTestAction apart *)
Record tinst := mkTN {
  tn_slot : N; tn_shared : bool;
  tn_text : list stmt;              (* through its detector, from its construction up to its last preTestAction (or up to now) *)
  tn_win : option (list stmt) }.    (* Some W: a preTestAction without postTestAction yet, W = the statements since *)
Definition tn_all (t : tinst) : list stmt := tn_text t ++ match tn_win t with Some W => W | None => [] end.
Definition tn_add (b : stmt) (t : tinst) : tinst :=
  match tn_win t with
  | Some W => mkTN (tn_slot t) (tn_shared t) (tn_text t) (Some (W ++ [b]))
  | None => mkTN (tn_slot t) (tn_shared t) (tn_text t ++ [b]) None
  end.
Definition tn_open (t : tinst) : tinst := mkTN (tn_slot t) (tn_shared t) (tn_text t) (Some []).
Definition tn_close (t : tinst) : tinst := mkTN (tn_slot t) (tn_shared t) (tn_all t) None.

Definition sec_stmt_ok (b : stmt) : bool :=
  match b with SAlloc _ _ k => k =? 2 | SFree _ | SRealloc _ _ => true | _ => false end.
Definition is_some {A} (o : option A) : bool := match o with Some _ => true | None => false end.
Definition max_slots : N := 8.

(* the statement is one the property speaks about at this point; the text afterwards *)
Definition tstep (al : list tinst) (s : mstmt) : option (list tinst) :=
  match s with
  | MS _ => Some al
  | MNew j sh => if (j <? max_slots) && negb (is_some (find_s tn_slot j al)) then Some (al ++ [mkTN j sh [] None]) else None
  | MDel j => if is_some (find_s tn_slot j al) then Some (del_s tn_slot j al) else None
  | MOn j b =>
      match find_s tn_slot j al with
      | Some t => if negb (tn_shared t) && sec_stmt_ok b && valid_trace [] (tn_all t ++ [b])
                  then Some (upd_s tn_slot j (tn_add b) al) else None
      | None => None
      end
  | MPre j =>
      match find_s tn_slot j al with
      | Some t => if negb (tn_shared t) && negb (is_some (tn_win t)) then Some (upd_s tn_slot j tn_open al) else None
      | None => None
      end
  | MPost j =>
      match find_s tn_slot j al with
      | Some t => if negb (tn_shared t) && is_some (tn_win t) then Some (upd_s tn_slot j tn_close al) else None
      | None => None
      end
  | MFinal j k =>
      match find_s tn_slot j al with
      | Some t => if negb (tn_shared t) && negb (is_some (tn_win t)) && (k <? 4294967296) then Some al else None
      | None => None
      end
  end.

Definition observes (s : mstmt) : bool := match s with MPost _ | MFinal _ _ => true | _ => false end.

(* the demand on what an instance reports: the property's table for "its test" = the statements through its detector between its
   preTestAction and its postTestAction (the macros do not reach it: nothing declared, nothing ignored); its FinalReport(k) against
   the blocks obtained through its detector since its construction and not released *)
Definition demand (al : list tinst) (s : mstmt) (o : sitem) : bool :=
  match s, o with
  | MPost j, SIPost j' i =>
      match find_s tn_slot j al with
      | Some t => match tn_win t with
                  | Some W => (j' =? j) && check_test (1 + allocs (tn_text t)) (mkT [] [] [] W [] []) i
                  | None => false
                  end
      | None => false
      end
  | MFinal j k, SIFinal j' e nl m tot ents =>
      match find_s tn_slot j al with
      | Some t => let out := leaked 1 (tn_text t) in
                  (j' =? j) && Bool.eqb e (len out =? k) &&
                  (if e then negb nl && negb m && (tot =? 0) && is_nil ents else check_report out nl m tot ents)
      | None => false
      end
  | _, _ => false
  end.

Fixpoint spec_insts (al : list tinst) (tr : list mstmt) (os : list sitem) : bool :=
  match tr with
  | [] => is_nil os
  | s :: r =>
      match tstep al s with
      | None => false
      | Some al' =>
          if observes s then match os with o :: os' => demand al s o && spec_insts al' r os' | [] => false end
          else spec_insts al' r os
      end
  end.

Definition mspec (s : mscenario) (o : mobs) : bool :=
  spec (erase s) (mo_main o) && negb (mo_err o) && spec_insts [] (mtrace s) (mo_sec o).

(* ------------------------------------------------------------------ which programs the property speaks about *)
Fixpoint insts_ok (al : list tinst) (tr : list mstmt) : bool :=
  match tr with
  | [] => true
  | s :: r => match tstep al s with Some al' => insts_ok al' r | None => false end
  end.
Definition is_MS (s : mstmt) : bool := match s with MS _ => true | _ => false end.
(* constructing a plugin on the runner's detector calls enable() on it: inside a test that takes the detector out of the test's
   checking period (the same as calling enable() there: outside the property's quantifier) *)
Definition no_shared_new (l : list mstmt) : bool := forallb (fun s => match s with MNew _ true => false | _ => true end) l.
Definition window_ok (t : mtest) : bool :=
  no_shared_new (mt_ipre t) && no_shared_new (mt_setup t) && no_shared_new (mt_body t) && no_shared_new (mt_teardown t) &&
  no_shared_new (mt_ipost t).

(* the runner's plugin is the first plugin of the process (CommandLineTestRunner constructs it before anything runs) *)
Definition mvalid (s : mscenario) : bool :=
  valid (erase s) && forallb is_MS (m_pre s) && forallb window_ok (m_tests s) && insts_ok [] (mtrace s).
