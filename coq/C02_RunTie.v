(* C02: TestRegistry::runAllTests (with testShouldRun, endOfGroup and UtestShell::setRunInSeperateProcess) as translated from
   source on every run (gen/Gen_HeapC02R.v), run on a heap that REPRESENTS a registry of the model (C02_Model.v), performs exactly
   the walk `run_loop` / `run_all_tests` describes.

   What the translation abstracts (header of the generated file): every call on the TestResult and every virtual call on a
   test is a ghost event `rev` carrying the test it is about; `test->shouldRun(groupFilters_, nameFilters_)` pops the ghost
   stream `shoulds`; getGroup() reads cell 0 of the shell, an opaque integer that identifies the group's text.

   Representation (`reg_at h rb bs ts gcode plug sep ri rep`).  The registry object is block rb (7 cells): tests_ (cell 0) is the
   head of the chain of the shell blocks bs, firstPlugin_ (3) = plug, runInSeperateProcess_ (4) = sep, currentRepetition_ (5) =
   rep, runIgnored_ (6) = ri.  The shells bs are distinct blocks of at least 7 cells, none of them rb, chained by next_ (cell 4)
   as in C02_HeapTie.tlist; shell i stands for the test `nth i ts`: its cell 0 is `gcode (t_group t)`, where `gcode` is any
   function that tells the group texts of ts apart exactly as SimpleString's operator== does (`gcode_ok`).

   Main theorem `src_registry_runAllTests_spec` (Qed, closed under the global context): with length ts < fuel, the ghost stream
   map (b2z o should_run gf nf) ts ++ rest and currentRepetition_ + 1 representable,
     (1) the call returns FOk, consumes exactly one stream value per test, and appends to the events exactly
         `rev_all gf nf ri plug bs ts` (= RTestsStarted :: rev_loop ... true ++ [RTestsEnded], an explicit function of ts);
     (2) `abs_run` reads these events back as the model's `run_all_tests gf nf ri ts` (word and counters), for all ts;
     (3) the heap afterwards is `after_run`: currentRepetition_ = rep + 1, cell 5 of every shell is 1 when sep (shells untouched
         otherwise), every other block unchanged, and it represents the same registry with rep + 1.
   `abs_rev_all_m`: the same reading without being told ri (a test is run-ignored iff setRunIgnored() was called on it before).
   `src_runAllTests_meets_C02`: for a valid scenario the repetition read back from the source's events satisfies the oracle
   C02_Model.rep_ok (C02_Proofs.rep_ok_of_perm applied through (2)).
   Corollaries on the events themselves: `run_ones_in_order`, `run_one_exactly_once`, `run_one_only_selected` (runOneTest once
   per selected test, in list order, with firstPlugin_, and for nothing else), `rev_loop_segments` / `segs_nth` /
   `count_tests_exact` (one segment per test, in order, one countTest each, no other shell mentioned), `groups_alternate`.
   `gcode_idx_ok` / `gcode_exists`: the hypothesis on gcode is satisfiable for every list of tests with NUL-free group texts.
   Fuel `length ts < fuel` is exact (ex_run_fuel); `rep + 1 < 2^31` is needed (ex_run_rep_wraps). *)
From Coq Require Import ZArith NArith Bool List Lia.
From CppUVerif Require Import lib.CSem lib.CMem lib.CMemFacts lib.CHeap C02_Model C02_HeapTie.
From CppUVerif Require C02_Proofs.
From CppUVerif Require Import gen.Gen_HeapC02R.
Import ListNotations.
Local Open Scope Z_scope.

(* ------------------------------------------------------------------ the layout, as re-read from the class definitions on every run *)
Lemma layout_is_the_source :
  off_UtestShell_group_ = 0 /\ off_UtestShell_next_ = 4 /\ off_UtestShell_isRunAsSeperateProcess_ = 5 /\ cells_UtestShell = 7 /\
  off_TestRegistry_tests_ = 0 /\ off_TestRegistry_firstPlugin_ = 3 /\ off_TestRegistry_runInSeperateProcess_ = 4 /\
  off_TestRegistry_currentRepetition_ = 5 /\ off_TestRegistry_runIgnored_ = 6 /\ cells_TestRegistry = 7.
Proof. repeat split; reflexivity. Qed.
(* the same constants as the ones C02_HeapTie's representation (tchain: next_ at cell 4, tests_ at cell 0) was written for *)
Lemma layout_agrees_with_HeapC02 :
  off_UtestShell_next_ = Gen_HeapC02.off_UtestShell_next_ /\ cells_UtestShell = Gen_HeapC02.cells_UtestShell /\
  off_TestRegistry_tests_ = Gen_HeapC02.off_TestRegistry_tests_.
Proof. repeat split; reflexivity. Qed.

(* ------------------------------------------------------------------ small list facts *)
Lemma F2_cons_inv {A B} (R : A -> B -> Prop) a l b l' : Forall2 R (a :: l) (b :: l') -> R a b /\ Forall2 R l l'.
Proof. intro H. inversion H; subst. split; assumption. Qed.
Lemma F2_length {A B} (R : A -> B -> Prop) : forall l l', Forall2 R l l' -> length l = length l'.
Proof. induction l as [|a l IH]; intros l' H; inversion H; subst; [reflexivity|]. cbn [length]. f_equal. apply IH. assumption. Qed.

(* ------------------------------------------------------------------ heaps that differ only in cell 5 of some blocks *)
(* `b->isRunAsSeperateProcess_ = v` and `currentRepetition_ = v`: both are cell 5 of their record *)
Definition store5 (h : heap) (b : nat) (v : val) : heap := CMem.upd h b (CMem.upd (hblock h b) 5 v).
Definition same_but5 (h h' : heap) : Prop :=
  length h' = length h /\
  forall b, length (hblock h' b) = length (hblock h b) /\ forall k, k <> 5%nat -> cell h' b k = cell h b k.

Lemma same_but5_refl h : same_but5 h h.
Proof. split; [reflexivity|]. intro b. split; [reflexivity|]. intros; reflexivity. Qed.
Lemma same_but5_trans h1 h2 h3 : same_but5 h1 h2 -> same_but5 h2 h3 -> same_but5 h1 h3.
Proof.
  intros [L1 C1] [L2 C2]. split; [rewrite L2; exact L1|]. intro b. destruct (C1 b) as [A1 B1]. destruct (C2 b) as [A2 B2].
  split; [rewrite A2; exact A1|]. intros k Hk. rewrite (B2 k Hk). apply B1. exact Hk.
Qed.
Lemma store5_length h b v : length (store5 h b v) = length h.
Proof. apply heap_upd_length. Qed.
Lemma store5_same h b v : (b < length h)%nat -> hblock (store5 h b v) b = CMem.upd (hblock h b) 5 v.
Proof. intro H. apply hblock_upd_same. exact H. Qed.
Lemma store5_other h b v b' : b <> b' -> hblock (store5 h b v) b' = hblock h b'.
Proof. intro H. apply hblock_upd_other. exact H. Qed.
Lemma store5_same_but5 h b v : (b < length h)%nat -> same_but5 h (store5 h b v).
Proof.
  intro Hb. split; [apply store5_length|]. intro b'. destruct (Nat.eq_dec b b') as [<-|N].
  - rewrite store5_same by exact Hb. split; [apply CMem.upd_length|]. intros k Hk. unfold cell. rewrite store5_same by exact Hb.
    apply nth_error_upd_other. intro Q. apply Hk. symmetry. exact Q.
  - rewrite store5_other by exact N. split; [reflexivity|]. intros k _. unfold cell. rewrite store5_other by exact N. reflexivity.
Qed.

(* what the loop does to the heap: `if (runInSeperateProcess_) test->setRunInSeperateProcess()` for every shell *)
Definition mark1 (sep : bool) (h : heap) (b : nat) : heap := if sep then store5 h b (VInt 1) else h.
Definition mark_all (sep : bool) (h : heap) (bs : list nat) : heap := fold_left (mark1 sep) bs h.
(* ... and then `currentRepetition_++` *)
Definition after_run (sep : bool) (h : heap) (rb : nat) (bs : list nat) (rep : Z) : heap :=
  store5 (mark_all sep h bs) rb (VInt (rep + 1)).

Lemma mark1_length sep h b : length (mark1 sep h b) = length h.
Proof. destruct sep; [apply store5_length|reflexivity]. Qed.
Lemma mark1_other sep h b b' : b <> b' -> hblock (mark1 sep h b) b' = hblock h b'.
Proof. intro H. destruct sep; [apply store5_other; exact H|reflexivity]. Qed.
Lemma mark1_same sep h b : (b < length h)%nat ->
  hblock (mark1 sep h b) b = if sep then CMem.upd (hblock h b) 5 (VInt 1) else hblock h b.
Proof. intro H. destruct sep; [apply store5_same; exact H|reflexivity]. Qed.
Lemma mark1_same_but5 sep h b : (b < length h)%nat -> same_but5 h (mark1 sep h b).
Proof. intro H. destruct sep; [apply store5_same_but5; exact H|apply same_but5_refl]. Qed.

Lemma mark_all_length sep : forall bs h, length (mark_all sep h bs) = length h.
Proof. induction bs as [|b bs IH]; intro h; [reflexivity|]. cbn [mark_all fold_left]. fold (mark_all sep (mark1 sep h b) bs). rewrite IH. apply mark1_length. Qed.
Lemma mark_all_other sep b' : forall bs h, ~ In b' bs -> hblock (mark_all sep h bs) b' = hblock h b'.
Proof.
  induction bs as [|b bs IH]; intros h Hn; [reflexivity|]. cbn [mark_all fold_left]. fold (mark_all sep (mark1 sep h b) bs).
  rewrite IH by (intro Q; apply Hn; right; exact Q). apply mark1_other. intro Q. apply Hn. left. exact Q.
Qed.
Lemma mark_all_in sep b' : forall bs h, NoDup bs -> Forall (fun b => (b < length h)%nat) bs -> In b' bs ->
  hblock (mark_all sep h bs) b' = if sep then CMem.upd (hblock h b') 5 (VInt 1) else hblock h b'.
Proof.
  induction bs as [|b bs IH]; intros h Hn Hl Hin; [destruct Hin|]. cbn [mark_all fold_left]. fold (mark_all sep (mark1 sep h b) bs).
  apply NoDup_cons_iff in Hn. destruct Hn as [Nb Hn]. pose proof (Forall_inv Hl) as Lb. apply Forall_inv_tail in Hl.
  destruct (Nat.eq_dec b b') as [<-|N].
  - rewrite mark_all_other by exact Nb. apply mark1_same. exact Lb.
  - destruct Hin as [Q|Hin]; [contradiction|]. rewrite IH; [|exact Hn| |exact Hin].
    + rewrite mark1_other by exact N. reflexivity.
    + eapply Forall_impl; [|exact Hl]. cbv beta. intros a Ha. rewrite mark1_length. exact Ha.
Qed.
Lemma mark_all_same_but5 sep : forall bs h, Forall (fun b => (b < length h)%nat) bs -> same_but5 h (mark_all sep h bs).
Proof.
  induction bs as [|b bs IH]; intros h Hl; [apply same_but5_refl|]. cbn [mark_all fold_left]. fold (mark_all sep (mark1 sep h b) bs).
  pose proof (Forall_inv Hl) as Lb. apply Forall_inv_tail in Hl.
  apply (same_but5_trans h (mark1 sep h b)); [apply mark1_same_but5; exact Lb|].
  apply IH. eapply Forall_impl; [|exact Hl]. cbv beta. intros a Ha. rewrite mark1_length. exact Ha.
Qed.

(* ------------------------------------------------------------------ the representation *)
Definition shell7 (h : heap) (b : nat) : Prop := (b < length h)%nat /\ (7 <= length (hblock h b))%nat.
(* cell 0 (group_) of shell b identifies the group text of test t *)
Definition grp_at (gcode : list N -> Z) (h : heap) (b : nat) (t : test) : Prop := cell h b 0 = Some (VInt (gcode (t_group t))).
(* the integers standing for the group texts are equal exactly when SimpleString's operator== says the texts are *)
Definition gcode_ok (gcode : list N -> Z) (groups : list (list N)) : Prop :=
  forall a b, In a groups -> In b groups -> (gcode a = gcode b <-> sstr_equal a b = true).
(* the members of the registry object the loop reads *)
Definition reg_cells (h : heap) (rb : nat) (plug : Z) (sep ri : bool) : Prop :=
  (7 <= length (hblock h rb))%nat /\ cell h rb 3 = Some (VInt plug) /\ cell h rb 4 = Some (VInt (b2z sep)) /\
  cell h rb 6 = Some (VInt (b2z ri)).

Definition reg_at (h : heap) (rb : nat) (bs : list nat) (ts : list test) (gcode : list N -> Z) (plug : Z) (sep ri : bool)
  (rep : Z) : Prop :=
  (rb < length h)%nat /\ length (hblock h rb) = 7%nat /\
  cell h rb 0 = Some (VPtr (hd_ptr bs)) /\ cell h rb 5 = Some (VInt rep) /\ reg_cells h rb plug sep ri /\
  tlist h (hd_ptr bs) bs /\ ~ In rb bs /\ Forall (shell7 h) bs /\ Forall2 (grp_at gcode h) bs ts.

Lemma gcode_ok_tail gcode g gs : gcode_ok gcode (g :: gs) -> gcode_ok gcode gs.
Proof. intros H a b Ha Hb. apply H; right; assumption. Qed.

Lemma reg_cells_sb h h' rb plug sep ri : same_but5 h h' -> reg_cells h rb plug sep ri -> reg_cells h' rb plug sep ri.
Proof.
  intros [_ C] (L & C3 & C4 & C6). destruct (C rb) as [A B]. split; [rewrite A; exact L|].
  split; [rewrite B by lia; exact C3|]. split; [rewrite B by lia; exact C4|rewrite B by lia; exact C6].
Qed.
Lemma tchain_sb h h' : same_but5 h h' -> forall bs p, tchain h p bs -> tchain h' p bs.
Proof.
  intros [_ C]. induction bs as [|b bs IH]; intros p H; [exact H|]. destruct H as [Hp [q [Hq Hc]]].
  split; [exact Hp|]. exists q. split; [|apply IH; exact Hc]. rewrite (proj2 (C b)) by lia. exact Hq.
Qed.
Lemma shell7_sb h h' b : same_but5 h h' -> shell7 h b -> shell7 h' b.
Proof. intros [L C] [H1 H2]. split; [rewrite L; exact H1|rewrite (proj1 (C b)); exact H2]. Qed.
Lemma grp_at_sb gcode h h' b t : same_but5 h h' -> grp_at gcode h b t -> grp_at gcode h' b t.
Proof. intros [_ C] H. unfold grp_at. rewrite (proj2 (C b)) by lia. exact H. Qed.
Lemma shells7_sb h h' bs : same_but5 h h' -> Forall (shell7 h) bs -> Forall (shell7 h') bs.
Proof. intros S H. eapply Forall_impl; [|exact H]. intros b Hb. exact (shell7_sb h h' b S Hb). Qed.
Lemma grps_sb gcode h h' : same_but5 h h' -> forall bs ts, Forall2 (grp_at gcode h) bs ts -> Forall2 (grp_at gcode h') bs ts.
Proof. intros S bs ts H. induction H as [|b t bs ts H0 _ IH]; constructor; [exact (grp_at_sb gcode h h' b t S H0)|exact IH]. Qed.

(* ================================================================== UtestShell::setRunInSeperateProcess *)
Theorem src_shell_setRunInSeperateProcess_spec fuel0 h evs shs b : shell7 h b ->
  src_shell_setRunInSeperateProcess fuel0 h evs shs (HPtr b 0) = FOk (tt, store5 h b (VInt 1), evs, shs).
Proof.
  intros [H1 H2]. unfold src_shell_setRunInSeperateProcess.
  assert (P : hpadd h (HPtr b 0) 5 = Some (HPtr b 5)) by exact (h_padd0 h b 5 ltac:(lia)).
  rewrite P. cbv beta iota.
  pose proof (h_store h b 5 (VInt 1) H1 ltac:(lia)) as S. change (Z.of_nat 5) with 5 in S. rewrite S. reflexivity.
Qed.

(* ================================================================== TestRegistry::testShouldRun *)
(* the answer of test->shouldRun(filters) is the next value sr of the ghost stream; a refusal is reported to the result *)
Theorem src_registry_testShouldRun_spec fuel0 h evs shs this test (sr : bool) :
  src_registry_testShouldRun fuel0 h evs (b2z sr :: shs) this test
  = FOk (b2z sr, h, if sr then evs else evs ++ [RFilteredOut], shs).
Proof. unfold src_registry_testShouldRun. rewrite b2z_z2b. destruct sr; reflexivity. Qed.
(* an exhausted stream is an error, not a default *)
Lemma src_registry_testShouldRun_dry fuel0 h evs this test : src_registry_testShouldRun fuel0 h evs [] this test = FOob.
Proof. reflexivity. Qed.

(* ================================================================== TestRegistry::endOfGroup *)
Lemma src_registry_endOfGroup_null fuel0 h evs shs this : src_registry_endOfGroup fuel0 h evs shs this HNull = FOk (1, h, evs, shs).
Proof. reflexivity. Qed.

Theorem src_registry_endOfGroup_spec gcode fuel0 h evs shs this b bs t ts :
  tchain h (HPtr b 0) (b :: bs) -> Forall2 (grp_at gcode h) (b :: bs) (t :: ts) -> gcode_ok gcode (map t_group (t :: ts)) ->
  src_registry_endOfGroup fuel0 h evs shs this (HPtr b 0) = FOk (b2z (end_of_group t ts), h, evs, shs).
Proof.
  intros [_ [q [Hq Hc]]] F2 Gk. apply F2_cons_inv in F2. destruct F2 as [G0 F2].
  destruct (next_load h b q Hq) as [E1 E2].
  assert (V0 : hload_int h (HPtr b 0) = Some (gcode (t_group t))) by exact (h_load_int h b 0 _ G0).
  unfold src_registry_endOfGroup. change (z2b (c_lnot (hp_bool (HPtr b 0)))) with false. cbv beta iota.
  rewrite E1. cbv beta iota. rewrite E2. cbv beta iota.
  destruct bs as [|b' bs'].
  - cbn [tchain] in Hc. subst q. inversion F2; subst. change (z2b (c_lnot (hp_bool HNull))) with true. reflexivity.
  - destruct Hc as [-> _]. destruct ts as [|t' ts']; [inversion F2|]. apply F2_cons_inv in F2. destruct F2 as [G1 _].
    assert (V1 : hload_int h (HPtr b' 0) = Some (gcode (t_group t'))) by exact (h_load_int h b' 0 _ G1).
    change (z2b (c_lnot (hp_bool (HPtr b' 0)))) with false. cbv beta iota.
    rewrite V0. cbv beta iota. rewrite V1. cbv beta iota.
    cbn [end_of_group]. unfold c_ne.
    replace (gcode (t_group t) =? gcode (t_group t')) with (sstr_equal (t_group t) (t_group t')); [reflexivity|].
    assert (I0 : In (t_group t) (map t_group (t :: t' :: ts'))) by (left; reflexivity).
    assert (I1 : In (t_group t') (map t_group (t :: t' :: ts'))) by (right; left; reflexivity).
    pose proof (Gk _ _ I0 I1) as Hg. destruct (sstr_equal (t_group t) (t_group t')) eqn:E; symmetry.
    + apply Z.eqb_eq. apply Hg. reflexivity.
    + apply Z.eqb_neq. intro Q. apply Hg in Q. discriminate Q.
Qed.

(* ================================================================== the events of the walk, as a function of the model's list *)
(* what one trip of the loop reports about the shell p: ri = runIgnored_, gs = groupStart, sr = shouldRun, eog = endOfGroup *)
Definition step_evs (ri gs sr eog : bool) (plug : Z) (p : hptr) : list rev :=
  (if ri then [RSetRunIgnored p] else []) ++ (if gs then [RGroupStarted p] else []) ++ [RCountTest]
  ++ (if sr then [RTestStarted p; RRunOne p plug; RTestEnded p] else [RFilteredOut])
  ++ (if eog then [RGroupEnded p] else []).

(* mirrors C02_Model.run_loop *)
Fixpoint rev_loop (gf nf : list tfilter) (ri : bool) (plug : Z) (bs : list nat) (ts : list test) (gs : bool) : list rev :=
  match bs, ts with
  | b :: bs', t :: ts' =>
      let eog := end_of_group t ts' in
      step_evs ri gs (should_run gf nf t) eog plug (HPtr b 0) ++ rev_loop gf nf ri plug bs' ts' eog
  | _, _ => []
  end.
(* mirrors C02_Model.run_all_tests *)
Definition rev_all (gf nf : list tfilter) (ri : bool) (plug : Z) (bs : list nat) (ts : list test) : list rev :=
  RTestsStarted :: rev_loop gf nf ri plug bs ts true ++ [RTestsEnded].

(* ================================================================== one trip of the loop *)
Lemma loop_step fuel0 fuel rb h evs shs b q plug (sep ri gs sr eog : bool) :
  reg_cells h rb plug sep ri -> shell7 h b -> cell h b 4 = Some (VPtr q) ->
  (forall evs' shs', src_registry_endOfGroup fuel0 (mark1 sep h b) evs' shs' (HPtr rb 0) (HPtr b 0)
                     = FOk (b2z eog, mark1 sep h b, evs', shs')) ->
  src_registry_runAllTests_loop1 fuel0 (S fuel) (HPtr rb 0) h evs (b2z sr :: shs) (b2z gs) (HPtr b 0)
  = src_registry_runAllTests_loop1 fuel0 fuel (HPtr rb 0) (mark1 sep h b) (evs ++ step_evs ri gs sr eog plug (HPtr b 0)) shs
      (b2z eog) q.
Proof.
  intros RC Sb Hq Heog. pose proof RC as (L7 & C3 & C4 & C6).
  pose proof (mark1_same_but5 sep h b (proj1 Sb)) as SB.
  pose proof (reg_cells_sb _ _ _ _ _ _ SB RC) as (L7' & C3' & _ & C6').
  assert (P4 : hpadd h (HPtr rb 0) 4 = Some (HPtr rb 4)) by exact (h_padd0 h rb 4 ltac:(lia)).
  assert (V4 : hload_int h (HPtr rb 4) = Some (b2z sep)) by exact (h_load_int h rb 4 _ C4).
  pose proof (src_shell_setRunInSeperateProcess_spec fuel0 h evs (b2z sr :: shs) b Sb) as Eset.
  assert (P6 : hpadd (mark1 sep h b) (HPtr rb 0) 6 = Some (HPtr rb 6)) by exact (h_padd0 (mark1 sep h b) rb 6 ltac:(lia)).
  assert (V6 : hload_int (mark1 sep h b) (HPtr rb 6) = Some (b2z ri)) by exact (h_load_int _ rb 6 _ C6').
  assert (P3 : hpadd (mark1 sep h b) (HPtr rb 0) 3 = Some (HPtr rb 3)) by exact (h_padd0 (mark1 sep h b) rb 3 ltac:(lia)).
  assert (V3 : hload_int (mark1 sep h b) (HPtr rb 3) = Some plug) by exact (h_load_int _ rb 3 _ C3').
  assert (Hq' : cell (mark1 sep h b) b 4 = Some (VPtr q)).
  { destruct SB as [_ C]. rewrite (proj2 (C b)) by lia. exact Hq. }
  destruct (next_load _ b q Hq') as [Pq Vq].
  cbn [src_registry_runAllTests_loop1]. change (z2b (hp_ne (HPtr b 0) HNull)) with true. cbv beta iota.
  rewrite P4. cbv beta iota. rewrite V4. cbv beta iota. rewrite !b2z_z2b.
  destruct sep; cbn [mark1] in *; [rewrite Eset|]; cbv beta iota.
  all: rewrite P6; cbv beta iota; rewrite V6; cbv beta iota; rewrite ?b2z_z2b.
  all: destruct ri; cbv beta iota zeta.
  all: destruct gs; cbv beta iota zeta.
  all: rewrite src_registry_testShouldRun_spec; cbv beta iota; rewrite ?b2z_z2b.
  all: destruct sr; cbv beta iota zeta.
  all: rewrite ?P3; cbv beta iota; rewrite ?V3; cbv beta iota zeta.
  all: rewrite Heog; cbv beta iota; rewrite ?b2z_z2b.
  all: destruct eog; cbv beta iota zeta; rewrite Pq; cbv beta iota; rewrite Vq; cbv beta iota zeta.
  all: unfold step_evs; rewrite <- ?app_assoc; reflexivity.
Qed.

(* ================================================================== the loop, by induction on the model's list *)
Lemma src_registry_runAllTests_loop_spec gf nf gcode rb plug sep ri fuel0 : forall ts bs h fuel evs rest gs p,
  reg_cells h rb plug sep ri -> tchain h p bs -> Forall (shell7 h) bs -> Forall2 (grp_at gcode h) bs ts ->
  gcode_ok gcode (map t_group ts) -> (length ts < fuel)%nat ->
  exists g,
    src_registry_runAllTests_loop1 fuel0 fuel (HPtr rb 0) h evs (map (fun t => b2z (should_run gf nf t)) ts ++ rest) (b2z gs) p
    = Go (mark_all sep h bs, evs ++ rev_loop gf nf ri plug bs ts gs, rest, g, HNull).
Proof.
  induction ts as [|t ts IH]; intros bs h fuel evs rest gs p RC Tc S7 F2 Gk Hf; (destruct fuel as [|fuel]; [cbn in Hf; lia|]).
  - inversion F2; subst. cbn [tchain] in Tc. subst p. cbn [src_registry_runAllTests_loop1].
    change (z2b (hp_ne HNull HNull)) with false. cbv beta iota. exists (b2z gs). cbn [rev_loop mark_all fold_left map app].
    rewrite app_nil_r. reflexivity.
  - destruct bs as [|b bs]; [inversion F2|]. pose proof F2 as F2c. apply F2_cons_inv in F2. destruct F2 as [G0 F2].
    pose proof Tc as [-> [q [Hq Tc']]]. pose proof (Forall_inv S7) as Sb. apply Forall_inv_tail in S7.
    pose proof (mark1_same_but5 sep h b (proj1 Sb)) as SB.
    cbn [map app].
    rewrite (loop_step fuel0 fuel rb h evs _ b q plug sep ri gs (should_run gf nf t) (end_of_group t ts) RC Sb Hq).
    + destruct (IH bs (mark1 sep h b) fuel (evs ++ step_evs ri gs (should_run gf nf t) (end_of_group t ts) plug (HPtr b 0)) rest
                  (end_of_group t ts) q) as [g Eg].
      * exact (reg_cells_sb _ _ _ _ _ _ SB RC).
      * exact (tchain_sb _ _ SB _ _ Tc').
      * exact (shells7_sb _ _ _ SB S7).
      * exact (grps_sb gcode _ _ SB _ _ F2).
      * exact (gcode_ok_tail _ _ _ Gk).
      * cbn [length] in Hf. lia.
      * exists g. rewrite Eg. cbn [mark_all fold_left rev_loop]. rewrite <- app_assoc. reflexivity.
    + intros evs' shs'. apply (src_registry_endOfGroup_spec gcode fuel0 _ evs' shs' (HPtr rb 0) b bs t ts).
      * exact (tchain_sb _ _ SB _ _ Tc).
      * exact (grps_sb gcode _ _ SB _ _ F2c).
      * exact Gk.
Qed.

(* ================================================================== the heap afterwards *)
Theorem after_run_heap sep h rb bs rep :
  (rb < length h)%nat -> ~ In rb bs -> NoDup bs -> Forall (shell7 h) bs ->
  length (after_run sep h rb bs rep) = length h /\
  hblock (after_run sep h rb bs rep) rb = CMem.upd (hblock h rb) 5 (VInt (rep + 1)) /\
  (forall b, In b bs -> hblock (after_run sep h rb bs rep) b = if sep then CMem.upd (hblock h b) 5 (VInt 1) else hblock h b) /\
  (forall b, b <> rb -> ~ In b bs -> hblock (after_run sep h rb bs rep) b = hblock h b).
Proof.
  intros Lr Nr Hn S7. unfold after_run.
  assert (Hl : Forall (fun b => (b < length h)%nat) bs) by (eapply Forall_impl; [|exact S7]; intros b Hb; exact (proj1 Hb)).
  split; [rewrite store5_length; apply mark_all_length|]. split; [|split].
  - rewrite store5_same by (rewrite mark_all_length; exact Lr). rewrite mark_all_other by exact Nr. reflexivity.
  - intros b Hb. rewrite store5_other by (intro Q; subst b; exact (Nr Hb)). apply mark_all_in; assumption.
  - intros b N1 N2. rewrite store5_other by (intro Q; apply N1; symmetry; exact Q). apply mark_all_other. exact N2.
Qed.

Lemma after_run_same_but5 sep h rb bs rep : (rb < length h)%nat -> Forall (shell7 h) bs -> same_but5 h (after_run sep h rb bs rep).
Proof.
  intros Lr S7. unfold after_run.
  assert (Hl : Forall (fun b => (b < length h)%nat) bs) by (eapply Forall_impl; [|exact S7]; intros b Hb; exact (proj1 Hb)).
  apply (same_but5_trans h (mark_all sep h bs)); [apply mark_all_same_but5; exact Hl|].
  apply store5_same_but5. rewrite mark_all_length. exact Lr.
Qed.

(* the heap afterwards represents the same registry, one repetition later *)
Theorem after_run_reg_at sep h rb bs ts gcode plug ri rep :
  reg_at h rb bs ts gcode plug sep ri rep -> reg_at (after_run sep h rb bs rep) rb bs ts gcode plug sep ri (rep + 1).
Proof.
  intros (Lr & L7 & C0 & C5 & RC & (Tc & Hn & Hs) & Nr & S7 & F2).
  pose proof (after_run_same_but5 sep h rb bs rep Lr S7) as SB.
  destruct (after_run_heap sep h rb bs rep Lr Nr Hn S7) as (K & Br & _ & _).
  pose proof SB as [_ C]. pose proof (shells7_sb _ _ _ SB S7) as S7'.
  split; [rewrite K; exact Lr|]. split; [rewrite (proj1 (C rb)); exact L7|].
  split; [rewrite (proj2 (C rb)) by lia; exact C0|].
  split; [unfold cell; rewrite Br; apply nth_error_upd_same; lia|].
  split; [exact (reg_cells_sb _ _ _ _ _ _ SB RC)|].
  split; [|split; [exact Nr|split; [exact S7'|exact (grps_sb gcode _ _ SB _ _ F2)]]].
  split; [exact (tchain_sb _ _ SB _ _ Tc)|]. split; [exact Hn|].
  eapply Forall_impl; [|exact S7']. intros b [H1 H2]. split; [exact H1|lia].
Qed.

(* ================================================================== (1) TestRegistry::runAllTests *)
Theorem src_registry_runAllTests_runs gf nf gcode fuel h rb bs ts plug sep ri rep evs0 rest :
  reg_at h rb bs ts gcode plug sep ri rep -> gcode_ok gcode (map t_group ts) ->
  (length ts < fuel)%nat -> - 2 ^ 31 <= rep -> rep + 1 < 2 ^ 31 ->
  src_registry_runAllTests fuel h evs0 (map (fun t => b2z (should_run gf nf t)) ts ++ rest) (HPtr rb 0)
  = FOk (tt, after_run sep h rb bs rep, evs0 ++ rev_all gf nf ri plug bs ts, rest).
Proof.
  intros (Lr & L7 & C0 & C5 & RC & (Tc & Hn & Hs) & Nr & S7 & F2) Gk Hf R1 R2.
  assert (V0 : hload_ptr h (HPtr rb 0) = Some (hd_ptr bs)) by exact (h_load_ptr h rb 0 _ C0).
  destruct (src_registry_runAllTests_loop_spec gf nf gcode rb plug sep ri fuel ts bs h fuel (evs0 ++ [RTestsStarted]) rest true
              (hd_ptr bs) RC Tc S7 F2 Gk Hf) as [g Eg].
  change (b2z true) with 1 in Eg.
  assert (Bm : hblock (mark_all sep h bs) rb = hblock h rb) by (apply mark_all_other; exact Nr).
  assert (P5 : hpadd (mark_all sep h bs) (HPtr rb 0) 5 = Some (HPtr rb 5)).
  { apply (h_padd0 (mark_all sep h bs) rb 5). rewrite Bm. lia. }
  assert (V5 : hload_int (mark_all sep h bs) (HPtr rb 5) = Some rep).
  { apply (h_load_int (mark_all sep h bs) rb 5). rewrite Bm. exact C5. }
  assert (S5 : hstore (mark_all sep h bs) (HPtr rb 5) (VInt (rep + 1)) = Some (store5 (mark_all sep h bs) rb (VInt (rep + 1)))).
  { apply (h_store (mark_all sep h bs) rb 5); [rewrite mark_all_length; exact Lr|rewrite Bm; lia]. }
  assert (W : cw 32 true (rep + 1) = rep + 1).
  { apply cw_s_small; [lia|]. change (2 ^ (32 - 1)) with 2147483648. change (2 ^ 31) with 2147483648 in R1, R2. lia. }
  unfold src_registry_runAllTests. cbv zeta. rewrite V0. cbv beta iota. rewrite Eg. cbv beta iota.
  rewrite P5. cbv beta iota. rewrite V5. cbv beta iota. rewrite W, S5. unfold finish, after_run, rev_all.
  rewrite <- !app_assoc. reflexivity.
Qed.

(* ================================================================== (2) the events, read back as the model's word and counters *)
(* the test a shell pointer stands for: the pair list is `combine bs ts` *)
Definition test_of (bts : list (nat * test)) (p : hptr) : option test :=
  match p with
  | HPtr b i => if i =? 0 then option_map snd (find (fun bt => Nat.eqb (fst bt) b) bts) else None
  | HNull => None
  end.

(* one event: the model's events it stands for and the counters afterwards; None for a pointer that is no registered shell.
   RRunOne p _ of the test t is IgnoredUtestShell/UtestShell::runOneTest, the model's run_one_test; setRunIgnored() has no
   event of its own in the model (its effect is the model's parameter ri) *)
Definition abs_ev (ri : bool) (bts : list (nat * test)) (e : rev) (k : counters) : option (list event * counters) :=
  match e with
  | RTestsStarted => Some ([ETestsStarted], k)
  | RTestsEnded => Some ([ETestsEnded], k)
  | RCountTest => Some ([], count_test k)
  | RFilteredOut => Some ([], count_filtered k)
  | RGroupStarted p => match test_of bts p with Some t => Some ([EGroupStarted (t_id t)], k) | None => None end
  | RGroupEnded p => match test_of bts p with Some _ => Some ([EGroupEnded], k) | None => None end
  | RTestStarted p => match test_of bts p with Some t => Some ([ETestStarted (t_id t)], k) | None => None end
  | RTestEnded p => match test_of bts p with Some _ => Some ([ETestEnded], k) | None => None end
  | RRunOne p _ => match test_of bts p with Some t => Some (run_one_test ri t k) | None => None end
  | RSetRunIgnored p => match test_of bts p with Some _ => Some ([], k) | None => None end
  end.
Fixpoint abs_run (ri : bool) (bts : list (nat * test)) (E : list rev) (k : counters) : option (list event * counters) :=
  match E with
  | [] => Some ([], k)
  | e :: E' =>
      match abs_ev ri bts e k with
      | None => None
      | Some (w1, k1) => match abs_run ri bts E' k1 with None => None | Some (w2, k2) => Some (w1 ++ w2, k2) end
      end
  end.

Lemma abs_run_app ri bts : forall E1 E2 k,
  abs_run ri bts (E1 ++ E2) k =
  match abs_run ri bts E1 k with
  | None => None
  | Some (w1, k1) => match abs_run ri bts E2 k1 with None => None | Some (w2, k2) => Some (w1 ++ w2, k2) end
  end.
Proof.
  induction E1 as [|e E1 IH]; intros E2 k; cbn [app abs_run].
  - destruct (abs_run ri bts E2 k) as [[w2 k2]|]; reflexivity.
  - destruct (abs_ev ri bts e k) as [[w1 k1]|]; [|reflexivity]. rewrite IH.
    destruct (abs_run ri bts E1 k1) as [[wa ka]|]; [|reflexivity].
    destruct (abs_run ri bts E2 ka) as [[wb kb]|]; [|reflexivity]. rewrite app_assoc. reflexivity.
Qed.

Lemma test_of_combine : forall bs ts i b t, NoDup bs -> nth_error bs i = Some b -> nth_error ts i = Some t ->
  test_of (combine bs ts) (HPtr b 0) = Some t.
Proof.
  unfold test_of. change (0 =? 0) with true. cbv iota.
  induction bs as [|b0 bs IH]; intros ts i b t Hn Hb Ht; [destruct i; discriminate Hb|].
  destruct ts as [|t0 ts]; [destruct i; discriminate Ht|]. apply NoDup_cons_iff in Hn. destruct Hn as [N0 Hn].
  cbn [combine find fst]. destruct i as [|i].
  - cbn [nth_error] in Hb, Ht. injection Hb as <-. injection Ht as <-. rewrite Nat.eqb_refl. reflexivity.
  - cbn [nth_error] in Hb, Ht. replace (Nat.eqb b0 b) with false.
    + exact (IH ts i b t Hn Hb Ht).
    + symmetry. apply Nat.eqb_neq. intro Q. subst b0. apply N0. eapply nth_error_In. exact Hb.
Qed.

(* one trip, read back: the model's events and counter step for the test *)
Lemma abs_step gf nf ri bts plug p t gs eog k : test_of bts p = Some t ->
  abs_run ri bts (step_evs ri gs (should_run gf nf t) eog plug p) k
  = Some ((if gs then [EGroupStarted (t_id t)] else []) ++ C02_Proofs.test_events gf nf ri t ++ (if eog then [EGroupEnded] else []),
          C02_Proofs.step_counters gf nf ri k t).
Proof.
  intro Hp. unfold step_evs, C02_Proofs.test_events, C02_Proofs.step_counters, C02_Proofs.m_ign.
  destruct ri, gs, (should_run gf nf t), eog; cbn [app abs_run abs_ev]; rewrite ?Hp; unfold run_one_test;
    destruct (t_ignored t); reflexivity.
Qed.

Lemma abs_rev_loop gf nf ri plug bts : forall ts bs gs k, length bs = length ts ->
  (forall i b t, nth_error bs i = Some b -> nth_error ts i = Some t -> test_of bts (HPtr b 0) = Some t) ->
  abs_run ri bts (rev_loop gf nf ri plug bs ts gs) k = Some (run_loop gf nf ri ts gs k).
Proof.
  intros ts bs gs k. rewrite C02_Proofs.run_loop_split. revert bs gs k.
  induction ts as [|t ts IH]; intros bs gs k L H; destruct bs as [|b bs]; try discriminate L; [reflexivity|].
  cbn [rev_loop C02_Proofs.events_of fold_left]. rewrite abs_run_app.
  rewrite (abs_step gf nf ri bts plug (HPtr b 0) t gs (end_of_group t ts) k (H 0%nat b t eq_refl eq_refl)).
  rewrite (IH bs (end_of_group t ts) (C02_Proofs.step_counters gf nf ri k t)).
  - rewrite <- !app_assoc. reflexivity.
  - cbn [length] in L. lia.
  - intros i b' t' Hb Ht. exact (H (S i) b' t' Hb Ht).
Qed.

(* for ALL lists of tests: the events of the walk are the model's run_all_tests *)
Theorem abs_rev_all gf nf ri plug bs ts : NoDup bs -> length bs = length ts ->
  abs_run ri (combine bs ts) (rev_all gf nf ri plug bs ts) cnt0 = Some (run_all_tests gf nf ri ts).
Proof.
  intros Hn L. unfold rev_all, run_all_tests. cbn [abs_run abs_ev]. rewrite abs_run_app.
  rewrite (abs_rev_loop gf nf ri plug (combine bs ts) ts bs true cnt0 L).
  - destruct (run_loop gf nf ri ts true cnt0) as [w k]. reflexivity.
  - intros i b t Hb Ht. exact (test_of_combine bs ts i b t Hn Hb Ht).
Qed.

(* ---- the same reading WITHOUT being told the model's ri: a test is run-ignored iff setRunIgnored() was called on it before
   (the shells marked so far are carried along); for the events of the translated walk this is the model with ri = runIgnored_ *)
Definition marked (ms : list hptr) (p : hptr) : bool := existsb (hptr_eqb p) ms.
Definition abs_ev_m (bts : list (nat * test)) (e : rev) (st : counters * list hptr) : option (list event * (counters * list hptr)) :=
  let '(k, ms) := st in
  match e with
  | RSetRunIgnored p => match test_of bts p with Some _ => Some ([], (k, p :: ms)) | None => None end
  | RRunOne p _ => match test_of bts p with
                   | Some t => let '(w, k') := run_one_test (marked ms p) t k in Some (w, (k', ms))
                   | None => None
                   end
  | _ => match abs_ev false bts e k with Some (w, k') => Some (w, (k', ms)) | None => None end
  end.
Fixpoint abs_run_m (bts : list (nat * test)) (E : list rev) (st : counters * list hptr) : option (list event * (counters * list hptr)) :=
  match E with
  | [] => Some ([], st)
  | e :: E' =>
      match abs_ev_m bts e st with
      | None => None
      | Some (w1, st1) => match abs_run_m bts E' st1 with None => None | Some (w2, st2) => Some (w1 ++ w2, st2) end
      end
  end.
Lemma abs_run_m_app bts : forall E1 E2 st,
  abs_run_m bts (E1 ++ E2) st =
  match abs_run_m bts E1 st with
  | None => None
  | Some (w1, st1) => match abs_run_m bts E2 st1 with None => None | Some (w2, st2) => Some (w1 ++ w2, st2) end
  end.
Proof.
  induction E1 as [|e E1 IH]; intros E2 st; cbn [app abs_run_m].
  - destruct (abs_run_m bts E2 st) as [[w2 st2]|]; reflexivity.
  - destruct (abs_ev_m bts e st) as [[w1 st1]|]; [|reflexivity]. rewrite IH.
    destruct (abs_run_m bts E1 st1) as [[wa sa]|]; [|reflexivity].
    destruct (abs_run_m bts E2 sa) as [[wb sb]|]; [|reflexivity]. rewrite app_assoc. reflexivity.
Qed.
Lemma marked_head p ms : marked (p :: ms) p = true.
Proof. unfold marked. cbn [existsb]. rewrite hptr_eqb_refl. reflexivity. Qed.
Lemma abs_step_m gf nf ri bts plug p t gs eog k ms : test_of bts p = Some t -> (ri = false -> ms = []) ->
  abs_run_m bts (step_evs ri gs (should_run gf nf t) eog plug p) (k, ms)
  = Some ((if gs then [EGroupStarted (t_id t)] else []) ++ C02_Proofs.test_events gf nf ri t ++ (if eog then [EGroupEnded] else []),
          (C02_Proofs.step_counters gf nf ri k t, if ri then p :: ms else ms)).
Proof.
  intros Hp Hm. unfold step_evs, C02_Proofs.test_events, C02_Proofs.step_counters, C02_Proofs.m_ign.
  assert (M0 : marked [] p = false) by reflexivity.
  destruct ri; [|rewrite (Hm eq_refl)];
    destruct gs, (should_run gf nf t), eog, (t_ignored t) eqn:Ei;
    repeat (progress (cbn [app abs_run_m abs_ev_m abs_ev andb negb]; rewrite ?Hp, ?marked_head, ?M0; unfold run_one_test; rewrite ?Ei));
    reflexivity.
Qed.
Lemma abs_rev_loop_m gf nf ri plug bts : forall ts bs gs k ms, length bs = length ts -> (ri = false -> ms = []) ->
  (forall i b t, nth_error bs i = Some b -> nth_error ts i = Some t -> test_of bts (HPtr b 0) = Some t) ->
  exists ms', abs_run_m bts (rev_loop gf nf ri plug bs ts gs) (k, ms)
              = Some (fst (run_loop gf nf ri ts gs k), (snd (run_loop gf nf ri ts gs k), ms')).
Proof.
  intros ts bs gs k ms. rewrite C02_Proofs.run_loop_split. cbn [fst snd]. revert bs gs k ms.
  induction ts as [|t ts IH]; intros bs gs k ms L Hm H; destruct bs as [|b bs]; try discriminate L; [exists ms; reflexivity|].
  cbn [rev_loop C02_Proofs.events_of fold_left]. rewrite abs_run_m_app.
  rewrite (abs_step_m gf nf ri bts plug (HPtr b 0) t gs (end_of_group t ts) k ms (H 0%nat b t eq_refl eq_refl) Hm).
  destruct (IH bs (end_of_group t ts) (C02_Proofs.step_counters gf nf ri k t) (if ri then HPtr b 0 :: ms else ms)) as [ms' E].
  - cbn [length] in L. lia.
  - intros ->. exact (Hm eq_refl).
  - intros i b' t' Hb Ht. exact (H (S i) b' t' Hb Ht).
  - exists ms'. rewrite E. rewrite <- !app_assoc. reflexivity.
Qed.
Theorem abs_rev_all_m gf nf ri plug bs ts : NoDup bs -> length bs = length ts ->
  exists ms', abs_run_m (combine bs ts) (rev_all gf nf ri plug bs ts) (cnt0, [])
              = Some (fst (run_all_tests gf nf ri ts), (snd (run_all_tests gf nf ri ts), ms')).
Proof.
  intros Hn L. unfold rev_all, run_all_tests. cbn [abs_run_m abs_ev_m abs_ev]. rewrite abs_run_m_app.
  destruct (abs_rev_loop_m gf nf ri plug (combine bs ts) ts bs true cnt0 [] L (fun _ => eq_refl)) as [ms' E].
  - intros i b t Hb Ht. exact (test_of_combine bs ts i b t Hn Hb Ht).
  - exists ms'. rewrite E. destruct (run_loop gf nf ri ts true cnt0) as [w k]. reflexivity.
Qed.

(* ================================================================== the theorem *)
Theorem src_registry_runAllTests_spec gf nf gcode fuel h rb bs ts plug sep ri rep evs0 rest :
  reg_at h rb bs ts gcode plug sep ri rep -> gcode_ok gcode (map t_group ts) ->
  (length ts < fuel)%nat -> - 2 ^ 31 <= rep -> rep + 1 < 2 ^ 31 ->
  let h' := after_run sep h rb bs rep in
  let E := rev_all gf nf ri plug bs ts in
  (* (1) *)
  src_registry_runAllTests fuel h evs0 (map (fun t => b2z (should_run gf nf t)) ts ++ rest) (HPtr rb 0)
    = FOk (tt, h', evs0 ++ E, rest) /\
  (* (2) *)
  abs_run ri (combine bs ts) E cnt0 = Some (run_all_tests gf nf ri ts) /\
  (* (3) *)
  reg_at h' rb bs ts gcode plug sep ri (rep + 1) /\
  length h' = length h /\
  hblock h' rb = CMem.upd (hblock h rb) 5 (VInt (rep + 1)) /\
  (forall b, In b bs -> hblock h' b = if sep then CMem.upd (hblock h b) 5 (VInt 1) else hblock h b) /\
  (forall b, b <> rb -> ~ In b bs -> hblock h' b = hblock h b).
Proof.
  intros R Gk Hf R1 R2 h' E. pose proof R as (Lr & _ & _ & _ & _ & (_ & Hn & _) & Nr & S7 & F2).
  split; [exact (src_registry_runAllTests_runs gf nf gcode fuel h rb bs ts plug sep ri rep evs0 rest R Gk Hf R1 R2)|].
  split; [exact (abs_rev_all gf nf ri plug bs ts Hn (F2_length _ _ _ F2))|].
  split; [exact (after_run_reg_at sep h rb bs ts gcode plug ri rep R)|].
  exact (after_run_heap sep h rb bs rep Lr Nr Hn S7).
Qed.

(* ================================================================== corollaries about the events of the translated source *)
Lemma hptr_eq_dec (p q : hptr) : {p = q} + {p <> q}.
Proof. decide equality; [apply Z.eq_dec|apply Nat.eq_dec]. Qed.
Lemma rev_eq_dec (a b : rev) : {a = b} + {a <> b}.
Proof. decide equality; try apply hptr_eq_dec; apply Z.eq_dec. Qed.

Ltac count_cons := repeat (first [rewrite count_occ_cons_neq by congruence | rewrite count_occ_cons_eq by congruence]).

Lemma nth_error_combine {A B} : forall (l : list A) (l' : list B) i a b,
  nth_error (combine l l') i = Some (a, b) -> nth_error l i = Some a /\ nth_error l' i = Some b.
Proof.
  induction l as [|x l IH]; intros l' i a b H; [destruct i; discriminate H|].
  destruct l' as [|y l']; [destruct i; discriminate H|]. destruct i as [|i]; cbn [combine nth_error] in *.
  - injection H as -> ->. split; reflexivity.
  - exact (IH l' i a b H).
Qed.

(* ---- runOneTest: once for every selected test, in list order, with the registry's plugin chain, and for nothing else *)
Definition is_run (e : rev) : bool := match e with RRunOne _ _ => true | _ => false end.

Lemma step_runs ri gs sr eog plug p : filter is_run (step_evs ri gs sr eog plug p) = if sr then [RRunOne p plug] else [].
Proof. destruct ri, gs, sr, eog; reflexivity. Qed.

Lemma run_ones_loop gf nf ri plug : forall bs ts gs,
  filter is_run (rev_loop gf nf ri plug bs ts gs)
  = map (fun bt => RRunOne (HPtr (fst bt) 0) plug) (filter (fun bt => should_run gf nf (snd bt)) (combine bs ts)).
Proof.
  induction bs as [|b bs IH]; intros ts gs; [reflexivity|]. destruct ts as [|t ts]; [reflexivity|].
  cbn [rev_loop combine filter snd]. rewrite filter_app, step_runs, IH.
  destruct (should_run gf nf t); reflexivity.
Qed.
Theorem run_ones_in_order gf nf ri plug bs ts :
  filter is_run (rev_all gf nf ri plug bs ts)
  = map (fun bt => RRunOne (HPtr (fst bt) 0) plug) (filter (fun bt => should_run gf nf (snd bt)) (combine bs ts)).
Proof.
  unfold rev_all. cbn [filter is_run]. rewrite filter_app, run_ones_loop. cbn [filter is_run]. apply app_nil_r.
Qed.

Lemma step_count_run ri gs sr eog plug b' b :
  count_occ rev_eq_dec (step_evs ri gs sr eog plug (HPtr b' 0)) (RRunOne (HPtr b 0) plug)
  = if sr && Nat.eqb b' b then 1%nat else 0%nat.
Proof.
  unfold step_evs. destruct (Nat.eqb_spec b' b) as [->|N]; destruct ri, gs, sr, eog; cbn [app andb]; count_cons; reflexivity.
Qed.
Lemma count_run_absent gf nf ri plug b : forall bs ts gs, ~ In b bs ->
  count_occ rev_eq_dec (rev_loop gf nf ri plug bs ts gs) (RRunOne (HPtr b 0) plug) = 0%nat.
Proof.
  induction bs as [|b' bs IH]; intros ts gs Hn; [reflexivity|]. destruct ts as [|t ts]; [reflexivity|].
  cbn [rev_loop]. rewrite count_occ_app, step_count_run, IH by (intro Q; apply Hn; right; exact Q).
  replace (Nat.eqb b' b) with false by (symmetry; apply Nat.eqb_neq; intro Q; apply Hn; left; exact Q).
  rewrite andb_false_r. reflexivity.
Qed.
Lemma count_run_loop gf nf ri plug : forall bs ts gs i b t, NoDup bs -> nth_error bs i = Some b -> nth_error ts i = Some t ->
  count_occ rev_eq_dec (rev_loop gf nf ri plug bs ts gs) (RRunOne (HPtr b 0) plug) = if should_run gf nf t then 1%nat else 0%nat.
Proof.
  induction bs as [|b0 bs IH]; intros ts gs i b t Hn Hb Ht; [destruct i; discriminate Hb|].
  destruct ts as [|t0 ts]; [destruct i; discriminate Ht|]. apply NoDup_cons_iff in Hn. destruct Hn as [N0 Hn].
  cbn [rev_loop]. rewrite count_occ_app, step_count_run. destruct i as [|i]; cbn [nth_error] in Hb, Ht.
  - injection Hb as <-. injection Ht as <-. rewrite Nat.eqb_refl, andb_true_r, count_run_absent by exact N0.
    destruct (should_run gf nf t0); reflexivity.
  - replace (Nat.eqb b0 b) with false by (symmetry; apply Nat.eqb_neq; intro Q; subst b0; apply N0; eapply nth_error_In; exact Hb).
    rewrite andb_false_r. exact (IH ts _ i b t Hn Hb Ht).
Qed.
(* runOneTest(firstPlugin_) on shell i: exactly once when the filters select test i, never when they do not *)
Theorem run_one_exactly_once gf nf ri plug bs ts i b t : NoDup bs -> nth_error bs i = Some b -> nth_error ts i = Some t ->
  count_occ rev_eq_dec (rev_all gf nf ri plug bs ts) (RRunOne (HPtr b 0) plug) = if should_run gf nf t then 1%nat else 0%nat.
Proof.
  intros Hn Hb Ht. unfold rev_all. rewrite count_occ_cons_neq by discriminate. rewrite count_occ_app.
  rewrite (count_run_loop gf nf ri plug bs ts true i b t Hn Hb Ht). cbn [app]. count_cons. cbn [count_occ]. lia.
Qed.
(* ... and nothing else is ever run: every RRunOne is about a registered, selected test and hands over firstPlugin_ *)
Theorem run_one_only_selected gf nf ri plug bs ts p z : In (RRunOne p z) (rev_all gf nf ri plug bs ts) ->
  z = plug /\ exists i b t, nth_error bs i = Some b /\ nth_error ts i = Some t /\ p = HPtr b 0 /\ should_run gf nf t = true.
Proof.
  intro H. assert (H' : In (RRunOne p z) (filter is_run (rev_all gf nf ri plug bs ts))) by (apply filter_In; split; [exact H|reflexivity]).
  rewrite run_ones_in_order in H'. apply in_map_iff in H'. destruct H' as [[b t] [E Hin]]. apply filter_In in Hin.
  destruct Hin as [Hin Hs]. cbn [fst snd] in *. injection E as <- <-. split; [reflexivity|].
  destruct (In_nth_error _ _ Hin) as [i Hi]. destruct (nth_error_combine bs ts i b t Hi) as [Hb Ht].
  exists i, b, t. split; [exact Hb|]. split; [exact Ht|]. split; [reflexivity|exact Hs].
Qed.

(* ---- every test is considered exactly once, in list order: the events are the concatenation of one segment per test, segment i
   holds exactly one countTest and mentions no shell but shell i *)
Fixpoint segs (gf nf : list tfilter) (ri : bool) (plug : Z) (bs : list nat) (ts : list test) (gs : bool) : list (list rev) :=
  match bs, ts with
  | b :: bs', t :: ts' =>
      let eog := end_of_group t ts' in
      step_evs ri gs (should_run gf nf t) eog plug (HPtr b 0) :: segs gf nf ri plug bs' ts' eog
  | _, _ => []
  end.
Definition ev_ptr (e : rev) : option hptr :=
  match e with
  | RGroupStarted p | RGroupEnded p | RTestStarted p | RTestEnded p | RRunOne p _ | RSetRunIgnored p => Some p
  | _ => None
  end.

Lemma rev_loop_segments gf nf ri plug : forall bs ts gs, rev_loop gf nf ri plug bs ts gs = concat (segs gf nf ri plug bs ts gs).
Proof.
  induction bs as [|b bs IH]; intros ts gs; [reflexivity|]. destruct ts as [|t ts]; [reflexivity|].
  cbn [rev_loop segs concat]. rewrite IH. reflexivity.
Qed.
Lemma segs_length gf nf ri plug : forall bs ts gs, length bs = length ts -> length (segs gf nf ri plug bs ts gs) = length ts.
Proof.
  induction bs as [|b bs IH]; intros ts gs L; destruct ts as [|t ts]; try discriminate L; [reflexivity|].
  cbn [segs length]. rewrite IH by (cbn [length] in L; lia). reflexivity.
Qed.
Lemma step_evs_shape ri gs sr eog plug p :
  count_occ rev_eq_dec (step_evs ri gs sr eog plug p) RCountTest = 1%nat /\
  Forall (fun e => ev_ptr e = None \/ ev_ptr e = Some p) (step_evs ri gs sr eog plug p).
Proof.
  unfold step_evs. destruct ri, gs, sr, eog; cbn [app]; (split; [count_cons; reflexivity|]);
    repeat (apply Forall_cons; [cbn [ev_ptr]; auto|]); apply Forall_nil.
Qed.
Lemma segs_nth gf nf ri plug : forall bs ts gs i s, nth_error (segs gf nf ri plug bs ts gs) i = Some s ->
  exists b t, nth_error bs i = Some b /\ nth_error ts i = Some t /\
    count_occ rev_eq_dec s RCountTest = 1%nat /\ Forall (fun e => ev_ptr e = None \/ ev_ptr e = Some (HPtr b 0)) s.
Proof.
  induction bs as [|b bs IH]; intros ts gs i s H; [destruct i; discriminate H|].
  destruct ts as [|t ts]; [destruct i; discriminate H|]. cbn [segs] in H. destruct i as [|i]; cbn [nth_error] in *.
  - injection H as <-. exists b, t. split; [reflexivity|]. split; [reflexivity|]. apply step_evs_shape.
  - exact (IH ts _ i s H).
Qed.
Theorem count_tests_exact gf nf ri plug bs ts : length bs = length ts ->
  count_occ rev_eq_dec (rev_all gf nf ri plug bs ts) RCountTest = length ts.
Proof.
  intro L. unfold rev_all. rewrite count_occ_cons_neq by discriminate. rewrite count_occ_app. cbn [app]. count_cons.
  cbn [count_occ]. rewrite Nat.add_0_r. generalize true. revert ts L.
  induction bs as [|b bs IH]; intros ts L gs; destruct ts as [|t ts]; try discriminate L; [reflexivity|].
  cbn [rev_loop length]. rewrite count_occ_app, (proj1 (step_evs_shape _ _ _ _ _ _)), IH by (cbn [length] in L; lia). reflexivity.
Qed.

(* ---- group starts and group ends alternate, the run begins outside a group and ends outside one, and every countTest /
   countFilteredOut / currentTestStarted / runOneTest / currentTestEnded happens inside a group *)
Fixpoint galt (open : bool) (E : list rev) : bool :=
  match E with
  | [] => negb open
  | RGroupStarted _ :: r => negb open && galt true r
  | RGroupEnded _ :: r => open && galt false r
  | RSetRunIgnored _ :: r => galt open r
  | RTestsStarted :: r | RTestsEnded :: r => negb open && galt open r
  | _ :: r => open && galt open r
  end.
Lemma galt_step ri gs sr eog plug p w : galt (negb gs) (step_evs ri gs sr eog plug p ++ w) = galt (negb eog) w.
Proof. unfold step_evs. destruct ri, gs, sr, eog; reflexivity. Qed.
Lemma galt_loop gf nf ri plug : forall bs ts gs w, length bs = length ts -> (ts = [] -> gs = true) ->
  galt (negb gs) (rev_loop gf nf ri plug bs ts gs ++ w) = galt false w.
Proof.
  induction bs as [|b bs IH]; intros ts gs w L G; destruct ts as [|t ts]; try discriminate L.
  - rewrite (G eq_refl). reflexivity.
  - cbn [rev_loop]. rewrite <- app_assoc, galt_step. apply IH; [cbn [length] in L; lia|]. intros ->. reflexivity.
Qed.
Theorem groups_alternate gf nf ri plug bs ts : length bs = length ts -> galt false (rev_all gf nf ri plug bs ts) = true.
Proof.
  intro L. unfold rev_all. cbn [galt negb andb].
  pose proof (galt_loop gf nf ri plug bs ts true [RTestsEnded] L (fun _ => eq_refl)) as G. cbn [negb] in G.
  rewrite G. reflexivity.
Qed.

(* ================================================================== `gcode_ok` is satisfiable *)
(* for ANY tests whose group texts are NUL-free bytes (C02_Model.test_ok): the position of the text in the list of groups *)
Fixpoint idx_of (groups : list (list N)) (g : list N) : nat :=
  match groups with [] => 0%nat | x :: r => if sstr_equal x g then 0%nat else S (idx_of r g) end.
Definition gcode_idx (groups : list (list N)) (g : list N) : Z := Z.of_nat (idx_of groups g).

Lemma sstr_equal_eq a b : nonul a = true -> nonul b = true -> (sstr_equal a b = true <-> a = b).
Proof. intros Ha Hb. rewrite C02_Proofs.sstr_equal_ok by assumption. apply Str.bytes_eqb_eq. Qed.

Lemma idx_of_inj : forall groups a b, Forall (fun g => nonul g = true) groups -> In a groups -> In b groups ->
  idx_of groups a = idx_of groups b -> a = b.
Proof.
  induction groups as [|x r IH]; intros a b F Ha Hb E; [destruct Ha|].
  pose proof (Forall_inv F) as Fx. pose proof (Forall_inv_tail F) as Fr. rewrite Forall_forall in F.
  cbn [idx_of] in E. destruct (sstr_equal x a) eqn:Ea; destruct (sstr_equal x b) eqn:Eb; try discriminate E.
  - apply sstr_equal_eq in Ea; [|exact Fx|exact (F a Ha)]. apply sstr_equal_eq in Eb; [|exact Fx|exact (F b Hb)]. congruence.
  - injection E as E. apply (IH a b Fr); [| |exact E].
    + destruct Ha as [Q|Q]; [|exact Q]. subst x. rewrite (proj2 (sstr_equal_eq a a Fx Fx) eq_refl) in Ea. discriminate Ea.
    + destruct Hb as [Q|Q]; [|exact Q]. subst x. rewrite (proj2 (sstr_equal_eq b b Fx Fx) eq_refl) in Eb. discriminate Eb.
Qed.
Theorem gcode_idx_ok groups : Forall (fun g => nonul g = true) groups -> gcode_ok (gcode_idx groups) groups.
Proof.
  intros F a b Ha Hb. pose proof F as F'. rewrite Forall_forall in F'.
  rewrite (sstr_equal_eq a b (F' a Ha) (F' b Hb)). unfold gcode_idx. split.
  - intro E. apply Nat2Z.inj in E. exact (idx_of_inj groups a b F Ha Hb E).
  - intros ->. reflexivity.
Qed.
Corollary gcode_exists ts : forallb test_ok ts = true -> exists gcode, gcode_ok gcode (map t_group ts).
Proof.
  intro H. exists (gcode_idx (map t_group ts)). apply gcode_idx_ok. apply Forall_forall. intros g Hg.
  apply in_map_iff in Hg. destruct Hg as [t [<- Ht]]. rewrite forallb_forall in H. specialize (H t Ht).
  unfold test_ok in H. apply andb_true_iff in H. exact (proj1 H).
Qed.

(* ================================================================== the C02 property, of the translated source *)
(* For a valid scenario s (C02_Model.valid1: its tests and the configuration of one run) and a registry list reg that is a permutation of its tests (what reverse / shuffle
   leave, C02_HeapTie), one translated runAllTests on a heap representing reg with the scenario's flags returns, appends events
   whose reading (abs_run) is a word w and counters k, and the repetition (order, w, k) satisfies the model-free oracle
   C02_Model.rep_ok: the order is a permutation of the registered tests, the word is (GS (TS B? TE)* GE)* inside one
   testsStarted / testsEnded, every selected test is started exactly once and its body runs exactly once iff it executes,
   counters exact. *)
Theorem src_runAllTests_meets_C02 (s : scenario) reg gcode fuel h rb bs plug sep rep evs0 rest seeds drawn :
  valid1 s = true -> Permutation.Permutation reg (s_tests s) ->
  (s_shuffle s = false -> map t_id reg = C02_Proofs.expected_order s) ->
  reg_at h rb bs reg gcode plug sep (s_ri s) rep -> gcode_ok gcode (map t_group reg) ->
  (length reg < fuel)%nat -> - 2 ^ 31 <= rep -> rep + 1 < 2 ^ 31 ->
  exists E w k,
    src_registry_runAllTests fuel h evs0 (map (fun t => b2z (should_run (s_gf s) (s_nf s) t)) reg ++ rest) (HPtr rb 0)
      = FOk (tt, after_run sep h rb bs rep, evs0 ++ E, rest) /\
    abs_run (s_ri s) (combine bs reg) E cnt0 = Some (w, k) /\
    rep_ok s (mkRep (map t_id reg) seeds drawn w k) = true.
Proof.
  intros V P O R Gk Hf R1 R2.
  destruct (src_registry_runAllTests_spec (s_gf s) (s_nf s) gcode fuel h rb bs reg plug sep (s_ri s) rep evs0 rest R Gk Hf R1 R2)
    as (E1 & E2 & _).
  pose proof (C02_Proofs.rep_ok_of_perm s V reg seeds drawn P O) as K.
  destruct (run_all_tests (s_gf s) (s_nf s) (s_ri s) reg) as [w k].
  exists (rev_all (s_gf s) (s_nf s) (s_ri s) plug bs reg), w, k. split; [exact E1|]. split; [exact E2|exact K].
Qed.

(* ================================================================== examples (non-vacuity), by computation *)
(* block 0 = the registry object (firstPlugin_ = 77, runInSeperateProcess_ = sep, currentRepetition_ = rep, runIgnored_ = ri),
   blocks 1..3 = three registered shells, block 4 = a bystander.  Tests: 0 = A.x, 1 = A.y (an IGNORE_TEST), 2 = B.x; the name
   filter "x" refuses test 1. *)
Definition ex_ts : list test := [mkTest 0 [65%N] [120%N] false; mkTest 1 [65%N] [121%N] true; mkTest 2 [66%N] [120%N] false].
Definition ex_nf : list tfilter := [mkFilter [120%N] false false].
Definition ex_gcode : list N -> Z := gcode_idx (map t_group ex_ts).
Definition ex_shell (g : Z) (nxt : hptr) (sepflag : Z) : list val := [VInt g; VInt 0; VInt 0; VInt 12; VPtr nxt; VInt sepflag; VInt 0].
Definition ex_heap (sep ri : bool) (rep flag : Z) : heap :=
  [ [VPtr (HPtr 1 0); VInt 0; VInt 0; VInt 77; VInt (b2z sep); VInt rep; VInt (b2z ri)];
    ex_shell 0 (HPtr 2 0) flag; ex_shell 0 (HPtr 3 0) flag; ex_shell 2 HNull flag; [VInt 9] ].

Example ex_gcode_ok : gcode_ok ex_gcode (map t_group ex_ts).
Proof. apply gcode_idx_ok. repeat constructor. Qed.
(* any other function that tells "A" from "B" does as well, e.g. the first byte *)
Example ex_gcode_first_byte : gcode_ok (fun g => match g with c :: _ => Z.of_N c | [] => 0 end) (map t_group ex_ts).
Proof.
  intros a b Ha Hb. cbn in Ha, Hb.
  destruct Ha as [<-|[<-|[<-|[]]]]; destruct Hb as [<-|[<-|[<-|[]]]]; vm_compute; split; intro H; try reflexivity; discriminate H.
Qed.

Example ex_reg sep ri rep : reg_at (ex_heap sep ri rep 0) 0 [1; 2; 3]%nat ex_ts ex_gcode 77 sep ri rep.
Proof.
  unfold reg_at, reg_cells, tlist. split; [cbn; lia|]. split; [reflexivity|]. split; [reflexivity|]. split; [reflexivity|].
  split; [split; [cbn; lia|split; [reflexivity|split; reflexivity]]|]. split; [split; [|split]|split; [|split]].
  - cbn [hd_ptr tchain]. split; [reflexivity|]. exists (HPtr 2 0). split; [reflexivity|]. split; [reflexivity|].
    exists (HPtr 3 0). split; [reflexivity|]. split; [reflexivity|]. exists HNull. split; reflexivity.
  - repeat constructor; cbn; lia.
  - repeat constructor; cbn; lia.
  - cbn; lia.
  - repeat constructor; cbn; lia.
  - repeat constructor; vm_compute; reflexivity.
Qed.

(* run in a separate process, not run-ignored, repetition 3; the stream holds one value too many, which is left *)
Example ex_run :
  src_registry_runAllTests 4 (ex_heap true false 3 0) [] (map (fun t => b2z (should_run [] ex_nf t)) ex_ts ++ [5]) (HPtr 0 0)
  = FOk (tt, ex_heap true false 4 1,
         [RTestsStarted;
          RGroupStarted (HPtr 1 0); RCountTest; RTestStarted (HPtr 1 0); RRunOne (HPtr 1 0) 77; RTestEnded (HPtr 1 0);
          RCountTest; RFilteredOut; RGroupEnded (HPtr 2 0);
          RGroupStarted (HPtr 3 0); RCountTest; RTestStarted (HPtr 3 0); RRunOne (HPtr 3 0) 77; RTestEnded (HPtr 3 0);
          RGroupEnded (HPtr 3 0);
          RTestsEnded], [5]).
Proof. vm_compute. reflexivity. Qed.
(* ... which is what the theorem says: after_run and rev_all *)
Example ex_run_is_spec :
  after_run true (ex_heap true false 3 0) 0 [1; 2; 3]%nat 3 = ex_heap true false 4 1 /\
  rev_all [] ex_nf false 77 [1; 2; 3]%nat ex_ts
  = [RTestsStarted;
     RGroupStarted (HPtr 1 0); RCountTest; RTestStarted (HPtr 1 0); RRunOne (HPtr 1 0) 77; RTestEnded (HPtr 1 0);
     RCountTest; RFilteredOut; RGroupEnded (HPtr 2 0);
     RGroupStarted (HPtr 3 0); RCountTest; RTestStarted (HPtr 3 0); RRunOne (HPtr 3 0) 77; RTestEnded (HPtr 3 0);
     RGroupEnded (HPtr 3 0);
     RTestsEnded].
Proof. split; vm_compute; reflexivity. Qed.
(* the theorem, instantiated: its hypotheses are satisfiable *)
Example ex_run_by_theorem evs0 rest :
  src_registry_runAllTests 4 (ex_heap true false 3 0) evs0 (map (fun t => b2z (should_run [] ex_nf t)) ex_ts ++ rest) (HPtr 0 0)
  = FOk (tt, after_run true (ex_heap true false 3 0) 0 [1; 2; 3]%nat 3, evs0 ++ rev_all [] ex_nf false 77 [1; 2; 3]%nat ex_ts, rest).
Proof.
  apply (src_registry_runAllTests_runs [] ex_nf ex_gcode 4 _ 0 [1; 2; 3]%nat ex_ts 77 true false 3 evs0 rest (ex_reg true false 3) ex_gcode_ok).
  - cbn. lia.
  - vm_compute. discriminate.
  - vm_compute. reflexivity.
Qed.
(* the events read back: the model's word and counters (3 counted, 2 run, 0 ignored, 1 filtered out) *)
Example ex_abs :
  abs_run false (combine [1; 2; 3]%nat ex_ts) (rev_all [] ex_nf false 77 [1; 2; 3]%nat ex_ts) cnt0
  = Some (run_all_tests [] ex_nf false ex_ts) /\
  run_all_tests [] ex_nf false ex_ts
  = ([ETestsStarted; EGroupStarted 0; ETestStarted 0; EBody 0; ETestEnded; EGroupEnded;
      EGroupStarted 2; ETestStarted 2; EBody 2; ETestEnded; EGroupEnded; ETestsEnded], mkCnt 3 2 0 1).
Proof. split; vm_compute; reflexivity. Qed.
(* read back without the model's ri: the marks collected from the events decide *)
Example ex_abs_m :
  abs_run_m (combine [1; 2; 3]%nat ex_ts) (rev_all [] [] true 77 [1; 2; 3]%nat ex_ts) (cnt0, [])
  = Some (fst (run_all_tests [] [] true ex_ts), (snd (run_all_tests [] [] true ex_ts), [HPtr 3 0; HPtr 2 0; HPtr 1 0])) /\
  abs_run_m (combine [1; 2; 3]%nat ex_ts) (rev_all [] [] false 77 [1; 2; 3]%nat ex_ts) (cnt0, [])
  = Some (fst (run_all_tests [] [] false ex_ts), (mkCnt 3 2 1 0, [])).
Proof. split; vm_compute; reflexivity. Qed.
(* 3 tests need 4 units of fuel (one more trip for the exit test): `length ts < fuel` is exact *)
Example ex_run_fuel :
  src_registry_runAllTests 3 (ex_heap true false 3 0) [] (map (fun t => b2z (should_run [] ex_nf t)) ex_ts) (HPtr 0 0) = FNoFuel.
Proof. vm_compute. reflexivity. Qed.
(* a ghost stream shorter than the list is an error, not a default answer *)
Example ex_run_dry : src_registry_runAllTests 4 (ex_heap true false 3 0) [] [1; 0] (HPtr 0 0) = FOob.
Proof. vm_compute. reflexivity. Qed.
(* not in a separate process, run-ignored, no filters: the shells are untouched, every test gets setRunIgnored() before its group
   start is reported, and the ignored test 1 is run (model: EBody 1, nothing counted as ignored) *)
Example ex_run_ri :
  src_registry_runAllTests 4 (ex_heap false true 0 0) [] (map (fun t => b2z (should_run [] [] t)) ex_ts) (HPtr 0 0)
  = FOk (tt, ex_heap false true 1 0,
         [RTestsStarted;
          RSetRunIgnored (HPtr 1 0); RGroupStarted (HPtr 1 0); RCountTest; RTestStarted (HPtr 1 0); RRunOne (HPtr 1 0) 77; RTestEnded (HPtr 1 0);
          RSetRunIgnored (HPtr 2 0); RCountTest; RTestStarted (HPtr 2 0); RRunOne (HPtr 2 0) 77; RTestEnded (HPtr 2 0); RGroupEnded (HPtr 2 0);
          RSetRunIgnored (HPtr 3 0); RGroupStarted (HPtr 3 0); RCountTest; RTestStarted (HPtr 3 0); RRunOne (HPtr 3 0) 77; RTestEnded (HPtr 3 0);
          RGroupEnded (HPtr 3 0);
          RTestsEnded], []) /\
  abs_run true (combine [1; 2; 3]%nat ex_ts) (rev_all [] [] true 77 [1; 2; 3]%nat ex_ts) cnt0
  = Some ([ETestsStarted; EGroupStarted 0; ETestStarted 0; EBody 0; ETestEnded; ETestStarted 1; EBody 1; ETestEnded; EGroupEnded;
           EGroupStarted 2; ETestStarted 2; EBody 2; ETestEnded; EGroupEnded; ETestsEnded], mkCnt 3 3 0 0).
Proof. split; vm_compute; reflexivity. Qed.
(* why `rep + 1 < 2^31`: at INT_MAX the translated `currentRepetition_++` wraps (in C++ the signed overflow is undefined) *)
Example ex_run_rep_wraps :
  match src_registry_runAllTests 4 (ex_heap false false 2147483647 0) [] [1; 1; 1] (HPtr 0 0) with
  | FOk (_, h', _, _) => cell h' 0 5 = Some (VInt (-2147483648))
  | _ => False
  end.
Proof. vm_compute. reflexivity. Qed.
(* the helper functions on the same heap *)
Example ex_endOfGroup :
  src_registry_endOfGroup 0 (ex_heap true false 3 0) [] [] (HPtr 0 0) (HPtr 1 0) = FOk (0, ex_heap true false 3 0, [], []) /\
  src_registry_endOfGroup 0 (ex_heap true false 3 0) [] [] (HPtr 0 0) (HPtr 2 0) = FOk (1, ex_heap true false 3 0, [], []) /\
  src_registry_endOfGroup 0 (ex_heap true false 3 0) [] [] (HPtr 0 0) (HPtr 3 0) = FOk (1, ex_heap true false 3 0, [], []).
Proof. repeat split; vm_compute; reflexivity. Qed.
Example ex_setRunInSeperateProcess :
  src_shell_setRunInSeperateProcess 0 (ex_heap true false 3 0) [] [] (HPtr 2 0)
  = FOk (tt, store5 (ex_heap true false 3 0) 2 (VInt 1), [], []) /\
  cell (store5 (ex_heap true false 3 0) 2 (VInt 1)) 2 5 = Some (VInt 1).
Proof. split; vm_compute; reflexivity. Qed.
Example ex_testShouldRun :
  src_registry_testShouldRun 0 (ex_heap true false 3 0) [RCountTest] [0; 1] (HPtr 0 0) (HPtr 2 0)
  = FOk (0, ex_heap true false 3 0, [RCountTest; RFilteredOut], [1]).
Proof. vm_compute. reflexivity. Qed.
