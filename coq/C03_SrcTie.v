(* C03: the assert entry points of UtestShell, as tools/cxx2gal.py regenerates them from /repo/src/CppUTest/Utest.cpp on every
   run (gen/Gen_LoopC03.v), do exactly what the hand-written model C03_Model.v says: the memory is unchanged, the check is
   counted exactly once, and exactly one failure -- of the class the source names, carrying exactly the file and line passed
   in -- is recorded iff the model's predicate is false.  The calls of StrCmp / StrNCmp / MemCmp are the translated functions of
   gen/Gen_LoopC13.v (their specification lemmas of C13_SrcSpec.v are reused: termination within the fuel, no access outside the
   blocks, sign of the result = textbook comparison); C03_Model's own hd0-based primitives are related to the same textbook
   functions by C03_Proofs.v.  A change to one of these entry points changes Gen_LoopC03.v and these theorems are re-checked. *)
From Coq Require Import ZArith NArith Bool List Lia String.
From CppUVerif Require Import lib.CSem lib.CMem lib.CMemFacts lib.CEmit lib.Str gen.Gen_LeafC13 gen.Gen_LoopC13 gen.Gen_LoopC03 C13_Text C13_Model C13_Proofs C13_SrcTie C13_SrcTie2 C13_SrcSpec C03_Model.
From CppUVerif Require C03_Proofs.
Import CppUVerif.lib.CMem.   (* C03_Model.Ptr (a constructor of `check`) hides the pointer constructor otherwise *)
Import ListNotations.
Local Open Scope Z_scope.

(* ------------------------------------------------------------------ vocabulary *)
(* the ghost events a model result (failure recorded, number of countCheck calls) stands for *)
Definition events_of (cls : string) (file : ptr) (line : Z) (r : C03_Model.res) : list aev :=
  repeat ACount (N.to_nat (snd r)) ++ (if fst r then [AFail cls file line] else []).

(* a `const char*` / `const void*` argument as the model sees it: None for NULL, otherwise the cells to the end of the block *)
Definition carg (m : memory) (p : ptr) : option (list N) :=
  match p with Null => None | Ptr _ _ => Some (view m p) end.

(* the argument is NULL or points to a terminated string *)
Definition cstr_ok (m : memory) (p : ptr) : Prop := p = Null \/ exists s r, cstr_at m p s r.

(* ------------------------------------------------------------------ helpers *)
Lemma events_pass cls f l evs : evs ++ [ACount] = evs ++ events_of cls f l (false, 1%N).
Proof. reflexivity. Qed.
Lemma events_fail cls f l evs : (evs ++ [ACount]) ++ [AFail cls f l] = evs ++ events_of cls f l (true, 1%N).
Proof. rewrite <- app_assoc. reflexivity. Qed.

(* the shape of every check without a call: count, then fail iff b *)
Lemma simple_tie (b : bool) cls f l (m : memory) evs :
  finish (R := (unit * memory * list aev)) (A := unit)
    (let evs := evs ++ [ACount] in
     (if b then (let evs := evs ++ [AFail cls f l] in (Done (tt, m, evs))) else (Done (tt, m, evs))))
  = FOk (tt, m, evs ++ events_of cls f l (b, 1%N)).
Proof. destruct b; cbn [finish]; [rewrite events_fail | rewrite (events_pass cls f l)]; reflexivity. Qed.

Lemma z2b_lnot c : z2b (c_lnot c) = negb (z2b c).
Proof. unfold c_lnot. apply b2z_z2b. Qed.
Lemma z2b_ne x y : z2b (c_ne x y) = negb (x =? y).
Proof. unfold c_ne. apply b2z_z2b. Qed.
Lemma z2b_pne p q : z2b (p_ne p q) = negb (ptr_eqb p q).
Proof. unfold p_ne. apply b2z_z2b. Qed.

Lemma ptr_eqb_eq p q : ptr_eqb p q = true <-> p = q.
Proof.
  destruct p as [|b o], q as [|b' o']; cbn [ptr_eqb]; split; intro H; try reflexivity; try discriminate H.
  - apply andb_true_iff in H. destruct H as [Hb Ho]. apply Nat.eqb_eq in Hb. apply Z.eqb_eq in Ho. subst. reflexivity.
  - inversion H; subst. rewrite Nat.eqb_refl, Z.eqb_refl. reflexivity.
Qed.

Lemma cut_nul_cstr s r : NN s -> cut_nul (s ++ 0%N :: r) = s.
Proof.
  induction s as [|c s IH]; intro H; cbn [app cut_nul]; [reflexivity|].
  apply NN_cons in H. destruct H as [Hc Hs].
  destruct (N.eqb_spec c 0) as [E|_]; [contradiction|]. rewrite (IH Hs). reflexivity.
Qed.

Lemma cstr_at_null m s r : ~ cstr_at m Null s r.
Proof. intros [H _]. cbn in H. destruct s; discriminate H. Qed.

Lemma cstr_ok_ptr m b o : cstr_ok m (Ptr b o) -> exists s r, cstr_at m (Ptr b o) s r.
Proof. intros [H|H]; [discriminate H | exact H]. Qed.

(* the verdict of the translated comparison (sign of the result) against the textbook equality *)
Lemma verdict_eq d (a c : list N) : Z.sgn d = cmp_z (str_cmp a c) -> z2b (c_ne d 0) = negb (bytes_eqb a c).
Proof. intro H. rewrite z2b_ne, (sgn_zero _ _ H), str_cmp_eqb. reflexivity. Qed.

(* the tail shared by the string and binary checks, once the verdict v of the comparison is known *)
Lemma verdict_tie (v : bool) cls f l (m : memory) evs :
  finish (R := (unit * memory * list aev)) (A := unit)
    (if v then (let evs0 := (evs ++ [ACount]) ++ [AFail cls f l] in (Done (tt, m, evs0))) else (Done (tt, m, evs ++ [ACount])))
  = FOk (tt, m, evs ++ events_of cls f l (if v then failed1 else passed1)).
Proof. destruct v; cbn [finish]; [rewrite events_fail | rewrite (events_pass cls f l)]; reflexivity. Qed.

(* ------------------------------------------------------------------ checks without a call *)
Theorem src_assertTrue_tie fuel m evs condition checkString conditionString text file line :
  src_assertTrue fuel m evs condition checkString conditionString text file line =
    FOk (tt, m, evs ++ events_of "CheckFailure" file line (C03_Model.assertTrue (z2b condition))).
Proof. unfold src_assertTrue, C03_Model.assertTrue. rewrite z2b_lnot. apply simple_tie. Qed.

Theorem src_fail_tie fuel m evs text file line :
  src_fail fuel m evs text file line = FOk (tt, m, evs ++ events_of "FailFailure" file line C03_Model.shell_fail).
Proof. unfold src_fail, C03_Model.shell_fail. exact (simple_tie true "FailFailure" file line m evs). Qed.

(* the integer kinds: the translation contains no wrap (the parameters already have the compared type), so the statements need
   no range hypothesis: they hold for all mathematical values, in particular for those in the range of long, unsigned long, ... *)
Theorem src_assertLongsEqual_tie fuel m evs e a text file line :
  src_assertLongsEqual fuel m evs e a text file line =
    FOk (tt, m, evs ++ events_of "LongsEqualFailure" file line (C03_Model.assertLongsEqual e a)).
Proof. unfold src_assertLongsEqual, C03_Model.assertLongsEqual. rewrite z2b_ne. apply simple_tie. Qed.

Theorem src_assertUnsignedLongsEqual_tie fuel m evs e a text file line :
  src_assertUnsignedLongsEqual fuel m evs e a text file line =
    FOk (tt, m, evs ++ events_of "UnsignedLongsEqualFailure" file line (C03_Model.assertUnsignedLongsEqual e a)).
Proof. unfold src_assertUnsignedLongsEqual, C03_Model.assertUnsignedLongsEqual. rewrite z2b_ne. apply simple_tie. Qed.

Theorem src_assertLongLongsEqual_tie fuel m evs e a text file line :
  src_assertLongLongsEqual fuel m evs e a text file line =
    FOk (tt, m, evs ++ events_of "LongLongsEqualFailure" file line (C03_Model.assertLongLongsEqual e a)).
Proof. unfold src_assertLongLongsEqual, C03_Model.assertLongLongsEqual. rewrite z2b_ne. apply simple_tie. Qed.

Theorem src_assertUnsignedLongLongsEqual_tie fuel m evs e a text file line :
  src_assertUnsignedLongLongsEqual fuel m evs e a text file line =
    FOk (tt, m, evs ++ events_of "UnsignedLongLongsEqualFailure" file line (C03_Model.assertUnsignedLongLongsEqual e a)).
Proof. unfold src_assertUnsignedLongLongsEqual, C03_Model.assertUnsignedLongLongsEqual. rewrite z2b_ne. apply simple_tie. Qed.

Theorem src_assertSignedBytesEqual_tie fuel m evs e a text file line :
  src_assertSignedBytesEqual fuel m evs e a text file line =
    FOk (tt, m, evs ++ events_of "SignedBytesEqualFailure" file line (C03_Model.assertSignedBytesEqual e a)).
Proof. unfold src_assertSignedBytesEqual, C03_Model.assertSignedBytesEqual. rewrite z2b_ne. apply simple_tie. Qed.

Theorem src_assertBitsEqual_tie fuel m evs e a mask byteCount text file line :
  src_assertBitsEqual fuel m evs e a mask byteCount text file line =
    FOk (tt, m, evs ++ events_of "BitsEqualFailure" file line (C03_Model.assertBitsEqual e a mask byteCount)).
Proof. unfold src_assertBitsEqual, C03_Model.assertBitsEqual. rewrite z2b_ne. apply simple_tie. Qed.

Theorem src_assertEquals_tie fuel m evs failed expected actual text file line :
  src_assertEquals fuel m evs failed expected actual text file line =
    FOk (tt, m, evs ++ events_of "CheckEqualFailure" file line (C03_Model.assertEquals (z2b failed))).
Proof. unfold src_assertEquals, C03_Model.assertEquals. apply simple_tie. Qed.

Theorem src_assertCompare_tie fuel m evs comparison checkString comparisonString text file line :
  src_assertCompare fuel m evs comparison checkString comparisonString text file line =
    FOk (tt, m, evs ++ events_of "ComparisonFailure" file line (C03_Model.assertCompare (z2b comparison))).
Proof. unfold src_assertCompare, C03_Model.assertCompare. rewrite z2b_lnot. apply simple_tie. Qed.

(* ------------------------------------------------------------------ pointer kinds *)
(* direct form: the translation compares the pointers structurally *)
Theorem src_assertPointersEqual_direct fuel m evs e a text file line :
  src_assertPointersEqual fuel m evs e a text file line =
    FOk (tt, m, evs ++ events_of "EqualsFailure" file line (negb (ptr_eqb e a), 1%N)).
Proof. unfold src_assertPointersEqual. rewrite z2b_pne. apply simple_tie. Qed.

Theorem src_assertFunctionPointersEqual_direct fuel m evs e a text file line :
  src_assertFunctionPointersEqual fuel m evs e a text file line =
    FOk (tt, m, evs ++ events_of "EqualsFailure" file line (negb (ptr_eqb e a), 1%N)).
Proof. unfold src_assertFunctionPointersEqual. rewrite z2b_pne. apply simple_tie. Qed.

(* the model compares addresses (integers): for every address assignment enc that gives the two pointers different addresses
   when they are different (in particular every injective one) the model on the addresses is the direct form *)
Lemma enc_eqb (enc : ptr -> Z) e a : (enc e = enc a -> e = a) -> (enc e =? enc a) = ptr_eqb e a.
Proof.
  intro Hinj. destruct (ptr_eqb e a) eqn:E.
  - apply ptr_eqb_eq in E. subst. apply Z.eqb_refl.
  - apply Z.eqb_neq. intro H. apply Hinj in H. apply ptr_eqb_eq in H. congruence.
Qed.

Theorem src_assertPointersEqual_tie (enc : ptr -> Z) fuel m evs e a text file line :
  (enc e = enc a -> e = a) ->
  src_assertPointersEqual fuel m evs e a text file line =
    FOk (tt, m, evs ++ events_of "EqualsFailure" file line (C03_Model.assertPointersEqual (enc e) (enc a))).
Proof.
  intro Hinj. rewrite src_assertPointersEqual_direct. unfold C03_Model.assertPointersEqual.
  rewrite (enc_eqb enc e a Hinj). reflexivity.
Qed.

Theorem src_assertFunctionPointersEqual_tie (enc : ptr -> Z) fuel m evs e a text file line :
  (enc e = enc a -> e = a) ->
  src_assertFunctionPointersEqual fuel m evs e a text file line =
    FOk (tt, m, evs ++ events_of "EqualsFailure" file line (C03_Model.assertFunctionPointersEqual (enc e) (enc a))).
Proof.
  intro Hinj. rewrite src_assertFunctionPointersEqual_direct. unfold C03_Model.assertFunctionPointersEqual.
  rewrite (enc_eqb enc e a Hinj). reflexivity.
Qed.

(* ------------------------------------------------------------------ string kinds *)
Ltac nulls := cbn [p_eq ptr_eqb b2z z2b Z.eqb negb carg].

Theorem src_assertCstrEqual_tie fuel m evs e a text file line :
  mem_ok m -> cstr_ok m e -> cstr_ok m a ->
  (e <> Null -> a <> Null -> (List.length (view m e) < fuel)%nat) ->
  src_assertCstrEqual fuel m evs e a text file line =
    FOk (tt, m, evs ++ events_of "StringEqualFailure" file line (C03_Model.assertCstrEqual (carg m e) (carg m a))).
Proof.
  intros Hm He Ha Hf. unfold src_assertCstrEqual.
  destruct e as [|b1 o1], a as [|b2 o2]; nulls; cbn [C03_Model.assertCstrEqual finish].
  - rewrite (events_pass "StringEqualFailure" file line). reflexivity.
  - rewrite events_fail. reflexivity.
  - rewrite events_fail. reflexivity.
  - apply cstr_ok_ptr in He. apply cstr_ok_ptr in Ha. destruct He as [s1 [r1 He]]. destruct Ha as [s2 [r2 Ha]].
    specialize (Hf ltac:(discriminate) ltac:(discriminate)).
    pose proof He as [Hv1 Hn1]. pose proof Ha as [Hv2 Hn2]. rewrite Hv1 in Hf.
    destruct (src_StrCmp_spec fuel m b1 o1 b2 o2 s1 r1 s2 r2 Hm He Ha Hf) as [d [Hd Hs]].
    rewrite Hd. rewrite (verdict_eq _ _ _ Hs).
    rewrite C03_Proofs.StrCmp_spec, Hv1, Hv2, !cut_nul_cstr by assumption.
    apply verdict_tie.
Qed.

Theorem src_assertCstrNEqual_tie fuel m evs e a n text file line :
  mem_ok m -> cstr_ok m e -> cstr_ok m a -> 0 <= n < M64 ->
  (e <> Null -> a <> Null -> (List.length (view m e) < fuel)%nat) ->
  src_assertCstrNEqual fuel m evs e a n text file line =
    FOk (tt, m, evs ++ events_of "StringEqualFailure" file line (C03_Model.assertCstrNEqual (carg m e) (carg m a) (Z.to_N n))).
Proof.
  intros Hm He Ha Hn Hf. unfold src_assertCstrNEqual.
  destruct e as [|b1 o1], a as [|b2 o2]; nulls; cbn [C03_Model.assertCstrNEqual finish].
  - rewrite (events_pass "StringEqualFailure" file line). reflexivity.
  - rewrite events_fail. reflexivity.
  - rewrite events_fail. reflexivity.
  - apply cstr_ok_ptr in He. apply cstr_ok_ptr in Ha. destruct He as [s1 [r1 He]]. destruct Ha as [s2 [r2 Ha]].
    specialize (Hf ltac:(discriminate) ltac:(discriminate)).
    pose proof He as [Hv1 Hn1]. pose proof Ha as [Hv2 Hn2]. rewrite Hv1 in Hf.
    destruct (src_StrNCmp_spec fuel m b1 o1 b2 o2 s1 r1 s2 r2 n Hm He Ha Hn Hf) as [d [Hd Hs]].
    rewrite Hd. unfold t_ncmp in Hs. rewrite (verdict_eq _ _ _ Hs).
    rewrite C03_Proofs.StrNCmp_spec, Hv1, Hv2, !cut_nul_cstr by assumption.
    rewrite !C03_Proofs.take_firstn, Z_N_nat.
    apply verdict_tie.
Qed.

(* the three checks on temporary SimpleString objects: the translation uses the textbook functions on the strings at the
   pointers, which are total, so no hypothesis on the memory is needed (for terminated strings cut_nul (view m p) is the string) *)
Theorem src_assertCstrNoCaseEqual_tie fuel m evs e a text file line :
  src_assertCstrNoCaseEqual fuel m evs e a text file line =
    FOk (tt, m, evs ++ events_of "StringEqualNoCaseFailure" file line (C03_Model.assertCstrNoCaseEqual (carg m e) (carg m a))).
Proof.
  unfold src_assertCstrNoCaseEqual.
  destruct e as [|b1 o1], a as [|b2 o2]; nulls; cbn [C03_Model.assertCstrNoCaseEqual finish].
  - rewrite (events_pass "StringEqualNoCaseFailure" file line). reflexivity.
  - rewrite events_fail. reflexivity.
  - rewrite events_fail. reflexivity.
  - rewrite z2b_lnot. unfold eq_nocase_at, cstr_at_ptr. rewrite b2z_z2b.
    unfold ss_equal. cbn [SimpleString_of]. rewrite C03_Proofs.StrCmp_spec, !C03_Proofs.cut_nul_lower.
    apply verdict_tie.
Qed.

Theorem src_assertCstrContains_tie fuel m evs e a text file line :
  src_assertCstrContains fuel m evs e a text file line =
    FOk (tt, m, evs ++ events_of "ContainsFailure" file line (C03_Model.assertCstrContains (carg m e) (carg m a))).
Proof.
  unfold src_assertCstrContains.
  destruct e as [|b1 o1], a as [|b2 o2]; nulls; cbn [C03_Model.assertCstrContains finish].
  - rewrite (events_pass "ContainsFailure" file line). reflexivity.
  - rewrite events_fail. reflexivity.
  - rewrite events_fail. reflexivity.
  - rewrite z2b_lnot. unfold contains_at, cstr_at_ptr. rewrite b2z_z2b.
    unfold ss_contains. cbn [SimpleString_of]. rewrite C03_Proofs.StrStr_spec.
    rewrite !(cut_nul_id (cut_nul _)) by apply cut_nul_no_nul.
    apply verdict_tie.
Qed.

Theorem src_assertCstrNoCaseContains_tie fuel m evs e a text file line :
  src_assertCstrNoCaseContains fuel m evs e a text file line =
    FOk (tt, m, evs ++ events_of "ContainsFailure" file line (C03_Model.assertCstrNoCaseContains (carg m e) (carg m a))).
Proof.
  unfold src_assertCstrNoCaseContains.
  destruct e as [|b1 o1], a as [|b2 o2]; nulls; cbn [C03_Model.assertCstrNoCaseContains finish].
  - rewrite (events_pass "ContainsFailure" file line). reflexivity.
  - rewrite events_fail. reflexivity.
  - rewrite events_fail. reflexivity.
  - rewrite z2b_lnot. unfold contains_nocase_at, cstr_at_ptr. rewrite b2z_z2b.
    unfold ss_contains. cbn [SimpleString_of]. rewrite C03_Proofs.StrStr_spec, !C03_Proofs.cut_nul_lower.
    apply verdict_tie.
Qed.

(* ------------------------------------------------------------------ memory blocks *)
Theorem src_assertBinaryEqual_tie fuel m evs e a n text file line :
  mem_ok m -> 0 <= n < M64 ->
  (n <> 0 -> e <> Null -> a <> Null ->
   (Z.to_nat n <= List.length (view m e))%nat /\ (Z.to_nat n <= List.length (view m a))%nat /\ (List.length (view m e) < fuel)%nat) ->
  src_assertBinaryEqual fuel m evs e a n text file line =
    FOk (tt, m, evs ++ events_of "BinaryEqualFailure" file line (C03_Model.assertBinaryEqual (carg m e) (carg m a) (Z.to_N n))).
Proof.
  intros Hm Hn Hb. unfold src_assertBinaryEqual, C03_Model.assertBinaryEqual.
  unfold c_eq. rewrite b2z_z2b.
  destruct (Z.eqb_spec n 0) as [E|NE].
  - subst n. cbn [Z.to_N N.eqb finish]. rewrite (events_pass "BinaryEqualFailure" file line). reflexivity.
  - replace (Z.to_N n =? 0)%N with false by (symmetry; apply N.eqb_neq; lia).
    destruct e as [|b1 o1], a as [|b2 o2]; nulls; cbn [finish].
    + rewrite (events_pass "BinaryEqualFailure" file line). reflexivity.
    + rewrite events_fail. reflexivity.
    + rewrite events_fail. reflexivity.
    + destruct (Hb NE ltac:(discriminate) ltac:(discriminate)) as [H1 [H2 Hf]].
      destruct (src_MemCmp_spec fuel m b1 o1 b2 o2 n Hm Hn H1 H2 Hf) as [d [Hd Hs]].
      rewrite Hd. unfold t_ncmp in Hs. rewrite (verdict_eq _ _ _ Hs).
      rewrite C03_Proofs.MemCmp_spec by lia.
      rewrite !C03_Proofs.take_firstn, Z_N_nat.
      apply verdict_tie.
Qed.

(* ------------------------------------------------------------------ non-vacuity: concrete calls *)
(* block 0 = "hi\0", block 1 = "hi\0" followed by a byte, block 2 = "Ho\0", block 3 = "f.c\0" (the file name),
   block 4 = "oh ho\0" *)
Definition ex_mem : memory := [[104; 105; 0]; [104; 105; 0; 7]; [72; 111; 0]; [102; 46; 99; 0]; [111; 104; 32; 104; 111; 0]]%N.
Definition ex_file : ptr := Ptr 3 0.

(* longs: passing and failing *)
Example ex_longs_pass : src_assertLongsEqual 0 ex_mem [] 5 5 Null ex_file 42 = FOk (tt, ex_mem, [ACount]).
Proof. vm_compute. reflexivity. Qed.
Example ex_longs_fail : src_assertLongsEqual 0 ex_mem [ACount] 5 (-5) Null ex_file 42 =
  FOk (tt, ex_mem, [ACount; ACount; AFail "LongsEqualFailure" ex_file 42]).
Proof. vm_compute. reflexivity. Qed.
(* strings *)
Example ex_cstr_pass : src_assertCstrEqual 10 ex_mem [] (Ptr 0 0) (Ptr 1 0) Null ex_file 7 = FOk (tt, ex_mem, [ACount]).
Proof. vm_compute. reflexivity. Qed.
Example ex_cstr_fail : src_assertCstrEqual 10 ex_mem [] (Ptr 0 0) (Ptr 2 0) Null ex_file 7 =
  FOk (tt, ex_mem, [ACount; AFail "StringEqualFailure" ex_file 7]).
Proof. vm_compute. reflexivity. Qed.
Example ex_cstr_null_null : src_assertCstrEqual 0 ex_mem [] Null Null Null ex_file 7 = FOk (tt, ex_mem, [ACount]).
Proof. vm_compute. reflexivity. Qed.
Example ex_cstr_null_fail : src_assertCstrEqual 0 ex_mem [] Null (Ptr 0 0) Null ex_file 7 =
  FOk (tt, ex_mem, [ACount; AFail "StringEqualFailure" ex_file 7]).
Proof. vm_compute. reflexivity. Qed.
Example ex_cstr_model : events_of "StringEqualFailure" ex_file 7 (C03_Model.assertCstrEqual (carg ex_mem (Ptr 0 0)) (carg ex_mem (Ptr 2 0))) =
  [ACount; AFail "StringEqualFailure" ex_file 7].
Proof. vm_compute. reflexivity. Qed.
Example ex_ncstr_pass : src_assertCstrNEqual 10 ex_mem [] (Ptr 0 0) (Ptr 2 1) 0 Null ex_file 8 = FOk (tt, ex_mem, [ACount]).
Proof. vm_compute. reflexivity. Qed.
Example ex_ncstr_fail : src_assertCstrNEqual 10 ex_mem [] (Ptr 0 0) (Ptr 2 0) 1 Null ex_file 8 =
  FOk (tt, ex_mem, [ACount; AFail "StringEqualFailure" ex_file 8]).
Proof. vm_compute. reflexivity. Qed.
Example ex_nocase_pass : src_assertCstrNoCaseEqual 0 ex_mem [] (Ptr 0 0) (Ptr 1 0) Null ex_file 9 = FOk (tt, ex_mem, [ACount]).
Proof. vm_compute. reflexivity. Qed.
Example ex_nocase_fail : src_assertCstrNoCaseEqual 0 ex_mem [] (Ptr 0 0) (Ptr 2 0) Null ex_file 9 =
  FOk (tt, ex_mem, [ACount; AFail "StringEqualNoCaseFailure" ex_file 9]).
Proof. vm_compute. reflexivity. Qed.
(* "i" is contained in "hi"; "hi" is not contained in "Ho", with or without case *)
Example ex_contains_pass : src_assertCstrContains 0 ex_mem [] (Ptr 0 1) (Ptr 1 0) Null ex_file 10 = FOk (tt, ex_mem, [ACount]).
Proof. vm_compute. reflexivity. Qed.
Example ex_contains_fail : src_assertCstrContains 0 ex_mem [] (Ptr 0 0) (Ptr 2 0) Null ex_file 10 =
  FOk (tt, ex_mem, [ACount; AFail "ContainsFailure" ex_file 10]).
Proof. vm_compute. reflexivity. Qed.
Example ex_nocase_contains_fail : src_assertCstrNoCaseContains 0 ex_mem [] (Ptr 0 0) (Ptr 2 0) Null ex_file 11 =
  FOk (tt, ex_mem, [ACount; AFail "ContainsFailure" ex_file 11]).
Proof. vm_compute. reflexivity. Qed.
(* "Ho" occurs in "oh ho" only when the case is ignored *)
Example ex_nocase_contains_pass : src_assertCstrNoCaseContains 0 ex_mem [] (Ptr 2 0) (Ptr 4 0) Null ex_file 11 = FOk (tt, ex_mem, [ACount]).
Proof. vm_compute. reflexivity. Qed.
Example ex_contains_case_fail : src_assertCstrContains 0 ex_mem [] (Ptr 2 0) (Ptr 4 0) Null ex_file 11 =
  FOk (tt, ex_mem, [ACount; AFail "ContainsFailure" ex_file 11]).
Proof. vm_compute. reflexivity. Qed.
(* the theorem instantiated on the concrete memory: hypotheses are satisfiable *)
Example ex_cstr_thm : src_assertCstrEqual 10 ex_mem [] (Ptr 0 0) (Ptr 2 0) Null ex_file 7 =
  FOk (tt, ex_mem, [] ++ events_of "StringEqualFailure" ex_file 7 (C03_Model.assertCstrEqual (carg ex_mem (Ptr 0 0)) (carg ex_mem (Ptr 2 0)))).
Proof.
  apply src_assertCstrEqual_tie.
  - repeat constructor.
  - right. exists [104; 105]%N, []. split; [reflexivity | repeat constructor; discriminate].
  - right. exists [72; 111]%N, []. split; [reflexivity | repeat constructor; discriminate].
  - intros _ _. cbn. lia.
Qed.
(* blocks: 3 equal bytes; 3 bytes differing; length 0 never reads *)
Example ex_bin_pass : src_assertBinaryEqual 10 ex_mem [] (Ptr 0 0) (Ptr 1 0) 3 Null ex_file 12 = FOk (tt, ex_mem, [ACount]).
Proof. vm_compute. reflexivity. Qed.
Example ex_bin_fail : src_assertBinaryEqual 10 ex_mem [] (Ptr 0 0) (Ptr 2 0) 3 Null ex_file 12 =
  FOk (tt, ex_mem, [ACount; AFail "BinaryEqualFailure" ex_file 12]).
Proof. vm_compute. reflexivity. Qed.
Example ex_bin_len0 : src_assertBinaryEqual 0 ex_mem [] Null (Ptr 2 0) 0 Null ex_file 12 = FOk (tt, ex_mem, [ACount]).
Proof. vm_compute. reflexivity. Qed.
(* pointers, bits, booleans, fail *)
Example ex_ptr_pass : src_assertPointersEqual 0 ex_mem [] (Ptr 0 1) (Ptr 0 1) Null ex_file 13 = FOk (tt, ex_mem, [ACount]).
Proof. vm_compute. reflexivity. Qed.
Example ex_ptr_fail : src_assertPointersEqual 0 ex_mem [] (Ptr 0 1) Null Null ex_file 13 =
  FOk (tt, ex_mem, [ACount; AFail "EqualsFailure" ex_file 13]).
Proof. vm_compute. reflexivity. Qed.
Example ex_bits_pass : src_assertBitsEqual 0 ex_mem [] 0xF1 0x01 0x0F 1 Null ex_file 14 = FOk (tt, ex_mem, [ACount]).
Proof. vm_compute. reflexivity. Qed.
Example ex_bits_fail : src_assertBitsEqual 0 ex_mem [] 0xF1 0x01 0xFF 1 Null ex_file 14 =
  FOk (tt, ex_mem, [ACount; AFail "BitsEqualFailure" ex_file 14]).
Proof. vm_compute. reflexivity. Qed.
Example ex_true_fail : src_assertTrue 0 ex_mem [] 0 Null Null Null ex_file 15 =
  FOk (tt, ex_mem, [ACount; AFail "CheckFailure" ex_file 15]).
Proof. vm_compute. reflexivity. Qed.
Example ex_compare_pass : src_assertCompare 0 ex_mem [] 1 Null Null Null ex_file 16 = FOk (tt, ex_mem, [ACount]).
Proof. vm_compute. reflexivity. Qed.
Example ex_equals_fail : src_assertEquals 0 ex_mem [] 1 Null Null Null ex_file 17 =
  FOk (tt, ex_mem, [ACount; AFail "CheckEqualFailure" ex_file 17]).
Proof. vm_compute. reflexivity. Qed.
Example ex_fail : src_fail 0 ex_mem [] Null ex_file 18 = FOk (tt, ex_mem, [ACount; AFail "FailFailure" ex_file 18]).
Proof. vm_compute. reflexivity. Qed.
