(* Links from the translated initializeTestRun (C12_RunnerTie.v over gen/Gen_HeapC12R.v) to the hand-written models that describe
   what a runner invocation leaves behind: C02_Model.install and C17_ModelP.runner_globals. *)
From Coq Require Import ZArith NArith Bool List.
From CppUVerif Require Import lib.CSem gen.Gen_HeapC12R C12_RunnerTie.
From CppUVerif Require C02_Model C17_ModelP.
Import ListNotations.
Local Open Scope Z_scope.

(* C02: the registry's filter fields and its run-ignored switch.  `enc` = any naming of filter lists by integers (the translated code
   only passes the pointers on). *)
Section C02.
  Variable enc : list C02_Model.tfilter -> Z.
  Definition sw_of_rstate (st : C02_Model.rstate) (s : switches) : switches :=
    {| s_gf := enc (C02_Model.st_gf st); s_nf := enc (C02_Model.st_nf st); s_verbosity := s_verbosity s; s_color := s_color s;
       s_separate := s_separate s; s_run_ignored := C02_Model.st_ri st; s_crash := s_crash s; s_rethrow := s_rethrow s |}.
  Theorem install_is_the_translated_initializeTestRun : forall st c s v vv col sep cr rt,
    let s' := after (sw_of_rstate st s)
                    (init_events (enc (C02_Model.u_gf c)) (enc (C02_Model.u_nf c)) v vv col sep (b2z (C02_Model.u_ri c)) cr rt) in
    s_gf s' = enc (C02_Model.st_gf (C02_Model.install st c)) /\
    s_nf s' = enc (C02_Model.st_nf (C02_Model.install st c)) /\
    s_run_ignored s' = C02_Model.st_ri (C02_Model.install st c).
  Proof.
    intros. subst s'.
    destruct (initializeTestRun_effect (sw_of_rstate st s) (enc (C02_Model.u_gf c)) (enc (C02_Model.u_nf c)) v vv col sep
                (b2z (C02_Model.u_ri c)) cr rt) as (A & B & _ & D & _).
    cbv zeta in *. rewrite A, B, D. unfold C02_Model.install. cbn. rewrite b2z_z2b. repeat split; reflexivity.
  Qed.
End C02.

(* C17: the process-wide switches.  g_rethrow is what setRethrowExceptions was last given, g_crash whether setCrashOnFail was called. *)
Definition sw_of_globals (g : C17_ModelP.globals) (s : switches) : switches :=
  {| s_gf := s_gf s; s_nf := s_nf s; s_verbosity := s_verbosity s; s_color := s_color s; s_separate := s_separate s;
     s_run_ignored := s_run_ignored s; s_crash := C17_ModelP.g_crash g; s_rethrow := C17_ModelP.g_rethrow g |}.
Theorem runner_globals_is_the_translated_initializeTestRun : forall cl g s gf nf v vv col sep ri,
  let s' := after (sw_of_globals g s)
                  (init_events gf nf v vv col sep ri (b2z (C17_ModelP.cl_f cl)) (b2z (negb (C17_ModelP.cl_e cl)))) in
  s_rethrow s' = C17_ModelP.g_rethrow (C17_ModelP.runner_globals cl g) /\
  s_crash s' = C17_ModelP.g_crash (C17_ModelP.runner_globals cl g).
Proof.
  intros. subst s'.
  destruct (initializeTestRun_effect (sw_of_globals g s) gf nf v vv col sep ri (b2z (C17_ModelP.cl_f cl)) (b2z (negb (C17_ModelP.cl_e cl))))
    as (_ & _ & C & _ & _ & F & _).
  cbv zeta in *. rewrite C, F. unfold C17_ModelP.runner_globals. cbn. rewrite !b2z_z2b. split; reflexivity.
Qed.
(* the variant that only ever switches rethrowing on is NOT what the translated code does: after a run without -e ... *)
Example only_on_differs_from_the_source :
  let g := {| C17_ModelP.g_rethrow := true; C17_ModelP.g_crash := false; C17_ModelP.g_stale := false |} in
  let cl := {| C17_ModelP.cl_e := true; C17_ModelP.cl_f := false; C17_ModelP.cl_p := false; C17_ModelP.cl_v := 0%nat; C17_ModelP.cl_c := false; C17_ModelP.cl_rep := 1%nat |} in
  C17_ModelP.g_rethrow (C17_ModelP.runner_globals_only_on cl g) = true /\
  s_rethrow (after (sw_of_globals g {| s_gf := 0; s_nf := 0; s_verbosity := 0; s_color := false; s_separate := false; s_run_ignored := false; s_crash := false; s_rethrow := false |})
                   (init_events 0 0 0 0 0 0 0 0 (b2z (negb (C17_ModelP.cl_e cl))))) = false.
Proof. cbv. split; reflexivity. Qed.
