(* C08 -- proofs, part 6: the end-of-test check made by MockSupportPlugin (reporter that records and returns).
   On M: the list of failures it delivers begins with the failure the leaving check reports, is empty iff that check passes, and
   is that one failure whenever at most one scope's last call is incomplete and no call is out of order ("fails the test once").
   On L: the recording check and the leaving check agree on the first failure, for every world.
   L against M: on every judged scenario that ends with the plugin's check, the model delivers exactly M's list. *)
From Coq Require Import ZArith NArith Bool List Lia.
From CppUVerif Require Import lib.CInt lib.Str C08_Model C08_Proofs C08_Proofs2 C08_Scopes C08_Outs.
Import ListNotations.
Local Open Scope N_scope.

(* ------------------------------------------------------------------ M: the recording check against the leaving check *)
Lemma pend_of_pend st : pend_of st = pend st. Proof. reflexivity. Qed.

Theorem m_post_head sts : hd_error (m_post sts) = m_final sts.
Proof.
  unfold m_post, m_final. fold pend_of. change (fun st : mst => match s_pend st with Some d => [d] | None => [] end) with pend_of.
  destruct (flat_map pend_of sts) as [|d ps]; cbn.
  - destruct (existsb (fun st => existsb x_open (s_xs st)) sts); [reflexivity|]. destruct (existsb (fun st => existsb x_ooo (s_xs st)) sts); reflexivity.
  - destruct (existsb (fun st => existsb x_ooo (s_xs st)) sts); reflexivity.
Qed.
Theorem m_post_nil sts : m_post sts = [] <-> m_final sts = None.
Proof.
  rewrite <- m_post_head. destruct (m_post sts); cbn; split; intro H; try reflexivity; discriminate.
Qed.
(* exactly one failure: when no call is out of order and at most one scope's last call is incomplete, the check delivers the
   first deviation and nothing else; in particular never the unfulfilled expectation of an incomplete call on top of it *)
Theorem m_post_once sts :
  existsb (fun st => existsb x_ooo (s_xs st)) sts = false -> (length (flat_map pend_of sts) <= 1)%nat ->
  m_post sts = match m_final sts with Some d => [d] | None => [] end.
Proof.
  intros NO LE. rewrite <- m_post_head. unfold m_post. rewrite NO. destruct (flat_map pend_of sts) as [|d [|d2 ps]]; cbn in *.
  - destruct (existsb (fun st => existsb x_open (s_xs st)) sts); reflexivity.
  - reflexivity.
  - lia.
Qed.
(* ... and otherwise one failure per incomplete last call, in creation order of the scopes, then at most "out of order": "not
   fulfilled" is never delivered next to the failure of an incomplete call *)
Theorem m_post_pending sts d ps :
  flat_map pend_of sts = d :: ps ->
  m_post sts = (d :: ps) ++ (if existsb (fun st => existsb x_ooo (s_xs st)) sts then [DOutOfOrder] else []).
Proof. intro H. unfold m_post. rewrite H. destruct (existsb (fun st => existsb x_ooo (s_xs st)) sts); [reflexivity|rewrite app_nil_r; reflexivity]. Qed.

(* the calls on M, threading what is handed back: None = some call fails at once *)
Fixpoint mw_run (k : canonw) (sts : list (N * mst)) (cs : list (N * scall)) (a : macc) : option (list (N * mst) * macc) :=
  match cs with
  | [] => Some (sts, a)
  | (s, c) :: r => match m_call (ign_of (kw_cfg k) s) (knows (of_scope s (kw_exps k))) (get_st s sts) c with
                   | inr _ => None
                   | inl (st', rv) => mw_run k (set_st s st' sts) r (macc_add a rv)
                   end
  end.
Lemma mw_run_calls k : forall cs sts i a,
  match mw_run k sts cs a with
  | Some (sts', a') => mw_end k sts cs = Some sts' /\
                       mw_calls k sts i cs a = mk_mres (match m_final (map snd sts') with Some d => Some (i + N.of_nat (length cs), d) | None => None end) a'
  | None => mw_end k sts cs = None /\ mr_fail (mw_calls k sts i cs a) <> None
  end.
Proof.
  induction cs as [|[s c] r IH]; intros sts i a; cbn [mw_run mw_end mw_calls length].
  - split; [reflexivity|]. rewrite N.add_0_r. reflexivity.
  - destruct (m_call _ _ (get_st s sts) c) as [[st' rv]|d].
    + specialize (IH (set_st s st' sts) (i + 1) (macc_add a rv)). destruct (mw_run k (set_st s st' sts) r (macc_add a rv)) as [[sts' a']|].
      * destruct IH as [A B]. split; [exact A|]. rewrite B. replace (i + 1 + N.of_nat (length r)) with (i + N.of_nat (S (length r))) by lia. reflexivity.
      * exact IH.
    + split; [reflexivity|]. cbn. discriminate.
Qed.

(* ------------------------------------------------------------------ L: the recording check against the leaving check *)
Lemma finish_last_nl_leaving m :
  match finish_last m with
  | inl m' => finish_last_nl m = (m', [])
  | inr fl => snd (finish_last_nl m) = [fl]
  end.
Proof.
  unfold finish_last, finish_last_nl. destruct (m_last m) as [c|]; [|reflexivity]. destruct (check_call (m_exps m) c) as [[es c']|fl]; reflexivity.
Qed.
Lemma finish_kids_nl_leaving : forall kids,
  match finish_kids kids with
  | inl kids' => finish_kids_nl kids = (kids', [])
  | inr fl => exists rest, snd (finish_kids_nl kids) = fl :: rest
  end.
Proof.
  induction kids as [|[t m] r IH]; cbn [finish_kids finish_kids_nl]; [reflexivity|].
  pose proof (finish_last_nl_leaving m) as F. destruct (finish_last m) as [m'|fl].
  - rewrite F. destruct (finish_kids r) as [r'|fl].
    + rewrite IH. reflexivity.
    + destruct IH as [rest IH]. destruct (finish_kids_nl r) as [r' f2]. cbn in IH |- *. exists rest. exact IH.
  - destruct (finish_last_nl m) as [m' f1]. cbn in F. subst f1. destruct (finish_kids_nl r) as [r' f2]. cbn. eexists. reflexivity.
Qed.
(* whatever the state of the mock and its scopes: the failure that leaves the test at mock().checkExpectations() is the first one
   the plugin's check records, and the plugin's check records nothing iff that check passes *)
Theorem post_head_is_check w :
  match check_world w with
  | inr fl => exists rest, post_world w = fl :: rest
  | inl _ => post_world w = []
  end.
Proof.
  unfold check_world, post_world, finish_all, finish_all_nl.
  pose proof (finish_last_nl_leaving (w_g w)) as F. pose proof (finish_kids_nl_leaving (w_kids w)) as FK.
  destruct (finish_last (w_g w)) as [g|fl].
  - rewrite F. destruct (finish_kids (w_kids w)) as [ks|fl].
    + rewrite FK. cbn [app]. destruct (last_ok_all _ && left_all _); [eexists; reflexivity|]. destruct (ooo_all _); [eexists; reflexivity|reflexivity].
    + destruct FK as [rest FK]. destruct (finish_kids_nl (w_kids w)) as [ks f2]. cbn in FK. subst f2. cbn [app].
      destruct (last_ok_all _ && left_all _); [eexists; reflexivity|]. destruct (ooo_all _); eexists; reflexivity.
  - destruct (finish_last_nl (w_g w)) as [g f1]. cbn in F. subst f1. destruct (finish_kids_nl (w_kids w)) as [ks f2]. cbn [app].
    destruct (last_ok_all _ && left_all _); [eexists; reflexivity|]. destruct (ooo_all _); eexists; reflexivity.
Qed.

(* ------------------------------------------------------------------ L against M: the recording check *)
Definition kinds (fs : list failure) : list (option dkind) := map (fun fl => dkind_of (f_kind fl)) fs.
Lemma kinds_app a b : kinds (a ++ b) = kinds a ++ kinds b. Proof. apply map_app. Qed.
(* a scope after its last call was finished by the recording check *)
Definition nl_rel (m1 : mock) (st : mst) : Prop :=
  existsb e_ooo (m_exps m1) = existsb x_ooo (s_xs st) /\
  match s_pend st with None => finished m1 st | Some _ => last_ok m1 = false end.

Lemma finish_one_nl ig nm m st : R ig nm m st ->
  kinds (snd (finish_last_nl m)) = map Some (pend_of st) /\ nl_rel (fst (finish_last_nl m)) st.
Proof.
  intros [_ [_ [_ H]]]. unfold finish_last, finish_last_nl in *. unfold pend_of, nl_rel.
  destruct (m_last m) as [c|] eqn:L.
  - destruct (check_call (m_exps m) c) as [[es c']|fl].
    + destruct H as [A [B [C [D _]]]]. rewrite A. cbn [fst snd kinds map]. split; [reflexivity|]. split; [|split; auto].
      rewrite ooo_abs, B. reflexivity.
    + destruct H as [d [A [B C]]]. rewrite A. cbn [fst snd kinds map]. rewrite B. split; [reflexivity|]. split; [exact C|]. reflexivity.
  - destruct H as [A [B [C [D _]]]]. rewrite A. cbn [fst snd kinds map]. split; [reflexivity|]. split; [|split; auto].
    rewrite ooo_abs, B. reflexivity.
Qed.

Lemma finish_kids_nl_sim : forall kids stl,
  Forall2 (fun (km : N * mock) st => exists ig nm, R ig nm (snd km) st) kids stl ->
  kinds (snd (finish_kids_nl kids)) = map Some (flat_map pend_of stl) /\
  Forall2 (fun (km : N * mock) st => nl_rel (snd km) st) (fst (finish_kids_nl kids)) stl /\
  map fst (fst (finish_kids_nl kids)) = map fst kids.
Proof.
  induction 1 as [|[t m] st kids stl [ig [nm HR]] H2 IH]; cbn [finish_kids_nl flat_map]; [split; [reflexivity|split; [constructor|reflexivity]]|].
  destruct (finish_one_nl ig nm m st HR) as [K1 N1]. cbn [snd] in K1, N1. destruct (finish_last_nl m) as [m' f1]. cbn [fst snd] in K1, N1.
  destruct IH as [K2 [N2 N3]]. destruct (finish_kids_nl kids) as [r' f2]. cbn [fst snd] in *.
  split; [rewrite kinds_app, K1, K2, map_app; reflexivity|]. split; [constructor; assumption|]. cbn [map fst]. rewrite N3. reflexivity.
Qed.

Lemma nl_kids_ooo kids stl : Forall2 (fun (km : N * mock) st => nl_rel (snd km) st) kids stl ->
  existsb (fun k : N * mock => existsb e_ooo (m_exps (snd k))) kids = existsb (fun st => existsb x_ooo (s_xs st)) stl.
Proof. induction 1 as [|[t m] st kids stl [A _] H2 IH]; cbn; [reflexivity|]. cbn [snd] in A. rewrite A, IH. reflexivity. Qed.
Lemma nl_kids_quiet kids stl : Forall2 (fun (km : N * mock) st => nl_rel (snd km) st) kids stl -> flat_map pend_of stl = [] ->
  forallb (fun k : N * mock => last_ok (snd k)) kids = true /\
  existsb (fun k : N * mock => unfulfilled (m_exps (snd k))) kids = existsb (fun st => existsb x_open (s_xs st)) stl.
Proof.
  induction 1 as [|[t m] st kids stl [A B] H2 IH]; cbn [flat_map forallb existsb]; [auto|]. intro P. apply app_eq_nil in P. destruct P as [P1 P2].
  unfold pend_of in P1. destruct (s_pend st); [discriminate P1|]. destruct B as [B1 [B2 B3]]. cbn [snd] in *. destruct (IH P2) as [I1 I2].
  rewrite B3, I1, I2, (unfulfilled_abs _ B2), B1. auto.
Qed.
Lemma nl_kids_pending kids stl : Forall2 (fun (km : N * mock) st => nl_rel (snd km) st) kids stl -> flat_map pend_of stl <> [] ->
  forallb (fun k : N * mock => last_ok (snd k)) kids = false.
Proof.
  induction 1 as [|[t m] st kids stl [A B] H2 IH]; cbn [flat_map forallb]; [intro P; exfalso; apply P; reflexivity|]. intro P.
  unfold pend_of in P. destruct (s_pend st) eqn:E.
  - cbn [snd] in B |- *. rewrite B. reflexivity.
  - cbn [app] in P. rewrite (IH P). apply andb_false_r.
Qed.

Lemma final_post k w sts st0 stsk :
  RW k w sts -> sts = (0, st0) :: stsk -> map fst stsk = map fst (w_kids w) -> NoDup (map fst sts) ->
  kinds (post_world w) = map Some (m_post (map snd sts)).
Proof.
  intros HR -> K ND. unfold post_world, finish_all_nl. cbn [map snd].
  destruct (HR 0 (or_introl eq_refl)) as [R0 _]. rewrite mock_of_0 in R0. cbn [get_st] in R0. rewrite N.eqb_refl in R0.
  destruct (finish_one_nl _ _ _ _ R0) as [K0 [O0 P0]]. cbn [map fst] in ND. inversion ND as [|? ? N0 ND']; subst.
  assert (NDk : NoDup (map fst (w_kids w))) by (rewrite <- K; exact ND').
  assert (F2 : Forall2 (fun (km : N * mock) st => exists ig nm, R ig nm (snd km) st) (w_kids w) (map snd stsk)).
  { assert (X : Forall2 (fun (x : N * mock) (y : N * mst) => exists ig nm, R ig nm (snd x) (snd y)) (w_kids w) stsk).
    { apply (Forall2_keys (fun t m st => exists ig nm, R ig nm m st)); [symmetry; exact K|].
      intros t m st Hm Hst. exists (ignS k t), (nmS k t).
      assert (Ht : t <> 0). { intro E. subst t. apply N0. apply (in_map fst) in Hst. exact Hst. }
      destruct (HR t) as [Rt _]. { right. apply (in_map fst) in Hst. exact Hst. }
      rewrite (mock_of_kid t w Ht) in Rt. unfold kid in Rt. rewrite (lookup_nodup t m _ NDk Hm) in Rt.
      cbn [get_st] in Rt. rewrite (proj2 (N.eqb_neq 0 t)) in Rt by congruence.
      rewrite (get_st_nodup t st stsk ND' Hst) in Rt. exact Rt. }
    clear - X. induction X; cbn; constructor; auto. }
  destruct (finish_kids_nl_sim _ _ F2) as [KK [NK _]].
  destruct (finish_last_nl (w_g w)) as [g f1]. destruct (finish_kids_nl (w_kids w)) as [ks f2]. cbn [fst snd] in *.
  pose proof (nl_kids_ooo _ _ NK) as OK.
  unfold m_post, last_ok_all, left_all, ooo_all. cbn [flat_map existsb w_g w_kids]. rewrite O0, OK.
  set (ooo := existsb x_ooo (s_xs st0) || existsb (fun st => existsb x_ooo (s_xs st)) (map snd stsk)).
  assert (KF : kinds (f1 ++ f2) = map Some (pend_of st0 ++ flat_map pend_of (map snd stsk))) by (rewrite kinds_app, K0, KK, map_app; reflexivity).
  destruct (pend_of st0 ++ flat_map pend_of (map snd stsk)) as [|d ps] eqn:PS.
  - apply app_eq_nil in PS. destruct PS as [PS0 PSk]. destruct (nl_kids_quiet _ _ NK PSk) as [LK UK].
    unfold pend_of in PS0. destruct (s_pend st0); [discriminate PS0|]. destruct P0 as [A0 [B0 C0]].
    rewrite C0, LK, UK, (unfulfilled_abs _ B0), A0. cbn [andb].
    destruct (existsb x_open (s_xs st0) || existsb (fun st => existsb x_open (s_xs st)) (map snd stsk)); [rewrite kinds_app, KF; reflexivity|].
    destruct ooo; [rewrite kinds_app, KF; reflexivity|exact KF].
  - assert (LO : last_ok g && forallb (fun k0 : N * mock => last_ok (snd k0)) ks = false).
    { unfold pend_of at 1 in PS. destruct (s_pend st0) eqn:E0; [rewrite P0; reflexivity|]. cbn [app] in PS.
      rewrite (nl_kids_pending _ _ NK); [apply andb_false_r|]. rewrite PS. discriminate. }
    rewrite LO. cbn [andb]. destruct ooo; [rewrite kinds_app, KF, map_app; reflexivity|exact KF].
Qed.

(* ------------------------------------------------------------------ the interleaved calls, whatever follows them *)
Lemma acc_rel_quiet a ma r : acc_rel a ma -> r_ret r = None -> r_outs r = [] -> acc_rel (add_effect a r) ma.
Proof. intros [A B] Q1 Q2. split; cbn; rewrite ?Q1, ?Q2; cbn; assumption. Qed.

Lemma sim_callsw_gen k tail : forall cs w sts i a ma doneM,
  RW k w sts -> NoDup (map fst sts) ->
  map fst (w_kids w) = fold_left mention doneM [] ->
  map fst sts = 0 :: fold_left mention (doneM ++ map fst cs) [] ->
  (forall x, In x cs -> In (fst x) (map fst sts) /\ call_fresh (snd x) = true) -> acc_rel a ma -> a_post a = [] ->
  match mw_run k sts cs ma with
  | None => let o := runw_from true w i (map callw_op cs ++ tail) a in
            let r := mw_calls k sts i cs ma in
            proj o = lift (mr_fail r, mr_rets r) /\ outs_ok (mr_outs r) (o_outs o) = true /\ o_post o = []
  | Some (sts', ma') =>
      exists w' a', runw_from true w i (map callw_op cs ++ tail) a = runw_from true w' (i + N.of_nat (length cs)) tail a' /\
                    RW k w' sts' /\ NoDup (map fst sts') /\ map fst sts' = 0 :: map fst (w_kids w') /\ acc_rel a' ma' /\ a_post a' = []
  end.
Proof.
  induction cs as [|[s c] r IH]; intros w sts i a ma doneM HR ND KK KS HC HA HP.
  - cbn [mw_run map app length]. exists w, a. rewrite N.add_0_r. rewrite app_nil_r in KS.
    split; [reflexivity|]. split; [exact HR|]. split; [exact ND|]. split; [rewrite KS, KK; reflexivity|]. auto.
  - destruct (HC (s, c) (or_introl eq_refl)) as [Hs Hf]. cbn [fst snd] in Hs, Hf.
    pose proof (callw_step k w sts s c HR Hs Hf) as CS. cbn [map app runw_from mw_run mw_calls length]. fold (ignS k s).
    destruct (stepw true w (callw_op (s, c))) as [[w' rv]|fl] eqn:ST.
    + destruct CS as [st' [mrv [MC [HR' [KK' [Hr [Ho Hl]]]]]]]. rewrite MC.
      assert (PP : a_post (add_effect a rv) = []).
      { unfold callw_op, call_op in ST. cbn [fst snd] in ST.
        assert (X : r_post rv = []).
        { unfold stepw in ST. destruct (s =? 0).
          - cbn [step] in ST. destruct (actual_call true (w_g w) (sc_f c) (sc_items c) (sc_want c)) as [[g r0]|] eqn:AC; [|discriminate ST].
            inversion ST; subst. apply (actual_call_facts _ _ _ _ _ _ AC).
          - cbn [step] in ST. destruct (actual_call true (kid s w) (sc_f c) (sc_items c) (sc_want c)) as [[g r0]|] eqn:AC; [|discriminate ST].
            inversion ST; subst. apply (actual_call_facts _ _ _ _ _ _ AC). }
        cbn. rewrite X, HP. reflexivity. }
      specialize (IH w' (set_st s st' sts) (i + 1) (add_effect a rv) (macc_add ma mrv) (doneM ++ [s])).
      replace (i + N.of_nat (S (length r))) with (i + 1 + N.of_nat (length r)) by lia. apply IH.
      * exact HR'.
      * rewrite keys_set. exact ND.
      * rewrite KK', KK, fold_mention_app. reflexivity.
      * rewrite keys_set, KS, <- app_assoc. reflexivity.
      * intros x Hx. rewrite keys_set. apply HC. right. exact Hx.
      * apply acc_rel_add; assumption.
      * exact PP.
    + destruct CS as [d [MC Kd]]. rewrite MC. cbn zeta. destruct (acc_rel_obs a ma (Some (i, fl)) (Some (i, d)) HA) as [X Y]. split; [|split; [exact Y|]].
      * unfold proj, lift. rewrite X. cbn. rewrite Kd. reflexivity.
      * cbn. rewrite HP. reflexivity.
Qed.

(* the scenario that ends with the plugin's check *)
Lemma post_to_check_inv : forall ops ops', post_to_check ops = Some ops' ->
  exists body, ops = body ++ [(0, OPost)] /\ ops' = body ++ [(0, OCheck)].
Proof.
  induction ops as [|[s o] r IH]; intros ops' H; [discriminate H|].
  assert (REC : match post_to_check r with Some r' => Some ((s, o) :: r') | None => None end = Some ops' ->
                exists body, (s, o) :: r = body ++ [(0, OPost)] /\ ops' = body ++ [(0, OCheck)]).
  { destruct (post_to_check r) as [r'|] eqn:E; [|discriminate]. intro X. inversion X; subst. destruct (IH r' eq_refl) as [body [A B]].
    exists ((s, o) :: body). subst. auto. }
  destruct o; try (apply REC; destruct s; exact H).
  destruct s as [|p]; [|apply REC; exact H]. destruct r as [|x r2]; [|apply REC; exact H].
  cbn in H. inversion H; subst. exists []. auto.
Qed.

Lemma add_post_obs a fs : a_post a = [] ->
  mk_obs None (add_effect a {| r_ret := None; r_outs := []; r_left := None; r_post := fs |}) =
  {| o_fail := None; o_rets := rev (a_rets a); o_outs := rev (a_outs a); o_left := rev (a_left a); o_post := fs |}.
Proof. intro H. unfold mk_obs, add_effect. cbn. rewrite H, app_nil_r, rev_involutive. reflexivity. Qed.

(* L over the scopes refines M on every judged scenario that ends with the plugin's end-of-test check: a call that deviates at
   once leaves the test there with M's diagnosis (and the check is never reached); otherwise no operation fails and the check
   delivers exactly M's list of failures, in order *)
Theorem W_post_refines_M ops ops' k :
  post_to_check ops = Some ops' -> parsew ops' = Some k -> judgedw k = true ->
  let o := runw ops in let r := expectedw k in
  o_rets o = mr_rets r /\ outs_ok (mr_outs r) (o_outs o) = true /\
  match mw_end k (sts0 k) (kw_calls k) with
  | Some sts => o_fail o = None /\ kinds (o_post o) = map Some (m_post (map snd sts)) /\
                mr_fail r = match m_final (map snd sts) with Some d => Some (N.of_nat (length (kw_cfg k) + length (kw_exps k)) + N.of_nat (length (kw_calls k)), d) | None => None end
  | None => proj o = lift (mr_fail r, mr_rets r) /\ o_post o = [] /\ mr_fail r <> None
  end.
Proof.
  intros Hq Hp Hj. destruct (post_to_check_inv _ _ Hq) as [body [E1 E2]]. pose proof (parsew_inv _ _ Hp) as E3. unfold canonw_ops in E3.
  rewrite E2, !app_assoc in E3. apply app_inv_tail in E3. subst body. rewrite <- !app_assoc in E1. subst ops. clear Hq E2.
  cbn zeta. unfold runw, runw_gen, expectedw.
  destruct (run_cfg (kw_cfg k) [] world0 0 (map expw_op (kw_exps k) ++ map callw_op (kw_calls k) ++ [(0, OPost)]) acc0 Jc_world0) as [w1 [S1 J1]].
  rewrite S1. cbn [app] in J1.
  assert (J1e : Je (kw_cfg k) [] w1).
  { destruct J1 as [M K]. split; [exact M|]. rewrite app_nil_r. exact K. }
  destruct (run_exps (kw_cfg k) (kw_exps k) [] w1 (0 + N.of_nat (length (kw_cfg k))) (map callw_op (kw_calls k) ++ [(0, OPost)]) acc0 J1e) as [w2 [S2 J2]].
  rewrite S2. cbn [app] in J2. destruct J2 as [M2 K2].
  replace (0 + N.of_nat (length (kw_cfg k)) + N.of_nat (length (kw_exps k))) with (N.of_nat (length (kw_cfg k) + length (kw_exps k))) by lia.
  unfold judgedw in Hj. rewrite forallb_forall in Hj.
  destruct (NoDup_fold_mention (map fst (kw_cfg k) ++ map fst (kw_exps k) ++ map fst (kw_calls k)) [] (NoDup_nil _) (fun x => x)) as [ND N0].
  fold (scopes_of k) in ND, N0.
  change (map (fun s => (s, mst0 (strict_of (kw_cfg k) s) (of_scope s (kw_exps k)))) (0 :: scopes_of k)) with (sts0 k).
  assert (KS : map fst (sts0 k) = 0 :: scopes_of k).
  { unfold sts0. rewrite map_map. cbn [fst]. apply map_id. }
  set (i0 := N.of_nat (length (kw_cfg k) + length (kw_exps k))).
  pose proof (sim_callsw_gen k [(0, OPost)] (kw_calls k) w2 (sts0 k) i0 acc0 macc0 (map fst (kw_cfg k) ++ map fst (kw_exps k))) as SIM.
  pose proof (mw_run_calls k (kw_calls k) (sts0 k) i0 macc0) as MR.
  assert (PRE : match mw_run k (sts0 k) (kw_calls k) macc0 with
                | None => let o := runw_from true w2 i0 (map callw_op (kw_calls k) ++ [(0, OPost)]) acc0 in
                          let r := mw_calls k (sts0 k) i0 (kw_calls k) macc0 in
                          proj o = lift (mr_fail r, mr_rets r) /\ outs_ok (mr_outs r) (o_outs o) = true /\ o_post o = []
                | Some (sts', ma') =>
                    exists w' a', runw_from true w2 i0 (map callw_op (kw_calls k) ++ [(0, OPost)]) acc0 =
                                  runw_from true w' (i0 + N.of_nat (length (kw_calls k))) [(0, OPost)] a' /\
                                  RW k w' sts' /\ NoDup (map fst sts') /\ map fst sts' = 0 :: map fst (w_kids w') /\ acc_rel a' ma' /\ a_post a' = []
                end).
  { apply SIM.
    - intros s Hs. rewrite KS in Hs. unfold sts0. rewrite (get_st_map _ s _ Hs), (M2 s). split.
      + apply built_R.
      + specialize (Hj s Hs). unfold judged in Hj. apply andb_true_iff in Hj. destruct Hj as [_ Hu]. cbn [scope_canon k_exps k_calls] in Hu.
        apply (obj_uniform_unifM _ _ _ _ Hu).
    - rewrite KS. constructor; assumption.
    - exact K2.
    - rewrite KS. unfold scopes_of. rewrite <- app_assoc. reflexivity.
    - intros [s c] Hx. cbn [fst snd]. rewrite KS.
      assert (Hs : In s (0 :: scopes_of k)).
      { destruct (N.eq_dec s 0) as [->|Es]; [left; reflexivity|]. right. unfold scopes_of. apply In_fold_mention. right. split; [|exact Es].
        rewrite !in_app_iff. right. right. apply (in_map fst) in Hx. exact Hx. }
      split; [exact Hs|]. specialize (Hj s Hs). unfold judged in Hj. apply andb_true_iff in Hj. destruct Hj as [Hc _].
      cbn [scope_canon k_calls] in Hc. rewrite forallb_forall in Hc. apply call_ok_fresh. apply Hc. apply In_of_scope. exact Hx.
    - split; [reflexivity|constructor].
    - reflexivity. }
  clear SIM. destruct (mw_run k (sts0 k) (kw_calls k) macc0) as [[sts' ma']|].
  - destruct MR as [ME MC]. rewrite ME, MC. destruct PRE as [w' [a' [RUN [HR' [ND' [KS' [HA' HP']]]]]]]. rewrite RUN.
    cbn [runw_from stepw]. rewrite N.eqb_refl. rewrite (add_post_obs a' (post_world w') HP'). cbn [o_rets o_outs o_fail o_post].
    destruct (acc_rel_obs a' ma' None (match m_final (map snd sts') with Some d => Some (i0 + N.of_nat (length (kw_calls k)), d) | None => None end) HA') as [X Y].
    cbn [mk_obs o_rets o_outs] in X, Y. split; [exact X|]. split; [exact Y|]. split; [reflexivity|]. split; [|reflexivity].
    destruct sts' as [|[z st0] stsk]; [discriminate KS'|]. cbn [map fst] in KS'. inversion KS' as [[Z KS'']]. subst z.
    apply (final_post k w' _ st0 stsk HR' eq_refl KS'' ND').
  - destruct MR as [ME MF]. rewrite ME. destruct PRE as [A [B C]]. cbn zeta in A, B, C. split; [|auto].
    unfold proj, lift in A. cbn [fst snd] in A. injection A as _ RT. exact RT.
Qed.

(* ------------------------------------------------------------------ "fails the test once": the count of failures delivered *)
Lemma pend_exists l : flat_map pend_of l <> [] -> exists st, In st l /\ s_pend st <> None.
Proof.
  induction l as [|st r IH]; cbn; [intro H; exfalso; apply H; reflexivity|]. unfold pend_of at 1. destruct (s_pend st) eqn:E.
  - intros _. exists st. split; [left; reflexivity|]. rewrite E. discriminate.
  - cbn [app]. intro H. destruct (IH H) as [x [A B]]. exists x. auto.
Qed.
Lemma m_final_some_iff l : existsb (fun st => existsb x_ooo (s_xs st)) l = false ->
  (m_final l <> None <-> exists st, In st l /\ (s_pend st <> None \/ existsb x_open (s_xs st) = true)).
Proof.
  intro NO. rewrite m_final_parts. change pend with pend_of. split.
  - intro H. destruct (flat_map pend_of l) as [|d ps] eqn:P.
    + destruct (existsb (fun st => existsb x_open (s_xs st)) l) eqn:O; [|exfalso; apply H; auto].
      apply existsb_exists in O. destruct O as [st [A B]]. exists st. auto.
    + destruct (pend_exists l) as [st [A B]]; [rewrite P; discriminate|]. exists st. auto.
  - intros [st [A [B|B]]] [P [O _]].
    + apply B. assert (X : pend_of st = []) by (apply (proj1 (flat_map_nil pend_of l) P st A)). unfold pend_of in X. destruct (s_pend st); [discriminate X|reflexivity].
    + rewrite existsb_false in O. rewrite (O st A) in B. discriminate B.
Qed.

(* on a judged scenario that ends with the plugin's check, in which every call went through, no call is out of order and at most
   one scope's last call is incomplete: the check delivers exactly one failure iff some scope's last call is incomplete or some
   expectation is unfulfilled -- and nothing otherwise; the one failure carries the diagnosis the leaving check reports *)
Theorem post_fails_once ops ops' k sts :
  post_to_check ops = Some ops' -> parsew ops' = Some k -> judgedw k = true ->
  mw_end k (sts0 k) (kw_calls k) = Some sts ->
  existsb (fun st => existsb x_ooo (s_xs st)) (map snd sts) = false -> (length (flat_map pend_of (map snd sts)) <= 1)%nat ->
  o_fail (runw ops) = None /\
  kinds (o_post (runw ops)) = match m_final (map snd sts) with Some d => [Some d] | None => [] end /\
  (length (o_post (runw ops)) = 1%nat <-> exists st, In st (map snd sts) /\ (s_pend st <> None \/ existsb x_open (s_xs st) = true)) /\
  (length (o_post (runw ops)) <= 1)%nat.
Proof.
  intros Hq Hp Hj ME NO LE. destruct (W_post_refines_M ops ops' k Hq Hp Hj) as [_ [_ M]]. cbn zeta in M. rewrite ME in M. destruct M as [F [KP _]].
  rewrite (m_post_once _ NO LE) in KP. split; [exact F|].
  assert (LN : length (o_post (runw ops)) = length (kinds (o_post (runw ops)))) by (unfold kinds; rewrite map_length; reflexivity).
  pose proof (m_final_some_iff _ NO) as SI. destruct (m_final (map snd sts)) as [d|]; cbn [map] in KP; rewrite LN, KP; cbn [length].
  - split; [reflexivity|]. split; [|lia]. split; [intros _; apply SI; discriminate|reflexivity].
  - split; [reflexivity|]. split; [|lia]. split; [discriminate|]. intro H. apply SI in H. exfalso. apply H. reflexivity.
Qed.

(* ------------------------------------------------------------------ the hypotheses are satisfiable *)
(* mock("s1") used correctly, the last actual call on mock() lacks parameter p0: exactly the missing-parameter failure *)
Definition example_post : list (N * op) :=
  [ (1, OExpect 1 0 [] [] None None false); (0, OExpect 1 1 [(0, PInt TInt 4%Z)] [] None None false);
    (1, OCall 0 [] false); (0, OCall 1 [] false); (0, OPost) ].
Example example_post_once :
  exists ops' k sts, post_to_check example_post = Some ops' /\ parsew ops' = Some k /\ judgedw k = true /\
                     mw_end k (sts0 k) (kw_calls k) = Some sts /\
                     existsb (fun st => existsb x_ooo (s_xs st)) (map snd sts) = false /\ (length (flat_map pend_of (map snd sts)) <= 1)%nat /\
                     kinds (o_post (runw example_post)) = [Some (DParamMissing 1)] /\ specw example_post (runw example_post) = true.
Proof. eexists _, _, _. split; [reflexivity|]. split; [reflexivity|]. split; [reflexivity|]. split; [reflexivity|]. vm_compute. repeat split; auto. Qed.
(* two scopes whose last calls are both incomplete: two failures, in creation order of the scopes *)
Definition example_post2 : list (N * op) :=
  [ (1, OExpect 1 0 [(0, PBool true)] [] None None false); (0, OExpect 1 1 [(0, PInt TInt 4%Z)] [] None None false);
    (1, OCall 0 [] false); (0, OCall 1 [] false); (0, OPost) ].
Example example_post_twice :
  kinds (o_post (runw example_post2)) = [Some (DParamMissing 1); Some (DParamMissing 0)] /\ specw example_post2 (runw example_post2) = true.
Proof. vm_compute. auto. Qed.
Example example_post_leaving : exists fl rest, check_world (snd (fold_left (fun (wi : N * world) so => match stepw true (snd wi) so with inl (w', _) => (fst wi, w') | inr _ => wi end)
                                                      (removelast example_post) (0, world0))) = inr fl /\
                                 post_world (snd (fold_left (fun (wi : N * world) so => match stepw true (snd wi) so with inl (w', _) => (fst wi, w') | inr _ => wi end)
                                                      (removelast example_post) (0, world0))) = fl :: rest.
Proof. eexists _, _. vm_compute. split; reflexivity. Qed.
