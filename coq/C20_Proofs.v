(* C20 -- proofs *)
From Coq Require Import NArith Bool List Lia Arith.
From CppUVerif Require Import lib.Str C16_Events C20_Model.
From Coq Require String Ascii.
Import String.StringSyntax.
Delimit Scope string_scope with string.
Import ListNotations.
Local Open Scope N_scope.

Definition ex_test1 : test :=
  {| t_group := (B "G'1"%string); t_name := (B "t[1]"%string); t_file := (B "it's.cpp"%string); t_line := 10; t_ignored := false;
     t_body := [SFail ((B "it's.cpp"%string)) 12 ((B "a|b
c"%string)); SFail ((B "h].cpp"%string)) 3 ((B "x"%string)); SFailStop ((B "it's.cpp"%string)) 4 ((B "y"%string)); SFail ((B "z"%string)) 1 ((B "unreachable"%string))] |}.
Definition ex_test2 : test :=
  {| t_group := (B "G'1"%string); t_name := (B "ign"%string); t_file := (B "a.cpp"%string); t_line := 20; t_ignored := true; t_body := [] |}.
Definition ex_test3 : test :=
  {| t_group := []; t_name := []; t_file := (B "a.cpp"%string); t_line := 30; t_ignored := false; t_body := [] |}.
Definition example_run : scenario := {| s_dur := 42; s_tests := [ex_test1; ex_test2; ex_test3] |}.

Lemma example_valid :
  valid example_run = true /\ length (messages_of 42 (s_tests example_run)) = 14%nat /\ spec example_run (run example_run) = true
  /\ tc_parse (run example_run) = Some (messages_of 42 (s_tests example_run)).
Proof. vm_compute. repeat split; reflexivity. Qed.
