(* C20 -- from the callback order of the registry to the byte stream, the stream against the parser, and the parsed
   messages against the property. *)
From Coq Require Import NArith Bool List Lia Arith.
From Coq Require String Ascii.
Import String.StringSyntax.
Delimit Scope string_scope with string.
From CppUVerif Require Import lib.Str C16_Events C20_Model C20_Escape C20_Parse C20_Console.
Import ListNotations.
Local Open Scope N_scope.

(* ================= the registry loop visits the segments one after the other ================= *)
Definition seg_events (fs : list bytes) (g : list test) : list ev :=
  match g with t :: _ => EGroupStart t :: flat_map (sel_events fs) g ++ [EGroupEnd] | [] => [] end.

Lemma segments_head n rest : exists g gs, segments (n :: rest) = (n :: g) :: gs.
Proof.
  cbn [segments]. destruct (segments rest) as [|[|m g] gs].
  - exists [], []. reflexivity.
  - exists [], []. reflexivity.
  - destruct (bytes_eqb (t_group n) (t_group m)); eauto.
Qed.
(* ---- the run options: setRunIgnored keeps group, name, location and body; doing it twice is doing it once *)
Lemma arm_group ri t : t_group (arm ri t) = t_group t. Proof. destruct ri; reflexivity. Qed.
Lemma arm_name ri t : t_name (arm ri t) = t_name t. Proof. destruct ri; reflexivity. Qed.
Lemma arm_idem ri t : arm ri (arm ri t) = arm ri t. Proof. destruct ri; reflexivity. Qed.
Lemma arm_false_map ts : map (arm false) ts = ts.
Proof. induction ts as [|t ts IH]; [reflexivity|]. cbn [map arm]. rewrite IH. reflexivity. Qed.
Lemma arm_idem_map ri ts : map (arm ri) (map (arm ri) ts) = map (arm ri) ts.
Proof. rewrite map_map. apply map_ext. intro t. apply arm_idem. Qed.
Lemma selected_arm ri fs t : selected fs (arm ri t) = selected fs t.
Proof. unfold selected. rewrite arm_name. reflexivity. Qed.
Lemma end_of_group_arm ri t rest : end_of_group t (map (arm ri) rest) = end_of_group t rest.
Proof. destruct rest as [|n rest]; [reflexivity|]. cbn [map end_of_group]. rewrite arm_group. reflexivity. Qed.

(* the loop that arms each shell at the top of its iteration reports what the plain loop reports on shells armed beforehand:
   nothing is told to the output about a shell before its own iteration *)
Lemma reg_loop_arm ri fs ts : forall gs, reg_loop_sel ri fs gs ts = reg_loop_sel false fs gs (map (arm ri) ts).
Proof.
  induction ts as [|t rest IH]; intro gs; [reflexivity|].
  cbn [map reg_loop_sel]. cbn [arm]. rewrite end_of_group_arm, !IH. reflexivity.
Qed.

Lemma reg_loop_flag fs t rest : reg_loop_sel false fs true (t :: rest) = EGroupStart t :: reg_loop_sel false fs false (t :: rest).
Proof. reflexivity. Qed.
Lemma reg_loop_segments_plain fs ts : reg_loop_sel false fs true ts = flat_map (seg_events fs) (segments ts).
Proof.
  induction ts as [|t rest IH]; [reflexivity|].
  destruct rest as [|n rest'].
  - cbn. rewrite !app_nil_r. reflexivity.
  - destruct (segments_head n rest') as [g [gs Eg]].
    remember (n :: rest') as r eqn:Er.
    cbn [segments]. rewrite Eg in *.
    assert (IH' : reg_loop_sel false fs false r = flat_map (sel_events fs) (n :: g) ++ [EGroupEnd] ++ flat_map (seg_events fs) gs).
    { rewrite Er in *. rewrite reg_loop_flag in IH. remember (reg_loop_sel false fs false (n :: rest')) as X eqn:EX.
      cbn [flat_map seg_events app] in IH. injection IH as IH. rewrite IH. cbn [flat_map]. rewrite <- !app_assoc. reflexivity. }
    cbn [reg_loop_sel arm]. replace (end_of_group t r) with (negb (bytes_eqb (t_group t) (t_group n))) by (rewrite Er; reflexivity).
    destruct (bytes_eqb (t_group t) (t_group n)); cbn [negb].
    + rewrite IH'. cbn [flat_map seg_events app]. rewrite <- !app_assoc. reflexivity.
    + rewrite IH. cbn [flat_map seg_events app]. rewrite !app_nil_r, <- !app_assoc. reflexivity.
Qed.
Lemma reg_loop_segments ri fs ts : events_sel ri fs ts = flat_map (seg_events fs) (segments (map (arm ri) ts)).
Proof. unfold events_sel. rewrite reg_loop_arm. apply reg_loop_segments_plain. Qed.

(* several passes: every pass reports what the first one reports (the shells stay armed) *)
Fixpoint times {A} (n : nat) (l : list A) : list A := match n with O => [] | S k => l ++ times k l end.
Lemma times_concat {A} n (l : list A) : times n l = concat (repeat l n).
Proof. induction n as [|n IH]; [reflexivity|]. cbn [times repeat concat]. rewrite IH. reflexivity. Qed.
Lemma passes_events_times ri fs n : forall ts, passes_events ri fs n ts = times n (events_sel false fs (map (arm ri) ts)).
Proof.
  induction n as [|n IH]; intro ts; [reflexivity|].
  cbn [passes_events times]. rewrite IH, arm_idem_map. unfold events_sel at 1. rewrite reg_loop_arm. reflexivity.
Qed.
Lemma passes_exec_times ri fs n : forall ts, passes_exec ri fs n ts = times n (map (exec_count fs) (map (arm ri) ts)).
Proof.
  induction n as [|n IH]; intro ts; [reflexivity|].
  cbn [passes_exec times]. rewrite IH, arm_idem_map. unfold pass_exec. rewrite map_map. reflexivity.
Qed.
Lemma passes_times ri fs n ts :
  passes_events ri fs n ts = times n (events_sel false fs (map (arm ri) ts))
  /\ passes_exec ri fs n ts = times n (map (exec_count fs) (map (arm ri) ts)).
Proof. split; [apply passes_events_times | apply passes_exec_times]. Qed.
Lemma flat_map_times {A B} (f : A -> list B) n l : flat_map f (times n l) = times n (flat_map f l).
Proof. induction n as [|n IH]; [reflexivity|]. cbn [times]. rewrite flat_map_app, IH. reflexivity. Qed.

(* a map that keeps the group names keeps the segments *)
Lemma segments_map (f : test -> test) : (forall t, t_group (f t) = t_group t) -> forall ts, segments (map f ts) = map (map f) (segments ts).
Proof.
  intros Hf ts. induction ts as [|t rest IH]; [reflexivity|].
  cbn [map segments]. rewrite IH. destruct (segments rest) as [|[|n g] gs]; [reflexivity | reflexivity |].
  cbn [map]. rewrite !Hf. destruct (bytes_eqb (t_group t) (t_group n)); reflexivity.
Qed.
Lemma concat_segments ts : concat (segments ts) = ts.
Proof.
  induction ts as [|t rest IH]; [reflexivity|].
  destruct rest as [|n rest']; [reflexivity|].
  destruct (segments_head n rest') as [g [gs Eg]].
  remember (n :: rest') as r eqn:Er.
  cbn [segments]. rewrite Eg in *.
  destruct (bytes_eqb (t_group t) (t_group n)); cbn [concat app] in *; rewrite IH; reflexivity.
Qed.

(* every segment is non-empty; a property of all tests holds of all tests of every segment *)
Lemma segments_forall (P : test -> bool) ts : forallb P ts = true ->
  Forall (fun g => g <> [] /\ forallb P g = true) (segments ts).
Proof.
  induction ts as [|t rest IH]; [constructor|].
  cbn [forallb]. intro H. apply andb_true_iff in H. destruct H as [Ht Hr]. specialize (IH Hr).
  cbn [segments]. destruct (segments rest) as [|[|n g] gs] eqn:E.
  - repeat constructor; [discriminate | cbn; rewrite Ht; reflexivity].
  - repeat constructor; [discriminate | cbn; rewrite Ht; reflexivity].
  - inversion IH as [|? ? [_ Hg] Hgs]; subst.
    destruct (bytes_eqb (t_group t) (t_group n)).
    + constructor; [|exact Hgs]. split; [discriminate|]. cbn [forallb]. rewrite Ht. exact Hg.
    + constructor; [|exact IH]. split; [discriminate|]. cbn. rewrite Ht. reflexivity.
Qed.

(* ================= the writer's output for the callbacks of one test, one segment, a whole run ================= *)
Section WriterFacts.
Variable dur : N.
Variable fs : list bytes.
Notation stepR := (tc_step Esc true dur).
Notation itemsR := (tc_items Esc true dur).

Lemma items_cons st e r : itemsR st (e :: r) = snd (stepR st e) ++ itemsR (fst (stepR st e)) r.
Proof. cbn [tc_items]. destruct (stepR st e). reflexivity. Qed.

(* statements of a test body *)
Fixpoint body_items (t : test) (b : list stmt) : list item :=
  match b with
  | [] => []
  | SPrint s :: r => IText s :: body_items t r
  | SFail f l m :: r => IMsg (failure_pmsg Esc t f l m) :: body_items t r
  | SFailStop f l m :: _ => [IMsg (failure_pmsg Esc t f l m)]
  end.
Lemma items_body st t b : forall rest, itemsR st (fst (body_events t b) ++ rest) = body_items t b ++ itemsR st rest.
Proof.
  induction b as [|s b IH]; intro rest; [reflexivity|].
  destruct s as [x|f l m|f l m]; cbn [body_events body_items].
  - destruct (body_events t b) as [e c]. cbn [fst app] in *. rewrite items_cons. cbn [tc_step fst snd app]. rewrite IH. reflexivity.
  - destruct (body_events t b) as [e c]. cbn [fst app] in *. rewrite items_cons. cbn [tc_step fst snd app]. rewrite IH. reflexivity.
  - cbn [fst app]. rewrite items_cons. reflexivity.
Qed.

Definition finished_pmsg (t : test) : pmsg :=
  {| pm_name := L_testFinished; pm_attrs := [(L_name, [Esc (t_name t)]); (L_duration, [Raw (dec (if t_ignored t then 0 else dur))])] |}.
Definition test_items (t : test) : list item :=
  IMsg (named L_testStarted (t_name t)) :: (if t_ignored t then [IMsg (named L_testIgnored (t_name t))] else [])
  ++ (if t_ignored t then [] else body_items t (t_body t)) ++ [IMsg (finished_pmsg t)].
Definition with_test (st : tcst) (t : test) : tcst := {| c_test := Some t; c_group := c_group st; c_open := c_open st |}.

Lemma items_test st t rest : itemsR st (test_events t ++ rest) = test_items t ++ itemsR (with_test st t) rest.
Proof.
  unfold test_events, test_items. destruct (t_ignored t) eqn:Ei.
  - cbn [app]. rewrite items_cons. cbn [tc_step fst snd]. rewrite Ei. fold (with_test st t).
    cbn [app]. rewrite items_cons. cbn [tc_step fst snd with_test c_test]. unfold finished_pmsg. rewrite Ei. reflexivity.
  - pose proof (items_body (with_test st t) t (t_body t)) as Hb.
    destruct (body_events t (t_body t)) as [e c]. cbn [fst] in Hb.
    cbn [app]. rewrite items_cons. cbn [tc_step fst snd]. rewrite Ei. fold (with_test st t).
    cbn [app]. rewrite <- app_assoc, Hb. cbn [app]. rewrite items_cons. cbn [tc_step fst snd with_test c_test].
    unfold finished_pmsg. rewrite Ei, <- app_assoc. reflexivity.
Qed.

Lemma items_tests g : forall st rest, exists st',
  c_group st' = c_group st /\ c_open st' = c_open st /\
  itemsR st (flat_map (sel_events fs) g ++ rest) = flat_map test_items (filter (selected fs) g) ++ itemsR st' rest.
Proof.
  induction g as [|t g IH]; intros st rest.
  - exists st. repeat split.
  - cbn [flat_map filter]. unfold sel_events at 1. destruct (selected fs t).
    + destruct (IH (with_test st t) rest) as [st' [Hg [Ho E]]].
      exists st'. split; [exact Hg | split; [exact Ho|]].
      cbn [flat_map]. rewrite <- !app_assoc, items_test, E. reflexivity.
    + cbn [app]. apply IH.
Qed.

Definition seg_items (g : list test) : list item :=
  IMsg (named L_testSuiteStarted (group_name g)) :: flat_map test_items (filter (selected fs) g)
  ++ [IMsg (named L_testSuiteFinished (group_name g))].

Lemma items_seg g st rest : g <> [] -> exists st', itemsR st (seg_events fs g ++ rest) = seg_items g ++ itemsR st' rest.
Proof.
  intro Hne. destruct g as [|t g]; [contradiction|].
  unfold seg_events, seg_items. cbn [group_name].
  remember (t :: g) as G.
  cbn [app]. rewrite items_cons. cbn [tc_step fst snd app].
  destruct (items_tests G {| c_test := c_test st; c_group := t_group t; c_open := true |} ([EGroupEnd] ++ rest)) as [st' [Hg [Ho E]]].
  cbn [c_group c_open] in Hg, Ho.
  rewrite <- app_assoc, E. cbn [app]. rewrite items_cons. cbn [tc_step]. rewrite Ho, Hg. cbn [negb fst snd].
  eexists. rewrite <- app_assoc. reflexivity.
Qed.

Lemma items_segs gs : forall st rest, Forall (fun g => g <> []) gs ->
  exists st', itemsR st (flat_map (seg_events fs) gs ++ rest) = flat_map seg_items gs ++ itemsR st' rest.
Proof.
  induction gs as [|g gs IH]; intros st rest Hne.
  - exists st. reflexivity.
  - inversion Hne as [|? ? Hg Hgs]; subst.
    cbn [flat_map]. rewrite <- !app_assoc.
    destruct (items_seg g st (flat_map (seg_events fs) gs ++ rest) Hg) as [st1 E1]. rewrite E1.
    destruct (IH st1 rest Hgs) as [st2 E2]. rewrite E2. exists st2. rewrite <- app_assoc. reflexivity.
Qed.

(* ---- everything the writer prints is well-formed as long as test bodies do not print *)
Definition noprint (t : test) : bool :=
  forallb (fun s => match s with SPrint _ => false | _ => true end) (t_body t).

Lemma named_ok_started n : pmsg_ok (named L_testStarted n) = true. Proof. reflexivity. Qed.
Lemma named_ok_ignored n : pmsg_ok (named L_testIgnored n) = true. Proof. reflexivity. Qed.
Lemma named_ok_sstarted n : pmsg_ok (named L_testSuiteStarted n) = true. Proof. reflexivity. Qed.
Lemma named_ok_sfinished n : pmsg_ok (named L_testSuiteFinished n) = true. Proof. reflexivity. Qed.
Lemma finished_ok t : pmsg_ok (finished_pmsg t) = true.
Proof.
  unfold pmsg_ok, finished_pmsg. cbn [pm_name pm_attrs attrs_ok fst snd forallb seg_ok].
  rewrite dec_plain_raw. reflexivity.
Qed.
Lemma failure_ok_pmsg t f l m : pmsg_ok (failure_pmsg Esc t f l m) = true.
Proof.
  unfold pmsg_ok, failure_pmsg. cbn [pm_name pm_attrs attrs_ok fst snd].
  destruct (negb (bytes_eqb (t_file t) f) || (l <? t_line t)); cbn [app forallb seg_ok]; rewrite ?dec_plain_raw; reflexivity.
Qed.

Lemma body_items_ok t b : forallb (fun s => match s with SPrint _ => false | _ => true end) b = true ->
  forallb item_ok (body_items t b) = true.
Proof.
  induction b as [|s b IH]; [reflexivity|]. cbn [forallb]. intro H. apply andb_true_iff in H. destruct H as [Hs Hb].
  destruct s as [x|f l m|f l m]; [discriminate Hs| |]; cbn [body_items forallb item_ok]; rewrite failure_ok_pmsg; [apply IH; exact Hb | reflexivity].
Qed.
Lemma test_items_ok t : noprint t = true -> forallb item_ok (test_items t) = true.
Proof.
  intro H. unfold test_items. cbn [forallb item_ok]. rewrite named_ok_started. cbn [andb].
  rewrite !forallb_app. cbn [forallb item_ok]. rewrite finished_ok.
  destruct (t_ignored t); cbn [forallb item_ok]; rewrite ?named_ok_ignored; [reflexivity|].
  rewrite (body_items_ok t _ H). reflexivity.
Qed.
Lemma tests_items_ok g : forallb noprint g = true -> forallb item_ok (flat_map test_items g) = true.
Proof.
  induction g as [|t g IH]; [reflexivity|]. cbn [forallb flat_map]. intro H. apply andb_true_iff in H. destruct H as [Ht Hg].
  rewrite forallb_app, (test_items_ok t Ht), (IH Hg). reflexivity.
Qed.
Lemma forallb_filter {A} (P Q : A -> bool) l : forallb P l = true -> forallb P (filter Q l) = true.
Proof.
  induction l as [|a l IH]; [reflexivity|]. cbn [forallb filter]. intro H. apply andb_true_iff in H. destruct H as [Ha Hl].
  destruct (Q a); [cbn [forallb]; rewrite Ha; apply IH; exact Hl | apply IH; exact Hl].
Qed.
Lemma seg_items_ok g : forallb noprint g = true -> forallb item_ok (seg_items g) = true.
Proof.
  intro H. unfold seg_items. cbn [forallb item_ok]. rewrite named_ok_sstarted. cbn [andb].
  rewrite forallb_app, (tests_items_ok _ (forallb_filter noprint (selected fs) g H)). cbn [forallb item_ok]. rewrite named_ok_sfinished. reflexivity.
Qed.
Lemma segs_items_ok gs : Forall (fun g => g <> [] /\ forallb noprint g = true) gs -> forallb item_ok (flat_map seg_items gs) = true.
Proof.
  induction 1 as [|g gs [_ Hg] _ IH]; [reflexivity|]. cbn [flat_map]. rewrite forallb_app, (seg_items_ok g Hg), IH. reflexivity.
Qed.

(* ---- what a decoder must read from it: messages_of *)
Lemma erase_failure t f l m : erase (failure_pmsg Esc t f l m) = failure_msg t (f, l, m).
Proof.
  unfold erase, failure_pmsg, failure_msg, failure_text, loc_text. cbn [pm_name pm_attrs map fst snd]. f_equal.
  destruct (negb (bytes_eqb (t_file t) f) || (l <? t_line t)); cbn [app flat_map seg_dec];
    repeat (rewrite <- app_assoc || rewrite <- app_comm_cons || rewrite app_nil_r); reflexivity.
Qed.
Lemma msgs_body t b : msgs_of_items (body_items t b) = map (failure_msg t) (all_failures b).
Proof.
  induction b as [|s b IH]; [reflexivity|].
  destruct s as [x|f l m|f l m]; cbn [body_items msgs_of_items all_failures map]; rewrite ?erase_failure, ?IH; reflexivity.
Qed.
Lemma erase_named k n : erase (named k n) = mk_named k n.
Proof. unfold erase, named, mk_named. cbn [pm_name pm_attrs map fst snd flat_map seg_dec]. rewrite app_nil_r. reflexivity. Qed.
Lemma erase_finished t :
  erase (finished_pmsg t) = {| m_name := L_testFinished; m_attrs := [(L_name, t_name t); (L_duration, dec (if t_ignored t then 0 else dur))] |}.
Proof. unfold erase, finished_pmsg. cbn [pm_name pm_attrs map fst snd flat_map seg_dec]. rewrite !app_nil_r. reflexivity. Qed.
(* the writer is told about shells as the registry armed them: for such a shell "is run" is "is not ignored" *)
Lemma msgs_test t : msgs_of_items (test_items t) = test_msgs dur false t.
Proof.
  unfold test_items, test_msgs, test_failures, runs. cbn [msgs_of_items]. rewrite !msgs_of_items_app.
  cbn [msgs_of_items]. rewrite erase_named, erase_finished.
  destruct (t_ignored t); cbn [msgs_of_items map app negb orb]; rewrite ?erase_named, ?msgs_body; reflexivity.
Qed.
Lemma msgs_tests g : msgs_of_items (flat_map test_items g) = flat_map (test_msgs dur false) g.
Proof. induction g as [|t g IH]; [reflexivity|]. cbn [flat_map]. rewrite msgs_of_items_app, msgs_test, IH. reflexivity. Qed.
Lemma msgs_seg g : msgs_of_items (seg_items g) = suite_msgs dur false fs g.
Proof. unfold seg_items, suite_msgs. cbn [msgs_of_items]. rewrite msgs_of_items_app, msgs_tests. cbn [msgs_of_items]. rewrite !erase_named. reflexivity. Qed.
Lemma msgs_segs gs : msgs_of_items (flat_map seg_items gs) = flat_map (suite_msgs dur false fs) gs.
Proof. induction gs as [|g gs IH]; [reflexivity|]. cbn [flat_map]. rewrite msgs_of_items_app, msgs_seg, IH. reflexivity. Qed.

(* ---- the messages of armed shells, read against the registered tests: flagged iff ignored and not run *)
Lemma failure_msg_unignore t f : failure_msg (unignore t) f = failure_msg t f.
Proof. destruct f as [[file line] msg]. reflexivity. Qed.
Lemma test_msgs_arm ri t : test_msgs dur false (arm ri t) = test_msgs dur ri t.
Proof.
  destruct ri; [|reflexivity].
  unfold test_msgs, test_failures, runs. cbn [arm unignore t_ignored t_name t_body negb orb]. rewrite orb_true_r.
  rewrite (map_ext _ _ (failure_msg_unignore t)). reflexivity.
Qed.
Lemma filter_selected_arm ri g : filter (selected fs) (map (arm ri) g) = map (arm ri) (filter (selected fs) g).
Proof.
  induction g as [|t g IH]; [reflexivity|]. cbn [map filter]. rewrite selected_arm, IH. destruct (selected fs t); reflexivity.
Qed.
Lemma group_name_arm ri g : group_name (map (arm ri) g) = group_name g.
Proof. destruct g as [|t g]; [reflexivity|]. cbn [map group_name]. apply arm_group. Qed.
Lemma suite_msgs_arm ri g : suite_msgs dur false fs (map (arm ri) g) = suite_msgs dur ri fs g.
Proof.
  unfold suite_msgs. rewrite group_name_arm, filter_selected_arm. do 2 f_equal.
  induction (filter (selected fs) g) as [|t l IH]; [reflexivity|]. cbn [map flat_map]. rewrite test_msgs_arm, IH. reflexivity.
Qed.
Lemma suites_msgs_arm ri ts :
  flat_map (suite_msgs dur false fs) (segments (map (arm ri) ts)) = flat_map (suite_msgs dur ri fs) (segments ts).
Proof.
  rewrite (segments_map (arm ri) (arm_group ri)).
  induction (segments ts) as [|g gs IH]; [reflexivity|]. cbn [map flat_map]. rewrite suite_msgs_arm, IH. reflexivity.
Qed.

(* ---- the stream of a whole run *)
Lemma pass_items ts st rest : exists st',
  tc_items Esc true dur st (events_sel false fs ts ++ rest) = flat_map seg_items (segments ts) ++ tc_items Esc true dur st' rest.
Proof.
  unfold events_sel. rewrite reg_loop_segments_plain.
  assert (Hne : Forall (fun g : list test => g <> []) (segments ts)).
  { assert (Ht : forallb (fun _ : test => true) ts = true) by (clear; induction ts; cbn; auto).
    pose proof (segments_forall (fun _ => true) ts Ht) as H. eapply Forall_impl; [|exact H]. intros g [Hg _]. exact Hg. }
  apply items_segs. exact Hne.
Qed.
Lemma times_items ts n : forall st, tc_items Esc true dur st (times n (events_sel false fs ts)) = times n (flat_map seg_items (segments ts)).
Proof.
  induction n as [|n IH]; intro st; [reflexivity|]. cbn [times].
  destruct (pass_items ts st (times n (events_sel false fs ts))) as [st' E]. rewrite E, IH. reflexivity.
Qed.
Lemma run_items ri n ts :
  tc_items Esc true dur tc_init (passes_events ri fs n ts) = times n (flat_map seg_items (segments (map (arm ri) ts))).
Proof. rewrite passes_events_times. apply times_items. Qed.

Lemma noprint_arm ri t : noprint (arm ri t) = noprint t. Proof. destruct ri; reflexivity. Qed.
Lemma times_ok n l : forallb item_ok l = true -> forallb item_ok (times n l) = true.
Proof. intro H. induction n as [|n IH]; [reflexivity|]. cbn [times]. rewrite forallb_app, H, IH. reflexivity. Qed.
Lemma msgs_of_items_times n l : msgs_of_items (times n l) = times n (msgs_of_items l).
Proof. induction n as [|n IH]; [reflexivity|]. cbn [times]. rewrite msgs_of_items_app, IH. reflexivity. Qed.

Lemma stream ri n ts trailer : forallb noprint ts = true -> no_hash trailer = true ->
  tc_parse (render_tc dur ri n fs ts ++ trailer) = Some (messages_of dur ri n fs ts).
Proof.
  intros Hp Ht. unfold render_tc, render_with, messages_of, pass_groups. rewrite run_items.
  rewrite parse_items; [| |exact Ht].
  - rewrite msgs_of_items_times, msgs_segs, suites_msgs_arm, <- times_concat, flat_map_times. reflexivity.
  - apply times_ok, segs_items_ok, segments_forall.
    rewrite forallb_forall in *. intros t' Hin. apply in_map_iff in Hin. destruct Hin as [t [<- Hin]]. rewrite noprint_arm. apply Hp, Hin.
Qed.

(* the same run very verbose: the progress texts stand between the messages (a message may follow one on the same line); read
   message-anywhere the stream gives the same messages *)
Lemma stream_vv ri n ts trailer : forallb noprint ts = true -> no_hash trailer = true ->
  tc_parse_any (flat_map item_print (tc_items Esc true dur tc_init (vv_decorate false (passes_events ri fs n ts))) ++ trailer)
  = Some (messages_of dur ri n fs ts).
Proof.
  intros Hp Ht.
  assert (Hok : forallb item_ok (tc_items Esc true dur tc_init (passes_events ri fs n ts)) = true).
  { rewrite run_items. apply times_ok, segs_items_ok, segments_forall.
    rewrite forallb_forall in *. intros t' Hin. apply in_map_iff in Hin. destruct Hin as [t [<- Hin]]. rewrite noprint_arm. apply Hp, Hin. }
  rewrite parse_items_any; [|apply items_ok_decorate; exact Hok|exact Ht].
  rewrite msgs_decorate, run_items. unfold messages_of, pass_groups.
  rewrite msgs_of_items_times, msgs_segs, suites_msgs_arm, <- times_concat, flat_map_times. reflexivity.
Qed.
End WriterFacts.

(* ================= the messages of a run against the property ================= *)
Section SpecFacts.
Variable dur : N.
Variable ri : bool.
Variable fs : list bytes.

(* ---- balance *)
Lemma bal_failures s t fl : forall r,
  balanced_go (Some s) (Some (t_name t)) (map (failure_msg t) fl ++ r) = balanced_go (Some s) (Some (t_name t)) r.
Proof.
  induction fl as [|[[f l] m] fl IH]; intro r; [reflexivity|].
  cbn [map app]. unfold failure_msg at 1. cbn. rewrite bytes_eqb_refl. cbn. apply IH.
Qed.
Lemma bal_test s t r : balanced_go (Some s) None (test_msgs dur ri t ++ r) = balanced_go (Some s) None r.
Proof.
  unfold test_msgs. cbn [app]. 
  change (balanced_go (Some s) None (mk_named L_testStarted (t_name t) :: ?x)) with (balanced_go (Some s) (Some (t_name t)) x).
  rewrite <- !app_assoc.
  assert (Hi : forall x, balanced_go (Some s) (Some (t_name t)) ((if runs ri t then [] else [mk_named L_testIgnored (t_name t)]) ++ x)
                         = balanced_go (Some s) (Some (t_name t)) x).
  { intro x. destruct (runs ri t); [reflexivity|]. cbn. rewrite bytes_eqb_refl. reflexivity. }
  rewrite Hi, bal_failures. cbn. rewrite bytes_eqb_refl. reflexivity.
Qed.
Lemma bal_tests s g : forall r, balanced_go (Some s) None (flat_map (test_msgs dur ri) g ++ r) = balanced_go (Some s) None r.
Proof.
  induction g as [|t g IH]; intro r; [reflexivity|]. cbn [flat_map]. rewrite <- app_assoc, bal_test. apply IH.
Qed.
Lemma bal_suite g r : balanced_go None None (suite_msgs dur ri fs g ++ r) = balanced_go None None r.
Proof.
  unfold suite_msgs. cbn [app].
  change (balanced_go None None (mk_named L_testSuiteStarted (group_name g) :: ?x)) with (balanced_go (Some (group_name g)) None x).
  rewrite <- app_assoc, bal_tests. cbn. rewrite bytes_eqb_refl. reflexivity.
Qed.
Lemma balanced_suites gs : balanced (flat_map (suite_msgs dur ri fs) gs) = true.
Proof.
  unfold balanced. induction gs as [|g gs IH]; [reflexivity|].
  cbn [flat_map]. rewrite bal_suite. exact IH.
Qed.
Lemma balanced_messages n ts : balanced (messages_of dur ri n fs ts) = true.
Proof. apply balanced_suites. Qed.

(* ---- faithfulness *)
Lemma ends_with_app p s : ends_with (p ++ s) s = true.
Proof.
  unfold ends_with. rewrite app_length, Nat.add_sub, skipn_app, skipn_all, Nat.sub_diag. cbn. apply bytes_eqb_refl.
Qed.
Lemma contains_mid a t b : contains (a ++ t ++ b) t = true.
Proof. apply contains_spec. exists a, b. reflexivity. Qed.

Lemma failure_ok_msg t f : failure_ok t f (failure_msg t f) = true.
Proof.
  destruct f as [[file line] msg]. unfold failure_ok, failure_msg.
  change (is_msg L_testFailed _) with true.
  unfold attr_is, get_attr. cbn [m_attrs find fst snd].
  change (bytes_eqb L_name L_name) with true. change (bytes_eqb L_name L_details) with false.
  change (bytes_eqb L_message L_details) with false. change (bytes_eqb L_details L_details) with true.
  change (bytes_eqb L_name L_message) with false. change (bytes_eqb L_message L_message) with true.
  cbn [fst snd]. rewrite !bytes_eqb_refl. cbn [andb].
  unfold failure_text.
  rewrite ends_with_app. cbn [andb].
  destruct (negb (bytes_eqb (t_file t) file) || (line <? t_line t)); [|reflexivity].
  unfold loc_text.
  replace ((L_TEST_failed ++ t_file t ++ [58] ++ dec (t_line t) ++ L_close_colon) ++ file ++ [58] ++ dec line)
    with (L_TEST_failed ++ (t_file t ++ [58] ++ dec (t_line t)) ++ (L_close_colon ++ file ++ [58] ++ dec line))
    by (repeat (rewrite <- app_assoc || rewrite <- app_comm_cons); reflexivity).
  apply contains_mid.
Qed.
Lemma take_failures_msgs t fl : forall r, take_failures t fl (map (failure_msg t) fl ++ r) = Some r.
Proof.
  induction fl as [|f fl IH]; intro r; [reflexivity|].
  cbn [map app take_failures]. rewrite failure_ok_msg. apply IH.
Qed.
Lemma attr_is_named k n : attr_is L_name (mk_named k n) n = true.
Proof. unfold attr_is, get_attr, mk_named. cbn [m_attrs find fst snd]. change (bytes_eqb L_name L_name) with true. cbn. apply bytes_eqb_refl. Qed.

(* a testFailed / testFinished message is not the ignored flag *)
Lemma is_flag_failed t t' f : is_flag t (failure_msg t' f) = false.
Proof. destruct f as [[file line] msg]. reflexivity. Qed.
Lemma is_flag_finished t a : is_flag t {| m_name := L_testFinished; m_attrs := a |} = false.
Proof. reflexivity. Qed.
Lemma is_flag_ignored t : is_flag t (mk_named L_testIgnored (t_name t)) = true.
Proof. unfold is_flag. rewrite attr_is_named. reflexivity. Qed.
Lemma finished_named t a (r : list message) :
  (if is_msg L_testFinished {| m_name := L_testFinished; m_attrs := (L_name, t_name t) :: a |}
      && attr_is L_name {| m_name := L_testFinished; m_attrs := (L_name, t_name t) :: a |} (t_name t) then Some r else None) = Some r.
Proof.
  change (is_msg L_testFinished _) with true.
  unfold attr_is, get_attr. cbn [m_attrs find fst snd]. change (bytes_eqb L_name L_name) with true. cbn [snd]. rewrite bytes_eqb_refl. reflexivity.
Qed.

(* the number of executions of its body the property demands of a selected test in one pass *)
Definition count_run (t : test) : N := if runs ri t then 1 else 0.
Lemma take_test_msgs t r : take_test ri t (count_run t) (test_msgs dur ri t ++ r) = Some r.
Proof.
  unfold test_msgs, take_test, test_failures, count_run. cbn [app].
  change (is_msg L_testStarted (mk_named L_testStarted (t_name t))) with true. rewrite attr_is_named. cbn [andb].
  rewrite <- !app_assoc.
  destruct (runs ri t) eqn:Er; cbn [app].
  - destruct (all_failures (t_body t)) as [|f fl] eqn:Ef.
    + cbn [map app]. rewrite is_flag_finished. cbn [Bool.eqb negb andb N.eqb Pos.eqb take_failures]. apply finished_named.
    + cbn [map app]. rewrite is_flag_failed. cbn [Bool.eqb negb andb N.eqb Pos.eqb].
      change (failure_msg t f :: map (failure_msg t) fl ++ ?x) with (map (failure_msg t) (f :: fl) ++ x).
      rewrite take_failures_msgs. apply finished_named.
  - rewrite is_flag_ignored. cbn [Bool.eqb negb andb N.eqb map app take_failures]. apply finished_named.
Qed.
Definition count_sel (t : test) : N := if selected fs t && runs ri t then 1 else 0.
Lemma take_tests_msgs g : forall cs r,
  take_tests ri fs g (map count_sel g ++ cs) (flat_map (test_msgs dur ri) (filter (selected fs) g) ++ r) = Some (cs, r).
Proof.
  induction g as [|t g IH]; intros cs r; [reflexivity|].
  cbn [map app filter take_tests]. destruct (selected fs t) eqn:Es.
  - replace (count_sel t) with (count_run t) by (unfold count_sel, count_run; rewrite Es; reflexivity).
    cbn [flat_map]. rewrite <- app_assoc, take_test_msgs. apply IH.
  - replace (count_sel t) with 0 by (unfold count_sel; rewrite Es; reflexivity). cbn [N.eqb]. apply IH.
Qed.
Lemma take_suite_msgs g cs r : take_suite ri fs g (map count_sel g ++ cs) (suite_msgs dur ri fs g ++ r) = Some (cs, r).
Proof.
  unfold suite_msgs, take_suite. cbn [app].
  change (is_msg L_testSuiteStarted (mk_named L_testSuiteStarted (group_name g))) with true. rewrite attr_is_named. cbn [andb].
  rewrite <- app_assoc, take_tests_msgs. cbn [app].
  change (is_msg L_testSuiteFinished (mk_named L_testSuiteFinished (group_name g))) with true. rewrite attr_is_named. reflexivity.
Qed.
Lemma faithful_suites gs : faithful ri fs gs (flat_map (map count_sel) gs) (flat_map (suite_msgs dur ri fs) gs) = true.
Proof.
  induction gs as [|g gs IH]; [reflexivity|].
  cbn [flat_map faithful]. rewrite take_suite_msgs. exact IH.
Qed.
Lemma faithful_messages n ts : faithful ri fs (pass_groups n ts) (exec_of ri n fs ts) (messages_of dur ri n fs ts) = true.
Proof. apply faithful_suites. Qed.
Lemma spec_messages n ts : spec_msgs ri n fs ts (exec_of ri n fs ts) (messages_of dur ri n fs ts) = true.
Proof. unfold spec_msgs. rewrite balanced_messages, faithful_messages. reflexivity. Qed.

(* the executions the model counts are the ones the property demands *)
Lemma exec_count_arm t : exec_count fs (arm ri t) = count_sel t.
Proof.
  unfold exec_count, count_sel, runs. rewrite selected_arm. destruct ri; cbn [arm unignore t_ignored negb]; rewrite ?orb_true_r, ?orb_false_r; reflexivity.
Qed.
Lemma flat_map_map_concat {A B} (f : A -> B) gs : flat_map (map f) gs = map f (concat gs).
Proof. induction gs as [|g gs IH]; [reflexivity|]. cbn [flat_map concat]. rewrite map_app, IH. reflexivity. Qed.
Lemma exec_model n ts : passes_exec ri fs n ts = exec_of ri n fs ts.
Proof.
  rewrite passes_exec_times. unfold exec_of, pass_groups. fold count_sel.
  rewrite <- times_concat, flat_map_times, flat_map_map_concat, concat_segments, map_map.
  f_equal. apply map_ext. apply exec_count_arm.
Qed.
End SpecFacts.

(* ================= the run against the oracle ================= *)
Lemma valid_noprint s : valid s = true -> forallb noprint (s_tests s) = true.
Proof.
  unfold valid. intro H. apply andb_true_iff in H. destruct H as [_ H].
  rewrite forallb_forall in *. intros t Ht. specialize (H t Ht).
  unfold tc_oktest in H. apply andb_true_iff in H. destruct H as [_ H].
  unfold noprint. rewrite forallb_forall in *. intros x Hx. specialize (H x Hx). destruct x; [discriminate H | reflexivity | reflexivity].
Qed.

(* whatever the sink (the pieces themselves, or the platform calls of the console path), the stream is the printed items *)
Lemma run_stream s : o_stream (run s) = flat_map item_print (run_items_of s).
Proof. unfold run. cbn [o_stream]. rewrite sink_stream_concat. apply pieces_concat. Qed.
Lemma run_stream_quiet s : s_verb s <> 2 ->
  o_stream (run s) = render_tc (s_dur s) (s_ri s) (s_passes s) (s_filters s) (s_tests s).
Proof.
  intro H. rewrite run_stream. unfold run_items_of, run_events, decorate.
  destruct (N.eqb_spec (s_verb s) 2) as [E|_]; [contradiction|]. reflexivity.
Qed.
Lemma run_parse_text s trailer : valid s = true -> no_hash trailer = true ->
  parse_for (s_verb s) (o_stream (run s) ++ trailer) = Some (messages_of (s_dur s) (s_ri s) (s_passes s) (s_filters s) (s_tests s)).
Proof.
  intros Hv Ht. rewrite run_stream. unfold parse_for, run_items_of, run_events, decorate.
  destruct (s_verb s =? 2).
  - apply stream_vv; [exact (valid_noprint s Hv) | exact Ht].
  - exact (stream (s_dur s) (s_filters s) (s_ri s) (s_passes s) (s_tests s) trailer (valid_noprint s Hv) Ht).
Qed.
Lemma run_meets_spec_text s trailer : valid s = true -> no_hash trailer = true -> spec s (add_text (run s) trailer) = true.
Proof.
  intros Hv Ht. unfold spec, add_text. cbn [o_stream o_exec].
  rewrite (run_parse_text s trailer Hv Ht). unfold run, run_exec. cbn [o_exec]. rewrite exec_model. apply spec_messages.
Qed.
Lemma add_text_nil o : add_text o [] = o.
Proof. destruct o as [st ex]. unfold add_text. cbn [o_stream o_exec]. rewrite app_nil_r. reflexivity. Qed.
Lemma run_meets_spec s : valid s = true -> spec s (run s) = true.
Proof. intro Hv. rewrite <- (add_text_nil (run s)). apply run_meets_spec_text; [exact Hv | reflexivity]. Qed.

(* ================= chunking and buffering below printBuffer ================= *)
(* the observation of a run whose platform calls `ops` wrote, in whatever chunks and with flushes wherever, exactly the pieces one
   after the other, is the model's observation: it is accepted *)
Lemma run_of_chunks s ops : written ops = concat (run_pieces s) -> {| o_stream := written ops; o_exec := o_exec (run s) |} = run s.
Proof. intro E. rewrite E. unfold run. cbn [o_exec]. rewrite sink_stream_concat. reflexivity. Qed.
Lemma spec_any_chunking s ops : valid s = true -> written ops = concat (run_pieces s) ->
  spec s {| o_stream := written ops; o_exec := o_exec (run s) |} = true.
Proof. intros Hv E. rewrite (run_of_chunks s ops E). apply run_meets_spec. exact Hv. Qed.
Lemma sink_independent s k : o_stream (run s) = o_stream (run {| s_dur := s_dur s; s_ri := s_ri s; s_passes := s_passes s; s_filters := s_filters s;
                                                             s_tests := s_tests s; s_verb := s_verb s; s_sink := k |}).
Proof. rewrite !run_stream. reflexivity. Qed.
(* a line buffer that keeps every character is such a chunking, whatever its capacity *)
Lemma run_linebuf_keeps cap s : run_linebuf false cap s = run s.
Proof. unfold run_linebuf. rewrite <- (run_of_chunks s (linebuf false cap (run_pieces s)) (linebuf_keeps cap _)). reflexivity. Qed.

(* ================= run-ignored: the registry behaves as the same registry without its ignored markers ================= *)
Lemma run_ignored_events fs n ts : passes_events true fs n ts = passes_events false fs n (map unignore ts).
Proof. rewrite !passes_events_times, arm_false_map. reflexivity. Qed.
Lemma run_ignored_exec fs n ts : passes_exec true fs n ts = passes_exec false fs n (map unignore ts).
Proof. rewrite !passes_exec_times, arm_false_map. reflexivity. Qed.
Lemma run_ignored_as_unignored dur n fs ts verb sink :
  run {| s_dur := dur; s_ri := true; s_passes := n; s_filters := fs; s_tests := ts; s_verb := verb; s_sink := sink |}
  = run {| s_dur := dur; s_ri := false; s_passes := n; s_filters := fs; s_tests := map unignore ts; s_verb := verb; s_sink := sink |}.
Proof.
  unfold run, run_exec, run_pieces, run_items_of, run_events. cbn [s_dur s_ri s_passes s_filters s_tests s_verb s_sink].
  rewrite run_ignored_events, run_ignored_exec. reflexivity.
Qed.
(* ... and so no test is flagged and every selected test's body is executed in every pass *)
Lemma run_ignored_no_flag dur n fs ts :
  forallb (fun m => negb (is_msg L_testIgnored m)) (messages_of dur true n fs ts) = true.
Proof.
  unfold messages_of. induction (pass_groups n ts) as [|g gs IH]; [reflexivity|].
  cbn [flat_map]. rewrite forallb_app, IH, andb_true_r. unfold suite_msgs. cbn [forallb]. rewrite forallb_app. cbn [forallb].
  change (negb (is_msg L_testIgnored (mk_named L_testSuiteStarted _))) with true.
  change (negb (is_msg L_testIgnored (mk_named L_testSuiteFinished _))) with true. cbn [andb]. rewrite andb_true_r.
  induction (filter (selected fs) g) as [|t l IHl]; [reflexivity|].
  cbn [flat_map]. rewrite forallb_app, IHl, andb_true_r. unfold test_msgs, test_failures, runs. rewrite orb_true_r. cbn [app forallb].
  change (negb (is_msg L_testIgnored (mk_named L_testStarted _))) with true. cbn [andb]. rewrite forallb_app. cbn [forallb].
  change (negb (is_msg L_testIgnored {| m_name := L_testFinished; m_attrs := _ |})) with true. cbn [andb]. rewrite andb_true_r.
  induction (all_failures (t_body t)) as [|[[f ln] m] fl IHf]; [reflexivity|]. cbn [map forallb]. rewrite IHf. reflexivity.
Qed.

(* ================= the code before the two repairs of D15 ================= *)
(* (1) a failure reported from another file: the test's own path went into the message value unescaped *)
Definition old_path_witness : scenario :=
  {| s_dur := 0; s_ri := false; s_passes := 1; s_filters := []; s_verb := 0; s_sink := 0; s_tests := [ {| t_group := B "G"%string; t_name := B "t"%string; t_file := B "it's.cpp"%string; t_line := 10; t_ignored := false;
                                 t_body := [SFail (B "helper.cpp"%string) 3 (B "boom"%string)] |} ] |}.
Lemma run_old_path_refuted : ~ (forall s, valid s = true -> spec s (run_old_path s) = true).
Proof. intro H. specialize (H old_path_witness eq_refl). vm_compute in H. discriminate H. Qed.
(* (2) a group with the empty name: suite started, never finished *)
Definition old_group_witness : scenario :=
  {| s_dur := 0; s_ri := false; s_passes := 1; s_filters := []; s_verb := 0; s_sink := 0; s_tests := [ {| t_group := []; t_name := B "t"%string; t_file := B "a.cpp"%string; t_line := 10; t_ignored := false; t_body := [] |} ] |}.
Lemma run_old_group_refuted : ~ (forall s, valid s = true -> spec s (run_old_group s) = true).
Proof. intro H. specialize (H old_group_witness eq_refl). vm_compute in H. discriminate H. Qed.
(* the old writer's stream for (2) does parse; it is the balance that fails *)
Lemma run_old_group_unbalanced :
  match tc_parse (o_stream (run_old_group old_group_witness)) with Some ms => balanced ms = false | None => False end.
Proof. vm_compute. reflexivity. Qed.
(* the old writer's stream for (1) is cut by the raw quote: the parser rejects it *)
Lemma run_old_path_rejected : tc_parse (o_stream (run_old_path old_path_witness)) = None.
Proof. vm_compute. reflexivity. Qed.

(* ================= example ================= *)
Definition ex_test1 : test :=
  {| t_group := (B "G'1"%string); t_name := (B "t[1]"%string); t_file := (B "it's.cpp"%string); t_line := 10; t_ignored := false;
     t_body := [SFail ((B "it's.cpp"%string)) 12 ((B "a|b
c"%string)); SFail ((B "h].cpp"%string)) 3 ((B "x"%string)); SFailStop ((B "it's.cpp"%string)) 4 ((B "y"%string)); SFail ((B "z"%string)) 1 ((B "unreachable"%string))] |}.
Definition ex_test2 : test :=
  {| t_group := (B "G'1"%string); t_name := (B "ign"%string); t_file := (B "a.cpp"%string); t_line := 20; t_ignored := true; t_body := [] |}.
Definition ex_test3 : test :=
  {| t_group := []; t_name := []; t_file := (B "a.cpp"%string); t_line := 30; t_ignored := false; t_body := [] |}.
Definition ex_test4 : test :=
  {| t_group := (B "H"%string); t_name := (B "filtered out"%string); t_file := (B "a.cpp"%string); t_line := 40; t_ignored := false; t_body := [] |}.
Definition example_run : scenario :=
  {| s_dur := 42; s_ri := false; s_passes := 1; s_filters := [B "t[1]"%string; B "ign"%string; []]; s_tests := [ex_test1; ex_test2; ex_test3; ex_test4]; s_verb := 0; s_sink := 1 |}.

Lemma example_valid :
  valid example_run = true /\ length (messages_of 42 false 1 (s_filters example_run) (s_tests example_run)) = 16%nat /\ spec example_run (run example_run) = true
  /\ tc_parse (o_stream (run example_run)) = Some (messages_of 42 false 1 (s_filters example_run) (s_tests example_run)).
Proof. vm_compute. repeat split; reflexivity. Qed.

(* run-ignored, two passes: an ignored test whose body fails is started, not flagged, executed and reported failed in both passes; without
   -ri the same registry flags it, does not execute it and reports no failure; an observation in which the test is flagged although
   its body was executed (the run options applied after the start notification) is rejected *)
Definition ex_test5 : test :=
  {| t_group := (B "G'1"%string); t_name := (B "ign"%string); t_file := (B "a.cpp"%string); t_line := 20; t_ignored := true;
     t_body := [SFail (B "a.cpp"%string) 21 (B "boom"%string)] |}.
Definition example_ri : scenario := {| s_dur := 5; s_ri := true; s_passes := 2; s_filters := []; s_tests := [ex_test5; ex_test3]; s_verb := 0; s_sink := 1 |}.
Definition example_no_ri : scenario := {| s_dur := 5; s_ri := false; s_passes := 2; s_filters := []; s_tests := [ex_test5; ex_test3]; s_verb := 0; s_sink := 1 |}.
Definition late_options_obs : obs :=
  {| o_stream := o_stream (run example_no_ri); o_exec := o_exec (run example_ri) |}.
Lemma example_ri_valid :
  valid example_ri = true /\ spec example_ri (run example_ri) = true /\ o_exec (run example_ri) = [1; 1; 1; 1]
  /\ length (filter (is_msg L_testFailed) (messages_of 5 true 2 [] (s_tests example_ri))) = 2%nat
  /\ spec example_no_ri (run example_no_ri) = true /\ o_exec (run example_no_ri) = [0; 1; 0; 1]
  /\ spec example_ri (run example_no_ri) = false /\ spec example_no_ri (run example_ri) = false
  /\ spec example_ri late_options_obs = false /\ spec example_no_ri late_options_obs = false.
Proof. vm_compute. repeat split; reflexivity. Qed.

(* what spec = true says, spelled out *)
Lemma spec_reads s o : spec s o = true <->
  exists ms, parse_for (s_verb s) (o_stream o) = Some ms /\ balanced ms = true
             /\ faithful (s_ri s) (s_filters s) (pass_groups (s_passes s) (s_tests s)) (o_exec o) ms = true.
Proof.
  unfold spec, spec_msgs. split.
  - destruct (parse_for (s_verb s) (o_stream o)) as [ms|]; [|discriminate]. intro H. apply andb_true_iff in H. exists ms. tauto.
  - intros [ms [E [Hb Hf]]]. rewrite E, Hb, Hf. reflexivity.
Qed.
(* what faithful says about one test: the flag is there iff the test is ignored and not run; a flagged test's body was not executed
   and no testFailed follows; an unflagged test's body was executed exactly once *)
Lemma take_test_reads ri t c ms r : take_test ri t c ms = Some r ->
  exists m rest, ms = m :: rest /\ is_msg L_testStarted m = true /\
    ((runs ri t = false /\ c = 0 /\ exists i e, rest = i :: e :: r /\ is_flag t i = true /\ is_msg L_testFinished e = true)
     \/ (runs ri t = true /\ c = 1 /\ (match rest with i :: _ => is_flag t i | [] => false end) = false)).
Proof.
  unfold take_test. destruct ms as [|m rest]; [discriminate|].
  destruct (is_msg L_testStarted m && attr_is L_name m (t_name t)) eqn:Es; [|discriminate].
  apply andb_true_iff in Es. destruct Es as [Es _]. intro H. exists m, rest. split; [reflexivity|]. split; [exact Es|].
  destruct rest as [|i rest'].
  - right. destruct (runs ri t); cbn [negb Bool.eqb andb] in H; [|discriminate].
    destruct (c =? 1) eqn:Ec; [|discriminate]. apply N.eqb_eq in Ec. auto.
  - destruct (is_flag t i) eqn:Ei.
    + left. destruct (runs ri t); cbn [negb Bool.eqb andb] in H; [discriminate|].
      destruct (c =? 0) eqn:Ec; [|discriminate]. apply N.eqb_eq in Ec. cbn [take_failures] in H.
      destruct rest' as [|e r2]; [discriminate|].
      destruct (is_msg L_testFinished e && attr_is L_name e (t_name t)) eqn:Ee; [|discriminate].
      apply andb_true_iff in Ee. destruct Ee as [Ee _]. injection H as <-.
      split; [reflexivity|]. split; [exact Ec|]. exists i, e. auto.
    + right. destruct (runs ri t); cbn [negb Bool.eqb andb] in H; [|discriminate].
      destruct (c =? 1) eqn:Ec; [|discriminate]. apply N.eqb_eq in Ec. auto.
Qed.
Lemma escape_roundtrip s : tc_unescape (tc_escape s) = Some s /\ no_raw_special (tc_escape s) = true.
Proof. split; [apply unescape_escape | apply escape_no_raw_special]. Qed.

(* without filters and run options the loop is the one C16 uses *)
Lemma reg_loop_nofilter gs ts : reg_loop_sel false [] gs ts = reg_loop gs ts.
Proof.
  revert gs. induction ts as [|t rest IH]; intro gs; [reflexivity|].
  cbn [reg_loop_sel reg_loop arm]. unfold sel_events. cbn [selected]. rewrite !IH. reflexivity.
Qed.
Lemma events_nofilter ts : events_sel false [] ts = events_of ts.
Proof. apply reg_loop_nofilter. Qed.
Lemma reg_loop_segments_no_ri fs ts : events_sel false fs ts = flat_map (seg_events fs) (segments ts).
Proof. apply reg_loop_segments_plain. Qed.

(* ================= the lossy line buffer (red-team change C20-3 of round 3) ================= *)
(* one test whose name has 230 characters: the line of its testStarted message is longer than the 255 usable bytes of the buffer *)
Definition long_name_witness : scenario :=
  {| s_dur := 0; s_ri := false; s_passes := 1; s_filters := [];
     s_tests := [ {| t_group := B "G"%string; t_name := repeat 97 230; t_file := B "a.cpp"%string; t_line := 10; t_ignored := false; t_body := [] |} ];
     s_verb := 0; s_sink := 1 |}.
Lemma run_lossy_linebuf_refuted : ~ (forall s, valid s = true -> spec s (run_linebuf true 255 s) = true).
Proof. intro H. specialize (H long_name_witness eq_refl). vm_compute in H. discriminate H. Qed.
(* ... while on runs whose lines are all short it is indistinguishable from the code (which is why the project's tests pass); in the
   witness one byte is lost in each of the two long lines (testStarted, testFinished) *)
Lemma run_lossy_linebuf_short_lines :
  run_linebuf true 255 example_run = run example_run /\ run_linebuf true 255 example_ri = run example_ri
  /\ length (o_stream (run long_name_witness)) = (length (o_stream (run_linebuf true 255 long_name_witness)) + 2)%nat.
Proof. vm_compute. repeat split; reflexivity. Qed.

(* ================= verbose and very verbose ================= *)
Definition example_vv : scenario :=
  {| s_dur := 42; s_ri := false; s_passes := 1; s_filters := [B "t[1]"%string; B "ign"%string; []]; s_tests := [ex_test1; ex_test2; ex_test3; ex_test4];
     s_verb := 2; s_sink := 1 |}.
(* very verbose: testFailed / testFinished follow a progress text on the same line; the strict reading refuses that stream, the
   message-anywhere reading returns the messages of the quiet run *)
Lemma example_vv_valid :
  valid example_vv = true /\ spec example_vv (run example_vv) = true /\ tc_parse (o_stream (run example_vv)) = None
  /\ tc_parse_any (o_stream (run example_vv)) = tc_parse (o_stream (run example_run))
  /\ Nat.ltb (length (o_stream (run example_run))) (length (o_stream (run example_vv))) = true.
Proof. vm_compute. repeat split; reflexivity. Qed.
